/- functional ("frame") description of one scheduler critical section, for the system-level invariants -/
import SluVerif.Props.C04

namespace Slu
open Slu.Gen

theorem getZ_set (a : Array Int) (i j : Nat) (v : Int) (hi : i < a.size) :
    getZ (a.setIfInBounds i v) j = if j = i then v else getZ a j := by
  unfold getZ
  by_cases h : j = i
  · subst h; simp [Array.getD, hi]
  · simp only [Array.getD, Array.size_setIfInBounds, h, if_false]
    split
    · next hj =>
      rw [Array.getInternal_eq_getElem, Array.getInternal_eq_getElem, Array.getElem_setIfInBounds]
      · simp [Ne.symm h]
      · exact hj
    · rfl

/-- static facts about a configuration that never change during scheduling -/
structure CfgOk (c : PanelCfg) (sh : Sh) : Prop where
  state_size : sh.state.size = c.n + 1
  ukids_size : sh.ukids.size = c.n + 1
  dad_gt : ∀ j, j < c.n → j < dadPanel c sh j ∧ dadPanel c sh j ≤ c.n

/-- how the first half picked its panel -/
inductive Picked (c : PanelCfg) (sh : Sh) (cur : Option Nat) : Option Nat → Prop
  | none : Picked c sh cur none
  | dad (q : Nat) (h1 : cur = some q) (h2 : getZ sh.ukids (dadPanel c sh q) - 1 = 0)
        (h3 : getN sh.state (dadPanel c sh q) > BUSY) : Picked c sh cur (some (dadPanel c sh q))
  | queue (j k : Nat) (h1 : getN sh.state j ≥ CANGO) (h2 : sh.head ≤ k) (h3 : k < sh.tail) (h4 : getN sh.queue k = j) :
        Picked c sh cur (some j)

theorem pickPanel_frame (c : PanelCfg) (sh : Sh) (cur : Option Nat) (hq : QueueOk sh)
    (sh1 : Sh) (got : Option Nat) (hr : pickPanel c sh cur = (sh1, got)) :
    Picked c sh cur got ∧
    sh1.ukids = (match cur with
                 | some q => sh.ukids.setIfInBounds (dadPanel c sh q) (getZ sh.ukids (dadPanel c sh q) - 1)
                 | none => sh.ukids) ∧
    sh1.fb = sh.fb ∧ sh1.typ = sh.typ := by
  unfold pickPanel at hr
  cases cur with
  | none =>
    simp only at hr
    obtain ⟨_, _, a3, a4⟩ := dequeue_spec _ sh hq sh1 got hr
    obtain ⟨b1, b2, b3, b4, b5, b6, b7, b8, b9⟩ := a3
    refine ⟨?_, b3, b6, b9⟩
    cases got with
    | none => exact Picked.none
    | some j =>
      obtain ⟨h1, k, h2, h3, h4, _, _⟩ := a4 j rfl
      exact Picked.queue j k h1 h2 h3 h4
  | some q =>
    simp only at hr
    split at hr
    · next hcond =>
      simp only [Prod.mk.injEq] at hr
      obtain ⟨rfl, rfl⟩ := hr
      simp only [Bool.and_eq_true, beq_iff_eq, decide_eq_true_eq] at hcond
      exact ⟨Picked.dad q rfl hcond.1 hcond.2, rfl, rfl, rfl⟩
    · have hqA : QueueOk { sh with ukids := sh.ukids.setIfInBounds (dadPanel c sh q) (getZ sh.ukids (dadPanel c sh q) - 1) } := hq
      obtain ⟨_, _, a3, a4⟩ := dequeue_spec _ _ hqA sh1 got hr
      obtain ⟨b1, b2, b3, b4, b5, b6, b7, b8, b9⟩ := a3
      refine ⟨?_, b3, b6, b9⟩
      cases got with
      | none => exact Picked.none
      | some j =>
        obtain ⟨h1, k, h2, h3, h4, _, _⟩ := a4 j rfl
        exact Picked.queue j k h1 h2 h3 h4

end Slu

namespace Slu
open Slu.Gen

/-- the parent's counter after the report of `cur` -/
def ukAfter (c : PanelCfg) (sh : Sh) (cur : Option Nat) (d : Nat) : Int :=
  match cur with
  | some q => if d = dadPanel c sh q then getZ sh.ukids d - 1 else getZ sh.ukids d
  | none => getZ sh.ukids d

/-- the complete functional description of one critical section -/
theorem schedule_frame (c : PanelCfg) (sh : Sh) (cur : Option Nat) (b0 : Nat) (hq : QueueOk sh)
    (hss : sh.state.size = c.n + 1) (hus : sh.ukids.size = c.n + 1)
    (Pan : Nat → Prop) (hpn : ∀ j, Pan j → j < c.n)
    (hdad : ∀ j, Pan j → j < dadPanel c sh j ∧ dadPanel c sh j ≤ c.n)
    (hdp : ∀ j, Pan j → dadPanel c sh j < c.n → Pan (dadPanel c sh j))
    (hcur : ∀ q, cur = some q → Pan q)
    (hqueue : ∀ k, sh.head ≤ k → k < sh.tail → Pan (getN sh.queue k))
    (hroot : ∀ q, cur = some q → dadPanel c sh q = c.n → getZ sh.ukids c.n - 1 ≠ 0) :
    let r := schedule c sh cur b0
    let uk' : Nat → Int := ukAfter c sh cur
    QueueOk r.1 ∧ r.1.size = sh.size ∧ r.1.state.size = c.n + 1 ∧ r.1.ukids.size = c.n + 1 ∧
    (∀ d, getZ r.1.ukids d = uk' d) ∧
    Picked c sh cur r.2.1 ∧
    (r.2.1 = none → r.1.state = sh.state ∧ r.1.tasksRemain = sh.tasksRemain) ∧
    (∀ j, r.2.1 = some j → j < c.n ∧ getN sh.state j > BUSY ∧ r.1.tasksRemain = sh.tasksRemain - 1 ∧
        ∀ p, getN r.1.state p =
          if p = j then BUSY
          else if p = dadPanel c sh j ∧ dadPanel c sh j < c.n ∧ uk' (dadPanel c sh j) = 1 then CANPIPE
          else getN sh.state p) := by
  intro r uk'
  -- first half
  cases hp : pickPanel c sh cur with
  | mk sh1 got =>
    obtain ⟨a1, a2, a3, a4, a5, a6, a7, a8, a9⟩ := pickPanel_spec c sh cur hq sh1 got hp
    obtain ⟨f1, f2, f3, f4⟩ := pickPanel_frame c sh cur hq sh1 got hp
    have huk1 : ∀ d, getZ sh1.ukids d = uk' d := by
      intro d
      rw [f2]
      cases cur with
      | none => rfl
      | some q =>
        simp only [uk', ukAfter]
        have hqn := hpn q (hcur q rfl)
        have hd := hdad q (hcur q rfl)
        rw [getZ_set _ _ _ _ (by rw [hus]; omega)]
        by_cases e : d = dadPanel c sh q
        · rw [if_pos e, if_pos e, e]
        · rw [if_neg e, if_neg e]
    have hus1 : sh1.ukids.size = c.n + 1 := by
      rw [f2]; cases cur <;> simp [hus]
    cases got with
    | none =>
      have hr : r = (sh1, none, b0) := by
        show schedule c sh cur b0 = _
        unfold schedule; rw [hp]
      rw [hr]
      simp only
      refine ⟨a1, a7, by rw [a4]; exact hss, hus1, huk1, f1, (fun _ => ⟨a4, a5⟩), (fun j h => by cases h)⟩
    | some j =>
      have hr : r = ((takePanel c sh1 j).1, some j, (takePanel c sh1 j).2) := by
        show schedule c sh cur b0 = _
        unfold schedule; rw [hp]
      rw [hr]
      simp only
      have hunt := a9 j rfl
      have hjP : Pan j := by
        cases f1 with
        | dad q h1 h2 h3 =>
          have hqP := hcur q h1
          have hd := hdad q hqP
          apply hdp q hqP
          by_contra hge
          have hn : dadPanel c sh q = c.n := by omega
          rw [hn] at h2
          exact hroot q h1 hn h2
        | queue j' k h1 h2 h3 h4 => rw [← h4]; exact hqueue k h2 h3
      have hjn : j < c.n := hpn j hjP
      have hd1 : dadPanel c sh1 j = dadPanel c sh j := dadPanel_congr c sh1 sh a7 j
      have hdj := hdad j hjP
      refine ⟨?_, ?_, ?_, ?_, ?_, f1, (fun h => by cases h), ?_⟩
      · -- QueueOk
        obtain ⟨h1, h2⟩ := a1
        refine ⟨?_, ?_⟩
        · rw [takePanel_head, takePanel_tail]; split <;> omega
        · rw [takePanel_head, takePanel_tail, takePanel_count]; split
          · push_cast; omega
          · exact h2
      · rw [takePanel_size, a7]
      · rw [takePanel_state]; split <;> simp [a4, hss]
      · rw [takePanel_ukids]; exact hus1
      · intro d; rw [takePanel_ukids]; exact huk1 d
      · intro j' hj'
        simp only [Option.some.injEq] at hj'
        subst hj'
        refine ⟨hjn, hunt, by rw [takePanel_tasks, a5], ?_⟩
        intro p
        rw [takePanel_state]
        have hpc : pipeCond c sh1 j = true ↔ (dadPanel c sh j < c.n ∧ uk' (dadPanel c sh j) = 1) := by
          unfold pipeCond
          rw [hd1, huk1]
          simp only [Bool.and_eq_true, decide_eq_true_eq, beq_iff_eq]
        by_cases hpipe : pipeCond c sh1 j = true
        · rw [if_pos hpipe, hd1]
          have hpp := hpc.1 hpipe
          by_cases e1 : p = j
          · rw [if_pos e1, e1, getN_set_ne _ _ _ _ (by omega), getN_set _ _ _ _ (by rw [a4, hss]; omega), if_pos rfl]
          · rw [if_neg e1]
            by_cases e2 : p = dadPanel c sh j
            · rw [if_pos ⟨e2, hpp⟩, e2, getN_set _ _ _ _ (by simp only [Array.size_setIfInBounds]; rw [a4, hss]; omega), if_pos rfl]
            · rw [if_neg (fun h => e2 h.1), getN_set_ne _ _ _ _ e2, getN_set_ne _ _ _ _ e1, a4]
        · rw [if_neg hpipe]
          have hnp : ¬ (dadPanel c sh j < c.n ∧ uk' (dadPanel c sh j) = 1) := fun h => hpipe (hpc.2 h)
          by_cases e1 : p = j
          · rw [if_pos e1, e1, getN_set _ _ _ _ (by rw [a4, hss]; omega), if_pos rfl]
          · rw [if_neg e1, if_neg (fun h => hnp h.2), getN_set_ne _ _ _ _ e1, a4]

end Slu

namespace Slu
open Slu.Gen

/-- queue side of the critical section: the only possible new entry is the parent made CANPIPE, appended at the old tail -/
theorem schedule_queue (c : PanelCfg) (sh : Sh) (cur : Option Nat) (b0 : Nat) (hq : QueueOk sh) :
    let r := schedule c sh cur b0
    (r.1.tail = sh.tail ∧ r.1.queue = sh.queue) ∨
    (∃ j, r.2.1 = some j ∧ r.1.tail = sh.tail + 1 ∧ r.1.queue = sh.queue.setIfInBounds sh.tail (dadPanel c sh j) ∧
          dadPanel c sh j < c.n ∧ getZ r.1.ukids (dadPanel c sh j) = 1) := by
  intro r
  cases hp : pickPanel c sh cur with
  | mk sh1 got =>
    obtain ⟨a1, a2, a3, a4, a5, a6, a7, a8, a9⟩ := pickPanel_spec c sh cur hq sh1 got hp
    cases got with
    | none =>
      have hr : r = (sh1, none, b0) := by
        show schedule c sh cur b0 = _
        unfold schedule; rw [hp]
      rw [hr]; left; exact ⟨a3, a6⟩
    | some j =>
      have hr : r = ((takePanel c sh1 j).1, some j, (takePanel c sh1 j).2) := by
        show schedule c sh cur b0 = _
        unfold schedule; rw [hp]
      rw [hr]
      simp only
      have hd1 : dadPanel c sh1 j = dadPanel c sh j := dadPanel_congr c sh1 sh a7 j
      by_cases hpipe : pipeCond c sh1 j = true
      · right
        refine ⟨j, rfl, ?_, ?_, ?_, ?_⟩
        · rw [takePanel_tail, if_pos hpipe, a3]
        · rw [takePanel_queue, if_pos hpipe, a6, a3, hd1]
        · unfold pipeCond at hpipe
          simp only [Bool.and_eq_true, decide_eq_true_eq] at hpipe
          rw [← hd1]; exact hpipe.1
        · unfold pipeCond at hpipe
          simp only [Bool.and_eq_true, beq_iff_eq] at hpipe
          rw [takePanel_ukids, ← hd1]; exact hpipe.2
      · left
        refine ⟨?_, ?_⟩
        · rw [takePanel_tail, if_neg hpipe, a3]
        · rw [takePanel_queue, if_neg hpipe, a6]

end Slu
