/- C20 helper lemmas: free-format tokens of the `?readmt` text form. -/
import SluVerif.Proofs.ReadBody
namespace Slu.Read

/-! ### free-format tokens (`scanf`) -/

def WsAll (s : Str) : Prop := ∀ c ∈ s, isSpace c = true
instance (s : Str) : Decidable (WsAll s) := by unfold WsAll; infer_instance

/-- empty, or starts with a white-space character -/
def WsHead : Str → Prop
  | [] => True
  | c :: _ => isSpace c = true

theorem skipSpace_ws {ws : Str} (h : WsAll ws) (s : Str) : skipSpace (ws ++ s) = skipSpace s := by
  induction ws with
  | nil => rfl
  | cons c cs ih =>
    have hc : isSpace c = true := h c (by simp)
    simp only [List.cons_append, skipSpace, hc, if_true]
    exact ih (fun x hx => h x (by simp [hx]))

theorem WsHead.noDig {s : Str} (h : WsHead s) : NoDigHead s := by
  cases s with
  | nil => trivial
  | cons c cs =>
    simp only [WsHead] at h
    simp only [NoDigHead]
    cases hd : isDig c with
    | false => rfl
    | true => rw [isDig_not_space hd] at h; cases h

theorem wsHead_append {ws s : Str} (h : WsAll ws) (hne : ws ≠ []) : WsHead (ws ++ s) := by
  cases ws with
  | nil => exact absurd rfl hne
  | cons c cs => exact h c (by simp)

theorem isSpace_not_expLetter {c : Char} (h : isSpace c = true) : isExpLetter c = false := by
  simp only [isSpace, Bool.or_eq_true, beq_iff_eq] at h
  rcases h with ((((rfl | rfl) | rfl) | rfl) | rfl) | rfl <;> decide

theorem isSpace_not_dot {c : Char} (h : isSpace c = true) : c ≠ '.' := by
  simp only [isSpace, Bool.or_eq_true, beq_iff_eq] at h
  rcases h with ((((rfl | rfl) | rfl) | rfl) | rfl) | rfl <;> decide

/-- `scanf("%d")` on white space, digits, then a non-digit. -/
theorem scanInt_digits {ws rest : Str} {k : Nat} (hws : WsAll ws) (hk : k < 2147483648) (hr : NoDigHead rest) :
    scanInt (ws ++ (natDigits k ++ rest)) = some ((k : Int), rest) := by
  obtain ⟨c, cs, hcs⟩ := List.exists_cons_of_ne_nil (natDigits_ne_nil k)
  have hd := natDigits_allDig k
  have hc : isDig c = true := by rw [hcs] at hd; exact hd.head
  unfold scanInt
  rw [skipSpace_ws hws, hcs, List.cons_append, skipSpace_of_not_space (isDig_not_space hc), takeSign_of_dig hc]
  simp only
  rw [← List.cons_append, ← hcs, spanDigits_append hd hr]
  have : (natDigits k).isEmpty = false := by rw [hcs]; rfl
  simp [this, applySign, valOf_natDigits, inInt32_ofNat hk]

/-- scanInt only looks at its input after white space. -/
theorem scanInt_skip (s : Str) : scanInt (skipSpace s) = scanInt s := by
  have idem : ∀ t : Str, skipSpace (skipSpace t) = skipSpace t := by
    intro t
    induction t with
    | nil => rfl
    | cons c cs ih =>
      by_cases hc : isSpace c = true
      · simp [skipSpace, hc, ih]
      · simp [skipSpace, hc]
  unfold scanInt; rw [idem]

/-! ### decimals followed by white space -/

/-- exponent letters of `scanf("%lf")`: `E`/`e` only. -/
def Dec.WFE (d : Dec) : Prop := d.WF ∧ ∀ e, d.ex = some e → isExpLetter e.letter = true

theorem dToE_expLetter {c : Char} (h : isExpLetter c = true) : dToE c = c := by
  simp only [isExpLetter, Bool.or_eq_true, beq_iff_eq] at h
  rcases h with rfl | rfl <;> decide

theorem parseExp_text_rest (e : ExpPart) (h : e.WF) (hl : isExpLetter e.letter = true) (rest : Str) (hr : WsHead rest) :
    parseExp (e.text ++ rest) = (applySign e.neg (valOf e.ds), rest, false) := by
  obtain ⟨_, hd, hne⟩ := h
  obtain ⟨c, cs, hcs⟩ := List.exists_cons_of_ne_nil hne
  have hc : isDig c = true := by rw [hcs] at hd; exact hd.head
  simp only [ExpPart.text, List.cons_append, List.append_assoc]
  simp only [parseExp, hl, if_true]
  have hts : takeSign (signStr e.neg e.plus ++ (e.ds ++ rest)) = (e.neg, e.ds ++ rest) := by
    rw [hcs]; exact takeSign_signStr_dig _ _ (dig_ne_sign hc)
  have hsp : spanDigits (e.ds ++ rest) = (e.ds, rest) := spanDigits_append hd hr.noDig
  rw [hts]; simp only [hsp]
  have : e.ds.isEmpty = false := by rw [hcs]; rfl
  simp [this]

theorem parseExp_exText_rest (d : Dec) (h : d.WFE) (rest : Str) (hr : WsHead rest) :
    parseExp (d.exText ++ rest) = (d.exVal, rest, false) := by
  unfold Dec.exText Dec.exVal
  cases hex : d.ex with
  | none =>
    simp only [List.nil_append]
    cases rest with
    | nil => rfl
    | cons c cs => simp only [WsHead] at hr; simp [parseExp, isSpace_not_expLetter hr]
  | some e => exact parseExp_text_rest e (h.1.2.2.2 e hex) (h.2 e hex) rest hr

theorem exText_rest_noDigHead (d : Dec) (h : d.WFE) (rest : Str) (hr : WsHead rest) : NoDigHead (d.exText ++ rest) := by
  unfold Dec.exText
  cases hex : d.ex with
  | none => simpa using hr.noDig
  | some e =>
    have hl := h.2 e hex
    simp only [ExpPart.text, List.cons_append, NoDigHead]
    simp only [isExpLetter, Bool.or_eq_true, beq_iff_eq] at hl
    rcases hl with h1 | h1 <;> rw [h1] <;> decide

theorem parseUnsigned_body_rest (neg : Bool) (d : Dec) (h : d.WFE) (rest : Str) (hr : WsHead rest) :
    parseUnsigned neg (d.ip ++ '.' :: (d.fp ++ (d.exText ++ rest))) =
      FRes.val neg (valOf (d.ip ++ d.fp)) (d.exVal - (d.fp.length : Int)) rest false := by
  obtain ⟨hip, hfp, hne, _⟩ := h.1
  have hsp : (startsSpecial (d.ip ++ '.' :: (d.fp ++ (d.exText ++ rest))) ||
      startsHex (d.ip ++ '.' :: (d.fp ++ (d.exText ++ rest)))) = false := by
    cases hi : d.ip with
    | nil =>
      simp only [List.nil_append, startsSpecial_dig_or_dot (Or.inr rfl), startsHex_dot, Bool.or_self]
    | cons c cs =>
      rw [hi] at hip
      simp only [List.cons_append, startsSpecial_dig_or_dot (Or.inl hip.head), Bool.false_or]
      cases cs with
      | nil => exact startsHex_second (Or.inr rfl)
      | cons c2 cs2 => exact startsHex_second (Or.inl hip.tail.head)
  unfold parseUnsigned
  rw [hsp]
  have h1 : spanDigits (d.ip ++ '.' :: (d.fp ++ (d.exText ++ rest))) = (d.ip, '.' :: (d.fp ++ (d.exText ++ rest))) :=
    spanDigits_append hip (by simp [NoDigHead]; decide)
  have h2 : spanDigits (d.fp ++ (d.exText ++ rest)) = (d.fp, d.exText ++ rest) :=
    spanDigits_append hfp (exText_rest_noDigHead d h rest hr)
  simp only [Bool.false_eq_true, if_false, h1, h2]
  have hemp : (d.ip.isEmpty && d.fp.isEmpty) = false := by
    cases hi : d.ip with
    | nil =>
      cases hf : d.fp with
      | nil => rw [hi, hf] at hne; exact absurd rfl hne
      | cons _ _ => rfl
    | cons _ _ => rfl
  rw [hemp, parseExp_exText_rest d h rest hr]
  simp

/-- **`scanf("%lf")`** on white space, a printed decimal, then white space (or the end). -/
theorem scanFloat_text {ws : Str} (hws : WsAll ws) (d : Dec) (h : d.WFE) (rest : Str) (hr : WsHead rest) :
    scanFloat (ws ++ (d.text ++ rest)) = some (d.value, rest) := by
  have hip := h.1.1
  obtain ⟨c, s, hbody, hc⟩ : ∃ c s, d.ip ++ '.' :: (d.fp ++ (d.exText ++ rest)) = c :: s ∧ (isDig c = true ∨ c = '.') := by
    cases hi : d.ip with
    | nil => exact ⟨'.', _, rfl, Or.inr rfl⟩
    | cons c cs => rw [hi] at hip; exact ⟨c, _, rfl, Or.inl hip.head⟩
  have hcsp : isSpace c = false := by
    rcases hc with hc | rfl
    · exact isDig_not_space hc
    · decide
  have hcsg : c ≠ '-' ∧ c ≠ '+' := by
    rcases hc with hc | rfl
    · exact dig_ne_sign hc
    · decide
  have htext : d.text ++ rest = signStr d.neg d.plus ++ (d.ip ++ '.' :: (d.fp ++ (d.exText ++ rest))) := by
    rw [d.text_eq]; simp only [List.append_assoc, List.cons_append]
  unfold scanFloat parseFloat
  rw [htext, skipSpace_ws hws, hbody, skipSpace_signStr _ _ hcsp, takeSign_signStr_dig _ _ hcsg]
  simp only
  rw [← hbody, parseUnsigned_body_rest d.neg d h rest hr, d.value_eq]
  simp


theorem skipSpace_idem (t : Str) : skipSpace (skipSpace t) = skipSpace t := by
  induction t with
  | nil => rfl
  | cons c cs ih =>
    by_cases hc : isSpace c = true
    · simp [skipSpace, hc, ih]
    · simp [skipSpace, hc]

theorem scanInt_congr {s s' : Str} (h : skipSpace s = skipSpace s') : scanInt s = scanInt s' := by
  rw [← scanInt_skip s, ← scanInt_skip s', h]

structure MTEntry.WF (cplx : Bool) (e : MTEntry) : Prop where
  pre : WsAll e.pre
  row : e.row + 1 < 2147483648
  mid : WsAll e.mid ∧ e.mid ≠ []
  re : e.re.WFE
  mid2 : WsAll e.mid2 ∧ e.mid2 ≠ []
  im : cplx = true → e.im.WFE
  post : WsAll e.post ∧ e.post ≠ []

/-- the loop over the entries of one column. -/
theorem mtEntries_written (cplx : Bool) (nonz : Int) :
    ∀ (es : List MTEntry) (lasta : Nat) (rest s : Str),
      (∀ e ∈ es, e.WF cplx) → ((lasta + es.length : Nat) : Int) ≤ nonz →
      skipSpace s = skipSpace ((es.map (MTEntry.text cplx)).flatten ++ rest) →
      ∃ r', mtEntries cplx nonz es.length (lasta : Int) s =
          some (es.map (fun e => (e.row : Int)), (es.map (MTEntry.values cplx)).flatten, ((lasta + es.length : Nat) : Int), r') ∧
        skipSpace r' = skipSpace rest := by
  intro es
  induction es with
  | nil =>
    intro lasta rest s _ _ hs
    exact ⟨s, by simp [mtEntries], by simpa using hs⟩
  | cons e es ih =>
    intro lasta rest s hwf hle hs
    have he := hwf e (by simp)
    have hlt : ¬ ((lasta : Int) ≥ nonz) := by
      simp only [List.length_cons] at hle; omega
    -- what follows the first entry
    obtain ⟨r', hr1, hr2⟩ := ih (lasta + 1) rest (skipSpace (e.post ++ ((es.map (MTEntry.text cplx)).flatten ++ rest)))
      (fun x hx => hwf x (by simp [hx])) (by simp only [List.length_cons] at hle; omega)
      (by rw [skipSpace_idem, skipSpace_ws he.post.1])
    have hrow : inInt32 (e.row : Int) = true := inInt32_ofNat (by have := he.row; omega)
    have hrow' : ((e.row + 1 : Nat) : Int) - 1 = (e.row : Int) := by omega
    have hl1 : ((lasta : Int) + 1) = ((lasta + 1 : Nat) : Int) := by omega
    have hfin : ((lasta + 1 + es.length : Nat) : Int) = ((lasta + (e :: es).length : Nat) : Int) := by
      simp only [List.length_cons]; omega
    cases cplx with
    | false =>
      have htxt : (List.map (MTEntry.text false) (e :: es)).flatten ++ rest =
          e.pre ++ (natDigits (e.row + 1) ++ (e.mid ++ (e.re.text ++ (e.post ++ ((es.map (MTEntry.text false)).flatten ++ rest))))) := by
        simp [MTEntry.text, List.append_assoc]
      have h1 : scanInt s = some (((e.row + 1 : Nat) : Int), e.mid ++ (e.re.text ++ (e.post ++ ((es.map (MTEntry.text false)).flatten ++ rest)))) := by
        rw [scanInt_congr hs, htxt]
        exact scanInt_digits he.pre he.row (wsHead_append he.mid.1 he.mid.2).noDig
      have h2 := scanFloat_text he.mid.1 e.re he.re (e.post ++ ((es.map (MTEntry.text false)).flatten ++ rest))
        (wsHead_append he.post.1 he.post.2)
      refine ⟨r', ?_, hr2⟩
      simp only [List.length_cons, mtEntries, if_neg hlt, h1, hrow, h2, hl1, hr1, hrow', hfin]
      simp [MTEntry.values]
    | true =>
      have htxt : (List.map (MTEntry.text true) (e :: es)).flatten ++ rest =
          e.pre ++ (natDigits (e.row + 1) ++ (e.mid ++ (e.re.text ++ (e.mid2 ++ (e.im.text ++ (e.post ++ ((es.map (MTEntry.text true)).flatten ++ rest))))))) := by
        simp [MTEntry.text, List.append_assoc]
      have h1 : scanInt s = some (((e.row + 1 : Nat) : Int), e.mid ++ (e.re.text ++ (e.mid2 ++ (e.im.text ++ (e.post ++ ((es.map (MTEntry.text true)).flatten ++ rest)))))) := by
        rw [scanInt_congr hs, htxt]
        exact scanInt_digits he.pre he.row (wsHead_append he.mid.1 he.mid.2).noDig
      have h2 := scanFloat_text he.mid.1 e.re he.re (e.mid2 ++ (e.im.text ++ (e.post ++ ((es.map (MTEntry.text true)).flatten ++ rest))))
        (wsHead_append he.mid2.1 he.mid2.2)
      have h3 := scanFloat_text he.mid2.1 e.im (he.im rfl) (e.post ++ ((es.map (MTEntry.text true)).flatten ++ rest))
        (wsHead_append he.post.1 he.post.2)
      refine ⟨r', ?_, hr2⟩
      simp only [List.length_cons, mtEntries, if_neg hlt, h1, hrow, h2, h3, hl1, hr1, hrow', hfin]
      simp [MTEntry.values]


structure MTCol.WF (cplx : Bool) (c : MTCol) : Prop where
  pre : WsAll c.pre
  post : WsAll c.post ∧ c.post ≠ []
  len : c.entries.length < 2147483648
  entries : ∀ e ∈ c.entries, e.WF cplx

theorem mtCount_cons (c : MTCol) (cs : List MTCol) : mtCount (c :: cs) = c.entries.length + mtCount cs := by
  simp [mtCount]

/-- the loop over the columns. -/
theorem mtCols_written (cplx : Bool) (nonz : Int) :
    ∀ (cs : List MTCol) (lasta : Nat) (rest s : Str),
      (∀ c ∈ cs, c.WF cplx) → ((lasta + mtCount cs : Nat) : Int) ≤ nonz →
      skipSpace s = skipSpace ((cs.map (MTCol.text cplx)).flatten ++ rest) →
      ∃ ptr, mtCols cplx nonz cs.length (lasta : Int) s =
          some (ptr, mtRows cs, mtVals cplx cs, ((lasta + mtCount cs : Nat) : Int)) ∧
        ptr ++ [((lasta + mtCount cs : Nat) : Int)] = mtColptr lasta cs := by
  intro cs
  induction cs with
  | nil =>
    intro lasta rest s _ _ _
    exact ⟨[], by simp [mtCols, mtRows, mtVals, mtCount], by simp [mtColptr, mtCount]⟩
  | cons c cs ih =>
    intro lasta rest s hwf hle hs
    have hc := hwf c (by simp)
    rw [mtCount_cons] at hle
    have htxt : (List.map (MTCol.text cplx) (c :: cs)).flatten ++ rest =
        c.pre ++ (natDigits c.entries.length ++ (c.post ++ ((c.entries.map (MTEntry.text cplx)).flatten ++
          ((cs.map (MTCol.text cplx)).flatten ++ rest)))) := by
      simp [MTCol.text, List.append_assoc]
    have h1 : scanInt s = some ((c.entries.length : Int), c.post ++ ((c.entries.map (MTEntry.text cplx)).flatten ++
          ((cs.map (MTCol.text cplx)).flatten ++ rest))) := by
      rw [scanInt_congr hs, htxt]
      exact scanInt_digits hc.pre hc.len (wsHead_append hc.post.1 hc.post.2).noDig
    obtain ⟨r', hr1, hr2⟩ := mtEntries_written cplx nonz c.entries lasta ((cs.map (MTCol.text cplx)).flatten ++ rest)
      (c.post ++ ((c.entries.map (MTEntry.text cplx)).flatten ++ ((cs.map (MTCol.text cplx)).flatten ++ rest)))
      hc.entries (by omega) (skipSpace_ws hc.post.1 _)
    obtain ⟨ptr, hp1, hp2⟩ := ih (lasta + c.entries.length) rest r' (fun x hx => hwf x (by simp [hx]))
      (by rw [Nat.add_assoc]; exact hle) hr2
    have hfin : ((lasta + c.entries.length + mtCount cs : Nat) : Int) = ((lasta + mtCount (c :: cs) : Nat) : Int) := by
      rw [mtCount_cons, Nat.add_assoc]
    refine ⟨(lasta : Int) :: ptr, ?_, ?_⟩
    · simp only [List.length_cons, mtCols, h1, Int.toNat_natCast, hr1, hp1, hfin]
      simp [mtRows, mtVals]
    · rw [← hfin, List.cons_append, hp2]; rfl

end Slu.Read
