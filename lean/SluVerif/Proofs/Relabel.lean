/- scatter loops (`out[p[i]] = f i`), relabelling of the etree by the postorder, and the two main
   facts about TreePostorder: permutation and contiguity of subtrees. -/
import SluVerif.Proofs.PostorderMain
namespace Slu.Pre

/-! ### scatter -/

def scat (p : Array Nat) (f : Nat → Nat) (l : List Nat) (out : Array Nat) : Array Nat :=
  l.foldl (fun a i => a.setIfInBounds (getN p i) (f i)) out

theorem scatter_eq_scat (n : Nat) (p : Array Nat) (f : Nat → Nat) (out : Array Nat) :
    scatter n p f out = scat p f (List.range n) out := rfl

theorem scat_size (p : Array Nat) (f : Nat → Nat) (l : List Nat) (out : Array Nat) :
    (scat p f l out).size = out.size := by
  induction l generalizing out with
  | nil => rfl
  | cons a l ih => simp [scat, List.foldl_cons] at ih ⊢; rw [ih]; simp

theorem scat_not (p : Array Nat) (f : Nat → Nat) (l : List Nat) (out : Array Nat) (x : Nat)
    (h : ∀ i, i ∈ l → getN p i ≠ x) : getN (scat p f l out) x = getN out x := by
  induction l generalizing out with
  | nil => rfl
  | cons a l ih =>
      simp only [scat, List.foldl_cons]
      have := ih (out.setIfInBounds (getN p a) (f a)) (fun i hi => h i (List.mem_cons_of_mem _ hi))
      simp only [scat] at this
      rw [this, getN_set]
      have hne : ¬ (getN p a = x ∧ getN p a < out.size) := fun hh => h a (by simp) hh.1
      simp [hne]

theorem scat_get (p : Array Nat) (f : Nat → Nat) (l : List Nat) (out : Array Nat) (hnd : l.Nodup)
    (hb : ∀ i, i ∈ l → getN p i < out.size)
    (hinj : ∀ i j, i ∈ l → j ∈ l → getN p i = getN p j → i = j) (i : Nat) (hi : i ∈ l) :
    getN (scat p f l out) (getN p i) = f i := by
  induction l generalizing out with
  | nil => cases hi
  | cons a l ih =>
      simp only [scat, List.foldl_cons]
      have hnd' := List.nodup_cons.1 hnd
      by_cases hia : i = a
      · subst hia
        have := scat_not p f l (out.setIfInBounds (getN p i) (f i)) (getN p i) (by
          intro j hj heq
          have := hinj j i (List.mem_cons_of_mem _ hj) (by simp) heq
          subst this; exact hnd'.1 hj)
        simp only [scat] at this
        rw [this, getN_set]
        simp [hb i (by simp)]
      · have hil : i ∈ l := by
          rcases List.mem_cons.1 hi with h | h
          · exact absurd h hia
          · exact h
        have := ih (out.setIfInBounds (getN p a) (f a)) hnd'.2
          (fun j hj => by simpa using hb j (List.mem_cons_of_mem _ hj))
          (fun j k hj hk => hinj j k (List.mem_cons_of_mem _ hj) (List.mem_cons_of_mem _ hk)) hil
        simpa only [scat] using this

theorem scatter_size (n : Nat) (p : Array Nat) (f : Nat → Nat) (out : Array Nat) :
    (scatter n p f out).size = out.size := scat_size p f _ out

/-- `out[p[i]] = f i` after the loop, when `p` is injective on `0..n-1` with values inside `out` -/
theorem scatter_get {n : Nat} {p : Array Nat} (f : Nat → Nat) {out : Array Nat} (hp : PermOn n p)
    (hs : n ≤ out.size) {i : Nat} (hi : i < n) : getN (scatter n p f out) (getN p i) = f i := by
  rw [scatter_eq_scat]
  apply scat_get p f _ out List.nodup_range
  · intro j hj; have := hp.1 j (List.mem_range.1 hj); omega
  · intro j k hj hk; exact hp.2 j k (List.mem_range.1 hj) (List.mem_range.1 hk)
  · exact List.mem_range.2 hi

/-! ### postordered forests -/

/-- `par` is a postordered forest: parents are larger, and the subtree of every `v` is the contiguous
index range `[v + 1 - s, v]` (its size is `s`). -/
def Postordered (n : Nat) (par : Array Nat) : Prop :=
  par.size = n ∧ (∀ v, v < n → v < getN par v ∧ getN par v ≤ n) ∧
  ∀ v, v < n → ∃ s, 1 ≤ s ∧ s ≤ v + 1 ∧
    ∀ u, u < n → (Desc (getN par) n v u ↔ (v + 1 - s ≤ u ∧ u ≤ v))

section main
variable {n : Nat} {parent : Array Nat} {rank : Nat → Nat}

theorem post_permOn (hp : ∀ v, v < n → getN parent v ≤ n) (hr : ∀ v, v < n → rank v < rank (getN parent v)) :
    PermOn n (treePostorder n parent) := by
  have c := fctx_of hp hr
  constructor
  · intro i hi
    rw [post_get hp hr (Nat.le_of_lt hi)]
    have h1 := q_le c (Nat.le_of_lt hi)
    have h2 : (poAll n parent rank).idxOf i ≠ n := by
      intro h
      have := q_inj c (Nat.le_of_lt hi) (Nat.le_refl _) (by rw [h, q_root c])
      omega
    omega
  · intro i j hi hj h
    rw [post_get hp hr (Nat.le_of_lt hi), post_get hp hr (Nat.le_of_lt hj)] at h
    exact q_inj c (Nat.le_of_lt hi) (Nat.le_of_lt hj) h

theorem post_root (hp : ∀ v, v < n → getN parent v ≤ n) (hr : ∀ v, v < n → rank v < rank (getN parent v)) :
    getN (treePostorder n parent) n = n := by
  rw [post_get hp hr (Nat.le_refl _), q_root (fctx_of hp hr)]

theorem relabel_get (hp : ∀ v, v < n → getN parent v ≤ n) (hr : ∀ v, v < n → rank v < rank (getN parent v))
    {i : Nat} (hi : i < n) :
    getN (relabelEtree n (treePostorder n parent) parent) (getN (treePostorder n parent) i) =
      getN (treePostorder n parent) (getN parent i) := by
  unfold relabelEtree
  exact scatter_get _ (post_permOn hp hr) (by simp) hi

theorem postordered_relabel (_hs : parent.size = n) (hp : ∀ v, v < n → getN parent v ≤ n)
    (hr : ∀ v, v < n → rank v < rank (getN parent v)) :
    Postordered n (relabelEtree n (treePostorder n parent) parent) := by
  have c := fctx_of hp hr
  -- abbreviations
  generalize hpar' : relabelEtree n (treePostorder n parent) parent = par'
  have hq : ∀ x, x ≤ n → getN (treePostorder n parent) x = (poAll n parent rank).idxOf x :=
    fun x hx => post_get hp hr hx
  have hrel : ∀ i, i < n → getN par' ((poAll n parent rank).idxOf i) = (poAll n parent rank).idxOf (getN parent i) := by
    intro i hi
    have := relabel_get hp hr hi
    rw [hpar', hq i (Nat.le_of_lt hi), hq _ (hp i hi)] at this
    exact this
  have hqn := q_root c
  have hlt : ∀ i, i < n → (poAll n parent rank).idxOf i < n := by
    intro i hi
    have := (post_permOn hp hr).1 i hi
    rwa [hq i (Nat.le_of_lt hi)] at this
  -- every number below n is the number of a vertex below n
  have hsurj : ∀ i', i' < n → ∃ i, i < n ∧ (poAll n parent rank).idxOf i = i' := by
    intro i' hi'
    have hlen : (poAll n parent rank).length = n + 1 := po_root_length c
    have hlt' : i' < (poAll n parent rank).length := by omega
    have hnd : (poAll n parent rank).Nodup := po_nodup c _ _
    have hidx := hnd.idxOf_getElem i' hlt'
    have hmem : (poAll n parent rank)[i'] ∈ poAll n parent rank := List.getElem_mem hlt'
    have hle := (mem_poAll c).1 hmem
    refine ⟨(poAll n parent rank)[i'], ?_, hidx⟩
    by_cases h : (poAll n parent rank)[i'] = n
    · rw [h, hqn] at hidx; omega
    · omega
  -- transfer of the descendant relation
  have T1 : ∀ a b, Desc (getN parent) n a b → a ≤ n →
      Desc (getN par') n ((poAll n parent rank).idxOf a) ((poAll n parent rank).idxOf b) := by
    intro a b h ha
    induction h with
    | refl => exact Desc.refl _
    | step hx _ ih =>
        refine Desc.step (hlt _ hx) ?_
        rw [hrel _ hx]; exact ih
  have T2 : ∀ a' b', Desc (getN par') n a' b' → ∀ a b, a ≤ n → b ≤ n →
      (poAll n parent rank).idxOf a = a' → (poAll n parent rank).idxOf b = b' → Desc (getN parent) n a b := by
    intro a' b' h
    induction h with
    | refl =>
        intro a b ha hb h1 h2
        have := q_inj c ha hb (by rw [h1, h2])
        subst this; exact Desc.refl _
    | @step x' hx _ ih =>
        intro a b ha hb h1 h2
        have hbn : b < n := by
          by_cases h : b = n
          · rw [h, hqn] at h2; omega
          · omega
        refine Desc.step hbn (ih a (getN parent b) ha (hp b hbn) h1 ?_)
        rw [← h2, hrel b hbn]
  refine ⟨by rw [← hpar']; simp [relabelEtree, scatter_size], ?_, ?_⟩
  · intro v' hv'
    obtain ⟨v, hv, hqv⟩ := hsurj v' hv'
    rw [← hqv, hrel v hv]
    obtain ⟨a, s, _, _, hseg⟩ := seg_idx c (hp v hv)
    have hd : Desc (getN parent) n (getN parent v) v := Desc.step hv (Desc.refl _)
    have h1 := ((hseg v (Nat.le_of_lt hv)).1 hd).2
    have h2 : (poAll n parent rank).idxOf v ≠ (poAll n parent rank).idxOf (getN parent v) := by
      intro h
      have := q_inj c (Nat.le_of_lt hv) (hp v hv) h
      have := hr v hv
      rw [← ‹v = getN parent v›] at this
      omega
    exact ⟨by omega, q_le c (hp v hv)⟩
  · intro v' hv'
    obtain ⟨v, hv, hqv⟩ := hsurj v' hv'
    obtain ⟨a, s, hs1, hs2, hseg⟩ := seg_idx c (Nat.le_of_lt hv)
    refine ⟨s, hs1, by omega, ?_⟩
    intro u' hu'
    obtain ⟨u, hu, hqu⟩ := hsurj u' hu'
    have key := hseg u (Nat.le_of_lt hu)
    rw [hqv, hqu] at key
    have ha : v' + 1 - s = a := by omega
    rw [ha, ← key]
    constructor
    · intro h; exact T2 _ _ h v u (Nat.le_of_lt hv) (Nat.le_of_lt hu) hqv hqu
    · intro h
      have := T1 _ _ h (Nat.le_of_lt hv)
      rwa [hqv, hqu] at this

end main

end Slu.Pre
