/- the second initial-state check implies the column structure facts and the progress invariant -/
import SluVerif.Proofs.SchedProg
import SluVerif.Props.C04Global

namespace Slu
open Slu.Gen
open Classical

def colOf (sh : Sh) : ColCfg := { pan := panOf sh, wd := widthOf sh }

theorem init2 (c : PanelCfg) (sh : Sh) (nw : Nat) (h : initOk2 c sh = true) :
    ColWF (cfgOf c sh) (colOf sh) ∧ ProgInv (cfgOf c sh) (colOf sh) (sysOf sh nw) := by
  unfold initOk2 at h
  simp only [Bool.and_eq_true, decide_eq_true_eq, List.all_eq_true, List.mem_range, Bool.or_eq_true, Bool.not_eq_true',
    decide_eq_false_iff_not, List.contains_iff_mem, beq_iff_eq, List.any_eq_true, List.mem_range'_1] at h
  obtain ⟨⟨⟨⟨⟨⟨⟨⟨h1, h2⟩, h3⟩, h4⟩, h5⟩, h6⟩, h7⟩, h8⟩, h9⟩ := h
  constructor
  · refine ⟨fun k hk => (h3 k hk).1.1, fun k hk => ⟨(h3 k hk).1.2, (h3 k hk).2⟩, ?_, fun p hp => (h5 p hp).1, fun p hp => (h5 p hp).2, ?_, ?_⟩
    · intro p hp k k1 k2
      exact h4 p hp k ⟨k1, k2⟩
    · intro k hk hin
      rcases h6 k hk with h' | h'
      · exact absurd hin h'
      · exact h'
    · intro p _; rfl
  · refine ⟨h1, h2, fun p _ => rfl, ?_, ?_, ?_, ?_, ?_⟩
    · intro k hk hs
      exact absurd (h7 k hk) hs
    · intro d hd
      have : getN sh.fb d = d := h8 d hd
      show getN sh.fb d ∈ _ ∧ Desc _ (getN sh.fb d) d
      rw [this]; exact ⟨hd, Desc.refl d⟩
    · intro i p b hp; exact absurd hp (wk_sysOf_notworking sh nw i p b)
    · intro i hi hp
      have hi' : i < nw := by simpa [sysOf] using hi
      rw [wk_sysOf, if_pos hi'] at hp
      cases hp
    · intro p hp _ hu
      rcases h9 p hp with h' | ⟨k, k1, k2, k3⟩
      · have hu' : getZ sh.ukids p = 0 := hu
        rw [hu'] at h'; simp at h'
      · exact ⟨k, k2, k1, k3⟩

theorem run_size (c : PanelCfg) (s : Sys) (evs : List Ev) : (runEv c s evs).ws.size = s.ws.size := by
  induction evs generalizing s with
  | nil => rfl
  | cons e es ih =>
    show (runEv c (step c s e) es).ws.size = _
    rw [ih]
    by_cases h : enabled c s e = true
    · cases e with
      | loop w => exact (step_loop c s w h).2.1
      | sched w => exact (step_sched c s w h).2.2.1
      | finish w => obtain ⟨_, _, _, _, _, hs, _⟩ := step_finish c s w h; exact hs
    · rw [step_disabled c s e (by simpa using h)]

theorem progInv_step (K : Cfg) (W : CfgWF K) (Q : ColCfg) (C : ColWF K Q) (s : Sys) (inv : SysInv K s) (pinv : ProgInv K Q s) (e : Ev) :
    ProgInv K Q (step K.c s e) := by
  by_cases h : enabled K.c s e = true
  · cases e with
    | loop w => exact progInv_loop K Q s pinv w h
    | sched w => exact progInv_sched K W Q C s inv pinv w h
    | finish w => exact progInv_finish K W Q C s inv pinv w h
  · rw [step_disabled K.c s e (by simpa using h)]; exact pinv

theorem progInv_run (K : Cfg) (W : CfgWF K) (Q : ColCfg) (C : ColWF K Q) (s : Sys) (inv : SysInv K s) (pinv : ProgInv K Q s) (evs : List Ev) :
    ProgInv K Q (runEv K.c s evs) := by
  induction evs generalizing s with
  | nil => exact pinv
  | cons e es ih => exact ih (step K.c s e) (sysInv_step K W s inv e) (progInv_step K W Q C s inv pinv e)

/-- **No deadlock, no lost wake-up.**  For every configuration passing the two initial-state checks, every number of workers
`nw ≥ 1` and every interleaving: as long as some panel is not finished, some worker can finish its panel (its wait chain is
released), or report a finished panel, or be handed a panel. -/
theorem global_progress (c : PanelCfg) (sh : Sh) (nw : Nat) (h1 : initOk c sh = true) (h2 : initOk2 c sh = true)
    (hnw : 0 < nw) (evs : List Ev) :
    let s := runEv c (sysOf sh nw) evs
    (∃ p ∈ panelsOf c.n sh, getN s.sh.state p ≠ DONE) →
    (∃ i p b, (wk s i).phase = .working p b ∧ chainReleased c s.sh p b = true) ∨
    (∃ i, i < nw ∧ ((wk s i).phase = .calling ∨ ((wk s i).phase = .head ∧ s.sh.tasksRemain > 0)) ∧
          ((wk s i).cur.isSome ∨ (schedule c s.sh (wk s i).cur 0).2.1.isSome)) := by
  intro s hnd
  have W := cfgWF_of_initOk c sh h1
  obtain ⟨C, P0⟩ := init2 c sh nw h2
  have inv := global_invariant c sh nw h1 evs
  have pinv := progInv_run (cfgOf c sh) W (colOf sh) C (sysOf sh nw) (sysInv_of_initOk c sh nw h1) P0 evs
  have hsz : s.ws.size = nw := by
    show (runEv c (sysOf sh nw) evs).ws.size = nw
    rw [run_size]; simp [sysOf]
  have := progress (cfgOf c sh) W (colOf sh) C s inv pinv (by rw [hsz]; exact hnw) hnd
  rw [hsz] at this
  exact this

/-- in particular some event is enabled: the system is never stuck before all panels are finished -/
theorem global_not_stuck (c : PanelCfg) (sh : Sh) (nw : Nat) (h1 : initOk c sh = true) (h2 : initOk2 c sh = true)
    (hnw : 0 < nw) (evs : List Ev) :
    let s := runEv c (sysOf sh nw) evs
    (∃ p ∈ panelsOf c.n sh, getN s.sh.state p ≠ DONE) → ∃ e, enabled c s e = true := by
  intro s hnd
  rcases global_progress c sh nw h1 h2 hnw evs hnd with ⟨i, p, b, hp, hc⟩ | ⟨i, _, hp | ⟨hp, _⟩, _⟩
  · exact ⟨.finish i, by rw [enabled_finish]; show (match (wk s i).phase with | .working p b => chainReleased c s.sh p b | _ => false) = true; rw [hp]; exact hc⟩
  · exact ⟨.sched i, by rw [enabled_sched]; show (match (wk s i).phase with | .calling => true | _ => false) = true; rw [hp]⟩
  · exact ⟨.loop i, by rw [enabled_loop]; show (match (wk s i).phase with | .head => true | _ => false) = true; rw [hp]⟩

end Slu

namespace Slu
/-! non-vacuity: the two example configurations pass the second check as well -/
example : initOk2 exCfg (parallelInit exCfg) = true := by decide
example : initOk2 exCfg2 (parallelInit exCfg2) = true := by decide
end Slu
