/- Helper lemmas and tactics for Props/C15.lean (argument-check chains vs documented tables). -/
import SluVerif.Model.ArgDoc
namespace Slu.ArgLemmas
open Slu.Arg Slu.Gen Slu.Doc

/-! ### the vocabulary of Model/ArgBase.lean -/

theorem cmax_eq (x y : Int) : cmax x y = max x y := by
  unfold cmax; omega

theorem cmin_le (a b : Int) : (cmin a b ≤ 0) ↔ (a ≤ 0 ∨ b ≤ 0) := by
  unfold cmin; split <;> omega

/-- `lsame_` in linear-arithmetic form (no side conditions, so `simp only [lsame_iff]` + `omega` decide it for
    literal second arguments) -/
theorem lsame_iff (c k : Int) : (lsame c k = true) ↔
    (c = k ∨ (97 ≤ c ∧ c ≤ 122 ∧ ¬(97 ≤ k ∧ k ≤ 122) ∧ c - 32 = k)
      ∨ (¬(97 ≤ c ∧ c ≤ 122) ∧ 97 ≤ k ∧ k ≤ 122 ∧ c = k - 32)
      ∨ (97 ≤ c ∧ c ≤ 122 ∧ 97 ≤ k ∧ k ≤ 122 ∧ c - 32 = k - 32)) := by
  unfold lsame upcase
  simp only [Bool.or_eq_true, beq_iff_eq]
  split <;> split <;> omega

/-- for an upper-case literal second argument (what every call in the library passes) -/
theorem lsame_upper (c k : Int) (h1 : 65 ≤ k) (h2 : k ≤ 90) : (lsame c k = true) ↔ (c = k ∨ c = k + 32) := by
  rw [lsame_iff]; omega

theorem isLetter_iff (c k : Int) : (isLetter c k = true) ↔ (c = k ∨ c = k + 32) := by
  simp [isLetter]
theorem isLetter_false_iff (c k : Int) : (isLetter c k = false) ↔ ¬(c = k ∨ c = k + 32) := by
  simp [isLetter]

theorem foldl_cmin_le (xs : List Int) (init : Int) :
    (xs.foldl cmin init ≤ 0) ↔ (init ≤ 0 ∨ xs.any (fun x => decide (x ≤ 0)) = true) := by
  induction xs generalizing init with
  | nil => simp
  | cons x xs ih =>
    simp only [List.foldl_cons, List.any_cons, Bool.or_eq_true, decide_eq_true_eq]
    rw [ih, cmin_le, or_assoc]

/-- the running-minimum loop started from a positive constant ends ≤ 0 iff one of the scanned entries is ≤ 0 -/
theorem loopMin_le (init : Int) (xs : List Int) (n : Int) (h : 0 < init) :
    (loopMin init xs n ≤ 0) ↔ someNonPos xs n = true := by
  unfold loopMin someNonPos
  rw [foldl_cmin_le]
  constructor
  · intro h'; cases h' with
    | inl h' => omega
    | inr h' => exact h'
  · intro h'; exact Or.inr h'

theorem ite_False_left (c b : Prop) [Decidable c] : (if c then False else b) ↔ (¬c ∧ b) := by
  split <;> simp [*]

theorem neg_ite' (c : Prop) [Decidable c] (x y : Int) : -(if c then x else y) = if c then -x else -y := by
  split <;> rfl

/-! ### tables -/

theorem fo_nil : firstOffender [] = 0 := rfl
theorem fo_cons (i : Nat) (v : Bool) (r : List (Nat × Bool)) :
    firstOffender ((i, v) :: r) = if v = true then -(i : Int) else firstOffender r := by
  simp [firstOffender]

/-- no documented requirement violated ⇒ the table reports 0 -/
theorem firstOffender_of_allValid (t : List (Nat × Bool)) (h : allValid t = true) : firstOffender t = 0 := by
  induction t with
  | nil => rfl
  | cons p t ih =>
    obtain ⟨i, v⟩ := p
    simp only [allValid, List.all_cons, Bool.and_eq_true, Bool.not_eq_true'] at h
    have h2 : allValid t = true := h.2
    have h1 : v = false := h.1
    simp [firstOffender, h1, ih h2]

/-- conversely, if every listed position is ≥ 1, reporting 0 means nothing is violated -/
theorem allValid_of_firstOffender (t : List (Nat × Bool)) (hpos : ∀ p ∈ t, 0 < p.1) (h : firstOffender t = 0) :
    allValid t = true := by
  induction t with
  | nil => rfl
  | cons p t ih =>
    obtain ⟨i, v⟩ := p
    have hi : 0 < i := hpos (i, v) (List.mem_cons_self ..)
    cases v with
    | true => simp [firstOffender] at h; omega
    | false =>
      simp only [firstOffender, Bool.false_eq_true, ↓reduceIte] at h
      have := ih (fun p hp => hpos p (List.mem_cons_of_mem _ hp)) h
      simpa [allValid] using this

/-- "first offender": a reported `-i` (i ≥ 1) is an entry of the table that is violated and every entry listed
    before it is not — with the tables listed by increasing position this is the least violated position. -/
theorem firstOffender_first (t : List (Nat × Bool)) (i : Nat) (hi : 0 < i) (h : firstOffender t = -(i : Int)) :
    ∃ pre post, t = pre ++ (i, true) :: post ∧ ∀ p ∈ pre, p.2 = false := by
  induction t with
  | nil => simp [firstOffender] at h; omega
  | cons p t ih =>
    obtain ⟨j, v⟩ := p
    cases v with
    | true =>
      simp only [firstOffender, ↓reduceIte] at h
      have : j = i := by omega
      subst this
      exact ⟨[], t, rfl, by simp⟩
    | false =>
      simp only [firstOffender, Bool.false_eq_true, ↓reduceIte] at h
      obtain ⟨pre, post, e, hp⟩ := ih h
      refine ⟨(j, false) :: pre, post, by simp [e], ?_⟩
      intro p hp'
      rcases List.mem_cons.mp hp' with rfl | h'
      · rfl
      · exact hp p h'

/-! ### the chain-vs-table tactic -/

theorem ite_congr' {c d : Prop} [Decidable c] [Decidable d] {x x' y y' : Int}
    (h1 : c ↔ d) (h2 : x = x') (h3 : ¬ d → y = y') : (if c then x else y) = (if d then x' else y') := by
  by_cases hd : d
  · rw [if_pos (h1.mpr hd), if_pos hd]; exact h2
  · rw [if_neg (fun hc => hd (h1.mp hc)), if_neg hd]; exact h3 hd

/-- p?gssvx: `if (info2 == 0) { B test; X test } ` after the R / C scans, flattened into one chain -/
theorem gssvx_tail (p q b x : Prop) [Decidable p] [Decidable q] [Decidable b] [Decidable x] :
    (if (if p then (-7:Int) else if q then -8 else 0) = 0 then
        (if b then (-11:Int) else if x then -12 else (if p then (-7:Int) else if q then -8 else 0))
      else (if p then (-7:Int) else if q then -8 else 0))
    = if p then -7 else if q then -8 else if b then -11 else if x then -12 else 0 := by
  by_cases hp : p <;> by_cases hq : q <;> simp [hp, hq]

/-- unfold the enum constants emitted by the translator (after every `decide` has been eliminated) -/
macro "enum_unfold" : tactic => `(tactic| (
  (try simp only [SLU_NC, SLU_NCP, SLU_NR, SLU_SC, SLU_SCP, SLU_SR, SLU_DN, SLU_NR_loc, SLU_S, SLU_D, SLU_C, SLU_Z,
    SLU_GE, SLU_TRLU, SLU_TRUU, SLU_TRL, SLU_TRU, SLU_SYL, SLU_SYU, SLU_HEL, SLU_HEU,
    DOFACT, EQUILIBRATE, FACTORED, NOTRANS, TRANS, CONJ, YES, NO, NOEQUIL, ROW, COL, BOTH] at *)))

/-- one test of the chain against one entry of the table: same verdict (by linear arithmetic, using the negations
    of all earlier entries), same value -/
macro "chain_step" : tactic =>
  `(tactic| (refine ite_congr' (by omega) (by first | rfl | omega) (fun _ => ?_)))
macro "chain_steps" : tactic => `(tactic| (repeat (first | chain_step | omega)))

/-- common normalisation: unfold tables, turn `decide`s into propositions, drop `(i, false)` entries -/
macro "table_norm" : tactic => `(tactic| (
  simp only [fo_cons, fo_nil, decide_eq_true_eq, cmax_eq, Bool.false_eq_true, ↓reduceIte, Bool.and_eq_true,
    Bool.or_eq_true, Bool.not_eq_true', Bool.not_eq_eq_eq_not, Bool.not_true, decide_eq_false_iff_not,
    lsame_upper, Int.reduceLE, Int.reduceAdd, isLetter_iff, isLetter_false_iff, neg_ite', Bool.or_eq_false_iff,
    Int.neg_zero, false_and, true_and, and_false, and_true, or_false, false_or, eq_self]))

end Slu.ArgLemmas
