/- Liu's algorithm always returns a topologically numbered forest (`v < parent[v] ≤ n`), whatever the
   pattern; consequences for `sp_colorder`: AC is a view of A, `perm_c' = post ∘ perm_c`. -/
import SluVerif.Proofs.Relabel
namespace Slu.Pre

theorem foldl_range_inv {α : Type} (f : α → Nat → α) (I : Nat → α → Prop) (init : α) (n : Nat)
    (h0 : I 0 init) (hstep : ∀ k a, k < n → I k a → I (k + 1) (f a k)) :
    I n ((List.range n).foldl f init) := by
  have : ∀ m, m ≤ n → I m ((List.range m).foldl f init) := by
    intro m
    induction m with
    | zero => intro _; exact h0
    | succ m ih =>
        intro hm
        rw [List.range_succ, List.foldl_append]
        exact hstep m _ (by omega) (ih (by omega))
  exact this n (Nat.le_refl _)

/-! ### Liu's algorithm: shape of the parent array -/

/-- invariant inside column `col` -/
def LiuIn (n col : Nat) (s : LiuSt) : Prop :=
  s.parent.size = n ∧ (∀ i, getN s.root i ≤ col) ∧
    ∀ v, v ≤ col → v < n → v < getN s.parent v ∧ getN s.parent v ≤ n

/-- invariant before column `col` -/
def LiuBetween (n col : Nat) (s : LiuSt) : Prop :=
  s.parent.size = n ∧ (∀ i, getN s.root i ≤ col) ∧
    ∀ v, v < col → v < n → v < getN s.parent v ∧ getN s.parent v ≤ n

theorem liuEdge_in {n col row : Nat} {s : LiuSt} (hc : col < n) (h : LiuIn n col s) :
    LiuIn n col (liuEdge col row s) := by
  unfold liuEdge
  split
  · exact h
  · generalize ufFind row s.pp = r
    obtain ⟨rset, pp⟩ := r
    simp only
    obtain ⟨hs, hroot, hpar⟩ := h
    split
    · rename_i hne
      have hle := hroot rset
      refine ⟨by simp [hs], ?_, ?_⟩
      · intro i
        simp only [getN_set]
        split
        · exact Nat.le_refl _
        · exact hroot i
      · intro v hv hvn
        simp only [getN_set]
        split
        · rename_i he
          rw [← he.1]
          exact ⟨by omega, by omega⟩
        · exact hpar v hv hvn
    · exact ⟨hs, hroot, hpar⟩

/-- state after `make_set (col)`, `root[cset] = col`, `parent[col] = n` -/
def liuS0 (n col : Nat) (s : LiuSt) : LiuSt :=
  { pp := s.pp.setIfInBounds col col, root := s.root.setIfInBounds col col,
    parent := s.parent.setIfInBounds col n, cset := col }

theorem liuCol_eq (n col : Nat) (rows : List Nat) (s : LiuSt) :
    liuCol n col rows s = rows.foldl (fun s row => liuEdge col row s) (liuS0 n col s) := rfl

theorem liuCol_between {n col : Nat} {rows : List Nat} {s : LiuSt} (hc : col < n) (h : LiuBetween n col s) :
    LiuBetween n (col + 1) (liuCol n col rows s) := by
  rw [liuCol_eq]
  obtain ⟨hs, hroot, hpar⟩ := h
  have h0 : LiuIn n col (liuS0 n col s) := by
    unfold liuS0
    refine ⟨by simp [hs], ?_, ?_⟩
    · intro i
      simp only [getN_set]
      split
      · exact Nat.le_refl _
      · exact hroot i
    · intro v hv hvn
      simp only [getN_set]
      split
      · rename_i he; rw [← he.1]; exact ⟨hc, Nat.le_refl _⟩
      · rename_i hne
        have : v ≠ col := by
          intro h; apply hne; exact ⟨h.symm, by rw [hs]; exact hc⟩
        exact hpar v (by omega) hvn
  have : ∀ (rows : List Nat) (s : LiuSt), LiuIn n col s → LiuIn n col (rows.foldl (fun s row => liuEdge col row s) s) := by
    intro rows
    induction rows with
    | nil => intro s h; exact h
    | cons r rows ih => intro s h; exact ih _ (liuEdge_in hc h)
  obtain ⟨h1, h2, h3⟩ := this rows _ h0
  exact ⟨h1, fun i => Nat.le_succ_of_le (h2 i), fun v hv hvn => h3 v (by omega) hvn⟩

theorem liuInit_between (n : Nat) : LiuBetween n 0 (liuInit n) := by
  refine ⟨by simp [liuInit], ?_, ?_⟩
  · intro i; simp [liuInit, getN_replicate]
  · intro v hv; omega

/-- shape of an elimination-tree array -/
def Increasing (n : Nat) (par : Array Nat) : Prop :=
  par.size = n ∧ ∀ v, v < n → v < getN par v ∧ getN par v ≤ n

theorem symEtree_increasing (colbeg colend rowind : Array Nat) (n : Nat) :
    Increasing n (symEtree colbeg colend rowind n) := by
  unfold symEtree
  have := foldl_range_inv (fun s col => liuCol n col ((colRange colbeg colend col).map (getN rowind)) s)
    (LiuBetween n) (liuInit n) n (liuInit_between n) (fun k a hk h => liuCol_between hk h)
  exact ⟨this.1, fun v hv => this.2.2 v hv hv⟩

theorem colEtree_increasing (colbeg colend rowind : Array Nat) (nr nc : Nat) :
    Increasing nc (colEtree colbeg colend rowind nr nc) := by
  unfold colEtree
  simp only
  have := foldl_range_inv (fun s col => liuCol nc col ((colRange colbeg colend col).map
      (fun p => getN (firstCol colbeg colend rowind nr nc) (getN rowind p))) s)
    (LiuBetween nc) (liuInit nc) nc (liuInit_between nc) (fun k a hk h => liuCol_between hk h)
  exact ⟨this.1, fun v hv => this.2.2 v hv hv⟩

theorem colorderEt0_increasing (m n : Nat) (colptr rowind permc : Array Nat) (symm : Bool) :
    Increasing n (colorderEt0 m n colptr rowind permc symm) := by
  unfold colorderEt0
  split
  · unfold colorderSym
    simp only
    exact symEtree_increasing _ _ _ _
  · exact colEtree_increasing _ _ _ _ _

theorem Increasing.hp {n : Nat} {par : Array Nat} (h : Increasing n par) : ∀ v, v < n → getN par v ≤ n :=
  fun v hv => (h.2 v hv).2
theorem Increasing.hr {n : Nat} {par : Array Nat} (h : Increasing n par) :
    ∀ v, v < n → (fun x => x) v < (fun x => x) (getN par v) := fun v hv => (h.2 v hv).1

/-! ### sp_colorder -/

theorem permOn_comp {n : Nat} {p q : Array Nat} (hp : PermOn n p) (hq : PermOn n q) :
    PermOn n (Array.ofFn (n := n) (fun i => getN q (getN p i.1))) := by
  constructor
  · intro i hi
    rw [getN_ofFn _ _ hi]
    exact hq.1 _ (hp.1 i hi)
  · intro i j hi hj h
    rw [getN_ofFn _ _ hi, getN_ofFn _ _ hj] at h
    exact hp.2 i j hi hj (hq.2 _ _ (hp.1 i hi) (hp.1 j hj) h)


section colorder
variable (m n : Nat) (colptr rowind pc : Array Nat) (symm : Bool) (et0 part0 : Array Nat)

/-- the postorder `sp_colorder` applies -/
def colorderPost : Array Nat := treePostorder n (colorderEt0 m n colptr rowind pc symm)

theorem colorder_colbeg : (colorder m n colptr rowind pc symm false et0 part0).colbeg =
    scatter n (colorderPost m n colptr rowind pc symm) (fun i => getN (viewBeg n colptr pc) i) (Array.replicate n 0) := rfl
theorem colorder_colend : (colorder m n colptr rowind pc symm false et0 part0).colend =
    scatter n (colorderPost m n colptr rowind pc symm) (fun i => getN (viewEnd n colptr pc) i) (Array.replicate n 0) := rfl
theorem colorder_permc : (colorder m n colptr rowind pc symm false et0 part0).permc =
    Array.ofFn (n := n) (fun i => getN (colorderPost m n colptr rowind pc symm) (getN pc i.1)) := rfl
theorem colorder_etree : (colorder m n colptr rowind pc symm false et0 part0).etree =
    relabelEtree n (colorderPost m n colptr rowind pc symm) (colorderEt0 m n colptr rowind pc symm) := rfl
theorem colorder_refact : colorder m n colptr rowind pc symm true et0 part0 =
    { colbeg := viewBeg n colptr pc, colend := viewEnd n colptr pc, permc := pc, etree := et0, part := part0 } := rfl

theorem colorderPost_permOn : PermOn n (colorderPost m n colptr rowind pc symm) := by
  have h := colorderEt0_increasing m n colptr rowind pc symm
  exact post_permOn h.hp h.hr

theorem colorderPost_root : getN (colorderPost m n colptr rowind pc symm) n = n := by
  have h := colorderEt0_increasing m n colptr rowind pc symm
  exact post_root h.hp h.hr

theorem colorderPost_size : (colorderPost m n colptr rowind pc symm).size = n + 1 := by
  have h := colorderEt0_increasing m n colptr rowind pc symm
  exact treePostorder_size h.hp h.hr

theorem colorder_etree_postordered :
    Postordered n (colorder m n colptr rowind pc symm false et0 part0).etree := by
  have h := colorderEt0_increasing m n colptr rowind pc symm
  rw [colorder_etree]
  exact postordered_relabel h.1 h.hp h.hr

variable {n} {pc}

theorem viewBeg_get (hpc : PermOn n pc) {j : Nat} (hj : j < n) :
    getN (viewBeg n colptr pc) (getN pc j) = getN colptr j :=
  scatter_get _ hpc (by simp) hj

theorem viewEnd_get (hpc : PermOn n pc) {j : Nat} (hj : j < n) :
    getN (viewEnd n colptr pc) (getN pc j) = getN colptr (j + 1) :=
  scatter_get _ hpc (by simp) hj

theorem colorder_view_beg (hpc : PermOn n pc) {j : Nat} (hj : j < n) :
    getN (colorder m n colptr rowind pc symm false et0 part0).colbeg
      (getN (colorder m n colptr rowind pc symm false et0 part0).permc j) = getN colptr j := by
  rw [colorder_colbeg, colorder_permc, getN_ofFn _ _ hj]
  rw [scatter_get _ (colorderPost_permOn m n colptr rowind pc symm) (by simp) (hpc.1 j hj)]
  exact viewBeg_get colptr hpc hj

theorem colorder_view_end (hpc : PermOn n pc) {j : Nat} (hj : j < n) :
    getN (colorder m n colptr rowind pc symm false et0 part0).colend
      (getN (colorder m n colptr rowind pc symm false et0 part0).permc j) = getN colptr (j + 1) := by
  rw [colorder_colend, colorder_permc, getN_ofFn _ _ hj]
  rw [scatter_get _ (colorderPost_permOn m n colptr rowind pc symm) (by simp) (hpc.1 j hj)]
  exact viewEnd_get colptr hpc hj

theorem colorder_permc_permOn (hpc : PermOn n pc) :
    PermOn n (colorder m n colptr rowind pc symm false et0 part0).permc := by
  rw [colorder_permc]
  exact permOn_comp hpc (colorderPost_permOn m n colptr rowind pc symm)

end colorder

end Slu.Pre
