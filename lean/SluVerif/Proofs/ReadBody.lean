/- C20 helper lemmas: the data sections (pointers, indices, values) read back. -/
import SluVerif.Proofs.ReadHeader
namespace Slu.Read

theorem readItems_writeItems {α : Type} (conv : Str → Option α) (g : Str → α) (perline w : Nat) (trail : Str)
    (fs : List Str) (rest : Str)
    (hp : 0 < perline) (hb : perline * w + trail.length ≤ 98) (htr : NoNL trail)
    (hw : ∀ f ∈ fs, f.length = w) (hnl : ∀ f ∈ fs, NoNL f) (hconv : ∀ f ∈ fs, conv f = some (g f)) :
    readItems conv (perline : Int) (w : Int) fs.length (writeItems perline trail fs.length fs ++ rest) =
      some (fs.map g, rest) := by
  unfold readItems
  cases fs with
  | nil => simp [writeItems]
  | cons f fs =>
    have h0 : ¬ ((f :: fs).length = 0) := by simp
    have h1 : ¬ ((perline : Int) ≤ 0 ∨ (w : Int) < 0) := by omega
    rw [if_neg h0, if_neg h1]
    simp only [Int.toNat_natCast]
    exact readItemsAux_writeItems conv g perline w trail hp hb htr _ _ (f :: fs) rest (Nat.le_refl _) (Nat.le_refl _) hw hnl hconv

theorem noNL_of_allDig {s : Str} (h : AllDig s) : NoNL s := fun c hc => by
  have := ne_of_isDig (h c hc) (x := '\n') (by decide)
  simp [this]

theorem noNL_blanks (k : Nat) : NoNL (blanks k) := fun c hc => by
  have : c = ' ' := by simpa [blanks] using (List.mem_replicate.mp hc).2
  subst this; decide

theorem noNL_fmtInt (w k : Nat) : NoNL (fmtInt w k) :=
  noNL_append (noNL_blanks _) (noNL_of_allDig (natDigits_allDig k))

theorem noNL_signStr (n p : Bool) : NoNL (signStr n p) := by
  cases n <;> cases p <;> (intro c hc; simp [signStr] at hc; try (subst hc; decide))

theorem noNL_cons {c : Char} {s : Str} (hc : (c == '\n') = false) (hs : NoNL s) : NoNL (c :: s) := by
  intro x hx; rcases List.mem_cons.mp hx with rfl | h
  · exact hc
  · exact hs x h

theorem noNL_decText (d : Dec) (h : d.WF) : NoNL d.text := by
  rw [d.text_eq]
  refine noNL_append (noNL_signStr _ _) (noNL_append (noNL_of_allDig h.1) (noNL_cons (by decide) (noNL_append (noNL_of_allDig h.2.1) ?_)))
  unfold Dec.exText
  cases hex : d.ex with
  | none => intro c hc; cases hc
  | some e =>
    obtain ⟨hl, hd, _⟩ := h.2.2.2 e hex
    have hlc : (e.letter == '\n') = false := by
      simp only [isExpLetter4, Bool.or_eq_true, beq_iff_eq] at hl
      rcases hl with ((h1 | h1) | h1) | h1 <;> rw [h1] <;> decide
    simp only [ExpPart.text, List.cons_append]
    exact noNL_cons hlc (noNL_append (noNL_signStr _ _) (noNL_of_allDig hd))

/-- the three data sections as written, read back. -/
theorem readBody_written (cplx : Bool) (nrow ncol nnz valcrd : Nat) (pd rd : IntDesc) (vd : RealDesc) (trail : Str)
    (colptr rowind : List Nat) (vals : List Dec) (after : Str)
    (htr : NoNL trail)
    (hpn : 0 < pd.n) (hpb : pd.n * pd.w + trail.length ≤ 98)
    (hrn : 0 < rd.n) (hrb : rd.n * rd.w + trail.length ≤ 98)
    (hvn : 0 < vd.n) (hvb : vd.n * vd.w + trail.length ≤ 98)
    (hcl : colptr.length = ncol + 1) (hrl : rowind.length = nnz)
    (hvl : vals.length = (if cplx then 2 else 1) * nnz)
    (hcp : ∀ p ∈ colptr, p + 1 < 2147483648 ∧ (natDigits (p + 1)).length ≤ pd.w)
    (hri : ∀ i ∈ rowind, i + 1 < 2147483648 ∧ (natDigits (i + 1)).length ≤ rd.w)
    (hvs : ∀ v ∈ vals, v.WF ∧ v.text.length ≤ vd.w) :
    readBody cplx (nrow : Int) (ncol : Int) (nnz : Int) (valcrd : Int)
        ((pd.n : Int), (pd.w : Int)) ((rd.n : Int), (rd.w : Int)) ((vd.n : Int), (vd.w : Int))
        (writeItems pd.n trail colptr.length (colptr.map fun p => fmtInt pd.w (p + 1)) ++
          (writeItems rd.n trail rowind.length (rowind.map fun i => fmtInt rd.w (i + 1)) ++
            (writeItems vd.n trail vals.length (vals.map fun v => padLeft vd.w v.text) ++ after))) =
      some { nrow := nrow, ncol := ncol, nnz := nnz,
             colptr := colptr.map (fun (p : Nat) => (p : Int)), rowind := rowind.map (fun (p : Nat) => (p : Int)),
             vals := if valcrd = 0 then none else some (vals.map Dec.value) } := by
  -- column pointers
  have hA := readItems_writeItems convIndex (fun f => (atoiZ f - 1)) pd.n pd.w trail
    (colptr.map fun p => fmtInt pd.w (p + 1))
    (writeItems rd.n trail rowind.length (rowind.map fun i => fmtInt rd.w (i + 1)) ++
      (writeItems vd.n trail vals.length (vals.map fun v => padLeft vd.w v.text) ++ after))
    hpn hpb htr
    (by intro f hf; obtain ⟨p, hp, rfl⟩ := List.mem_map.mp hf; exact fmtInt_length (hcp p hp).2)
    (by intro f hf; obtain ⟨p, _, rfl⟩ := List.mem_map.mp hf; exact noNL_fmtInt _ _)
    (by intro f hf; obtain ⟨p, hp, rfl⟩ := List.mem_map.mp hf
        rw [convIndex_fmtInt _ (hcp p hp).1]
        have := atoiZ_fmtInt pd.w (p + 1) (rest := []) trivial
        rw [List.append_nil] at this; rw [this]; congr 1; omega)
  have hB := readItems_writeItems convIndex (fun f => (atoiZ f - 1)) rd.n rd.w trail
    (rowind.map fun i => fmtInt rd.w (i + 1))
    (writeItems vd.n trail vals.length (vals.map fun v => padLeft vd.w v.text) ++ after)
    hrn hrb htr
    (by intro f hf; obtain ⟨p, hp, rfl⟩ := List.mem_map.mp hf; exact fmtInt_length (hri p hp).2)
    (by intro f hf; obtain ⟨p, _, rfl⟩ := List.mem_map.mp hf; exact noNL_fmtInt _ _)
    (by intro f hf; obtain ⟨p, hp, rfl⟩ := List.mem_map.mp hf
        rw [convIndex_fmtInt _ (hri p hp).1]
        have := atoiZ_fmtInt rd.w (p + 1) (rest := []) trivial
        rw [List.append_nil] at this; rw [this]; congr 1; omega)
  have hC := readItems_writeItems convValue (fun f => (atofC (f.map dToE)).getD (0, 0)) vd.n vd.w trail
    (vals.map fun v => padLeft vd.w v.text) after
    hvn hvb htr
    (by intro f hf; obtain ⟨v, hv, rfl⟩ := List.mem_map.mp hf; exact padLeft_length (hvs v hv).2)
    (by intro f hf; obtain ⟨v, hv, rfl⟩ := List.mem_map.mp hf
        exact noNL_append (noNL_blanks _) (noNL_decText v (hvs v hv).1))
    (by intro f hf; obtain ⟨v, hv, rfl⟩ := List.mem_map.mp hf
        have := convValue_text vd.w v (hvs v hv).1
        unfold convValue at this ⊢
        rw [this]; rfl)
  simp only [List.length_map] at hA hB hC
  have mapA : List.map (fun f => atoiZ f - 1) (colptr.map fun p => fmtInt pd.w (p + 1)) = colptr.map (fun (p : Nat) => (p : Int)) := by
    rw [List.map_map]; apply List.map_congr_left; intro p _
    have := atoiZ_fmtInt pd.w (p + 1) (rest := []) trivial
    rw [List.append_nil] at this; simp only [Function.comp, this]; omega
  have mapB : List.map (fun f => atoiZ f - 1) (rowind.map fun p => fmtInt rd.w (p + 1)) = rowind.map (fun (p : Nat) => (p : Int)) := by
    rw [List.map_map]; apply List.map_congr_left; intro p _
    have := atoiZ_fmtInt rd.w (p + 1) (rest := []) trivial
    rw [List.append_nil] at this; simp only [Function.comp, this]; omega
  have mapC : List.map (fun f => (atofC (f.map dToE)).getD (0, 0)) (vals.map fun v => padLeft vd.w v.text) = vals.map Dec.value := by
    rw [List.map_map]; apply List.map_congr_left; intro v hv
    have := convValue_text vd.w v (hvs v hv).1
    unfold convValue at this
    simp only [Function.comp, this, Option.getD_some]
  rw [mapA] at hA; rw [mapB] at hB; rw [mapC] at hC
  unfold readBody
  have hneg : ¬ ((ncol : Int) < 0 ∨ (nnz : Int) < 0) := by omega
  rw [if_neg hneg]
  simp only [Int.toNat_natCast]
  rw [← hcl, hA]
  simp only
  rw [← hrl, hB]
  simp only
  by_cases hz : valcrd = 0
  · simp [hz]
  · have hz' : ¬ ((valcrd : Int) = 0) := by omega
    rw [if_neg hz']
    rw [hrl, ← hvl, hC]
    simp [hz]


theorem fgets_card (title trail rest : Str) (ht : NoNL title) (hn : NoNL trail) (hl : title.length + trail.length ≤ 98) :
    fgets (title ++ (trail ++ '\n' :: rest)) = some (title ++ trail ++ ['\n'], rest) := by
  rw [← List.append_assoc]
  exact fgets_line (title ++ trail) rest (noNL_append ht hn) (by simp; omega)

theorem rbTail_long {l1 : Str} {k : Nat} (fld : Str) (h : k ≤ l1.length) : rbTail l1 k fld = some (l1.drop k) := by
  simp [rbTail, h]

theorem rbLine4_card (l1 : Str) (pd rd : IntDesc) (vd : RealDesc) (trail rest : Str)
    (hl1 : 20 ≤ l1.length)
    (hp : pd.WF) (hr : rd.WF) (hv : vd.WF) (hvl : vd.text.length ≤ 20) (hn : NoNL trail) :
    rbLine4 l1 (padRight 16 pd.text ++ (padRight 16 rd.text ++ (padRight 20 vd.text ++ (trail ++ '\n' :: rest)))) =
      some ((((pd.n : Int), (pd.w : Int)), ((rd.n : Int), (rd.w : Int)), ((vd.n : Int), (vd.w : Int))), rest) := by
  have e1 : parseIntFormat (padRight 16 pd.text ++ l1.drop 16) = some ((pd.n : Int), (pd.w : Int)) := by
    rw [padRight, List.append_assoc]; exact parseIntFormat_text pd _ hp.1 hp.2.1 hp.2.2.1 hp.2.2.2.1
  have e2 : parseIntFormat (padRight 16 rd.text ++ l1.drop 16) = some ((rd.n : Int), (rd.w : Int)) := by
    rw [padRight, List.append_assoc]; exact parseIntFormat_text rd _ hr.1 hr.2.1 hr.2.2.1 hr.2.2.2.1
  have e3 : parseFloatFormat (padRight 20 vd.text ++ l1.drop 20) = some ((vd.n : Int), (vd.w : Int)) := by
    rw [padRight, List.append_assoc]; exact parseFloatFormat_text vd _ hv
  have t16 : ∀ fld, rbTail l1 16 fld = some (l1.drop 16) := fun fld => rbTail_long fld (by omega)
  have t20 : ∀ fld, rbTail l1 20 fld = some (l1.drop 20) := fun fld => rbTail_long fld hl1
  simp [rbLine4, takeN_append _ (padRight_length hp.2.2.2.2), takeN_append _ (padRight_length hr.2.2.2.2),
    takeN_append _ (padRight_length hvl), t16, t20, e1, e2, e3, dumpLine_line _ _ hn]

end Slu.Read
