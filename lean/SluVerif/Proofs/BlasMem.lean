/- generic lemmas about the C-array primitives of Model/Blas.lean (`rd`, `wr`, strided positions) and
   about `List.range` folds -/
import SluVerif.Model.Blas
import Mathlib.Algebra.BigOperators.Ring.Finset
import Mathlib.Algebra.BigOperators.Intervals
import Mathlib.Tactic.Ring
import Mathlib.Tactic.Linarith
namespace Slu.Blas
open Finset
variable {α : Type}

theorem foldl_range_succ {σ : Type} (f : σ → Nat → σ) (a : σ) (n : Nat) :
    (List.range (n + 1)).foldl f a = f ((List.range n).foldl f a) n := by
  rw [List.range_succ, List.foldl_append]; rfl

/-- invariant rule for `for k in 0..n-1` loops -/
theorem foldl_range_inv {σ : Type} (P : Nat → σ → Prop) (f : σ → Nat → σ) (a : σ) (n : Nat)
    (h0 : P 0 a) (hs : ∀ k s, k < n → P k s → P (k + 1) (f s k)) :
    P n ((List.range n).foldl f a) := by
  induction n with
  | zero => simpa using h0
  | succ n ih =>
    rw [foldl_range_succ]
    exact hs n _ (Nat.lt_succ_self n) (ih (fun k s hk => hs k s (Nat.lt_succ_of_lt hk)))

@[simp] theorem size_wr (a : Array α) (i : Nat) (v : α) : (wr a i v).size = a.size := by
  simp [wr]

theorem rd_wr [Zero α] (a : Array α) (i k : Nat) (v : α) :
    rd (wr a i v) k = if k = i ∧ i < a.size then v else rd a k := by
  unfold rd wr
  simp only [Array.getD_eq_getD_getElem?, Array.getElem?_setIfInBounds]
  by_cases h : i = k
  · subst h
    by_cases hk : i < a.size <;> simp [hk]
  · have : ¬ (k = i) := fun e => h e.symm
    simp [h, this]

theorem rd_wr_same [Zero α] (a : Array α) (i : Nat) (v : α) (h : i < a.size) : rd (wr a i v) i = v := by
  simp [rd_wr, h]

theorem rd_wr_ne [Zero α] (a : Array α) (i k : Nat) (v : α) (h : k ≠ i) : rd (wr a i v) k = rd a k := by
  simp [rd_wr, h]

theorem rd_of_size_le [Zero α] (a : Array α) (k : Nat) (h : a.size ≤ k) : rd a k = 0 := by
  unfold rd; simp [Array.getD, Nat.not_lt.mpr h]

/-- two arrays are equal when sizes agree and every `rd` agrees -/
theorem array_ext_rd [Zero α] (a b : Array α) (hs : a.size = b.size) (h : ∀ k, k < a.size → rd a k = rd b k) : a = b := by
  apply Array.ext hs
  intro i h1 h2
  have := h i h1
  simpa [rd, Array.getD, h1, h2] using this

/-- size is preserved by any loop whose body preserves it -/
theorem size_foldl_range {σ : Type} (sz : σ → Nat) (f : σ → Nat → σ) (a : σ) (n : Nat)
    (hs : ∀ s k, sz (f s k) = sz s) : sz ((List.range n).foldl f a) = sz a := by
  induction n with
  | zero => simp
  | succ n ih => rw [foldl_range_succ, hs, ih]

section Ring
variable [CommRing α]

/-- scatter-add loop `y[p k] += g k` -/
theorem rd_foldl_acc (p : Nat → Nat) (g : Nat → α) (y : Array α) (n : Nat)
    (hp : ∀ k < n, p k < y.size) (q : Nat) :
    rd ((List.range n).foldl (fun y k => wr y (p k) (rd y (p k) + g k)) y) q
      = rd y q + ∑ k ∈ range n, if p k = q then g k else 0 := by
  induction n generalizing q with
  | zero => simp
  | succ n ih =>
    have hsz : ((List.range n).foldl (fun y k => wr y (p k) (rd y (p k) + g k)) y).size = y.size :=
      size_foldl_range Array.size _ _ _ (by intro s k; simp)
    rw [foldl_range_succ, rd_wr, sum_range_succ, hsz]
    have hpn := hp n (Nat.lt_succ_self n)
    have ih' := fun q => ih (fun k hk => hp k (Nat.lt_succ_of_lt hk)) q
    by_cases h : q = p n
    · subst h
      simp only [hpn, and_self, if_true, ih' (p n)]
      ring
    · have h' : ¬ (p n = q) := fun e => h e.symm
      simp only [h, false_and, if_false, h', ih' q, add_zero]

theorem size_foldl_acc (p : Nat → Nat) (g : Nat → α) (y : Array α) (n : Nat) :
    ((List.range n).foldl (fun y k => wr y (p k) (rd y (p k) + g k)) y).size = y.size :=
  size_foldl_range Array.size _ _ _ (by intro s k; simp)

/-- running sum `t += g k` -/
theorem foldl_add_eq_sum (g : Nat → α) (a : α) (n : Nat) :
    (List.range n).foldl (fun t k => t + g k) a = a + ∑ k ∈ range n, g k := by
  induction n with
  | zero => simp
  | succ n ih => rw [foldl_range_succ, ih, sum_range_succ]; ring

end Ring

/-- pointwise update loop `y[p i] = h i (y[p i])` with injective in-bounds positions -/
theorem rd_foldl_map [Zero α] (p : Nat → Nat) (h : Nat → α → α) (y : Array α) (n : Nat)
    (hp : ∀ k < n, p k < y.size) (hinj : ∀ i < n, ∀ j < n, p i = p j → i = j) :
    (∀ i < n, rd ((List.range n).foldl (fun y i => wr y (p i) (h i (rd y (p i)))) y) (p i) = h i (rd y (p i)))
    ∧ (∀ q, (∀ i < n, p i ≠ q) → rd ((List.range n).foldl (fun y i => wr y (p i) (h i (rd y (p i)))) y) q = rd y q)
    ∧ ((List.range n).foldl (fun y i => wr y (p i) (h i (rd y (p i)))) y).size = y.size := by
  induction n with
  | zero => simp
  | succ n ih =>
    obtain ⟨ih1, ih2, ih3⟩ := ih (fun k hk => hp k (Nat.lt_succ_of_lt hk))
      (fun i hi j hj e => hinj i (Nat.lt_succ_of_lt hi) j (Nat.lt_succ_of_lt hj) e)
    have hpn := hp n (Nat.lt_succ_self n)
    refine ⟨?_, ?_, ?_⟩
    · intro i hi
      rw [foldl_range_succ, rd_wr, ih3]
      by_cases e : i = n
      · subst e
        simp only [hpn, and_self, if_true]
        rw [ih2]
        intro j hj e2
        exact absurd (hinj j (Nat.lt_succ_of_lt hj) i (Nat.lt_succ_self i) e2) (Nat.ne_of_lt hj)
      · have hi' : i < n := Nat.lt_of_le_of_ne (Nat.le_of_lt_succ hi) e
        have : ¬ (p i = p n) := fun e2 => e (hinj i hi n (Nat.lt_succ_self n) e2)
        simp only [this, false_and, if_false]
        exact ih1 i hi'
    · intro q hq
      rw [foldl_range_succ, rd_wr]
      have : ¬ (q = p n) := fun e => hq n (Nat.lt_succ_self n) e.symm
      simp only [this, false_and, if_false]
      exact ih2 q (fun i hi => hq i (Nat.lt_succ_of_lt hi))
    · rw [foldl_range_succ, size_wr, ih3]

/-- closed form of the strided index on naturals -/
def sposN (l : Nat) (inc : Int) (i : Nat) : Nat :=
  if 0 < inc then i * inc.natAbs else (l - 1 - i) * inc.natAbs

theorem spos_eq_sposN (l : Nat) (inc : Int) (i : Nat) (hi : i < l) :
    spos (l : Int) inc i = sposN l inc i := by
  unfold spos sposN kstart
  by_cases h : 0 < inc
  · obtain ⟨c, rfl⟩ := Int.eq_ofNat_of_zero_le (le_of_lt h)
    simp only [gt_iff_lt, h, if_true, zero_add, Int.natAbs_natCast]
    rw [← Int.natCast_mul, Int.toNat_natCast]
  · have h' : inc ≤ 0 := not_lt.mp h
    obtain ⟨c, hc⟩ := Int.eq_ofNat_of_zero_le (neg_nonneg.mpr h')
    have hinc : inc = -(c : Int) := by omega
    subst hinc
    simp only [gt_iff_lt, h, if_false, Int.natAbs_neg, Int.natAbs_natCast]
    have : -((l : Int) - 1) * -(c : Int) + (i : Int) * -(c : Int) = (((l - 1 - i) * c : Nat) : Int) := by
      have h1 : ((l - 1 - i : Nat) : Int) = (l : Int) - 1 - i := by omega
      rw [Int.natCast_mul, h1]; ring
    rw [this, Int.toNat_natCast]

theorem sposN_inj (l : Nat) (inc : Int) (hinc : inc ≠ 0) (i j : Nat) (hi : i < l) (hj : j < l)
    (e : sposN l inc i = sposN l inc j) : i = j := by
  unfold sposN at e
  have hc : 0 < inc.natAbs := Int.natAbs_pos.mpr hinc
  by_cases h : 0 < inc
  · simp only [h, if_true] at e
    exact Nat.eq_of_mul_eq_mul_right hc e
  · simp only [h, if_false] at e
    have := Nat.eq_of_mul_eq_mul_right hc e
    omega

theorem sposN_le (l : Nat) (inc : Int) (i : Nat) (hi : i < l) : sposN l inc i ≤ (l - 1) * inc.natAbs := by
  unfold sposN
  by_cases h : 0 < inc
  · simp only [h, if_true]; exact Nat.mul_le_mul_right _ (by omega)
  · simp only [h, if_false]; exact Nat.mul_le_mul_right _ (by omega)

end Slu.Blas
