/-
Third step towards `initOk`/`initOk2`: the cursor of `ParallelInit`'s partition loop (`initStep`/`initLoop`, fields `i` and `rs`).
For every postordered etree, relax, panel size ≥ 1: each iteration advances by at least one column, never past n and never into a
relaxed supernode it has not reached; a relaxed supernode is consumed exactly when the cursor stands on its first column.  Hence
the loop ends with the cursor exactly at n (the panels tile [0, n)) and the fuel of the model is never used up.
-/
import SluVerif.Proofs.RelaxSnode
import SluVerif.Proofs.PanelWidth
namespace Slu
open Slu.Gen

def CurOk (n : Nat) (a : InitAcc) : Prop :=
  a.i ≤ n ∧ SnodesOk n a.rs ∧ ∀ r ∈ a.rs, a.i ≤ r.1

theorem initStep_cursor (c : PanelCfg) (ukids0 : Array Int) (a : InitAcc) (hps : 1 ≤ c.panelSize)
    (h : CurOk c.n a) (hi : a.i < c.n) :
    a.i < (initStep c ukids0 a).i ∧ (initStep c ukids0 a).i ≤ a.i + max c.panelSize (c.n - a.i) ∧ CurOk c.n (initStep c ukids0 a) := by
  obtain ⟨_, ⟨hpw, hin⟩, hge⟩ := h
  unfold initStep
  simp only []
  split
  · rename_i f sz rest hrs
    rw [hrs] at hpw hin hge
    have hf := hin (f, sz) (List.mem_cons_self ..)
    have hgf := hge (f, sz) (List.mem_cons_self ..)
    simp only [] at hf hgf
    rw [List.pairwise_cons] at hpw
    split
    · rename_i hfi
      simp only [beq_iff_eq] at hfi
      simp only []
      have hsz : (sz == 0) = false := by simp; omega
      simp only [hsz]
      refine ⟨by simp; omega, by simp; omega, by simp; omega, ⟨hpw.2, fun r hr => hin r (List.mem_cons_of_mem _ hr)⟩, ?_⟩
      intro r hr
      have := hpw.1 r hr
      simp only [] at this ⊢
      simp; omega
    · rename_i hfi
      simp only [beq_iff_eq] at hfi
      have hfl : a.i < f := by omega
      have B := panelWidth_bounds c ukids0 a.i f a.doSplit hps hi hfl
      generalize panelWidth c ukids0 a.i f a.doSplit = pw at B ⊢
      obtain ⟨w, ds, sp⟩ := pw
      simp only [] at B ⊢
      have hw : (w == 0) = false := by simp; omega
      simp only [hw]
      refine ⟨by simp; omega, by simp; omega, by simp; omega, ⟨by rw [hrs, List.pairwise_cons]; exact hpw, by rw [hrs]; exact hin⟩, ?_⟩
      intro r hr
      rw [hrs] at hr
      rcases List.mem_cons.mp hr with hr | hr
      · subst hr; simp; omega
      · have := hpw.1 r hr
        simp only [] at this ⊢
        simp; omega
  · rename_i hrs
    have B := panelWidth_bounds c ukids0 a.i c.n a.doSplit hps hi hi
    generalize panelWidth c ukids0 a.i c.n a.doSplit = pw at B ⊢
    obtain ⟨w, ds, sp⟩ := pw
    simp only [] at B ⊢
    have hw : (w == 0) = false := by simp; omega
    simp only [hw]
    exact ⟨by simp; omega, by simp; omega, by simp; omega, ⟨by simp, by simp⟩, by simp⟩

/-- the partition loop from any good cursor state: ends exactly at n, with every relaxed supernode consumed, whatever fuel ≥ n − i -/
theorem initLoop_cursor (c : PanelCfg) (ukids0 : Array Int) (hps : 1 ≤ c.panelSize) :
    ∀ fuel a, CurOk c.n a → c.n ≤ fuel + a.i →
      (initLoop c ukids0 fuel a).i = c.n ∧ (initLoop c ukids0 fuel a).rs = [] := by
  intro fuel
  induction fuel with
  | zero =>
    intro a h hf
    simp only [initLoop]
    have hi : a.i = c.n := by have := h.1; omega
    refine ⟨hi, ?_⟩
    cases hrs : a.rs with
    | nil => rfl
    | cons r rest =>
      have h1 := h.2.1.2 r (by rw [hrs]; exact List.mem_cons_self ..)
      have h2 := h.2.2 r (by rw [hrs]; exact List.mem_cons_self ..)
      omega
  | succ f ih =>
    intro a h hf
    unfold initLoop
    split
    · rename_i hi
      have S := initStep_cursor c ukids0 a hps h hi
      exact ih _ S.2.2 (by omega)
    · rename_i hi
      have hi : a.i = c.n := by have := h.1; omega
      refine ⟨hi, ?_⟩
      cases hrs : a.rs with
      | nil => rfl
      | cons r rest =>
        have h1 := h.2.1.2 r (by rw [hrs]; exact List.mem_cons_self ..)
        have h2 := h.2.2 r (by rw [hrs]; exact List.mem_cons_self ..)
        omega

/-- **`ParallelInit`'s partition loop, every postordered etree / relax / panel size ≥ 1 / n**: started as `parallelInit` starts it
(cursor 0, all relaxed supernodes of `pxgstrf_relax_snode` pending), the loop ends with the cursor exactly at n and no relaxed
supernode left over: the panels tile [0, n), each relaxed supernode became one panel, and the fuel n is sufficient. -/
theorem parallelInit_loop_covers (c : PanelCfg) (ukids0 : Array Int) (sh0 : Sh) (hps : 1 ≤ c.panelSize)
    (h : PostOrd c.n c.etree) :
    let a := initLoop c ukids0 c.n { sh := sh0, i := 0, rs := relaxSnode c.n c.relax c.etree, doSplit := false }
    a.i = c.n ∧ a.rs = [] := by
  apply initLoop_cursor c ukids0 hps
  · exact ⟨Nat.zero_le _, relaxSnode_ok c.n c.relax c.etree h, fun r _ => Nat.zero_le _⟩
  · simp

/-- frame: the partition loop never touches the task queue or the column flags (they are filled by `EnqueueRelaxSnode` afterwards) -/
theorem initStep_frame (c : PanelCfg) (ukids0 : Array Int) (a : InitAcc) :
    (initStep c ukids0 a).sh.queue = a.sh.queue ∧ (initStep c ukids0 a).sh.head = a.sh.head
      ∧ (initStep c ukids0 a).sh.tail = a.sh.tail ∧ (initStep c ukids0 a).sh.count = a.sh.count
      ∧ (initStep c ukids0 a).sh.spin = a.sh.spin := by
  unfold initStep
  simp only []
  simp

theorem initLoop_frame (c : PanelCfg) (ukids0 : Array Int) :
    ∀ fuel a, (initLoop c ukids0 fuel a).sh.queue = a.sh.queue ∧ (initLoop c ukids0 fuel a).sh.head = a.sh.head
      ∧ (initLoop c ukids0 fuel a).sh.tail = a.sh.tail ∧ (initLoop c ukids0 fuel a).sh.count = a.sh.count
      ∧ (initLoop c ukids0 fuel a).sh.spin = a.sh.spin := by
  intro fuel
  induction fuel with
  | zero => intro a; simp [initLoop]
  | succ f ih =>
    intro a
    unfold initLoop
    split
    · have F := initStep_frame c ukids0 a
      have I := ih (initStep c ukids0 a)
      exact ⟨I.1.trans F.1, I.2.1.trans F.2.1, I.2.2.1.trans F.2.2.1, I.2.2.2.1.trans F.2.2.2.1, I.2.2.2.2.trans F.2.2.2.2⟩
    · simp

/-- a fold of steps that each append one queue entry -/
theorem enqueue_fold (g : Sh → (Nat × Nat) → Sh)
    (hg : ∀ sh x, (g sh x).head = sh.head ∧ (g sh x).tail = sh.tail + 1 ∧ (g sh x).count = sh.count + 1
      ∧ (g sh x).queue.size = sh.queue.size) (L : List (Nat × Nat)) : ∀ sh : Sh,
    (L.foldl g sh).head = sh.head ∧ (L.foldl g sh).tail = sh.tail + L.length
      ∧ (L.foldl g sh).count = sh.count + (L.length : Int) ∧ (L.foldl g sh).queue.size = sh.queue.size := by
  induction L with
  | nil => intro sh; simp
  | cons x xs ih =>
    intro sh
    simp only [List.foldl_cons, List.length_cons]
    have I := ih (g sh x)
    have G := hg sh x
    refine ⟨I.1.trans G.1, by omega, by have := I.2.2.1; push_cast; omega, I.2.2.2.trans G.2.2.2⟩

/-- **Clauses 3–5 of `initOk` proved for `ParallelInit` itself** (every etree, relax, panel size, n): the task queue has n slots,
`head = 0 ≤ tail = number of relaxed supernodes`, and `count = tail − head`. -/
theorem parallelInit_queue_cursors (c : PanelCfg) :
    (parallelInit c).queue.size = c.n ∧ (parallelInit c).head = 0
      ∧ (parallelInit c).tail = (relaxSnode c.n c.relax c.etree).length
      ∧ (parallelInit c).count = (((parallelInit c).tail : Int) - ((parallelInit c).head : Int)) := by
  unfold parallelInit
  simp only []
  generalize (List.range c.n).foldl _ (Array.replicate (c.n + 1) (0 : Int)) = ukids0
  have F := initLoop_frame c ukids0 c.n
    { sh :=
        { state := Array.replicate (c.n + 1) 0, typ := Array.replicate c.n 0, size := Array.replicate (c.n + 1) 0,
          ukids := ukids0, fb := Array.replicate (c.n + 1) 0, queue := Array.replicate c.n 0, head := 0, tail := 0,
          count := 0, tasksRemain := 0, spin := Array.replicate c.n 0, numSplits := 0 },
      i := 0, rs := relaxSnode c.n c.relax c.etree, doSplit := false }
  simp only [] at F
  generalize initLoop c ukids0 c.n _ = a at F ⊢
  generalize hsh1 : ({ a.sh with size := a.sh.size.setIfInBounds c.n 1, state := a.sh.state.setIfInBounds c.n UNREADY } : Sh) = sh1
  have h1 : sh1.head = 0 ∧ sh1.tail = 0 ∧ sh1.count = 0 ∧ sh1.queue.size = c.n := by
    subst hsh1; simp only []; rw [F.1, F.2.1, F.2.2.1, F.2.2.2.1]; simp
  have key : ∀ g : Sh → (Nat × Nat) → Sh, (∀ sh x, (g sh x).head = sh.head ∧ (g sh x).tail = sh.tail + 1 ∧ (g sh x).count = sh.count + 1
      ∧ (g sh x).queue.size = sh.queue.size) →
      ((relaxSnode c.n c.relax c.etree).foldl g sh1).queue.size = c.n ∧ ((relaxSnode c.n c.relax c.etree).foldl g sh1).head = 0
      ∧ ((relaxSnode c.n c.relax c.etree).foldl g sh1).tail = (relaxSnode c.n c.relax c.etree).length
      ∧ ((relaxSnode c.n c.relax c.etree).foldl g sh1).count
          = ((((relaxSnode c.n c.relax c.etree).foldl g sh1).tail : Int) - (((relaxSnode c.n c.relax c.etree).foldl g sh1).head : Int)) := by
    intro g hg
    have E := enqueue_fold g hg (relaxSnode c.n c.relax c.etree) sh1
    rw [h1.1, h1.2.1, h1.2.2.1, h1.2.2.2] at E
    obtain ⟨e1, e2, e3, e4⟩ := E
    exact ⟨e4, e1, by rw [e2]; simp, by rw [e3, e2, e1]; simp⟩
  exact key _ (by intro sh x; obtain ⟨f, s⟩ := x; simp)

theorem initStep_sizes (c : PanelCfg) (ukids0 : Array Int) (a : InitAcc) :
    (initStep c ukids0 a).sh.state.size = a.sh.state.size ∧ (initStep c ukids0 a).sh.ukids.size = a.sh.ukids.size
      ∧ (initStep c ukids0 a).sh.fb.size = a.sh.fb.size := by
  unfold initStep
  simp only []
  simp

theorem initLoop_sizes (c : PanelCfg) (ukids0 : Array Int) :
    ∀ fuel a, (initLoop c ukids0 fuel a).sh.state.size = a.sh.state.size ∧ (initLoop c ukids0 fuel a).sh.ukids.size = a.sh.ukids.size
      ∧ (initLoop c ukids0 fuel a).sh.fb.size = a.sh.fb.size := by
  intro fuel
  induction fuel with
  | zero => intro a; simp [initLoop]
  | succ f ih =>
    intro a
    unfold initLoop
    split
    · have F := initStep_sizes c ukids0 a
      have I := ih (initStep c ukids0 a)
      exact ⟨I.1.trans F.1, I.2.1.trans F.2.1, I.2.2.trans F.2.2⟩
    · simp

theorem fold_frame (g : Sh → (Nat × Nat) → Sh)
    (hg : ∀ sh x, (g sh x).state = sh.state ∧ (g sh x).ukids = sh.ukids ∧ (g sh x).fb = sh.fb ∧ (g sh x).spin = sh.spin)
    (L : List (Nat × Nat)) : ∀ sh : Sh,
    (L.foldl g sh).state = sh.state ∧ (L.foldl g sh).ukids = sh.ukids ∧ (L.foldl g sh).fb = sh.fb ∧ (L.foldl g sh).spin = sh.spin := by
  induction L with
  | nil => intro sh; simp
  | cons x xs ih =>
    intro sh
    simp only [List.foldl_cons]
    have I := ih (g sh x)
    have G := hg sh x
    exact ⟨I.1.trans G.1, I.2.1.trans G.2.1, I.2.2.1.trans G.2.2.1, I.2.2.2.trans G.2.2.2⟩

/-- **The array-size clauses of `initOk` and `initOk2` proved for `ParallelInit` itself**, every input -/
theorem parallelInit_sizes (c : PanelCfg) :
    (parallelInit c).state.size = c.n + 1 ∧ (parallelInit c).ukids.size = c.n + 1
      ∧ (parallelInit c).fb.size = c.n + 1 ∧ (parallelInit c).spin.size = c.n := by
  unfold parallelInit
  simp only []
  have hfold : ∀ (L : List Nat) (u : Array Int),
      (L.foldl (fun u i => u.setIfInBounds (getN c.etree i) (getZ u (getN c.etree i) + 1)) u).size = u.size := by
    intro L; induction L with
    | nil => intro u; rfl
    | cons x xs ih => intro u; simp only [List.foldl_cons]; rw [ih]; simp
  have hus := hfold (List.range c.n) (Array.replicate (c.n + 1) (0 : Int))
  simp only [Array.size_replicate] at hus
  generalize (List.range c.n).foldl _ (Array.replicate (c.n + 1) (0 : Int)) = ukids0 at hus ⊢
  have F := initLoop_sizes c ukids0 c.n
    { sh :=
        { state := Array.replicate (c.n + 1) 0, typ := Array.replicate c.n 0, size := Array.replicate (c.n + 1) 0,
          ukids := ukids0, fb := Array.replicate (c.n + 1) 0, queue := Array.replicate c.n 0, head := 0, tail := 0,
          count := 0, tasksRemain := 0, spin := Array.replicate c.n 0, numSplits := 0 },
      i := 0, rs := relaxSnode c.n c.relax c.etree, doSplit := false }
  have F2 := initLoop_frame c ukids0 c.n
    { sh :=
        { state := Array.replicate (c.n + 1) 0, typ := Array.replicate c.n 0, size := Array.replicate (c.n + 1) 0,
          ukids := ukids0, fb := Array.replicate (c.n + 1) 0, queue := Array.replicate c.n 0, head := 0, tail := 0,
          count := 0, tasksRemain := 0, spin := Array.replicate c.n 0, numSplits := 0 },
      i := 0, rs := relaxSnode c.n c.relax c.etree, doSplit := false }
  simp only [] at F F2
  generalize initLoop c ukids0 c.n _ = a at F F2 ⊢
  generalize hsh1 : ({ a.sh with size := a.sh.size.setIfInBounds c.n 1, state := a.sh.state.setIfInBounds c.n UNREADY } : Sh) = sh1
  have h1 : sh1.state.size = c.n + 1 ∧ sh1.ukids.size = c.n + 1 ∧ sh1.fb.size = c.n + 1 ∧ sh1.spin.size = c.n := by
    subst hsh1; simp only [Array.size_setIfInBounds]; rw [F.1, F.2.1, F.2.2, F2.2.2.2.2]; simp [hus]
  have key : ∀ g : Sh → (Nat × Nat) → Sh,
      (∀ sh x, (g sh x).state = sh.state ∧ (g sh x).ukids = sh.ukids ∧ (g sh x).fb = sh.fb ∧ (g sh x).spin = sh.spin) →
      ((relaxSnode c.n c.relax c.etree).foldl g sh1).state.size = c.n + 1 ∧ ((relaxSnode c.n c.relax c.etree).foldl g sh1).ukids.size = c.n + 1
      ∧ ((relaxSnode c.n c.relax c.etree).foldl g sh1).fb.size = c.n + 1 ∧ ((relaxSnode c.n c.relax c.etree).foldl g sh1).spin.size = c.n := by
    intro g hg
    have E := fold_frame g hg (relaxSnode c.n c.relax c.etree) sh1
    rw [E.1, E.2.1, E.2.2.1, E.2.2.2]
    exact h1
  exact key _ (by intro sh x; obtain ⟨f, s⟩ := x; simp)

/-- the columns at which the partition loop stands (the leading columns of the panels it creates) -/
def cursors (c : PanelCfg) (ukids0 : Array Int) : Nat → InitAcc → List Nat
  | 0, _ => []
  | fuel + 1, a => if a.i < c.n then a.i :: cursors c ukids0 fuel (initStep c ukids0 a) else []

theorem initStep_fb (c : PanelCfg) (ukids0 : Array Int) (a : InitAcc) (h : a.i < a.sh.fb.size) :
    getN (initStep c ukids0 a).sh.fb a.i = a.i ∧ ∀ k, k ≠ a.i → getN (initStep c ukids0 a).sh.fb k = getN a.sh.fb k := by
  unfold initStep
  simp only [getN]
  refine ⟨by simp [h], ?_⟩
  intro k hk
  simp [Array.getD_eq_getD_getElem?, Ne.symm hk]

/-- **`fb_cols[p] = p` at every leading column the loop creates** (clause of `initOk2`), every postordered etree / relax / panel size -/
theorem initLoop_fb (c : PanelCfg) (ukids0 : Array Int) (hps : 1 ≤ c.panelSize) :
    ∀ fuel a, CurOk c.n a → a.sh.fb.size = c.n + 1 → (∀ p, p < a.i → getN (initLoop c ukids0 fuel a).sh.fb p = getN a.sh.fb p)
      ∧ ∀ p ∈ cursors c ukids0 fuel a, getN (initLoop c ukids0 fuel a).sh.fb p = p := by
  intro fuel
  induction fuel with
  | zero => intro a _ _; simp [initLoop, cursors]
  | succ f ih =>
    intro a h hs
    unfold initLoop cursors
    split
    · rename_i hi
      have S := initStep_cursor c ukids0 a hps h hi
      have Z := (initStep_sizes c ukids0 a).2.2
      have FB := initStep_fb c ukids0 a (by omega)
      have I := ih (initStep c ukids0 a) S.2.2 (by omega)
      refine ⟨?_, ?_⟩
      · intro p hp
        rw [I.1 p (by omega), FB.2 p (by omega)]
      · intro p hp
        rcases List.mem_cons.mp hp with hp | hp
        · subst hp; rw [I.1 a.i S.1, FB.1]
        · exact I.2 p hp
    · simp

theorem initStep_state (c : PanelCfg) (ukids0 : Array Int) (a : InitAcc) (h : a.i < a.sh.state.size) :
    (getN (initStep c ukids0 a).sh.state a.i = CANGO ∨ getN (initStep c ukids0 a).sh.state a.i = UNREADY)
      ∧ ∀ k, k ≠ a.i → getN (initStep c ukids0 a).sh.state k = getN a.sh.state k := by
  unfold initStep
  simp only [getN]
  refine ⟨?_, ?_⟩
  · split <;> (try split) <;> simp [h]
  · intro k hk
    split <;> (try split) <;> simp [Array.getD_eq_getD_getElem?, Ne.symm hk]

/-- **every leading column the loop creates is left in a legal, not yet taken state** (`BUSY < state ≤ UNREADY`, clause of `initOk`):
CANGO for a relaxed supernode, UNREADY for a regular panel -/
theorem initLoop_state (c : PanelCfg) (ukids0 : Array Int) (hps : 1 ≤ c.panelSize) :
    ∀ fuel a, CurOk c.n a → a.sh.state.size = c.n + 1 →
      (∀ p, p < a.i → getN (initLoop c ukids0 fuel a).sh.state p = getN a.sh.state p)
      ∧ ∀ p ∈ cursors c ukids0 fuel a, BUSY < getN (initLoop c ukids0 fuel a).sh.state p
          ∧ getN (initLoop c ukids0 fuel a).sh.state p ≤ UNREADY := by
  intro fuel
  induction fuel with
  | zero => intro a _ _; simp [initLoop, cursors]
  | succ f ih =>
    intro a h hs
    unfold initLoop cursors
    split
    · rename_i hi
      have S := initStep_cursor c ukids0 a hps h hi
      have Z := (initStep_sizes c ukids0 a).1
      have ST := initStep_state c ukids0 a (by omega)
      have I := ih (initStep c ukids0 a) S.2.2 (by omega)
      refine ⟨?_, ?_⟩
      · intro p hp
        rw [I.1 p (by omega), ST.2 p (by omega)]
      · intro p hp
        rcases List.mem_cons.mp hp with hp | hp
        · subst hp; rw [I.1 a.i S.1]
          rcases ST.1 with e | e <;> rw [e] <;> decide
        · exact I.2 p hp
    · simp

/-- the leading columns come in strictly increasing order, all inside [a.i, n): no column leads two panels -/
theorem cursors_increasing (c : PanelCfg) (ukids0 : Array Int) (hps : 1 ≤ c.panelSize) :
    ∀ fuel a, CurOk c.n a → (cursors c ukids0 fuel a).Pairwise (· < ·)
      ∧ ∀ p ∈ cursors c ukids0 fuel a, a.i ≤ p ∧ p < c.n := by
  intro fuel
  induction fuel with
  | zero => intro a _; simp [cursors]
  | succ f ih =>
    intro a h
    unfold cursors
    split
    · rename_i hi
      have S := initStep_cursor c ukids0 a hps h hi
      have I := ih (initStep c ukids0 a) S.2.2
      refine ⟨?_, ?_⟩
      · rw [List.pairwise_cons]
        exact ⟨fun p hp => by have := (I.2 p hp).1; omega, I.1⟩
      · intro p hp
        rcases List.mem_cons.mp hp with hp | hp
        · subst hp; omega
        · have := I.2 p hp; omega
    · simp

end Slu
