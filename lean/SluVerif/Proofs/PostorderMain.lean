/- TreePostorder: closed form of the result, permutation property, contiguity of subtrees after
   relabelling. -/
import SluVerif.Proofs.Forest
namespace Slu.Pre

/-! ### numbering -/

theorem numberAll_get_not_mem (post : Array Nat) (pn : Nat) (l : List Nat) (x : Nat) (h : x ∉ l) :
    getN (numberAll post pn l) x = getN post x := by
  induction l generalizing post pn with
  | nil => rfl
  | cons y l ih =>
      simp only [List.mem_cons, not_or] at h
      simp only [numberAll]
      rw [ih _ _ h.2, getN_set]
      have : ¬ (y = x ∧ y < post.size) := fun hh => h.1 hh.1.symm
      simp [this]

theorem numberAll_get_mem (post : Array Nat) (pn : Nat) (l : List Nat) (x : Nat) (hnd : l.Nodup)
    (h : x ∈ l) (hx : x < post.size) : getN (numberAll post pn l) x = pn + l.idxOf x := by
  induction l generalizing post pn with
  | nil => cases h
  | cons y l ih =>
      simp only [numberAll]
      have hnd' := List.nodup_cons.1 hnd
      by_cases hxy : x = y
      · subst hxy
        rw [numberAll_get_not_mem _ _ _ _ hnd'.1, getN_set]
        simp [hx]
      · have hm : x ∈ l := by
          rcases List.mem_cons.1 h with h | h
          · exact absurd h hxy
          · exact h
        rw [ih _ _ hnd'.2 hm (by simpa using hx)]
        have hyx : (y == x) = false := by simpa using fun h : y = x => hxy h.symm
        rw [List.idxOf_cons, hyx]
        simp only [cond_false]
        omega

/-! ### closed form of `treePostorder` -/

theorem fctx_of {n : Nat} {parent : Array Nat} {rank : Nat → Nat} (hp : ∀ v, v < n → getN parent v ≤ n)
    (hr : ∀ v, v < n → rank v < rank (getN parent v)) : FCtx (getN parent) n rank := ⟨hp, hr⟩

/-- the non-recursive walk ends (fuel `2n+3` is exactly what it uses) and numbers the vertices in the
order of the recursive postorder -/
theorem treePostorder_eq {n : Nat} {parent : Array Nat} {rank : Nat → Nat}
    (hp : ∀ v, v < n → getN parent v ≤ n) (hr : ∀ v, v < n → rank v < rank (getN parent v)) :
    treePostorder n parent =
      numberAll (Array.replicate (n + 1) 0) 0 (po (kids (getN parent) n) (rank n) n) := by
  have c := fctx_of hp hr
  have hlen := po_root_length c
  unfold treePostorder
  have hinv := buildKids_inv parent n hp
  generalize buildKids n parent = bk at hinv
  obtain ⟨fk, nk⟩ := bk
  simp only at hinv ⊢
  have wc : WalkCtx n parent fk nk rank := ⟨hinv, hp, hr⟩
  by_cases hn : n = 0
  · subst hn
    have hk : kids (getN parent) 0 0 = [] := rfl
    have hpo : po (kids (getN parent) 0) (rank 0) 0 = [0] := by
      cases rank 0 <;> simp [po, hk]
    rw [hpo]
    simp [walkFuel, walk, numberAll]
  · have hs := simNode wc (rank n) n (Nat.le_refl _) (Nat.le_refl _) 1 0 (Array.replicate (n + 1) 0)
      (fun h => hn h.symm) (by omega)
    have hf : walkFuel n = 1 + 2 * (po (kids (getN parent) n) (rank n) n).length := by
      rw [hlen]; unfold walkFuel; omega
    rw [hf, hs, hlen]
    rw [walk, hinv.hnkn]
    simp

/-! ### permutations on `Nat` arrays and the bridge to `IsPerm` -/

/-- `p` restricted to `0..n-1` is a bijection of `0..n-1` (entries beyond `n` are ignored) -/
def PermOn (n : Nat) (p : Array Nat) : Prop :=
  (∀ i, i < n → getN p i < n) ∧ (∀ i j, i < n → j < n → getN p i = getN p j → i = j)

/-- the first `n` entries as a C `int_t` array -/
def firstInts (n : Nat) (p : Array Nat) : Array Int := Array.ofFn (n := n) (fun i => (getN p i.1 : Int))

theorem isPerm_firstInts {n : Nat} {p : Array Nat} (h : PermOn n p) : IsPerm n (firstInts n p) := by
  refine ⟨by simp [firstInts], ?_, ?_⟩
  · intro v hv
    simp only [firstInts, Array.toList_ofFn, List.mem_ofFn] at hv
    obtain ⟨i, hi⟩ := hv
    subst hi
    have := h.1 i.1 i.2
    omega
  · simp only [firstInts, Array.toList_ofFn]
    unfold List.Nodup
    rw [List.pairwise_iff_getElem]
    intro i j hi hj hij
    simp only [List.getElem_ofFn]
    intro heq
    simp only [List.length_ofFn] at hi hj
    have := h.2 i j hi hj (by exact_mod_cast heq)
    omega


/-! ### the numbering `x ↦ post[x]` is the position in the recursive postorder -/

theorem po_last (kd : Nat → List Nat) (f v : Nat) : ∃ l, po kd f v = l ++ [v] := by
  cases f with
  | zero => exact ⟨[], rfl⟩
  | succ f => exact ⟨_, rfl⟩

section main
variable {n : Nat} {parent : Array Nat} {rank : Nat → Nat}

/-- the postorder list of the whole forest (dummy root last) -/
def poAll (n : Nat) (parent : Array Nat) (rank : Nat → Nat) : List Nat :=
  po (kids (getN parent) n) (rank n) n

theorem mem_poAll (c : FCtx (getN parent) n rank) {x : Nat} : x ∈ poAll n parent rank ↔ x ≤ n := by
  unfold poAll
  rw [(po_root_perm c).mem_iff, List.mem_range]; omega

theorem post_get (hp : ∀ v, v < n → getN parent v ≤ n) (hr : ∀ v, v < n → rank v < rank (getN parent v))
    {x : Nat} (hx : x ≤ n) : getN (treePostorder n parent) x = (poAll n parent rank).idxOf x := by
  have c := fctx_of hp hr
  rw [treePostorder_eq hp hr, numberAll_get_mem _ _ _ _ (po_nodup c _ _) ((mem_poAll c).2 hx) (by simp; omega)]
  simp [poAll]

theorem treePostorder_size (hp : ∀ v, v < n → getN parent v ≤ n) (hr : ∀ v, v < n → rank v < rank (getN parent v)) :
    (treePostorder n parent).size = n + 1 := by
  rw [treePostorder_eq hp hr, numberAll_size]; simp

theorem q_le (c : FCtx (getN parent) n rank) {x : Nat} (hx : x ≤ n) : (poAll n parent rank).idxOf x ≤ n := by
  have := List.idxOf_lt_length_iff.2 ((mem_poAll c).2 hx)
  have hl : (poAll n parent rank).length = n + 1 := po_root_length c
  omega

theorem q_inj (c : FCtx (getN parent) n rank) {x y : Nat} (hx : x ≤ n) (hy : y ≤ n)
    (h : (poAll n parent rank).idxOf x = (poAll n parent rank).idxOf y) : x = y := by
  have h1 := List.idxOf_lt_length_iff.2 ((mem_poAll c).2 hx)
  have h2 := List.idxOf_lt_length_iff.2 ((mem_poAll c).2 hy)
  have e1 := List.getElem_idxOf h1
  have e2 := List.getElem_idxOf h2
  rw [← e1, ← e2]
  simp only [h]

/-- subtree of `v` = the vertices numbered `a .. post[v]`, where `post[v] + 1 = a + s` -/
theorem seg_idx (c : FCtx (getN parent) n rank) {v : Nat} (hv : v ≤ n) :
    ∃ a s, 1 ≤ s ∧ (poAll n parent rank).idxOf v + 1 = a + s ∧
      ∀ x, x ≤ n → (Desc (getN parent) n v x ↔
        (a ≤ (poAll n parent rank).idxOf x ∧ (poAll n parent rank).idxOf x ≤ (poAll n parent rank).idxOf v)) := by
  have hvL := (mem_poAll c).2 hv
  obtain ⟨A, B, hAB⟩ := po_segment c (Nat.le_refl _) hvL
  have hnd : (poAll n parent rank).Nodup := po_nodup c _ _
  obtain ⟨S0, hS0⟩ := po_last (kids (getN parent) n) (rank v) v
  generalize hS : po (kids (getN parent) n) (rank v) v = S at hAB hS0
  have hL : poAll n parent rank = A ++ S ++ B := hAB
  have hmemS : ∀ x, x ∈ S ↔ Desc (getN parent) n v x := by
    intro x; rw [← hS]; exact mem_po_iff c (Nat.le_refl _)
  have hndAS : (A ++ S).Nodup := by
    rw [hL] at hnd
    exact (List.nodup_append.1 hnd).1
  have hdisj : ∀ x, x ∈ S → x ∉ A := by
    intro x hxS hxA
    exact (List.nodup_append.1 hndAS).2.2 x hxA x hxS rfl
  have hidx : ∀ x, x ∈ S → (poAll n parent rank).idxOf x = S.idxOf x + A.length := by
    intro x hxS
    rw [hL, List.idxOf_append, if_pos (List.mem_append_right _ hxS), List.idxOf_append, if_neg (hdisj x hxS)]
  have hndS : S.Nodup := (List.nodup_append.1 hndAS).2.1
  have hvS0 : v ∉ S0 := by
    rw [hS0] at hndS
    intro h
    exact (List.nodup_append.1 hndS).2.2 v h v (by simp) rfl
  have hidxv : S.idxOf v = S0.length := by
    rw [hS0, List.idxOf_append, if_neg hvS0]; simp
  have hSlen : S.length = S0.length + 1 := by rw [hS0]; simp
  have hvS : v ∈ S := by rw [hS0]; simp
  refine ⟨A.length, S.length, by omega, by rw [hidx v hvS, hidxv]; omega, ?_⟩
  intro x hx
  constructor
  · intro hd
    have hxS := (hmemS x).2 hd
    have := List.idxOf_lt_length_iff.2 hxS
    rw [hidx x hxS, hidx v hvS, hidxv]
    omega
  · rintro ⟨h1, h2⟩
    rw [hidx v hvS, hidxv] at h2
    apply (hmemS x).1
    have hxL := (mem_poAll c).2 hx
    have hlt := List.idxOf_lt_length_iff.2 hxL
    have hget : (poAll n parent rank)[(poAll n parent rank).idxOf x]? = some x := by
      rw [List.getElem?_eq_getElem hlt, List.getElem_idxOf]
    generalize (poAll n parent rank).idxOf x = i at h1 h2 hget hlt
    rw [hL, List.getElem?_append_left (by simp; omega), List.getElem?_append_right h1] at hget
    exact List.mem_of_getElem? hget

theorem q_root (c : FCtx (getN parent) n rank) : (poAll n parent rank).idxOf n = n := by
  obtain ⟨l, hl⟩ := po_last (kids (getN parent) n) (rank n) n
  have hnd : (poAll n parent rank).Nodup := po_nodup c _ _
  have hlen : (poAll n parent rank).length = n + 1 := po_root_length c
  unfold poAll at hnd hlen ⊢
  rw [hl] at hnd hlen ⊢
  have : n ∉ l := fun h => (List.nodup_append.1 hnd).2.2 n h n (by simp) rfl
  rw [List.idxOf_append, if_neg this]
  simp at hlen ⊢
  omega

end main

end Slu.Pre
