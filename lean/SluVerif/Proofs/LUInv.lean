/- the inductive invariant of the dense LU model and its preservation by one column step -/
import SluVerif.Proofs.LULemmas
import SluVerif.Props.C02

namespace Slu

structure LUInv (P : LUParams) (st : LUState) : Prop where
  k_le : st.k ≤ P.n
  piv_size : st.piv.size = st.k
  pos_size : st.pos.size = P.n
  pos_piv : ∀ t, t < st.k → st.piv.getD t 0 < P.n ∧ posOf st (st.piv.getD t 0) = some t
  pos_inv : ∀ i t, posOf st i = some t → t < st.k ∧ st.piv.getD t 0 = i
  ell_one : ∀ t, t < st.k → getQ st.ell (st.piv.getD t 0) t = 1
  ell_zero : ∀ t s, t < st.k → t < s → s < P.n → getQ st.ell (st.piv.getD t 0) s = 0
  ell_future : ∀ i s, i < P.n → st.k ≤ s → s < P.n → getQ st.ell i s = 0
  uu_upper : ∀ t j, j < st.k → j < t → t < P.n → getQ st.uu t j = 0
  col_id : ∀ i j, i < P.n → j < st.k → getQ P.A i j = sumQ P.n (fun t => getQ st.ell i t * getQ st.uu t j)
  cands_len : (candRows P st).length = P.n - st.k

theorem posOf_init (n : Nat) (usepr : Bool) (i : Nat) : posOf (luInit n usepr) i = none := by
  unfold posOf luInit
  simp only
  by_cases h : i < n
  · simp [Array.getD, h]
  · simp [Array.getD, h]

theorem luInv_init (P : LUParams) (usepr : Bool) : LUInv P (luInit P.n usepr) := by
  refine ⟨Nat.zero_le _, rfl, by simp [luInit], ?_, ?_, ?_, ?_, ?_, ?_, ?_, ?_⟩
  · intro t ht; simp [luInit] at ht
  · intro i t h
    exfalso
    have : posOf (luInit P.n usepr) i = none := posOf_init P.n usepr i
    rw [this] at h; cases h
  · intro t ht; simp [luInit] at ht
  · intro t s ht; simp [luInit] at ht
  · intro i s hi _ hs; simp only [luInit]; rw [getQ_tabQ _ _ _ _ hi hs]
  · intro t j hj; simp [luInit] at hj
  · intro i j _ hj; simp [luInit] at hj
  · have : candRows P (luInit P.n usepr) = List.range P.n := by
      unfold candRows
      apply List.filter_eq_self.2
      intro i hi
      rw [posOf_init]; rfl
    rw [this]; simp [luInit]

/-- abbreviations for the quantities one column step computes -/
def stepU (P : LUParams) (st : LUState) : Array Rat := ucolA P.A st.ell st.piv st.k st.k
def stepSel (P : LUParams) (st : LUState) : PivSel := pivotSelect (pivIn P st (stepU P st))
def stepRow (P : LUParams) (st : LUState) : Nat := (candRows P st).getD (stepSel P st).pivptr 0
def stepC (P : LUParams) (st : LUState) (i : Nat) : Rat := candVal P st (stepU P st) i

theorem pivIn_rows_size (P : LUParams) (st : LUState) (u : Array Rat) :
    (pivIn P st u).rows.size = (candRows P st).length := by simp [pivIn]

theorem pivIn_nsupc (P : LUParams) (st : LUState) (u : Array Rat) : (pivIn P st u).nsupc = 0 := rfl

theorem pivIn_mag (P : LUParams) (st : LUState) (u : Array Rat) (idx : Nat) (h : idx < (candRows P st).length) :
    (pivIn P st u).mag idx = qabs (candVal P st u ((candRows P st).getD idx 0)) := by
  unfold PivIn.mag pivIn
  simp only
  rw [getD_map_toArrayQ _ _ _ h]

theorem pivIn_magsNonneg (P : LUParams) (st : LUState) (u : Array Rat) : (pivIn P st u).MagsNonneg := by
  intro i
  unfold PivIn.mag pivIn
  simp only
  by_cases h : i < (candRows P st).length
  · rw [getD_map_toArrayQ _ _ _ h]; exact qabs_nonneg _
  · simp [Array.getD, h]

/-- facts about the row chosen in a step, when at least one row is still unpivoted -/
theorem stepRow_spec (P : LUParams) (st : LUState) (hc : 0 < (candRows P st).length) :
    (stepSel P st).pivptr < (candRows P st).length ∧ stepRow P st ∈ candRows P st := by
  have hcand := pivot_ptr_cand (pivIn P st (stepU P st)) (by rw [pivIn_nsupc, pivIn_rows_size]; exact hc)
  have hlt : (stepSel P st).pivptr < (candRows P st).length := by
    have := hcand.2; rw [pivIn_rows_size] at this; exact this
  exact ⟨hlt, getD_mem _ _ hlt⟩

/-- in a successful step the chosen candidate value is nonzero -/
theorem stepC_ne_zero (P : LUParams) (st : LUState) (hc : 0 < (candRows P st).length)
    (h : (stepSel P st).info = 0) : stepC P st (stepRow P st) ≠ 0 := by
  have hnz := pivot_nonzero (pivIn P st (stepU P st)) h
  have hlt := (stepRow_spec P st hc).1
  change (pivIn P st (stepU P st)).mag (stepSel P st).pivptr ≠ 0 at hnz
  rw [pivIn_mag _ _ _ _ hlt] at hnz
  intro h0
  apply hnz
  rw [qabs_eq_zero]
  exact h0

/-- in a singular step every candidate value is zero -/
theorem stepC_all_zero (P : LUParams) (st : LUState)
    (h : (stepSel P st).info ≠ 0) (i : Nat) (hi : i ∈ candRows P st) : stepC P st i = 0 := by
  have hall := (pivot_singular_iff (pivIn P st (stepU P st)) (pivIn_magsNonneg _ _ _)).1 h
  obtain ⟨idx, hidx, hget⟩ := List.getElem_of_mem hi
  have hc : (pivIn P st (stepU P st)).cand idx := ⟨by rw [pivIn_nsupc]; exact Nat.zero_le _, by rw [pivIn_rows_size]; exact hidx⟩
  have := hall idx hc
  rw [pivIn_mag _ _ _ _ hidx, qabs_eq_zero] at this
  have e : (candRows P st).getD idx 0 = i := by simp [List.getD, hidx, hget]
  rw [e] at this
  exact this

end Slu

namespace Slu

theorem luStep_k (P : LUParams) (st : LUState) : (luStep P st).k = st.k + 1 := rfl
theorem luStep_piv (P : LUParams) (st : LUState) : (luStep P st).piv = st.piv.push (stepRow P st) := rfl
theorem luStep_pos (P : LUParams) (st : LUState) : (luStep P st).pos = st.pos.setIfInBounds (stepRow P st) (some st.k) := rfl

theorem luStep_ell (P : LUParams) (st : LUState) (i t : Nat) (hi : i < P.n) (ht : t < P.n) :
    getQ (luStep P st).ell i t =
      if t = st.k then
        (if i = stepRow P st then 1 else if (posOf st i).isNone then
          (if (stepSel P st).info = 0 then stepC P st i / stepC P st (stepRow P st) else stepC P st i) else 0)
      else getQ st.ell i t := by
  show getQ (tabQ P.n _) i t = _
  rw [getQ_tabQ _ _ _ _ hi ht]
  rfl

theorem luStep_uu (P : LUParams) (st : LUState) (t j : Nat) (ht : t < P.n) (hj : j < P.n) :
    getQ (luStep P st).uu t j =
      if j = st.k then (if t < st.k then (stepU P st).getD t 0 else if t = st.k then stepC P st (stepRow P st) else 0)
      else getQ st.uu t j := by
  show getQ (tabQ P.n _) t j = _
  rw [getQ_tabQ _ _ _ _ ht hj]
  rfl

theorem posOf_luStep (P : LUParams) (st : LUState) (i : Nat) (hr : stepRow P st < st.pos.size) :
    posOf (luStep P st) i = if i = stepRow P st then some st.k else posOf st i := by
  unfold posOf
  rw [luStep_pos, getD_setOpt _ _ _ _ hr]

/-- splitting `Σ_{t<n}` of a column that is zero below position `j` -/
theorem sumQ_col_split (n j : Nat) (hj : j < n) (a : Nat → Rat) (b : Rat) (f : Nat → Rat)
    (h1 : ∀ t, t < j → f t = a t) (h2 : f j = b) (h3 : ∀ t, j < t → t < n → f t = 0) :
    sumQ n f = sumQ j a + b := by
  rw [sumQ_trunc n (j + 1) f (by omega) (fun t h1' h2' => h3 t (by omega) h2'), sumQ_succ, h2]
  rw [sumQ_congr j f a h1]

theorem luInv_step (P : LUParams) (st : LUState) (inv : LUInv P st) (hk : st.k < P.n) :
    LUInv P (luStep P st) := by
  have hclen : 0 < (candRows P st).length := by rw [inv.cands_len]; omega
  obtain ⟨hptr, hrmem⟩ := stepRow_spec P st hclen
  obtain ⟨hrn, hrpos⟩ := (mem_candRows P st _).1 hrmem
  have hrsz : stepRow P st < st.pos.size := by rw [inv.pos_size]; exact hrn
  -- the new pivot row was not pivoted before, so it differs from every earlier pivot row
  have hr_ne : ∀ t, t < st.k → st.piv.getD t 0 ≠ stepRow P st := by
    intro t ht e
    have := (inv.pos_piv t ht).2
    rw [e, hrpos] at this; cases this
  have hpivget : ∀ t, t < st.k → (luStep P st).piv.getD t 0 = st.piv.getD t 0 := by
    intro t ht; rw [luStep_piv, getD_push_nat_lt _ _ _ (by rw [inv.piv_size]; exact ht)]
  have hpivnew : (luStep P st).piv.getD st.k 0 = stepRow P st := by
    rw [luStep_piv, getD_push_nat_eq _ _ _ inv.piv_size.symm]
  refine ⟨?k_le, ?piv_size, ?pos_size, ?pos_piv, ?pos_inv, ?ell_one, ?ell_zero, ?ell_future, ?uu_upper, ?col_id, ?cands_len⟩
  case k_le => rw [luStep_k]; omega
  case piv_size => rw [luStep_piv, luStep_k]; simp [inv.piv_size]
  case pos_size => rw [luStep_pos]; simp [inv.pos_size]
  case pos_piv =>
    intro t ht
    rw [luStep_k] at ht
    by_cases e : t = st.k
    · subst e
      rw [hpivnew, posOf_luStep _ _ _ hrsz]
      exact ⟨hrn, by simp⟩
    · have ht' : t < st.k := by omega
      rw [hpivget t ht', posOf_luStep _ _ _ hrsz, if_neg (hr_ne t ht')]
      exact inv.pos_piv t ht'
  case pos_inv =>
    intro i t h
    rw [posOf_luStep _ _ _ hrsz] at h
    rw [luStep_k]
    by_cases e : i = stepRow P st
    · rw [if_pos e] at h
      cases h
      exact ⟨by omega, by rw [hpivnew]; exact e.symm⟩
    · rw [if_neg e] at h
      obtain ⟨h1, h2⟩ := inv.pos_inv i t h
      exact ⟨by omega, by rw [hpivget t h1]; exact h2⟩
  case ell_one =>
    intro t ht
    rw [luStep_k] at ht
    by_cases e : t = st.k
    · subst e
      rw [hpivnew, luStep_ell _ _ _ _ hrn hk]
      simp
    · have ht' : t < st.k := by omega
      rw [hpivget t ht', luStep_ell _ _ _ _ (inv.pos_piv t ht').1 (by omega), if_neg e]
      exact inv.ell_one t ht'
  case ell_zero =>
    intro t s ht hts hs
    rw [luStep_k] at ht
    by_cases e : t = st.k
    · subst e
      rw [hpivnew, luStep_ell _ _ _ _ hrn hs, if_neg (by omega)]
      exact inv.ell_future _ _ hrn (by omega) hs
    · have ht' : t < st.k := by omega
      rw [hpivget t ht', luStep_ell _ _ _ _ (inv.pos_piv t ht').1 hs]
      by_cases es : s = st.k
      · rw [if_pos es, if_neg (hr_ne t ht')]
        have := (inv.pos_piv t ht').2
        rw [this]; rfl
      · rw [if_neg es]
        exact inv.ell_zero t s ht' hts hs
  case ell_future =>
    intro i s hi hks hs
    rw [luStep_k] at hks
    rw [luStep_ell _ _ _ _ hi hs, if_neg (by omega)]
    exact inv.ell_future i s hi (by omega) hs
  case uu_upper =>
    intro t j hj hjt ht
    rw [luStep_k] at hj
    rw [luStep_uu _ _ _ _ ht (by omega)]
    by_cases e : j = st.k
    · rw [if_pos e, if_neg (by omega), if_neg (by omega)]
    · rw [if_neg e]
      exact inv.uu_upper t j (by omega) hjt ht
  case col_id =>
    intro i j hi hj
    rw [luStep_k] at hj
    by_cases e : j = st.k
    · -- the new column
      subst e
      -- terms of the sum
      have hterm : ∀ t, t < P.n → getQ (luStep P st).ell i t * getQ (luStep P st).uu t st.k =
          (if t < st.k then getQ st.ell i t * (stepU P st).getD t 0
           else if t = st.k then getQ (luStep P st).ell i st.k * stepC P st (stepRow P st) else 0) := by
        intro t ht
        rw [luStep_uu _ _ _ _ ht hk, if_pos rfl]
        by_cases h1 : t < st.k
        · rw [if_pos h1, if_pos h1, luStep_ell _ _ _ _ hi ht, if_neg (by omega)]
        · rw [if_neg h1, if_neg h1]
          by_cases h2 : t = st.k
          · rw [if_pos h2, if_pos h2, h2]
          · rw [if_neg h2, if_neg h2, mul_zero]
      rw [sumQ_col_split P.n st.k hk (fun t => getQ st.ell i t * (stepU P st).getD t 0)
            (getQ (luStep P st).ell i st.k * stepC P st (stepRow P st)) _
            (fun t ht => by rw [hterm t (by omega), if_pos ht])
            (by rw [hterm st.k hk, if_neg (by omega), if_pos rfl])
            (fun t h1 h2 => by rw [hterm t h2, if_neg (by omega), if_neg (by omega)])]
      -- value of the new multiplier
      rw [luStep_ell _ _ _ _ hi hk, if_pos rfl]
      have hcdef : ∀ i', stepC P st i' = getQ P.A i' st.k - sumQ st.k (fun t => getQ st.ell i' t * (stepU P st).getD t 0) := fun _ => rfl
      by_cases hir : i = stepRow P st
      · rw [if_pos hir, one_mul, ← hir, hcdef i]; ring
      · rw [if_neg hir]
        cases hpi : posOf st i with
        | none =>
          simp only [Option.isNone_none, if_true]
          have himem : i ∈ candRows P st := (mem_candRows P st i).2 ⟨hi, hpi⟩
          by_cases hinfo : (stepSel P st).info = 0
          · rw [if_pos hinfo]
            have hne := stepC_ne_zero P st hclen hinfo
            rw [div_mul_cancel₀ _ hne, hcdef i]; ring
          · rw [if_neg hinfo, stepC_all_zero P st hinfo _ hrmem, mul_zero, add_zero]
            have := stepC_all_zero P st hinfo i himem
            rw [hcdef i] at this
            linarith
        | some t0 =>
          simp only [Option.isNone_some, Bool.false_eq_true, if_false, zero_mul, add_zero]
          -- row i was pivoted at step t0 < k: forward substitution defines u_{t0} from this row
          obtain ⟨ht0, hpiv0⟩ := inv.pos_inv i t0 hpi
          have hrec := ucolA_rec P.A st.ell st.piv st.k t0 st.k ht0
          rw [hpiv0] at hrec
          have hone := inv.ell_one t0 ht0
          rw [hpiv0] at hone
          have hsplit : sumQ st.k (fun t => getQ st.ell i t * (stepU P st).getD t 0)
              = sumQ t0 (fun t => getQ st.ell i t * (stepU P st).getD t 0) + (stepU P st).getD t0 0 := by
            rw [sumQ_trunc st.k (t0 + 1) _ (by omega) (fun t h1 h2 => by
                  have := inv.ell_zero t0 t ht0 (by omega) (by omega)
                  rw [hpiv0] at this
                  rw [this, zero_mul]),
                sumQ_succ, hone, one_mul]
          rw [hsplit]
          have hrec' : (stepU P st).getD t0 0 = getQ P.A i st.k - sumQ t0 (fun s' => getQ st.ell i s' * (stepU P st).getD s' 0) := hrec
          rw [hrec']; ring
    · -- an old column: the new multiplier column meets only zeros of U
      have hj' : j < st.k := by omega
      rw [inv.col_id i j hi hj']
      apply sumQ_congr
      intro t ht
      rw [luStep_uu _ _ _ _ ht (by omega), if_neg e, luStep_ell _ _ _ _ hi ht]
      by_cases h2 : t = st.k
      · rw [if_pos h2, h2, inv.uu_upper st.k j hj' (by omega) hk, mul_zero, mul_zero]
      · rw [if_neg h2]
  case cands_len =>
    rw [luStep_k]
    have hfil : candRows P (luStep P st) = (candRows P st).filter (fun i => i != stepRow P st) := by
      unfold candRows
      rw [List.filter_filter]
      apply List.filter_congr
      intro i _
      rw [posOf_luStep _ _ _ hrsz]
      by_cases e : i = stepRow P st
      · simp [e]
      · simp [e]
    rw [hfil, ← List.Nodup.erase_eq_filter (candRows_nodup P st), List.length_erase_of_mem hrmem, inv.cands_len]
    omega

theorem luInv_run (P : LUParams) (m : Nat) (st : LUState) (inv : LUInv P st) (hm : st.k + m ≤ P.n) :
    LUInv P (luRun P m st) ∧ (luRun P m st).k = st.k + m := by
  induction m generalizing st with
  | zero => exact ⟨inv, rfl⟩
  | succ m ih =>
    have hstep := luInv_step P st inv (by omega)
    have := ih (luStep P st) hstep (by rw [luStep_k]; omega)
    rw [luStep_k] at this
    show LUInv P (luRun P m (luStep P st)) ∧ (luRun P m (luStep P st)).k = st.k + (m + 1)
    exact ⟨this.1, by rw [this.2]; omega⟩

theorem luInv_factor (P : LUParams) (usepr : Bool) :
    LUInv P (factor P usepr) ∧ (factor P usepr).k = P.n := by
  have := luInv_run P P.n (luInit P.n usepr) (luInv_init P usepr) (by simp [luInit])
  simpa [factor, luInit] using this

end Slu
