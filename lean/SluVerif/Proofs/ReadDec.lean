/- C20 helper lemmas: printed decimals and `atof`. -/
import SluVerif.Proofs.ReadSlice
namespace Slu.Read

/-! ### printed decimals -/

def isExpLetter4 (c : Char) : Bool := c == 'E' || c == 'e' || c == 'D' || c == 'd'

def ExpPart.WF (e : ExpPart) : Prop := isExpLetter4 e.letter = true ∧ AllDig e.ds ∧ e.ds ≠ []

def Dec.WF (d : Dec) : Prop :=
  AllDig d.ip ∧ AllDig d.fp ∧ d.ip ++ d.fp ≠ [] ∧ (∀ e, d.ex = some e → e.WF)

theorem dToE_dig {c : Char} (h : isDig c = true) : dToE c = c := by
  have h1 := ne_of_isDig h (x := 'D') (by decide)
  have h2 := ne_of_isDig h (x := 'd') (by decide)
  simp [dToE, h1, h2]

theorem map_dToE_allDig {s : Str} (h : AllDig s) : s.map dToE = s := by
  induction s with
  | nil => rfl
  | cons c cs ih => simp [dToE_dig h.head, ih h.tail]

theorem map_dToE_blanks (k : Nat) : (blanks k).map dToE = blanks k := by
  simp [blanks, dToE]

theorem map_dToE_sign (n p : Bool) : (signStr n p).map dToE = signStr n p := by
  cases n <;> cases p <;> decide

theorem dToE_letter {c : Char} (h : isExpLetter4 c = true) : isExpLetter (dToE c) = true := by
  simp only [isExpLetter4, Bool.or_eq_true, beq_iff_eq] at h
  rcases h with ((rfl | rfl) | rfl) | rfl <;> decide

theorem takeSign_signStr_dig (n p : Bool) {c : Char} {s : Str}
    (hc : c ≠ '-' ∧ c ≠ '+') :
    takeSign (signStr n p ++ c :: s) = (n, c :: s) := by
  cases n
  · cases p
    · simp only [signStr, Bool.false_eq_true, if_false, List.nil_append]
      unfold takeSign
      split
      · rename_i heq; injection heq with a b; exact absurd a hc.1
      · rename_i heq; injection heq with a b; exact absurd a hc.2
      · rfl
    · rfl
  · rfl

theorem skipSpace_signStr (n p : Bool) {c : Char} {s : Str} (hc : isSpace c = false) :
    skipSpace (signStr n p ++ c :: s) = signStr n p ++ c :: s := by
  cases n
  · cases p
    · exact skipSpace_of_not_space hc
    · exact skipSpace_of_not_space (by decide)
  · exact skipSpace_of_not_space (by decide)

theorem dig_ne_sign {c : Char} (h : isDig c = true) : c ≠ '-' ∧ c ≠ '+' :=
  ⟨ne_of_isDig h (by decide), ne_of_isDig h (by decide)⟩

/-- the exponent part `E±dd` (after `D`→`E`). -/
theorem parseExp_text (e : ExpPart) (h : e.WF) :
    parseExp (e.text.map dToE) = (applySign e.neg (valOf e.ds), [], false) := by
  obtain ⟨hl, hd, hne⟩ := h
  obtain ⟨c, cs, hcs⟩ := List.exists_cons_of_ne_nil hne
  have hc : isDig c = true := by rw [hcs] at hd; exact hd.head
  simp only [ExpPart.text, List.map_cons, List.map_append, map_dToE_sign, map_dToE_allDig hd, List.cons_append]
  simp only [parseExp, dToE_letter hl, if_true]
  have hts : takeSign (signStr e.neg e.plus ++ e.ds) = (e.neg, e.ds) := by
    rw [hcs]; exact takeSign_signStr_dig _ _ (dig_ne_sign hc)
  have hsp : spanDigits e.ds = (e.ds, []) := by
    have := spanDigits_append (rest := []) hd trivial
    simpa using this
  rw [hts]; simp only [hsp]
  have : e.ds.isEmpty = false := by rw [hcs]; rfl
  simp [this]

theorem startsSpecial_dig_or_dot {c : Char} {s : Str} (h : isDig c = true ∨ c = '.') :
    startsSpecial (c :: s) = false := by
  rcases h with h | rfl
  · have h1 := ne_of_isDig h (x := 'i') (by decide)
    have h2 := ne_of_isDig h (x := 'I') (by decide)
    have h3 := ne_of_isDig h (x := 'n') (by decide)
    have h4 := ne_of_isDig h (x := 'N') (by decide)
    simp [startsSpecial, h1, h2, h3, h4]
  · rfl

theorem startsHex_second {c c2 : Char} {s : Str} (h : isDig c2 = true ∨ c2 = '.') :
    startsHex (c :: c2 :: s) = false := by
  have hx : (c2 == 'x' || c2 == 'X') = false := by
    rcases h with h | rfl
    · have h1 := ne_of_isDig h (x := 'x') (by decide)
      have h2 := ne_of_isDig h (x := 'X') (by decide)
      simp [h1, h2]
    · decide
  unfold startsHex
  split
  · rename_i heq; injection heq with a b; injection b with b1 b2; subst b1; exact hx
  · rfl

theorem startsHex_dot {s : Str} : startsHex ('.' :: s) = false := by
  unfold startsHex
  split
  · rename_i heq; injection heq with a b; exact absurd a (by decide)
  · rfl

theorem startsHex_single {c : Char} : startsHex [c] = false := by
  unfold startsHex
  split
  · rename_i heq; injection heq with a b; cases b
  · rfl


/-- what follows the fraction digits: nothing, or the exponent part. -/
def Dec.exText (d : Dec) : Str := match d.ex with | some e => e.text | none => []
def Dec.exVal (d : Dec) : Int := match d.ex with | some e => applySign e.neg (valOf e.ds) | none => 0

theorem parseExp_exText (d : Dec) (h : d.WF) :
    parseExp (d.exText.map dToE) = (d.exVal, [], false) := by
  unfold Dec.exText Dec.exVal
  cases hex : d.ex with
  | none => rfl
  | some e => exact parseExp_text e (h.2.2.2 e hex)

theorem exText_noDigHead (d : Dec) (h : d.WF) : NoDigHead (d.exText.map dToE) := by
  unfold Dec.exText
  cases hex : d.ex with
  | none => trivial
  | some e =>
    have hl := (h.2.2.2 e hex).1
    simp only [ExpPart.text, List.map_cons, List.cons_append, NoDigHead]
    have := dToE_letter hl
    simp only [isExpLetter, Bool.or_eq_true, beq_iff_eq] at this
    rcases this with h1 | h1 <;> rw [h1] <;> decide

theorem parseUnsigned_body (neg : Bool) (d : Dec) (h : d.WF) :
    parseUnsigned neg (d.ip ++ '.' :: (d.fp ++ d.exText.map dToE)) =
      FRes.val neg (valOf (d.ip ++ d.fp)) (d.exVal - (d.fp.length : Int)) [] false := by
  obtain ⟨hip, hfp, hne, _⟩ := h
  have hsp : (startsSpecial (d.ip ++ '.' :: (d.fp ++ d.exText.map dToE)) ||
      startsHex (d.ip ++ '.' :: (d.fp ++ d.exText.map dToE))) = false := by
    cases hi : d.ip with
    | nil =>
      simp only [List.nil_append, startsSpecial_dig_or_dot (Or.inr rfl), startsHex_dot, Bool.or_self]
    | cons c cs =>
      rw [hi] at hip
      simp only [List.cons_append, startsSpecial_dig_or_dot (Or.inl hip.head), Bool.false_or]
      cases cs with
      | nil => exact startsHex_second (Or.inr rfl)
      | cons c2 cs2 => exact startsHex_second (Or.inl hip.tail.head)
  unfold parseUnsigned
  rw [hsp]
  have h1 : spanDigits (d.ip ++ '.' :: (d.fp ++ d.exText.map dToE)) = (d.ip, '.' :: (d.fp ++ d.exText.map dToE)) :=
    spanDigits_append hip (by simp [NoDigHead]; decide)
  have h2 : spanDigits (d.fp ++ d.exText.map dToE) = (d.fp, d.exText.map dToE) :=
    spanDigits_append hfp (exText_noDigHead d ⟨hip, hfp, hne, ‹_›⟩)
  simp only [Bool.false_eq_true, if_false, h1, h2]
  have hemp : (d.ip.isEmpty && d.fp.isEmpty) = false := by
    cases hi : d.ip with
    | nil =>
      cases hf : d.fp with
      | nil => rw [hi, hf] at hne; exact absurd rfl hne
      | cons _ _ => rfl
    | cons _ _ => rfl
  rw [hemp, parseExp_exText d ⟨hip, hfp, hne, ‹_›⟩]
  simp

theorem Dec.text_eq (d : Dec) : d.text = signStr d.neg d.plus ++ (d.ip ++ '.' :: (d.fp ++ d.exText)) := by
  unfold Dec.text Dec.exText
  cases d.ex <;> simp

theorem Dec.value_eq (d : Dec) : d.value = (applySign d.neg (valOf (d.ip ++ d.fp)), d.exVal - (d.fp.length : Int)) := rfl

/-- **atof on a right-justified printed decimal** (after the `D`→`E` substitution) is the decimal it denotes. -/
theorem convValue_text (w : Nat) (d : Dec) (h : d.WF) : convValue (padLeft w d.text) = some d.value := by
  have hip := h.1; have hfp := h.2.1
  -- first character of the unsigned body
  obtain ⟨c, s, hbody, hc⟩ : ∃ c s, d.ip ++ '.' :: (d.fp ++ d.exText.map dToE) = c :: s ∧ (isDig c = true ∨ c = '.') := by
    cases hi : d.ip with
    | nil => exact ⟨'.', _, rfl, Or.inr rfl⟩
    | cons c cs => rw [hi] at hip; exact ⟨c, _, rfl, Or.inl hip.head⟩
  have hcsp : isSpace c = false := by
    rcases hc with hc | rfl
    · exact isDig_not_space hc
    · decide
  have hcsg : c ≠ '-' ∧ c ≠ '+' := by
    rcases hc with hc | rfl
    · exact dig_ne_sign hc
    · decide
  have hmap : (padLeft w d.text).map dToE =
      blanks (w - d.text.length) ++ (signStr d.neg d.plus ++ (d.ip ++ '.' :: (d.fp ++ d.exText.map dToE))) := by
    rw [padLeft, List.map_append, map_dToE_blanks, d.text_eq]
    simp only [List.map_append, List.map_cons, map_dToE_sign, map_dToE_allDig hip, map_dToE_allDig hfp]
    rfl
  unfold convValue atofC parseFloat
  rw [hmap, skipSpace_blanks, hbody, skipSpace_signStr _ _ hcsp, takeSign_signStr_dig _ _ hcsg]
  simp only
  rw [← hbody, parseUnsigned_body d.neg d h, d.value_eq]

end Slu.Read
