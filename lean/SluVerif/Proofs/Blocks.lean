/- supernode partitions: the executable check `checkPartSuper` is sound and complete for
   "consecutive blocks covering 0..n-1"; the executable check `checkPostordered` is sound. -/
import SluVerif.Proofs.Relabel
namespace Slu.Pre

/-- `Blocks part n k`: `part` describes consecutive blocks `[k, k+part[k])`, ... that end exactly at `n`;
inside a block the entries after the first are 0. -/
inductive Blocks (part : Array Nat) (n : Nat) : Nat → Prop
  | done : Blocks part n n
  | block {k : Nat} (s : Nat) : getN part k = s → 1 ≤ s → k + s ≤ n →
      (∀ j, k < j → j < k + s → getN part j = 0) → Blocks part n (k + s) → Blocks part n k

theorem checkBlocksFrom_sound (part : Array Nat) (n : Nat) :
    ∀ f k, checkBlocksFrom part n f k = true → Blocks part n k
  | 0, k, h => by
      simp only [checkBlocksFrom, decide_eq_true_eq] at h
      subst h; exact Blocks.done
  | f + 1, k, h => by
      unfold checkBlocksFrom at h
      split at h
      · rename_i he; subst he; exact Blocks.done
      · simp only [Bool.and_eq_true, decide_eq_true_eq, List.all_eq_true, beq_iff_eq] at h
        obtain ⟨⟨⟨h1, h2⟩, h3⟩, h4⟩ := h
        refine Blocks.block _ rfl h1 h2 ?_ (checkBlocksFrom_sound part n f _ h4)
        intro j hj1 hj2
        apply h3
        rw [List.mem_range']
        exact ⟨j - (k + 1), by omega, by omega⟩

theorem checkBlocksFrom_complete (part : Array Nat) (n : Nat) :
    ∀ f k, n - k ≤ f → Blocks part n k → checkBlocksFrom part n f k = true
  | 0, k, hf, h => by
      cases h with
      | done => simp [checkBlocksFrom]
      | block s _ _ _ _ _ => omega
  | f + 1, k, hf, h => by
      unfold checkBlocksFrom
      cases h with
      | done => simp
      | block s h0 h1 h2 h3 h4 =>
          have hk : k ≠ n := by omega
          simp only [hk, if_false, Bool.and_eq_true, decide_eq_true_eq, List.all_eq_true, beq_iff_eq]
          subst h0
          refine ⟨⟨⟨h1, h2⟩, ?_⟩, checkBlocksFrom_complete part n f _ (by omega) h4⟩
          intro j hj
          rw [List.mem_range'] at hj
          obtain ⟨i, hi, hji⟩ := hj
          apply h3 <;> omega

/-- every column lies in exactly one block: it has a block leader `k ≤ j` with `j < k + part[k]`
and zeros strictly between -/
theorem Blocks.cover {part : Array Nat} {n k : Nat} (h : Blocks part n k) :
    ∀ j, k ≤ j → j < n → ∃ b, k ≤ b ∧ b ≤ j ∧ 1 ≤ getN part b ∧ j < b + getN part b ∧ b + getN part b ≤ n ∧
      ∀ i, b < i → i ≤ j → getN part i = 0 := by
  induction h with
  | done => intro j h1 h2; omega
  | @block k s h0 h1 h2 h3 _ ih =>
      intro j hj hjn
      by_cases hjs : j < k + s
      · exact ⟨k, Nat.le_refl _, hj, by omega, by omega, by omega, fun i hi1 hi2 => h3 i hi1 (by omega)⟩
      · obtain ⟨b, hb1, hb2, hb3⟩ := ih j (by omega) hjn
        exact ⟨b, by omega, hb2, hb3⟩

/-! ### checkPostordered -/

theorem descB_sound (par : Array Nat) (n v : Nat) : ∀ f u, descB par n v f u = true → Desc (getN par) n v u
  | 0, u, h => by
      simp only [descB, decide_eq_true_eq] at h
      subst h; exact Desc.refl _
  | f + 1, u, h => by
      unfold descB at h
      split at h
      · rename_i he; subst he; exact Desc.refl _
      · split at h
        · cases h
        · rename_i hu
          exact Desc.step (by omega) (descB_sound par n v f _ h)

theorem Desc.le_of_increasing {par : Nat → Nat} {n v u : Nat} (hinc : ∀ x, x < n → x < par x)
    (h : Desc par n v u) : u ≤ v := by
  induction h with
  | refl => exact Nat.le_refl _
  | step hx _ ih => have := hinc _ hx; omega

theorem descB_complete (par : Array Nat) (n v : Nat) (hinc : ∀ x, x < n → x < getN par x) :
    ∀ f u, v - u ≤ f → Desc (getN par) n v u → descB par n v f u = true
  | 0, u, hf, h => by
      have := h.le_of_increasing hinc
      simp only [descB, decide_eq_true_eq]; omega
  | f + 1, u, hf, h => by
      unfold descB
      cases h with
      | refl => simp
      | step hx h' =>
          have h1 := hinc _ hx
          have h2 := h'.le_of_increasing hinc
          have hne : u ≠ v := by omega
          have hnu : ¬ n ≤ u := by omega
          simp only [hne, if_false, hnu]
          exact descB_complete par n v hinc f _ (by omega) h'

/-- interval-closed form of "postordered": parents are larger and the subtree of `v` contains
everything between any of its members and `v` -/
def PostorderedIC (n : Nat) (par : Array Nat) : Prop :=
  par.size = n ∧ (∀ v, v < n → v < getN par v ∧ getN par v ≤ n) ∧
  ∀ v u w, v < n → u ≤ w → w ≤ v → Desc (getN par) n v u → Desc (getN par) n v w

theorem checkPostordered_sound {n : Nat} {par : Array Nat} (h : checkPostordered n par = true) :
    PostorderedIC n par := by
  unfold checkPostordered at h
  simp only [Bool.and_eq_true, beq_iff_eq, List.all_eq_true, List.mem_range, decide_eq_true_eq,
    Bool.or_eq_true, Bool.not_eq_true'] at h
  obtain ⟨⟨h1, h2⟩, h3⟩ := h
  have hinc : ∀ x, x < n → x < getN par x := fun x hx => (h2 x hx).1
  refine ⟨h1, h2, ?_⟩
  intro v u w hv huw hwv hd
  -- induction on w - u
  have : ∀ d w, w = u + d → w ≤ v → Desc (getN par) n v w := by
    intro d
    induction d with
    | zero => intro w hw _; rw [hw]; exact hd
    | succ d ih =>
        intro w hw hwv
        have hprev := ih (u + d) rfl (by omega)
        have hb := descB_complete par n v hinc n (u + d) (by omega) hprev
        rcases h3 v hv (u + d) (by omega) with hf | ht
        · rw [hb] at hf; cases hf
        · rw [hw]; exact descB_sound par n v n _ ht
  exact this (w - u) w (by omega) hwv

theorem Postordered.toIC {n : Nat} {par : Array Nat} (h : Postordered n par) : PostorderedIC n par := by
  obtain ⟨h1, h2, h3⟩ := h
  refine ⟨h1, h2, ?_⟩
  intro v u w hv huw hwv hd
  obtain ⟨s, _, _, hs⟩ := h3 v hv
  have hinc : ∀ x, x < n → x < getN par x := fun x hx => (h2 x hx).1
  have huv := hd.le_of_increasing hinc
  have := (hs u (by omega)).1 hd
  exact (hs w (by omega)).2 ⟨by omega, hwv⟩

theorem checkPostordered_complete {n : Nat} {par : Array Nat} (h : PostorderedIC n par) :
    checkPostordered n par = true := by
  obtain ⟨h1, h2, h3⟩ := h
  have hinc : ∀ x, x < n → x < getN par x := fun x hx => (h2 x hx).1
  unfold checkPostordered
  simp only [Bool.and_eq_true, beq_iff_eq, List.all_eq_true, List.mem_range, decide_eq_true_eq,
    Bool.or_eq_true, Bool.not_eq_true']
  refine ⟨⟨h1, h2⟩, ?_⟩
  intro v hv u hu
  by_cases hb : descB par n v n u = true
  · right
    have hd := descB_sound par n v n u hb
    exact descB_complete par n v hinc n _ (by omega) (h3 v u (u + 1) hv (by omega) (by omega) hd)
  · left; simpa using hb

end Slu.Pre
