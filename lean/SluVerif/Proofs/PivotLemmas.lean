/- Invariant of the scan loop of `pivotL` and its consequences (helper lemmas for Props/C02, C06, C16). -/
import SluVerif.Model.Pivot
import Mathlib.Tactic.Linarith
import Mathlib.Tactic.Ring
import Mathlib.Tactic.Positivity
import Mathlib.Algebra.Order.Field.Basic

namespace Slu

/-- state of the scan after the first `k` candidates `nsupc .. nsupc+k-1` -/
structure ScanInv (rows : Array Int) (mags : Array Rat) (usepr : Bool) (pivrow diagInd : Int)
    (nsupc k : Nat) (s : Scan) : Prop where
  nonneg : 0 ≤ s.pivmax
  ub : ∀ i, nsupc ≤ i → i < nsupc + k → mags.getD i 0 ≤ s.pivmax
  zero : s.pivmax = 0 → s.pivptr = nsupc
  arg : s.pivmax ≠ 0 → nsupc ≤ s.pivptr ∧ s.pivptr < nsupc + k ∧ mags.getD s.pivptr 0 = s.pivmax ∧
          ∀ i, nsupc ≤ i → i < s.pivptr → mags.getD i 0 < s.pivmax
  diagSome : ∀ d, s.diag = some d → nsupc ≤ d ∧ d < nsupc + k ∧ rows.getD d 0 = diagInd ∧
          ∀ i, d < i → i < nsupc + k → rows.getD i 0 ≠ diagInd
  diagNone : s.diag = none → ∀ i, nsupc ≤ i → i < nsupc + k → rows.getD i 0 ≠ diagInd
  old : (s.oldPtr = nsupc ∧ (usepr = true → ∀ i, nsupc ≤ i → i < nsupc + k → rows.getD i 0 ≠ pivrow)) ∨
        (usepr = true ∧ nsupc ≤ s.oldPtr ∧ s.oldPtr < nsupc + k ∧ rows.getD s.oldPtr 0 = pivrow)

theorem scanInv_init (rows : Array Int) (mags : Array Rat) (usepr : Bool) (pivrow diagInd : Int) (nsupc : Nat) :
    ScanInv rows mags usepr pivrow diagInd nsupc 0 (scanInit nsupc) := by
  refine ⟨by simp [scanInit], ?_, by simp [scanInit], by simp [scanInit], by simp [scanInit], ?_, ?_⟩
  · intro i h1 h2; omega
  · intro _ i h1 h2; omega
  · left; refine ⟨rfl, ?_⟩; intro _ i h1 h2; omega

theorem scanStep_pivmax (rows : Array Int) (mags : Array Rat) (usepr : Bool) (pivrow diagInd : Int) (s : Scan) (i : Nat) :
    (scanStep rows mags usepr pivrow diagInd s i).pivmax = if mags.getD i 0 > s.pivmax then mags.getD i 0 else s.pivmax := by
  unfold scanStep; simp only; split <;> split <;> split <;> rfl

theorem scanStep_pivptr (rows : Array Int) (mags : Array Rat) (usepr : Bool) (pivrow diagInd : Int) (s : Scan) (i : Nat) :
    (scanStep rows mags usepr pivrow diagInd s i).pivptr = if mags.getD i 0 > s.pivmax then i else s.pivptr := by
  unfold scanStep; simp only; split <;> split <;> split <;> rfl

theorem scanStep_oldPtr (rows : Array Int) (mags : Array Rat) (usepr : Bool) (pivrow diagInd : Int) (s : Scan) (i : Nat) :
    (scanStep rows mags usepr pivrow diagInd s i).oldPtr = if (usepr && rows.getD i 0 == pivrow) = true then i else s.oldPtr := by
  unfold scanStep; simp only; split <;> split <;> split <;> rfl

theorem scanStep_diag (rows : Array Int) (mags : Array Rat) (usepr : Bool) (pivrow diagInd : Int) (s : Scan) (i : Nat) :
    (scanStep rows mags usepr pivrow diagInd s i).diag = if (rows.getD i 0 == diagInd) = true then some i else s.diag := by
  unfold scanStep; simp only; split <;> split <;> split <;> rfl

theorem scanInv_step (rows : Array Int) (mags : Array Rat) (usepr : Bool) (pivrow diagInd : Int)
    (nsupc k : Nat) (s : Scan)
    (h : ScanInv rows mags usepr pivrow diagInd nsupc k s) :
    ScanInv rows mags usepr pivrow diagInd nsupc (k + 1)
      (scanStep rows mags usepr pivrow diagInd s (nsupc + k)) := by
  obtain ⟨hnn, hub, hz, harg, hds, hdn, hold⟩ := h
  refine ⟨?nn, ?ub, ?z, ?arg, ?ds, ?dn, ?old⟩
  case nn =>
    rw [scanStep_pivmax]; split
    · next hgt => exact le_trans hnn (le_of_lt hgt)
    · exact hnn
  case ub =>
    intro i h1 h2
    rw [scanStep_pivmax]; split
    · next hgt =>
      by_cases e : i = nsupc + k
      · subst e; exact le_refl _
      · exact le_trans (hub i h1 (by omega)) (le_of_lt hgt)
    · next hgt =>
      by_cases e : i = nsupc + k
      · subst e; exact not_lt.1 hgt
      · exact hub i h1 (by omega)
  case z =>
    rw [scanStep_pivmax, scanStep_pivptr]; split
    · next hgt => intro h0; exfalso; rw [h0] at hgt; exact absurd (lt_of_le_of_lt hnn hgt) (lt_irrefl _)
    · exact hz
  case arg =>
    rw [scanStep_pivmax, scanStep_pivptr]; split
    · next hgt =>
      intro _
      refine ⟨by omega, by omega, rfl, ?_⟩
      intro i h1 h2
      exact lt_of_le_of_lt (hub i h1 h2) hgt
    · intro h0
      obtain ⟨a1, a2, a3, a4⟩ := harg h0
      exact ⟨a1, by omega, a3, a4⟩
  case ds =>
    rw [scanStep_diag]; split
    · next hd =>
      intro d hdd
      simp only [Option.some.injEq] at hdd
      subst hdd
      refine ⟨by omega, by omega, by simpa using hd, ?_⟩
      intro i h1 h2; omega
    · next hd =>
      intro d hdd
      obtain ⟨b1, b2, b3, b4⟩ := hds d hdd
      refine ⟨b1, by omega, b3, ?_⟩
      intro i h1 h2
      by_cases e : i = nsupc + k
      · subst e; simpa using hd
      · exact b4 i h1 (by omega)
  case dn =>
    rw [scanStep_diag]; split
    · intro hcontra; simp at hcontra
    · next hd =>
      intro hdd i h1 h2
      by_cases e : i = nsupc + k
      · subst e; simpa using hd
      · exact hdn hdd i h1 (by omega)
  case old =>
    rw [scanStep_oldPtr]; split
    · next hu =>
      right
      simp only [Bool.and_eq_true, beq_iff_eq] at hu
      exact ⟨hu.1, by omega, by omega, hu.2⟩
    · next hu =>
      rcases hold with ⟨o1, o2⟩ | ⟨o1, o2, o3, o4⟩
      · left
        refine ⟨o1, ?_⟩
        intro hus i h1 h2
        by_cases e : i = nsupc + k
        · subst e
          simp only [Bool.and_eq_true, beq_iff_eq, not_and] at hu
          exact hu hus
        · exact o2 hus i h1 (by omega)
      · right; exact ⟨o1, o2, by omega, o4⟩

theorem scan_foldl_inv (rows : Array Int) (mags : Array Rat) (usepr : Bool) (pivrow diagInd : Int)
    (nsupc : Nat) (k : Nat) :
    ScanInv rows mags usepr pivrow diagInd nsupc k
      ((List.range' nsupc k).foldl (scanStep rows mags usepr pivrow diagInd) (scanInit nsupc)) := by
  induction k with
  | zero => simpa using scanInv_init rows mags usepr pivrow diagInd nsupc
  | succ k ih =>
    rw [List.range'_concat, List.foldl_append]
    simp only [List.foldl_cons, List.foldl_nil, Nat.one_mul]
    exact scanInv_step rows mags usepr pivrow diagInd nsupc k _ ih

theorem scan_inv (rows : Array Int) (mags : Array Rat) (usepr : Bool) (pivrow diagInd : Int)
    (nsupc nsupr : Nat) :
    ScanInv rows mags usepr pivrow diagInd nsupc (nsupr - nsupc) (scan rows mags usepr pivrow diagInd nsupc nsupr) :=
  scan_foldl_inv rows mags usepr pivrow diagInd nsupc (nsupr - nsupc)

end Slu
