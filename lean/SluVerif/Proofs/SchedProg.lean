/-
Progress (absence of deadlock and of lost wake-ups) for the scheduler/worker model: a second inductive invariant about the
column flags (`spin_locks`), `fb_cols`, the `bcol` each worker was given and the availability of runnable panels in the queue,
and the theorem that in every reachable state in which some panel is not finished, some worker can take a productive step:
finish its panel (its wait chain is released), report a finished panel, or be handed a panel.
-/
import SluVerif.Proofs.SchedProgLemmas

namespace Slu
open Slu.Gen
open Classical

/-- panel `q` is a descendant-or-self of panel `p` in the panel forest -/
inductive Desc (K : Cfg) : Nat → Nat → Prop
  | refl (p : Nat) : Desc K p p
  | step (q p : Nat) (hq : q ∈ K.panels) (hd : K.dad q < K.c.n) : Desc K (K.dad q) p → Desc K q p

theorem desc_le (K : Cfg) (W : CfgWF K) {q p : Nat} (h : Desc K q p) : q ≤ p := by
  induction h with
  | refl p => exact le_refl _
  | step q p hq hd _ ih => have := (W.dad_gt q hq).1; omega

theorem desc_dad (K : Cfg) {q p : Nat} (h : Desc K q p) (hne : q ≠ p) : Desc K (K.dad q) p ∧ q ∈ K.panels ∧ K.dad q < K.c.n := by
  cases h with
  | refl => exact absurd rfl hne
  | step _ _ hq hd h' => exact ⟨h', hq, hd⟩

theorem desc_up (K : Cfg) {b j : Nat} (h : Desc K b j) (hj : j ∈ K.panels) (hd : K.dad j < K.c.n) : Desc K b (K.dad j) := by
  induction h with
  | refl p => exact Desc.step p _ hj hd (Desc.refl _)
  | step q p hq hdq _ ih => exact Desc.step q _ hq hdq (ih hj hd)

/-- every panel below a panel that has been handed out has been handed out -/
theorem desc_taken (K : Cfg) (W : CfgWF K) (s : Sys) (inv : SysInv K s) {q p : Nat} (h : Desc K q p)
    (hp : p ∈ K.panels) (ht : stt s p ≤ BUSY) : q ∈ K.panels ∧ stt s q ≤ BUSY := by
  induction h with
  | refl p => exact ⟨hp, ht⟩
  | step q p hq hd _ ih =>
    obtain ⟨h1, h2⟩ := ih hp ht
    refine ⟨hq, ?_⟩
    apply inv.closed (K.dad q) h1 _ q hq rfl
    simp only [UNREADY, BUSY] at *; omega

/-- columns of panels -/
structure ColCfg where
  pan : Nat → Nat
  wd : Nat → Nat

structure ColWF (K : Cfg) (Q : ColCfg) : Prop where
  pan_mem : ∀ k, k < K.c.n → Q.pan k ∈ K.panels
  pan_rng : ∀ k, k < K.c.n → Q.pan k ≤ k ∧ k < Q.pan k + Q.wd (Q.pan k)
  pan_cols : ∀ p ∈ K.panels, ∀ k, p ≤ k → k < p + Q.wd p → Q.pan k = p
  wd_pos : ∀ p ∈ K.panels, 0 < Q.wd p
  cols_lt : ∀ p ∈ K.panels, p + Q.wd p ≤ K.c.n
  inner : ∀ k, k < K.c.n → k + 1 < Q.pan k + Q.wd (Q.pan k) →
      Q.pan k ≤ getN K.c.etree k ∧ getN K.c.etree k < Q.pan k + Q.wd (Q.pan k)
  last : ∀ p ∈ K.panels, getN K.c.etree (p + Q.wd p - 1) = K.dad p

theorem pan_self (K : Cfg) (Q : ColCfg) (C : ColWF K Q) (p : Nat) (hp : p ∈ K.panels) : Q.pan p = p :=
  C.pan_cols p hp p (le_refl _) (by have := C.wd_pos p hp; omega)

/-- every column a worker waits for lies in a proper descendant panel of the panel it holds -/
theorem waitChain_desc (K : Cfg) (W : CfgWF K) (Q : ColCfg) (C : ColWF K Q) (p : Nat) (hp : p ∈ K.panels) :
    ∀ fuel k, k < K.c.n → Desc K (Q.pan k) p → ∀ x ∈ waitChain K.c p fuel k, x < K.c.n ∧ x < p ∧ Desc K (Q.pan x) p := by
  intro fuel
  induction fuel with
  | zero => intro k _ _ x hx; simp [waitChain] at hx
  | succ fuel ih =>
    intro k hk hd x hx
    unfold waitChain at hx
    by_cases hkp : k < p
    · rw [if_pos hkp] at hx
      rcases List.mem_cons.1 hx with e | hx'
      · subst e; exact ⟨hk, hkp, hd⟩
      · -- the next column on the path
        have hq := C.pan_mem k hk
        have hr := C.pan_rng k hk
        by_cases hin : k + 1 < Q.pan k + Q.wd (Q.pan k)
        · obtain ⟨i1, i2⟩ := C.inner k hk hin
          have hlt := C.cols_lt (Q.pan k) hq
          have he : Q.pan (getN K.c.etree k) = Q.pan k := C.pan_cols (Q.pan k) hq _ i1 i2
          exact ih (getN K.c.etree k) (by omega) (by rw [he]; exact hd) x hx'
        · have hk' : k = Q.pan k + Q.wd (Q.pan k) - 1 := by omega
          have hne : Q.pan k ≠ p := by omega
          obtain ⟨d1, d2, d3⟩ := desc_dad K hd hne
          have he : getN K.c.etree k = K.dad (Q.pan k) := by
            have := C.last (Q.pan k) hq
            rw [← hk'] at this; exact this
          have hdp := W.dad_pan (Q.pan k) hq d3
          rw [he] at hx'
          exact ih (K.dad (Q.pan k)) d3 (by rw [pan_self K Q C _ hdp]; exact d1) x hx'
    · rw [if_neg hkp] at hx; cases hx

/-- the second invariant -/
structure ProgInv (K : Cfg) (Q : ColCfg) (s : Sys) : Prop where
  spin_sz : s.sh.spin.size = K.c.n
  fb_sz : s.sh.fb.size = K.c.n + 1
  size_eq : ∀ p ∈ K.panels, (getZ s.sh.size p).toNat = Q.wd p
  spin_busy : ∀ k, k < K.c.n → getN s.sh.spin k ≠ 0 → stt s (Q.pan k) = BUSY
  fb_desc : ∀ d ∈ K.panels, getN s.sh.fb d ∈ K.panels ∧ Desc K (getN s.sh.fb d) d
  wb_desc : ∀ i p b, (wk s i).phase = .working p b → b ∈ K.panels ∧ Desc K b p
  exited : ∀ i, i < s.ws.size → (wk s i).phase = .exited → s.sh.tasksRemain ≤ 0
  avail : ∀ p ∈ K.panels, stt s p > BUSY → ukd s p = 0 → ∃ k, s.sh.head ≤ k ∧ k < s.sh.tail ∧ getN s.sh.queue k = p

theorem tail_le (K : Cfg) (W : CfgWF K) (s : Sys) (inv : SysInv K s) : s.sh.tail ≤ K.c.n := by
  have h1 := nodup_subset_length (qlist s.sh) K.panels inv.qnodup (by
    intro x hx
    obtain ⟨k, hk, hka⟩ := (mem_qlist _ _).1 hx
    rw [← hka]; exact inv.qpan k hk)
  have h2 := nodup_lt_length K.panels K.c.n W.nodup W.lt
  rw [qlist_length] at h1
  omega

/-! ### preservation -/

theorem progInv_loop (K : Cfg) (Q : ColCfg) (s : Sys) (pinv : ProgInv K Q s) (w : Nat)
    (h : enabled K.c s (.loop w) = true) : ProgInv K Q (step K.c s (.loop w)) := by
  obtain ⟨hsh, hsz, hph, hwk⟩ := step_loop K.c s w h
  have hst : ∀ p, stt (step K.c s (.loop w)) p = stt s p := fun p => by unfold stt; rw [hsh]
  refine ⟨by rw [hsh]; exact pinv.spin_sz, by rw [hsh]; exact pinv.fb_sz, by rw [hsh]; exact pinv.size_eq, ?_, by rw [hsh]; exact pinv.fb_desc, ?_, ?_, ?_⟩
  · intro k hk hs; rw [hst]; rw [hsh] at hs; exact pinv.spin_busy k hk hs
  · intro i p b hp
    rw [hwk i] at hp
    by_cases e : i = w
    · subst e
      simp only [if_true] at hp
      split at hp <;> cases hp
    · simp only [e, if_false] at hp
      exact pinv.wb_desc i p b hp
  · intro i hi hp
    rw [hsh]
    rw [hwk i] at hp
    by_cases e : i = w
    · subst e
      simp only [if_true] at hp
      by_cases ht : s.sh.tasksRemain > 0
      · simp only [ht, if_true] at hp; cases hp
      · omega
    · simp only [e, if_false] at hp
      exact pinv.exited i (by rw [hsz] at hi; exact hi) hp
  · intro p hp hs hu
    rw [hst] at hs
    have hu' : ukd s p = 0 := by unfold ukd at hu ⊢; rw [hsh] at hu; exact hu
    obtain ⟨k, h1, h2, h3⟩ := pinv.avail p hp hs hu'
    exact ⟨k, by rw [hsh]; exact h1, by rw [hsh]; exact h2, by rw [hsh]; exact h3⟩

theorem progInv_finish (K : Cfg) (W : CfgWF K) (Q : ColCfg) (C : ColWF K Q) (s : Sys) (inv : SysInv K s) (pinv : ProgInv K Q s) (w : Nat)
    (h : enabled K.c s (.finish w) = true) : ProgInv K Q (step K.c s (.finish w)) := by
  obtain ⟨p, b, hph, _, hsh, hsz, hwk⟩ := step_finish K.c s w h
  obtain ⟨hcw, hbusy, hpp⟩ := inv.own_w w p b hph
  have hpn : p < K.c.n := W.lt p hpp
  have hst : ∀ x, stt (step K.c s (.finish w)) x = if x = p then DONE else stt s x := by
    intro x; unfold stt; rw [hsh, finishPanel_state, getN_set _ _ _ _ (by rw [inv.ssz]; omega)]
  have hwd := pinv.size_eq p hpp
  have hcl := C.cols_lt p hpp
  refine ⟨?_, by rw [hsh]; exact pinv.fb_sz, by rw [hsh]; exact pinv.size_eq, ?_, by rw [hsh]; exact pinv.fb_desc, ?_, ?_, ?_⟩
  · rw [hsh, finishPanel_spin, fillN_size]; exact pinv.spin_sz
  · intro k hk hs
    rw [hsh, finishPanel_spin, hwd, getN_fillN _ _ _ _ _ (by rw [pinv.spin_sz]; exact hcl)] at hs
    by_cases hin : p ≤ k ∧ k < p + Q.wd p
    · rw [if_pos hin] at hs; exact absurd rfl hs
    · rw [if_neg hin] at hs
      have hb := pinv.spin_busy k hk hs
      have hne : Q.pan k ≠ p := by
        intro e
        have := C.pan_rng k hk
        rw [e] at this; exact hin this
      rw [hst, if_neg hne]; exact hb
  · intro i p' b' hp'
    rw [hwk i] at hp'
    by_cases e : i = w
    · subst e; simp only [if_true] at hp'; cases hp'
    · simp only [e, if_false] at hp'
      exact pinv.wb_desc i p' b' hp'
  · intro i hi hp'
    rw [hsh, finishPanel_tasks]
    rw [hwk i] at hp'
    by_cases e : i = w
    · subst e; simp only [if_true] at hp'; cases hp'
    · simp only [e, if_false] at hp'
      exact pinv.exited i (by rw [hsz] at hi; exact hi) hp'
  · intro x hx hs hu
    rw [hst] at hs
    by_cases e : x = p
    · rw [if_pos e] at hs; simp [DONE, BUSY] at hs
    · rw [if_neg e] at hs
      have hu' : ukd s x = 0 := by unfold ukd at hu ⊢; rw [hsh, finishPanel_ukids] at hu; exact hu
      obtain ⟨k, h1, h2, h3⟩ := pinv.avail x hx hs hu'
      exact ⟨k, by rw [hsh]; exact h1, by rw [hsh]; exact h2, by rw [hsh]; exact h3⟩

end Slu

namespace Slu
open Slu.Gen
open Classical

theorem climb_desc (K : Cfg) (W : CfgWF K) (s' : Sys) (hdad : ∀ j, dadPanel K.c s'.sh j = K.dad j) (j : Nat)
    (hj : stt s' j ≠ DONE) :
    ∀ fuel x, x ∈ K.panels → Desc K x j → climbDone K.c s'.sh fuel x ∈ K.panels ∧ Desc K (climbDone K.c s'.sh fuel x) j := by
  intro fuel
  induction fuel with
  | zero => intro x hx hd; exact ⟨hx, hd⟩
  | succ fuel ih =>
    intro x hx hd
    unfold climbDone
    by_cases hs : (getN s'.sh.state x == DONE) = true
    · rw [if_pos hs]
      have hne : x ≠ j := by
        intro e; subst e
        simp only [beq_iff_eq] at hs
        exact hj hs
      obtain ⟨d1, d2, d3⟩ := desc_dad K hd hne
      rw [hdad]
      exact ih (K.dad x) (W.dad_pan x d2 d3) d1
    · rw [if_neg hs]; exact ⟨hx, hd⟩

theorem progInv_sched (K : Cfg) (W : CfgWF K) (Q : ColCfg) (C : ColWF K Q) (s : Sys) (inv : SysInv K s) (pinv : ProgInv K Q s) (w : Nat)
    (h : enabled K.c s (.sched w) = true) : ProgInv K Q (step K.c s (.sched w)) := by
  have inv' := sysInv_sched K W s inv w h
  obtain ⟨hph, hsh, hsz, hwk⟩ := step_sched K.c s w h
  obtain ⟨got, E⟩ := sched_effect K W s inv w h
  -- `got` is what `schedule` returned
  have hgot_eq : (schedule K.c s.sh (wk s w).cur 0).2.1 = got := by
    have := E.wk_w_cur
    rw [hwk w, if_pos rfl, schedWorker_cur] at this
    exact this
  obtain ⟨p1, p2, p3⟩ := schedule_pipe K.c s.sh (wk s w).cur 0 inv.qok
  rw [hgot_eq] at p1 p2
  have htl := tail_le K W s inv
  have hhead := schedule_head K.c s.sh (wk s w).cur 0 inv.qok (by omega)
  rw [hgot_eq] at hhead
  have hnw : ¬ isWorking (wk s w) := by
    intro ⟨p, b, hpb⟩; rw [hph] at hpb; cases hpb
  have hgotp : ∀ j, got = some j → j ∈ K.panels := by
    intro j hj
    exact (inv'.own_w w j _ (E.wk_w_some j hj)).2.2
  have hdadU : ∀ j, got = some j → K.dad j < K.c.n → stt s (K.dad j) = UNREADY := by
    intro j hj hdn
    obtain ⟨_, hjs, _, _⟩ := E.some_take j hj
    by_contra hne
    have := inv.closed (K.dad j) (W.dad_pan j (hgotp j hj) hdn) hne j (hgotp j hj) rfl
    omega
  have S := sched_state K s _ w _ got E hdadU
  -- the bcol handed out
  have hb : ∀ j, got = some j →
      (schedule K.c s.sh (wk s w).cur 0).2.2 ∈ K.panels ∧ Desc K (schedule K.c s.sh (wk s w).cur 0).2.2 j := by
    intro j hj
    obtain ⟨_, q2, _⟩ := p2 j hj
    rw [q2, ← hsh]
    obtain ⟨f1, f2⟩ := pinv.fb_desc j (hgotp j hj)
    apply climb_desc K W _ inv'.dad_eq j _ (K.c.n + 1) _ f1 f2
    rw [(S.took j hj).1]; simp [BUSY, DONE]
  refine ⟨?_, ?_, ?_, ?_, ?_, ?_, ?_, ?_⟩
  · -- spin_sz
    rw [hsh]
    cases hg : got with
    | none => rw [(p1 hg).1]; exact pinv.spin_sz
    | some j => rw [(p2 j hg).1, fillN_size]; exact pinv.spin_sz
  · -- fb_sz
    rw [hsh]
    cases hg : got with
    | none => rw [(p1 hg).2]; exact pinv.fb_sz
    | some j => rw [(p2 j hg).2.2]; simp [pinv.fb_sz]
  · -- size_eq
    intro p hp; rw [E.size_eq]; exact pinv.size_eq p hp
  · -- spin_busy
    intro k hk hs
    rw [hsh] at hs
    cases hg : got with
    | none =>
      rw [(p1 hg).1] at hs
      have := pinv.spin_busy k hk hs
      rw [S.le_same _ (by rw [this]), this]
    | some j =>
      have hjp := hgotp j hg
      rw [(p2 j hg).1, pinv.size_eq j hjp, getN_fillN _ _ _ _ _ (by rw [pinv.spin_sz]; exact C.cols_lt j hjp)] at hs
      by_cases hin : j ≤ k ∧ k < j + Q.wd j
      · rw [C.pan_cols j hjp k hin.1 hin.2]; exact (S.took j hg).1
      · rw [if_neg hin] at hs
        have := pinv.spin_busy k hk hs
        rw [S.le_same _ (by rw [this]), this]
  · -- fb_desc
    intro d hd
    rw [hsh]
    cases hg : got with
    | none => rw [(p1 hg).2]; exact pinv.fb_desc d hd
    | some j =>
      rw [(p2 j hg).2.2, inv.dad_eq]
      by_cases e : d = K.dad j
      · have hdn : K.dad j < K.c.n := by rw [← e]; exact W.lt d hd
        rw [e, getN_set _ _ _ _ (by rw [pinv.fb_sz]; omega), if_pos rfl]
        obtain ⟨b1, b2⟩ := hb j hg
        exact ⟨b1, desc_up K b2 (hgotp j hg) hdn⟩
      · rw [getN_set_ne _ _ _ _ e]; exact pinv.fb_desc d hd
  · -- wb_desc
    intro i p b hp
    by_cases e : i = w
    · subst e
      cases hg : got with
      | none => rw [E.wk_w_none hg] at hp; cases hp
      | some j =>
        rw [E.wk_w_some j hg] at hp
        simp only [Phase.working.injEq] at hp
        obtain ⟨b1, b2⟩ := hb j hg
        rw [← hp.1, ← hp.2]; exact ⟨b1, b2⟩
    · rw [E.wk_other i e] at hp
      exact pinv.wb_desc i p b hp
  · -- exited
    intro i hi hp
    have hmono : (step K.c s (.sched w)).sh.tasksRemain ≤ s.sh.tasksRemain := by
      cases hg : got with
      | none => rw [(E.none_same hg).2]
      | some j => obtain ⟨_, _, ht, _⟩ := E.some_take j hg; rw [ht]; omega
    by_cases e : i = w
    · subst e
      cases hg : got with
      | none => rw [E.wk_w_none hg] at hp; cases hp
      | some j => rw [E.wk_w_some j hg] at hp; cases hp
    · rw [E.wk_other i e] at hp
      have := pinv.exited i (by rw [hsz] at hi; exact hi) hp
      omega
  · -- avail
    intro p hp hs hu
    have hpg : got ≠ some p := by
      intro e
      have := (S.took p e).1
      rw [this] at hs; simp [BUSY] at hs
    have hs0 : stt s p > BUSY := (S.gt_iff p hpg).1 hs
    have huk := E.uk p
    rw [hu] at huk
    -- queue contents below the old tail are unchanged
    have hqsame : ∀ k, k < s.sh.tail → getN (step K.c s (.sched w)).sh.queue k = getN s.sh.queue k := by
      intro k hk
      rcases E.queue with ⟨_, b⟩ | ⟨j, _, _, c, _, _⟩
      · rw [b]
      · rw [c, getN_set_ne _ _ _ _ (by omega)]
    have htail : s.sh.tail ≤ (step K.c s (.sched w)).sh.tail := by
      rcases E.queue with ⟨a, _⟩ | ⟨j, _, a, _, _, _⟩ <;> omega
    rcases hhead with ⟨q, hq1, hq2, hq3, hq4⟩ | ⟨hB, hcase⟩
    · -- the parent of the reported panel was taken directly; the head did not move
      have hpd : p ≠ K.dad q := by
        intro e
        apply hpg
        rw [hq2, inv.dad_eq, e]
      have hu0 : ukd s p = 0 := by
        rw [if_neg (by
          rintro ⟨q', hq', hpq⟩
          rw [hq1] at hq'
          simp only [Option.some.injEq] at hq'
          subst hq'
          exact hpd hpq)] at huk
        omega
      obtain ⟨k, k1, k2, k3⟩ := pinv.avail p hp hs0 hu0
      refine ⟨k, by rw [hsh, hq4]; exact k1, by omega, by rw [hqsame k k2]; exact k3⟩
    · have hu0 : ukd s p = 0 := by
        by_cases hc : ∃ q', (wk s w).cur = some q' ∧ p = K.dad q'
        · exfalso
          rw [if_pos hc] at huk
          obtain ⟨q', hq', hpq⟩ := hc
          apply hB q' hq'
          rw [inv.dad_eq, ← hpq]
          refine ⟨?_, hs0⟩
          have : ukd s p = 1 := by omega
          unfold ukd at this
          rw [this]; rfl
        · rw [if_neg hc] at huk; omega
      obtain ⟨k, k1, k2, k3⟩ := pinv.avail p hp hs0 hu0
      have hlive : ¬ getN s.sh.state (getN s.sh.queue k) < CANGO := by
        rw [k3]
        have : stt s p > BUSY := hs0
        unfold stt at this
        simp only [CANGO, BUSY] at *; omega
      rcases hcase with ⟨_, hall⟩ | ⟨j, k0, hj, h1, h2, h3, h4, h5⟩
      · exact absurd (hall k k1 k2) hlive
      · have hk0 : k0 ≤ k := by
          by_contra hlt
          exact hlive (h5 k k1 (by omega))
        have hne : k ≠ k0 := by
          intro e
          apply hpg
          rw [hj, ← h3, ← e, k3]
        refine ⟨k, by rw [hsh, h4]; omega, by omega, by rw [hqsame k k2]; exact k3⟩

end Slu

namespace Slu
open Slu.Gen
open Classical

/-- a worker slot outside the array holds no panel -/
theorem cur_lt (s : Sys) (i : Nat) (h : (wk s i).cur.isSome) : i < s.ws.size := by
  by_contra hc
  rw [wk_oob s i (by omega)] at h
  cases h

/-- **Progress.**  In a state satisfying both invariants, with at least one worker and some panel not finished, some worker
can take a productive step: finish the panel it holds (its wait chain is released), or — being at the loop head with
`tasks_remain > 0`, or about to call the scheduler — report a finished panel or be handed a panel. -/
theorem progress (K : Cfg) (W : CfgWF K) (Q : ColCfg) (C : ColWF K Q) (s : Sys) (inv : SysInv K s) (pinv : ProgInv K Q s)
    (hnw : 0 < s.ws.size) (hnd : ∃ p ∈ K.panels, stt s p ≠ DONE) :
    (∃ i p b, (wk s i).phase = .working p b ∧ chainReleased K.c s.sh p b = true) ∨
    (∃ i, i < s.ws.size ∧ ((wk s i).phase = .calling ∨ ((wk s i).phase = .head ∧ s.sh.tasksRemain > 0)) ∧
          ((wk s i).cur.isSome ∨ (schedule K.c s.sh (wk s i).cur 0).2.1.isSome)) := by
  by_cases hbusy : ∃ p, p ∈ K.panels ∧ stt s p = BUSY
  · -- the leftmost BUSY panel can be finished
    left
    have hmin : ∀ {m : Nat}, m < Nat.find hbusy → ¬ (m ∈ K.panels ∧ stt s m = BUSY) := fun hm => Nat.find_min hbusy hm
    obtain ⟨hp, hst⟩ := Nat.find_spec hbusy
    generalize Nat.find hbusy = p at hmin hp hst
    obtain ⟨i, b, hib⟩ := inv.busy_owned p hp hst
    refine ⟨i, p, b, hib, ?_⟩
    unfold chainReleased
    split
    · rfl
    · rw [List.all_eq_true]
      intro x hx
      obtain ⟨hbp, hbd⟩ := pinv.wb_desc i p b hib
      have hbn := W.lt b hbp
      obtain ⟨x1, x2, x3⟩ := waitChain_desc K W Q C p hp (K.c.n + 1) b hbn (by rw [pan_self K Q C b hbp]; exact hbd) x hx
      simp only [beq_iff_eq]
      by_contra hne
      have hb := pinv.spin_busy x x1 hne
      have hr := C.pan_rng x x1
      exact hmin (by omega : Q.pan x < p) ⟨C.pan_mem x x1, hb⟩
  · -- no panel is being factored: some panel is untaken
    right
    have hnb : ∀ p ∈ K.panels, stt s p ≠ BUSY := fun p hp e => hbusy ⟨p, hp, e⟩
    obtain ⟨p0, hp0, hp0s⟩ := hnd
    have hunt : ∃ p, p ∈ K.panels ∧ stt s p > BUSY := by
      refine ⟨p0, hp0, ?_⟩
      have := hnb p0 hp0
      simp only [BUSY, DONE] at *; omega
    have htasks : s.sh.tasksRemain > 0 := by
      rw [inv.tasks]
      have : 0 < cnt K.panels (fun p => stt s p > BUSY) := (cnt_pos_iff _ _).2 (by obtain ⟨p, a, b⟩ := hunt; exact ⟨p, a, b⟩)
      exact_mod_cast this
    -- a real worker is at the loop head or about to call the scheduler
    have hphase : ∀ i, i < s.ws.size → ((wk s i).phase = .calling ∨ ((wk s i).phase = .head ∧ s.sh.tasksRemain > 0)) := by
      intro i hi
      cases hp : (wk s i).phase with
      | head => right; exact ⟨rfl, htasks⟩
      | calling => left; rfl
      | working p b =>
        exfalso
        obtain ⟨_, c2, c3⟩ := inv.own_w i p b hp
        exact hnb p c3 c2
      | exited =>
        exfalso
        have := pinv.exited i hi hp
        omega
    by_cases hc : ∃ i, (wk s i).cur.isSome
    · obtain ⟨i, hi⟩ := hc
      exact ⟨i, cur_lt s i hi, hphase i (cur_lt s i hi), Or.inl hi⟩
    · -- nobody holds a finished panel: worker 0 is handed the leftmost untaken panel's … some panel from the queue
      have hnone : ∀ i, (wk s i).cur = none := by
        intro i
        cases hci : (wk s i).cur with
        | none => rfl
        | some q => exact absurd ⟨i, by rw [hci]; rfl⟩ hc
      refine ⟨0, hnw, hphase 0 hnw, Or.inr ?_⟩
      rw [hnone 0]
      have hmin : ∀ {m' : Nat}, m' < Nat.find hunt → ¬ (m' ∈ K.panels ∧ stt s m' > BUSY) := fun hm => Nat.find_min hunt hm
      obtain ⟨hm, hms⟩ := Nat.find_spec hunt
      generalize Nat.find hunt = m at hmin hm hms
      -- every child of m is finished and reported
      have hukd : ukd s m = 0 := by
        rw [inv.kids m (Or.inl hm)]
        have : cnt K.panels (fun q => K.dad q = m ∧ unrep s q) = 0 := by
          rw [cnt_zero_iff]
          intro q hq ⟨hdq, hun⟩
          have hlt : q < m := by have := (W.dad_gt q hq).1; omega
          have hq1 : ¬ stt s q > BUSY := fun hgt => hmin hlt ⟨hq, hgt⟩
          have hq2 := hnb q hq
          have hdone : stt s q = DONE := by simp only [BUSY, DONE] at *; omega
          rcases hun with h1 | ⟨i, hi⟩
          · exact h1 hdone
          · rw [hnone i] at hi; cases hi
        exact_mod_cast this
      obtain ⟨k, k1, k2, k3⟩ := pinv.avail m hm hms hukd
      have htl := tail_le K W s inv
      rcases schedule_head K.c s.sh none 0 inv.qok (by omega) with ⟨q, hq, _⟩ | ⟨_, ⟨_, hall⟩ | ⟨j, _, hj, _⟩⟩
      · cases hq
      · exfalso
        have := hall k k1 k2
        rw [k3] at this
        have h2 : stt s m > BUSY := hms
        unfold stt at h2
        simp only [CANGO, BUSY] at *; omega
      · rw [hj]; rfl

end Slu
