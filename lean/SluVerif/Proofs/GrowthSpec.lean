/- ?langs and ?PivotGrowth against their specifications (Props/C12: langs_spec, growth_spec) -/
import SluVerif.Proofs.RfsBasic

namespace Slu
open Finset

/-! ### folds of `rmin` / `rmax` -/

theorem rmin_le_left (a b : Rat) : rmin a b ≤ a := by unfold rmin; split <;> [exact le_refl _; exact not_lt.mp ‹_›]
theorem rmin_le_right (a b : Rat) : rmin a b ≤ b := by unfold rmin; split <;> [exact le_of_lt ‹_›; exact le_refl _]
theorem rmin_cases (a b : Rat) : rmin a b = a ∨ rmin a b = b := by unfold rmin; split <;> simp
theorem le_rmax_left (a b : Rat) : a ≤ rmax a b := by unfold rmax; split <;> [exact le_refl _; exact not_lt.mp ‹_›]
theorem le_rmax_right (a b : Rat) : b ≤ rmax a b := by unfold rmax; split <;> [exact le_of_lt ‹_›; exact le_refl _]
theorem rmax_cases (a b : Rat) : rmax a b = a ∨ rmax a b = b := by unfold rmax; split <;> simp

theorem foldl_rmin_le_init (l : List Rat) (r : Rat) : l.foldl rmin r ≤ r := by
  induction l generalizing r with
  | nil => exact le_refl _
  | cons x t ih => exact le_trans (ih _) (rmin_le_left _ _)

theorem foldl_rmin_le_mem (l : List Rat) (r : Rat) : ∀ x ∈ l, l.foldl rmin r ≤ x := by
  induction l generalizing r with
  | nil => intro x hx; cases hx
  | cons y t ih =>
    intro x hx
    rcases List.mem_cons.mp hx with h | h
    · subst h; exact le_trans (foldl_rmin_le_init t _) (rmin_le_right _ _)
    · exact ih _ x h

theorem foldl_rmin_attained (l : List Rat) (r : Rat) : l.foldl rmin r = r ∨ l.foldl rmin r ∈ l := by
  induction l generalizing r with
  | nil => left; rfl
  | cons y t ih =>
    rcases ih (rmin r y) with h | h
    · rcases rmin_cases r y with h' | h'
      · left; simp only [List.foldl_cons]; rw [h, h']
      · right; simp only [List.foldl_cons]; rw [h, h']; exact List.mem_cons_self
    · right; exact List.mem_cons_of_mem _ h

theorem foldl_rmax_ge_init (l : List Rat) (r : Rat) : r ≤ l.foldl rmax r := by
  induction l generalizing r with
  | nil => exact le_refl _
  | cons x t ih => exact le_trans (le_rmax_left _ _) (ih _)

theorem foldl_rmax_ge_mem (l : List Rat) (r : Rat) : ∀ x ∈ l, x ≤ l.foldl rmax r := by
  induction l generalizing r with
  | nil => intro x hx; cases hx
  | cons y t ih =>
    intro x hx
    rcases List.mem_cons.mp hx with h | h
    · subst h; exact le_trans (le_rmax_right _ _) (foldl_rmax_ge_init t _)
    · exact ih _ x h

theorem foldl_rmax_attained (l : List Rat) (r : Rat) : l.foldl rmax r = r ∨ l.foldl rmax r ∈ l := by
  induction l generalizing r with
  | nil => left; rfl
  | cons y t ih =>
    rcases ih (rmax r y) with h | h
    · rcases rmax_cases r y with h' | h'
      · left; simp only [List.foldl_cons]; rw [h, h']
      · right; simp only [List.foldl_cons]; rw [h, h']; exact List.mem_cons_self
    · right; exact List.mem_cons_of_mem _ h

theorem foldl_map_fn {α : Type} (l : List α) (f : α → Rat) (op : Rat → Rat → Rat) (r : Rat) :
    l.foldl (fun a x => op a (f x)) r = (l.map f).foldl op r := by
  induction l generalizing r with
  | nil => rfl
  | cons x t ih => simp only [List.foldl_cons, List.map_cons]; exact ih _

theorem foldl_filter_fn {α : Type} (l : List α) (p : α → Bool) (g : Rat → α → Rat) (r : Rat) :
    l.foldl (fun a x => if p x then g a x else a) r = (l.filter p).foldl g r := by
  induction l generalizing r with
  | nil => rfl
  | cons x t ih =>
    simp only [List.foldl_cons, List.filter_cons]
    split <;> simp [ih]

/-! ### ?PivotGrowth -/

/-- the quotient examined for column `sn.f + k` -/
def growthRatio (A : NCMat) (invPermC : Nat → Nat) (U : NCP) (sn : Snode) (k : Nat) : Rat :=
  if ucolMaxAbs U sn k = 0 then 1 else colMaxAbs A (invPermC (sn.f + k)) / ucolMaxAbs U sn k

theorem growthCol_eq (A : NCMat) (inv : Nat → Nat) (U : NCP) (sn : Snode) (r : Rat) (k : Nat) :
    growthCol A inv U sn r k = rmin r (growthRatio A inv U sn k) := by
  unfold growthCol growthRatio; simp only; split <;> rfl

/-- candidates contributed by one supernode: its columns below `ncols` -/
def growthCands (ncols : Nat) (A : NCMat) (inv : Nat → Nat) (U : NCP) (sn : Snode) : List Rat :=
  ((List.range (sn.e - sn.f)).filter fun k => decide (sn.f + k < ncols)).map (growthRatio A inv U sn)

theorem growthSnode_eq (ncols : Nat) (A : NCMat) (inv : Nat → Nat) (U : NCP) (sn : Snode) (r : Rat) :
    growthSnode ncols A inv U sn r = (growthCands ncols A inv U sn).foldl rmin r := by
  unfold growthSnode growthCands
  have : (fun (r : Rat) (k : Nat) => if sn.f + k < ncols then growthCol A inv U sn r k else r)
      = (fun r k => if (decide (sn.f + k < ncols)) = true then (fun a x => rmin a (growthRatio A inv U sn x)) r k else r) := by
    funext r k; simp [growthCol_eq]
  rw [this, foldl_filter_fn, foldl_map_fn]

theorem growthSnode_skip (ncols : Nat) (A : NCMat) (inv : Nat → Nat) (U : NCP) (sn : Snode) (r : Rat) (h : ncols ≤ sn.f) :
    growthSnode ncols A inv U sn r = r := by
  rw [growthSnode_eq]
  have : growthCands ncols A inv U sn = [] := by
    unfold growthCands
    rw [List.map_eq_nil_iff, List.filter_eq_nil_iff]
    intro k _; simp; omega
  rw [this]; rfl

/-- supernodes are listed in column order -/
def SupInOrder : List Snode → Prop
  | [] => True
  | sn :: rest => (∀ s ∈ rest, sn.e ≤ s.f) ∧ SupInOrder rest

theorem foldl_growthSnode_skip (ncols : Nat) (A : NCMat) (inv : Nat → Nat) (U : NCP) (l : List Snode) (r : Rat)
    (h : ∀ s ∈ l, ncols ≤ s.f) : l.foldl (fun r sn => growthSnode ncols A inv U sn r) r = r := by
  induction l generalizing r with
  | nil => rfl
  | cons s t ih =>
    simp only [List.foldl_cons]
    rw [growthSnode_skip ncols A inv U s r (h s List.mem_cons_self)]
    exact ih r fun s' hs' => h s' (List.mem_cons_of_mem _ hs')

/-- the repaired loop visits every supernode: it is the fold, whatever the numbering -/
theorem growthLoop_eq_spec (ncols : Nat) (A : NCMat) (inv : Nat → Nat) (U : NCP) (l : List Snode) (r : Rat) :
    growthLoop ncols A inv U l r = l.foldl (fun r sn => growthSnode ncols A inv U sn r) r := by
  induction l generalizing r with
  | nil => rfl
  | cons s t ih => simp only [growthLoop, List.foldl_cons]; exact ih _

/-- the original loop (early exit) agreed with the fold only when the supernodes were numbered in column order -/
theorem growthLoopOrig_eq_spec (ncols : Nat) (A : NCMat) (inv : Nat → Nat) (U : NCP) (l : List Snode) (r : Rat)
    (h : SupInOrder l) : growthLoopOrig ncols A inv U l r = l.foldl (fun r sn => growthSnode ncols A inv U sn r) r := by
  induction l generalizing r with
  | nil => rfl
  | cons s t ih =>
    simp only [growthLoopOrig, List.foldl_cons]
    split
    · rename_i hle
      rw [foldl_growthSnode_skip]
      intro s' hs'; exact le_trans hle (h.1 s' hs')
    · exact ih _ h.2

theorem foldl_cands_flat (ncols : Nat) (A : NCMat) (inv : Nat → Nat) (U : NCP) (l : List Snode) (r : Rat) :
    l.foldl (fun r sn => growthSnode ncols A inv U sn r) r = (l.flatMap (growthCands ncols A inv U)).foldl rmin r := by
  induction l generalizing r with
  | nil => rfl
  | cons s t ih =>
    simp only [List.foldl_cons, List.flatMap_cons, List.foldl_append]
    rw [growthSnode_eq]; exact ih _

/-! ### ?langs -/

/-- rows in range and no row index repeated inside a column -/
def NCMat.wf (A : NCMat) : Prop := A.rowsOk ∧ ∀ j, j < A.ncol → ((A.col j).map Prod.fst).Nodup

theorem filter_row_length (l : List (Nat × Rat)) (h : (l.map Prod.fst).Nodup) (i : Nat) :
    (l.filter fun e => e.1 = i).length ≤ 1 := by
  induction l with
  | nil => simp
  | cons e t ih =>
    simp only [List.map_cons, List.nodup_cons] at h
    simp only [List.filter_cons]
    split
    · rename_i he
      have he' : e.1 = i := by simpa using he
      have : (t.filter fun e => e.1 = i) = [] := by
        rw [List.filter_eq_nil_iff]
        intro x hx hxi
        have : x.1 = i := by simpa using hxi
        exact h.1 (by rw [he', ← this]; exact List.mem_map_of_mem hx)
      simp [this]
    · exact ih h.2

theorem abs_entry_eq (l : List (Nat × Rat)) (h : (l.map Prod.fst).Nodup) (i : Nat) :
    rabs ((l.filter fun e => e.1 = i).foldl (fun s e => s + e.2) 0) = ((l.filter fun e => e.1 = i).map fun e => rabs e.2).sum := by
  have hl := filter_row_length l h i
  generalize (l.filter fun e => e.1 = i) = fl at hl ⊢
  match fl, hl with
  | [], _ => simp [rabs]
  | [x], _ => simp
  | x :: y :: t, hl => simp at hl

theorem sum_rows_filter (m : Nat) (l : List (Nat × Rat)) (g : Nat × Rat → Rat) (h : ∀ e ∈ l, e.1 < m) :
    ∑ i ∈ range m, ((l.filter fun e => e.1 = i).map g).sum = (l.map g).sum := by
  induction l with
  | nil => simp
  | cons e t ih =>
    have he : e.1 < m := h e List.mem_cons_self
    have hstep : ∀ i ∈ range m, (((e :: t).filter fun e => e.1 = i).map g).sum
        = (if i = e.1 then g e else 0) + ((t.filter fun e => e.1 = i).map g).sum := by
      intro i _
      simp only [List.filter_cons]
      by_cases hi : e.1 = i
      · simp [hi]
      · have : ¬ i = e.1 := fun h' => hi h'.symm
        simp [hi, this]
    rw [Finset.sum_congr rfl hstep, Finset.sum_add_distrib, Finset.sum_ite_eq', if_pos (mem_range.mpr he),
      ih fun e' he' => h e' (List.mem_cons_of_mem _ he')]
    simp

/-- `Σ_{i<nrow} |A(i,j)|` of the dense matrix -/
def denseColSum (A : NCMat) (j : Nat) : Rat := rsum A.nrow fun i => rabs (A.entry i j)
/-- `Σ_{j<ncol} |A(i,j)|` -/
def denseRowSum (A : NCMat) (i : Nat) : Rat := rsum A.ncol fun j => rabs (A.entry i j)

theorem colSumAbs_eq_dense (A : NCMat) (hwf : A.wf) (j : Nat) (hj : j < A.ncol) : colSumAbs A j = denseColSum A j := by
  unfold colSumAbs denseColSum NCMat.entry
  rw [foldl_add_eq, zero_add, rsum_eq]
  rw [Finset.sum_congr rfl fun i _ => abs_entry_eq (A.col j) (hwf.2 j hj) i]
  exact (sum_rows_filter A.nrow (A.col j) (fun e => rabs e.2) (hwf.1 j hj)).symm

theorem foldl_ite_add_eq (l : List (Nat × Rat)) (i : Nat) (a : Rat) :
    l.foldl (fun s e => if e.1 = i then s + rabs e.2 else s) a = a + ((l.filter fun e => e.1 = i).map fun e => rabs e.2).sum := by
  induction l generalizing a with
  | nil => simp
  | cons e t ih =>
    simp only [List.foldl_cons, List.filter_cons]
    by_cases h : e.1 = i
    · simp only [h, if_true, decide_true]; rw [ih]; simp; ring
    · simp only [h, if_false, decide_false]; rw [ih]; simp

theorem rowSumAbs_eq_dense (A : NCMat) (hwf : A.wf) (i : Nat) : rowSumAbs A i = denseRowSum A i := by
  unfold rowSumAbs denseRowSum NCMat.entry
  rw [rsum_eq]
  have : ∀ m, m ≤ A.ncol → (List.range m).foldl (fun s j => (A.col j).foldl (fun s e => if e.1 = i then s + rabs e.2 else s) s) 0
      = ∑ j ∈ range m, rabs (((A.col j).filter fun e => e.1 = i).foldl (fun s e => s + e.2) 0) := by
    intro m
    induction m with
    | zero => intro _; simp
    | succ k ih =>
      intro hk
      rw [List.range_succ, List.foldl_append, ih (by omega), Finset.sum_range_succ]
      simp only [List.foldl_cons, List.foldl_nil]
      rw [foldl_ite_add_eq, abs_entry_eq (A.col k) (hwf.2 k (by omega)) i]
  exact this A.ncol (le_refl _)

end Slu
