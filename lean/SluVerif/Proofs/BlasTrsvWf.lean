/- from the executable well-formedness predicates of Model/Sparse.lean (`SCP.wf`, `NCP.wf`) to the
   structural hypotheses of the sweeps (`LOk`, `UOk`), and from the sum-form dense matrices
   (`MLg`, `MUg`) to `SCP.entryL` / `entryU`. -/
import SluVerif.Proofs.BlasTrsvSweep
set_option linter.unusedSectionVars false
set_option linter.unusedSimpArgs false
set_option linter.unusedVariables false
namespace Slu.Blas
open Finset

theorem wf_parts (L : SCP) (h : L.wf = true) :
    L.partitionOk = true ∧ (L.sn.all (fun s => s.wf L.n)) = true ∧ L.depOrderOk = true := by
  unfold SCP.wf at h
  simp only [Bool.and_eq_true] at h
  -- robust against further conjuncts being appended to `SCP.wf`
  refine ⟨?_, ?_, ?_⟩ <;> tauto

theorem snode_wf_parts (n : Nat) (s : Snode) (h : s.wf n = true) :
    s.f < s.e ∧ s.e ≤ n ∧ s.e - s.f ≤ s.rows.size ∧
    (∀ k < s.e - s.f, geti s.rows k = ((s.f + k : Nat) : Int)) ∧
    (∀ r ∈ s.rows.toList.drop (s.e - s.f), (s.e : Int) ≤ r ∧ r < (n : Int)) ∧
    (s.rows.toList.drop (s.e - s.f)).Nodup := by
  unfold Snode.wf at h
  simp only [Bool.and_eq_true, decide_eq_true_eq, List.all_eq_true, List.mem_range, beq_iff_eq] at h
  obtain ⟨⟨⟨⟨⟨⟨⟨⟨⟨⟨h1, h2⟩, h3⟩, h4⟩, h5⟩, h6⟩, h7⟩, h8⟩, h9⟩, h10⟩, h11⟩ := h
  exact ⟨h1, h2, h3, h5, h6, h7⟩

theorem geti_eq_getElem (a : Array Int) (t : Nat) (h : t < a.size) : geti a t = a.toList[t]'(by simpa using h) := by
  unfold geti
  simp [Array.getD, h]

theorem geti_drop (a : Array Int) (w t : Nat) (hw : w ≤ t) (h : t < a.size) :
    geti a t = (a.toList.drop w)[t - w]'(by simp; omega) := by
  rw [geti_eq_getElem a t h, List.getElem_drop]
  congr 1; omega

/-- per-supernode facts used by the sweeps, plus injectivity / non-negativity of the row list -/
theorem snode_facts (n : Nat) (s : Snode) (h : s.wf n = true) :
    SnOk n s ∧ (∀ t < nsupr s, 0 ≤ geti s.rows t) ∧
    (∀ t < nsupr s, ∀ t' < nsupr s, geti s.rows t = geti s.rows t' → t = t') := by
  obtain ⟨h1, h2, h3, h4, h5, h6⟩ := snode_wf_parts n s h
  have hout : ∀ t, s.e - s.f ≤ t → t < s.rows.size → (s.e : Int) ≤ geti s.rows t ∧ geti s.rows t < (n : Int) := by
    intro t ht hts
    rw [geti_drop s.rows (s.e - s.f) t ht hts]
    exact h5 _ (List.getElem_mem _)
  refine ⟨⟨h1, h2, h3, ?_, ?_⟩, ?_, ?_⟩
  · intro t ht
    unfold srow; rw [h4 t ht]; exact Int.toNat_natCast _
  · intro t ht hts
    have := hout t ht hts
    unfold srow; omega
  · intro t ht
    by_cases hw : t < s.e - s.f
    · rw [h4 t hw]; omega
    · have := hout t (by omega) ht; omega
  · intro t ht t' ht' e
    by_cases hw : t < s.e - s.f
    · by_cases hw' : t' < s.e - s.f
      · rw [h4 t hw, h4 t' hw'] at e; omega
      · have := hout t' (by omega) ht'
        rw [h4 t hw] at e; omega
    · by_cases hw' : t' < s.e - s.f
      · have := hout t (by omega) ht
        rw [h4 t' hw'] at e; omega
      · rw [geti_drop s.rows (s.e - s.f) t (by omega) ht, geti_drop s.rows (s.e - s.f) t' (by omega) ht'] at e
        have := (List.Nodup.getElem_inj_iff h6).mp e
        omega


theorem list_foldl_add_eq_sum {σ : Type} (g : σ → Nat) (d : σ) (l : List σ) (c : Nat) :
    l.foldl (fun acc s => acc + g s) c = c + ∑ k ∈ range l.length, g (l.getD k d) := by
  induction l generalizing c with
  | nil => simp
  | cons hd tl ih =>
    rw [List.foldl_cons, ih, List.length_cons, sum_range_succ']
    simp only [List.getD_cons_succ, List.getD_cons_zero]
    omega

theorem array_foldl_add_eq_sum {σ : Type} (g : σ → Nat) (d : σ) (a : Array σ) :
    a.foldl (fun acc s => acc + g s) 0 = ∑ k ∈ range a.size, g (a.getD k d) := by
  rw [← Array.foldl_toList, list_foldl_add_eq_sum g d a.toList 0, zero_add]
  simp only [Array.length_toList]
  apply sum_congr rfl
  intro k hk
  have := mem_range.mp hk
  simp [Array.getD, List.getD, this]

theorem partition_parts (L : SCP) (h : L.partitionOk = true) :
    L.sn.size = L.numSnodes ∧ (∑ k ∈ range L.numSnodes, ((snk L k).e - (snk L k).f)) = L.n ∧
    ∀ k < L.numSnodes, (snk L k).f < (snk L k).e ∧ (snk L k).e ≤ L.n ∧
      ∀ kk < (snk L k).e - (snk L k).f, geti L.colToSup ((snk L k).f + kk) = (k : Int) := by
  unfold SCP.partitionOk at h
  simp only [Bool.and_eq_true, decide_eq_true_eq, List.all_eq_true, List.mem_range, beq_iff_eq] at h
  obtain ⟨⟨⟨⟨⟨⟨h1, h2⟩, h3⟩, h4⟩, h5⟩, h6⟩, h7⟩ := h
  refine ⟨h2, ?_, ?_⟩
  · rw [← h6, array_foldl_add_eq_sum (fun s => s.e - s.f) default L.sn, h2]
    rfl
  · intro k hk
    obtain ⟨⟨⟨⟨⟨⟨a1, a2⟩, a3⟩, a4⟩, a5⟩, a6⟩, a7⟩ := h7 k hk
    exact ⟨a2, a3, a4⟩

/-- **`SCP.wf` gives the structural hypotheses of the L sweeps** -/
theorem LOk_of_wf (L : SCP) (h : L.wf = true) : LOk L := by
  obtain ⟨hp, hs, hdep⟩ := wf_parts L h
  obtain ⟨hsz, hsum, hblk⟩ := partition_parts L hp
  have hsnwf : ∀ k < L.numSnodes, (snk L k).wf L.n = true := by
    intro k hk
    rw [Array.all_eq_true] at hs
    have := hs k (by rw [hsz]; exact hk)
    unfold snk
    simpa [Array.getD, hsz, hk] using this
  have hsupof : ∀ k < L.numSnodes, ∀ j, (snk L k).f ≤ j → j < (snk L k).e → supOf L j = k := by
    intro k hk j h1 h2
    have := (hblk k hk).2.2 (j - (snk L k).f) (by omega)
    unfold supOf
    have e : (snk L k).f + (j - (snk L k).f) = j := by omega
    rw [e] at this
    rw [this]; exact Int.toNat_natCast k
  -- coverage by counting
  have hcover : ∀ j < L.n, ∃ k < L.numSnodes, (snk L k).f ≤ j ∧ j < (snk L k).e := by
    have hdisj : ∀ k ∈ range L.numSnodes, ∀ k' ∈ range L.numSnodes, k ≠ k' →
        Disjoint (Ico (snk L k).f (snk L k).e) (Ico (snk L k').f (snk L k').e) := by
      intro k hk k' hk' hne
      rw [disjoint_left]
      intro j hj hj'
      have a := hsupof k (mem_range.mp hk) j (mem_Ico.mp hj).1 (mem_Ico.mp hj).2
      have b := hsupof k' (mem_range.mp hk') j (mem_Ico.mp hj').1 (mem_Ico.mp hj').2
      exact hne (a.symm.trans b)
    have hsub : (range L.numSnodes).biUnion (fun k => Ico (snk L k).f (snk L k).e) ⊆ range L.n := by
      intro j hj
      obtain ⟨k, hk, hjk⟩ := mem_biUnion.mp hj
      have := (hblk k (mem_range.mp hk)).2.1
      exact mem_range.mpr (by have := (mem_Ico.mp hjk).2; omega)
    have hcard : (range L.n).card ≤ ((range L.numSnodes).biUnion (fun k => Ico (snk L k).f (snk L k).e)).card := by
      rw [card_biUnion hdisj, card_range]
      simp only [Nat.card_Ico]
      exact le_of_eq hsum.symm
    have heq := eq_of_subset_of_card_le hsub hcard
    intro j hj
    have : j ∈ (range L.numSnodes).biUnion (fun k => Ico (snk L k).f (snk L k).e) := by
      rw [heq]; exact mem_range.mpr hj
    obtain ⟨k, hk, hjk⟩ := mem_biUnion.mp this
    exact ⟨k, mem_range.mp hk, (mem_Ico.mp hjk).1, (mem_Ico.mp hjk).2⟩
  refine ⟨fun k hk => (snode_facts L.n _ (hsnwf k hk)).1, ?_, ?_, hsupof, ?_⟩
  · intro j hj
    obtain ⟨k, hk, h1, h2⟩ := hcover j hj
    rw [hsupof k hk j h1 h2]; exact hk
  · intro j hj
    obtain ⟨k, hk, h1, h2⟩ := hcover j hj
    rw [hsupof k hk j h1 h2]; exact ⟨h1, h2⟩
  · intro k hk t ht hts
    unfold SCP.depOrderOk at hdep
    simp only [List.all_eq_true, List.mem_range, decide_eq_true_eq] at hdep
    have hk' : k < L.sn.size := by rw [hsz]; exact hk
    have hmem : geti (snk L k).rows t ∈ (snk L k).rows.toList.drop ((snk L k).e - (snk L k).f) := by
      rw [geti_drop (snk L k).rows _ t ht hts]
      exact List.getElem_mem _
    have := hdep k hk' _ hmem
    unfold supOf srow
    omega


theorem colToSup_eq (L : SCP) (h : L.wf = true) (j : Nat) (hj : j < L.n) :
    geti L.colToSup j = ((supOf L j : Nat) : Int) := by
  have hL := LOk_of_wf L h
  obtain ⟨hp, -, -⟩ := wf_parts L h
  obtain ⟨-, -, hblk⟩ := partition_parts L hp
  have hk := hL.sup_lt j hj
  have hm := hL.sup_mem j hj
  have := (hblk _ hk).2.2 (j - (snk L (supOf L j)).f) (by omega)
  have e : (snk L (supOf L j)).f + (j - (snk L (supOf L j)).f) = j := by omega
  rw [e] at this
  exact this

theorem ncp_wf_parts (L : SCP) (U : NCP) (h : U.wf L = true) :
    U.n = L.n ∧ ∀ j < L.n,
      (∀ r ∈ (U.cols.getD j default).rows.toList, 0 ≤ r ∧ r < ((snk L (supOf L j)).f : Int) ∧
          geti L.colToSup r.toNat < geti L.colToSup j) ∧
      (U.cols.getD j default).rows.toList.Nodup := by
  unfold NCP.wf at h
  simp only [Bool.and_eq_true, decide_eq_true_eq, List.all_eq_true, List.mem_range, beq_iff_eq] at h
  obtain ⟨⟨⟨⟨h1, h2⟩, h3⟩, h4⟩, h5⟩ := h
  refine ⟨h1, ?_⟩
  intro j hj
  obtain ⟨⟨⟨a1, a2⟩, a3⟩, a4⟩ := h3 j (by rw [h1]; exact hj)
  refine ⟨?_, a4⟩
  intro r hr
  obtain ⟨⟨b1, b2⟩, b3⟩ := a3 r hr
  exact ⟨b1, b2, b3⟩

/-- facts about one U column: rows are natural numbers above the supernode, of earlier supernodes, distinct -/
theorem ucol_facts (L : SCP) (U : NCP) (hL : L.wf = true) (hU : U.wf L = true) (j : Nat) (hj : j < L.n) :
    (∀ t < (U.cols.getD j default).rows.size,
      0 ≤ geti (U.cols.getD j default).rows t ∧
      urow (U.cols.getD j default) t < (snk L (supOf L j)).f ∧
      supOf L (urow (U.cols.getD j default) t) < supOf L j) ∧
    (∀ t < (U.cols.getD j default).rows.size, ∀ t' < (U.cols.getD j default).rows.size,
      geti (U.cols.getD j default).rows t = geti (U.cols.getD j default).rows t' → t = t') := by
  obtain ⟨hn, hcols⟩ := ncp_wf_parts L U hU
  obtain ⟨hr, hnd⟩ := hcols j hj
  have hLok := LOk_of_wf L hL
  refine ⟨?_, ?_⟩
  · intro t ht
    have hmem : geti (U.cols.getD j default).rows t ∈ (U.cols.getD j default).rows.toList := by
      rw [geti_eq_getElem _ t ht]; exact List.getElem_mem _
    obtain ⟨b1, b2, b3⟩ := hr _ hmem
    have hf := (hLok.sup_mem j hj).1
    have hlt : urow (U.cols.getD j default) t < (snk L (supOf L j)).f := by unfold urow; omega
    refine ⟨b1, hlt, ?_⟩
    have hrn : urow (U.cols.getD j default) t < L.n := by omega
    have e1 := colToSup_eq L hL _ hrn
    have e2 := colToSup_eq L hL j hj
    unfold urow at e1
    rw [e1, e2] at b3
    unfold urow
    omega
  · intro t ht t' ht' e
    rw [geti_eq_getElem _ t ht, geti_eq_getElem _ t' ht'] at e
    exact (List.Nodup.getElem_inj_iff hnd).mp e

theorem rowPos_some (rows : Array Int) (i t : Nat) (ht : t < rows.size) (h : geti rows t = (i : Int))
    (inj : ∀ t < rows.size, ∀ t' < rows.size, geti rows t = geti rows t' → t = t') : rowPos rows i = some t := by
  unfold rowPos
  have hmem : (i : Int) ∈ rows.toList := by
    rw [← h, geti_eq_getElem rows t ht]; exact List.getElem_mem _
  have hlt : rows.toList.idxOf (i : Int) < rows.toList.length := List.idxOf_lt_length_iff.mpr hmem
  have hlt' : rows.toList.idxOf (i : Int) < rows.size := by simpa using hlt
  have hget : rows.toList[rows.toList.idxOf (i : Int)]'hlt = (i : Int) := List.getElem_idxOf hlt
  have : rows.toList.idxOf (i : Int) = t := by
    apply inj _ hlt' _ ht
    rw [geti_eq_getElem rows _ hlt', hget, h]
  simp only [this, ht, if_true]

theorem rowPos_none (rows : Array Int) (i : Nat) (h : ∀ t < rows.size, geti rows t ≠ (i : Int)) : rowPos rows i = none := by
  unfold rowPos
  have : ¬ (rows.toList.idxOf (i : Int) < rows.size) := by
    intro hlt
    have hlt2 : rows.toList.idxOf (i : Int) < rows.toList.length := by simpa using hlt
    have hget : rows.toList[rows.toList.idxOf (i : Int)]'hlt2 = (i : Int) := List.getElem_idxOf hlt2
    exact h _ hlt (by rw [geti_eq_getElem rows _ hlt, hget])
  simp only [this, if_false]


theorem rowPos_spec (rows : Array Int) (i k : Nat) (h : rowPos rows i = some k) :
    k < rows.size ∧ geti rows k = (i : Int) := by
  unfold rowPos at h
  by_cases hlt : rows.toList.idxOf (i : Int) < rows.size
  · simp only [hlt, if_true, Option.some.injEq] at h
    subst h
    have hlt2 : rows.toList.idxOf (i : Int) < rows.toList.length := by simpa using hlt
    exact ⟨hlt, by rw [geti_eq_getElem rows _ hlt]; exact List.getElem_idxOf hlt2⟩
  · simp only [hlt, if_false] at h
    exact absurd h (by simp)

/-- a sum over a duplicate-free non-negative row list that selects the global row `i` has at most one term,
    the one `rowPos` finds -/
theorem rows_sum_single (rows : Array Int) (nonneg : ∀ t < rows.size, 0 ≤ geti rows t)
    (inj : ∀ t < rows.size, ∀ t' < rows.size, geti rows t = geti rows t' → t = t')
    (i : Nat) (C : Nat → Prop) [DecidablePred C] (F : Nat → Rat) :
    (∑ t ∈ range rows.size, if (geti rows t).toNat = i ∧ C t then F t else 0) =
      match rowPos rows i with
      | some k => if C k then F k else 0
      | none => 0 := by
  have hconv : ∀ t < rows.size, ((geti rows t).toNat = i ↔ geti rows t = (i : Int)) := by
    intro t ht; have := nonneg t ht; omega
  by_cases hex : ∃ t < rows.size, geti rows t = (i : Int)
  · obtain ⟨t, ht, he⟩ := hex
    rw [rowPos_some rows i t ht he inj]
    dsimp only
    rw [sum_eq_single t]
    · have : (geti rows t).toNat = i := (hconv t ht).mpr he
      by_cases hc : C t
      · rw [if_pos ⟨this, hc⟩, if_pos hc]
      · rw [if_neg (fun c => hc c.2), if_neg hc]
    · intro t' ht' hne
      have ht'' := mem_range.mp ht'
      rw [if_neg]
      intro c
      have := (hconv t' ht'').mp c.1
      exact hne (inj t' ht'' t ht (this.trans he.symm))
    · intro hn; exact absurd (mem_range.mpr ht) hn
  · rw [rowPos_none rows i (fun t ht e => hex ⟨t, ht, e⟩)]
    dsimp only
    apply sum_eq_zero
    intro t ht
    have ht' := mem_range.mp ht
    rw [if_neg]
    intro c
    exact hex ⟨t, ht', (hconv t ht').mp c.1⟩

/-- **the sum-form dense L is `entryL` (divided by the scale `one`)** -/
theorem MLg_eq_entryL (L : SCP) (h : L.wf = true) (one : Int) (hone : one ≠ 0) (i j : Nat) (hj : j < L.n) :
    MLg one L i j = ((L.entryL one i j : Int) : Rat) / (one : Rat) := by
  have hL := LOk_of_wf L h
  obtain ⟨hp, hs, -⟩ := wf_parts L h
  obtain ⟨hsz, -, -⟩ := partition_parts L hp
  have hk := hL.sup_lt j hj
  have hswf : (snk L (supOf L j)).wf L.n = true := by
    rw [Array.all_eq_true] at hs
    have := hs (supOf L j) (by rw [hsz]; exact hk)
    unfold snk
    simpa [Array.getD, hsz, hk] using this
  obtain ⟨-, hnn, hinj⟩ := snode_facts L.n _ hswf
  have hone' : (one : Rat) ≠ 0 := by exact_mod_cast hone
  unfold MLg MLs SCP.entryL
  by_cases hij : i = j
  · rw [if_pos hij, if_pos hij, div_self hone']
  · rw [if_neg hij, if_neg hij]
    have := rows_sum_single (snk L (supOf L j)).rows hnn hinj i (fun t => j - (snk L (supOf L j)).f < t)
      (fun t => sA one (snk L (supOf L j)) t (j - (snk L (supOf L j)).f))
    beta_reduce at this
    unfold snL nsupr srow
    rw [this]
    show _ = ((match rowPos (snk L (supOf L j)).rows i with
      | some k => if j - (snk L (supOf L j)).f < k then geti ((snk L (supOf L j)).vals.getD (j - (snk L (supOf L j)).f) #[]) k else 0
      | none => 0 : Int) : Rat) / (one : Rat)
    cases rowPos (snk L (supOf L j)).rows i with
    | none => simp
    | some k =>
      simp only []
      unfold sA lv
      split_ifs <;> simp

/-- **the sum-form dense U is `entryU` (divided by the scale `one`)** -/
theorem MUg_eq_entryU (L : SCP) (U : NCP) (h : L.wf = true) (hU : U.wf L = true) (one : Int) (i j : Nat) (hj : j < L.n) :
    MUg one L U i j = ((entryU L U i j : Int) : Rat) / (one : Rat) := by
  have hL := LOk_of_wf L h
  obtain ⟨hp, hs, -⟩ := wf_parts L h
  obtain ⟨hsz, -, -⟩ := partition_parts L hp
  have hk := hL.sup_lt j hj
  have hswf : (snk L (supOf L j)).wf L.n = true := by
    rw [Array.all_eq_true] at hs
    have := hs (supOf L j) (by rw [hsz]; exact hk)
    unfold snk
    simpa [Array.getD, hsz, hk] using this
  obtain ⟨hsn, hnn, hinj⟩ := snode_facts L.n _ hswf
  obtain ⟨hu1, hu2⟩ := ucol_facts L U h hU j hj
  have hcok : UcolOk (snk L (supOf L j)).f (U.cols.getD j default) := fun t ht => (hu1 t ht).2.1
  unfold MUg MUs entryU
  have e1 := rows_sum_single (snk L (supOf L j)).rows hnn hinj i (fun t => t ≤ j - (snk L (supOf L j)).f)
      (fun t => sA one (snk L (supOf L j)) t (j - (snk L (supOf L j)).f))
  have e2 := rows_sum_single (U.cols.getD j default).rows (fun t ht => (hu1 t ht).1) hu2 i (fun _ => True)
      (fun t => uval one (U.cols.getD j default) t)
  beta_reduce at e1 e2
  have hucol : ucolD one (U.cols.getD j default) i = match rowPos (U.cols.getD j default).rows i with
      | some k => uval one (U.cols.getD j default) k
      | none => 0 := by
    unfold ucolD
    have : ∀ t, (urow (U.cols.getD j default) t = i) = ((geti (U.cols.getD j default).rows t).toNat = i ∧ True) := by
      intro t; simp [urow]
    simp only [this]
    rw [e2]
    cases rowPos (U.cols.getD j default).rows i <;> simp
  unfold snU nsupr srow
  rw [e1]
  show _ = ((match rowPos (snk L (supOf L j)).rows i with
      | some k => if k ≤ j - (snk L (supOf L j)).f then geti ((snk L (supOf L j)).vals.getD (j - (snk L (supOf L j)).f) #[]) k else 0
      | none => match rowPos (U.cols.getD j default).rows i with
        | some k => geti (U.cols.getD j default).vals k
        | none => 0 : Int) : Rat) / (one : Rat)
  cases hrp : rowPos (snk L (supOf L j)).rows i with
  | some k =>
    simp only []
    obtain ⟨hk1, hk2⟩ := rowPos_spec _ _ _ hrp
    -- row i belongs to the supernode's row list, hence is not above the supernode
    have hige : (snk L (supOf L j)).f ≤ i := by
      by_cases hkc : k < nsupc (snk L (supOf L j))
      · have := hsn.own k hkc; unfold srow at this; rw [hk2] at this; simp at this; omega
      · have := (hsn.out k (by omega) hk1).1; unfold srow at this; rw [hk2] at this
        have := hsn.f_lt_e; simp at *; omega
    rw [ucolD_ge hcok i hige, add_zero]
    unfold sA lv
    split_ifs <;> simp
  | none =>
    simp only []
    rw [hucol, zero_add]
    cases rowPos (U.cols.getD j default).rows i with
    | none => simp
    | some k => simp [uval, lv]

end Slu.Blas
