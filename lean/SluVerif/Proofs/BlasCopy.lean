/- ?Copy_CompCol_Matrix and the permuted column view (?Create_CompCol_Permuted fed by the pointer
   permutation loop of sp_colorder) preserve the matrix -/
import SluVerif.Proofs.BlasGemv
set_option linter.unusedSectionVars false
set_option linter.unusedSimpArgs false
namespace Slu.Blas
open Finset
variable {α : Type}

theorem rdN_eq_rd (a : Array Nat) (i : Nat) : rdN a i = rd a i := rfl

/-- element-copy loop `dst[i] = f i` for `i < n` -/
theorem rd_copy_loop [Zero α] (f : Nat → α) (v : Array α) (n : Nat) (hn : n ≤ v.size) :
    ((List.range n).foldl (fun v i => wr v i (f i)) v).size = v.size ∧
    (∀ k < n, rd ((List.range n).foldl (fun v i => wr v i (f i)) v) k = f k) ∧
    (∀ k, n ≤ k → rd ((List.range n).foldl (fun v i => wr v i (f i)) v) k = rd v k) := by
  obtain ⟨a, b, c⟩ := rd_foldl_map (fun i => i) (fun i _ => f i) v n (fun k hk => by omega) (fun i _ j _ e => e)
  exact ⟨c, a, fun k hk => b k (fun i hi => by omega)⟩

/-- the dense matrix an `NCPformat` view denotes (column `j` = extent `[colbeg j, colend j)`) -/
def NCPMat.dense [CommRing α] (V : NCPMat α) (i j : Nat) : α :=
  ∑ k ∈ range (rdN V.colend j - rdN V.colbeg j),
    if rdN V.rowind (rdN V.colbeg j + k) = i then rd V.nzval (rdN V.colbeg j + k) else 0

section Ring
variable [CommRing α]

/-- **copy**: header fields and the first `nnz` / `ncol+1` cells of B's own arrays become A's; the
rest of B's storage is untouched; the copy denotes the same dense matrix. -/
theorem copyCompCol_spec (A B : NCMat α) (n : Nat) (hn : A.ncol = (n : Int))
    (hv : A.nnz ≤ B.nzval.size) (hr : A.nnz ≤ B.rowind.size) (hc : n + 1 ≤ B.colptr.size)
    (hext : ∀ j < n, A.cp (j + 1) ≤ A.nnz) :
    (copyCompCol A B).nrow = A.nrow ∧ (copyCompCol A B).ncol = A.ncol ∧ (copyCompCol A B).nnz = A.nnz ∧
    (copyCompCol A B).nzval.size = B.nzval.size ∧ (copyCompCol A B).rowind.size = B.rowind.size ∧
    (copyCompCol A B).colptr.size = B.colptr.size ∧
    (∀ k < A.nnz, (copyCompCol A B).nz k = A.nz k ∧ (copyCompCol A B).ri k = A.ri k) ∧
    (∀ k, A.nnz ≤ k → (copyCompCol A B).nz k = B.nz k ∧ (copyCompCol A B).ri k = B.ri k) ∧
    (∀ j ≤ n, (copyCompCol A B).cp j = A.cp j) ∧ (∀ j, n < j → (copyCompCol A B).cp j = B.cp j) ∧
    (∀ i, ∀ j < n, (copyCompCol A B).dense i j = A.dense i j) := by
  have hN : A.ncol.toNat = n := by rw [hn]; exact Int.toNat_natCast n
  obtain ⟨v1, v2, v3⟩ := rd_copy_loop (fun i => rd A.nzval i) B.nzval A.nnz hv
  obtain ⟨r1, r2, r3⟩ := rd_copy_loop (fun i => rdN A.rowind i) B.rowind A.nnz hr
  obtain ⟨c1, c2, c3⟩ := rd_copy_loop (fun i => rdN A.colptr i) B.colptr (n + 1) hc
  have hnz : ∀ k < A.nnz, (copyCompCol A B).nz k = A.nz k := fun k hk => v2 k hk
  have hri : ∀ k < A.nnz, (copyCompCol A B).ri k = A.ri k := fun k hk => r2 k hk
  have hcp : ∀ j ≤ n, (copyCompCol A B).cp j = A.cp j := by
    intro j hj
    show rdN ((List.range (A.ncol.toNat + 1)).foldl _ B.colptr) j = _
    rw [hN]; exact c2 j (by omega)
  refine ⟨rfl, rfl, rfl, v1, r1, ?_, fun k hk => ⟨hnz k hk, hri k hk⟩, fun k hk => ⟨v3 k hk, r3 k hk⟩, hcp, ?_, ?_⟩
  · show ((List.range (A.ncol.toNat + 1)).foldl _ B.colptr).size = _
    rw [hN]; exact c1
  · intro j hj
    show rdN ((List.range (A.ncol.toNat + 1)).foldl _ B.colptr) j = _
    rw [hN]; exact c3 j (by omega)
  · intro i j hj
    unfold NCMat.dense NCMat.clen
    rw [hcp j (by omega), hcp (j + 1) (by omega)]
    apply sum_congr rfl
    intro k hk
    have hlt : A.cp j + k < A.nnz := by
      have := hext j hj; have := mem_range.mp hk; omega
    rw [hnz _ hlt, hri _ hlt]

/-- components of a loop over a pair whose body acts componentwise -/
theorem foldl_pair {σ τ : Type} (f : σ → Nat → σ) (g : τ → Nat → τ) (a : σ) (b : τ) (n : Nat) :
    (List.range n).foldl (fun (st : σ × τ) i => (f st.1 i, g st.2 i)) (a, b)
      = ((List.range n).foldl f a, (List.range n).foldl g b) := by
  induction n with
  | zero => simp
  | succ n ih => simp only [foldl_range_succ, ih]

/-- **permuted view**: with `perm_c` injective into `[0, n)`, column `perm_c[j]` of the `NCPformat` view
built by `colbeg[perm_c[i]] = colptr[i]; colend[perm_c[i]] = colptr[i+1]` is column `j` of `A`
(the view is `A·Pc`), and the view shares `A`'s value and index arrays. -/
theorem permutedView_spec_full (A : NCMat α) (permc : Array Nat) (n : Nat) (hn : A.ncol = (n : Int))
    (hlt : ∀ i < n, rdN permc i < n)
    (hinj : ∀ i < n, ∀ j < n, rdN permc i = rdN permc j → i = j) :
    (permutedView A permc).nrow = A.nrow ∧ (permutedView A permc).ncol = A.ncol ∧
    (permutedView A permc).nnz = A.nnz ∧ (permutedView A permc).nzval = A.nzval ∧
    (permutedView A permc).rowind = A.rowind ∧
    (∀ j < n, rdN (permutedView A permc).colbeg (rdN permc j) = A.cp j ∧
              rdN (permutedView A permc).colend (rdN permc j) = A.cp (j + 1)) ∧
    (∀ i, ∀ j < n, (permutedView A permc).dense i (rdN permc j) = A.dense i j) := by
  have hN : A.ncol.toNat = n := by rw [hn]; exact Int.toNat_natCast n
  have hptr : ∀ j < n, rdN (permutedView A permc).colbeg (rdN permc j) = A.cp j ∧
              rdN (permutedView A permc).colend (rdN permc j) = A.cp (j + 1) := by
    intro j hj
    unfold permutedView permutePtrs createCompColPermuted
    simp only [hN]
    rw [foldl_pair (fun cb i => wr cb (rdN permc i) (rdN A.colptr i)) (fun ce i => wr ce (rdN permc i) (rdN A.colptr (i + 1)))]
    obtain ⟨a1, -, -⟩ := rd_foldl_map (fun i => rdN permc i) (fun i _ => rdN A.colptr i) (Array.replicate n 0) n
      (by intro k hk; simpa using hlt k hk) hinj
    obtain ⟨b1, -, -⟩ := rd_foldl_map (fun i => rdN permc i) (fun i _ => rdN A.colptr (i + 1)) (Array.replicate n 0) n
      (by intro k hk; simpa using hlt k hk) hinj
    exact ⟨a1 j hj, b1 j hj⟩
  refine ⟨rfl, rfl, rfl, rfl, rfl, hptr, ?_⟩
  intro i j hj
  unfold NCPMat.dense
  rw [(hptr j hj).1, (hptr j hj).2]
  rfl

end Ring

/-- non-vacuity / concrete evaluation -/
example : permutePtrs 3 #[2, 0, 1] #[0, 2, 2, 3] = (#[2, 2, 0], #[2, 3, 2]) := by decide
example : (copyCompCol (α := Int) { nrow := 2, ncol := 3, nnz := 3, colptr := #[0, 2, 2, 3], rowind := #[0, 1, 1], nzval := #[1, 2, 3] }
    { nrow := -1, ncol := -1, nnz := 0, colptr := #[9, 9, 9, 9, 9], rowind := #[8, 8, 8, 8], nzval := #[7, 7, 7, 7] }).nzval = #[1, 2, 3, 7] := by decide

end Slu.Blas
