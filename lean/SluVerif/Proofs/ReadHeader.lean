/- C20 helper lemmas: header cards of HB / RB files. -/
import SluVerif.Proofs.ReadDec
namespace Slu.Read

/-! ### widths -/

theorem natDigits_length_le : ∀ (n k : Nat), 0 < n → k < 10 ^ n → (natDigits k).length ≤ n := by
  intro n
  induction n with
  | zero => intro k h; omega
  | succ n ih =>
    intro k _ hk
    rw [natDigits]
    split
    · simp
    · rename_i h10
      have hn : 0 < n := by
        rcases Nat.eq_zero_or_pos n with h0 | h0
        · subst h0; simp at hk; omega
        · exact h0
      have : k / 10 < 10 ^ n := by
        rw [Nat.pow_succ] at hk
        exact Nat.div_lt_of_lt_mul (by rw [Nat.mul_comm]; exact hk)
      have := ih (k / 10) hn this
      simp; omega

theorem fmtInt_length {w k : Nat} (h : (natDigits k).length ≤ w) : (fmtInt w k).length = w :=
  padLeft_length h

theorem fmtInt14_length {k : Nat} (h : k < 2147483648) : (fmtInt 14 k).length = 14 :=
  fmtInt_length (Nat.le_trans (natDigits_length_le 10 k (by decide) (by omega)) (by decide))

theorem fmtInt13_length {k : Nat} (h : k < 2147483648) : (fmtInt 13 k).length = 13 :=
  fmtInt_length (Nat.le_trans (natDigits_length_le 10 k (by decide) (by omega)) (by decide))

theorem x13_length {k : Nat} (h : k < 2147483648) : (x13 k).length = 14 := by
  simp [x13, fmtInt13_length h]

theorem atoiC_fmtInt' (w : Nat) {k : Nat} (hk : k < 2147483648) : atoiC (fmtInt w k) = some (k : Int) := by
  have := atoiC_fmtInt w hk (rest := []) trivial
  simpa using this

theorem atoiC_x13 {k : Nat} (hk : k < 2147483648) : atoiC (x13 k) = some (k : Int) := by
  have h := atoiZ_digits (p := 13 - (natDigits k).length + 1) (natDigits_allDig k) (natDigits_ne_nil k) (rest := []) trivial
  have e : x13 k = blanks (13 - (natDigits k).length + 1) ++ (natDigits k ++ []) := by
    simp [x13, fmtInt, padLeft, blanks, List.replicate_succ]
  rw [valOf_natDigits] at h
  unfold atoiC
  rw [e, h]; simp [inInt32_ofNat hk]

/-! ### header cards -/

theorem take14s_cons {f : Str} {v : Int} {k : Nat} {s r : Str} {vs : List Int}
    (hl : f.length = 14) (hv : atoiC f = some v) (h : take14s k s = some (vs, r)) :
    take14s (k + 1) (f ++ s) = some (v :: vs, r) := by
  simp [take14s, takeN_append s hl, hv, h]

theorem take14s_zero (s : Str) : take14s 0 s = some ([], s) := rfl

theorem hbLine1_card (title key trail rest : Str) (ht : title.length = 72) (hk : key.length = 8) (hn : NoNL trail) :
    hbLine1 (title ++ (key ++ (trail ++ '\n' :: rest))) = some (title, rest) := by
  simp [hbLine1, takeN_append _ ht, takeN_append _ hk, dumpLine_line _ _ hn]

theorem cardInts5 {f1 f2 f3 f4 f5 : Str} {v1 v2 v3 v4 v5 : Int} (trail rest : Str) (hn : NoNL trail)
    (h1 : f1.length = 14 ∧ atoiC f1 = some v1) (h2 : f2.length = 14 ∧ atoiC f2 = some v2)
    (h3 : f3.length = 14 ∧ atoiC f3 = some v3) (h4 : f4.length = 14 ∧ atoiC f4 = some v4)
    (h5 : f5.length = 14 ∧ atoiC f5 = some v5) :
    cardInts 5 (f1 ++ (f2 ++ (f3 ++ (f4 ++ (f5 ++ (trail ++ '\n' :: rest)))))) = some ([v1, v2, v3, v4, v5], rest) := by
  have := take14s_cons h1.1 h1.2 (take14s_cons h2.1 h2.2 (take14s_cons h3.1 h3.2 (take14s_cons h4.1 h4.2
    (take14s_cons h5.1 h5.2 (take14s_zero (trail ++ '\n' :: rest))))))
  simp [cardInts, this, dumpLine_line _ _ hn]

theorem cardInts4 {f1 f2 f3 f4 : Str} {v1 v2 v3 v4 : Int} (trail rest : Str) (hn : NoNL trail)
    (h1 : f1.length = 14 ∧ atoiC f1 = some v1) (h2 : f2.length = 14 ∧ atoiC f2 = some v2)
    (h3 : f3.length = 14 ∧ atoiC f3 = some v3) (h4 : f4.length = 14 ∧ atoiC f4 = some v4) :
    cardInts 4 (f1 ++ (f2 ++ (f3 ++ (f4 ++ (trail ++ '\n' :: rest))))) = some ([v1, v2, v3, v4], rest) := by
  have := take14s_cons h1.1 h1.2 (take14s_cons h2.1 h2.2 (take14s_cons h3.1 h3.2 (take14s_cons h4.1 h4.2
    (take14s_zero (trail ++ '\n' :: rest)))))
  simp [cardInts, this, dumpLine_line _ _ hn]

theorem line3_card {ty pad f1 f2 f3 f4 : Str} {v1 v2 v3 v4 : Int} (trail rest : Str) (hn : NoNL trail)
    (hty : ty.length = 3) (hpad : pad.length = 11)
    (h1 : f1.length = 14 ∧ atoiC f1 = some v1) (h2 : f2.length = 14 ∧ atoiC f2 = some v2)
    (h3 : f3.length = 14 ∧ atoiC f3 = some v3) (h4 : f4.length = 14 ∧ atoiC f4 = some v4) :
    line3 (ty ++ (pad ++ (f1 ++ (f2 ++ (f3 ++ (f4 ++ (trail ++ '\n' :: rest))))))) = some ([v1, v2, v3, v4], rest) := by
  simp [line3, takeN_append _ hty, takeN_append _ hpad, cardInts4 trail rest hn h1 h2 h3 h4]

theorem padRight_length {w : Nat} {s : Str} (h : s.length ≤ w) : (padRight w s).length = w := by
  simp [padRight, blanks]; omega

def IntDesc.WF (d : IntDesc) : Prop :=
  (∀ x ∈ d.pre, (x == '(') = false) ∧ isI d.letter = true ∧ d.n < 2147483648 ∧ d.w < 2147483648 ∧ d.text.length ≤ 16

theorem hbLine4_card (title : Str) (pd rd : IntDesc) (vd : RealDesc) (rhsfmt trail rest : Str)
    (hp : pd.WF) (hr : rd.WF) (hv : vd.WF) (hvl : vd.text.length ≤ 20) (hrl : rhsfmt.length = 20) (hn : NoNL trail) :
    hbLine4 title (padRight 16 pd.text ++ (padRight 16 rd.text ++ (padRight 20 vd.text ++ (rhsfmt ++ (trail ++ '\n' :: rest))))) =
      some ((((pd.n : Int), (pd.w : Int)), ((rd.n : Int), (rd.w : Int)), ((vd.n : Int), (vd.w : Int))), rest) := by
  have e1 : parseIntFormat (padRight 16 pd.text ++ title.drop 16) = some ((pd.n : Int), (pd.w : Int)) := by
    rw [padRight, List.append_assoc]; exact parseIntFormat_text pd _ hp.1 hp.2.1 hp.2.2.1 hp.2.2.2.1
  have e2 : parseIntFormat (padRight 16 rd.text ++ title.drop 16) = some ((rd.n : Int), (rd.w : Int)) := by
    rw [padRight, List.append_assoc]; exact parseIntFormat_text rd _ hr.1 hr.2.1 hr.2.2.1 hr.2.2.2.1
  have e3 : parseFloatFormat (padRight 20 vd.text ++ title.drop 20) = some ((vd.n : Int), (vd.w : Int)) := by
    rw [padRight, List.append_assoc]; exact parseFloatFormat_text vd _ hv
  simp [hbLine4, takeN_append _ (padRight_length hp.2.2.2.2), takeN_append _ (padRight_length hr.2.2.2.2),
    takeN_append _ (padRight_length hvl), takeN_append _ hrl, e1, e2, e3, dumpLine_line _ _ hn]

end Slu.Read
