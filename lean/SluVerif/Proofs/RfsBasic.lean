/- helper lemmas for Props/C13: linearity of the sparse operator, vector congruence, the refinement loop -/
import SluVerif.Model.Rfs
import SluVerif.Proofs.GrowthBasic

namespace Slu
open Finset

theorem rmk_congr {n : Nat} {f g : Nat → Rat} (h : ∀ i, i < n → f i = g i) : rmk n f = rmk n g := by
  unfold rmk
  congr 1
  funext i
  exact h i.val i.isLt

theorem foldl_add_eq (l : List (Nat × Rat)) (g : Nat × Rat → Rat) (a : Rat) :
    l.foldl (fun s e => s + g e) a = a + (l.map g).sum := by
  induction l generalizing a with
  | nil => simp
  | cons e t ih => simp only [List.foldl_cons, List.map_cons, List.sum_cons]; rw [ih]; ring

theorem colFold_eq (A : NCMat) (j : Nat) (g : Nat × Rat → Rat) (a : Rat) :
    colFold A j g a = a + ((A.col j).map g).sum := foldl_add_eq _ _ _

theorem sum_map_add (l : List (Nat × Rat)) (g h : Nat × Rat → Rat) :
    (l.map fun e => g e + h e).sum = (l.map g).sum + (l.map h).sum := by
  induction l with
  | nil => simp
  | cons e t ih => simp only [List.map_cons, List.sum_cons]; rw [ih]; ring

theorem sum_map_congr (l : List (Nat × Rat)) (g h : Nat × Rat → Rat) (hh : ∀ e ∈ l, g e = h e) :
    (l.map g).sum = (l.map h).sum := by
  induction l with
  | nil => simp
  | cons e t ih =>
    simp only [List.map_cons, List.sum_cons]
    rw [hh e (by simp), ih (fun e' he' => hh e' (by simp [he']))]

/-- outer fold over the columns as a `Finset` sum of the inner sums -/
theorem foldl_range_colFold (A : NCMat) (m : Nat) (g : Nat → Nat × Rat → Rat) :
    (List.range m).foldl (fun s j => colFold A j (g j) s) 0 = ∑ j ∈ range m, ((A.col j).map (g j)).sum := by
  induction m with
  | zero => simp
  | succ k ih =>
    rw [List.range_succ, List.foldl_append, ih, Finset.sum_range_succ]
    simp [colFold_eq]

/-- rows stored in the matrix are in range -/
def NCMat.rowsOk (A : NCMat) : Prop := ∀ j, j < A.ncol → ∀ e ∈ A.col j, e.1 < A.nrow

theorem rget_vadd {n : Nat} (x d : RVec) {i : Nat} (h : i < n) : rget (vadd n x d) i = rget x i + rget d i := by
  unfold vadd; rw [rget_rmk_lt _ h]

/-- `op(A)(x + d) = op(A)x + op(A)d` for square, well-formed `A` -/
theorem opMul_vadd (notran : Bool) (A : NCMat) (hsq : A.ncol = A.nrow) (hrows : A.rowsOk) (x d : RVec) (i : Nat) (hi : i < A.nrow) :
    opMul notran A (vadd A.nrow x d) i = opMul notran A x i + opMul notran A d i := by
  unfold opMul
  cases notran
  · -- transposed: dot product of column i with the vector
    simp only [Bool.false_eq_true, if_false]
    rw [colFold_eq, colFold_eq, colFold_eq, zero_add, zero_add, zero_add, ← sum_map_add]
    apply sum_map_congr
    intro e he
    rw [rget_vadd x d (hrows i (by omega) e he)]; ring
  · simp only [if_true]
    rw [foldl_range_colFold, foldl_range_colFold, foldl_range_colFold, ← Finset.sum_add_distrib]
    apply Finset.sum_congr rfl
    intro j hj
    rw [← sum_map_add]
    apply sum_map_congr
    intro e _
    have hj' : j < A.nrow := by rw [← hsq]; exact mem_range.mp hj
    rw [rget_vadd x d hj']
    split <;> ring

end Slu
