/- est ≤ ‖M‖₁ : every candidate of the estimator is ‖M x‖₁ with ‖x‖₁ ≤ 1 -/
import SluVerif.Proofs.LaconBasic
import SluVerif.Proofs.LaconTerm

namespace Slu
open Finset

/-- 1-norm of the probe vector pending in state `st` (`3n/2` for the alternating vector, else 1) -/
def laconW (n : Nat) (st : LaconSt) : Rat := if st.jump = 5 then 3 * (n : Rat) / 2 else 1

/-- what a call may assume: `est ≤ c`, and a reply to a `kase = 1` request has `‖x‖₁ ≤ c·w` -/
def UpEntry (n : Nat) (c : Rat) (st : LaconSt) (io : LaconIO) : Prop :=
  io.est ≤ c ∧ (st.jump ≠ 2 → st.jump ≠ 4 → asum n io.x ≤ c * laconW n st)

theorem asum_altVec_le (n : Nat) (hn : 1 ≤ n) : asum n (altVec n) ≤ 3 * (n : Rat) / 2 := by
  rcases Nat.lt_or_ge n 2 with h | h
  · have : n = 1 := by omega
    subst this
    unfold altVec; rw [asum_rmk]; simp; norm_num
  · exact le_of_eq (asum_altVec n h)

theorem asum_one (x : RVec) : asum 1 x = rabs (rget x 0) := by
  unfold asum rsum; simp

theorem laconCall_upper (n : Nat) (hn : 1 ≤ n) (c : Rat) (st : LaconSt) (io : LaconIO)
    (h : (io.kase = 0 ∧ io.est ≤ c) ∨ (io.kase ≠ 0 ∧ UpEntry n c st io)) :
    (laconCall n st io).2.est ≤ c ∧
    ((laconCall n st io).2.kase ≠ 0 →
      ((laconCall n st io).2.kase = 1 → asum n (laconCall n st io).2.x ≤ laconW n (laconCall n st io).1
          ∧ (laconCall n st io).1.jump ≠ 2 ∧ (laconCall n st io).1.jump ≠ 4)) := by
  have hnq : (0 : Rat) < n := by exact_mod_cast hn
  unfold laconCall
  by_cases hk : io.kase = 0
  · have he : io.est ≤ c := by rcases h with h | h; exact h.2; exact absurd hk h.1
    simp only [hk, if_true]
    refine ⟨he, fun _ _ => ⟨?_, by simp, by simp⟩⟩
    simp only [laconW]; rw [asum_const n hn]; simp
  · have hE : UpEntry n c st io := by rcases h with h | h; exact absurd h.1 hk; exact h.2
    obtain ⟨he, hx⟩ := hE
    simp only [hk, if_false]
    split
    · -- jump 2
      simp only [l50]
      refine ⟨he, fun _ _ => ⟨?_, by simp, by simp⟩⟩
      simp only [laconW]; simpa using asum_unitVec_le n _
    · -- jump 3
      rename_i hj
      have hx' : asum n io.x ≤ c := by
        have := hx (by omega) (by omega); simpa [laconW, hj] using this
      have halt : asum n (altVec n) ≤ laconW n { st with jump := 5, estold := io.est } := by
        simpa [laconW] using asum_altVec_le n hn
      split
      · simp only [l120]; exact ⟨hx', fun _ _ => ⟨by simpa [laconW] using asum_altVec_le n hn, by simp, by simp⟩⟩
      · split
        · simp only [l120]; exact ⟨hx', fun _ _ => ⟨by simpa [laconW] using asum_altVec_le n hn, by simp, by simp⟩⟩
        · exact ⟨hx', fun _ h1 => by simp at h1⟩
    · -- jump 4
      split
      · simp only [l50]
        refine ⟨he, fun _ _ => ⟨?_, by simp, by simp⟩⟩
        simp only [laconW]; simpa using asum_unitVec_le n _
      · simp only [l120]; exact ⟨he, fun _ _ => ⟨by simpa [laconW] using asum_altVec_le n hn, by simp, by simp⟩⟩
    · -- jump 5
      rename_i hj
      have hx' : asum n io.x ≤ c * (3 * (n : Rat) / 2) := by
        have := hx (by omega) (by omega); simpa [laconW, hj] using this
      split
      · simp only [l150]
        refine ⟨?_, fun h0 => absurd rfl h0⟩
        have h3 : ((((n * 3 : Nat) : Int)) : Rat) = 3 * (n : Rat) := by push_cast; ring
        rw [h3]
        rw [div_mul_eq_mul_div, div_le_iff₀ (by positivity)]
        linarith
      · simp only [l150]; exact ⟨he, fun h0 => absurd rfl h0⟩
    · -- jump 1 / default
      rename_i h2 h3 h4 h5
      have hx' : asum n io.x ≤ c := by
        have := hx (by intro h; exact h2 h) (by intro h; exact h4 h)
        have hw : laconW n st = 1 := by unfold laconW; rw [if_neg (by intro h; exact h5 h)]
        rw [hw, mul_one] at this; exact this
      split
      · rename_i h1
        subst h1
        simp only [l150]
        refine ⟨?_, fun h0 => absurd rfl h0⟩
        rw [← asum_one]; exact hx'
      · exact ⟨hx', fun _ h1 => by simp at h1⟩

/-- a request is `kase = 1`, or `kase = 2` with the static state at label 2 or 4 -/
theorem laconCall_kase (n : Nat) (st : LaconSt) (io : LaconIO) :
    (laconCall n st io).2.kase = 0 ∨ (laconCall n st io).2.kase = 1 ∨
      ((laconCall n st io).1.jump = 2 ∨ (laconCall n st io).1.jump = 4) := by
  unfold laconCall l50 l120 l150
  repeat' split
  all_goals first | (simp; done) | (simp only []; split <;> simp)

/-- loop invariant for the upper bound; `apply` is the real operator, `applyT` is arbitrary -/
theorem laconLoop_upper (n : Nat) (hn : 1 ≤ n) (M : Nat → Nat → Rat) (applyT : RVec → RVec) (c : Rat)
    (hc : ∀ j, j < n → colAbsSum n M j ≤ c) :
    ∀ (fuel : Nat) (st : LaconSt) (io : LaconIO) (k : Nat),
      ((io.kase = 0 ∧ io.est ≤ c) ∨ (io.kase ≠ 0 ∧ UpEntry n c st io)) →
      (laconLoop n (matVec n M) applyT fuel st io k).io.est ≤ c := by
  have hc0 : 0 ≤ c := le_trans (colAbsSum_nonneg n M 0) (hc 0 hn)
  intro fuel
  induction fuel with
  | zero =>
    intro st io k h
    simp only [laconLoop]
    rcases h with h | h
    · exact h.2
    · exact h.2.1
  | succ f ih =>
    intro st io k h
    have hs := laconCall_upper n hn c st io h
    rw [laconLoop_succ]
    by_cases h0 : (laconCall n st io).2.kase = 0
    · rw [if_pos h0]; exact hs.1
    · rw [if_neg h0]
      apply ih
      right
      refine ⟨by simpa [laconNextIO] using h0, ?_, ?_⟩
      · simpa [laconNextIO] using hs.1
      · intro hj2 hj4
        by_cases h1 : (laconCall n st io).2.kase = 1
        · have := (hs.2 h0 h1).1
          simp only [laconNextIO, h1, if_true]
          calc asum n (matVec n M (laconCall n st io).2.x) ≤ c * asum n (laconCall n st io).2.x :=
                asum_matVec_le n M _ c hc
            _ ≤ c * laconW n (laconCall n st io).1 := mul_le_mul_of_nonneg_left this hc0
        · rcases laconCall_kase n st io with h | h | h
          · exact absurd h h0
          · exact absurd h h1
          · rcases h with h | h
            · exact absurd h hj2
            · exact absurd h hj4

end Slu
