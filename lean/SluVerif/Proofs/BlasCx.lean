/- the complex pairs of Model/Blas.lean form a commutative ring whenever the components do, so every
   ring-generic theorem of C19 applies to the c/z twins' arithmetic (`zz_mult`, `z_add`, `z_sub`). -/
import SluVerif.Model.Blas
import Mathlib.Algebra.Ring.Defs
import Mathlib.Tactic.Ring
namespace Slu.Blas
namespace Cx
variable {β : Type}

@[ext] theorem ext {a b : Cx β} (hr : a.re = b.re) (hi : a.im = b.im) : a = b := by
  cases a; cases b; simp_all

section
variable [CommRing β]
@[simp] theorem zero_re : (0 : Cx β).re = 0 := rfl
@[simp] theorem zero_im : (0 : Cx β).im = 0 := rfl
@[simp] theorem one_re : (1 : Cx β).re = 1 := rfl
@[simp] theorem one_im : (1 : Cx β).im = 0 := rfl
@[simp] theorem add_re (a b : Cx β) : (a + b).re = a.re + b.re := rfl
@[simp] theorem add_im (a b : Cx β) : (a + b).im = a.im + b.im := rfl
@[simp] theorem sub_re (a b : Cx β) : (a - b).re = a.re - b.re := rfl
@[simp] theorem sub_im (a b : Cx β) : (a - b).im = a.im - b.im := rfl
@[simp] theorem neg_re (a : Cx β) : (-a).re = -a.re := rfl
@[simp] theorem neg_im (a : Cx β) : (-a).im = -a.im := rfl
@[simp] theorem mul_re (a b : Cx β) : (a * b).re = a.re * b.re - a.im * b.im := rfl
@[simp] theorem mul_im (a b : Cx β) : (a * b).im = a.im * b.re + a.re * b.im := rfl

instance instCommRing : CommRing (Cx β) where
  add := (· + ·)
  zero := 0
  neg := Neg.neg
  sub := (· - ·)
  mul := (· * ·)
  one := 1
  add_assoc a b c := by ext <;> simp <;> ring
  zero_add a := by ext <;> simp
  add_zero a := by ext <;> simp
  add_comm a b := by ext <;> simp <;> ring
  neg_add_cancel a := by ext <;> simp
  sub_eq_add_neg a b := by ext <;> simp <;> ring
  mul_assoc a b c := by ext <;> simp <;> ring
  one_mul a := by ext <;> simp
  mul_one a := by ext <;> simp
  left_distrib a b c := by ext <;> simp <;> ring
  right_distrib a b c := by ext <;> simp <;> ring
  mul_comm a b := by ext <;> simp <;> ring
  zero_mul a := by ext <;> simp
  mul_zero a := by ext <;> simp
  nsmul := nsmulRec
  zsmul := zsmulRec
end
end Cx
end Slu.Blas
