/-
System-level inductive invariant of the scheduler/worker model (Model/SchedSys.lean), for every
configuration that satisfies `InitOk`, every number of workers and every interleaving.
-/
import SluVerif.Proofs.SchedSysLemmas
import Batteries.Data.List.Perm

namespace Slu
open Slu.Gen
open Classical

/-! ### counting -/

noncomputable def cnt (l : List Nat) (P : Nat → Prop) : Nat := (l.filter (fun q => decide (P q))).length

theorem cnt_congr (l : List Nat) (P Q : Nat → Prop) (h : ∀ q ∈ l, (P q ↔ Q q)) : cnt l P = cnt l Q := by
  unfold cnt
  congr 1
  apply List.filter_congr
  intro q hq
  simp only [decide_eq_decide]
  exact h q hq

theorem cnt_remove_one (l : List Nat) (P Q : Nat → Prop) (a : Nat) (hnd : l.Nodup) (ha : a ∈ l)
    (hP : P a) (hQ : ¬ Q a) (h : ∀ q ∈ l, q ≠ a → (P q ↔ Q q)) : cnt l P = cnt l Q + 1 := by
  induction l with
  | nil => cases ha
  | cons x xs ih =>
    have hnd' := (List.nodup_cons.1 hnd)
    unfold cnt
    simp only [List.filter_cons]
    by_cases e : x = a
    · subst e
      simp only [hP, hQ, decide_true, decide_false, if_true, List.length_cons]
      have : cnt xs P = cnt xs Q := cnt_congr xs P Q (fun q hq => h q (List.mem_cons_of_mem _ hq) (fun heq => hnd'.1 (heq ▸ hq)))
      unfold cnt at this
      simp [this]
    · have hax : a ∈ xs := by
        rcases List.mem_cons.1 ha with h1 | h1
        · exact absurd h1.symm e
        · exact h1
      have ihx := ih hnd'.2 hax (fun q hq hne => h q (List.mem_cons_of_mem _ hq) hne)
      unfold cnt at ihx
      have hx := h x (List.mem_cons_self) e
      by_cases hp : P x
      · have hq := hx.1 hp
        simp only [hp, hq, decide_true, if_true, List.length_cons]
        omega
      · have hq : ¬ Q x := fun hq => hp (hx.2 hq)
        simp only [hp, hq, decide_false, if_false]
        exact ihx

theorem cnt_zero_iff (l : List Nat) (P : Nat → Prop) : cnt l P = 0 ↔ ∀ q ∈ l, ¬ P q := by
  unfold cnt
  rw [List.length_eq_zero_iff, List.filter_eq_nil_iff]
  simp

theorem cnt_pos_iff (l : List Nat) (P : Nat → Prop) : 0 < cnt l P ↔ ∃ q ∈ l, P q := by
  rw [Nat.pos_iff_ne_zero, Ne, cnt_zero_iff]
  push_neg
  rfl

theorem cnt_one_unique (l : List Nat) (P : Nat → Prop) (hnd : l.Nodup) (h1 : cnt l P = 1)
    (a : Nat) (ha : a ∈ l) (hP : P a) : ∀ q ∈ l, P q → q = a := by
  intro q hq hPq
  by_contra hne
  -- removing `a` leaves a count of 0, yet q still satisfies P
  have := cnt_remove_one l P (fun x => P x ∧ x ≠ a) a hnd ha hP (fun h => h.2 rfl)
    (fun x _ hx => ⟨fun hp => ⟨hp, hx⟩, fun hp => hp.1⟩)
  rw [h1] at this
  have h0 : cnt l (fun x => P x ∧ x ≠ a) = 0 := by omega
  exact (cnt_zero_iff _ _).1 h0 q hq ⟨hPq, hne⟩

/-! ### the invariant -/

def stt (s : Sys) (p : Nat) : Nat := getN s.sh.state p
def ukd (s : Sys) (d : Nat) : Int := getZ s.sh.ukids d
def hasCur (s : Sys) (q : Nat) : Prop := ∃ i, (wk s i).cur = some q
/-- panel `q` has not yet been reported to its parent: not finished, or finished but still held in some worker's `jcol` -/
def unrep (s : Sys) (q : Nat) : Prop := stt s q ≠ DONE ∨ hasCur s q
def isWorking (w : Worker) : Prop := ∃ p b, w.phase = .working p b

/-- the fixed panel structure of a run -/
structure Cfg where
  c : PanelCfg
  panels : List Nat
  dad : Nat → Nat

structure SysInv (K : Cfg) (s : Sys) : Prop where
  dad_eq : ∀ j, dadPanel K.c s.sh j = K.dad j
  ssz : s.sh.state.size = K.c.n + 1
  usz : s.sh.ukids.size = K.c.n + 1
  qok : QueueOk s.sh
  qpan : ∀ k, k < s.sh.tail → getN s.sh.queue k ∈ K.panels
  qstate : ∀ k, k < s.sh.tail → stt s (getN s.sh.queue k) ≠ UNREADY
  qnodup : (qlist s.sh).Nodup
  qsz : s.sh.queue.size = K.c.n
  own_w : ∀ i p b, (wk s i).phase = .working p b → (wk s i).cur = some p ∧ stt s p = BUSY ∧ p ∈ K.panels
  own_i : ∀ i q, (wk s i).cur = some q → ¬ isWorking (wk s i) → stt s q = DONE ∧ q ∈ K.panels
  own_u : ∀ i i' q, (wk s i).cur = some q → (wk s i').cur = some q → i = i'
  busy_owned : ∀ p ∈ K.panels, stt s p = BUSY → ∃ i b, (wk s i).phase = .working p b
  valid : ∀ p ∈ K.panels, stt s p ≤ UNREADY
  kids : ∀ d, (d ∈ K.panels ∨ d = K.c.n) → ukd s d = (cnt K.panels (fun q => K.dad q = d ∧ unrep s q) : Int)
  closed : ∀ d ∈ K.panels, stt s d ≠ UNREADY → ∀ q ∈ K.panels, K.dad q = d → stt s q ≤ BUSY
  tasks : s.sh.tasksRemain = (cnt K.panels (fun p => stt s p > BUSY) : Int)
  /-- some root panel is unreported and is not about to be reported by a worker sitting in the scheduler call -/
  root_left : ∃ r ∈ K.panels, K.dad r = K.c.n ∧ (stt s r ≠ DONE ∨ ∃ i, (wk s i).cur = some r ∧ (wk s i).phase ≠ .calling)

/-- static well-formedness of the panel structure -/
structure CfgWF (K : Cfg) : Prop where
  nodup : K.panels.Nodup
  lt : ∀ p ∈ K.panels, p < K.c.n
  dad_gt : ∀ p ∈ K.panels, p < K.dad p ∧ K.dad p ≤ K.c.n
  dad_pan : ∀ p ∈ K.panels, K.dad p < K.c.n → K.dad p ∈ K.panels


/-! ### consequences used in the preservation proofs -/

/-- an untaken panel has an untaken root above it -/
theorem untaken_root (K : Cfg) (W : CfgWF K) (s : Sys) (inv : SysInv K s) :
    ∀ m p, K.c.n - p ≤ m → p ∈ K.panels → stt s p > BUSY → ∃ r ∈ K.panels, K.dad r = K.c.n ∧ stt s r > BUSY := by
  intro m
  induction m with
  | zero =>
    intro p hm hp _
    have := W.lt p hp; omega
  | succ m ih =>
    intro p hm hp hst
    have hpn := W.lt p hp
    have hd := W.dad_gt p hp
    by_cases hroot : K.dad p = K.c.n
    · exact ⟨p, hp, hroot, hst⟩
    · have hdn : K.dad p < K.c.n := by omega
      have hdp := W.dad_pan p hp hdn
      have hdst : stt s (K.dad p) > BUSY := by
        by_contra hle
        have h1 : stt s (K.dad p) ≠ UNREADY := by simp only [UNREADY, BUSY] at *; omega
        have := inv.closed (K.dad p) hdp h1 p hp rfl
        simp only [BUSY] at *; omega
      exact ih (K.dad p) (by omega) hdp hdst

theorem exists_untaken_root (K : Cfg) (W : CfgWF K) (s : Sys) (inv : SysInv K s) (h : s.sh.tasksRemain > 0) :
    ∃ r ∈ K.panels, K.dad r = K.c.n ∧ stt s r > BUSY := by
  have hc : 0 < cnt K.panels (fun p => stt s p > BUSY) := by
    have := inv.tasks; omega
  obtain ⟨p, hp, hst⟩ := (cnt_pos_iff _ _).1 hc
  exact untaken_root K W s inv (K.c.n - p) p (le_refl _) hp hst

/-- hasCur / unrep only depend on the workers' `cur` fields and the states -/
theorem hasCur_congr (s s' : Sys) (h : ∀ i, (wk s' i).cur = (wk s i).cur) (q : Nat) : hasCur s' q ↔ hasCur s q := by
  unfold hasCur; constructor <;> intro ⟨i, hi⟩ <;> exact ⟨i, by rw [← hi]; first | exact h i | exact (h i).symm⟩

/-! ### preservation: the loop-head read -/

theorem sysInv_loop (K : Cfg) (W : CfgWF K) (s : Sys) (inv : SysInv K s) (w : Nat)
    (h : enabled K.c s (.loop w) = true) : SysInv K (step K.c s (.loop w)) := by
  obtain ⟨hsh, hsz, hph, hwk⟩ := step_loop K.c s w h
  have hcur : ∀ i, (wk (step K.c s (.loop w)) i).cur = (wk s i).cur := by
    intro i; rw [hwk i]; split
    · next e => subst e; rfl
    · rfl
  have hst : ∀ p, stt (step K.c s (.loop w)) p = stt s p := fun p => by unfold stt; rw [hsh]
  have hunrep : ∀ q, unrep (step K.c s (.loop w)) q ↔ unrep s q := by
    intro q; unfold unrep; rw [hst, hasCur_congr _ _ hcur]
  have hwork : ∀ i p b, (wk (step K.c s (.loop w)) i).phase = .working p b ↔ (wk s i).phase = .working p b := by
    intro i p b
    rw [hwk i]
    by_cases e : i = w
    · subst e
      simp only [if_true]
      rw [hph]
      constructor
      · intro hc; split at hc <;> cases hc
      · intro hc; cases hc
    · simp only [e, if_false]
  refine ⟨?_, ?_, ?_, ?_, ?_, ?_, ?_, ?_, ?_, ?_, ?_, ?_, ?_, ?_, ?_, ?_, ?_⟩
  · intro j; rw [hsh]; exact inv.dad_eq j
  · rw [hsh]; exact inv.ssz
  · rw [hsh]; exact inv.usz
  · rw [hsh]; exact inv.qok
  · rw [hsh]; exact inv.qpan
  · intro k hk; rw [hst, hsh]; rw [hsh] at hk; exact inv.qstate k hk
  · rw [hsh]; exact inv.qnodup
  · rw [hsh]; exact inv.qsz
  · intro i p b hp
    rw [hcur, hst]
    exact inv.own_w i p b ((hwork i p b).1 hp)
  · intro i q hq hnw
    rw [hcur] at hq; rw [hst]
    apply inv.own_i i q hq
    intro ⟨p, b, hpb⟩
    exact hnw ⟨p, b, (hwork i p b).2 hpb⟩
  · intro i i' q h1 h2
    rw [hcur] at h1 h2
    exact inv.own_u i i' q h1 h2
  · intro p hp hb
    rw [hst] at hb
    obtain ⟨i, b, hib⟩ := inv.busy_owned p hp hb
    exact ⟨i, b, (hwork i p b).2 hib⟩
  · intro p hp; rw [hst]; exact inv.valid p hp
  · intro d hd
    unfold ukd; rw [hsh]
    have := inv.kids d hd
    unfold ukd at this; rw [this]
    congr 1
    exact (cnt_congr _ _ _ (fun q _ => by rw [hunrep])).symm
  · intro d hd hne q hq hdq
    rw [hst] at hne ⊢
    exact inv.closed d hd hne q hq hdq
  · rw [hsh, inv.tasks]
    congr 1
    exact (cnt_congr _ _ _ (fun q _ => by rw [hst])).symm
  · -- root_left
    by_cases ht : s.sh.tasksRemain > 0
    · obtain ⟨r, hr, hdr, hsr⟩ := exists_untaken_root K W s inv ht
      refine ⟨r, hr, hdr, Or.inl ?_⟩
      rw [hst]; simp only [BUSY, DONE] at *; omega
    · obtain ⟨r, hr, hdr, hcase⟩ := inv.root_left
      refine ⟨r, hr, hdr, ?_⟩
      rcases hcase with h1 | ⟨i, hi1, hi2⟩
      · left; rw [hst]; exact h1
      · right
        refine ⟨i, by rw [hcur]; exact hi1, ?_⟩
        rw [hwk i]
        by_cases e : i = w
        · subst e
          simp only [if_true, ht, if_false]
          intro hc; cases hc
        · simp only [e, if_false]; exact hi2


/-! ### preservation: a worker finishes its panel -/

theorem finishPanel_state (sh : Sh) (p : Nat) : (finishPanel sh p).state = sh.state.setIfInBounds p DONE := rfl
theorem finishPanel_ukids (sh : Sh) (p : Nat) : (finishPanel sh p).ukids = sh.ukids := rfl
theorem finishPanel_size (sh : Sh) (p : Nat) : (finishPanel sh p).size = sh.size := rfl
theorem finishPanel_tasks (sh : Sh) (p : Nat) : (finishPanel sh p).tasksRemain = sh.tasksRemain := rfl
theorem finishPanel_queue (sh : Sh) (p : Nat) :
    (finishPanel sh p).queue = sh.queue ∧ (finishPanel sh p).head = sh.head ∧ (finishPanel sh p).tail = sh.tail ∧
    (finishPanel sh p).count = sh.count := ⟨rfl, rfl, rfl, rfl⟩

theorem sysInv_finish (K : Cfg) (W : CfgWF K) (s : Sys) (inv : SysInv K s) (w : Nat)
    (h : enabled K.c s (.finish w) = true) : SysInv K (step K.c s (.finish w)) := by
  obtain ⟨p, b, hph, _, hsh, hsz, hwk⟩ := step_finish K.c s w h
  obtain ⟨hcw, hbusy, hpp⟩ := inv.own_w w p b hph
  have hpn : p < K.c.n := W.lt p hpp
  have hcur : ∀ i, (wk (step K.c s (.finish w)) i).cur = (wk s i).cur := by
    intro i; rw [hwk i]; split
    · next e => subst e; rfl
    · rfl
  have hst : ∀ x, stt (step K.c s (.finish w)) x = if x = p then DONE else stt s x := by
    intro x; unfold stt; rw [hsh, finishPanel_state, getN_set _ _ _ _ (by rw [inv.ssz]; omega)]
  have hunrep : ∀ q, unrep (step K.c s (.finish w)) q ↔ unrep s q := by
    intro q; unfold unrep; rw [hst, hasCur_congr _ _ hcur]
    by_cases e : q = p
    · subst e
      simp only [if_true, ne_eq, not_true_eq_false, false_or]
      constructor
      · intro hc; exact Or.inr hc
      · intro _; exact ⟨w, hcw⟩
    · simp only [e, if_false]
  have hwork : ∀ i p' b', (wk (step K.c s (.finish w)) i).phase = .working p' b' ↔ (i ≠ w ∧ (wk s i).phase = .working p' b') := by
    intro i p' b'
    rw [hwk i]
    by_cases e : i = w
    · subst e
      simp only [if_true, ne_eq, not_true_eq_false, false_and, iff_false]
      intro hc; cases hc
    · simp only [e, if_false, ne_eq, not_false_eq_true, true_and]
  refine ⟨?_, ?_, ?_, ?_, ?_, ?_, ?_, ?_, ?_, ?_, ?_, ?_, ?_, ?_, ?_, ?_, ?_⟩
  · intro j; rw [hsh]; rw [dadPanel_congr K.c _ s.sh (finishPanel_size _ _)]; exact inv.dad_eq j
  · rw [hsh, finishPanel_state]; simp [inv.ssz]
  · rw [hsh, finishPanel_ukids]; exact inv.usz
  · rw [hsh]; exact inv.qok
  · rw [hsh]; exact inv.qpan
  · intro k hk
    rw [hsh] at hk
    have hk' : k < s.sh.tail := hk
    rw [hst]
    have e1 : getN (step K.c s (.finish w)).sh.queue k = getN s.sh.queue k := by rw [hsh]; rfl
    rw [e1]
    split
    · simp [DONE, UNREADY]
    · exact inv.qstate k hk'
  · rw [hsh]; exact inv.qnodup
  · rw [hsh]; exact inv.qsz
  · intro i p' b' hp'
    obtain ⟨hne, hp''⟩ := (hwork i p' b').1 hp'
    obtain ⟨c1, c2, c3⟩ := inv.own_w i p' b' hp''
    refine ⟨by rw [hcur]; exact c1, ?_, c3⟩
    rw [hst]
    have : p' ≠ p := by
      intro e; subst e
      exact hne (inv.own_u i w p' c1 hcw)
    rw [if_neg this]; exact c2
  · intro i q hq hnw
    rw [hcur] at hq
    rw [hst]
    by_cases e : q = p
    · subst e; rw [if_pos rfl]; exact ⟨rfl, hpp⟩
    · rw [if_neg e]
      apply inv.own_i i q hq
      intro ⟨p', b', hpb⟩
      by_cases ew : i = w
      · subst ew
        rw [hph] at hpb
        simp only [Phase.working.injEq] at hpb
        rw [hcw] at hq
        simp only [Option.some.injEq] at hq
        exact e hq.symm
      · exact hnw ⟨p', b', (hwork i p' b').2 ⟨ew, hpb⟩⟩
  · intro i i' q h1 h2
    rw [hcur] at h1 h2
    exact inv.own_u i i' q h1 h2
  · intro p' hp' hb
    rw [hst] at hb
    by_cases e : p' = p
    · rw [if_pos e] at hb; simp [DONE, BUSY] at hb
    · rw [if_neg e] at hb
      obtain ⟨i, b', hib⟩ := inv.busy_owned p' hp' hb
      refine ⟨i, b', (hwork i p' b').2 ⟨?_, hib⟩⟩
      intro ew; subst ew
      rw [hph] at hib
      simp only [Phase.working.injEq] at hib
      exact e hib.1.symm
  · intro p' hp'; rw [hst]; split
    · simp [DONE, UNREADY]
    · exact inv.valid p' hp'
  · intro d hd
    unfold ukd; rw [hsh, finishPanel_ukids]
    have := inv.kids d hd
    unfold ukd at this; rw [this]
    congr 1
    exact (cnt_congr _ _ _ (fun q _ => by rw [hunrep])).symm
  · intro d hd hne q hq hdq
    rw [hst] at hne ⊢
    by_cases eq : q = p
    · rw [if_pos eq]; simp [DONE, BUSY]
    · rw [if_neg eq]
      by_cases ed : d = p
      · subst ed
        exact inv.closed d hd (by rw [hbusy]; simp [BUSY, UNREADY]) q hq hdq
      · rw [if_neg ed] at hne
        exact inv.closed d hd hne q hq hdq
  · rw [hsh, finishPanel_tasks, inv.tasks]
    congr 1
    apply cnt_congr
    intro q _
    rw [hst]
    by_cases e : q = p
    · subst e; rw [if_pos rfl, hbusy]; simp [DONE, BUSY]
    · rw [if_neg e]
  · obtain ⟨r, hr, hdr, hcase⟩ := inv.root_left
    refine ⟨r, hr, hdr, ?_⟩
    by_cases e : r = p
    · subst e
      right
      refine ⟨w, by rw [hcur]; exact hcw, ?_⟩
      rw [hwk w, if_pos rfl]
      intro hc; cases hc
    · rcases hcase with h1 | ⟨i, hi1, hi2⟩
      · left; rw [hst, if_neg e]; exact h1
      · right
        refine ⟨i, by rw [hcur]; exact hi1, ?_⟩
        rw [hwk i]
        by_cases ew : i = w
        · subst ew
          simp only [if_true]
          intro hc; cases hc
        · simp only [ew, if_false]; exact hi2

end Slu
