/- one supernode of each of the four sweeps of sp_?trsv, in terms of the dense column block the
   supernode denotes (sum forms `snL`, `snU`, `ucolD`): the hypotheses `ha/hb` of `InvN_step` and
   `hc/hd` of `InvT_step`. -/
import SluVerif.Proofs.BlasTrsvKern
set_option linter.unusedSectionVars false
set_option linter.unusedSimpArgs false
namespace Slu.Blas
open Finset

/-- what the sweeps need to know about one supernode (consequences of `Snode.wf`) -/
structure SnOk (n : Nat) (s : Snode) : Prop where
  f_lt_e : s.f < s.e
  e_le : s.e ≤ n
  nc_le : nsupc s ≤ nsupr s
  own : ∀ t < nsupc s, srow s t = s.f + t
  out : ∀ t, nsupc s ≤ t → t < nsupr s → s.e ≤ srow s t ∧ srow s t < n

/-- rows of a U column lie strictly above the supernode's first column -/
def UcolOk (f : Nat) (c : UCol) : Prop := ∀ t < c.rows.size, urow c t < f

/-- L part of local column `jj` of the supernode, as a function of the global row `i` -/
def snL (one : Int) (s : Snode) (i jj : Nat) : Rat :=
  ∑ t ∈ range (nsupr s), if srow s t = i ∧ jj < t then sA one s t jj else 0
/-- U part (inside the rectangle) of local column `jj` -/
def snU (one : Int) (s : Snode) (i jj : Nat) : Rat :=
  ∑ t ∈ range (nsupr s), if srow s t = i ∧ t ≤ jj then sA one s t jj else 0
/-- a column of the NCP part of U as a function of the global row -/
def ucolD (one : Int) (c : UCol) (i : Nat) : Rat :=
  ∑ t ∈ range c.rows.size, if urow c t = i then uval one c t else 0

/-- columns `[s.f, s.e)` of the dense unit lower triangular factor -/
def MLs (one : Int) (s : Snode) (i j : Nat) : Rat := if i = j then 1 else snL one s i (j - s.f)
/-- columns `[s.f, s.e)` of the dense upper triangular factor -/
def MUs (one : Int) (U : NCP) (s : Snode) (i j : Nat) : Rat :=
  snU one s i (j - s.f) + ucolD one (U.cols.getD j default) i

theorem SnOk.nc_eq {n : Nat} {s : Snode} (h : SnOk n s) : s.f + nsupc s = s.e := by
  have := h.f_lt_e; unfold nsupc; omega

theorem snL_own {n : Nat} {one : Int} {s : Snode} (h : SnOk n s) (i' k : Nat) (hi : i' < nsupc s) :
    snL one s (s.f + i') k = if k < i' then sA one s i' k else 0 := by
  unfold snL
  have hnc := h.nc_eq
  rw [sum_eq_single i']
  · rw [h.own i' hi]
    by_cases hk : k < i'
    · rw [if_pos ⟨rfl, hk⟩, if_pos hk]
    · rw [if_neg (fun c => hk c.2), if_neg hk]
  · intro t ht hne
    have htr := mem_range.mp ht
    by_cases htc : t < nsupc s
    · rw [h.own t htc, if_neg (by omega)]
    · have := (h.out t (by omega) htr).1
      rw [if_neg (by omega)]
  · intro hn; exact absurd (mem_range.mpr (Nat.lt_of_lt_of_le hi h.nc_le)) hn

theorem snL_out {n : Nat} {one : Int} {s : Snode} (h : SnOk n s) (q k : Nat) (hq : q < s.f ∨ s.e ≤ q)
    (hk : k < nsupc s) :
    snL one s q k = ∑ i ∈ range (nsupr s - nsupc s),
      if srow s (nsupc s + i) = q then sA one s (nsupc s + i) k else 0 := by
  unfold snL
  have hnc := h.nc_eq
  have hsplit : nsupr s = nsupc s + (nsupr s - nsupc s) := by have := h.nc_le; omega
  rw [hsplit, sum_range_add]
  have hz : ∑ t ∈ range (nsupc s), (if srow s t = q ∧ k < t then sA one s t k else 0) = 0 := by
    apply sum_eq_zero
    intro t ht
    have := mem_range.mp ht
    rw [h.own t this, if_neg (by omega)]
  rw [hz, zero_add, ← hsplit]
  apply sum_congr rfl
  intro i _
  by_cases he : srow s (nsupc s + i) = q
  · rw [if_pos ⟨he, by omega⟩, if_pos he]
  · rw [if_neg (fun c => he c.1), if_neg he]

theorem snU_own {n : Nat} {one : Int} {s : Snode} (h : SnOk n s) (i' k : Nat) (hi : i' < nsupc s) (hk : k < nsupc s) :
    snU one s (s.f + i') k = if i' ≤ k then sA one s i' k else 0 := by
  unfold snU
  have hnc := h.nc_eq
  rw [sum_eq_single i']
  · rw [h.own i' hi]
    by_cases hik : i' ≤ k
    · rw [if_pos ⟨rfl, hik⟩, if_pos hik]
    · rw [if_neg (fun c => hik c.2), if_neg hik]
  · intro t ht hne
    have htr := mem_range.mp ht
    by_cases htc : t < nsupc s
    · rw [h.own t htc, if_neg (by omega)]
    · rw [if_neg (by omega)]
  · intro hn; exact absurd (mem_range.mpr (Nat.lt_of_lt_of_le hi h.nc_le)) hn

theorem snU_out {n : Nat} {one : Int} {s : Snode} (h : SnOk n s) (q k : Nat) (hq : q < s.f ∨ s.e ≤ q)
    (hk : k < nsupc s) : snU one s q k = 0 := by
  unfold snU
  have hnc := h.nc_eq
  apply sum_eq_zero
  intro t ht
  by_cases htc : t < nsupc s
  · rw [h.own t htc, if_neg (by omega)]
  · rw [if_neg (by omega)]

theorem ucolD_ge {one : Int} {f : Nat} {c : UCol} (h : UcolOk f c) (q : Nat) (hq : f ≤ q) : ucolD one c q = 0 := by
  unfold ucolD
  apply sum_eq_zero
  intro t ht
  have := h t (mem_range.mp ht)
  rw [if_neg (by omega)]

/-- block sum: the part of a sum over `range n` that lies in `[f, e)` -/
theorem sum_range_block (F : Nat → Rat) (f e n : Nat) (_hfe : f ≤ e) (hen : e ≤ n) :
    ∑ j ∈ range n, (if f ≤ j ∧ j < e then F j else 0) = ∑ k ∈ range (e - f), F (f + k) := by
  rw [← sum_filter, ← sum_Ico_eq_sum_range]
  apply sum_congr
  · ext j; simp only [mem_filter, mem_range, mem_Ico]; omega
  · intro _ _; rfl

theorem sum_Ico_block (F : Nat → Rat) (f e : Nat) :
    ∑ j ∈ Ico f e, F j = ∑ k ∈ range (e - f), F (f + k) := sum_Ico_eq_sum_range F f e


/-- from the block-level description of a column-oriented step to the hypotheses of `InvN_step` (L) -/
theorem coreLN_to_inv {n : Nat} {one : Int} {s : Snode} (h : SnOk n s) (x x' : Array Rat)
    (c1 : ∀ i' < nsupc s, ∑ k ∈ range (nsupc s), MbL (sA one s) i' k * rd x' (s.f + k) = rd x (s.f + i'))
    (c2 : ∀ q, (q < s.f ∨ s.e ≤ q) → rd x' q = rd x q - ∑ i ∈ range (nsupr s - nsupc s),
        if srow s (nsupc s + i) = q then ∑ k ∈ range (nsupc s), sA one s (nsupc s + i) k * rd x' (s.f + k) else 0) :
    (∀ i ∈ Ico s.f s.e, rd x i = ∑ j ∈ Ico s.f s.e, MLs one s i j * rd x' j) ∧
    (∀ i < n, i ∉ Ico s.f s.e → rd x' i = rd x i - ∑ j ∈ Ico s.f s.e, MLs one s i j * rd x' j) := by
  have hnc := h.nc_eq
  have hef : s.e - s.f = nsupc s := rfl
  refine ⟨?_, ?_⟩
  · intro i hi
    have hi' := mem_Ico.mp hi
    obtain ⟨i', rfl⟩ : ∃ i', i = s.f + i' := ⟨i - s.f, by omega⟩
    have hi'lt : i' < nsupc s := by omega
    rw [sum_Ico_block, hef, ← c1 i' hi'lt]
    apply sum_congr rfl
    intro k hk
    have hk' := mem_range.mp hk
    unfold MLs MbL
    have : s.f + k - s.f = k := by omega
    rw [this, snL_own h i' k hi'lt]
    split_ifs <;> first | rfl | (exfalso; omega)
  · intro q hq hqB
    have hq' : q < s.f ∨ s.e ≤ q := by
      by_contra hc; exact hqB (mem_Ico.mpr (by omega))
    rw [c2 q hq', sum_Ico_block, hef]
    congr 1
    have : ∀ k ∈ range (nsupc s), MLs one s q (s.f + k) * rd x' (s.f + k)
        = ∑ i ∈ range (nsupr s - nsupc s), if srow s (nsupc s + i) = q then sA one s (nsupc s + i) k * rd x' (s.f + k) else 0 := by
      intro k hk
      have hk' := mem_range.mp hk
      unfold MLs
      have e1 : s.f + k - s.f = k := by omega
      rw [if_neg (by omega), e1, snL_out h q k hq' hk', sum_mul]
      apply sum_congr rfl
      intro i _
      by_cases he : srow s (nsupc s + i) = q
      · rw [if_pos he, if_pos he]
      · rw [if_neg he, if_neg he, zero_mul]
    rw [sum_congr rfl this, sum_comm]
    apply sum_congr rfl
    intro i _
    by_cases he : srow s (nsupc s + i) = q
    · simp only [he, if_true]
    · simp only [he, if_false, sum_const_zero]

/-- **one supernode of "x := inv(L)*x"** -/
theorem stepLN_spec {n : Nat} (one : Int) {s : Snode} (h : SnOk n s) (x : Array Rat) (hx : x.size = n) :
    (stepLN one s x).size = x.size ∧
    (∀ i ∈ Ico s.f s.e, rd x i = ∑ j ∈ Ico s.f s.e, MLs one s i j * rd (stepLN one s x) j) ∧
    (∀ i < n, i ∉ Ico s.f s.e → rd (stepLN one s x) i = rd x i - ∑ j ∈ Ico s.f s.e, MLs one s i j * rd (stepLN one s x) j) := by
  have hnc := h.nc_eq
  have hncle := h.nc_le
  have hfe := h.f_lt_e
  have hen := h.e_le
  unfold stepLN
  by_cases h1 : nsupc s = 1
  · rw [if_pos h1]
    obtain ⟨s1, s2⟩ := rd_foldl_axpy (fun t => srow s (1 + t)) (fun t => sA one s (1 + t) 0) s.f x (nsupr s - 1)
      (by intro t ht; have := (h.out (1 + t) (by omega) (by omega)).2; omega)
      (by intro t ht; have := (h.out (1 + t) (by omega) (by omega)).1; omega)
    have hf : rd ((List.range (nsupr s - 1)).foldl
        (fun x t => wr x (srow s (1 + t)) (rd x (srow s (1 + t)) - rd x s.f * sA one s (1 + t) 0)) x) s.f = rd x s.f := by
      rw [s2 s.f, sum_eq_zero, sub_zero]
      intro t ht
      have := mem_range.mp ht
      have := (h.out (1 + t) (by omega) (by omega)).1
      rw [if_neg (by omega)]
    refine ⟨s1, ?_⟩
    apply coreLN_to_inv h
    · intro i' hi'
      have : i' = 0 := by omega
      subst this
      rw [h1, sum_range_one]
      unfold MbL
      rw [if_neg (by omega), if_pos rfl, one_mul, Nat.add_zero, hf]
    · intro q hq
      rw [s2 q, h1]
      congr 1
      apply sum_congr rfl
      intro t _
      rw [sum_range_one, Nat.add_zero, hf]
      by_cases he : srow s (1 + t) = q
      · rw [if_pos he, if_pos he]; ring
      · rw [if_neg he, if_neg he]
  · rw [if_neg h1]
    simp only []
    obtain ⟨t1, t2, t3⟩ := trsvLNU_spec (sA one s) (nsupc s) s.f x (by omega)
    obtain ⟨w1, w2⟩ := gemvWork_spec (sA one s) (nsupr s - nsupc s) (nsupc s) s.f (trsvLNU (sA one s) (nsupc s) s.f x)
    obtain ⟨s1, s2⟩ := rd_foldl_sub (fun i => srow s (nsupc s + i))
      (fun i => rd (gemvWork (sA one s) (nsupr s - nsupc s) (nsupc s) s.f (trsvLNU (sA one s) (nsupc s) s.f x)) i)
      (trsvLNU (sA one s) (nsupc s) s.f x) (nsupr s - nsupc s)
      (by intro t ht; rw [t1]; have := (h.out (nsupc s + t) (by omega) (by omega)).2; omega)
    have hblk : ∀ k < nsupc s, rd ((List.range (nsupr s - nsupc s)).foldl
        (fun y i => wr y (srow s (nsupc s + i)) (rd y (srow s (nsupc s + i)) -
          rd (gemvWork (sA one s) (nsupr s - nsupc s) (nsupc s) s.f (trsvLNU (sA one s) (nsupc s) s.f x)) i))
        (trsvLNU (sA one s) (nsupc s) s.f x)) (s.f + k) = rd (trsvLNU (sA one s) (nsupc s) s.f x) (s.f + k) := by
      intro k hk
      rw [s2 (s.f + k), sum_eq_zero, sub_zero]
      intro t ht
      have := mem_range.mp ht
      have := (h.out (nsupc s + t) (by omega) (by omega)).1
      rw [if_neg (by omega)]
    refine ⟨by rw [s1, t1], ?_⟩
    apply coreLN_to_inv h
    · intro i' hi'
      rw [← t3 i' hi']
      apply sum_congr rfl
      intro k hk
      rw [hblk k (mem_range.mp hk)]
    · intro q hq
      rw [s2 q, t2 q (by omega)]
      congr 1
      apply sum_congr rfl
      intro i hi
      by_cases he : srow s (nsupc s + i) = q
      · rw [if_pos he, if_pos he, w2 i (mem_range.mp hi)]
        apply sum_congr rfl
        intro k hk
        rw [hblk k (mem_range.mp hk)]
      · rw [if_neg he, if_neg he]


/-- the single-column branch of "inv(U)" is the general branch specialised to one column -/
theorem stepUN_eq (one : Int) (U : NCP) (s : Snode) (x : Array Rat) :
    stepUN one U s x =
      (List.range (nsupc s)).foldl (fun x jj => uAxpy one (U.cols.getD (s.f + jj) default) (s.f + jj) x)
        (trsvUNN (sA one s) (nsupc s) s.f x) := by
  unfold stepUN
  by_cases h1 : nsupc s = 1
  · rw [if_pos h1, h1]
    simp [trsvUNN, List.range_succ]
  · rw [if_neg h1]

theorem ucolD_mul (one : Int) (c : UCol) (q : Nat) (v : Rat) :
    (∑ t ∈ range c.rows.size, if urow c t = q then v * uval one c t else 0) = v * ucolD one c q := by
  unfold ucolD
  rw [mul_sum]
  apply sum_congr rfl
  intro t _
  by_cases h : urow c t = q
  · rw [if_pos h, if_pos h]
  · rw [if_neg h, if_neg h, mul_zero]

/-- **one supernode of "x := inv(U)*x"** -/
theorem stepUN_spec {n : Nat} (one : Int) (U : NCP) {s : Snode} (h : SnOk n s) (x : Array Rat) (hx : x.size = n)
    (hU : ∀ k < nsupc s, UcolOk s.f (U.cols.getD (s.f + k) default))
    (hd : ∀ k < nsupc s, sA one s k k ≠ 0) :
    (stepUN one U s x).size = x.size ∧
    (∀ i ∈ Ico s.f s.e, rd x i = ∑ j ∈ Ico s.f s.e, MUs one U s i j * rd (stepUN one U s x) j) ∧
    (∀ i < n, i ∉ Ico s.f s.e → rd (stepUN one U s x) i = rd x i - ∑ j ∈ Ico s.f s.e, MUs one U s i j * rd (stepUN one U s x) j) := by
  have hnc := h.nc_eq
  have hfe := h.f_lt_e
  have hen := h.e_le
  have hef : s.e - s.f = nsupc s := rfl
  rw [stepUN_eq]
  obtain ⟨t1, t2, t3⟩ := trsvUNN_spec (sA one s) (nsupc s) s.f x (by omega) hd
  -- the scatter of the U columns
  let P : Nat → Array Rat → Prop := fun jj xj =>
    xj.size = x.size ∧ ∀ q, rd xj q = rd (trsvUNN (sA one s) (nsupc s) s.f x) q
      - ∑ k ∈ range jj, rd (trsvUNN (sA one s) (nsupc s) s.f x) (s.f + k) * ucolD one (U.cols.getD (s.f + k) default) q
  have key : P (nsupc s) ((List.range (nsupc s)).foldl
      (fun x jj => uAxpy one (U.cols.getD (s.f + jj) default) (s.f + jj) x) (trsvUNN (sA one s) (nsupc s) s.f x)) := by
    apply foldl_range_inv P
    · exact ⟨t1, fun q => by simp⟩
    · intro jj xj hjj ⟨p1, p2⟩
      have hok := hU jj hjj
      obtain ⟨s1, s2⟩ := rd_foldl_axpy (fun t => urow (U.cols.getD (s.f + jj) default) t)
        (fun t => uval one (U.cols.getD (s.f + jj) default) t) (s.f + jj) xj (U.cols.getD (s.f + jj) default).rows.size
        (by intro t ht; have := hok t ht; rw [p1]; omega) (by intro t ht; have := hok t ht; omega)
      have hcell : rd xj (s.f + jj) = rd (trsvUNN (sA one s) (nsupc s) s.f x) (s.f + jj) := by
        rw [p2 (s.f + jj), sum_eq_zero, sub_zero]
        intro k hk
        rw [ucolD_ge (hU k (by have := mem_range.mp hk; omega)) (s.f + jj) (by omega), mul_zero]
      refine ⟨by unfold uAxpy; rw [s1, p1], fun q => ?_⟩
      unfold uAxpy
      rw [s2 q, ucolD_mul, hcell, p2 q, sum_range_succ]; ring
  obtain ⟨k1, k2⟩ := key
  have hblk : ∀ k < nsupc s, rd ((List.range (nsupc s)).foldl
      (fun x jj => uAxpy one (U.cols.getD (s.f + jj) default) (s.f + jj) x) (trsvUNN (sA one s) (nsupc s) s.f x)) (s.f + k)
      = rd (trsvUNN (sA one s) (nsupc s) s.f x) (s.f + k) := by
    intro k hk
    rw [k2 (s.f + k), sum_eq_zero, sub_zero]
    intro k' hk'
    rw [ucolD_ge (hU k' (mem_range.mp hk')) (s.f + k) (by omega), mul_zero]
  refine ⟨k1, ?_, ?_⟩
  · intro i hi
    have hi' := mem_Ico.mp hi
    obtain ⟨i', rfl⟩ : ∃ i', i = s.f + i' := ⟨i - s.f, by omega⟩
    have hi'lt : i' < nsupc s := by omega
    rw [sum_Ico_block, hef, ← t3 i' hi'lt]
    apply sum_congr rfl
    intro k hk
    have hk' := mem_range.mp hk
    rw [hblk k hk']
    congr 1
    unfold MUs MbU
    have : s.f + k - s.f = k := by omega
    rw [this, snU_own h i' k hi'lt hk', ucolD_ge (hU k hk') (s.f + i') (by omega), add_zero]
  · intro q hq hqB
    have hq' : q < s.f ∨ s.e ≤ q := by
      by_contra hc; exact hqB (mem_Ico.mpr (by omega))
    rw [k2 q, t2 q (by omega), sum_Ico_block, hef]
    congr 1
    apply sum_congr rfl
    intro k hk
    have hk' := mem_range.mp hk
    rw [hblk k hk']
    unfold MUs
    have : s.f + k - s.f = k := by omega
    rw [this, snU_out h q k hq' hk', zero_add]; ring


theorem wr_rd_self (x : Array Rat) (i : Nat) : wr x i (rd x i) = x := by
  apply array_ext_rd
  · simp
  · intro k _
    rw [rd_wr]
    by_cases h : k = i ∧ i < x.size
    · rw [if_pos h, h.1]
    · rw [if_neg h]

/-- the single-column case of "inv(L')" is the general case (`?trsv` on one column is the identity) -/
theorem stepLT_eq (one : Int) (s : Snode) (x : Array Rat) (hnc : 1 ≤ nsupc s) :
    stepLT one s x = trsvLTU (sA one s) (nsupc s) s.f
      ((List.range (nsupc s)).foldl (fun x jj =>
        (List.range (nsupr s - nsupc s)).foldl (fun x t =>
          wr x (s.f + jj) (rd x (s.f + jj) - rd x (srow s (nsupc s + t)) * sA one s (nsupc s + t) jj)) x) x) := by
  unfold stepLT
  by_cases h1 : nsupc s > 1
  · simp only [h1, if_true]
  · have h1' : nsupc s = 1 := by omega
    simp only [h1, if_false]
    rw [h1']
    simp [trsvLTU, List.range_succ, wr_rd_self]

/-- the part of a full-row sum that lies outside the block `[f, e)`, for a row given as a scatter list -/
theorem sum_out_scatter (n f e : Nat) (p : Nat → Nat) (w g : Nat → Rat) (len : Nat)
    (hp : ∀ t < len, p t < n ∧ (p t < f ∨ e ≤ p t)) :
    ∑ j ∈ range n, (if f ≤ j ∧ j < e then 0 else (∑ t ∈ range len, if p t = j then w t else 0) * g j)
      = ∑ t ∈ range len, w t * g (p t) := by
  have : ∀ j ∈ range n, (if f ≤ j ∧ j < e then 0 else (∑ t ∈ range len, if p t = j then w t else 0) * g j)
      = ∑ t ∈ range len, if p t = j then w t * g (p t) else 0 := by
    intro j _
    by_cases hb : f ≤ j ∧ j < e
    · rw [if_pos hb]
      symm; apply sum_eq_zero
      intro t ht
      have := hp t (mem_range.mp ht)
      rw [if_neg (by omega)]
    · rw [if_neg hb, sum_mul]
      apply sum_congr rfl
      intro t _
      by_cases he : p t = j
      · rw [if_pos he, if_pos he, he]
      · rw [if_neg he, if_neg he, zero_mul]
  rw [sum_congr rfl this, sum_comm]
  apply sum_congr rfl
  intro t ht
  rw [sum_ite_eq (range n) (p t), if_pos (mem_range.mpr (hp t (mem_range.mp ht)).1)]

/-- split a full-row sum into the block part and the rest -/
theorem sum_split_block (n f e : Nat) (F : Nat → Rat) (hfe : f ≤ e) (hen : e ≤ n) :
    ∑ j ∈ range n, F j = ∑ k ∈ range (e - f), F (f + k) + ∑ j ∈ range n, (if f ≤ j ∧ j < e then 0 else F j) := by
  rw [← sum_range_block F f e n hfe hen, ← sum_add_distrib]
  apply sum_congr rfl
  intro j _
  by_cases hb : f ≤ j ∧ j < e
  · rw [if_pos hb, if_pos hb, add_zero]
  · rw [if_neg hb, if_neg hb, zero_add]

/-- **one supernode of "x := inv(L')*x"** -/
theorem stepLT_spec {n : Nat} (one : Int) {s : Snode} (h : SnOk n s) (x : Array Rat) (hx : x.size = n) :
    (stepLT one s x).size = x.size ∧
    (∀ i ∈ Ico s.f s.e, rd x i = ∑ j ∈ range n, MLs one s j i * rd (stepLT one s x) j) ∧
    (∀ i < n, i ∉ Ico s.f s.e → rd (stepLT one s x) i = rd x i) := by
  have hnc := h.nc_eq
  have hfe := h.f_lt_e
  have hen := h.e_le
  have hncle := h.nc_le
  have hef : s.e - s.f = nsupc s := rfl
  rw [stepLT_eq one s x (by omega)]
  -- phase 1: dot products with the rows below the block
  let P : Nat → Array Rat → Prop := fun jj xj =>
    xj.size = x.size ∧ ∀ q, rd xj q = if s.f ≤ q ∧ q < s.f + jj then
      rd x q - ∑ t ∈ range (nsupr s - nsupc s), rd x (srow s (nsupc s + t)) * sA one s (nsupc s + t) (q - s.f) else rd x q
  have key : P (nsupc s) ((List.range (nsupc s)).foldl (fun x jj =>
        (List.range (nsupr s - nsupc s)).foldl (fun x t =>
          wr x (s.f + jj) (rd x (s.f + jj) - rd x (srow s (nsupc s + t)) * sA one s (nsupc s + t) jj)) x) x) := by
    apply foldl_range_inv P
    · exact ⟨rfl, fun q => by rw [if_neg (by omega)]⟩
    · intro jj xj hjj ⟨p1, p2⟩
      obtain ⟨s1, s2⟩ := rd_foldl_dot (fun t => srow s (nsupc s + t)) (fun t => sA one s (nsupc s + t) jj) (s.f + jj) xj
        (nsupr s - nsupc s) (by rw [p1]; omega)
        (by intro t ht; have := (h.out (nsupc s + t) (by omega) (by omega)).1; omega)
      refine ⟨by rw [s1, p1], fun q => ?_⟩
      rw [s2 q]
      by_cases hq : q = s.f + jj
      · subst hq
        rw [if_pos rfl, if_pos (by omega), p2 (s.f + jj), if_neg (by omega)]
        congr 1
        apply sum_congr rfl
        intro t ht
        have := mem_range.mp ht
        have := (h.out (nsupc s + t) (by omega) (by omega)).1
        rw [p2 (srow s (nsupc s + t)), if_neg (by omega)]
        have : s.f + jj - s.f = jj := by omega
        rw [this]
      · rw [if_neg hq, p2 q]
        by_cases hb : s.f ≤ q ∧ q < s.f + jj
        · rw [if_pos hb, if_pos (by omega)]
        · rw [if_neg hb, if_neg (by omega)]
  obtain ⟨k1, k2⟩ := key
  generalize hx1 : (List.range (nsupc s)).foldl (fun x jj =>
        (List.range (nsupr s - nsupc s)).foldl (fun x t =>
          wr x (s.f + jj) (rd x (s.f + jj) - rd x (srow s (nsupc s + t)) * sA one s (nsupc s + t) jj)) x) x = x1 at k1 k2 ⊢
  obtain ⟨t1, t2, t3⟩ := trsvLTU_spec (sA one s) (nsupc s) s.f x1 (by omega)
  have hout : ∀ q, (q < s.f ∨ s.e ≤ q) → rd (trsvLTU (sA one s) (nsupc s) s.f x1) q = rd x q := by
    intro q hq
    rw [t2 q (by omega), k2 q, if_neg (by omega)]
  refine ⟨by rw [t1, k1], ?_, ?_⟩
  · intro i hi
    have hi' := mem_Ico.mp hi
    obtain ⟨i', rfl⟩ : ∃ i', i = s.f + i' := ⟨i - s.f, by omega⟩
    have hi'lt : i' < nsupc s := by omega
    rw [sum_split_block n s.f s.e _ (by omega) hen, hef]
    -- block part
    have hblock : ∑ k ∈ range (nsupc s), MLs one s (s.f + k) (s.f + i') * rd (trsvLTU (sA one s) (nsupc s) s.f x1) (s.f + k)
        = rd x1 (s.f + i') := by
      rw [← t3 i' hi'lt]
      apply sum_congr rfl
      intro k hk
      have hk' := mem_range.mp hk
      congr 1
      unfold MLs MbL
      have : s.f + i' - s.f = i' := by omega
      rw [this, snL_own h k i' hk']
      split_ifs <;> first | rfl | (exfalso; omega)
    -- outside part
    have hrest : ∑ j ∈ range n, (if s.f ≤ j ∧ j < s.e then 0 else
          MLs one s j (s.f + i') * rd (trsvLTU (sA one s) (nsupc s) s.f x1) j)
        = ∑ t ∈ range (nsupr s - nsupc s), sA one s (nsupc s + t) i' * rd x (srow s (nsupc s + t)) := by
      rw [← sum_out_scatter n s.f s.e (fun t => srow s (nsupc s + t)) (fun t => sA one s (nsupc s + t) i') (fun j => rd x j)
        (nsupr s - nsupc s) (by intro t ht; have := h.out (nsupc s + t) (by omega) (by omega); omega)]
      apply sum_congr rfl
      intro j _
      by_cases hb : s.f ≤ j ∧ j < s.e
      · rw [if_pos hb, if_pos hb]
      · rw [if_neg hb, if_neg hb, hout j (by omega)]
        unfold MLs
        have : s.f + i' - s.f = i' := by omega
        rw [if_neg (by omega), this, snL_out h j i' (by omega) hi'lt]
    rw [hblock, hrest, k2 (s.f + i'), if_pos (by omega)]
    have : s.f + i' - s.f = i' := by omega
    rw [this]
    have : ∑ t ∈ range (nsupr s - nsupc s), sA one s (nsupc s + t) i' * rd x (srow s (nsupc s + t))
        = ∑ t ∈ range (nsupr s - nsupc s), rd x (srow s (nsupc s + t)) * sA one s (nsupc s + t) i' :=
      sum_congr rfl (fun t _ => mul_comm _ _)
    rw [this]; ring
  · intro q hq hqB
    have hq' : q < s.f ∨ s.e ≤ q := by
      by_contra hc; exact hqB (mem_Ico.mpr (by omega))
    exact hout q hq'


/-- the single-column branch of "inv(U')" is the general branch specialised to one column -/
theorem stepUT_eq (one : Int) (U : NCP) (s : Snode) (x : Array Rat) :
    stepUT one U s x = trsvUTN (sA one s) (nsupc s) s.f
      ((List.range (nsupc s)).foldl (fun x jj => uDot one (U.cols.getD (s.f + jj) default) (s.f + jj) x) x) := by
  unfold stepUT
  by_cases h1 : nsupc s = 1
  · simp only [h1, if_true]
    simp [trsvUTN, List.range_succ]
  · simp only [h1, if_false]

/-- **one supernode of "x := inv(U')*x"** -/
theorem stepUT_spec {n : Nat} (one : Int) (U : NCP) {s : Snode} (h : SnOk n s) (x : Array Rat) (hx : x.size = n)
    (hU : ∀ k < nsupc s, UcolOk s.f (U.cols.getD (s.f + k) default))
    (hd : ∀ k < nsupc s, sA one s k k ≠ 0) :
    (stepUT one U s x).size = x.size ∧
    (∀ i ∈ Ico s.f s.e, rd x i = ∑ j ∈ range n, MUs one U s j i * rd (stepUT one U s x) j) ∧
    (∀ i < n, i ∉ Ico s.f s.e → rd (stepUT one U s x) i = rd x i) := by
  have hnc := h.nc_eq
  have hfe := h.f_lt_e
  have hen := h.e_le
  have hef : s.e - s.f = nsupc s := rfl
  rw [stepUT_eq]
  let P : Nat → Array Rat → Prop := fun jj xj =>
    xj.size = x.size ∧ ∀ q, rd xj q = if s.f ≤ q ∧ q < s.f + jj then
      rd x q - ∑ t ∈ range (U.cols.getD q default).rows.size,
        rd x (urow (U.cols.getD q default) t) * uval one (U.cols.getD q default) t else rd x q
  have key : P (nsupc s) ((List.range (nsupc s)).foldl
      (fun x jj => uDot one (U.cols.getD (s.f + jj) default) (s.f + jj) x) x) := by
    apply foldl_range_inv P
    · exact ⟨rfl, fun q => by rw [if_neg (by omega)]⟩
    · intro jj xj hjj ⟨p1, p2⟩
      have hok := hU jj hjj
      obtain ⟨s1, s2⟩ := rd_foldl_dot (fun t => urow (U.cols.getD (s.f + jj) default) t)
        (fun t => uval one (U.cols.getD (s.f + jj) default) t) (s.f + jj) xj (U.cols.getD (s.f + jj) default).rows.size
        (by rw [p1]; omega) (by intro t ht; have := hok t ht; omega)
      refine ⟨by unfold uDot; rw [s1, p1], fun q => ?_⟩
      unfold uDot
      rw [s2 q]
      by_cases hq : q = s.f + jj
      · subst hq
        rw [if_pos rfl, if_pos (by omega), p2 (s.f + jj), if_neg (by omega)]
        congr 1
        apply sum_congr rfl
        intro t ht
        have := hok t (mem_range.mp ht)
        rw [p2 (urow (U.cols.getD (s.f + jj) default) t), if_neg (by omega)]
      · rw [if_neg hq, p2 q]
        by_cases hb : s.f ≤ q ∧ q < s.f + jj
        · rw [if_pos hb, if_pos (by omega)]
        · rw [if_neg hb, if_neg (by omega)]
  obtain ⟨k1, k2⟩ := key
  generalize hx1 : (List.range (nsupc s)).foldl
      (fun x jj => uDot one (U.cols.getD (s.f + jj) default) (s.f + jj) x) x = x1 at k1 k2 ⊢
  obtain ⟨t1, t2, t3⟩ := trsvUTN_spec (sA one s) (nsupc s) s.f x1 (by omega) hd
  have hout : ∀ q, (q < s.f ∨ s.e ≤ q) → rd (trsvUTN (sA one s) (nsupc s) s.f x1) q = rd x q := by
    intro q hq
    rw [t2 q (by omega), k2 q, if_neg (by omega)]
  refine ⟨by rw [t1, k1], ?_, ?_⟩
  · intro i hi
    have hi' := mem_Ico.mp hi
    obtain ⟨i', rfl⟩ : ∃ i', i = s.f + i' := ⟨i - s.f, by omega⟩
    have hi'lt : i' < nsupc s := by omega
    have hok := hU i' hi'lt
    rw [sum_split_block n s.f s.e _ (by omega) hen, hef]
    have hblock : ∑ k ∈ range (nsupc s), MUs one U s (s.f + k) (s.f + i') * rd (trsvUTN (sA one s) (nsupc s) s.f x1) (s.f + k)
        = rd x1 (s.f + i') := by
      rw [← t3 i' hi'lt]
      apply sum_congr rfl
      intro k hk
      have hk' := mem_range.mp hk
      congr 1
      unfold MUs MbU
      have : s.f + i' - s.f = i' := by omega
      rw [this, snU_own h k i' hk' hi'lt, ucolD_ge hok (s.f + k) (by omega), add_zero]
    have hrest : ∑ j ∈ range n, (if s.f ≤ j ∧ j < s.e then 0 else
          MUs one U s j (s.f + i') * rd (trsvUTN (sA one s) (nsupc s) s.f x1) j)
        = ∑ t ∈ range (U.cols.getD (s.f + i') default).rows.size,
            uval one (U.cols.getD (s.f + i') default) t * rd x (urow (U.cols.getD (s.f + i') default) t) := by
      rw [← sum_out_scatter n s.f s.e (fun t => urow (U.cols.getD (s.f + i') default) t)
        (fun t => uval one (U.cols.getD (s.f + i') default) t) (fun j => rd x j)
        (U.cols.getD (s.f + i') default).rows.size (by intro t ht; have := hok t ht; omega)]
      apply sum_congr rfl
      intro j _
      by_cases hb : s.f ≤ j ∧ j < s.e
      · rw [if_pos hb, if_pos hb]
      · rw [if_neg hb, if_neg hb, hout j (by omega)]
        unfold MUs
        have : s.f + i' - s.f = i' := by omega
        rw [this, snU_out h j i' (by omega) hi'lt, zero_add]
        rfl
    rw [hblock, hrest, k2 (s.f + i'), if_pos (by omega)]
    have : ∑ t ∈ range (U.cols.getD (s.f + i') default).rows.size,
          uval one (U.cols.getD (s.f + i') default) t * rd x (urow (U.cols.getD (s.f + i') default) t)
        = ∑ t ∈ range (U.cols.getD (s.f + i') default).rows.size,
          rd x (urow (U.cols.getD (s.f + i') default) t) * uval one (U.cols.getD (s.f + i') default) t :=
      sum_congr rfl (fun t _ => mul_comm _ _)
    rw [this]; ring
  · intro q hq hqB
    have hq' : q < s.f ∨ s.e ≤ q := by
      by_contra hc; exact hqB (mem_Ico.mpr (by omega))
    exact hout q hq'

end Slu.Blas
