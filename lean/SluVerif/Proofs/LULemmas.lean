/- helper lemmas for the exact LU identity of Model/LU.lean -/
import SluVerif.Model.LU
import SluVerif.Proofs.PivotLemmas
import Mathlib.Tactic.Linarith
import Mathlib.Tactic.Ring
import Mathlib.Tactic.FieldSimp
import Mathlib.Algebra.BigOperators.Group.List.Basic

namespace Slu

/-! ### finite sums over `List.range` -/

theorem sumQ_zero (f : Nat → Rat) : sumQ 0 f = 0 := by simp [sumQ]

theorem sumQ_succ (n : Nat) (f : Nat → Rat) : sumQ (n + 1) f = sumQ n f + f n := by
  simp [sumQ, List.range_succ, List.sum_append]

theorem sumQ_congr (n : Nat) (f g : Nat → Rat) (h : ∀ t, t < n → f t = g t) : sumQ n f = sumQ n g := by
  induction n with
  | zero => simp [sumQ_zero]
  | succ n ih =>
    rw [sumQ_succ, sumQ_succ, ih (fun t ht => h t (by omega)), h n (by omega)]

theorem sumQ_eq_zero (n : Nat) (f : Nat → Rat) (h : ∀ t, t < n → f t = 0) : sumQ n f = 0 := by
  induction n with
  | zero => simp [sumQ_zero]
  | succ n ih => rw [sumQ_succ, ih (fun t ht => h t (by omega)), h n (by omega)]; simp

/-- a sum whose terms vanish from index `m` on equals its first `m` terms -/
theorem sumQ_trunc (n m : Nat) (f : Nat → Rat) (hm : m ≤ n) (h : ∀ t, m ≤ t → t < n → f t = 0) :
    sumQ n f = sumQ m f := by
  induction n with
  | zero => have : m = 0 := by omega
            subst this; rfl
  | succ n ih =>
    by_cases e : m = n + 1
    · subst e; rfl
    · rw [sumQ_succ, h n (by omega) (by omega), add_zero]
      exact ih (by omega) (fun t h1 h2 => h t h1 (by omega))

/-! ### forward substitution -/

theorem getD_push_lt (a : Array Rat) (x : Rat) (s : Nat) (h : s < a.size) : (a.push x).getD s 0 = a.getD s 0 := by
  simp [Array.getD, Array.getElem_push, h, Nat.lt_succ_of_lt h]

theorem getD_push_eq (a : Array Rat) (x : Rat) (s : Nat) (h : s = a.size) : (a.push x).getD s 0 = x := by
  subst h; simp [Array.getD]

theorem ucolA_size (A ell : QArr) (piv : Array Nat) (j t : Nat) : (ucolA A ell piv j t).size = t := by
  induction t with
  | zero => simp [ucolA]
  | succ t ih => simp [ucolA, ih]

theorem ucolA_stable (A ell : QArr) (piv : Array Nat) (j s t : Nat) (hst : s < t) (d : Nat) :
    (ucolA A ell piv j (t + d)).getD s 0 = (ucolA A ell piv j t).getD s 0 := by
  induction d with
  | zero => rfl
  | succ d ih =>
    have : t + (d + 1) = (t + d) + 1 := by omega
    rw [this]
    conv_lhs => rw [ucolA]
    have hs : (ucolA A ell piv j (t + d)).size = t + d := ucolA_size ..
    rw [getD_push_lt _ _ _ (by omega)]
    exact ih

/-- the recurrence: `u_s = A (piv s) j - Σ_{s' < s} ell (piv s) s' u_{s'}` for every `s < t` -/
theorem ucolA_rec (A ell : QArr) (piv : Array Nat) (j s t : Nat) (hst : s < t) :
    (ucolA A ell piv j t).getD s 0 =
      getQ A (piv.getD s 0) j - sumQ s (fun s' => getQ ell (piv.getD s 0) s' * (ucolA A ell piv j t).getD s' 0) := by
  obtain ⟨d, rfl⟩ : ∃ d, t = (s + 1) + d := ⟨t - (s + 1), by omega⟩
  rw [ucolA_stable A ell piv j s (s + 1) (by omega) d]
  have hsum : sumQ s (fun s' => getQ ell (piv.getD s 0) s' * (ucolA A ell piv j (s + 1 + d)).getD s' 0)
      = sumQ s (fun s' => getQ ell (piv.getD s 0) s' * (ucolA A ell piv j s).getD s' 0) := by
    apply sumQ_congr
    intro s' hs'
    have := ucolA_stable A ell piv j s' s hs' (1 + d)
    rw [show s + (1 + d) = s + 1 + d by omega] at this
    rw [this]
  rw [hsum]
  conv_lhs => rw [ucolA]
  have hs : (ucolA A ell piv j s).size = s := ucolA_size ..
  rw [getD_push_eq _ _ _ hs.symm]

end Slu

namespace Slu

/-! ### array bookkeeping -/

theorem getD_setOpt (a : Array (Option Nat)) (r i : Nat) (v : Option Nat) (hr : r < a.size) :
    (a.setIfInBounds r v).getD i none = if i = r then v else a.getD i none := by
  by_cases h : i = r
  · subst h; simp [Array.getD, hr]
  · simp [Array.getD, h]
    split
    · next hi =>
      rw [Array.getElem_setIfInBounds]
      · simp [Ne.symm h]
      · exact hi
    · rfl

theorem getD_map_toArrayQ (l : List Nat) (f : Nat → Rat) (idx : Nat) (h : idx < l.length) :
    ((l.map f).toArray).getD idx 0 = f (l.getD idx 0) := by
  simp [Array.getD, List.getD, h]

theorem getD_map_toArrayI (l : List Nat) (f : Nat → Int) (idx : Nat) (h : idx < l.length) :
    ((l.map f).toArray).getD idx 0 = f (l.getD idx 0) := by
  simp [Array.getD, List.getD, h]

theorem getD_push_nat_lt (a : Array Nat) (x : Nat) (s : Nat) (h : s < a.size) : (a.push x).getD s 0 = a.getD s 0 := by
  simp [Array.getD, Array.getElem_push, h, Nat.lt_succ_of_lt h]

theorem getD_push_nat_eq (a : Array Nat) (x : Nat) (s : Nat) (h : s = a.size) : (a.push x).getD s 0 = x := by
  subst h; simp [Array.getD]

theorem getD_mem (l : List Nat) (idx : Nat) (h : idx < l.length) : l.getD idx 0 ∈ l := by
  simp [List.getD, h]

theorem qabs_nonneg (x : Rat) : 0 ≤ qabs x := by
  unfold qabs; split <;> linarith

theorem qabs_eq_zero (x : Rat) : qabs x = 0 ↔ x = 0 := by
  unfold qabs; split <;> constructor <;> intro h <;> linarith

theorem mem_candRows (P : LUParams) (st : LUState) (i : Nat) :
    i ∈ candRows P st ↔ i < P.n ∧ posOf st i = none := by
  simp [candRows, List.mem_filter, List.mem_range, Option.isNone_iff_eq_none]

theorem candRows_nodup (P : LUParams) (st : LUState) : (candRows P st).Nodup :=
  List.Nodup.filter _ List.nodup_range

end Slu
