/- est ≥ ‖M·(e/n)‖₁ : in exact arithmetic the estimate never decreases (Hager's inequality) -/
import SluVerif.Proofs.LaconBasic
import SluVerif.Proofs.LaconTerm

namespace Slu
open Finset

theorem sgn_mul_self (t : Rat) : sgn t * t = |t| := by
  unfold sgn; split
  · rename_i h; rw [one_mul, abs_of_nonneg h]
  · rename_i h; rw [abs_of_neg (not_le.mp h)]; ring

theorem abs_sgn (t : Rat) : |sgn t| = 1 := by unfold sgn; split <;> simp

/-- `‖M e_j‖₁` is the j-th absolute column sum -/
theorem asum_matVec_unit (n : Nat) (M : Nat → Nat → Rat) (j : Nat) (hj : j < n) :
    asum n (matVec n M (unitVec n j)) = ∑ i ∈ range n, |M i j| := by
  unfold matVec; rw [asum_rmk]
  apply Finset.sum_congr rfl; intro i _
  rw [rsum_eq]
  have : ∀ k ∈ range n, M i k * rget (unitVec n j) k = if k = j then M i j else 0 := by
    intro k hk; unfold unitVec; rw [rget_rmk_lt _ (mem_range.mp hk)]
    split
    · rename_i h; rw [h, mul_one]
    · rw [mul_zero]
  rw [Finset.sum_congr rfl this, Finset.sum_ite_eq', if_pos (mem_range.mpr hj)]

/-- Hager's inequality: with `z = Mᵀ sign(M p)`, `‖p‖₁ ≤ 1` and `j` an index of maximal `|z_j|`,
`‖M p‖₁ ≤ ‖M e_j‖₁`. -/
theorem hager_step (n : Nat) (hn : 1 ≤ n) (M : Nat → Nat → Rat) (p : RVec) (hp : asum n p ≤ 1) :
    asum n (matVec n M p)
      ≤ asum n (matVec n M (unitVec n (idamax n (matVecT n M (signVec n (matVec n M p)))))) := by
  set y := matVec n M p with hy
  set z := matVecT n M (signVec n y) with hz
  set j := idamax n z with hjdef
  have hj : j < n := idamax_lt hn z
  have hyi : ∀ i ∈ range n, rget y i = ∑ k ∈ range n, M i k * rget p k := by
    intro i hi; rw [hy]; unfold matVec; rw [rget_rmk_lt _ (mem_range.mp hi), rsum_eq]
  have hzk : ∀ k ∈ range n, rget z k = ∑ i ∈ range n, M i k * sgn (rget y i) := by
    intro k hk; rw [hz]; unfold matVecT; rw [rget_rmk_lt _ (mem_range.mp hk), rsum_eq]
    apply Finset.sum_congr rfl; intro i hi
    unfold signVec; rw [rget_rmk_lt _ (mem_range.mp hi)]
  -- ‖y‖₁ = Σ_k p_k z_k
  have h1 : asum n y = ∑ k ∈ range n, rget p k * rget z k := by
    rw [asum_eq]
    calc ∑ i ∈ range n, |rget y i| = ∑ i ∈ range n, sgn (rget y i) * rget y i :=
          Finset.sum_congr rfl fun i _ => (sgn_mul_self _).symm
      _ = ∑ i ∈ range n, ∑ k ∈ range n, sgn (rget y i) * (M i k * rget p k) := by
          apply Finset.sum_congr rfl; intro i hi
          rw [← Finset.mul_sum, ← hyi i hi]
      _ = ∑ k ∈ range n, ∑ i ∈ range n, sgn (rget y i) * (M i k * rget p k) := Finset.sum_comm
      _ = ∑ k ∈ range n, rget p k * rget z k := by
          apply Finset.sum_congr rfl; intro k hk
          rw [hzk k hk, Finset.mul_sum]
          apply Finset.sum_congr rfl; intro i _; ring
  -- ≤ |z_j|
  have h2 : ∑ k ∈ range n, rget p k * rget z k ≤ |rget z j| := by
    calc ∑ k ∈ range n, rget p k * rget z k ≤ ∑ k ∈ range n, |rget p k| * |rget z j| := by
          apply Finset.sum_le_sum; intro k hk
          calc rget p k * rget z k ≤ |rget p k * rget z k| := le_abs_self _
            _ = |rget p k| * |rget z k| := abs_mul _ _
            _ ≤ |rget p k| * |rget z j| :=
                mul_le_mul_of_nonneg_left (idamax_max n z k (mem_range.mp hk)) (abs_nonneg _)
      _ = (∑ k ∈ range n, |rget p k|) * |rget z j| := by rw [Finset.sum_mul]
      _ ≤ 1 * |rget z j| := by
          apply mul_le_mul_of_nonneg_right _ (abs_nonneg _)
          rw [← asum_eq]; exact hp
      _ = |rget z j| := one_mul _
  -- |z_j| ≤ column sum j
  have h3 : |rget z j| ≤ ∑ i ∈ range n, |M i j| := by
    rw [hzk j (mem_range.mpr hj)]
    calc |∑ i ∈ range n, M i j * sgn (rget y i)| ≤ ∑ i ∈ range n, |M i j * sgn (rget y i)| :=
          Finset.abs_sum_le_sum_abs _ _
      _ = ∑ i ∈ range n, |M i j| := by
          apply Finset.sum_congr rfl; intro i _; rw [abs_mul, abs_sgn, mul_one]
  rw [asum_matVec_unit n M j hj, h1]
  exact le_trans h2 h3

/-- the uniform start vector `e/n` -/
def constVec (n : Nat) : RVec := rmk n fun _ => 1 / (n : Rat)

/-- reply to a `kase = 2` request: `x = Mᵀ sign(M p)` for a probe `p` with `‖p‖₁ ≤ 1`, `est = ‖M p‖₁` -/
def AfterT (n : Nat) (M : Nat → Nat → Rat) (io : LaconIO) : Prop :=
  ∃ p : RVec, asum n p ≤ 1 ∧ io.est = asum n (matVec n M p) ∧ io.x = matVecT n M (signVec n (matVec n M p))

/-- entry invariant of a call with `kase ≠ 0` (x already overwritten by the operator) -/
def LowEntry (n : Nat) (M : Nat → Nat → Rat) (e0 : Rat) (st : LaconSt) (io : LaconIO) : Prop :=
  match st.jump with
  | 2 => e0 ≤ io.est ∧ AfterT n M io
  | 3 => e0 ≤ io.est ∧ io.x = matVec n M (unitVec n st.j) ∧ io.est ≤ asum n io.x
  | 4 => e0 ≤ io.est ∧ AfterT n M io
  | 5 => e0 ≤ io.est
  | _ => io.x = matVec n M (constVec n) ∧ e0 = asum n (matVec n M (constVec n))

theorem laconCall_lower (n : Nat) (hn : 1 ≤ n) (M : Nat → Nat → Rat) (e0 : Rat) (st : LaconSt) (io : LaconIO)
    (hk : io.kase ≠ 0) (h : LowEntry n M e0 st io) :
    ((laconCall n st io).2.kase = 0 → e0 ≤ (laconCall n st io).2.est) ∧
    ((laconCall n st io).2.kase ≠ 0 →
      LowEntry n M e0 (laconCall n st io).1 (laconNextIO (matVec n M) (matVecT n M) (laconCall n st io).2)) := by
  unfold laconCall
  simp only [hk, if_false]
  unfold LowEntry at h
  split
  · -- jump 2 (L40)
    rename_i hj; simp only [hj] at h
    obtain ⟨he, p, hp, hest, hx⟩ := h
    simp only [l50, laconNextIO]
    refine ⟨fun h0 => by simp at h0, fun _ => ?_⟩
    simp only [LowEntry, if_true]
    refine ⟨he, trivial, ?_⟩
    rw [hest, hx]; exact hager_step n hn M p hp
  · -- jump 3 (L70)
    rename_i hj; simp only [hj] at h
    obtain ⟨he, hx, hle⟩ := h
    have he' : e0 ≤ asum n io.x := le_trans he hle
    have hfin : (((l120 n { st with estold := io.est } { io with v := vcopy n io.x, est := asum n io.x }).2.kase = 0 →
          e0 ≤ (l120 n { st with estold := io.est } { io with v := vcopy n io.x, est := asum n io.x }).2.est) ∧
        ((l120 n { st with estold := io.est } { io with v := vcopy n io.x, est := asum n io.x }).2.kase ≠ 0 →
          LowEntry n M e0 (l120 n { st with estold := io.est } { io with v := vcopy n io.x, est := asum n io.x }).1
            (laconNextIO (matVec n M) (matVecT n M)
              (l120 n { st with estold := io.est } { io with v := vcopy n io.x, est := asum n io.x }).2))) := by
      simp only [l120, laconNextIO, LowEntry]
      exact ⟨fun h0 => by simp at h0, fun _ => he'⟩
    split
    · exact hfin
    · split
      · exact hfin
      · simp only [laconNextIO, LowEntry]
        refine ⟨fun h0 => by simp at h0, fun _ => ⟨he', unitVec n st.j, asum_unitVec_le n _, ?_, ?_⟩⟩
        · simp only; rw [hx]
        · simp only; simp [hx]
  · -- jump 4 (L110)
    rename_i hj; simp only [hj] at h
    obtain ⟨he, p, hp, hest, hx⟩ := h
    split
    · simp only [l50, laconNextIO]
      refine ⟨fun h0 => by simp at h0, fun _ => ?_⟩
      simp only [LowEntry, if_true]
      refine ⟨he, trivial, ?_⟩
      rw [hest, hx]; exact hager_step n hn M p hp
    · simp only [l120, laconNextIO, LowEntry]
      exact ⟨fun h0 => by simp at h0, fun _ => he⟩
  · -- jump 5 (L140)
    rename_i hj; simp only [hj] at h
    split
    · rename_i hlt
      simp only [l150]
      exact ⟨fun _ => le_trans h (le_of_lt hlt), fun h0 => absurd rfl h0⟩
    · simp only [l150]; exact ⟨fun _ => h, fun h0 => absurd rfl h0⟩
  · -- jump 1 (L20)
    rename_i h2 h3 h4 h5
    have h' : io.x = matVec n M (constVec n) ∧ e0 = asum n (matVec n M (constVec n)) := by
      revert h; split <;> first | (intro h; exact h) | (intro _; simp_all)
    obtain ⟨hx, he0⟩ := h'
    split
    · rename_i h1; subst h1
      simp only [l150]
      refine ⟨fun _ => ?_, fun h0 => absurd rfl h0⟩
      rw [he0, ← hx]; unfold asum rsum; simp
    · simp only [laconNextIO, LowEntry]
      refine ⟨fun h0 => by simp at h0, fun _ => ⟨by rw [he0, hx], constVec n, le_of_eq (asum_const n hn), ?_, ?_⟩⟩
      · simp only; rw [hx]
      · simp only; simp [hx]

theorem laconLoop_lower (n : Nat) (hn : 1 ≤ n) (M : Nat → Nat → Rat) (e0 : Rat) :
    ∀ (fuel : Nat) (st : LaconSt) (io : LaconIO) (k : Nat), io.kase ≠ 0 → LowEntry n M e0 st io →
      (laconLoop n (matVec n M) (matVecT n M) fuel st io k).io.kase = 0 →
      e0 ≤ (laconLoop n (matVec n M) (matVecT n M) fuel st io k).io.est := by
  intro fuel
  induction fuel with
  | zero => intro st io k hk _ h0; simp only [laconLoop] at h0; exact absurd h0 hk
  | succ f ih =>
    intro st io k hk h
    have hs := laconCall_lower n hn M e0 st io hk h
    rw [laconLoop_succ]
    by_cases h0 : (laconCall n st io).2.kase = 0
    · rw [if_pos h0]; intro _; exact hs.1 h0
    · rw [if_neg h0]
      exact ih _ _ _ (by simpa [laconNextIO] using h0) (hs.2 h0)

end Slu
