/- TreePostorder / nr_etdfs: the child lists, the recursive specification `po`, and the simulation
   of the non-recursive walk (exact fuel). -/
import SluVerif.Proofs.EtreeBasic
namespace Slu.Pre

/-! ### child lists -/
section kids
variable (par : Nat → Nat)

/-- first `w` in `v, v+1, .., v+k-1` with `par w = d` -/
def firstFromK (d : Nat) : Nat → Nat → Option Nat
  | 0, _ => none
  | k + 1, v => if par v = d then some v else firstFromK d k (v + 1)

/-- all such `w`, increasing -/
def kidsFromK (d : Nat) : Nat → Nat → List Nat
  | 0, _ => []
  | k + 1, v => if par v = d then v :: kidsFromK d k (v + 1) else kidsFromK d k (v + 1)

theorem kidsFromK_of_none {d : Nat} : ∀ {k v : Nat}, firstFromK par d k v = none → kidsFromK par d k v = []
  | 0, _, _ => rfl
  | k + 1, v, h => by
      unfold firstFromK at h
      unfold kidsFromK
      split at h
      · cases h
      · rename_i hne
        simp only [hne, if_false]
        exact kidsFromK_of_none h

theorem kidsFromK_of_some {d w : Nat} : ∀ {k v : Nat}, firstFromK par d k v = some w →
    v ≤ w ∧ w < v + k ∧ par w = d ∧ kidsFromK par d k v = w :: kidsFromK par d (v + k - (w + 1)) (w + 1)
  | 0, _, h => by cases h
  | k + 1, v, h => by
      unfold firstFromK at h
      split at h
      · rename_i he
        cases h
        refine ⟨Nat.le_refl _, by omega, he, ?_⟩
        conv => lhs; unfold kidsFromK
        simp only [he, if_true]
        have : ∀ x : Nat, x + (k + 1) - (x + 1) = k := by intro x; omega
        rw [this]
      · rename_i hne
        obtain ⟨h1, h2, h3, h4⟩ := kidsFromK_of_some h
        refine ⟨by omega, by omega, h3, ?_⟩
        conv => lhs; unfold kidsFromK
        simp only [hne, if_false]
        rw [h4]
        have : v + 1 + k - (w + 1) = v + (k + 1) - (w + 1) := by omega
        rw [this]

theorem mem_kidsFromK {d w : Nat} : ∀ {k v : Nat}, w ∈ kidsFromK par d k v ↔ v ≤ w ∧ w < v + k ∧ par w = d
  | 0, v => by
      simp only [kidsFromK, List.not_mem_nil, false_iff]
      omega
  | k + 1, v => by
      unfold kidsFromK
      by_cases he : par v = d
      · simp only [he, if_true, List.mem_cons, mem_kidsFromK (k := k)]
        constructor
        · rintro (h | h)
          · subst h; exact ⟨Nat.le_refl _, by omega, he⟩
          · exact ⟨by omega, by omega, h.2.2⟩
        · rintro ⟨h1, h2, h3⟩
          by_cases hw : w = v
          · exact Or.inl hw
          · exact Or.inr ⟨by omega, by omega, h3⟩
      · simp only [he, if_false, mem_kidsFromK (k := k)]
        constructor
        · rintro ⟨h1, h2, h3⟩; exact ⟨by omega, by omega, h3⟩
        · rintro ⟨h1, h2, h3⟩
          have : w ≠ v := by intro h; subst h; exact he h3
          exact ⟨by omega, by omega, h3⟩

theorem kidsFromK_pairwise {d : Nat} : ∀ {k v : Nat}, (kidsFromK par d k v).Pairwise (· < ·)
  | 0, v => by simp [kidsFromK]
  | k + 1, v => by
      unfold kidsFromK
      split
      · refine List.Pairwise.cons ?_ kidsFromK_pairwise
        intro a ha
        have := (mem_kidsFromK par).1 ha
        omega
      · exact kidsFromK_pairwise

/-- first kid of `d` among the vertices `v .. n-1` -/
def firstFrom (n d v : Nat) : Option Nat := firstFromK par d (n - v) v
/-- kids of `d` among the vertices `v .. n-1`, increasing -/
def kidsFrom (n d v : Nat) : List Nat := kidsFromK par d (n - v) v
/-- all kids of `d`, increasing (the order in which `first_kid/next_kid` chain them) -/
def kids (n d : Nat) : List Nat := kidsFrom par n d 0

theorem firstFrom_step {n d v : Nat} (h : v < n) :
    firstFrom par n d v = if par v = d then some v else firstFrom par n d (v + 1) := by
  unfold firstFrom
  have : n - v = (n - (v + 1)) + 1 := by omega
  rw [this]
  rfl

theorem firstFrom_ge {n d v : Nat} (h : n ≤ v) : firstFrom par n d v = none := by
  unfold firstFrom
  have : n - v = 0 := by omega
  rw [this]; rfl

theorem kidsFrom_of_none {n d v : Nat} (h : firstFrom par n d v = none) : kidsFrom par n d v = [] :=
  kidsFromK_of_none par h

theorem kidsFrom_of_some {n d v w : Nat} (h : firstFrom par n d v = some w) :
    v ≤ w ∧ w < n ∧ par w = d ∧ kidsFrom par n d v = w :: kidsFrom par n d (w + 1) := by
  obtain ⟨h1, h2, h3, h4⟩ := kidsFromK_of_some par h
  refine ⟨h1, by omega, h3, ?_⟩
  unfold kidsFrom
  rw [h4]
  have : v + (n - v) - (w + 1) = n - (w + 1) := by omega
  rw [this]

theorem mem_kidsFrom {n d v w : Nat} : w ∈ kidsFrom par n d v ↔ v ≤ w ∧ w < n ∧ par w = d := by
  unfold kidsFrom
  rw [mem_kidsFromK]
  constructor
  · rintro ⟨h1, h2, h3⟩; exact ⟨h1, by omega, h3⟩
  · rintro ⟨h1, h2, h3⟩; exact ⟨h1, by omega, h3⟩

theorem mem_kids {n d w : Nat} : w ∈ kids par n d ↔ w < n ∧ par w = d := by
  unfold kids
  rw [mem_kidsFrom]
  simp

theorem kidsFrom_pairwise {n d v : Nat} : (kidsFrom par n d v).Pairwise (· < ·) := kidsFromK_pairwise par

end kids

/-! ### the loop that builds `first_kid` / `next_kid` -/

structure KidsInv (parent : Array Nat) (n v : Nat) (fk nk : Array (Option Nat)) : Prop where
  fksz : fk.size = n + 1
  nksz : nk.size = n + 1
  hfk : ∀ d, d ≤ n → getO fk d = firstFrom (getN parent) n d v
  hnk : ∀ w, v ≤ w → w < n → getO nk w = firstFrom (getN parent) n (getN parent w) (w + 1)
  hnkn : getO nk n = some 0

theorem kidsLoop_inv (parent : Array Nat) (n : Nat) (hp : ∀ w, w < n → getN parent w ≤ n) :
    ∀ (v : Nat) (fk nk : Array (Option Nat)), v ≤ n → KidsInv parent n v fk nk →
      KidsInv parent n 0 (kidsLoop parent v (fk, nk)).1 (kidsLoop parent v (fk, nk)).2
  | 0, fk, nk, _, h => by simpa [kidsLoop] using h
  | v + 1, fk, nk, hv, h => by
      unfold kidsLoop
      apply kidsLoop_inv parent n hp v _ _ (by omega)
      have hvn : v < n := by omega
      have hd := hp v hvn
      constructor
      · simp [h.fksz]
      · simp [h.nksz]
      · intro d hdn
        rw [getO_set, firstFrom_step _ hvn, h.fksz]
        by_cases he : getN parent v = d
        · simp [he, Nat.lt_succ_of_le hdn]
        · simp [he, h.hfk d hdn]
      · intro w hw hwn
        rw [getO_set, h.nksz]
        by_cases he : v = w
        · subst he
          simp [Nat.lt_succ_of_lt hvn, h.hfk _ hd]
        · simp [he]
          exact h.hnk w (by omega) hwn
      · rw [getO_set, h.nksz]
        have : v ≠ n := by omega
        simp [this, h.hnkn]

theorem buildKids_inv (parent : Array Nat) (n : Nat) (hp : ∀ w, w < n → getN parent w ≤ n) :
    KidsInv parent n 0 (buildKids n parent).1 (buildKids n parent).2 := by
  unfold buildKids
  apply kidsLoop_inv parent n hp n _ _ (Nat.le_refl _)
  constructor
  · simp
  · simp
  · intro d hd
    rw [getO_replicate, firstFrom_ge _ (Nat.le_refl _)]
    simp
  · intro w hw hwn; omega
  · rw [getO_replicate]; simp


/-! ### recursive specification of the postorder and the numbering it induces -/

/-- postorder list of the subtree of `v` (children lists `kd`), `f` = recursion depth allowed -/
def po (kd : Nat → List Nat) : Nat → Nat → List Nat
  | 0, v => [v]
  | f + 1, v => (kd v).flatMap (po kd f) ++ [v]

theorem po_length_pos (kd : Nat → List Nat) (f v : Nat) : 1 ≤ (po kd f v).length := by
  cases f <;> simp [po]

/-- `post[x] = pn++` for the vertices of the list, in order -/
def numberAll (post : Array Nat) (pn : Nat) : List Nat → Array Nat
  | [] => post
  | x :: l => numberAll (post.setIfInBounds x pn) (pn + 1) l

theorem numberAll_append (post : Array Nat) (pn : Nat) (l1 l2 : List Nat) :
    numberAll post pn (l1 ++ l2) = numberAll (numberAll post pn l1) (pn + l1.length) l2 := by
  induction l1 generalizing post pn with
  | nil => simp [numberAll]
  | cons x l ih =>
      simp only [List.cons_append, numberAll, List.length_cons]
      rw [ih]
      have : pn + 1 + l.length = pn + (l.length + 1) := by omega
      rw [this]

theorem numberAll_size (post : Array Nat) (pn : Nat) (l : List Nat) : (numberAll post pn l).size = post.size := by
  induction l generalizing post pn with
  | nil => rfl
  | cons x l ih => simp [numberAll, ih]

/-! ### the walk simulates the recursive specification, with exact fuel -/

structure WalkCtx (n : Nat) (parent : Array Nat) (fk nk : Array (Option Nat)) (rank : Nat → Nat) : Prop where
  inv : KidsInv parent n 0 fk nk
  hp : ∀ w, w < n → getN parent w ≤ n
  hr : ∀ w, w < n → rank w < rank (getN parent w)

section sim
variable {n : Nat} {parent : Array Nat} {fk nk : Array (Option Nat)} {rank : Nat → Nat}

theorem ctx_fk (c : WalkCtx n parent fk nk rank) {d : Nat} (hd : d ≤ n) :
    getO fk d = firstFrom (getN parent) n d 0 := c.inv.hfk d hd

theorem ctx_nk (c : WalkCtx n parent fk nk rank) {w : Nat} (hw : w < n) :
    getO nk w = firstFrom (getN parent) n (getN parent w) (w + 1) := c.inv.hnk w (Nat.zero_le _) hw

/-- statement of the node simulation at recursion depth `f` -/
def SimNode (n : Nat) (parent : Array Nat) (fk nk : Array (Option Nat)) (rank : Nat → Nat) (f : Nat) : Prop :=
  ∀ v, v ≤ n → rank v ≤ f → ∀ (g pn : Nat) (post : Array Nat), pn ≠ n →
    pn + (po (kids (getN parent) n) f v).length ≤ n + 1 →
    walk n parent fk nk (g + 2 * (po (kids (getN parent) n) f v).length) false v pn post =
    walk n parent fk nk (g + 1) true v (pn + (po (kids (getN parent) n) f v).length)
      (numberAll post pn (po (kids (getN parent) n) f v))

theorem simList (c : WalkCtx n parent fk nk rank) (f : Nat) (hN : SimNode n parent fk nk rank f) :
    ∀ (m d w : Nat), d ≤ n → w < n → getN parent w = d → n - w ≤ m → rank d ≤ f + 1 →
    ∀ (g pn : Nat) (post : Array Nat),
      pn + ((w :: kidsFrom (getN parent) n d (w + 1)).flatMap (po (kids (getN parent) n) f)).length ≤ n →
      walk n parent fk nk (g + 2 * ((w :: kidsFrom (getN parent) n d (w + 1)).flatMap (po (kids (getN parent) n) f)).length) false w pn post =
      walk n parent fk nk g true d (pn + ((w :: kidsFrom (getN parent) n d (w + 1)).flatMap (po (kids (getN parent) n) f)).length + 1)
        (numberAll post pn ((w :: kidsFrom (getN parent) n d (w + 1)).flatMap (po (kids (getN parent) n) f) ++ [d])) := by
  intro m
  induction m with
  | zero => intro d w _ hw _ hm; omega
  | succ m ih =>
    intro d w hd hw hpw hm hrd g pn post hb
    have hrw : rank w ≤ f := by have := c.hr w hw; rw [hpw] at this; omega
    simp only [List.flatMap_cons, List.length_append] at hb ⊢
    have hlen := po_length_pos (kids (getN parent) n) f w
    have e1 : ∀ (a b : Nat), g + 2 * (a + b) = (g + 2 * b) + 2 * a := by intro a b; omega
    rw [e1, hN w (Nat.le_of_lt hw) hrw _ pn post (by omega) (by omega)]
    -- now at the climb point of w
    have hnk := ctx_nk c hw
    rw [hpw] at hnk
    cases hf : firstFrom (getN parent) n d (w + 1) with
    | none =>
      have hrest := kidsFrom_of_none _ hf
      rw [hrest]
      simp only [List.flatMap_nil, List.length_nil, Nat.mul_zero, Nat.add_zero, List.append_nil]
      rw [walk, hnk, hf]
      simp only [hpw]
      rw [numberAll_append]
      rfl
    | some w' =>
      obtain ⟨h1, h2, h3, h4⟩ := kidsFrom_of_some _ hf
      rw [walk, hnk, hf]
      simp only
      rw [if_neg (by omega)]
      rw [h4] at hb ⊢
      have := ih d w' hd h2 h3 (by omega) hrd g (pn + (po (kids (getN parent) n) f w).length)
        (numberAll post pn (po (kids (getN parent) n) f w)) (by omega)
      rw [this]
      congr 1
      · omega
      · rw [List.append_assoc, numberAll_append post pn]

theorem simNode (c : WalkCtx n parent fk nk rank) : ∀ f, SimNode n parent fk nk rank f
  | 0 => by
      intro v hv hr g pn post hpn hb
      simp only [po, List.length_singleton] at hb ⊢
      have hfk := ctx_fk c hv
      cases hf : firstFrom (getN parent) n v 0 with
      | none =>
        rw [walk, if_neg hpn, hfk, hf]
        rfl
      | some w =>
        obtain ⟨_, h2, h3, _⟩ := kidsFrom_of_some _ hf
        have := c.hr w h2
        rw [h3] at this
        omega
  | f + 1 => by
      intro v hv hr g pn post hpn hb
      have hfk := ctx_fk c hv
      cases hf : firstFrom (getN parent) n v 0 with
      | none =>
        have hk : kids (getN parent) n v = [] := kidsFrom_of_none _ hf
        simp only [po, hk, List.flatMap_nil, List.nil_append, List.length_singleton] at hb ⊢
        rw [walk, if_neg hpn, hfk, hf]
        rfl
      | some w =>
        obtain ⟨_, h2, h3, h4⟩ := kidsFrom_of_some _ hf
        have hk : kids (getN parent) n v = w :: kidsFrom (getN parent) n v (w + 1) := h4
        simp only [po, hk, List.length_append, List.length_singleton] at hb ⊢
        have e : ∀ a : Nat, g + 2 * (a + 1) = ((g + 1) + 2 * a) + 1 := by intro a; omega
        rw [e, walk, if_neg hpn, hfk, hf]
        simp only
        rw [simList c f (simNode c f) (n - w) v w hv h2 h3 (Nat.le_refl _) hr (g + 1) pn post (by omega)]
        simp only [Nat.add_assoc]

end sim

end Slu.Pre
