/-
First step towards discharging the executable hypothesis `initOk` of the scheduler theorems: `pxgstrf_relax_snode`
(Model/Sched.lean `relaxSnode`) verified for EVERY postordered etree, every `relax`, every n.
The relaxed supernodes it returns are non-empty column intervals inside [0, n), listed in increasing order and pairwise
disjoint — the fact `ParallelInit`'s partition loop (cursor over this list) and `?PresetMap`'s relaxed-supernode cursor rely on.
-/
import SluVerif.Model.Sched
import SluVerif.Model.SchedInit3
namespace Slu

/-- the etree `sp_coletree`+postorder hands over: parent strictly above the child, roots have parent n -/
def PostOrd (n : Nat) (etree : Array Nat) : Prop := ∀ j, j < n → j < getN etree j ∧ getN etree j ≤ n

theorem postOrd_of_postOrdB (n : Nat) (etree : Array Nat) (h : postOrdB n etree = true) : PostOrd n etree := by
  unfold postOrdB at h
  simp only [List.all_eq_true, List.mem_range, Bool.and_eq_true, decide_eq_true_eq] at h
  exact h

theorem climb_ge (n relax : Nat) (etree desc : Array Nat) (h : PostOrd n etree) :
    ∀ fuel j, j < n → j ≤ climb n relax etree desc fuel j ∧ climb n relax etree desc fuel j < n := by
  intro fuel
  induction fuel with
  | zero => intro j hj; simp [climb, hj]
  | succ f ih =>
    intro j hj
    unfold climb
    simp only []
    split
    · rename_i hc
      have hp := h j hj
      have hpn : getN etree j < n := by omega
      have := ih (getN etree j) hpn
      omega
    · omega

theorem nextLeaf_ge (n : Nat) (desc : Array Nat) : ∀ fuel j, j ≤ nextLeaf n desc fuel j := by
  intro fuel
  induction fuel with
  | zero => intro j; simp [nextLeaf]
  | succ f ih =>
    intro j
    unfold nextLeaf
    split
    · have := ih (j + 1); omega
    · omega

/-- what the callers rely on -/
def SnodesOk (n : Nat) (L : List (Nat × Nat)) : Prop :=
  L.Pairwise (fun a b => a.1 + a.2 ≤ b.1) ∧ ∀ a ∈ L, 1 ≤ a.2 ∧ a.1 + a.2 ≤ n

theorem relaxLoop_ok (n relax : Nat) (etree desc : Array Nat) (h : PostOrd n etree) :
    ∀ fuel j acc, SnodesOk n acc.reverse → (∀ a ∈ acc, a.1 + a.2 ≤ j) →
      SnodesOk n (relaxLoop n relax etree desc fuel j acc) := by
  intro fuel
  induction fuel with
  | zero => intro j acc hok _; simpa [relaxLoop] using hok
  | succ f ih =>
    intro j acc hok hb
    unfold relaxLoop
    split
    · rename_i hj
      simp only []
      have hc := climb_ge n relax etree desc h n j hj
      have hn := nextLeaf_ge n desc n (climb n relax etree desc n j + 1)
      apply ih
      · refine ⟨?_, ?_⟩
        · rw [List.reverse_cons, List.pairwise_append]
          refine ⟨hok.1, by simp, ?_⟩
          intro a ha b hb'
          simp only [List.mem_singleton] at hb'
          subst hb'
          exact hb a (List.mem_reverse.mp ha)
        · intro a ha
          rw [List.reverse_cons, List.mem_append] at ha
          rcases ha with ha | ha
          · exact hok.2 a ha
          · simp only [List.mem_singleton] at ha
            subst ha
            simp only []
            omega
      · intro a ha
        rcases List.mem_cons.mp ha with ha | ha
        · subst ha; simp only []; omega
        · have := hb a ha; omega
    · exact hok

/-- **`pxgstrf_relax_snode`, every postordered etree, every `relax`, every n**: the relaxed supernodes are non-empty,
lie inside [0, n), come in increasing column order and never share a column. -/
theorem relaxSnode_ok (n relax : Nat) (etree : Array Nat) (h : PostOrd n etree) :
    SnodesOk n (relaxSnode n relax etree) := by
  unfold relaxSnode
  apply relaxLoop_ok n relax etree _ h
  · exact ⟨by simp, by simp⟩
  · simp

/-- two different relaxed supernodes have no column in common -/
theorem relaxSnode_disjoint (n relax : Nat) (etree : Array Nat) (h : PostOrd n etree) (a b : Nat × Nat)
    (hab : [a, b].Sublist (relaxSnode n relax etree)) (k : Nat) (ha : a.1 ≤ k ∧ k < a.1 + a.2) :
    ¬ (b.1 ≤ k ∧ k < b.1 + b.2) := by
  have hp := (relaxSnode_ok n relax etree h).1.sublist hab
  simp only [List.pairwise_cons, List.mem_singleton, forall_eq] at hp
  omega

/-- the first columns are strictly increasing (the cursor of `ParallelInit`/`?PresetMap` never has to go back) -/
theorem relaxSnode_fcols_increasing (n relax : Nat) (etree : Array Nat) (h : PostOrd n etree) :
    ((relaxSnode n relax etree).map Prod.fst).Pairwise (· < ·) := by
  have hk := relaxSnode_ok n relax etree h
  rw [List.pairwise_map]
  refine (List.Pairwise.and_mem.mp hk.1).imp ?_
  intro a b hab
  have := hk.2 a hab.1
  omega


/-! ### The fuel of the model never runs out: the recursive definitions are the C `while` loops

`climb`, `nextLeaf` and `relaxLoop` take a fuel argument to be total.  The three theorems below show that with the fuel
`relaxSnode` passes (n, n, n + 1) each loop ends because its C exit condition became false, never because the fuel was used
up — so the model has exactly the runs of `pxgstrf_relax_snode`, and those loops terminate on every postordered etree. -/

theorem climb_stops (n relax : Nat) (etree desc : Array Nat) (h : PostOrd n etree) :
    ∀ fuel j, j < n → n ≤ fuel + j →
      ¬ (getN etree (climb n relax etree desc fuel j) ≠ n ∧ getN desc (getN etree (climb n relax etree desc fuel j)) < relax) := by
  intro fuel
  induction fuel with
  | zero => intro j hj hf; omega
  | succ f ih =>
    intro j hj hf
    unfold climb
    simp only []
    split
    · rename_i hc
      have hp := h j hj
      exact ih (getN etree j) (by omega) (by omega)
    · rename_i hc; exact hc

theorem nextLeaf_stops (n : Nat) (desc : Array Nat) :
    ∀ fuel j, n ≤ fuel + j → ¬ (getN desc (nextLeaf n desc fuel j) ≠ 0 ∧ nextLeaf n desc fuel j < n) := by
  intro fuel
  induction fuel with
  | zero => intro j hf; simp only [nextLeaf]; omega
  | succ f ih =>
    intro j hf
    unfold nextLeaf
    split
    · exact ih (j + 1) (by omega)
    · rename_i hc; exact hc

/-- any two sufficient amounts of fuel give the same list: the outer loop ends by `j ≥ n` -/
theorem relaxLoop_fuel_irrelevant (n relax : Nat) (etree desc : Array Nat) (h : PostOrd n etree) :
    ∀ f1 f2 j acc, n + 1 ≤ f1 + j → n + 1 ≤ f2 + j →
      relaxLoop n relax etree desc f1 j acc = relaxLoop n relax etree desc f2 j acc := by
  intro f1
  induction f1 with
  | zero =>
    intro f2 j acc h1 h2
    cases f2 with
    | zero => rfl
    | succ f2 => simp only [relaxLoop]; rw [if_neg (by omega)]
  | succ f1 ih =>
    intro f2 j acc h1 h2
    cases f2 with
    | zero => simp only [relaxLoop]; rw [if_neg (by omega)]
    | succ f2 =>
      simp only [relaxLoop]
      split
      · rename_i hj
        have hc := climb_ge n relax etree desc h n j hj
        have hn := nextLeaf_ge n desc n (climb n relax etree desc n j + 1)
        exact ih f2 _ _ (by omega) (by omega)
      · rfl

/-- `relaxSnode` with any larger fuel is the same function -/
theorem relaxSnode_fuel_irrelevant (n relax : Nat) (etree : Array Nat) (h : PostOrd n etree) (extra : Nat) :
    relaxLoop n relax etree (descCounts n etree) (n + 1 + extra) 0 [] = relaxSnode n relax etree := by
  unfold relaxSnode
  exact relaxLoop_fuel_irrelevant n relax etree _ h _ _ 0 [] (by omega) (by omega)


/-- every entry is `(j, climb j − j + 1)` for a column j < n -/
theorem relaxLoop_entries (n relax : Nat) (etree desc : Array Nat) :
    ∀ fuel j acc, (∀ a ∈ acc, a.1 < n ∧ a.2 = climb n relax etree desc n a.1 - a.1 + 1) →
      ∀ a ∈ relaxLoop n relax etree desc fuel j acc, a.1 < n ∧ a.2 = climb n relax etree desc n a.1 - a.1 + 1 := by
  intro fuel
  induction fuel with
  | zero => intro j acc hq a ha; simp only [relaxLoop, List.mem_reverse] at ha; exact hq a ha
  | succ f ih =>
    intro j acc hq
    unfold relaxLoop
    split
    · rename_i hj
      simp only []
      apply ih
      intro a ha
      rcases List.mem_cons.mp ha with ha | ha
      · subst ha; exact ⟨hj, rfl⟩
      · exact hq a ha
    · intro a ha; exact hq a (List.mem_reverse.mp ha)

/-- **Maximality** (the rule stated in the header of pxgstrf_relax_snode.c): the top column of every relaxed supernode is a root of
the etree or its parent has at least `relax` descendants — the supernode was not cut short. -/
theorem relaxSnode_top_maximal (n relax : Nat) (etree : Array Nat) (h : PostOrd n etree) (a : Nat × Nat)
    (ha : a ∈ relaxSnode n relax etree) :
    let top := a.1 + a.2 - 1
    top < n ∧ ¬ (getN etree top ≠ n ∧ getN (descCounts n etree) (getN etree top) < relax) := by
  have he := relaxLoop_entries n relax etree (descCounts n etree) (n + 1) 0 [] (by simp) a ha
  have hc := climb_ge n relax etree (descCounts n etree) h n a.1 he.1
  have hs := climb_stops n relax etree (descCounts n etree) h n a.1 he.1 (by omega)
  have ht : a.1 + a.2 - 1 = climb n relax etree (descCounts n etree) n a.1 := by omega
  simp only [ht]
  exact ⟨hc.2, hs⟩

/-- the form the driver's per-configuration evaluation discharges -/
theorem relaxSnode_ok_of_check (c : PanelCfg) (h : postOrdB c.n c.etree = true) :
    SnodesOk c.n (relaxSnode c.n c.relax c.etree) :=
  relaxSnode_ok c.n c.relax c.etree (postOrd_of_postOrdB c.n c.etree h)

-- non-vacuity: a 7-column postordered forest with two leaves' chains
example : PostOrd 7 #[2, 2, 6, 4, 5, 6, 7] := by
  unfold PostOrd; decide
example : relaxSnode 7 2 #[2, 2, 6, 4, 5, 6, 7] = [(0, 1), (1, 1), (3, 2)] := by decide

end Slu
