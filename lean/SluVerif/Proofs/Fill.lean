/- symbolic elimination (`fill`), the elimination tree it defines, and the classical structure lemmas:
   a fill edge (k,j) makes k an ancestor of j; the row structure of k is a union of tree paths starting at
   original entries of row k (row-subtree characterisation). -/
import SluVerif.Proofs.Forest
namespace Slu.Pre

/-- graph after eliminating the vertices `0..k-1` (edge relation, as a Bool function) -/
def fill (G : Nat → Nat → Bool) : Nat → Nat → Nat → Bool
  | 0, a, b => G a b
  | j + 1, a, b => fill G j a b ||
      (decide (j < a) && decide (j < b) && decide (a ≠ b) && fill G j a j && fill G j j b)

theorem fill_succ_iff (G : Nat → Nat → Bool) (k a b : Nat) :
    fill G (k + 1) a b = true ↔
      (fill G k a b = true ∨ (k < a ∧ k < b ∧ a ≠ b ∧ fill G k a k = true ∧ fill G k k b = true)) := by
  simp only [fill, Bool.or_eq_true, Bool.and_eq_true, decide_eq_true_eq, and_assoc]

theorem fill_mono {G : Nat → Nat → Bool} {a b : Nat} : ∀ {k k' : Nat}, k ≤ k' → fill G k a b = true → fill G k' a b = true := by
  intro k k' h
  induction h with
  | refl => exact id
  | step _ ih => intro hf; exact (fill_succ_iff G _ a b).2 (Or.inl (ih hf))

theorem fill_stable {G : Nat → Nat → Bool} {a b k : Nat} (hk : a ≤ k ∨ b ≤ k) :
    ∀ d, fill G (k + d) a b = true → fill G k a b = true
  | 0, h => h
  | d + 1, h => by
      rcases (fill_succ_iff G (k + d) a b).1 h with h' | h'
      · exact fill_stable hk d h'
      · omega

theorem fill_stable' {G : Nat → Nat → Bool} {a b k k' : Nat} (hk : a ≤ k ∨ b ≤ k) (hkk : k ≤ k')
    (h : fill G k' a b = true) : fill G k a b = true := by
  have : k' = k + (k' - k) := by omega
  rw [this] at h
  exact fill_stable hk _ h

theorem fill_symm {G : Nat → Nat → Bool} (hs : ∀ a b, G a b = G b a) : ∀ k a b, fill G k a b = fill G k b a
  | 0, a, b => hs a b
  | k + 1, a, b => by
      rw [Bool.eq_iff_iff, fill_succ_iff, fill_succ_iff, fill_symm hs k a b, fill_symm hs k a k, fill_symm hs k k b]
      constructor
      · rintro (h | ⟨h1, h2, h3, h4, h5⟩)
        · exact Or.inl h
        · exact Or.inr ⟨h2, h1, fun h => h3 h.symm, h5, h4⟩
      · rintro (h | ⟨h1, h2, h3, h4, h5⟩)
        · exact Or.inl h
        · exact Or.inr ⟨h2, h1, fun h => h3 h.symm, h5, h4⟩

/-- every fill edge is an original edge or was created by eliminating a smaller common neighbour -/
theorem fill_decomp {G : Nat → Nat → Bool} {a b : Nat} : ∀ {t : Nat}, fill G t a b = true →
    G a b = true ∨ ∃ s, s < t ∧ s < a ∧ s < b ∧ a ≠ b ∧ fill G s a s = true ∧ fill G s s b = true
  | 0, h => Or.inl h
  | t + 1, h => by
      rcases (fill_succ_iff G t a b).1 h with h' | ⟨h1, h2, h3, h4, h5⟩
      · rcases fill_decomp h' with h'' | ⟨s, hs, rest⟩
        · exact Or.inl h''
        · exact Or.inr ⟨s, by omega, rest⟩
      · exact Or.inr ⟨t, by omega, h1, h2, h3, h4, h5⟩

/-- `par` is the elimination tree of `G` on `0..n-1`: `par j` is the first `i > j` with a fill edge `(i,j)`,
`n` when there is none. -/
def IsEtree (G : Nat → Nat → Bool) (n : Nat) (par : Nat → Nat) : Prop :=
  ∀ j, j < n → j < par j ∧ par j ≤ n ∧ (par j < n → fill G n (par j) j = true) ∧
    ∀ i, j < i → i < par j → fill G n i j = false

section etree
variable {G : Nat → Nat → Bool} {n : Nat} {par : Nat → Nat}

theorem IsEtree.fctx (he : IsEtree G n par) : FCtx par n (fun x => x) :=
  ⟨fun w hw => (he w hw).2.1, fun w hw => (he w hw).1⟩

theorem etree_step (hs : ∀ a b, G a b = G b a) (he : IsEtree G n par) {k j : Nat}
    (hE : fill G n k j = true) (hjk : j < k) (hkn : k < n) :
    par j = k ∨ (par j < k ∧ fill G n k (par j) = true) := by
  obtain ⟨h1, h2, h3, h4⟩ := he j (by omega)
  have hpk : par j ≤ k := by
    apply Nat.le_of_not_lt
    intro hlt
    have := h4 k hjk hlt
    rw [hE] at this; cases this
  by_cases hp : par j = k
  · exact Or.inl hp
  · right
    have hpk' : par j < k := by omega
    refine ⟨hpk', ?_⟩
    have e1 : fill G j (par j) j = true := fill_stable' (Or.inr (Nat.le_refl _)) (by omega) (h3 (by omega))
    have e2 : fill G j j k = true := by
      rw [fill_symm hs]
      exact fill_stable' (Or.inr (Nat.le_refl _)) (by omega) hE
    have e3 : fill G (j + 1) (par j) k = true :=
      (fill_succ_iff G j _ _).2 (Or.inr ⟨h1, hjk, by omega, e1, e2⟩)
    rw [fill_symm hs]
    exact fill_mono (by omega) e3

/-- a fill edge `(k, j)`, `j < k`, makes `k` an ancestor of `j` -/
theorem etree_anc (hs : ∀ a b, G a b = G b a) (he : IsEtree G n par) :
    ∀ (d k j : Nat), k - j ≤ d → fill G n k j = true → j < k → k < n → Desc par n k j := by
  intro d
  induction d with
  | zero => intro k j hd _ hjk _; omega
  | succ d ih =>
      intro k j hd hE hjk hkn
      have hj := he j (by omega)
      rcases etree_step hs he hE hjk hkn with hp | ⟨hp1, hp2⟩
      · have : Desc par n k (par j) := by rw [hp]; exact Desc.refl _
        exact Desc.step (by omega) this
      · exact Desc.step (by omega) (ih k (par j) (by omega) hp2 hp1 hkn)

theorem desc_le (he : IsEtree G n par) {v x : Nat} (h : Desc par n v x) : x ≤ v := by
  induction h with
  | refl => exact Nat.le_refl _
  | step hx _ ih => have := (he _ hx).1; omega

/-- row structure, direction ⇐ : a (fill) entry of row `k` at `x` propagates up the tree to every ancestor
of `x` below `k` -/
theorem row_subtree_bwd (hs : ∀ a b, G a b = G b a) (he : IsEtree G n par) {k j x : Nat}
    (hd : Desc par n j x) (hE : fill G n k x = true) (hxk : x < k) (hjk : j < k) (hkn : k < n) :
    fill G n k j = true := by
  induction hd with
  | refl => exact hE
  | @step x hx hd' ih =>
      rcases etree_step hs he hE hxk hkn with hp | ⟨hp1, hp2⟩
      · rw [hp] at hd'
        have := desc_le he hd'
        omega
      · exact ih hp2 hp1

/-- row structure, direction ⇒ : every fill entry `(k, j)` comes from an original entry `(k, i)` with
`i ≤ j` in the subtree of `j` -/
theorem row_subtree_fwd (hs : ∀ a b, G a b = G b a) (he : IsEtree G n par) :
    ∀ (m j k : Nat), j ≤ m → fill G n k j = true → j < k → k < n →
      ∃ i, i ≤ j ∧ G k i = true ∧ Desc par n j i := by
  intro m
  induction m with
  | zero =>
      intro j k hj hE hjk hkn
      have hj0 : j = 0 := by omega
      subst hj0
      have h0 : fill G 0 k 0 = true := fill_stable' (Or.inr (Nat.le_refl _)) (by omega) hE
      exact ⟨0, Nat.le_refl _, h0, Desc.refl _⟩
  | succ m ih =>
      intro j k hj hE hjk hkn
      have hj' : fill G j k j = true := fill_stable' (Or.inr (Nat.le_refl _)) (by omega) hE
      rcases fill_decomp hj' with h | ⟨s, hs1, hs2, hs3, _, hs5, hs6⟩
      · exact ⟨j, Nat.le_refl _, h, Desc.refl _⟩
      · have e1 : fill G n k s = true := fill_mono (by omega) hs5
        have e2 : fill G n j s = true := by rw [fill_symm hs]; exact fill_mono (by omega) hs6
        obtain ⟨i, hi1, hi2, hi3⟩ := ih s k (by omega) e1 hs2 hkn
        have hanc := etree_anc hs he (j - s) j s (Nat.le_refl _) e2 hs3 (by omega)
        exact ⟨i, by omega, hi2, hanc.trans hi3⟩

/-- two elimination trees of the same graph agree -/
theorem IsEtree.unique {par' : Nat → Nat} (he : IsEtree G n par) (he' : IsEtree G n par') :
    ∀ j, j < n → par j = par' j := by
  intro j hj
  obtain ⟨a1, a2, a3, a4⟩ := he j hj
  obtain ⟨b1, b2, b3, b4⟩ := he' j hj
  apply Nat.le_antisymm
  · apply Nat.le_of_not_lt
    intro hlt
    have := a4 (par' j) b1 hlt
    rw [b3 (by omega)] at this; cases this
  · apply Nat.le_of_not_lt
    intro hlt
    have := b4 (par j) a1 hlt
    rw [a3 (by omega)] at this; cases this

end etree

end Slu.Pre
