/- ?CompRow_to_CompCol (pdutil.c:83-121): the counting sort of Model/Blas.lean produces a well-formed
   column-compressed store that denotes the same dense matrix as the row-compressed input -/
import SluVerif.Proofs.BlasGemv
set_option linter.unusedSectionVars false
set_option linter.unusedSimpArgs false
set_option linter.unusedVariables false
namespace Slu.Blas
open Finset
variable {α : Type}

/-! ### `rdN` primitives -/

theorem rdN_eq_rd (a : Array Nat) (i : Nat) : rdN a i = rd a i := rfl

theorem rdN_wr (a : Array Nat) (i k v : Nat) :
    rdN (wr a i v) k = if k = i ∧ i < a.size then v else rdN a k := rd_wr a i k v

theorem rdN_replicate (n k : Nat) : rdN (Array.replicate n 0) k = 0 := by
  unfold rdN
  by_cases h : k < n <;> simp [Array.getD, h]

theorem rd_replicate [Zero α] (n k : Nat) : rd (Array.replicate n (0 : α)) k = 0 := by
  unfold rd
  by_cases h : k < n <;> simp [Array.getD, h]

/-! ### the doubly nested `for i < m, for j in rowptr[i] .. rowptr[i+1]-1` loop as one sweep over positions -/

theorem foldl_nested_inv {σ : Type} (rp : Nat → Nat) (m : Nat) (hmono : ∀ i < m, rp i ≤ rp (i + 1))
    (P : Nat → σ → Prop) (body : σ → Nat → Nat → σ) (s0 : σ) (h0 : P (rp 0) s0)
    (hs : ∀ i < m, ∀ p, rp i ≤ p → p < rp (i + 1) → ∀ s, P p s → P (p + 1) (body s i p)) :
    P (rp m) ((List.range m).foldl
      (fun s i => (List.range (rp (i + 1) - rp i)).foldl (fun s k => body s i (rp i + k)) s) s0) := by
  refine foldl_range_inv (fun i s => P (rp i) s) _ s0 m h0 ?_
  intro i s hi hP
  have key := foldl_range_inv (fun k s => P (rp i + k) s) (fun s k => body s i (rp i + k)) s
    (rp (i + 1) - rp i) (by simpa using hP) (by
      intro k s' hk hP'
      exact hs i hi (rp i + k) (by omega) (by omega) s' hP')
  have e : rp i + (rp (i + 1) - rp i) = rp (i + 1) := by have := hmono i hi; omega
  rw [e] at key
  exact key

section Defs
variable [CommRing α]

/-- dense entry (i,j) denoted by a row-compressed store -/
def denseNR (a : Array α) (colind rowptr : Array Nat) (i j : Nat) : α :=
  ∑ k ∈ range (rdN rowptr (i + 1) - rdN rowptr i),
    if rdN colind (rdN rowptr i + k) = j then rd a (rdN rowptr i + k) else 0

end Defs

/-- well-formed row-compressed input (what the C routine needs to stay inside its arrays) -/
structure NRwf (m n nnz : Nat) (colind rowptr : Array Nat) : Prop where
  ptr0 : rdN rowptr 0 = 0
  mono : ∀ i < m, rdN rowptr i ≤ rdN rowptr (i + 1)
  last : rdN rowptr m = nnz
  cols : ∀ k < nnz, rdN colind k < n

theorem NRwf.mono_le {m n nnz : Nat} {colind rowptr : Array Nat} (h : NRwf m n nnz colind rowptr)
    (a b : Nat) (hab : a ≤ b) (hb : b ≤ m) : rdN rowptr a ≤ rdN rowptr b := by
  induction b with
  | zero => have : a = 0 := by omega
            subst this; exact Nat.le_refl _
  | succ b ih =>
    by_cases e : a = b + 1
    · subst e; exact Nat.le_refl _
    · exact Nat.le_trans (ih (by omega) (by omega)) (h.mono b (by omega))

/-- the row that owns a position is unique -/
theorem NRwf.row_unique {m n nnz : Nat} {colind rowptr : Array Nat} (h : NRwf m n nnz colind rowptr)
    (i i0 p : Nat) (hi : i < m) (hi0 : i0 < m) (h1 : rdN rowptr i0 ≤ p) (h2 : p < rdN rowptr (i0 + 1)) :
    (i0 = i) ↔ (rdN rowptr i ≤ p ∧ p < rdN rowptr (i + 1)) := by
  constructor
  · intro e; subst e; exact ⟨h1, h2⟩
  · rintro ⟨h3, h4⟩
    by_contra hne
    rcases Nat.lt_or_gt_of_ne hne with hlt | hgt
    · have := h.mono_le (i0 + 1) i (by omega) (by omega); omega
    · have := h.mono_le (i + 1) i0 (by omega) (by omega); omega

/-! ### counts -/

/-- number of positions `q < p` whose column index is `c` -/
def cnt (colind : Array Nat) (c p : Nat) : Nat := ∑ q ∈ range p, if rdN colind q = c then 1 else 0

/-- number of entries in columns `< c` -/
def cum (colind : Array Nat) (nnz c : Nat) : Nat := ∑ c' ∈ range c, cnt colind c' nnz

theorem cnt_zero (colind : Array Nat) (c : Nat) : cnt colind c 0 = 0 := by simp [cnt]

theorem cnt_succ (colind : Array Nat) (c p : Nat) :
    cnt colind c (p + 1) = cnt colind c p + if rdN colind p = c then 1 else 0 := by
  unfold cnt; rw [sum_range_succ]

theorem cnt_mono (colind : Array Nat) (c : Nat) {p p' : Nat} (h : p ≤ p') : cnt colind c p ≤ cnt colind c p' := by
  induction h with
  | refl => exact Nat.le_refl _
  | step _ ih => rw [cnt_succ]; omega

theorem cum_zero (colind : Array Nat) (nnz : Nat) : cum colind nnz 0 = 0 := by simp [cum]

theorem cum_succ (colind : Array Nat) (nnz c : Nat) :
    cum colind nnz (c + 1) = cum colind nnz c + cnt colind c nnz := by
  simp [cum, sum_range_succ]

theorem cum_mono (colind : Array Nat) (nnz : Nat) {c c' : Nat} (h : c ≤ c') : cum colind nnz c ≤ cum colind nnz c' := by
  induction h with
  | refl => exact Nat.le_refl _
  | step _ ih => rw [cum_succ]; omega

theorem cum_total (colind : Array Nat) (n nnz : Nat) (hc : ∀ k < nnz, rdN colind k < n) :
    cum colind nnz n = nnz := by
  unfold cum cnt
  rw [sum_comm]
  have : ∀ q ∈ range nnz, (∑ c ∈ range n, if rdN colind q = c then 1 else 0) = 1 := by
    intro q hq
    rw [sum_ite_eq]
    simp [hc q (mem_range.mp hq)]
  rw [sum_congr rfl this]
  simp

/-! ### phase 1: counting -/

theorem countCols_spec (m n nnz : Nat) (colind rowptr : Array Nat) (h : NRwf m n nnz colind rowptr) :
    (countCols m n colind rowptr).size = n ∧
    ∀ c < n, rdN (countCols m n colind rowptr) c = cnt colind c nnz := by
  have key := foldl_nested_inv (rdN rowptr) m h.mono
    (fun p (mk : Array Nat) => mk.size = n ∧ ∀ c < n, rdN mk c = cnt colind c p)
    (fun mk _ p => wr mk (rdN colind p) (rdN mk (rdN colind p) + 1))
    (Array.replicate n 0)
    (by
      rw [h.ptr0]
      refine ⟨by simp, fun c _ => ?_⟩
      rw [rdN_replicate, cnt_zero])
    (by
      intro i hi p h1 h2 mk ⟨hsz, hv⟩
      have hp : p < nnz := by
        have := h.mono_le (i + 1) m (by omega) (Nat.le_refl _)
        rw [h.last] at this; omega
      have hc0 := h.cols p hp
      refine ⟨by simp [hsz], fun c hc => ?_⟩
      rw [rdN_wr, cnt_succ, hsz]
      by_cases e : c = rdN colind p
      · subst e
        simp [hc0, hv _ hc0]
      · have e' : ¬ (rdN colind p = c) := fun x => e x.symm
        simp [e, e', hv c hc])
  rw [h.last] at key
  exact key

/-! ### phase 2: prefix sums -/

theorem setupPtrs_spec (n : Nat) (marker : Array Nat) (f : Nat → Nat) (hsz : marker.size = n)
    (hm : ∀ c < n, rdN marker c = f c) :
    (setupPtrs n marker).1.size = n + 1 ∧ (setupPtrs n marker).2.size = n ∧
    (∀ c ≤ n, rdN (setupPtrs n marker).1 c = ∑ c' ∈ range c, f c') ∧
    (∀ c < n, rdN (setupPtrs n marker).2 c = ∑ c' ∈ range c, f c') := by
  have key := foldl_range_inv
    (fun j (st : Array Nat × Array Nat) => st.1.size = n + 1 ∧ st.2.size = n ∧
      (∀ c ≤ j, rdN st.1 c = ∑ c' ∈ range c, f c') ∧
      (∀ c < j, rdN st.2 c = ∑ c' ∈ range c, f c') ∧
      (∀ c, j ≤ c → c < n → rdN st.2 c = f c))
    (fun (st : Array Nat × Array Nat) j =>
      (wr st.1 (j + 1) (rdN st.1 j + rdN st.2 j), wr st.2 j (rdN st.1 j)))
    (Array.replicate (n + 1) 0, marker) n
    (by
      refine ⟨by simp, hsz, ?_, ?_, ?_⟩
      · intro c hc
        have : c = 0 := by omega
        subst this
        simp [rdN_replicate]
      · intro c hc; omega
      · intro c _ hc; exact hm c hc)
    (by
      intro j st hj ⟨s1, s2, a1, a2, a3⟩
      refine ⟨by simp [s1], by simp [s2], ?_, ?_, ?_⟩
      · intro c hc
        show rdN (wr st.1 (j + 1) (rdN st.1 j + rdN st.2 j)) c = _
        rw [rdN_wr, s1]
        by_cases e : c = j + 1
        · subst e
          simp only [true_and, Nat.add_lt_add_iff_right, hj, if_true]
          rw [a1 j (Nat.le_refl _), a3 j (Nat.le_refl _) hj, sum_range_succ]
        · simp only [e, false_and, if_false]
          exact a1 c (by omega)
      · intro c hc
        show rdN (wr st.2 j (rdN st.1 j)) c = _
        rw [rdN_wr, s2]
        by_cases e : c = j
        · subst e
          simp only [true_and, hj, if_true]
          exact a1 c (Nat.le_refl _)
        · simp only [e, false_and, if_false]
          exact a2 c (by omega)
      · intro c hc hcn
        show rdN (wr st.2 j (rdN st.1 j)) c = _
        rw [rdN_wr]
        have e : ¬ (c = j) := by omega
        simp only [e, false_and, if_false]
        exact a3 c (by omega) hcn)
  obtain ⟨s1, s2, a1, a2, _⟩ := key
  exact ⟨s1, s2, a1, a2⟩

/-! ### phase 3: transfer -/

section Xfer
variable [CommRing α]

/-- loop invariant of the transfer sweep after the positions `< p` have been moved -/
structure XInv (m n nnz : Nat) (a : Array α) (colind rowptr : Array Nat) (p : Nat) (st : XferSt α) : Prop where
  szm : st.marker.size = n
  szr : st.rowind.size = nnz
  sza : st.at_.size = nnz
  mks : ∀ c < n, rdN st.marker c = cum colind nnz c + cnt colind c p
  rows : ∀ k < nnz, rdN st.rowind k < m
  sums : ∀ c < n, ∀ i < m,
    (∑ t ∈ range (cnt colind c p),
        if rdN st.rowind (cum colind nnz c + t) = i then rd st.at_ (cum colind nnz c + t) else 0)
      = ∑ q ∈ range p, if rdN colind q = c ∧ rdN rowptr i ≤ q ∧ q < rdN rowptr (i + 1) then rd a q else 0

theorem XInv.step (m n nnz : Nat) (a : Array α) (colind rowptr : Array Nat)
    (h : NRwf m n nnz colind rowptr) (i0 : Nat) (hi0 : i0 < m) (p : Nat)
    (h1 : rdN rowptr i0 ≤ p) (h2 : p < rdN rowptr (i0 + 1)) (st : XferSt α)
    (inv : XInv m n nnz a colind rowptr p st) :
    XInv m n nnz a colind rowptr (p + 1)
      { marker := wr st.marker (rdN colind p) (rdN st.marker (rdN colind p) + 1),
        rowind := wr st.rowind (rdN st.marker (rdN colind p)) i0,
        at_ := wr st.at_ (rdN st.marker (rdN colind p)) (rd a p) } := by
  have hp : p < nnz := by
    have := h.mono_le (i0 + 1) m (by omega) (Nat.le_refl _)
    rw [h.last] at this; omega
  have hc0 := h.cols p hp
  have hslot := inv.mks _ hc0
  -- the slot lies inside column c0's extent
  have hcnt : cnt colind (rdN colind p) p + 1 ≤ cnt colind (rdN colind p) nnz := by
    have := cnt_mono colind (rdN colind p) (Nat.succ_le_of_lt hp)
    rw [cnt_succ] at this; simpa using this
  have hcs := cum_succ colind nnz (rdN colind p)
  have hcn : cum colind nnz (rdN colind p + 1) ≤ nnz := by
    have := cum_mono colind nnz (show rdN colind p + 1 ≤ n from hc0)
    rwa [cum_total colind n nnz h.cols] at this
  have hlt : rdN st.marker (rdN colind p) < nnz := by omega
  -- other columns' filled slots are different from the slot
  have hdisj : ∀ c < n, c ≠ rdN colind p → ∀ t < cnt colind c p,
      cum colind nnz c + t ≠ rdN st.marker (rdN colind p) := by
    intro c hc hne t ht
    have ht' : t < cnt colind c nnz := Nat.lt_of_lt_of_le ht (cnt_mono colind c (Nat.le_of_lt hp))
    have hcs' := cum_succ colind nnz c
    rcases Nat.lt_or_gt_of_ne hne with hl | hg
    · have := cum_mono colind nnz (show c + 1 ≤ rdN colind p from hl); omega
    · have := cum_mono colind nnz (show rdN colind p + 1 ≤ c from hg); omega
  refine ⟨by simp [inv.szm], by simp [inv.szr], by simp [inv.sza], ?_, ?_, ?_⟩
  · intro c hc
    show rdN (wr st.marker (rdN colind p) (rdN st.marker (rdN colind p) + 1)) c = _
    rw [rdN_wr, cnt_succ, inv.szm]
    by_cases e : c = rdN colind p
    · subst e
      simp only [true_and, hc0, if_true, hslot]; omega
    · have e' : ¬ (rdN colind p = c) := fun x => e x.symm
      simp only [e, e', false_and, if_false, inv.mks c hc, Nat.add_zero]
  · intro k hk
    show rdN (wr st.rowind (rdN st.marker (rdN colind p)) i0) k < m
    rw [rdN_wr]
    by_cases e : k = rdN st.marker (rdN colind p) ∧ rdN st.marker (rdN colind p) < st.rowind.size
    · simp only [e, and_self, if_true]; exact hi0
    · simp only [e, if_false]; exact inv.rows k hk
  · intro c hc i hi
    show (∑ t ∈ range (cnt colind c (p + 1)),
        if rdN (wr st.rowind (rdN st.marker (rdN colind p)) i0) (cum colind nnz c + t) = i
        then rd (wr st.at_ (rdN st.marker (rdN colind p)) (rd a p)) (cum colind nnz c + t) else 0) = _
    rw [sum_range_succ (n := p), ← inv.sums c hc i hi, cnt_succ]
    by_cases e : c = rdN colind p
    · subst e
      simp only [if_true, true_and]
      rw [sum_range_succ, ← hslot]
      congr 1
      · apply sum_congr rfl
        intro t ht
        have hne : cum colind nnz (rdN colind p) + t ≠ rdN st.marker (rdN colind p) := by
          have := mem_range.mp ht; omega
        rw [rdN_wr, rd_wr]
        simp only [hne, false_and, if_false]
      · rw [rdN_wr, rd_wr, inv.szr, inv.sza]
        simp only [hlt, and_self, if_true]
        have := h.row_unique i i0 p hi hi0 h1 h2
        by_cases e2 : i0 = i
        · simp only [e2, if_true, this.mp e2, and_self]
        · have : ¬ (rdN rowptr i ≤ p ∧ p < rdN rowptr (i + 1)) := fun x => e2 (this.mpr x)
          simp only [e2, this, if_false]
    · have e' : ¬ (rdN colind p = c) := fun x => e x.symm
      simp only [e', false_and, if_false, Nat.add_zero, add_zero]
      apply sum_congr rfl
      intro t ht
      have hne := hdisj c hc e t (mem_range.mp ht)
      rw [rdN_wr, rd_wr]
      simp only [hne, false_and, if_false]

theorem transfer_spec (m n nnz : Nat) (a : Array α) (colind rowptr : Array Nat) (marker : Array Nat)
    (h : NRwf m n nnz colind rowptr) (hsz : marker.size = n)
    (hmk : ∀ c < n, rdN marker c = cum colind nnz c) :
    XInv m n nnz a colind rowptr nnz (transfer m nnz a colind rowptr marker) := by
  have key := foldl_nested_inv (rdN rowptr) m h.mono
    (fun p (st : XferSt α) => XInv m n nnz a colind rowptr p st)
    (fun st i p =>
      { marker := wr st.marker (rdN colind p) (rdN st.marker (rdN colind p) + 1),
        rowind := wr st.rowind (rdN st.marker (rdN colind p)) i,
        at_ := wr st.at_ (rdN st.marker (rdN colind p)) (rd a p) })
    { marker := marker, rowind := Array.replicate nnz 0, at_ := Array.replicate nnz 0 }
    (by
      rw [h.ptr0]
      refine ⟨hsz, by simp, by simp, ?_, ?_, ?_⟩
      · intro c hc; rw [cnt_zero]; exact hmk c hc
      · intro k hk
        show rdN (Array.replicate nnz 0) k < m
        rw [rdN_replicate]
        rcases Nat.eq_zero_or_pos m with e | e
        · have h0 := h.ptr0; have hl := h.last; rw [e] at hl; omega
        · exact e
      · intro c hc i hi
        simp [cnt_zero])
    (fun i hi p h1 h2 st inv => XInv.step m n nnz a colind rowptr h i hi p h1 h2 st inv)
  rw [h.last] at key
  exact key

/-- restriction of a sum over all positions to the positions of row `i` -/
theorem sum_row_window (g : Nat → α) (lo hi N : Nat) (h1 : lo ≤ hi) (h2 : hi ≤ N) :
    (∑ q ∈ range N, if lo ≤ q ∧ q < hi then g q else 0) = ∑ k ∈ range (hi - lo), g (lo + k) := by
  rw [← sum_Ico_eq_sum_range, ← sum_filter]
  apply sum_congr _ (fun _ _ => rfl)
  ext q
  simp only [mem_filter, mem_range, mem_Ico]
  omega

theorem compRowToCompCol_spec' (m n nnz : Nat) (a : Array α) (colind rowptr : Array Nat)
    (h : NRwf m n nnz colind rowptr) :
    let r := compRowToCompCol m n nnz a colind rowptr
    let B : NCMat α := { nrow := m, ncol := n, nnz := nnz, colptr := r.colptr, rowind := r.rowind, nzval := r.at_ }
    r.colptr.size = n + 1 ∧ r.rowind.size = nnz ∧ r.at_.size = nnz ∧
    rdN r.colptr 0 = 0 ∧ (∀ j < n, rdN r.colptr j ≤ rdN r.colptr (j + 1)) ∧ rdN r.colptr n = nnz ∧
    (∀ k < nnz, rdN r.rowind k < m) ∧
    (∀ i < m, ∀ j < n, B.dense i j = denseNR a colind rowptr i j) := by
  intro r B
  obtain ⟨c1, c2⟩ := countCols_spec m n nnz colind rowptr h
  obtain ⟨p1, p2, p3, p4⟩ := setupPtrs_spec n (countCols m n colind rowptr)
    (fun c => cnt colind c nnz) c1 c2
  have p3' : ∀ c ≤ n, rdN r.colptr c = cum colind nnz c := p3
  have inv := transfer_spec m n nnz a colind rowptr (setupPtrs n (countCols m n colind rowptr)).2 h p2 p4
  have hr : r.rowind = (transfer m nnz a colind rowptr (setupPtrs n (countCols m n colind rowptr)).2).rowind := rfl
  have ha : r.at_ = (transfer m nnz a colind rowptr (setupPtrs n (countCols m n colind rowptr)).2).at_ := rfl
  refine ⟨p1, ?_, ?_, ?_, ?_, ?_, ?_, ?_⟩
  · rw [hr]; exact inv.szr
  · rw [ha]; exact inv.sza
  · rw [p3' 0 (Nat.zero_le _), cum_zero]
  · intro j hj
    rw [p3' j (by omega), p3' (j + 1) (by omega)]
    exact cum_mono colind nnz (Nat.le_succ j)
  · rw [p3' n (Nat.le_refl _)]; exact cum_total colind n nnz h.cols
  · rw [hr]; exact inv.rows
  · intro i hi j hj
    have hcp : B.cp j = cum colind nnz j := p3' j (by omega)
    have hcl : B.clen j = cnt colind j nnz := by
      show rdN r.colptr (j + 1) - rdN r.colptr j = _
      rw [p3' j (by omega), p3' (j + 1) (by omega), cum_succ]; omega
    unfold NCMat.dense denseNR
    rw [hcl, hcp]
    show (∑ k ∈ range (cnt colind j nnz),
      if rdN r.rowind (cum colind nnz j + k) = i then rd r.at_ (cum colind nnz j + k) else 0) = _
    rw [hr, ha, inv.sums j hj i hi]
    have hlo : rdN rowptr i ≤ rdN rowptr (i + 1) := h.mono i hi
    have hhi : rdN rowptr (i + 1) ≤ nnz := by
      have := h.mono_le (i + 1) m (by omega) (Nat.le_refl _); rwa [h.last] at this
    rw [← sum_row_window (fun q => if rdN colind q = j then rd a q else 0) _ _ nnz hlo hhi]
    apply sum_congr rfl
    intro q _
    by_cases e1 : rdN colind q = j <;> by_cases e2 : rdN rowptr i ≤ q ∧ q < rdN rowptr (i + 1) <;> simp [e1, e2]

end Xfer

/-! ### non-vacuity: the 2x3 matrix [[1,0,2],[0,3,0]] -/

example : compRowToCompCol 2 3 3 (#[1, 2, 3] : Array Int) #[0, 2, 1] #[0, 2, 3]
    = { at_ := #[1, 3, 2], rowind := #[0, 1, 0], colptr := #[0, 1, 2, 3] } := by decide

example : NRwf 2 3 3 #[0, 2, 1] #[0, 2, 3] := ⟨by decide, by decide, by decide, by decide⟩

end Slu.Blas
