/-
Initial state: a computable check `initOk` of the scheduler state produced by `ParallelInit`, and the proof that it
implies the system invariant for the initial system (any number of workers).  `initOk` is evaluated by the driver on
every configuration the correspondence harness runs through the real `ParallelInit` (whose output is compared
with `parallelInit` field by field), and on every forest of the exhaustive exploration.
-/
import SluVerif.Proofs.SchedInvSched

namespace Slu
open Slu.Gen
open Classical

def cfgOf (c : PanelCfg) (sh : Sh) : Cfg := { c := c, panels := panelsOf c.n sh, dad := dadPanel c sh }

def w0 : Worker := { cur := none, phase := .head }

def sysOf (sh : Sh) (nw : Nat) : Sys := { sh := sh, ws := Array.replicate nw w0 }

theorem wk_sysOf (sh : Sh) (nw i : Nat) : wk (sysOf sh nw) i = if i < nw then w0 else dfltW := by
  unfold wk sysOf
  simp only [Array.getD, Array.size_replicate]
  split
  · simp
  · rfl

theorem wk_sysOf_cur (sh : Sh) (nw i : Nat) : (wk (sysOf sh nw) i).cur = none := by
  rw [wk_sysOf]; split <;> rfl

theorem wk_sysOf_notworking (sh : Sh) (nw i p b : Nat) : (wk (sysOf sh nw) i).phase ≠ .working p b := by
  rw [wk_sysOf]; split <;> (intro h; cases h)

theorem cnt_eq_filter (l : List Nat) (P : Nat → Prop) (f : Nat → Bool) (h : ∀ q ∈ l, (f q = true ↔ P q)) :
    cnt l P = (l.filter f).length := by
  unfold cnt
  congr 1
  apply List.filter_congr
  intro q hq
  by_cases hp : P q
  · simp [hp, (h q hq).2 hp]
  · have : f q = false := by
      cases hf : f q
      · rfl
      · exact absurd ((h q hq).1 hf) hp
    simp [hp, this]

theorem cfgWF_of_initOk (c : PanelCfg) (sh : Sh) (h : initOk c sh = true) : CfgWF (cfgOf c sh) := by
  unfold initOk at h
  simp only [Bool.and_eq_true, decide_eq_true_eq, List.all_eq_true, List.mem_range, Bool.or_eq_true, Bool.not_eq_true',
    decide_eq_false_iff_not, List.contains_iff_mem] at h
  obtain ⟨⟨⟨⟨⟨⟨⟨⟨⟨⟨⟨⟨⟨h1, h2⟩, h3⟩, h4⟩, h5⟩, h6⟩, h7⟩, h8⟩, h9⟩, h10⟩, h11⟩, h12⟩, h13⟩, h14⟩ := h
  refine ⟨?_, ?_, ?_, ?_⟩
  · exact List.Nodup.sublist List.filter_sublist List.nodup_range
  · intro p hp
    have := List.mem_filter.1 hp
    exact List.mem_range.1 this.1
  · intro j hj; exact h6 j hj
  · intro p hp hd
    rcases h7 p hp with h' | h'
    · exact absurd hd h'
    · exact h'

theorem sysInv_of_initOk (c : PanelCfg) (sh : Sh) (nw : Nat) (h : initOk c sh = true) :
    SysInv (cfgOf c sh) (sysOf sh nw) := by
  have W := cfgWF_of_initOk c sh h
  unfold initOk at h
  simp only [Bool.and_eq_true, decide_eq_true_eq, List.all_eq_true, List.mem_range, Bool.or_eq_true, Bool.not_eq_true',
    decide_eq_false_iff_not, List.contains_iff_mem, bne_iff_ne, ne_eq, beq_iff_eq, List.any_eq_true] at h
  obtain ⟨⟨⟨⟨⟨⟨⟨⟨⟨⟨⟨⟨⟨h1, h2⟩, h3⟩, h4⟩, h5⟩, h6⟩, h7⟩, h8⟩, h9⟩, h10⟩, h11⟩, h12⟩, h13⟩, h14⟩ := h
  have hunrep : ∀ q ∈ panelsOf c.n sh, unrep (sysOf sh nw) q := by
    intro q hq
    left
    have := (h10 q hq).1
    show getN sh.state q ≠ DONE
    simp only [BUSY, DONE] at *; omega
  refine ⟨?_, h1, h2, ⟨h4, h5⟩, ?_, ?_, h9, h3, ?_, ?_, ?_, ?_, ?_, ?_, ?_, ?_, ?_⟩
  · intro j; rfl
  · intro k hk; exact (h8 k hk).1
  · intro k hk; exact (h8 k hk).2
  · intro i p b hp; exact absurd hp (wk_sysOf_notworking sh nw i p b)
  · intro i q hq; rw [wk_sysOf_cur] at hq; cases hq
  · intro i i' q hq; rw [wk_sysOf_cur] at hq; cases hq
  · intro p hp hb
    have := (h10 p hp).1
    have hb' : getN sh.state p = BUSY := hb
    omega
  · intro p hp; exact (h10 p hp).2
  · intro d hd
    have := h11 d (by
      rcases hd with h' | h'
      · exact List.mem_cons_of_mem _ h'
      · rw [h']; exact List.mem_cons_self)
    show getZ sh.ukids d = _
    rw [this]
    congr 1
    symm
    apply cnt_eq_filter
    intro q hq
    simp only [beq_iff_eq]
    constructor
    · intro e; exact ⟨e, hunrep q hq⟩
    · intro e; exact e.1
  · intro d hd hne q hq hdq
    rcases h12 d hd with h' | h'
    · exact absurd h' hne
    · exact absurd hdq (h' q hq)
  · show sh.tasksRemain = _
    rw [h13]
    congr 1
    symm
    rw [cnt_eq_filter _ _ (fun _ => true)]
    · show (List.filter (fun _ => true) (panelsOf c.n sh)).length = (panelsOf c.n sh).length
      rw [List.filter_eq_self.2 (fun _ _ => rfl)]
    · intro q hq
      simp only [true_iff]
      exact (h10 q hq).1
  · obtain ⟨r, hr, hdr⟩ := h14
    refine ⟨r, hr, hdr, Or.inl ?_⟩
    have := (h10 r hr).1
    show getN sh.state r ≠ DONE
    simp only [BUSY, DONE] at *; omega

end Slu
