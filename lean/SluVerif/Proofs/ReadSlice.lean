/- C20 helper lemmas: slicing, stdio primitives, the card reader loop. -/
import SluVerif.Proofs.ReadFormat
namespace Slu.Read

/-! ### fixed-width slicing -/

/-- **slicing**: a line that starts with `k` fields of width `w` (and `off + k*w < 100`) is cut into exactly
those fields, whatever follows them. -/
theorem fieldsFrom_flatten (w : Nat) (fs : List Str) (off : Nat) (tail : Str)
    (hw : ∀ f ∈ fs, f.length = w) (hb : off + fs.length * w < 100) :
    fieldsFrom w fs.length off (fs.flatten ++ tail) = some fs := by
  induction fs generalizing off with
  | nil => rfl
  | cons f fs ih =>
    have hf : f.length = w := hw f (by simp)
    have hlen : (f :: fs).length * w = w + fs.length * w := by
      simp [List.length_cons, Nat.add_mul, Nat.add_comm]
    have h1 : ¬ (off + w ≥ 100) := by
      have : 0 ≤ fs.length * w := Nat.zero_le _
      omega
    have h2 : ¬ ((f ++ (fs.flatten ++ tail)).length < w ∧ fs.length ≠ 0) := by
      intro h; have := h.1; simp [hf] at this; omega
    simp only [List.length_cons, List.flatten_cons, List.append_assoc, fieldsFrom]
    rw [if_neg h1, if_neg h2]
    have htake : List.take w (f ++ (fs.flatten ++ tail)) = f := by
      rw [← hf]; simp
    have hdrop : List.drop w (f ++ (fs.flatten ++ tail)) = fs.flatten ++ tail := by
      rw [← hf]; simp
    rw [htake, hdrop, ih (off + w) (fun g hg => hw g (by simp [hg])) (by omega)]
    rfl

/-! ### fgets -/

def NoNL (s : Str) : Prop := ∀ c ∈ s, (c == '\n') = false

instance (s : Str) : Decidable (NoNL s) := by unfold NoNL; infer_instance

theorem fgetsAux_line (k : Nat) (line rest : Str) (hl : NoNL line) (hk : line.length < k) :
    fgetsAux k (line ++ '\n' :: rest) = (line ++ ['\n'], rest) := by
  induction line generalizing k with
  | nil =>
    cases k with
    | zero => simp at hk
    | succ k => simp [fgetsAux]
  | cons c cs ih =>
    cases k with
    | zero => simp at hk
    | succ k =>
      have hc : (c == '\n') = false := hl c (by simp)
      have := ih k (fun x hx => hl x (by simp [hx])) (by simpa using hk)
      simp [fgetsAux, hc, this]

theorem fgets_line (line rest : Str) (hl : NoNL line) (hk : line.length ≤ 98) :
    fgets (line ++ '\n' :: rest) = some (line ++ ['\n'], rest) := by
  unfold fgets
  cases line with
  | nil => simp [fgetsAux]
  | cons c cs => simp only [List.cons_append]; rw [← List.cons_append, fgetsAux_line 99 _ _ hl (by omega)]; rfl

theorem dumpLine_line (line rest : Str) (hl : NoNL line) : dumpLine (line ++ '\n' :: rest) = some rest := by
  induction line with
  | nil => simp [dumpLine]
  | cons c cs ih =>
    have hc : (c == '\n') = false := hl c (by simp)
    simp only [List.cons_append, dumpLine, hc]
    exact ih (fun x hx => hl x (by simp [hx]))

theorem takeN_append {k : Nat} {a : Str} (b : Str) (h : a.length = k) : takeN k (a ++ b) = some (a, b) := by
  subst h; simp [takeN]


theorem mapM_conv_map {α : Type} (conv : Str → Option α) (g : Str → α) (l : List Str)
    (h : ∀ f ∈ l, conv f = some (g f)) : l.mapM conv = some (l.map g) := by
  induction l with
  | nil => rfl
  | cons f fs ih =>
    rw [List.mapM_cons, h f (by simp), ih (fun x hx => h x (by simp [hx]))]
    rfl

theorem noNL_flatten {l : List Str} (h : ∀ f ∈ l, NoNL f) : NoNL l.flatten := by
  intro c hc
  obtain ⟨f, hf, hcf⟩ := List.mem_flatten.mp hc
  exact h f hf c hcf

theorem noNL_append {a b : Str} (ha : NoNL a) (hb : NoNL b) : NoNL (a ++ b) := by
  intro c hc; rcases List.mem_append.mp hc with h | h
  · exact ha c h
  · exact hb c h

theorem flatten_length_le (w : Nat) (l : List Str) (h : ∀ f ∈ l, f.length = w) : l.flatten.length = l.length * w := by
  induction l with
  | nil => simp
  | cons f fs ih =>
    simp only [List.flatten_cons, List.length_append, List.length_cons]
    rw [ih (fun x hx => h x (by simp [hx])), h f (by simp), Nat.add_mul]; omega

/-- **the card loop** (`?ReadVector` / `?ReadValues`) on cards written `perline` fields at a time. -/
theorem readItemsAux_writeItems {α : Type} (conv : Str → Option α) (g : Str → α) (perline w : Nat) (trail : Str)
    (hp : 0 < perline) (hb : perline * w + trail.length ≤ 98) (htr : NoNL trail) :
    ∀ (fuel fuel' : Nat) (fs : List Str) (rest : Str),
      fs.length ≤ fuel → fs.length ≤ fuel' →
      (∀ f ∈ fs, f.length = w) → (∀ f ∈ fs, NoNL f) → (∀ f ∈ fs, conv f = some (g f)) →
      readItemsAux conv perline w fuel fs.length (writeItems perline trail fuel' fs ++ rest) = some (fs.map g, rest) := by
  intro fuel
  induction fuel with
  | zero =>
    intro fuel' fs rest hf _ _ _ _
    have : fs = [] := List.length_eq_zero_iff.mp (by omega)
    subst this; cases fuel' <;> rfl
  | succ fuel ih =>
    intro fuel' fs rest hf hf' hw hnl hconv
    cases fs with
    | nil => cases fuel' <;> rfl
    | cons f fs =>
      cases fuel' with
      | zero => simp at hf'
      | succ fuel' =>
        have hk1 : ((f :: fs).take perline).length = min perline (fs.length + 1) := by simp
        have hsub : ∀ x ∈ (f :: fs).take perline, x ∈ f :: fs := fun x hx => List.mem_of_mem_take hx
        have hsubd : ∀ x ∈ (f :: fs).drop perline, x ∈ f :: fs := fun x hx => List.mem_of_mem_drop hx
        have hlinelen : (((f :: fs).take perline).flatten ++ trail).length ≤ 98 := by
          rw [List.length_append, flatten_length_le w _ (fun x hx => hw x (hsub x hx)), hk1]
          have : min perline (fs.length + 1) * w ≤ perline * w := Nat.mul_le_mul_right _ (Nat.min_le_left _ _)
          omega
        have hlineNL : NoNL (((f :: fs).take perline).flatten ++ trail) :=
          noNL_append (noNL_flatten (fun x hx => hnl x (hsub x hx))) htr
        have hfg := fgets_line _ (writeItems perline trail fuel' ((f :: fs).drop perline) ++ rest) hlineNL hlinelen
        have hkpos : min perline (fs.length + 1) ≠ 0 := by omega
        have hfields : fieldsFrom w (min perline (fs.length + 1)) 0
            (((f :: fs).take perline).flatten ++ (trail ++ ['\n'])) = some ((f :: fs).take perline) := by
          have := fieldsFrom_flatten w ((f :: fs).take perline) 0 (trail ++ ['\n'])
            (fun x hx => hw x (hsub x hx))
            (by rw [hk1]
                have : min perline (fs.length + 1) * w ≤ perline * w := Nat.mul_le_mul_right _ (Nat.min_le_left _ _)
                omega)
          rw [hk1] at this; exact this
        have hrec := ih fuel' ((f :: fs).drop perline) rest
          (by simp only [List.length_drop, List.length_cons] at *; omega)
          (by simp only [List.length_drop, List.length_cons] at *; omega)
          (fun x hx => hw x (hsubd x hx)) (fun x hx => hnl x (hsubd x hx)) (fun x hx => hconv x (hsubd x hx))
        have hneed : fs.length + 1 - min perline (fs.length + 1) = ((f :: fs).drop perline).length := by
          simp only [List.length_drop, List.length_cons]; omega
        have hmap := mapM_conv_map conv g ((f :: fs).take perline) (fun x hx => hconv x (hsub x hx))
        simp only [writeItems, List.length_cons, readItemsAux]
        simp only [List.append_assoc, List.cons_append] at hfg ⊢
        rw [hfg]
        simp only [if_neg hkpos]
        rw [hfields]
        simp only [hmap, hneed, hrec]
        rw [← List.map_append, List.take_append_drop]

end Slu.Read
