/- array-level lemmas for the triangular solves: the two basic update loops (axpy / dot), and the
   dense reference kernels ?trsv(L,N,U), ?trsv(U,N,N), ?trsv(L,T,U), ?trsv(U,T,N), ?gemv into work. -/
import SluVerif.Proofs.BlasGemv
import SluVerif.Proofs.BlasTrsvAbs
import Mathlib.Algebra.Field.Rat
import Mathlib.Tactic.FieldSimp
set_option linter.unusedSectionVars false
set_option linter.unusedSimpArgs false
namespace Slu.Blas
open Finset

/-- `for t: x[p t] -= x[c] * w t` where no `p t` is the cell `c` -/
theorem rd_foldl_axpy (p : Nat → Nat) (w : Nat → Rat) (c : Nat) (x : Array Rat) (n : Nat)
    (hp : ∀ t < n, p t < x.size) (hc : ∀ t < n, p t ≠ c) :
    ((List.range n).foldl (fun x t => wr x (p t) (rd x (p t) - rd x c * w t)) x).size = x.size ∧
    ∀ q, rd ((List.range n).foldl (fun x t => wr x (p t) (rd x (p t) - rd x c * w t)) x) q
      = rd x q - ∑ t ∈ range n, if p t = q then rd x c * w t else 0 := by
  induction n with
  | zero => simp
  | succ n ih =>
    obtain ⟨ih1, ih2⟩ := ih (fun t ht => hp t (Nat.lt_succ_of_lt ht)) (fun t ht => hc t (Nat.lt_succ_of_lt ht))
    have hcc : rd ((List.range n).foldl (fun x t => wr x (p t) (rd x (p t) - rd x c * w t)) x) c = rd x c := by
      rw [ih2 c, sum_eq_zero, sub_zero]
      intro t ht
      rw [if_neg (hc t (Nat.lt_succ_of_lt (mem_range.mp ht)))]
    refine ⟨by rw [foldl_range_succ, size_wr, ih1], fun q => ?_⟩
    rw [foldl_range_succ, rd_wr, ih1, sum_range_succ, hcc]
    have hpn := hp n (Nat.lt_succ_self n)
    by_cases h : q = p n
    · subst h
      simp only [hpn, and_self, if_true, ih2 (p n)]
      ring
    · have h' : ¬ (p n = q) := fun e => h e.symm
      simp only [h, false_and, if_false, h', ih2 q, add_zero]

/-- `for t: x[c] -= x[p t] * w t` where no `p t` is the cell `c` -/
theorem rd_foldl_dot (p : Nat → Nat) (w : Nat → Rat) (c : Nat) (x : Array Rat) (n : Nat)
    (hcs : c < x.size) (hc : ∀ t < n, p t ≠ c) :
    ((List.range n).foldl (fun x t => wr x c (rd x c - rd x (p t) * w t)) x).size = x.size ∧
    ∀ q, rd ((List.range n).foldl (fun x t => wr x c (rd x c - rd x (p t) * w t)) x) q
      = if q = c then rd x c - ∑ t ∈ range n, rd x (p t) * w t else rd x q := by
  induction n with
  | zero => simp
  | succ n ih =>
    obtain ⟨ih1, ih2⟩ := ih (fun t ht => hc t (Nat.lt_succ_of_lt ht))
    refine ⟨by rw [foldl_range_succ, size_wr, ih1], fun q => ?_⟩
    rw [foldl_range_succ, rd_wr, ih1, sum_range_succ]
    have hpn : p n ≠ c := hc n (Nat.lt_succ_self n)
    by_cases h : q = c
    · subst h
      simp only [hcs, and_self, if_true, ih2 q, ih2 (p n), if_neg hpn]
      ring
    · simp only [h, false_and, if_false, ih2 q]

/-- `temp = temp - w t * x[p t]` accumulated from `a0` -/
theorem foldl_sub_eq (g : Nat → Rat) (a0 : Rat) (n : Nat) :
    (List.range n).foldl (fun t k => t - g k) a0 = a0 - ∑ k ∈ range n, g k := by
  induction n with
  | zero => simp
  | succ n ih => rw [foldl_range_succ, ih, sum_range_succ]; ring

theorem range_union_singleton (j : Nat) : range j ∪ {j} = range (j + 1) := by
  ext k; simp only [mem_union, mem_range, mem_singleton]; omega

theorem disjoint_range_singleton (j : Nat) : Disjoint (range j) ({j} : Finset Nat) := by
  rw [disjoint_singleton_right]; simp

/-- indicator sum over a shifted range -/
theorem sum_shift_indicator (g : Nat → Rat) (base len i : Nat) :
    (∑ t ∈ range len, if base + t = i then g t else 0) = if base ≤ i ∧ i < base + len then g (i - base) else 0 := by
  by_cases h : base ≤ i ∧ i < base + len
  · rw [if_pos h, sum_eq_single (i - base)]
    · rw [if_pos (by omega)]
    · intro t _ hne; rw [if_neg (by omega)]
    · intro hn; exact absurd (mem_range.mpr (by omega)) hn
  · rw [if_neg h]
    apply sum_eq_zero
    intro t ht
    have := mem_range.mp ht
    rw [if_neg (by omega)]

/-- dense unit lower / upper triangular matrices of a block, and their transposes -/
def MbL (a : Nat → Nat → Rat) (i k : Nat) : Rat := if k < i then a i k else if k = i then 1 else 0
def MbU (a : Nat → Nat → Rat) (i k : Nat) : Rat := if i ≤ k then a i k else 0

/-- **?trsv("L","N","U")** on cells `f .. f+nc-1`: the result solves the unit lower triangular block system -/
theorem trsvLNU_spec (a : Nat → Nat → Rat) (nc f : Nat) (x : Array Rat) (hsz : f + nc ≤ x.size) :
    (trsvLNU a nc f x).size = x.size ∧
    (∀ q, (q < f ∨ f + nc ≤ q) → rd (trsvLNU a nc f x) q = rd x q) ∧
    (∀ i < nc, ∑ k ∈ range nc, MbL a i k * rd (trsvLNU a nc f x) (f + k) = rd x (f + i)) := by
  let P : Nat → Array Rat → Prop := fun j xj =>
    xj.size = x.size ∧ (∀ q, (q < f ∨ f + nc ≤ q) → rd xj q = rd x q) ∧
    InvN nc (MbL a) (range j) (fun i => rd xj (f + i)) (fun i => rd x (f + i))
  have key : P nc (trsvLNU a nc f x) := by
    unfold trsvLNU
    apply foldl_range_inv P
    · exact ⟨rfl, fun _ _ => rfl, by simpa using InvN_init nc (MbL a) (fun i => rd x (f + i))⟩
    · intro j xj hj ⟨p1, p2, p3⟩
      obtain ⟨s1, s2⟩ := rd_foldl_axpy (fun t => f + (j + 1 + t)) (fun t => a (j + 1 + t) j) (f + j) xj (nc - (j + 1))
        (by intro t ht; rw [p1]; omega) (by intro t _; omega)
      refine ⟨by rw [s1, p1], ?_, ?_⟩
      · intro q hq
        rw [s2 q, p2 q hq, sum_eq_zero, sub_zero]
        intro t ht
        have := mem_range.mp ht
        rw [if_neg (by omega)]
      · rw [← range_union_singleton]
        have hval : ∀ i, rd ((List.range (nc - (j + 1))).foldl
            (fun x t => wr x (f + (j + 1 + t)) (rd x (f + (j + 1 + t)) - rd x (f + j) * a (j + 1 + t) j)) xj) (f + i)
            = rd xj (f + i) - (if j + 1 ≤ i ∧ i < nc then rd xj (f + j) * a i j else 0) := by
          intro i
          rw [s2 (f + i)]
          congr 1
          have : ∀ t, (f + (j + 1 + t) = f + i) = ((j + 1) + t = i) := by intro t; apply propext; omega
          simp only [this]
          rw [sum_shift_indicator (fun t => rd xj (f + j) * a (j + 1 + t) j) (j + 1) (nc - (j + 1)) i]
          by_cases h : j + 1 ≤ i ∧ i < nc
          · rw [if_pos (by omega), if_pos h]
            have : j + 1 + (i - (j + 1)) = i := by omega
            rw [this]
          · rw [if_neg (by omega), if_neg h]
        apply InvN_step nc (MbL a) (range j) {j} _ _ _ (disjoint_range_singleton j) _ _ _ (fun k hk => by have := mem_range.mp hk; omega) p3
        · intro i hi k hk
          have := mem_range.mp hi; have := mem_singleton.mp hk
          unfold MbL; rw [if_neg (by omega), if_neg (by omega)]
        · intro i hi
          have hij := mem_singleton.mp hi; subst hij
          rw [sum_singleton]
          show rd xj (f + i) = MbL a i i * _
          rw [hval i, if_neg (by omega)]
          unfold MbL; simp
        · intro i hi hiB
          have hne : i ≠ j := fun e => hiB (mem_singleton.mpr e)
          rw [sum_singleton]
          show _ = rd xj (f + i) - MbL a i j * _
          rw [hval i, hval j, if_neg (by omega : ¬ (j + 1 ≤ j ∧ j < nc)), sub_zero]
          unfold MbL
          by_cases h : j < i
          · rw [if_pos (by omega), if_pos h]; ring
          · rw [if_neg (by omega), if_neg h, if_neg (by omega)]; ring
  obtain ⟨k1, k2, k3⟩ := key
  exact ⟨k1, k2, InvN_final nc (MbL a) _ _ k3⟩


/-- `for t: x[p t] -= g t` -/
theorem rd_foldl_sub (p : Nat → Nat) (g : Nat → Rat) (x : Array Rat) (n : Nat)
    (hp : ∀ t < n, p t < x.size) :
    ((List.range n).foldl (fun x t => wr x (p t) (rd x (p t) - g t)) x).size = x.size ∧
    ∀ q, rd ((List.range n).foldl (fun x t => wr x (p t) (rd x (p t) - g t)) x) q
      = rd x q - ∑ t ∈ range n, if p t = q then g t else 0 := by
  induction n with
  | zero => simp
  | succ n ih =>
    obtain ⟨ih1, ih2⟩ := ih (fun t ht => hp t (Nat.lt_succ_of_lt ht))
    refine ⟨by rw [foldl_range_succ, size_wr, ih1], fun q => ?_⟩
    rw [foldl_range_succ, rd_wr, ih1, sum_range_succ]
    have hpn := hp n (Nat.lt_succ_self n)
    by_cases h : q = p n
    · subst h
      simp only [hpn, and_self, if_true, ih2 (p n)]
      ring
    · have h' : ¬ (p n = q) := fun e => h e.symm
      simp only [h, false_and, if_false, h', ih2 q, add_zero]

theorem sum_rev_indicator (g : Nat → Rat) (j i : Nat) :
    (∑ t ∈ range j, if j - 1 - t = i then g t else 0) = if i < j then g (j - 1 - i) else 0 := by
  by_cases h : i < j
  · rw [if_pos h, sum_eq_single (j - 1 - i)]
    · rw [if_pos (by omega)]
    · intro t ht hne; have := mem_range.mp ht; rw [if_neg (by omega)]
    · intro hn; exact absurd (mem_range.mpr (by omega)) hn
  · rw [if_neg h]
    apply sum_eq_zero
    intro t ht
    have := mem_range.mp ht
    rw [if_neg (by omega)]

theorem Ico_union_singleton (nc jj : Nat) (h : jj < nc) :
    Ico (nc - jj) nc ∪ {nc - 1 - jj} = Ico (nc - (jj + 1)) nc := by
  ext k; simp only [mem_union, mem_Ico, mem_singleton]; omega

theorem disjoint_Ico_singleton (nc jj : Nat) (h : jj < nc) :
    Disjoint (Ico (nc - jj) nc) ({nc - 1 - jj} : Finset Nat) := by
  rw [disjoint_singleton_right]; simp only [mem_Ico]; omega

/-- **?trsv("U","N","N")** on cells `f .. f+nc-1` (non-zero diagonal) -/
theorem trsvUNN_spec (a : Nat → Nat → Rat) (nc f : Nat) (x : Array Rat) (hsz : f + nc ≤ x.size)
    (hd : ∀ j < nc, a j j ≠ 0) :
    (trsvUNN a nc f x).size = x.size ∧
    (∀ q, (q < f ∨ f + nc ≤ q) → rd (trsvUNN a nc f x) q = rd x q) ∧
    (∀ i < nc, ∑ k ∈ range nc, MbU a i k * rd (trsvUNN a nc f x) (f + k) = rd x (f + i)) := by
  let P : Nat → Array Rat → Prop := fun jj xj =>
    xj.size = x.size ∧ (∀ q, (q < f ∨ f + nc ≤ q) → rd xj q = rd x q) ∧
    InvN nc (MbU a) (Ico (nc - jj) nc) (fun i => rd xj (f + i)) (fun i => rd x (f + i))
  have key : P nc (trsvUNN a nc f x) := by
    unfold trsvUNN
    apply foldl_range_inv P
    · exact ⟨rfl, fun _ _ => rfl, by simpa using InvN_init nc (MbU a) (fun i => rd x (f + i))⟩
    · intro jj xj hjj ⟨p1, p2, p3⟩
      simp only []
      have hjlt : nc - 1 - jj < nc := by omega
      have hx1 : rd (wr xj (f + (nc - 1 - jj)) (rd xj (f + (nc - 1 - jj)) / a (nc - 1 - jj) (nc - 1 - jj))) (f + (nc - 1 - jj))
          = rd xj (f + (nc - 1 - jj)) / a (nc - 1 - jj) (nc - 1 - jj) := rd_wr_same _ _ _ (by rw [p1]; omega)
      simp only [hx1]
      obtain ⟨s1, s2⟩ := rd_foldl_sub (fun t => f + (nc - 1 - jj - 1 - t))
        (fun t => rd xj (f + (nc - 1 - jj)) / a (nc - 1 - jj) (nc - 1 - jj) * a (nc - 1 - jj - 1 - t) (nc - 1 - jj))
        (wr xj (f + (nc - 1 - jj)) (rd xj (f + (nc - 1 - jj)) / a (nc - 1 - jj) (nc - 1 - jj))) (nc - 1 - jj)
        (by intro t ht; rw [size_wr, p1]; omega)
      rw [size_wr] at s1
      refine ⟨by rw [s1, p1], ?_, ?_⟩
      · intro q hq
        rw [s2 q, rd_wr_ne _ _ _ _ (by omega), p2 q hq, sum_eq_zero, sub_zero]
        intro t ht
        have := mem_range.mp ht
        rw [if_neg (by omega)]
      · rw [← Ico_union_singleton nc jj hjj]
        generalize hj : nc - 1 - jj = j at *
        have hval : ∀ i, rd ((List.range j).foldl
            (fun x t => wr x (f + (j - 1 - t)) (rd x (f + (j - 1 - t)) - rd xj (f + j) / a j j * a (j - 1 - t) j))
            (wr xj (f + j) (rd xj (f + j) / a j j))) (f + i)
            = if i = j then rd xj (f + j) / a j j
              else rd xj (f + i) - (if i < j then rd xj (f + j) / a j j * a i j else 0) := by
          intro i
          rw [s2 (f + i)]
          have : ∀ t, (f + (j - 1 - t) = f + i) = (j - 1 - t = i) := by intro t; apply propext; omega
          simp only [this]
          rw [sum_rev_indicator (fun t => rd xj (f + j) / a j j * a (j - 1 - t) j) j i]
          by_cases hij : i = j
          · subst hij
            rw [rd_wr_same _ _ _ (by rw [p1]; omega), if_neg (by omega), sub_zero, if_pos rfl]
          · rw [rd_wr_ne _ _ _ _ (by omega), if_neg hij]
            by_cases h : i < j
            · rw [if_pos h, if_pos h]
              have : j - 1 - (j - 1 - i) = i := by omega
              rw [this]
            · rw [if_neg h, if_neg h]
        have hIco : Ico (nc - jj) nc = Ico (j + 1) nc := by
          ext k; simp only [mem_Ico]; omega
        rw [hIco] at p3 ⊢
        apply InvN_step nc (MbU a) (Ico (j + 1) nc) {j} _ _ _ (by rw [disjoint_singleton_right]; simp) _ _ _
          (fun k hk => (mem_Ico.mp hk).2) p3
        · intro i hi k hk
          have := mem_Ico.mp hi; have := mem_singleton.mp hk
          unfold MbU; rw [if_neg (by omega)]
        · intro i hi
          have hij := mem_singleton.mp hi; subst hij
          rw [sum_singleton]
          show rd xj (f + i) = MbU a i i * _
          rw [hval i, if_pos rfl]
          unfold MbU; rw [if_pos (le_refl i)]
          field_simp [hd i hjlt]
        · intro i hi hiB
          have hne : i ≠ j := fun e => hiB (mem_singleton.mpr e)
          rw [sum_singleton]
          show _ = rd xj (f + i) - MbU a i j * _
          rw [hval i, hval j, if_neg hne, if_pos rfl]
          unfold MbU
          by_cases h : i < j
          · rw [if_pos h, if_pos (by omega)]; ring
          · rw [if_neg h, if_neg (by omega)]; ring
  obtain ⟨k1, k2, k3⟩ := key
  have : Ico (nc - nc) nc = range nc := by ext k; simp
  rw [this] at k3
  exact ⟨k1, k2, InvN_final nc (MbU a) _ _ k3⟩


/-- reflected tail sum: `Σ_{t < nc-(j+1)} g (nc-1-t) = Σ_{k<nc, j<k} g k` -/
theorem sum_reflect_tail (g : Nat → Rat) (nc j : Nat) (hj : j < nc) :
    ∑ t ∈ range (nc - (j + 1)), g (nc - 1 - t) = ∑ k ∈ range nc, if j < k then g k else 0 := by
  have h1 : ∑ t ∈ range (nc - (j + 1)), g (nc - 1 - t)
      = ∑ t ∈ range (nc - (j + 1)), (fun u => g (j + 1 + u)) (nc - (j + 1) - 1 - t) := by
    apply sum_congr rfl
    intro t ht
    have := mem_range.mp ht
    show g (nc - 1 - t) = g (j + 1 + (nc - (j + 1) - 1 - t))
    congr 1; omega
  rw [h1, sum_range_reflect (fun u => g (j + 1 + u)) (nc - (j + 1))]
  have h2 : ∑ k ∈ range nc, (if j < k then g k else 0) = ∑ k ∈ Ico (j + 1) nc, g k := by
    rw [← sum_filter]
    apply sum_congr
    · ext k; simp only [mem_filter, mem_range, mem_Ico]; omega
    · intro _ _; rfl
  rw [h2, sum_Ico_eq_sum_range]

theorem sum_le_indicator (g : Nat → Rat) (nc j : Nat) (hj : j < nc) :
    ∑ k ∈ range nc, (if k ≤ j then g k else 0) = ∑ k ∈ range j, g k + g j := by
  rw [← sum_range_succ, ← sum_filter]
  apply sum_congr
  · ext k; simp only [mem_filter, mem_range]; omega
  · intro _ _; rfl

/-- **?trsv("L","T","U")** on cells `f .. f+nc-1`: solves the transposed unit lower block system -/
theorem trsvLTU_spec (a : Nat → Nat → Rat) (nc f : Nat) (x : Array Rat) (hsz : f + nc ≤ x.size) :
    (trsvLTU a nc f x).size = x.size ∧
    (∀ q, (q < f ∨ f + nc ≤ q) → rd (trsvLTU a nc f x) q = rd x q) ∧
    (∀ i < nc, ∑ k ∈ range nc, MbL a k i * rd (trsvLTU a nc f x) (f + k) = rd x (f + i)) := by
  let P : Nat → Array Rat → Prop := fun jj xj =>
    xj.size = x.size ∧ (∀ q, (q < f ∨ f + nc ≤ q) → rd xj q = rd x q) ∧
    InvT nc (fun i k => MbL a k i) (Ico (nc - jj) nc) (fun i => rd xj (f + i)) (fun i => rd x (f + i))
  have key : P nc (trsvLTU a nc f x) := by
    unfold trsvLTU
    apply foldl_range_inv P
    · exact ⟨rfl, fun _ _ => rfl, by simpa using InvT_init nc (fun i k => MbL a k i) (fun i => rd x (f + i))⟩
    · intro jj xj hjj ⟨p1, p2, p3⟩
      simp only []
      generalize hj : nc - 1 - jj = j
      have hjlt : j < nc := by omega
      have hIco : Ico (nc - jj) nc = Ico (j + 1) nc := by ext k; simp only [mem_Ico]; omega
      have hIco' : Ico (nc - (jj + 1)) nc = Ico (j + 1) nc ∪ {j} := by
        ext k; simp only [mem_Ico, mem_union, mem_singleton]; omega
      rw [foldl_sub_eq (fun t => a (nc - 1 - t) j * rd xj (f + (nc - 1 - t)))]
      rw [sum_reflect_tail (fun k => a k j * rd xj (f + k)) nc j hjlt]
      refine ⟨by rw [size_wr, p1], ?_, ?_⟩
      · intro q hq
        rw [rd_wr_ne _ _ _ _ (by omega), p2 q hq]
      · rw [hIco] at p3
        rw [hIco']
        apply InvT_step nc (fun i k => MbL a k i) (Ico (j + 1) nc) {j} _ _ _ _ _ _
          (by rw [disjoint_singleton_right]; simp) (fun k hk => by rw [mem_singleton.mp hk]; exact hjlt) p3
        · intro i hi k hk
          have := mem_Ico.mp hi; have := mem_singleton.mp hk
          show MbL a k i = 0
          unfold MbL; rw [if_neg (by omega), if_neg (by omega)]
        · intro i hi
          have hij := mem_singleton.mp hi; subst hij
          show rd xj (f + i) = ∑ k ∈ range nc, MbL a k i * rd (wr xj (f + i) _) (f + k)
          have hterm : ∀ k ∈ range nc, MbL a k i * rd (wr xj (f + i)
              (rd xj (f + i) - ∑ k ∈ range nc, if i < k then a k i * rd xj (f + k) else 0)) (f + k)
              = (if i < k then a k i * rd xj (f + k) else 0)
                + (if k = i then rd xj (f + i) - ∑ k ∈ range nc, (if i < k then a k i * rd xj (f + k) else 0) else 0) := by
            intro k _
            unfold MbL
            by_cases h1 : i < k
            · rw [if_pos h1, if_pos h1, if_neg (by omega), rd_wr_ne _ _ _ _ (by omega), add_zero]
            · rw [if_neg h1, if_neg h1]
              by_cases h2 : i = k
              · subst h2
                rw [if_pos rfl, if_pos rfl, rd_wr_same _ _ _ (by rw [p1]; omega)]; ring
              · rw [if_neg h2, if_neg (fun e => h2 e.symm)]; ring
          rw [sum_congr rfl hterm, sum_add_distrib, sum_ite_eq' (range nc) i, if_pos (mem_range.mpr hjlt)]
          ring
        · intro i hi hiB
          have hne : i ≠ j := fun e => hiB (mem_singleton.mpr e)
          show rd (wr xj (f + j) _) (f + i) = rd xj (f + i)
          rw [rd_wr_ne _ _ _ _ (by omega)]
  obtain ⟨k1, k2, k3⟩ := key
  have : Ico (nc - nc) nc = range nc := by ext k; simp
  rw [this] at k3
  exact ⟨k1, k2, InvT_final nc _ _ _ k3⟩

/-- **?trsv("U","T","N")** on cells `f .. f+nc-1` (non-zero diagonal) -/
theorem trsvUTN_spec (a : Nat → Nat → Rat) (nc f : Nat) (x : Array Rat) (hsz : f + nc ≤ x.size)
    (hd : ∀ j < nc, a j j ≠ 0) :
    (trsvUTN a nc f x).size = x.size ∧
    (∀ q, (q < f ∨ f + nc ≤ q) → rd (trsvUTN a nc f x) q = rd x q) ∧
    (∀ i < nc, ∑ k ∈ range nc, MbU a k i * rd (trsvUTN a nc f x) (f + k) = rd x (f + i)) := by
  let P : Nat → Array Rat → Prop := fun j xj =>
    xj.size = x.size ∧ (∀ q, (q < f ∨ f + nc ≤ q) → rd xj q = rd x q) ∧
    InvT nc (fun i k => MbU a k i) (range j) (fun i => rd xj (f + i)) (fun i => rd x (f + i))
  have key : P nc (trsvUTN a nc f x) := by
    unfold trsvUTN
    apply foldl_range_inv P
    · exact ⟨rfl, fun _ _ => rfl, by simpa using InvT_init nc (fun i k => MbU a k i) (fun i => rd x (f + i))⟩
    · intro j xj hjlt ⟨p1, p2, p3⟩
      rw [foldl_sub_eq (fun i => a i j * rd xj (f + i))]
      refine ⟨by rw [size_wr, p1], ?_, ?_⟩
      · intro q hq
        rw [rd_wr_ne _ _ _ _ (by omega), p2 q hq]
      · rw [← range_union_singleton]
        apply InvT_step nc (fun i k => MbU a k i) (range j) {j} _ _ _ _ _ _
          (disjoint_range_singleton j) (fun k hk => by rw [mem_singleton.mp hk]; exact hjlt) p3
        · intro i hi k hk
          have := mem_range.mp hi; have := mem_singleton.mp hk
          show MbU a k i = 0
          unfold MbU; rw [if_neg (by omega)]
        · intro i hi
          have hij := mem_singleton.mp hi; subst hij
          show rd xj (f + i) = ∑ k ∈ range nc, MbU a k i * rd (wr xj (f + i) _) (f + k)
          have hterm : ∀ k ∈ range nc, MbU a k i * rd (wr xj (f + i)
              ((rd xj (f + i) - ∑ k ∈ range i, a k i * rd xj (f + k)) / a i i)) (f + k)
              = if k ≤ i then (if k = i then rd xj (f + i) - ∑ k ∈ range i, a k i * rd xj (f + k)
                                else a k i * rd xj (f + k)) else 0 := by
            intro k _
            unfold MbU
            by_cases h1 : k ≤ i
            · rw [if_pos h1, if_pos h1]
              by_cases h2 : k = i
              · subst h2
                rw [if_pos rfl, rd_wr_same _ _ _ (by rw [p1]; omega)]
                field_simp [hd k hjlt]
              · rw [if_neg h2, rd_wr_ne _ _ _ _ (by omega)]
            · rw [if_neg h1, if_neg h1, zero_mul]
          rw [sum_congr rfl hterm,
            sum_le_indicator (fun k => if k = i then rd xj (f + i) - ∑ k ∈ range i, a k i * rd xj (f + k)
                                else a k i * rd xj (f + k)) nc i hjlt]
          simp only [if_true]
          have : ∑ k ∈ range i, (if k = i then rd xj (f + i) - ∑ k ∈ range i, a k i * rd xj (f + k)
              else a k i * rd xj (f + k)) = ∑ k ∈ range i, a k i * rd xj (f + k) := by
            apply sum_congr rfl
            intro k hk
            have := mem_range.mp hk
            rw [if_neg (by omega)]
          rw [this]; ring
        · intro i hi hiB
          have hne : i ≠ j := fun e => hiB (mem_singleton.mpr e)
          show rd (wr xj (f + j) _) (f + i) = rd xj (f + i)
          rw [rd_wr_ne _ _ _ _ (by omega)]
  obtain ⟨k1, k2, k3⟩ := key
  exact ⟨k1, k2, InvT_final nc _ _ _ k3⟩

/-- **?gemv("N", nrow, nc, 1, a[nc.., ·], x[f..], 1, work)** into a zero `work` -/
theorem gemvWork_spec (a : Nat → Nat → Rat) (nrow nc f : Nat) (x : Array Rat) :
    (gemvWork a nrow nc f x).size = nrow ∧
    ∀ i < nrow, rd (gemvWork a nrow nc f x) i = ∑ j ∈ range nc, a (nc + i) j * rd x (f + j) := by
  unfold gemvWork
  have key := rd_foldl_additive
    (fun (w : Array Rat) j => (List.range nrow).foldl (fun w i => wr w i (rd w i + rd x (f + j) * a (nc + i) j)) w)
    (fun j q => if q < nrow then rd x (f + j) * a (nc + q) j else 0) nc (Array.replicate nrow 0)
    (by
      intro w j _ hs
      refine ⟨by rw [size_foldl_acc (fun i => i) (fun i => rd x (f + j) * a (nc + i) j) w nrow, hs], fun q => ?_⟩
      rw [rd_foldl_acc (fun i => i) (fun i => rd x (f + j) * a (nc + i) j) w nrow (by intro k hk; rw [hs]; simpa using hk)]
      congr 1
      by_cases h : q < nrow
      · rw [if_pos h, sum_eq_single q]
        · rw [if_pos rfl]
        · intro t _ hne; rw [if_neg hne]
        · intro hn; exact absurd (mem_range.mpr h) hn
      · rw [if_neg h]; apply sum_eq_zero; intro t ht; have := mem_range.mp ht; rw [if_neg (by omega)])
  obtain ⟨k1, k2⟩ := key
  refine ⟨by rw [k1]; simp, fun i hi => ?_⟩
  rw [k2 i]
  have : rd (Array.replicate nrow (0 : Rat)) i = 0 := by simp [rd, Array.getD]
  rw [this, zero_add]
  apply sum_congr rfl
  intro j _
  rw [if_pos hi]; ring

end Slu.Blas
