/- the four sweeps of sp_?trsv over all supernodes, under structural hypotheses `LOk` / `UOk`
   (derived from `SCP.wf` / `NCP.wf` in BlasTrsvWf.lean) -/
import SluVerif.Proofs.BlasTrsvStep
set_option linter.unusedSectionVars false
set_option linter.unusedSimpArgs false
namespace Slu.Blas
open Finset

/-- supernode number `k` -/
def snk (L : SCP) (k : Nat) : Snode := L.sn.getD k default
/-- `col_to_sup[j]` -/
def supOf (L : SCP) (j : Nat) : Nat := (geti L.colToSup j).toNat

/-- the dense unit lower triangular matrix the supernodal structure denotes (sum form) -/
def MLg (one : Int) (L : SCP) (i j : Nat) : Rat := MLs one (snk L (supOf L j)) i j
/-- the dense upper triangular matrix (supernode rectangles + NCP columns) -/
def MUg (one : Int) (L : SCP) (U : NCP) (i j : Nat) : Rat := MUs one U (snk L (supOf L j)) i j

structure LOk (L : SCP) : Prop where
  sn : ∀ k < L.numSnodes, SnOk L.n (snk L k)
  sup_lt : ∀ j < L.n, supOf L j < L.numSnodes
  sup_mem : ∀ j < L.n, (snk L (supOf L j)).f ≤ j ∧ j < (snk L (supOf L j)).e
  sup_of_mem : ∀ k < L.numSnodes, ∀ j, (snk L k).f ≤ j → j < (snk L k).e → supOf L j = k
  /-- `depOrderOk`: sub-diagonal rows of supernode `k` belong to supernodes numbered after `k` -/
  dep : ∀ k < L.numSnodes, ∀ t, nsupc (snk L k) ≤ t → t < nsupr (snk L k) → k < supOf L (srow (snk L k) t)

structure UOk (one : Int) (L : SCP) (U : NCP) : Prop where
  rows : ∀ j < L.n, ∀ t < (U.cols.getD j default).rows.size,
    urow (U.cols.getD j default) t < (snk L (supOf L j)).f ∧
    supOf L (urow (U.cols.getD j default) t) < supOf L j
  diag : ∀ k < L.numSnodes, ∀ kk < nsupc (snk L k), sA one (snk L k) kk kk ≠ 0

/-- columns of supernodes numbered below `k` / from `k` on -/
def below (L : SCP) (k : Nat) : Finset Nat := (range L.n).filter (fun j => supOf L j < k)
def fromk (L : SCP) (k : Nat) : Finset Nat := (range L.n).filter (fun j => k ≤ supOf L j)

theorem mem_block_iff {L : SCP} (hL : LOk L) (k : Nat) (hk : k < L.numSnodes) (j : Nat) :
    j ∈ Ico (snk L k).f (snk L k).e ↔ (j < L.n ∧ supOf L j = k) := by
  rw [mem_Ico]
  constructor
  · intro ⟨h1, h2⟩
    exact ⟨by have := (hL.sn k hk).e_le; omega, hL.sup_of_mem k hk j h1 h2⟩
  · intro ⟨h1, h2⟩
    have := hL.sup_mem j h1
    rw [h2] at this
    exact this

theorem below_succ {L : SCP} (hL : LOk L) (k : Nat) (hk : k < L.numSnodes) :
    below L k ∪ Ico (snk L k).f (snk L k).e = below L (k + 1) := by
  ext j
  rw [mem_union, mem_block_iff hL k hk]
  unfold below
  simp only [mem_filter, mem_range]
  omega

theorem below_disj {L : SCP} (hL : LOk L) (k : Nat) (hk : k < L.numSnodes) :
    Disjoint (below L k) (Ico (snk L k).f (snk L k).e) := by
  rw [disjoint_left]
  intro j hj hjB
  have h1 := (mem_block_iff hL k hk j).mp hjB
  unfold below at hj
  simp only [mem_filter, mem_range] at hj
  omega

theorem fromk_succ {L : SCP} (hL : LOk L) (k : Nat) (hk : k < L.numSnodes) :
    fromk L (k + 1) ∪ Ico (snk L k).f (snk L k).e = fromk L k := by
  ext j
  rw [mem_union, mem_block_iff hL k hk]
  unfold fromk
  simp only [mem_filter, mem_range]
  omega

theorem fromk_disj {L : SCP} (hL : LOk L) (k : Nat) (hk : k < L.numSnodes) :
    Disjoint (fromk L (k + 1)) (Ico (snk L k).f (snk L k).e) := by
  rw [disjoint_left]
  intro j hj hjB
  have h1 := (mem_block_iff hL k hk j).mp hjB
  unfold fromk at hj
  simp only [mem_filter, mem_range] at hj
  omega

theorem below_all {L : SCP} (hL : LOk L) : below L L.numSnodes = range L.n := by
  ext j
  unfold below
  simp only [mem_filter, mem_range]
  constructor
  · intro h; exact h.1
  · intro h; exact ⟨h, hL.sup_lt j h⟩

theorem fromk_zero (L : SCP) : fromk L 0 = range L.n := by
  ext j; unfold fromk; simp

theorem below_zero (L : SCP) : below L 0 = ∅ := by
  ext j; unfold below; simp

theorem fromk_top {L : SCP} (hL : LOk L) : fromk L L.numSnodes = ∅ := by
  ext j
  unfold fromk
  simp only [mem_filter, mem_range, notMem_empty, iff_false, not_and, not_le]
  intro h; exact hL.sup_lt j h

/-- entries of the L block column `k` in rows of lower-numbered supernodes vanish;
    more generally in any row `i` outside the block whose supernode number is `≤ k` -/
theorem snL_zero_of_sup_le {L : SCP} (hL : LOk L) (one : Int) (k : Nat) (hk : k < L.numSnodes)
    (i kk : Nat) (hkk : kk < nsupc (snk L k)) (hi : i < (snk L k).f ∨ (snk L k).e ≤ i) (hs : supOf L i ≤ k) :
    snL one (snk L k) i kk = 0 := by
  rw [snL_out (hL.sn k hk) i kk hi hkk]
  apply sum_eq_zero
  intro t ht
  have hnc := (hL.sn k hk).nc_le
  have := hL.dep k hk (nsupc (snk L k) + t) (by omega) (by have := mem_range.mp ht; omega)
  rw [if_neg (fun e => by rw [e] at this; omega)]

theorem ucolD_zero_of_sup_ge {one : Int} {L : SCP} {U : NCP} (hU : UOk one L U) (j : Nat) (hj : j < L.n)
    (i : Nat) (hs : supOf L j ≤ supOf L i) : ucolD one (U.cols.getD j default) i = 0 := by
  unfold ucolD
  apply sum_eq_zero
  intro t ht
  have := (hU.rows j hj t (mem_range.mp ht)).2
  rw [if_neg (fun e => by rw [e] at this; omega)]

theorem UOk.colOk {one : Int} {L : SCP} {U : NCP} (hL : LOk L) (hU : UOk one L U) (k : Nat) (hk : k < L.numSnodes) :
    ∀ kk < nsupc (snk L k), UcolOk (snk L k).f (U.cols.getD ((snk L k).f + kk) default) := by
  intro kk hkk t ht
  have hsn := hL.sn k hk
  have hnc := hsn.nc_eq
  have hj : (snk L k).f + kk < L.n := by have := hsn.e_le; omega
  have hsup : supOf L ((snk L k).f + kk) = k := hL.sup_of_mem k hk _ (by omega) (by omega)
  have := (hU.rows _ hj t ht).1
  rw [hsup] at this
  exact this

/-- **x := inv(L)·x** : supernodes `0, 1, …` -/
theorem sweepUp_LN {L : SCP} (hL : LOk L) (one : Int) (x : Array Rat) (hx : x.size = L.n) :
    (sweepUp L (stepLN one) x).size = L.n ∧
    ∀ i < L.n, ∑ j ∈ range L.n, MLg one L i j * rd (sweepUp L (stepLN one) x) j = rd x i := by
  let P : Nat → Array Rat → Prop := fun k xk =>
    xk.size = L.n ∧ InvN L.n (MLg one L) (below L k) (fun i => rd xk i) (fun i => rd x i)
  have key : P L.numSnodes (sweepUp L (stepLN one) x) := by
    unfold sweepUp
    apply foldl_range_inv P
    · refine ⟨hx, ?_⟩
      rw [below_zero]; exact InvN_init _ _ _
    · intro k xk hk ⟨p1, p2⟩
      show P (k + 1) (stepLN one (snk L k) xk)
      have hsn := hL.sn k hk
      obtain ⟨s1, s2, s3⟩ := stepLN_spec one hsn xk p1
      refine ⟨by rw [s1, p1], ?_⟩
      rw [← below_succ hL k hk]
      have hM : ∀ i, ∀ j ∈ Ico (snk L k).f (snk L k).e, MLg one L i j = MLs one (snk L k) i j := by
        intro i j hj
        unfold MLg
        rw [((mem_block_iff hL k hk j).mp hj).2]
      apply InvN_step L.n (MLg one L) (below L k) (Ico (snk L k).f (snk L k).e) _ _ _ (below_disj hL k hk) _ _ _
        (fun j hj => by unfold below at hj; exact mem_range.mp (mem_filter.mp hj).1) p2
      · intro i hi j hj
        rw [hM i j hj]
        have hjB := mem_Ico.mp hj
        have hiP : i < L.n ∧ supOf L i < k := by
          unfold below at hi; simpa using hi
        have hiB : i < (snk L k).f ∨ (snk L k).e ≤ i := by
          by_contra hc
          have := (mem_block_iff hL k hk i).mp (mem_Ico.mpr (by omega))
          omega
        unfold MLs
        rw [if_neg (by omega)]
        exact snL_zero_of_sup_le hL one k hk i _ (by have := hsn.nc_eq; omega) hiB (by omega)
      · intro i hi
        rw [s2 i hi]
        exact sum_congr rfl (fun j hj => by rw [hM i j hj])
      · intro i hi hiB
        rw [s3 i hi hiB]
        congr 1
        exact sum_congr rfl (fun j hj => by rw [hM i j hj])
  obtain ⟨k1, k2⟩ := key
  rw [below_all hL] at k2
  exact ⟨k1, InvN_final _ _ _ _ k2⟩


theorem outside_of_sup_ne {L : SCP} (hL : LOk L) (k : Nat) (hk : k < L.numSnodes) (i : Nat) (hi : i < L.n)
    (hne : supOf L i ≠ k) : i < (snk L k).f ∨ (snk L k).e ≤ i := by
  by_contra hc
  have := (mem_block_iff hL k hk i).mp (mem_Ico.mpr (by omega))
  exact hne this.2

/-- **x := inv(U)·x** : supernodes `nsuper, …, 1, 0` -/
theorem sweepDown_UN {L : SCP} (hL : LOk L) (one : Int) (U : NCP) (hU : UOk one L U) (x : Array Rat) (hx : x.size = L.n) :
    (sweepDown L (stepUN one U) x).size = L.n ∧
    ∀ i < L.n, ∑ j ∈ range L.n, MUg one L U i j * rd (sweepDown L (stepUN one U) x) j = rd x i := by
  let P : Nat → Array Rat → Prop := fun kk xk =>
    xk.size = L.n ∧ InvN L.n (MUg one L U) (fromk L (L.numSnodes - kk)) (fun i => rd xk i) (fun i => rd x i)
  have key : P L.numSnodes (sweepDown L (stepUN one U) x) := by
    unfold sweepDown
    apply foldl_range_inv P
    · refine ⟨hx, ?_⟩
      show InvN _ _ (fromk L (L.numSnodes - 0)) _ _
      rw [Nat.sub_zero, fromk_top hL]; exact InvN_init _ _ _
    · intro kk xk hkk ⟨p1, p2⟩
      show P (kk + 1) (stepUN one U (snk L (L.numSnodes - 1 - kk)) xk)
      generalize hkdef : L.numSnodes - 1 - kk = k
      have hk : k < L.numSnodes := by omega
      have e1 : L.numSnodes - kk = k + 1 := by omega
      have e2 : L.numSnodes - (kk + 1) = k := by omega
      have hsn := hL.sn k hk
      obtain ⟨s1, s2, s3⟩ := stepUN_spec one U hsn xk p1 (hU.colOk hL k hk) (hU.diag k hk)
      refine ⟨by rw [s1, p1], ?_⟩
      show InvN _ _ (fromk L (L.numSnodes - (kk + 1))) _ _
      rw [e2, ← fromk_succ hL k hk]
      rw [e1] at p2
      have hM : ∀ i, ∀ j ∈ Ico (snk L k).f (snk L k).e, MUg one L U i j = MUs one U (snk L k) i j := by
        intro i j hj
        unfold MUg
        rw [((mem_block_iff hL k hk j).mp hj).2]
      apply InvN_step L.n (MUg one L U) (fromk L (k + 1)) (Ico (snk L k).f (snk L k).e) _ _ _ (fromk_disj hL k hk) _ _ _
        (fun j hj => by unfold fromk at hj; exact mem_range.mp (mem_filter.mp hj).1) p2
      · intro i hi j hj
        rw [hM i j hj]
        have hjB := mem_Ico.mp hj
        have hjn := (mem_block_iff hL k hk j).mp hj
        have hiP : i < L.n ∧ k + 1 ≤ supOf L i := by
          unfold fromk at hi; simpa using hi
        have hiB := outside_of_sup_ne hL k hk i hiP.1 (by omega)
        unfold MUs
        rw [snU_out hsn i _ hiB (by have := hsn.nc_eq; omega), zero_add]
        exact ucolD_zero_of_sup_ge hU j hjn.1 i (by omega)
      · intro i hi
        rw [s2 i hi]
        exact sum_congr rfl (fun j hj => by rw [hM i j hj])
      · intro i hi hiB
        rw [s3 i hi hiB]
        congr 1
        exact sum_congr rfl (fun j hj => by rw [hM i j hj])
  obtain ⟨k1, k2⟩ := key
  rw [Nat.sub_self, fromk_zero] at k2
  exact ⟨k1, InvN_final _ _ _ _ k2⟩

/-- **x := inv(Lᵀ)·x** : supernodes `nsuper, …, 1, 0` -/
theorem sweepDown_LT {L : SCP} (hL : LOk L) (one : Int) (x : Array Rat) (hx : x.size = L.n) :
    (sweepDown L (stepLT one) x).size = L.n ∧
    ∀ i < L.n, ∑ j ∈ range L.n, MLg one L j i * rd (sweepDown L (stepLT one) x) j = rd x i := by
  let P : Nat → Array Rat → Prop := fun kk xk =>
    xk.size = L.n ∧ InvT L.n (fun i j => MLg one L j i) (fromk L (L.numSnodes - kk)) (fun i => rd xk i) (fun i => rd x i)
  have key : P L.numSnodes (sweepDown L (stepLT one) x) := by
    unfold sweepDown
    apply foldl_range_inv P
    · refine ⟨hx, ?_⟩
      show InvT _ _ (fromk L (L.numSnodes - 0)) _ _
      rw [Nat.sub_zero, fromk_top hL]; exact InvT_init _ _ _
    · intro kk xk hkk ⟨p1, p2⟩
      show P (kk + 1) (stepLT one (snk L (L.numSnodes - 1 - kk)) xk)
      generalize hkdef : L.numSnodes - 1 - kk = k
      have hk : k < L.numSnodes := by omega
      have e1 : L.numSnodes - kk = k + 1 := by omega
      have e2 : L.numSnodes - (kk + 1) = k := by omega
      have hsn := hL.sn k hk
      obtain ⟨s1, s2, s3⟩ := stepLT_spec one hsn xk p1
      refine ⟨by rw [s1, p1], ?_⟩
      show InvT _ _ (fromk L (L.numSnodes - (kk + 1))) _ _
      rw [e2, ← fromk_succ hL k hk]
      rw [e1] at p2
      apply InvT_step L.n (fun i j => MLg one L j i) (fromk L (k + 1)) (Ico (snk L k).f (snk L k).e) _ _ _ _ _ _
        (fromk_disj hL k hk) (fun j hj => ((mem_block_iff hL k hk j).mp hj).1) p2
      · intro i hi j hj
        show MLg one L j i = 0
        have hjn := (mem_block_iff hL k hk j).mp hj
        have hiP : i < L.n ∧ k + 1 ≤ supOf L i := by
          unfold fromk at hi; simpa using hi
        have hk' := hL.sup_lt i hiP.1
        have hmem := hL.sup_mem i hiP.1
        have hsn' := hL.sn _ hk'
        unfold MLg MLs
        rw [if_neg (fun e => by rw [e] at hjn; omega)]
        exact snL_zero_of_sup_le hL one _ hk' j _ (by have := hsn'.nc_eq; omega)
          (outside_of_sup_ne hL _ hk' j hjn.1 (by omega)) (by omega)
      · intro i hi
        rw [s2 i hi]
        apply sum_congr rfl
        intro j _
        show _ = MLg one L j i * _
        unfold MLg
        rw [((mem_block_iff hL k hk i).mp hi).2]
      · intro i hi hiB
        exact s3 i hi hiB
  obtain ⟨k1, k2⟩ := key
  rw [Nat.sub_self, fromk_zero] at k2
  exact ⟨k1, InvT_final _ _ _ _ k2⟩

/-- **x := inv(Uᵀ)·x** : supernodes `0, 1, …` -/
theorem sweepUp_UT {L : SCP} (hL : LOk L) (one : Int) (U : NCP) (hU : UOk one L U) (x : Array Rat) (hx : x.size = L.n) :
    (sweepUp L (stepUT one U) x).size = L.n ∧
    ∀ i < L.n, ∑ j ∈ range L.n, MUg one L U j i * rd (sweepUp L (stepUT one U) x) j = rd x i := by
  let P : Nat → Array Rat → Prop := fun k xk =>
    xk.size = L.n ∧ InvT L.n (fun i j => MUg one L U j i) (below L k) (fun i => rd xk i) (fun i => rd x i)
  have key : P L.numSnodes (sweepUp L (stepUT one U) x) := by
    unfold sweepUp
    apply foldl_range_inv P
    · refine ⟨hx, ?_⟩
      rw [below_zero]; exact InvT_init _ _ _
    · intro k xk hk ⟨p1, p2⟩
      show P (k + 1) (stepUT one U (snk L k) xk)
      have hsn := hL.sn k hk
      obtain ⟨s1, s2, s3⟩ := stepUT_spec one U hsn xk p1 (hU.colOk hL k hk) (hU.diag k hk)
      refine ⟨by rw [s1, p1], ?_⟩
      rw [← below_succ hL k hk]
      apply InvT_step L.n (fun i j => MUg one L U j i) (below L k) (Ico (snk L k).f (snk L k).e) _ _ _ _ _ _
        (below_disj hL k hk) (fun j hj => ((mem_block_iff hL k hk j).mp hj).1) p2
      · intro i hi j hj
        show MUg one L U j i = 0
        have hjn := (mem_block_iff hL k hk j).mp hj
        have hiP : i < L.n ∧ supOf L i < k := by
          unfold below at hi; simpa using hi
        have hk' := hL.sup_lt i hiP.1
        have hmem := hL.sup_mem i hiP.1
        have hsn' := hL.sn _ hk'
        unfold MUg MUs
        rw [snU_out hsn' j _ (outside_of_sup_ne hL _ hk' j hjn.1 (by omega)) (by have := hsn'.nc_eq; omega), zero_add]
        exact ucolD_zero_of_sup_ge hU i hiP.1 j (by omega)
      · intro i hi
        rw [s2 i hi]
        apply sum_congr rfl
        intro j _
        show _ = MUg one L U j i * _
        unfold MUg
        rw [((mem_block_iff hL k hk i).mp hi).2]
      · intro i hi hiB
        exact s3 i hi hiB
  obtain ⟨k1, k2⟩ := key
  rw [below_all hL] at k2
  exact ⟨k1, InvT_final _ _ _ _ k2⟩

end Slu.Blas
