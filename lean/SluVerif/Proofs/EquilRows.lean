/-
C11 helper lemmas: laws of the entry types, specification of the row-maximum pass and of the
column-maximum pass of gsequ.
-/
import SluVerif.Proofs.EquilBasic
import Mathlib.Tactic.Ring

namespace Slu.Equil
open Entry

/-- the algebra the property needs of an entry type -/
class LawfulEntry (E : Type) [Entry E] [Zero E] : Prop where
  mag_nonneg : ∀ e : E, 0 ≤ mag e
  mag_eq_zero : ∀ e : E, mag e = 0 ↔ e = 0
  mag_smul : ∀ (s : Rat) (e : E), mag (smul s e) = |s| * mag e
  smul_one : ∀ e : E, smul 1 e = e
  smul_smul : ∀ (s t : Rat) (e : E), smul s (smul t e) = smul (t * s) e

instance : Zero Cx := ⟨⟨0, 0⟩⟩

theorem Cx.ext' {a b : Cx} (h1 : a.re = b.re) (h2 : a.im = b.im) : a = b := by
  cases a; cases b; simp_all

instance : LawfulEntry Rat where
  mag_nonneg e := by show 0 ≤ rabs e; rw [rabs_eq]; exact abs_nonneg e
  mag_eq_zero e := by show rabs e = 0 ↔ e = 0; rw [rabs_eq]; exact abs_eq_zero
  mag_smul s e := by show rabs (e * s) = |s| * rabs e; rw [rabs_eq, rabs_eq, abs_mul, mul_comm]
  smul_one e := by show e * 1 = e; exact mul_one e
  smul_smul s t e := by show e * t * s = e * (t * s); exact mul_assoc e t s

instance : LawfulEntry Cx where
  mag_nonneg e := by
    show 0 ≤ rabs e.re + rabs e.im
    rw [rabs_eq, rabs_eq]; exact add_nonneg (abs_nonneg _) (abs_nonneg _)
  mag_eq_zero e := by
    show rabs e.re + rabs e.im = 0 ↔ e = 0
    rw [rabs_eq, rabs_eq]
    constructor
    · intro h
      have h1 : |e.re| = 0 := by linarith [abs_nonneg e.re, abs_nonneg e.im]
      have h2 : |e.im| = 0 := by linarith [abs_nonneg e.re, abs_nonneg e.im]
      exact Cx.ext' (abs_eq_zero.mp h1) (abs_eq_zero.mp h2)
    · intro h; subst h; show |(0 : Rat)| + |(0 : Rat)| = 0; simp
  mag_smul s e := by
    show rabs (e.re * s) + rabs (e.im * s) = |s| * (rabs e.re + rabs e.im)
    simp only [rabs_eq, abs_mul]; ring
  smul_one e := by
    show (⟨e.re * 1, e.im * 1⟩ : Cx) = e
    cases e; simp
  smul_smul s t e := by
    show (⟨e.re * t * s, e.im * t * s⟩ : Cx) = ⟨e.re * (t * s), e.im * (t * s)⟩
    rw [mul_assoc, mul_assoc]

section
variable {E : Type} [Entry E]

/-- all stored entries `(row, value)` of the matrix, in storage order -/
def SpMat.stored (A : SpMat E) : List (Nat × E) := A.cols.flatten

/-- magnitudes of the stored entries of row `i` -/
def rowMags (A : SpMat E) (i : Nat) : List Rat :=
  (A.stored.filter (fun e => e.1 == i)).map (fun e => mag e.2)

/-- largest magnitude in row `i` (0 for a row without stored entries) -/
def rowMax (A : SpMat E) (i : Nat) : Rat := fmax 0 (rowMags A i)

theorem rowMax_nonneg (A : SpMat E) (i : Nat) : 0 ≤ rowMax A i := fmax_ge_init 0 _

/-- `rowMax` is an upper bound of the row ... -/
theorem rowMax_ge (A : SpMat E) (e : Nat × E) (he : e ∈ A.stored) : mag e.2 ≤ rowMax A e.1 := by
  apply fmax_ge_mem
  unfold rowMags
  exact List.mem_map.mpr ⟨e, List.mem_filter.mpr ⟨he, by simp⟩, rfl⟩

/-- ... and is attained (or is 0). -/
theorem rowMax_attained (A : SpMat E) (i : Nat) :
    rowMax A i = 0 ∨ ∃ e ∈ A.stored, e.1 = i ∧ mag e.2 = rowMax A i := by
  rcases fmax_mem_or_init 0 (rowMags A i) with h | h
  · left; exact h
  · right
    unfold rowMags at h
    obtain ⟨e, he, hm⟩ := List.mem_map.mp h
    obtain ⟨h1, h2⟩ := List.mem_filter.mp he
    exact ⟨e, h1, by simpa using h2, hm⟩

theorem foldl_rowMaxStep_length (es : List (Nat × E)) (r : List Rat) :
    (es.foldl rowMaxStep r).length = r.length := by
  induction es generalizing r with
  | nil => rfl
  | cons e es ih => simp only [List.foldl_cons]; rw [ih]; unfold rowMaxStep; exact List.length_modify _ _ _

theorem foldl_rowMaxStep_get (es : List (Nat × E)) (r : List Rat) (i : Nat) :
    (es.foldl rowMaxStep r)[i]? =
      r[i]?.map (fun x => fmax x ((es.filter (fun e => e.1 == i)).map (fun e => mag e.2))) := by
  induction es generalizing r with
  | nil => simp
  | cons e es ih =>
    simp only [List.foldl_cons]
    rw [ih]
    unfold rowMaxStep
    rw [List.getElem?_modify, List.filter_cons]
    by_cases h : e.1 = i
    · subst h
      cases hr : r[e.1]? with
      | none => simp
      | some x => simp [rmax_eq]
    · have h' : (e.1 == i) = false := by simpa using h
      cases hr : r[i]? with
      | none => simp
      | some x => simp [h, h']

theorem rowMaxPass_eq_foldl (A : SpMat E) :
    rowMaxPass A = A.stored.foldl rowMaxStep (List.replicate A.nrow 0) := by
  unfold rowMaxPass SpMat.stored
  rw [List.foldl_flatten]

theorem rowMaxPass_length (A : SpMat E) : (rowMaxPass A).length = A.nrow := by
  rw [rowMaxPass_eq_foldl, foldl_rowMaxStep_length, List.length_replicate]

/-- the first loop nest of gsequ computes exactly the row maxima. -/
theorem rowMaxPass_get (A : SpMat E) (i : Nat) (hi : i < A.nrow) :
    (rowMaxPass A)[i]? = some (rowMax A i) := by
  rw [rowMaxPass_eq_foldl, foldl_rowMaxStep_get, List.getElem?_replicate]
  simp [hi, rowMax, rowMags]

theorem rowMaxPass_eq_map (A : SpMat E) : rowMaxPass A = (List.range A.nrow).map (rowMax A) := by
  apply List.ext_getElem?
  intro i
  by_cases hi : i < A.nrow
  · rw [rowMaxPass_get A i hi, List.getElem?_map, List.getElem?_range hi]; rfl
  · have h1 : (rowMaxPass A)[i]? = none := by
      apply List.getElem?_eq_none; rw [rowMaxPass_length]; omega
    have h2 : ((List.range A.nrow).map (rowMax A))[i]? = none := by
      apply List.getElem?_eq_none; simp; omega
    rw [h1, h2]

/-- scaled magnitudes of a column: `|a| * r[irow]` in storage order -/
def colMags (r : List Rat) (col : List (Nat × E)) : List Rat :=
  col.map (fun e => mag e.2 * r.getD e.1 0)

theorem colMax_eq (r : List Rat) (col : List (Nat × E)) : colMax r col = fmax 0 (colMags r col) := by
  unfold colMax colMags fmax
  rw [List.foldl_map]
  congr 1
  funext c e
  exact rmax_eq _ _

theorem colMaxPass_length (A : SpMat E) (r : List Rat) : (colMaxPass A r).length = A.ncol := by
  unfold colMaxPass SpMat.ncol; simp

theorem colMaxPass_get (A : SpMat E) (r : List Rat) (j : Nat) :
    (colMaxPass A r)[j]? = A.cols[j]?.map (fun col => fmax 0 (colMags r col)) := by
  unfold colMaxPass
  rw [List.getElem?_map]
  cases A.cols[j]? with
  | none => rfl
  | some col => simp [colMax_eq]

end

section
variable {E : Type} [Entry E] [Zero E] [LawfulEntry E]

/-- a row maximum is 0 exactly when every stored entry of the row is 0. -/
theorem rowMax_eq_zero_iff (A : SpMat E) (i : Nat) :
    rowMax A i = 0 ↔ ∀ e ∈ A.stored, e.1 = i → e.2 = 0 := by
  constructor
  · intro h e he hi
    have h1 := rowMax_ge A e he
    rw [hi, h] at h1
    exact (LawfulEntry.mag_eq_zero e.2).mp (le_antisymm h1 (LawfulEntry.mag_nonneg e.2))
  · intro h
    rcases rowMax_attained A i with h0 | ⟨e, he, hi, hm⟩
    · exact h0
    · rw [← hm]; exact (LawfulEntry.mag_eq_zero e.2).mpr (h e he hi)

end

end Slu.Equil
