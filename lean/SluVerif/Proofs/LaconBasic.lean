/- helper lemmas for Props/C12 (lacon): sums, absolute values, idamax, ‖M x‖₁ ≤ ‖M‖₁ ‖x‖₁, special vectors -/
import SluVerif.Model.Lacon
import Mathlib.Algebra.BigOperators.Group.Finset.Basic
import Mathlib.Algebra.Order.BigOperators.Group.Finset
import Mathlib.Algebra.Order.Field.Rat
import Mathlib.Algebra.BigOperators.Ring.Finset
import Mathlib.Algebra.BigOperators.Field
import Mathlib.Algebra.BigOperators.Group.Finset.Piecewise
import Mathlib.Algebra.Order.AbsoluteValue.Basic
import Mathlib.Tactic.Linarith
import Mathlib.Tactic.Ring
import Mathlib.Tactic.FieldSimp
import Mathlib.Tactic.Positivity

namespace Slu
open Finset

theorem rabs_eq_abs (x : Rat) : rabs x = |x| := by
  unfold rabs
  split
  · rename_i h; exact (abs_of_neg h).symm
  · rename_i h; exact (abs_of_nonneg (not_lt.mp h)).symm

theorem rabs_nonneg (x : Rat) : 0 ≤ rabs x := by rw [rabs_eq_abs]; exact abs_nonneg x

theorem rsum_eq (n : Nat) (f : Nat → Rat) : rsum n f = ∑ i ∈ range n, f i := by
  unfold rsum
  induction n with
  | zero => simp
  | succ k ih => rw [List.range_succ, List.map_append, List.sum_append, ih, Finset.sum_range_succ]; simp

theorem rget_rmk (n : Nat) (f : Nat → Rat) (i : Nat) : rget (rmk n f) i = if i < n then f i else 0 := by
  unfold rget rmk
  by_cases h : i < n <;> simp [Array.getD, h]

theorem rget_rmk_lt {n : Nat} (f : Nat → Rat) {i : Nat} (h : i < n) : rget (rmk n f) i = f i := by
  rw [rget_rmk, if_pos h]

theorem asum_eq (n : Nat) (x : RVec) : asum n x = ∑ i ∈ range n, |rget x i| := by
  unfold asum; rw [rsum_eq]; exact Finset.sum_congr rfl fun i _ => rabs_eq_abs _

theorem asum_nonneg (n : Nat) (x : RVec) : 0 ≤ asum n x := by
  rw [asum_eq]; exact Finset.sum_nonneg fun i _ => abs_nonneg _

theorem asum_rmk (n : Nat) (f : Nat → Rat) : asum n (rmk n f) = ∑ i ∈ range n, |f i| := by
  rw [asum_eq]; exact Finset.sum_congr rfl fun i hi => by rw [rget_rmk_lt f (mem_range.mp hi)]

theorem asum_vcopy (n : Nat) (x : RVec) : asum n (vcopy n x) = asum n x := by
  unfold vcopy; rw [asum_rmk, asum_eq]

theorem colAbsSum_eq (n : Nat) (M : Nat → Nat → Rat) (j : Nat) : colAbsSum n M j = ∑ i ∈ range n, |M i j| := by
  unfold colAbsSum; rw [rsum_eq]; exact Finset.sum_congr rfl fun i _ => rabs_eq_abs _

theorem colAbsSum_nonneg (n : Nat) (M : Nat → Nat → Rat) (j : Nat) : 0 ≤ colAbsSum n M j := by
  rw [colAbsSum_eq]; exact Finset.sum_nonneg fun i _ => abs_nonneg _

/-! ### idamax -/

private def amaxStep (x : RVec) (best i : Nat) : Nat := if rabs (rget x best) < rabs (rget x i) then i else best

theorem idamax_succ (n : Nat) (x : RVec) :
    idamax (n + 1) x = if rabs (rget x (idamax n x)) < rabs (rget x n) then n else idamax n x := by
  unfold idamax; rw [List.range_succ, List.foldl_append]; rfl

theorem idamax_lt {n : Nat} (hn : 0 < n) (x : RVec) : idamax n x < n := by
  induction n with
  | zero => omega
  | succ k ih =>
    rw [idamax_succ]
    split
    · omega
    · rcases Nat.eq_zero_or_pos k with h | h
      · subst h; simp [idamax]
      · have := ih h; omega

theorem idamax_max (n : Nat) (x : RVec) : ∀ i, i < n → |rget x i| ≤ |rget x (idamax n x)| := by
  induction n with
  | zero => intro i hi; omega
  | succ k ih =>
    intro i hi
    rw [idamax_succ]
    simp only [rabs_eq_abs] at *
    split
    · rename_i h
      rcases Nat.lt_succ_iff_lt_or_eq.mp hi with h1 | h1
      · exact le_trans (ih i h1) (le_of_lt h)
      · subst h1; exact le_refl _
    · rename_i h
      rcases Nat.lt_succ_iff_lt_or_eq.mp hi with h1 | h1
      · exact ih i h1
      · subst h1; exact not_lt.mp h

/-! ### ‖M x‖₁ ≤ ‖M‖₁ ‖x‖₁ -/

theorem asum_matVec_le (n : Nat) (M : Nat → Nat → Rat) (x : RVec) (c : Rat)
    (hc : ∀ j, j < n → colAbsSum n M j ≤ c) : asum n (matVec n M x) ≤ c * asum n x := by
  unfold matVec
  rw [asum_rmk, asum_eq]
  calc ∑ i ∈ range n, |rsum n fun j => M i j * rget x j|
      ≤ ∑ i ∈ range n, ∑ j ∈ range n, |M i j| * |rget x j| := by
        apply Finset.sum_le_sum; intro i _
        rw [rsum_eq]
        calc |∑ j ∈ range n, M i j * rget x j| ≤ ∑ j ∈ range n, |M i j * rget x j| := Finset.abs_sum_le_sum_abs _ _
          _ = ∑ j ∈ range n, |M i j| * |rget x j| := Finset.sum_congr rfl fun j _ => abs_mul _ _
    _ = ∑ j ∈ range n, (∑ i ∈ range n, |M i j|) * |rget x j| := by
        rw [Finset.sum_comm]; exact Finset.sum_congr rfl fun j _ => by rw [Finset.sum_mul]
    _ ≤ ∑ j ∈ range n, c * |rget x j| := by
        apply Finset.sum_le_sum; intro j hj
        have := hc j (mem_range.mp hj); rw [colAbsSum_eq] at this
        exact mul_le_mul_of_nonneg_right this (abs_nonneg _)
    _ = c * ∑ j ∈ range n, |rget x j| := by rw [Finset.mul_sum]

/-! ### the three probe vectors -/

theorem asum_const (n : Nat) (hn : 0 < n) : asum n (rmk n fun _ => 1 / (n : Rat)) = 1 := by
  rw [asum_rmk]
  have h : (0 : Rat) < n := by exact_mod_cast hn
  simp only [Finset.sum_const, card_range, nsmul_eq_mul]
  rw [abs_of_pos (by positivity)]
  field_simp

theorem asum_unitVec_le (n j : Nat) : asum n (unitVec n j) ≤ 1 := by
  unfold unitVec; rw [asum_rmk]
  have : ∀ i ∈ range n, |(if i = j then (1 : Rat) else 0)| = if i = j then 1 else 0 := by
    intro i _; split <;> simp
  rw [Finset.sum_congr rfl this, Finset.sum_ite_eq']
  split <;> norm_num

theorem sum_range_cast (n : Nat) : ∑ k ∈ range n, (k : Rat) = (n : Rat) * ((n : Rat) - 1) / 2 := by
  induction n with
  | zero => simp
  | succ k ih => rw [Finset.sum_range_succ, ih]; push_cast; ring

/-- the alternating-sign vector has 1-norm `3n/2` -/
theorem asum_altVec (n : Nat) (hn : 2 ≤ n) : asum n (altVec n) = 3 * (n : Rat) / 2 := by
  unfold altVec; rw [asum_rmk]
  have hn1 : (0 : Rat) < (n : Rat) - 1 := by
    have : (2 : Rat) ≤ n := by exact_mod_cast hn
    linarith
  have hc : ((((n : Int) - 1 : Int)) : Rat) = (n : Rat) - 1 := by push_cast; ring
  have : ∀ k ∈ range n, |(if k % 2 = 0 then (1 : Rat) else -1) * ((k : Rat) / (((n : Int) - 1 : Int) : Rat) + 1)|
      = (k : Rat) / ((n : Rat) - 1) + 1 := by
    intro k _
    rw [hc, abs_mul]
    have h1 : |(if k % 2 = 0 then (1 : Rat) else -1)| = 1 := by split <;> simp
    have h2 : (0 : Rat) ≤ (k : Rat) / ((n : Rat) - 1) + 1 := by positivity
    rw [h1, abs_of_nonneg h2, one_mul]
  rw [Finset.sum_congr rfl this, Finset.sum_add_distrib, ← Finset.sum_div, sum_range_cast]
  simp only [Finset.sum_const, card_range, nsmul_eq_mul, mul_one]
  field_simp
  ring

end Slu
