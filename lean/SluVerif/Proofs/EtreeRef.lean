/- the executable reference `etreeRef` (tabulated naive symbolic elimination) computes the elimination
   tree in the sense of `IsEtree`. -/
import SluVerif.Proofs.Fill
namespace Slu.Pre

theorem tabGet_tabulate (n : Nat) (f : Nat → Nat → Bool) {a b : Nat} (ha : a < n) (hb : b < n) :
    tabGet (tabulate n f) a b = f a b := by
  unfold tabGet tabulate
  simp [Array.getD_eq_getD_getElem?, ha, hb]

theorem tabulate_congr (n : Nat) (f g : Nat → Nat → Bool) (h : ∀ a b, a < n → b < n → f a b = g a b) :
    tabulate n f = tabulate n g := by
  unfold tabulate
  congr 1
  funext a
  congr 1
  funext b
  exact h a.1 b.1 a.2 b.2

theorem elimStep_get (n : Nat) (T : BTab) (j : Nat) {a b : Nat} (ha : a < n) (hb : b < n) :
    tabGet (elimStep n T j) a b = (tabGet T a b ||
      (decide (j < a) && decide (j < b) && decide (a ≠ b) && tabGet T a j && tabGet T j b)) := by
  unfold elimStep
  rw [tabGet_tabulate n _ ha hb]

theorem fillTab_prefix (n : Nat) (adj : Nat → Nat → Bool) :
    ∀ k, k ≤ n → ∀ a b, a < n → b < n →
      tabGet ((List.range k).foldl (elimStep n) (tabulate n adj)) a b = fill adj k a b := by
  intro k
  induction k with
  | zero => intro _ a b ha hb; simp [fill, tabGet_tabulate n adj ha hb]
  | succ k ih =>
      intro hk a b ha hb
      rw [List.range_succ, List.foldl_append]
      simp only [List.foldl_cons, List.foldl_nil]
      rw [elimStep_get n _ k ha hb, ih (by omega) a b ha hb, ih (by omega) a k ha (by omega),
        ih (by omega) k b (by omega) hb]
      rfl

theorem tabGet_fillTab (n : Nat) (adj : Nat → Nat → Bool) {a b : Nat} (ha : a < n) (hb : b < n) :
    tabGet (fillTab n adj) a b = fill adj n a b := fillTab_prefix n adj n (Nat.le_refl _) a b ha hb

theorem find_range'_spec (q : Nat → Bool) : ∀ (len start : Nat),
    match (List.range' start len).find? q with
    | some i => start ≤ i ∧ i < start + len ∧ q i = true ∧ ∀ i', start ≤ i' → i' < i → q i' = false
    | none => ∀ i', start ≤ i' → i' < start + len → q i' = false
  | 0, start => by
      simp only [List.range'_zero, List.find?_nil]
      intro i' h1 h2; omega
  | len + 1, start => by
      rw [List.range'_succ, List.find?_cons]
      cases hq : q start with
      | true =>
          simp only
          exact ⟨Nat.le_refl _, by omega, hq, fun i' h1 h2 => by omega⟩
      | false =>
          simp only
          have ih := find_range'_spec q len (start + 1)
          cases hf : (List.range' (start + 1) len).find? q with
          | some i =>
              rw [hf] at ih
              simp only at ih ⊢
              obtain ⟨h1, h2, h3, h4⟩ := ih
              refine ⟨by omega, by omega, h3, ?_⟩
              intro i' hi1 hi2
              by_cases he : i' = start
              · subst he; exact hq
              · exact h4 i' (by omega) hi2
          | none =>
              rw [hf] at ih
              simp only at ih ⊢
              intro i' hi1 hi2
              by_cases he : i' = start
              · subst he; exact hq
              · exact ih i' (by omega) (by omega)

/-- the reference array is the elimination tree of `adj` -/
theorem etreeRef_isEtree (n : Nat) (adj : Nat → Nat → Bool) :
    IsEtree adj n (getN (etreeRef n adj)) := by
  intro j hj
  unfold etreeRef etreeOfFill
  rw [getN_ofFn _ _ hj]
  simp only
  have hspec := find_range'_spec (fun i => tabGet (fillTab n adj) i j) (n - (j + 1)) (j + 1)
  cases hf : (List.range' (j + 1) (n - (j + 1))).find? (fun i => tabGet (fillTab n adj) i j) with
  | some i =>
      rw [hf] at hspec
      simp only at hspec ⊢
      obtain ⟨h1, h2, h3, h4⟩ := hspec
      have hin : i < n := by omega
      refine ⟨by omega, by omega, fun _ => ?_, ?_⟩
      · rw [← tabGet_fillTab n adj hin hj]; exact h3
      · intro i' hi1 hi2
        rw [← tabGet_fillTab n adj (by omega) hj]
        exact h4 i' (by omega) hi2
  | none =>
      rw [hf] at hspec
      simp only at hspec ⊢
      refine ⟨hj, Nat.le_refl _, fun h => by omega, ?_⟩
      intro i' hi1 hi2
      rw [← tabGet_fillTab n adj hi2 hj]
      exact hspec i' (by omega) (by omega)

theorem etreeRef_size (n : Nat) (adj : Nat → Nat → Bool) : (etreeRef n adj).size = n := by
  simp [etreeRef, etreeOfFill]

theorem etreeRef_congr (n : Nat) (f g : Nat → Nat → Bool) (h : ∀ a b, a < n → b < n → f a b = g a b) :
    etreeRef n f = etreeRef n g := by
  unfold etreeRef fillTab
  rw [tabulate_congr n f g h]

/-- an array that is an elimination tree of `adj` IS the reference array -/
theorem eq_etreeRef_of_isEtree {n : Nat} {adj : Nat → Nat → Bool} {p : Array Nat} (hs : p.size = n)
    (he : IsEtree adj n (getN p)) : p = etreeRef n adj := by
  apply Array.ext
  · rw [hs, etreeRef_size]
  · intro i h1 h2
    have hi : i < n := by omega
    have := he.unique (etreeRef_isEtree n adj) i hi
    rw [getN_eq_getElem _ _ h1, getN_eq_getElem _ _ h2] at this
    exact this

end Slu.Pre
