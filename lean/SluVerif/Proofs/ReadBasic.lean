/- Helper lemmas for C20: characters, digit strings, `atoi` on right-justified fields. -/
import SluVerif.Model.ReadWrite
namespace Slu.Read

/-! ### characters -/

theorem digit_facts : ∀ d, d < 10 → isDig (digitChar d) = true ∧ digVal (digitChar d) = d := by decide

theorem isDig_digitChar {d : Nat} (h : d < 10) : isDig (digitChar d) = true := (digit_facts d h).1
theorem digVal_digitChar {d : Nat} (h : d < 10) : digVal (digitChar d) = d := (digit_facts d h).2

theorem ne_of_isDig {c x : Char} (hc : isDig c = true) (hx : isDig x = false) : c ≠ x := by
  rintro rfl; simp [hc] at hx

/-- every digit is none of the characters the parsers look for. -/
theorem isDig_not_space {c : Char} (h : isDig c = true) : isSpace c = false := by
  have h1 := ne_of_isDig h (x := ' ') (by decide)
  have h2 := ne_of_isDig h (x := '\t') (by decide)
  have h3 := ne_of_isDig h (x := '\n') (by decide)
  have h4 := ne_of_isDig h (x := '\x0b') (by decide)
  have h5 := ne_of_isDig h (x := '\x0c') (by decide)
  have h6 := ne_of_isDig h (x := '\r') (by decide)
  simp [isSpace, h1, h2, h3, h4, h5, h6]

/-- a string all of whose characters are decimal digits -/
def AllDig (s : Str) : Prop := ∀ c ∈ s, isDig c = true

/-- `s` is empty or starts with a non-digit -/
def NoDigHead : Str → Prop
  | [] => True
  | c :: _ => isDig c = false

instance (s : Str) : Decidable (AllDig s) := by unfold AllDig; infer_instance

theorem AllDig.nil : AllDig [] := by intro c h; cases h
theorem AllDig.cons {c : Char} {s : Str} (hc : isDig c = true) (hs : AllDig s) : AllDig (c :: s) := by
  intro x hx; rcases List.mem_cons.mp hx with rfl | h
  · exact hc
  · exact hs x h
theorem AllDig.append {a b : Str} (ha : AllDig a) (hb : AllDig b) : AllDig (a ++ b) := by
  intro x hx; rcases List.mem_append.mp hx with h | h
  · exact ha x h
  · exact hb x h
theorem AllDig.head {c : Char} {s : Str} (h : AllDig (c :: s)) : isDig c = true := h c (by simp)
theorem AllDig.tail {c : Char} {s : Str} (h : AllDig (c :: s)) : AllDig s := fun x hx => h x (by simp [hx])

/-! ### spanDigits / valOf -/

theorem spanDigits_append {ds rest : Str} (hd : AllDig ds) (hr : NoDigHead rest) :
    spanDigits (ds ++ rest) = (ds, rest) := by
  induction ds with
  | nil =>
    cases rest with
    | nil => rfl
    | cons c cs => simp only [NoDigHead] at hr; simp [spanDigits, hr]
  | cons c cs ih =>
    have := ih hd.tail
    simp [spanDigits, hd.head, this]

theorem valOf_foldl (acc : Nat) (ds : Str) :
    ds.foldl (fun a c => a * 10 + digVal c) acc = acc * 10 ^ ds.length + valOf ds := by
  induction ds generalizing acc with
  | nil => simp [valOf]
  | cons c cs ih =>
    simp only [List.foldl_cons, List.length_cons, valOf]
    rw [ih, ih (0 * 10 + digVal c)]
    rw [Nat.pow_succ]; simp [Nat.add_mul, Nat.mul_assoc, Nat.mul_comm 10, Nat.add_assoc]

theorem valOf_append (a b : Str) : valOf (a ++ b) = valOf a * 10 ^ b.length + valOf b := by
  simp only [valOf, List.foldl_append]
  rw [valOf_foldl]; rfl

theorem valOf_snoc (a : Str) (c : Char) : valOf (a ++ [c]) = valOf a * 10 + digVal c := by
  rw [valOf_append]; simp [valOf]

/-! ### natDigits -/

theorem natDigits_allDig (k : Nat) : AllDig (natDigits k) := by
  induction k using Nat.strongRecOn with
  | _ k ih =>
    rw [natDigits]
    split
    · exact AllDig.cons (isDig_digitChar (by omega)) AllDig.nil
    · exact AllDig.append (ih (k / 10) (by omega)) (AllDig.cons (isDig_digitChar (by omega)) AllDig.nil)

theorem valOf_natDigits (k : Nat) : valOf (natDigits k) = k := by
  induction k using Nat.strongRecOn with
  | _ k ih =>
    rw [natDigits]
    split
    · rename_i h; simp [valOf, digVal_digitChar h]
    · rw [valOf_snoc, ih (k / 10) (by omega), digVal_digitChar (by omega)]; omega

theorem natDigits_ne_nil (k : Nat) : natDigits k ≠ [] := by
  rw [natDigits]; split <;> simp

theorem natDigits_length_pos (k : Nat) : 0 < (natDigits k).length :=
  List.length_pos_iff.mpr (natDigits_ne_nil k)

/-! ### atoi on right-justified fields -/

theorem skipSpace_blanks (k : Nat) (s : Str) : skipSpace (blanks k ++ s) = skipSpace s := by
  induction k with
  | zero => rfl
  | succ k ih => simp only [blanks, List.replicate_succ, List.cons_append, skipSpace] at *; simp [isSpace, ih]

theorem skipSpace_of_not_space {c : Char} {s : Str} (h : isSpace c = false) : skipSpace (c :: s) = c :: s := by
  simp [skipSpace, h]

theorem takeSign_of_dig {c : Char} {s : Str} (h : isDig c = true) : takeSign (c :: s) = (false, c :: s) := by
  have h1 := ne_of_isDig h (x := '-') (by decide)
  have h2 := ne_of_isDig h (x := '+') (by decide)
  unfold takeSign
  split
  · rename_i heq; injection heq with a b; exact absurd a h1
  · rename_i heq; injection heq with a b; exact absurd a h2
  · rfl

theorem takeSign_minus (s : Str) : takeSign ('-' :: s) = (true, s) := rfl
theorem takeSign_plus (s : Str) : takeSign ('+' :: s) = (false, s) := rfl

theorem atoiZ_digits {p : Nat} {ds rest : Str} (hd : AllDig ds) (hne : ds ≠ []) (hr : NoDigHead rest) :
    atoiZ (blanks p ++ (ds ++ rest)) = (valOf ds : Int) := by
  cases ds with
  | nil => exact absurd rfl hne
  | cons c cs =>
    unfold atoiZ
    rw [skipSpace_blanks]
    simp only [List.cons_append]
    rw [skipSpace_of_not_space (isDig_not_space hd.head), takeSign_of_dig hd.head]
    simp only
    rw [← List.cons_append, spanDigits_append hd hr]
    simp [applySign]

theorem atoiZ_neg_digits {p : Nat} {ds rest : Str} (hd : AllDig ds) (hr : NoDigHead rest) :
    atoiZ (blanks p ++ ('-' :: (ds ++ rest))) = -(valOf ds : Int) := by
  unfold atoiZ
  rw [skipSpace_blanks, skipSpace_of_not_space (by decide), takeSign_minus]
  simp only
  rw [spanDigits_append hd hr]
  simp [applySign]


theorem padLeft_length {w : Nat} {s : Str} (h : s.length ≤ w) : (padLeft w s).length = w := by
  simp [padLeft, blanks]; omega

theorem atoiZ_fmtInt (w k : Nat) {rest : Str} (hr : NoDigHead rest) : atoiZ (fmtInt w k ++ rest) = (k : Int) := by
  unfold fmtInt padLeft
  rw [List.append_assoc, atoiZ_digits (natDigits_allDig k) (natDigits_ne_nil k) hr, valOf_natDigits]

theorem inInt32_ofNat {k : Nat} (h : k < 2147483648) : inInt32 (k : Int) = true := by
  simp [inInt32]; omega

theorem atoiC_fmtInt (w : Nat) {k : Nat} (hk : k < 2147483648) {rest : Str} (hr : NoDigHead rest) :
    atoiC (fmtInt w k ++ rest) = some (k : Int) := by
  simp [atoiC, atoiZ_fmtInt w k hr, inInt32_ofNat hk]

theorem atoiC_natDigits {k : Nat} (hk : k < 2147483648) {rest : Str} (hr : NoDigHead rest) :
    atoiC (natDigits k ++ rest) = some (k : Int) := by
  have := atoiZ_digits (p := 0) (natDigits_allDig k) (natDigits_ne_nil k) hr
  simp only [blanks, List.replicate_zero, List.nil_append] at this
  simp [atoiC, this, valOf_natDigits, inInt32_ofNat hk]

theorem convIndex_fmtInt (w : Nat) {i : Nat} (hi : i + 1 < 2147483648) :
    convIndex (fmtInt w (i + 1)) = some (i : Int) := by
  have h := atoiC_fmtInt w hi (rest := []) trivial
  rw [List.append_nil] at h
  simp only [convIndex, h]
  have e : ((i + 1 : Nat) : Int) - 1 = (i : Int) := by omega
  rw [e, inInt32_ofNat (by omega)]; rfl

/-! ### scanning primitives -/

theorem dropThrough_append {p : Char → Bool} {a : Str} {c : Char} {t : Str}
    (ha : ∀ x ∈ a, p x = false) (hc : p c = true) : dropThrough p (a ++ c :: t) = some t := by
  induction a with
  | nil => simp [dropThrough, hc]
  | cons x xs ih =>
    have hx : p x = false := ha x (by simp)
    simp only [List.cons_append, dropThrough, hx]
    exact ih (fun y hy => ha y (by simp [hy]))

theorem dropUntil_append {p : Char → Bool} {a : Str} {c : Char} {t : Str}
    (ha : ∀ x ∈ a, p x = false) (hc : p c = true) : dropUntil p (a ++ c :: t) = some (c :: t) := by
  induction a with
  | nil => simp [dropUntil, hc]
  | cons x xs ih =>
    have hx : p x = false := ha x (by simp)
    simp only [List.cons_append, dropUntil, hx]
    exact ih (fun y hy => ha y (by simp [hy]))

theorem takeUntil_append {p : Char → Bool} {a : Str} {c : Char} {t : Str}
    (ha : ∀ x ∈ a, p x = false) (hc : p c = true) : takeUntil p (a ++ c :: t) = some a := by
  induction a with
  | nil => simp [takeUntil, hc]
  | cons x xs ih =>
    have hx : p x = false := ha x (by simp)
    simp only [List.cons_append, takeUntil, hx]
    rw [ih (fun y hy => ha y (by simp [hy]))]; rfl

theorem isDig_not_I {c : Char} (h : isDig c = true) : isI c = false := by
  have h1 := ne_of_isDig h (x := 'I') (by decide)
  have h2 := ne_of_isDig h (x := 'i') (by decide)
  simp [isI, h1, h2]

theorem isI_not_dig {c : Char} (h : isI c = true) : isDig c = false := by
  simp only [isI, Bool.or_eq_true, beq_iff_eq] at h
  rcases h with rfl | rfl <;> decide

end Slu.Read
