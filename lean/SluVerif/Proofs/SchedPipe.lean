/-
The pipeline structure (C03, scheduler level): when a panel is handed out, its unfinished proper descendants form ONE chain
of BUSY panels — the panel path from the `bcol` the worker is given up to the panel — and a worker can complete its panel only
when every proper descendant panel is finished.  Third inductive invariant `PipeInv`.
-/
import SluVerif.Proofs.SchedMeasure

namespace Slu
open Slu.Gen
open Classical

/-! ### the panel forest: more about `Desc` -/

theorem desc_trans (K : Cfg) {a b c : Nat} (h1 : Desc K a b) (h2 : Desc K b c) : Desc K a c := by
  induction h1 with
  | refl p => exact h2
  | step q p hq hd _ ih => exact Desc.step q _ hq hd (ih h2)

/-- a proper descendant sits below a child -/
theorem desc_child (K : Cfg) {q p : Nat} (h : Desc K q p) (hne : q ≠ p) :
    ∃ c, c ∈ K.panels ∧ K.dad c = p ∧ K.dad c < K.c.n ∧ Desc K q c := by
  induction h with
  | refl p => exact absurd rfl hne
  | step q p hq hd h' ih =>
    by_cases e : K.dad q = p
    · exact ⟨q, hq, e, hd, Desc.refl q⟩
    · obtain ⟨c, c1, c2, c3, c4⟩ := ih e
      exact ⟨c, c1, c2, c3, Desc.step q c hq hd c4⟩

/-- the ancestors of a panel form a chain -/
theorem desc_linear (K : Cfg) (W : CfgWF K) {x a b : Nat} (h1 : Desc K x a) (h2 : Desc K x b) : Desc K a b ∨ Desc K b a := by
  induction h1 generalizing b with
  | refl p => left; exact h2
  | step q p hq hd h' ih =>
    cases h2 with
    | refl => right; exact Desc.step q p hq hd h'
    | step _ _ _ _ h2' => exact ih h2'

theorem desc_antisymm (K : Cfg) (W : CfgWF K) {a b : Nat} (h1 : Desc K a b) (h2 : Desc K b a) : a = b := by
  have := desc_le K W h1; have := desc_le K W h2; omega

def OnPath (K : Cfg) (x b p : Nat) : Prop := Desc K b x ∧ Desc K x p

/-! ### what `climbDone` skips -/

theorem climb_path (K : Cfg) (W : CfgWF K) (s' : Sys) (hdad : ∀ j, dadPanel K.c s'.sh j = K.dad j) (j : Nat)
    (hj : stt s' j ≠ DONE) :
    ∀ fuel x, x ∈ K.panels → Desc K x j →
      Desc K x (climbDone K.c s'.sh fuel x) ∧
      ∀ z, Desc K x z → Desc K z (climbDone K.c s'.sh fuel x) → z ≠ climbDone K.c s'.sh fuel x → stt s' z = DONE := by
  intro fuel
  induction fuel with
  | zero =>
    intro x _ _
    refine ⟨Desc.refl x, ?_⟩
    intro z h1 h2 hne
    exact absurd (desc_antisymm K W h2 h1) hne
  | succ fuel ih =>
    intro x hx hd
    unfold climbDone
    by_cases hs : (getN s'.sh.state x == DONE) = true
    · rw [if_pos hs, hdad]
      have hxd : stt s' x = DONE := by unfold stt; simpa using hs
      have hne : x ≠ j := by intro e; subst e; exact hj hxd
      obtain ⟨d1, d2, d3⟩ := desc_dad K hd hne
      obtain ⟨i1, i2⟩ := ih (K.dad x) (W.dad_pan x d2 d3) d1
      refine ⟨Desc.step x _ d2 d3 i1, ?_⟩
      intro z h1 h2 hnz
      -- z is x itself or lies above dad x
      cases h1 with
      | refl => exact hxd
      | step _ _ _ _ h1' => exact i2 z h1' h2 hnz
    · rw [if_neg hs]
      refine ⟨Desc.refl x, ?_⟩
      intro z h1 h2 hne
      exact absurd (desc_antisymm K W h2 h1) hne

/-! ### columns on the way up -/

/-- column `y` is reached from column `x` by following etree parents -/
inductive ColReach (c : PanelCfg) : Nat → Nat → Prop
  | refl (x : Nat) : ColReach c x x
  | step (x y : Nat) (hx : x < c.n) : ColReach c (getN c.etree x) y → ColReach c x y

theorem colReach_trans (c : PanelCfg) {x y z : Nat} (h1 : ColReach c x y) (h2 : ColReach c y z) : ColReach c x z := by
  induction h1 with
  | refl => exact h2
  | step x y hx _ ih => exact ColReach.step x _ hx (ih h2)

/-- static facts about the etree used here: parents are to the right (postorder) -/
structure EtreeUp (K : Cfg) : Prop where
  up : ∀ k, k < K.c.n → k < getN K.c.etree k

/-- inside a panel the path climbs to the panel's last column -/
theorem reach_last (K : Cfg) (Q : ColCfg) (C : ColWF K Q) (U : EtreeUp K) (p : Nat) (hp : p ∈ K.panels) :
    ∀ m k, p + Q.wd p - 1 - k ≤ m → p ≤ k → k < p + Q.wd p → ColReach K.c k (p + Q.wd p - 1) := by
  intro m
  induction m with
  | zero =>
    intro k h1 h2 h3
    have : k = p + Q.wd p - 1 := by omega
    rw [this]; exact ColReach.refl _
  | succ m ih =>
    intro k h1 h2 h3
    by_cases hl : k = p + Q.wd p - 1
    · rw [hl]; exact ColReach.refl _
    · have hkn : k < K.c.n := by have := C.cols_lt p hp; omega
      have hpk : Q.pan k = p := C.pan_cols p hp k h2 h3
      have hin := C.inner k hkn (by rw [hpk]; omega)
      rw [hpk] at hin
      have hup := U.up k hkn
      exact ColReach.step k _ hkn (ih (getN K.c.etree k) (by omega) hin.1 hin.2)

/-- the column path from the first column of panel `b` passes through the first column of every panel above it -/
theorem desc_colReach (K : Cfg) (W : CfgWF K) (Q : ColCfg) (C : ColWF K Q) (U : EtreeUp K) {b q : Nat} (h : Desc K b q) :
    ColReach K.c b q := by
  induction h with
  | refl p => exact ColReach.refl p
  | step x p hx hd _ ih =>
    have h1 := reach_last K Q C U x hx (x + Q.wd x - 1 - x) x (le_refl _) (le_refl _) (by have := C.wd_pos x hx; omega)
    have h2 : ColReach K.c (x + Q.wd x - 1) (K.dad x) := by
      have := C.last x hx
      have hlt : x + Q.wd x - 1 < K.c.n := by have := C.cols_lt x hx; have := C.wd_pos x hx; omega
      exact ColReach.step _ _ hlt (by rw [this]; exact ColReach.refl _)
    exact colReach_trans K.c (colReach_trans K.c h1 h2) ih

/-- with enough fuel every column on the path below `p` is in the wait chain -/
theorem colReach_le (K : Cfg) (U : EtreeUp K) {a b : Nat} (h : ColReach K.c a b) : a ≤ b := by
  induction h with
  | refl => exact le_refl _
  | step a b ha _ ih => have := U.up a ha; omega

theorem mem_waitChain (K : Cfg) (U : EtreeUp K) (p : Nat) {k x : Nat} (h : ColReach K.c k x) :
    ∀ fuel, p - k ≤ fuel → 0 < fuel → x < p → x ∈ waitChain K.c p fuel k := by
  induction h with
  | refl x =>
    intro fuel _ hf hx
    obtain ⟨f, rfl⟩ : ∃ f, fuel = f + 1 := ⟨fuel - 1, by omega⟩
    unfold waitChain
    rw [if_pos hx]; exact List.mem_cons_self
  | step k x hk hr ih =>
    intro fuel h1 hf hx
    obtain ⟨f, rfl⟩ : ∃ f, fuel = f + 1 := ⟨fuel - 1, by omega⟩
    unfold waitChain
    have hle := colReach_le K U hr
    have hup := U.up k hk
    have hkp : k < p := by omega
    rw [if_pos hkp]
    apply List.mem_cons_of_mem
    exact ih f (by omega) (by omega) hx

end Slu

namespace Slu
open Slu.Gen
open Classical

/-- static facts used by the pipeline invariant -/
structure PipeStatic (K : Cfg) (T : Array Nat) : Prop extends EtreeUp K where
  leaf : ∀ p ∈ K.panels, getN T p = RELAXED_SNODE → ∀ q ∈ K.panels, K.dad q ≠ p

structure PipeInv (K : Cfg) (Q : ColCfg) (T : Array Nat) (s : Sys) : Prop where
  typ_eq : s.sh.typ = T
  /-- every column of a BUSY panel is flagged -/
  spin_full : ∀ p ∈ K.panels, stt s p = BUSY → ∀ k, p ≤ k → k < p + Q.wd p → getN s.sh.spin k ≠ 0
  /-- below a finished panel everything is finished -/
  done_closed : ∀ p ∈ K.panels, stt s p = DONE → ∀ q, Desc K q p → stt s q = DONE
  /-- the unfinished proper descendants of a panel being factored lie on the panel path from its `bcol` -/
  busy_path : ∀ i p b, (wk s i).phase = .working p b → ∀ q, Desc K q p → q ≠ p → stt s q ≠ DONE → OnPath K q b p
  /-- the same for a runnable panel waiting in the queue, with `fb_cols` in the role of `bcol` -/
  pipe_path : ∀ p ∈ K.panels, stt s p > BUSY → stt s p ≠ UNREADY → ∀ q, Desc K q p → q ≠ p → stt s q ≠ DONE →
      OnPath K q (getN s.sh.fb p) p

theorem finishPanel_typ (sh : Sh) (p : Nat) : (finishPanel sh p).typ = sh.typ := rfl
theorem finishPanel_fb (sh : Sh) (p : Nat) : (finishPanel sh p).fb = sh.fb := rfl

/-- **A panel can only be completed when every proper descendant panel is finished.** -/
theorem finish_needs_descendants_done (K : Cfg) (W : CfgWF K) (Q : ColCfg) (C : ColWF K Q) (T : Array Nat) (PS : PipeStatic K T)
    (s : Sys) (inv : SysInv K s) (pv : PipeInv K Q T s) (w p b : Nat) (hph : (wk s w).phase = .working p b)
    (hrel : chainReleased K.c s.sh p b = true) : ∀ q, Desc K q p → q ≠ p → stt s q = DONE := by
  intro q hq hne
  by_contra hnd
  obtain ⟨_, hbusy, hpp⟩ := inv.own_w w p b hph
  obtain ⟨_, hqp, _⟩ := desc_dad K hq hne
  have hqt := (desc_taken K W s inv hq hpp (by rw [hbusy])).2
  have hqb : stt s q = BUSY := by simp only [BUSY, DONE] at *; omega
  obtain ⟨hbq, _⟩ := pv.busy_path w p b hph q hq hne hnd
  unfold chainReleased at hrel
  split at hrel
  · next htyp =>
    -- a relaxed supernode has no child panel
    obtain ⟨c, c1, c2, _, _⟩ := desc_child K hq hne
    have : getN T p = RELAXED_SNODE := by rw [← pv.typ_eq]; simpa using htyp
    exact PS.leaf p hpp this c c1 c2
  · rw [List.all_eq_true] at hrel
    have hlt : q < p := by have := desc_le K W hq; omega
    have hpn := W.lt p hpp
    have hreach := desc_colReach K W Q C PS.toEtreeUp hbq
    have hmem := mem_waitChain K PS.toEtreeUp p hreach (K.c.n + 1) (by omega) (by omega) hlt
    have h0 := hrel q hmem
    simp only [beq_iff_eq] at h0
    exact pv.spin_full q hqp hqb q (le_refl _) (by have := C.wd_pos q hqp; omega) h0

theorem pipeInv_loop (K : Cfg) (Q : ColCfg) (T : Array Nat) (s : Sys) (pv : PipeInv K Q T s) (w : Nat)
    (h : enabled K.c s (.loop w) = true) : PipeInv K Q T (step K.c s (.loop w)) := by
  obtain ⟨hsh, _, hph, hwk⟩ := step_loop K.c s w h
  have hst : ∀ p, stt (step K.c s (.loop w)) p = stt s p := fun p => by unfold stt; rw [hsh]
  refine ⟨by rw [hsh]; exact pv.typ_eq, ?_, ?_, ?_, ?_⟩
  · intro p hp hb k k1 k2; rw [hst] at hb; rw [hsh]; exact pv.spin_full p hp hb k k1 k2
  · intro p hp hd q hq; rw [hst] at hd ⊢; exact pv.done_closed p hp hd q hq
  · intro i p b hp q hq hne hnd
    rw [hst] at hnd
    rw [hwk i] at hp
    by_cases e : i = w
    · subst e
      simp only [if_true] at hp
      split at hp <;> cases hp
    · simp only [e, if_false] at hp
      exact pv.busy_path i p b hp q hq hne hnd
  · intro p hp h1 h2 q hq hne hnd
    rw [hst] at h1 h2 hnd
    rw [hsh]; exact pv.pipe_path p hp h1 h2 q hq hne hnd

theorem pipeInv_finish (K : Cfg) (W : CfgWF K) (Q : ColCfg) (C : ColWF K Q) (T : Array Nat) (PS : PipeStatic K T)
    (s : Sys) (inv : SysInv K s) (pinv : ProgInv K Q s) (pv : PipeInv K Q T s) (w : Nat)
    (h : enabled K.c s (.finish w) = true) : PipeInv K Q T (step K.c s (.finish w)) := by
  obtain ⟨p, b, hph, hrel, hsh, _, hwk⟩ := step_finish K.c s w h
  obtain ⟨hcw, hbusy, hpp⟩ := inv.own_w w p b hph
  have hpn : p < K.c.n := W.lt p hpp
  have hst : ∀ x, stt (step K.c s (.finish w)) x = if x = p then DONE else stt s x := by
    intro x; unfold stt; rw [hsh, finishPanel_state, getN_set _ _ _ _ (by rw [inv.ssz]; omega)]
  have hA := finish_needs_descendants_done K W Q C T PS s inv pv w p b hph hrel
  refine ⟨by rw [hsh, finishPanel_typ]; exact pv.typ_eq, ?_, ?_, ?_, ?_⟩
  · intro p' hp' hb k k1 k2
    rw [hst] at hb
    by_cases e : p' = p
    · rw [if_pos e] at hb; simp [DONE, BUSY] at hb
    · rw [if_neg e] at hb
      rw [hsh, finishPanel_spin, pinv.size_eq p hpp, getN_fillN _ _ _ _ _ (by rw [pinv.spin_sz]; exact C.cols_lt p hpp)]
      have hk : ¬ (p ≤ k ∧ k < p + Q.wd p) := by
        intro hk
        have e1 := C.pan_cols p hpp k hk.1 hk.2
        have e2 := C.pan_cols p' hp' k k1 k2
        exact e (by rw [← e2, e1])
      rw [if_neg hk]
      exact pv.spin_full p' hp' hb k k1 k2
  · intro p' hp' hd q hq
    rw [hst] at hd ⊢
    by_cases eq : q = p
    · rw [if_pos eq]
    · rw [if_neg eq]
      by_cases e : p' = p
      · subst e
        exact hA q hq eq
      · rw [if_neg e] at hd
        exact pv.done_closed p' hp' hd q hq
  · intro i p' b' hp q hq hne hnd
    rw [hst] at hnd
    rw [hwk i] at hp
    by_cases e : i = w
    · subst e; simp only [if_true] at hp; cases hp
    · simp only [e, if_false] at hp
      by_cases eq : q = p
      · rw [if_pos eq] at hnd; exact absurd rfl hnd
      · rw [if_neg eq] at hnd
        exact pv.busy_path i p' b' hp q hq hne hnd
  · intro p' hp' h1 h2 q hq hne hnd
    rw [hst] at h1 h2 hnd
    by_cases e : p' = p
    · rw [if_pos e] at h1; simp [DONE, BUSY] at h1
    · rw [if_neg e] at h1 h2
      by_cases eq : q = p
      · rw [if_pos eq] at hnd; exact absurd rfl hnd
      · rw [if_neg eq] at hnd
        rw [hsh, finishPanel_fb]
        exact pv.pipe_path p' hp' h1 h2 q hq hne hnd

end Slu

namespace Slu
open Slu.Gen
open Classical

theorem pipeInv_sched (K : Cfg) (W : CfgWF K) (Q : ColCfg) (C : ColWF K Q) (T : Array Nat)
    (s : Sys) (inv : SysInv K s) (pinv : ProgInv K Q s) (pv : PipeInv K Q T s) (w : Nat)
    (h : enabled K.c s (.sched w) = true) :
    PipeInv K Q T (step K.c s (.sched w)) ∧
    -- what the hand-out itself guarantees (C03): the unfinished proper descendants of the panel handed out are on the path from `bcol`
    (∀ j, (schedule K.c s.sh (wk s w).cur 0).2.1 = some j → ∀ q, Desc K q j → q ≠ j → stt (step K.c s (.sched w)) q ≠ DONE →
        OnPath K q (schedule K.c s.sh (wk s w).cur 0).2.2 j ∧ stt (step K.c s (.sched w)) q = BUSY) := by
  have inv' := sysInv_sched K W s inv w h
  obtain ⟨hph, hsh, hsz, hwk⟩ := step_sched K.c s w h
  obtain ⟨got, E, S, hU1, hU2, hgotp⟩ := sched_unrep K W s inv w h
  have hgot_eq : (schedule K.c s.sh (wk s w).cur 0).2.1 = got := by
    have := E.wk_w_cur
    rw [hwk w, if_pos rfl, schedWorker_cur] at this
    exact this
  obtain ⟨p1, p2, p3⟩ := schedule_pipe K.c s.sh (wk s w).cur 0 inv.qok
  rw [hgot_eq] at p1 p2
  rw [hgot_eq]
  have hdone : ∀ q, stt (step K.c s (.sched w)) q ≠ DONE ↔ stt s q ≠ DONE := fun q => not_congr (S.done_iff q)
  have hdadU : ∀ j, got = some j → K.dad j < K.c.n → stt s (K.dad j) = UNREADY := by
    intro j hj hdn
    obtain ⟨_, hjs, _, _⟩ := E.some_take j hj
    by_contra hne
    have := inv.closed (K.dad j) (W.dad_pan j (hgotp j hj) hdn) hne j (hgotp j hj) rfl
    omega
  -- children of a panel whose counter says "all reported" / "one left" in the new state
  have hkid_done : ∀ d, d ∈ K.panels → ∀ c, c ∈ K.panels → K.dad c = d → ¬ unrep (step K.c s (.sched w)) c →
      ∀ q, Desc K q c → stt (step K.c s (.sched w)) q = DONE := by
    intro d _ c hc _ hnu q hq
    have hcd : stt (step K.c s (.sched w)) c = DONE := by
      by_contra hx; exact hnu (Or.inl hx)
    have := pv.done_closed c hc ((S.done_iff c).1 hcd) q hq
    exact (S.done_iff q).2 this
  -- the bcol handed out and claim B
  have hB : ∀ j, got = some j → ∀ q, Desc K q j → q ≠ j → stt (step K.c s (.sched w)) q ≠ DONE →
      OnPath K q (schedule K.c s.sh (wk s w).cur 0).2.2 j := by
    intro j hj q hq hne hnd
    have hjp := hgotp j hj
    obtain ⟨hjn, hjs, _, _⟩ := E.some_take j hj
    obtain ⟨_, q2, _⟩ := p2 j hj
    obtain ⟨f1, f2⟩ := pinv.fb_desc j hjp
    have hjb : stt (step K.c s (.sched w)) j ≠ DONE := by rw [(S.took j hj).1]; simp [BUSY, DONE]
    have hcl := climb_path K W _ inv'.dad_eq j hjb (K.c.n + 1) _ f1 f2
    have hcd := climb_desc K W _ inv'.dad_eq j hjb (K.c.n + 1) _ f1 f2
    rw [← hsh] at q2
    rw [q2]
    by_cases hun : stt s j = UNREADY
    · -- taken through the "last child reported" route: nothing below is unfinished
      exfalso
      have hp := E.picked
      rw [hj] at hp
      generalize hsj : some j = sj at hp
      cases hp with
      | none => cases hsj
      | dad q0 h1 h2 h3 =>
        simp only [Option.some.injEq] at hsj
        rw [inv.dad_eq] at hsj h2
        have hk := inv'.kids j (Or.inl hjp)
        have hu := E.uk j
        rw [if_pos ⟨q0, h1, hsj⟩] at hu
        have h0 : ukd (step K.c s (.sched w)) j = 0 := by
          rw [hu]; unfold ukd; rw [hsj]; exact h2
        rw [h0] at hk
        have hz : cnt K.panels (fun x => K.dad x = j ∧ unrep (step K.c s (.sched w)) x) = 0 := by exact_mod_cast hk.symm
        obtain ⟨c, c1, c2, _, c4⟩ := desc_child K hq hne
        have hnu : ¬ unrep (step K.c s (.sched w)) c := fun hu' => (cnt_zero_iff _ _).1 hz c c1 ⟨c2, hu'⟩
        exact hnd (hkid_done j hjp c c1 c2 hnu q c4)
      | queue j' k h1 h2 h3 h4 =>
        simp only [Option.some.injEq] at hsj
        subst hsj
        have := inv.qstate k h3
        rw [h4] at this
        exact this hun
    · obtain ⟨o1, o2⟩ := pv.pipe_path j hjp hjs hun q hq hne ((hdone q).1 hnd)
      refine ⟨?_, o2⟩
      rcases desc_linear K W o1 hcl.1 with hqb | hbq
      · by_cases e : q = climbDone K.c (step K.c s (.sched w)).sh (K.c.n + 1) (getN s.sh.fb j)
        · rw [← e]; exact Desc.refl q
        · exact absurd (hcl.2 q o1 hqb e) hnd
      · exact hbq
  have hBusyQ : ∀ j, got = some j → ∀ q, Desc K q j → q ≠ j → stt (step K.c s (.sched w)) q ≠ DONE → stt (step K.c s (.sched w)) q = BUSY := by
    intro j hj q hq hne hnd
    have hjp := hgotp j hj
    have hbj : stt (step K.c s (.sched w)) j ≤ BUSY := by rw [(S.took j hj).1]
    have := (desc_taken K W _ inv' hq hjp hbj).2
    simp only [BUSY, DONE] at *; omega
  refine ⟨⟨?_, ?_, ?_, ?_, ?_⟩, fun j hj q hq hne hnd => ⟨hB j hj q hq hne hnd, hBusyQ j hj q hq hne hnd⟩⟩
  · rw [hsh, p3]; exact pv.typ_eq
  · -- spin_full
    intro p hp hb k k1 k2
    rw [hsh]
    cases hg : got with
    | none =>
      rw [(p1 hg).1]
      have hb0 : stt s p = BUSY := by
        rcases S.busy p hb with e | e
        · rw [hg] at e; cases e
        · exact e
      exact pv.spin_full p hp hb0 k k1 k2
    | some j =>
      have hjp := hgotp j hg
      rw [(p2 j hg).1, pinv.size_eq j hjp, getN_fillN _ _ _ _ _ (by rw [pinv.spin_sz]; exact C.cols_lt j hjp)]
      by_cases hin : j ≤ k ∧ k < j + Q.wd j
      · rw [if_pos hin]; simp
      · rw [if_neg hin]
        have hpj : p ≠ j := by
          intro e; subst e; exact hin ⟨k1, k2⟩
        have hb0 : stt s p = BUSY := by
          rcases S.busy p hb with e | e
          · rw [hg] at e; simp only [Option.some.injEq] at e; exact absurd e.symm hpj
          · exact e
        exact pv.spin_full p hp hb0 k k1 k2
  · -- done_closed
    intro p hp hd q hq
    exact (S.done_iff q).2 (pv.done_closed p hp ((S.done_iff p).1 hd) q hq)
  · -- busy_path
    intro i p b hp q hq hne hnd
    by_cases e : i = w
    · subst e
      cases hg : got with
      | none => rw [E.wk_w_none hg] at hp; cases hp
      | some j =>
        rw [E.wk_w_some j hg] at hp
        simp only [Phase.working.injEq] at hp
        obtain ⟨rfl, rfl⟩ := hp
        exact hB j hg q hq hne hnd
    · rw [E.wk_other i e] at hp
      exact pv.busy_path i p b hp q hq hne ((hdone q).1 hnd)
  · -- pipe_path
    intro p hp h1 h2 q hq hne hnd
    rw [hsh]
    cases hg : got with
    | none =>
      obtain ⟨hs, _⟩ := E.none_same hg
      rw [(p1 hg).2]
      rw [hs p] at h1 h2
      exact pv.pipe_path p hp h1 h2 q hq hne ((hdone q).1 hnd)
    | some j =>
      have hjp := hgotp j hg
      obtain ⟨hjn, hjs, _, hst⟩ := E.some_take j hg
      have hpj : p ≠ j := by
        intro e; subst e
        rw [(S.took p hg).1] at h1; simp [BUSY] at h1
      rw [(p2 j hg).2.2, inv.dad_eq]
      by_cases hc : p = K.dad j
      · -- the parent just made runnable
        have hdn : K.dad j < K.c.n := by rw [← hc]; exact W.lt p hp
        rw [hc, getN_set _ _ _ _ (by rw [pinv.fb_sz]; omega), if_pos rfl]
        have hun := hdadU j hg hdn
        -- it is CANPIPE now, so its counter is 1 and j is its only unreported child
        have hst' := hst (K.dad j)
        have hdj : K.dad j ≠ j := by have := (W.dad_gt j hjp).1; omega
        rw [if_neg hdj] at hst'
        have hcond : K.dad j < K.c.n ∧ ukd (step K.c s (.sched w)) (K.dad j) = 1 := by
          by_contra hn
          rw [if_neg (fun hh => hn hh.2)] at hst'
          rw [hc, hst'] at h2
          exact h2 hun
        have hk := inv'.kids (K.dad j) (Or.inl (by rw [← hc]; exact hp))
        rw [hcond.2] at hk
        have h1' : cnt K.panels (fun x => K.dad x = K.dad j ∧ unrep (step K.c s (.sched w)) x) = 1 := by exact_mod_cast hk.symm
        have hju : unrep (step K.c s (.sched w)) j := Or.inl (by rw [(S.took j hg).1]; simp [BUSY, DONE])
        have huniq := cnt_one_unique K.panels _ W.nodup h1' j hjp ⟨rfl, hju⟩
        rw [hc] at hq hne
        obtain ⟨c, c1, c2, _, c4⟩ := desc_child K hq hne
        obtain ⟨_, q2, _⟩ := p2 j hg
        obtain ⟨f1, f2⟩ := pinv.fb_desc j hjp
        have hjb : stt (step K.c s (.sched w)) j ≠ DONE := by rw [(S.took j hg).1]; simp [BUSY, DONE]
        have hcd := climb_desc K W _ inv'.dad_eq j hjb (K.c.n + 1) _ f1 f2
        by_cases ecj : c = j
        · subst ecj
          by_cases eqj : q = c
          · subst eqj
            refine ⟨?_, hq⟩
            rw [q2, ← hsh]; exact hcd.2
          · obtain ⟨o1, o2⟩ := hB c hg q c4 eqj hnd
            exact ⟨o1, desc_up K o2 hjp hdn⟩
        · exfalso
          have hnu : ¬ unrep (step K.c s (.sched w)) c := fun hu' => ecj (huniq c c1 ⟨c2, hu'⟩)
          exact hnd (hkid_done (K.dad j) (by rw [← hc]; exact hp) c c1 c2 hnu q c4)
      · rw [getN_set_ne _ _ _ _ hc]
        have hst' := hst p
        rw [if_neg hpj, if_neg (fun hh => hc hh.1)] at hst'
        rw [hst'] at h1 h2
        exact pv.pipe_path p hp h1 h2 q hq hne ((hdone q).1 hnd)

end Slu
