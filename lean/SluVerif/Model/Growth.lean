/-
M-Growth / M-Norm / M-Driver(cond part): `?langs` (SRC/dlangs.c), `?PivotGrowth` (SRC/dpivotgrowth.c),
`?gscon` (SRC/dgscon.c) and the norm / rcond / info = n+1 wiring of `p?gssvx` (SRC/pdgssvx.c:608-672),
over `Rat`.  L and U are the dumped `SCP` / `NCP` structures of Model/Sparse.lean (integer values on a
common dyadic scale; ratios are scale-free).
-/
import SluVerif.Model.Lacon
import SluVerif.Model.Sparse
namespace Slu

/-- `SUPERLU_MAX(a,b)` = `a > b ? a : b`, `SUPERLU_MIN(a,b)` = `a < b ? a : b` -/
def rmax (a b : Rat) : Rat := if b < a then a else b
def rmin (a b : Rat) : Rat := if a < b then a else b

/-- compressed-column matrix: column `j` is the list of `(row, value)` in storage order -/
structure NCMat where
  nrow : Nat
  ncol : Nat
  cols : Array (Array (Nat × Rat))
  deriving Repr, Inhabited

def NCMat.col (A : NCMat) (j : Nat) : List (Nat × Rat) := (A.cols.getD j #[]).toList

/-! ### ?langs -/

/-- `NORM = 'M'`: `for j, for i in col j: value = max(value, |a|)` -/
def langsMax (A : NCMat) : Rat :=
  (List.range A.ncol).foldl (fun value j => (A.col j).foldl (fun value e => rmax value (rabs e.2)) value) 0
/-- inner loop of `NORM = '1'`: `sum += |a|` -/
def colSumAbs (A : NCMat) (j : Nat) : Rat := (A.col j).foldl (fun s e => s + rabs e.2) 0
def langsOne (A : NCMat) : Rat := (List.range A.ncol).foldl (fun value j => rmax value (colSumAbs A j)) 0
/-- `rwork[i]` after the scatter loop `rwork[irow] += |a|` of `NORM = 'I'` (functional rendering) -/
def rowSumAbs (A : NCMat) (i : Nat) : Rat :=
  (List.range A.ncol).foldl (fun s j => (A.col j).foldl (fun s e => if e.1 = i then s + rabs e.2 else s) s) 0
def langsInf (A : NCMat) : Rat := (List.range A.nrow).foldl (fun value i => rmax value (rowSumAbs A i)) 0

/-- `?langs(norm, A)`; `none` = `SUPERLU_ABORT` ("Not implemented" for F/E, "Illegal norm" otherwise).
`lsame_` is case-insensitive; `'1'` is compared literally. -/
def langs (norm : Char) (A : NCMat) : Option Rat :=
  if min A.nrow A.ncol = 0 then some 0
  else if norm.toUpper = 'M' then some (langsMax A)
  else if norm.toUpper = 'O' ∨ norm = '1' then some (langsOne A)
  else if norm.toUpper = 'I' then some (langsInf A)
  else none

/-- the dense matrix an `NCMat` denotes (duplicates, if any, add up) -/
def NCMat.entry (A : NCMat) (i j : Nat) : Rat := ((A.col j).filter (fun e => e.1 = i)).foldl (fun s e => s + e.2) 0

/-! ### ?PivotGrowth -/

/-- `maxaj`: largest `|a|` stored in column `oldcol` of A -/
def colMaxAbs (A : NCMat) (j : Nat) : Rat := (A.col j).foldl (fun m e => rmax m (rabs e.2)) 0

/-- `maxuj` for column `j = sn.f + k` of supernode `sn`: the NCP part of U, then the first
`nz_in_U = k + 1` entries of the column inside the supernode rectangle -/
def ucolMaxAbs (U : NCP) (sn : Snode) (k : Nat) : Rat :=
  let m0 := ((U.cols.getD (sn.f + k) default).vals.toList).foldl (fun m (v : Int) => rmax m (rabs (v : Rat))) 0
  (List.range (k + 1)).foldl (fun m i => rmax m (rabs ((geti (sn.vals.getD k #[]) i : Int) : Rat))) m0

/-- body of the `j` loop for one column -/
def growthCol (A : NCMat) (invPermC : Nat → Nat) (U : NCP) (sn : Snode) (rpg : Rat) (k : Nat) : Rat :=
  let maxaj := colMaxAbs A (invPermC (sn.f + k))
  let maxuj := ucolMaxAbs U sn k
  if maxuj = 0 then rmin rpg 1 else rmin rpg (maxaj / maxuj)

/-- `for (j = fsupc; j < L_LAST_SUPC(k) && j < ncols; ++j)` -/
def growthSnode (ncols : Nat) (A : NCMat) (invPermC : Nat → Nat) (U : NCP) (sn : Snode) (rpg : Rat) : Rat :=
  (List.range (sn.e - sn.f)).foldl (fun r k => if sn.f + k < ncols then growthCol A invPermC U sn r k else r) rpg

/-- ORIGINAL loop `for (k = 0; k <= nsuper; ++k) { ...; if (j >= ncols) break; }` — supernodes are visited in supernode
NUMBER order and the loop stopped after the first one that reaches column `ncols` (repaired in /repo: the early exit is gone) -/
def growthLoopOrig (ncols : Nat) (A : NCMat) (invPermC : Nat → Nat) (U : NCP) : List Snode → Rat → Rat
  | [], rpg => rpg
  | sn :: rest, rpg =>
    let r := growthSnode ncols A invPermC U sn rpg
    if ncols ≤ sn.e then r else growthLoopOrig ncols A invPermC U rest r

def pivotGrowthOrig (ncols : Nat) (A : NCMat) (permC : Array Int) (L : SCP) (U : NCP) (rpg0 : Rat) : Rat :=
  let inv := invPerm A.ncol permC
  growthLoopOrig ncols A (fun j => inv.getD j 0) U L.sn.toList rpg0

/-- `for (k = 0; k <= nsuper; ++k) { for (j = fsupc; j < L_LAST_SUPC(k) && j < ncols; ++j) … }`: every supernode is visited -/
def growthLoop (ncols : Nat) (A : NCMat) (invPermC : Nat → Nat) (U : NCP) : List Snode → Rat → Rat
  | [], rpg => rpg
  | sn :: rest, rpg => growthLoop ncols A invPermC U rest (growthSnode ncols A invPermC U sn rpg)

/-- `?PivotGrowth(ncols, A, perm_c, L, U)`; `rpg0 = 1/?lamch("S")`.  The values of `A` must be on the same dyadic
scale as the integer values of `L`/`U` (the driver rescales A); the ratios are then scale-free. -/
def pivotGrowth (ncols : Nat) (A : NCMat) (permC : Array Int) (L : SCP) (U : NCP) (rpg0 : Rat) : Rat :=
  let inv := invPerm A.ncol permC
  growthLoop ncols A (fun j => inv.getD j 0) U L.sn.toList rpg0

/-- the specification: min over the first `ncols` columns (every supernode, in any order) -/
def pivotGrowthSpec (ncols : Nat) (A : NCMat) (permC : Array Int) (L : SCP) (U : NCP) (rpg0 : Rat) : Rat :=
  let inv := invPerm A.ncol permC
  L.sn.toList.foldl (fun r sn => growthSnode ncols A (fun j => inv.getD j 0) U sn r) rpg0

/-! ### dense triangular solves (exact), used as the operators of `?gscon` / `?gsrfs` in the driver -/

/-- forward substitution with a unit lower triangular `L` -/
def solveUnitLower (n : Nat) (L : Nat → Nat → Rat) (b : RVec) : RVec :=
  (List.range n).foldl (fun y i => y.push (rget b i - rsum i fun j => L i j * rget y j)) (Array.mkEmpty n)
/-- back substitution with an upper triangular `U` -/
def solveUpper (n : Nat) (U : Nat → Nat → Rat) (b : RVec) : RVec :=
  (List.range n).foldl (fun y r =>
      let i := n - 1 - r
      y.setIfInBounds i ((rget b i - rsum (n - 1 - i) fun t => U i (i + 1 + t) * rget y (i + 1 + t)) / U i i))
    (Array.replicate n 0)
/-- `Uᵀ y = b` (forward) -/
def solveUpperT (n : Nat) (U : Nat → Nat → Rat) (b : RVec) : RVec :=
  (List.range n).foldl (fun y i => y.push ((rget b i - rsum i fun j => U j i * rget y j) / U i i)) (Array.mkEmpty n)
/-- `Lᵀ y = b` (backward, unit diagonal) -/
def solveUnitLowerT (n : Nat) (L : Nat → Nat → Rat) (b : RVec) : RVec :=
  (List.range n).foldl (fun y r =>
      let i := n - 1 - r
      y.setIfInBounds i (rget b i - rsum (n - 1 - i) fun t => L (i + 1 + t) i * rget y (i + 1 + t)))
    (Array.replicate n 0)

/-! ### ?gscon -/

structure GsconRes where
  info : Int
  rcond : Rat
  run : Option LaconRun
  deriving Repr, Inhabited

/-- `?gscon(norm, L, U, anorm, &rcond, &info)` with the two triangular-solve pairs as parameters:
`invA x = U⁻¹(L⁻¹ x)`, `invAT x = L⁻ᵀ(U⁻ᵀ x)`.  (Shape/type checks of L and U give info -2 or -3; not modelled.) -/
def gscon (norm : Char) (n : Nat) (invA invAT : RVec → RVec) (anorm : Rat) : GsconRes :=
  let onenrm := norm = '1' ∨ norm.toUpper = 'O'
  if ¬ onenrm ∧ norm.toUpper ≠ 'I' then { info := -1, rcond := 0, run := none }
  else if n = 0 then { info := 0, rcond := 1, run := none }
  else
    -- kase1 = onenrm ? 1 : 2;  kase == kase1 → inv(L) then inv(U);  else inv(U') then inv(L')
    let run := if onenrm then runLacon n invA invAT else runLacon n invAT invA
    let ainvnm := run.io.est
    { info := 0, rcond := if ainvnm ≠ 0 then (1 / ainvnm) / anorm else 0, run := some run }

/-! ### driver wiring (pdgssvx.c) -/

inductive Stype | NC | NR deriving Repr, DecidableEq, Inhabited
inductive Trans | NOTRANS | TRANS | CONJ deriving Repr, DecidableEq, Inhabited

/-- `notran` after the storage flip: `A->Stype == SLU_NR` reverses the transpose argument -/
def notranAfterFlip (s : Stype) (t : Trans) : Bool :=
  match s with
  | .NC => t == .NOTRANS
  | .NR => !(t == .NOTRANS)

/-- `trant`: what `?gstrs` / `?gsrfs` receive -/
def trantOf (s : Stype) (t : Trans) : Trans :=
  match s with
  | .NC => t
  | .NR => if t == .NOTRANS then .TRANS else .NOTRANS

/-- `norm = notran ? '1' : 'I'` -/
def normLetter (s : Stype) (t : Trans) : Char := if notranAfterFlip s t then '1' else 'I'

structure GssvxTail where
  info : Int
  solved : Bool        -- X, ferr, berr were computed
  rcondComputed : Bool
  deriving Repr, DecidableEq, Inhabited

/-- the tail of `p?gssvx` after `p?gstrf` returned `infoTrf ≥ 0` (and `lwork ≠ -1`): `if (*info > 0) {growth
of the leading columns only} else {growth; rcond; solve; refine; if (rcond < eps) info = n+1}`.
`?gscon`, `?gstrs`, `?gsrfs` leave `*info = 0` when their arguments are well formed. -/
def gssvxTail (n : Nat) (infoTrf : Int) (rcond eps : Rat) : GssvxTail :=
  if 0 < infoTrf then { info := infoTrf, solved := false, rcondComputed := false }
  else { info := if rcond < eps then (n : Int) + 1 else 0, solved := true, rcondComputed := true }

end Slu
