/-
M-Blas / M-Norm / M-Sparse utilities (property C19): executable models of

  sp_?gemv, sp_?gemm            (SRC/?sp_blas2.c, ?sp_blas3.c)
  ?langs                        (SRC/?langs.c)
  ?CompRow_to_CompCol, ?Copy_CompCol_Matrix, ?Create_CompCol_Permuted (+ the pointer permutation
                                 loop of sp_colorder that feeds it)      (SRC/p?util.c)
  sp_?trsv                      (SRC/?sp_blas2.c) over the supernodal L / column U of Model/Sparse.lean

The gemv/gemm/langs/conversion models are generic in the scalar type: they use only the operations
the C code uses (`+ * = 0 1`), so the same definition runs over `Int`, `Rat`, complex pairs `Cx β`
(`zz_mult`, `z_add`, `z_eq` of slu_dcomplex.h) and over "poisonable" values (`Option Rat`, NaN as
`none`) in the driver.  Vectors are C arrays: `Array α` plus a base offset (for `&b[ldb*j]`), indices
are computed the way the C code computes them (`kx = -(lenx-1)*incx`, `jx += incx`, ...).
Out-of-bounds accesses are undefined behaviour in C; here reads give `0` and writes are dropped; the
theorems carry the size hypotheses on every array that is written (reads of `x` outside its allocation
would enter the formulas as 0, so no hypothesis on `x` is needed for them to hold).
-/
import SluVerif.Model.Sparse
namespace Slu.Blas

/-! ### scalars -/

/-- complex numbers as the library stores them (`complex`, `doublecomplex`): a pair. -/
structure Cx (β : Type) where
  re : β
  im : β
  deriving DecidableEq, Repr, Inhabited

namespace Cx
variable {β : Type}
instance [Zero β] : Zero (Cx β) := ⟨⟨0, 0⟩⟩
instance [One β] [Zero β] : One (Cx β) := ⟨⟨1, 0⟩⟩
/-- `z_add` -/
instance [Add β] : Add (Cx β) := ⟨fun a b => ⟨a.re + b.re, a.im + b.im⟩⟩
/-- `z_sub` -/
instance [Sub β] : Sub (Cx β) := ⟨fun a b => ⟨a.re - b.re, a.im - b.im⟩⟩
instance [Neg β] : Neg (Cx β) := ⟨fun a => ⟨-a.re, -a.im⟩⟩
/-- `zz_mult`: `cr = a.r*b.r - a.i*b.i; ci = a.i*b.r + a.r*b.i` -/
instance [Add β] [Sub β] [Mul β] : Mul (Cx β) :=
  ⟨fun a b => ⟨a.re * b.re - a.im * b.im, a.im * b.re + a.re * b.im⟩⟩
/-- `zz_conj` -/
def conj [Neg β] (a : Cx β) : Cx β := ⟨a.re, -a.im⟩
end Cx

/-! ### C arrays -/
section Mem
variable {α : Type}

/-- `a[i]` (0 outside the allocation; theorems exclude that case) -/
@[inline] def rd [Zero α] (a : Array α) (i : Nat) : α := a.getD i 0
/-- `a[i] = v` (dropped outside the allocation; theorems exclude that case) -/
@[inline] def wr (a : Array α) (i : Nat) (v : α) : Array α := a.setIfInBounds i v
@[inline] def rdN (a : Array Nat) (i : Nat) : Nat := a.getD i 0

/-- LAPACK's `lsame_` on ASCII: equality after folding `a..z` to upper case. -/
def upc (c : Char) : Nat := if 97 ≤ c.toNat ∧ c.toNat ≤ 122 then c.toNat - 32 else c.toNat
def lsame (a b : Char) : Bool := upc a == upc b

/-- start index of a strided BLAS vector of `len` elements: `if (inc > 0) k = 0; else k = -(len-1)*inc;` -/
def kstart (len : Int) (inc : Int) : Int := if inc > 0 then 0 else -(len - 1) * inc
/-- array index of logical element `i` (`k` after `i` executions of `k += inc`) -/
def spos (len : Int) (inc : Int) (i : Nat) : Nat := (kstart len inc + (i : Int) * inc).toNat

end Mem

/-! ### compressed-column matrix (`NCformat` behind a `SuperMatrix`) -/

structure NCMat (α : Type) where
  nrow : Int
  ncol : Int
  nnz : Nat
  colptr : Array Nat
  rowind : Array Nat
  nzval : Array α
  deriving Repr, Inhabited

namespace NCMat
variable {α : Type}
@[inline] def cp (A : NCMat α) (j : Nat) : Nat := rdN A.colptr j
@[inline] def ri (A : NCMat α) (k : Nat) : Nat := rdN A.rowind k
@[inline] def nz [Zero α] (A : NCMat α) (k : Nat) : α := rd A.nzval k
/-- number of stored entries of column `j` as the loops see it: `colptr[j] ≤ i < colptr[j+1]` -/
@[inline] def clen (A : NCMat α) (j : Nat) : Nat := A.cp (j + 1) - A.cp j
end NCMat

/-! ### sp_?gemv -/
section Gemv
variable {α : Type} [Add α] [Mul α] [Zero α] [One α] [DecidableEq α]

inductive GemvRes (α : Type) where
  /-- `xerbla_("sp_?gemv ", &info); return 0;` — `y` untouched -/
  | xerbla (info : Nat)
  | ok (y : Array α)
  /-- `SUPERLU_ABORT("Not implemented.")` — the process exits; `y` (already scaled by beta) is lost -/
  | notImplemented
  deriving Repr, DecidableEq

/-- "First form y := beta*y." -/
def scaleY (beta : α) (leny : Int) (incy : Int) (yoff : Nat) (y : Array α) : Array α :=
  if beta = 1 then y
  else if incy = 1 then
    if beta = 0 then (List.range leny.toNat).foldl (fun y i => wr y (yoff + i) 0) y
    else (List.range leny.toNat).foldl (fun y i => wr y (yoff + i) (beta * rd y (yoff + i))) y
  else
    if beta = 0 then (List.range leny.toNat).foldl (fun y i => wr y (yoff + spos leny incy i) 0) y
    else (List.range leny.toNat).foldl
          (fun y i => wr y (yoff + spos leny incy i) (beta * rd y (yoff + spos leny incy i))) y

/-- inner loop of the `notran` branch for one column: `y[irow] += temp * Aval[i]` -/
def axpyCol (A : NCMat α) (j : Nat) (temp : α) (yoff : Nat) (y : Array α) : Array α :=
  (List.range (A.clen j)).foldl
    (fun y k => wr y (yoff + A.ri (A.cp j + k)) (rd y (yoff + A.ri (A.cp j + k)) + temp * A.nz (A.cp j + k))) y

/-- "Form y := alpha*A*x + y" (`incy == 1`) -/
def gemvN (alpha : α) (A : NCMat α) (x : Array α) (xoff : Nat) (incx : Int) (yoff : Nat) (y : Array α) : Array α :=
  (List.range A.ncol.toNat).foldl
    (fun y j =>
      if rd x (xoff + spos A.ncol incx j) ≠ 0 then
        axpyCol A j (alpha * rd x (xoff + spos A.ncol incx j)) yoff y
      else y) y

/-- `temp = Σ Aval[i] * x[irow]` over column `j` (left to right, starting from 0) -/
def dotCol (A : NCMat α) (j : Nat) (x : Array α) (xoff : Nat) : α :=
  (List.range (A.clen j)).foldl (fun t k => t + A.nz (A.cp j + k) * rd x (xoff + A.ri (A.cp j + k))) 0

/-- "Form y := alpha*A'*x + y" (`incx == 1`) -/
def gemvT (alpha : α) (A : NCMat α) (x : Array α) (xoff : Nat) (yoff : Nat) (incy : Int) (y : Array α) : Array α :=
  (List.range A.ncol.toNat).foldl
    (fun y j => wr y (yoff + spos A.ncol incy j)
                  (rd y (yoff + spos A.ncol incy j) + alpha * dotCol A j x xoff)) y

/-- `sp_?gemv(trans, alpha, A, x + xoff, incx, beta, y + yoff, incy)` -/
def spGemvAt (trans : Char) (alpha : α) (A : NCMat α) (x : Array α) (xoff : Nat) (incx : Int)
    (beta : α) (y : Array α) (yoff : Nat) (incy : Int) : GemvRes α :=
  if !lsame trans 'N' && !lsame trans 'T' && !lsame trans 'C' then .xerbla 1
  else if A.nrow < 0 ∨ A.ncol < 0 then .xerbla 3
  else if incx = 0 then .xerbla 5
  else if incy = 0 then .xerbla 8
  else if A.nrow = 0 ∨ A.ncol = 0 ∨ (alpha = 0 ∧ beta = 1) then .ok y
  else
    let leny : Int := if lsame trans 'N' then A.nrow else A.ncol
    let y1 := scaleY beta leny incy yoff y
    if alpha = 0 then .ok y1
    else if lsame trans 'N' then
      if incy = 1 then .ok (gemvN alpha A x xoff incx yoff y1) else .notImplemented
    else
      if incx = 1 then .ok (gemvT alpha A x xoff yoff incy y1) else .notImplemented

def spGemv (trans : Char) (alpha : α) (A : NCMat α) (x : Array α) (incx : Int)
    (beta : α) (y : Array α) (incy : Int) : GemvRes α :=
  spGemvAt trans alpha A x 0 incx beta y 0 incy

/-! ### sp_?gemm: `for (j = 0; j < n; ++j) sp_?gemv(trans, alpha, A, &b[ldb*j], 1, beta, &c[ldc*j], 1);` -/

structure GemmRes (α : Type) where
  c : Array α
  xerblaCalls : Nat := 0
  info : Nat := 0
  aborted : Bool := false
  deriving Repr, DecidableEq

def spGemm (trans : Char) (n : Int) (alpha : α) (A : NCMat α) (b : Array α) (ldb : Nat)
    (beta : α) (c : Array α) (ldc : Nat) : GemmRes α :=
  (List.range n.toNat).foldl
    (fun st j =>
      if st.aborted then st else
      match spGemvAt trans alpha A b (ldb * j) 1 beta st.c (ldc * j) 1 with
      | .ok c' => { st with c := c' }
      | .xerbla i => { st with xerblaCalls := st.xerblaCalls + 1, info := i }
      | .notImplemented => { st with aborted := true })
    { c := c }

end Gemv

/-! ### ?langs -/
section Langs
variable {α β : Type} [Zero α] [Zero β] [Add β] [Max β]

inductive LangsRes (β : Type) where
  | val (v : β)
  /-- `SUPERLU_ABORT("Not implemented.")` for `'F'`/`'E'` -/
  | notImplemented
  /-- `SUPERLU_ABORT("Illegal norm specified.")` -/
  | illegal
  deriving Repr, DecidableEq

/-- `max(abs(A(i,j)))` over the stored entries -/
def langsMax (absf : α → β) (A : NCMat α) : β :=
  (List.range A.ncol.toNat).foldl
    (fun v j => (List.range (A.clen j)).foldl (fun v k => max v (absf (A.nz (A.cp j + k)))) v) 0

/-- column sum of absolute values -/
def colAbsSum (absf : α → β) (A : NCMat α) (j : Nat) : β :=
  (List.range (A.clen j)).foldl (fun s k => s + absf (A.nz (A.cp j + k))) 0

def langsOne (absf : α → β) (A : NCMat α) : β :=
  (List.range A.ncol.toNat).foldl (fun v j => max v (colAbsSum absf A j)) 0

/-- `rwork[irow] += abs(Aval[i])` over all stored entries -/
def rowAbsSums (absf : α → β) (A : NCMat α) : Array β :=
  (List.range A.ncol.toNat).foldl
    (fun w j => (List.range (A.clen j)).foldl
        (fun w k => wr w (A.ri (A.cp j + k)) (rd w (A.ri (A.cp j + k)) + absf (A.nz (A.cp j + k)))) w)
    (Array.replicate A.nrow.toNat 0)

def langsInf (absf : α → β) (A : NCMat α) : β :=
  (List.range A.nrow.toNat).foldl (fun v i => max v (rd (rowAbsSums absf A) i)) 0

def langs (absf : α → β) (norm : Char) (A : NCMat α) : LangsRes β :=
  if min A.nrow A.ncol = 0 then .val 0
  else if lsame norm 'M' then .val (langsMax absf A)
  else if lsame norm 'O' || norm == '1' then .val (langsOne absf A)
  else if lsame norm 'I' then .val (langsInf absf A)
  else if lsame norm 'F' || lsame norm 'E' then .notImplemented
  else .illegal

end Langs

/-! ### ?CompRow_to_CompCol -/
section Conv
variable {α : Type} [Zero α]

structure ColStore (α : Type) where
  at_ : Array α
  rowind : Array Nat
  colptr : Array Nat
  deriving Repr, DecidableEq

/-- "Get counts of each column of A": `++marker[colind[j]]` over all rows -/
def countCols (m n : Nat) (colind rowptr : Array Nat) : Array Nat :=
  (List.range m).foldl
    (fun mk i => (List.range (rdN rowptr (i + 1) - rdN rowptr i)).foldl
        (fun mk k => wr mk (rdN colind (rdN rowptr i + k)) (rdN mk (rdN colind (rdN rowptr i + k)) + 1)) mk)
    (Array.replicate n 0)

/-- "set up column pointers": `colptr[j+1] = colptr[j] + marker[j]; marker[j] = colptr[j];`
state = (colptr, marker) -/
def setupPtrs (n : Nat) (marker : Array Nat) : Array Nat × Array Nat :=
  (List.range n).foldl
    (fun (st : Array Nat × Array Nat) j =>
      (wr st.1 (j + 1) (rdN st.1 j + rdN st.2 j), wr st.2 j (rdN st.1 j)))
    (Array.replicate (n + 1) 0, marker)

structure XferSt (α : Type) where
  marker : Array Nat
  rowind : Array Nat
  at_ : Array α

/-- "Transfer the matrix into the compressed column storage." -/
def transfer (m nnz : Nat) (a : Array α) (colind rowptr : Array Nat) (marker : Array Nat) : XferSt α :=
  (List.range m).foldl
    (fun st i => (List.range (rdN rowptr (i + 1) - rdN rowptr i)).foldl
        (fun st k =>
          { marker := wr st.marker (rdN colind (rdN rowptr i + k)) (rdN st.marker (rdN colind (rdN rowptr i + k)) + 1),
            rowind := wr st.rowind (rdN st.marker (rdN colind (rdN rowptr i + k))) i,
            at_ := wr st.at_ (rdN st.marker (rdN colind (rdN rowptr i + k))) (rd a (rdN rowptr i + k)) }) st)
    { marker := marker, rowind := Array.replicate nnz 0, at_ := Array.replicate nnz 0 }

/-- `?CompRow_to_CompCol(m, n, nnz, a, colind, rowptr, &at, &rowind, &colptr)`.  The freshly
malloc'ed outputs start as zeros here (their initial content is never read). -/
def compRowToCompCol (m n nnz : Nat) (a : Array α) (colind rowptr : Array Nat) : ColStore α :=
  let ps := setupPtrs n (countCols m n colind rowptr)
  let st := transfer m nnz a colind rowptr ps.2
  { at_ := st.at_, rowind := st.rowind, colptr := ps.1 }

/-- `?Copy_CompCol_Matrix(A, B)`: header fields, then three element loops into B's own arrays. -/
def copyCompCol (A B : NCMat α) : NCMat α :=
  { nrow := A.nrow, ncol := A.ncol, nnz := A.nnz
    nzval := (List.range A.nnz).foldl (fun v i => wr v i (rd A.nzval i)) B.nzval
    rowind := (List.range A.nnz).foldl (fun v i => wr v i (rdN A.rowind i)) B.rowind
    colptr := (List.range (A.ncol.toNat + 1)).foldl (fun v i => wr v i (rdN A.colptr i)) B.colptr }

/-- `NCPformat` behind a `SuperMatrix` (what `?Create_CompCol_Permuted` fills in: it stores the
pointers it is given, nothing else). -/
structure NCPMat (α : Type) where
  nrow : Int
  ncol : Int
  nnz : Nat
  nzval : Array α
  rowind : Array Nat
  colbeg : Array Nat
  colend : Array Nat
  deriving Repr, Inhabited

def createCompColPermuted (m n : Int) (nnz : Nat) (nzval : Array α) (rowind colbeg colend : Array Nat) : NCPMat α :=
  { nrow := m, ncol := n, nnz := nnz, nzval := nzval, rowind := rowind, colbeg := colbeg, colend := colend }

/-- the pointer permutation that produces the view `A*Pc` (sp_colorder.c:102):
`colbeg[perm_c[i]] = colptr[i]; colend[perm_c[i]] = colptr[i+1];` -/
def permutePtrs (n : Nat) (permc colptr : Array Nat) : Array Nat × Array Nat :=
  (List.range n).foldl
    (fun (st : Array Nat × Array Nat) i =>
      (wr st.1 (rdN permc i) (rdN colptr i), wr st.2 (rdN permc i) (rdN colptr (i + 1))))
    (Array.replicate n 0, Array.replicate n 0)

/-- the permuted view of `A` under `perm_c`, as sp_colorder builds it -/
def permutedView (A : NCMat α) (permc : Array Nat) : NCPMat α :=
  let p := permutePtrs A.ncol.toNat permc A.colptr
  createCompColPermuted A.nrow A.ncol A.nnz A.nzval A.rowind p.1 p.2

end Conv

/-! ### sp_?trsv (real precisions) over `SCP` / `NCP`

Values in `SCP`/`NCP` are integers on a common binary scale; `one` is the integer that represents
1.0, so the number a stored integer `v` denotes is `v / one`. -/
section Trsv

def lv (one : Int) (v : Int) : Rat := (v : Rat) / (one : Rat)

/-- entry `(i, j)` of the dense `nsupr × nsupc` rectangle of a supernode (`Lval[luptr + i + j*nsupr]`) -/
def sA (one : Int) (s : Snode) (i j : Nat) : Rat := lv one (geti (s.vals.getD j #[]) i)
def nsupc (s : Snode) : Nat := s.e - s.f
def nsupr (s : Snode) : Nat := s.rows.size
def srow (s : Snode) (t : Nat) : Nat := (geti s.rows t).toNat

/-- reference `?trsv("L","N","U", nc, a, lda, x + f, 1)`:
`for j: temp = x[j]; for i = j+1..nc-1: x[i] -= temp*a[i,j]` -/
def trsvLNU (a : Nat → Nat → Rat) (nc f : Nat) (x : Array Rat) : Array Rat :=
  (List.range nc).foldl (fun x j =>
    (List.range (nc - (j + 1))).foldl (fun x t =>
      wr x (f + (j + 1 + t)) (rd x (f + (j + 1 + t)) - rd x (f + j) * a (j + 1 + t) j)) x) x

/-- reference `?trsv("U","N","N", ...)`:
`for j = nc-1..0: x[j] /= a[j,j]; temp = x[j]; for i = j-1..0: x[i] -= temp*a[i,j]` -/
def trsvUNN (a : Nat → Nat → Rat) (nc f : Nat) (x : Array Rat) : Array Rat :=
  (List.range nc).foldl (fun x jj =>
    let j := nc - 1 - jj
    let x1 := wr x (f + j) (rd x (f + j) / a j j)
    (List.range j).foldl (fun x t =>
      wr x (f + (j - 1 - t)) (rd x (f + (j - 1 - t)) - rd x1 (f + j) * a (j - 1 - t) j)) x1) x

/-- reference `?trsv("L","T","U", ...)`:
`for j = nc-1..0: temp = x[j]; for i = nc-1..j+1: temp -= a[i,j]*x[i]; x[j] = temp` -/
def trsvLTU (a : Nat → Nat → Rat) (nc f : Nat) (x : Array Rat) : Array Rat :=
  (List.range nc).foldl (fun x jj =>
    let j := nc - 1 - jj
    wr x (f + j) ((List.range (nc - (j + 1))).foldl
      (fun temp t => temp - a (nc - 1 - t) j * rd x (f + (nc - 1 - t))) (rd x (f + j)))) x

/-- reference `?trsv("U","T","N", ...)`:
`for j = 0..nc-1: temp = x[j]; for i = 0..j-1: temp -= a[i,j]*x[i]; x[j] = temp / a[j,j]` -/
def trsvUTN (a : Nat → Nat → Rat) (nc f : Nat) (x : Array Rat) : Array Rat :=
  (List.range nc).foldl (fun x j =>
    wr x (f + j) ((List.range j).foldl (fun temp i => temp - a i j * rd x (f + i)) (rd x (f + j)) / a j j)) x

/-- reference `?gemv("N", nrow, nc, 1, &a[nc,0], lda, x + f, 1, 1, work, 1)` into a zero `work` -/
def gemvWork (a : Nat → Nat → Rat) (nrow nc f : Nat) (x : Array Rat) : Array Rat :=
  (List.range nc).foldl (fun w j =>
    (List.range nrow).foldl (fun w i => wr w i (rd w i + rd x (f + j) * a (nc + i) j)) w)
    (Array.replicate nrow 0)

/-- one supernode of "x := inv(L)*x" -/
def stepLN (one : Int) (s : Snode) (x : Array Rat) : Array Rat :=
  if (nsupc s) = 1 then
    (List.range (nsupr s - 1)).foldl (fun x t =>
      wr x (srow s (1 + t)) (rd x (srow s (1 + t)) - rd x s.f * sA one s (1 + t) 0)) x
  else
    let x1 := trsvLNU (sA one s) (nsupc s) s.f x
    let work := gemvWork (sA one s) (nsupr s - (nsupc s)) (nsupc s) s.f x1
    (List.range (nsupr s - (nsupc s))).foldl (fun x i =>
      wr x (srow s (nsupc s + i)) (rd x (srow s (nsupc s + i)) - rd work i)) x1

def urow (c : UCol) (t : Nat) : Nat := (geti c.rows t).toNat
def uval (one : Int) (c : UCol) (t : Nat) : Rat := lv one (geti c.vals t)

/-- `for (i = U_NZ_START(jcol); i < U_NZ_END(jcol); ++i) x[U_SUB(i)] -= x[jcol] * Uval[i];` -/
def uAxpy (one : Int) (c : UCol) (jcol : Nat) (x : Array Rat) : Array Rat :=
  (List.range c.rows.size).foldl (fun x t => wr x (urow c t) (rd x (urow c t) - rd x jcol * uval one c t)) x

/-- one supernode of "x := inv(U)*x" -/
def stepUN (one : Int) (U : NCP) (s : Snode) (x : Array Rat) : Array Rat :=
  if (nsupc s) = 1 then
    uAxpy one (U.cols.getD s.f default) s.f (wr x s.f (rd x s.f / sA one s 0 0))
  else
    (List.range (nsupc s)).foldl (fun x jj => uAxpy one (U.cols.getD (s.f + jj) default) (s.f + jj) x)
      (trsvUNN (sA one s) (nsupc s) s.f x)

/-- one supernode of "x := inv(L')*x" -/
def stepLT (one : Int) (s : Snode) (x : Array Rat) : Array Rat :=
  let x1 := (List.range (nsupc s)).foldl (fun x jj =>
      (List.range (nsupr s - (nsupc s))).foldl (fun x t =>
        wr x (s.f + jj) (rd x (s.f + jj) - rd x (srow s (nsupc s + t)) * sA one s (nsupc s + t) jj)) x) x
  if (nsupc s) > 1 then trsvLTU (sA one s) (nsupc s) s.f x1 else x1

/-- `for (i = U_NZ_START(jcol); i < U_NZ_END(jcol); i++) x[jcol] -= x[U_SUB(i)] * Uval[i];` -/
def uDot (one : Int) (c : UCol) (jcol : Nat) (x : Array Rat) : Array Rat :=
  (List.range c.rows.size).foldl (fun x t => wr x jcol (rd x jcol - rd x (urow c t) * uval one c t)) x

/-- one supernode of "x := inv(U')*x" -/
def stepUT (one : Int) (U : NCP) (s : Snode) (x : Array Rat) : Array Rat :=
  let x1 := (List.range (nsupc s)).foldl (fun x jj => uDot one (U.cols.getD (s.f + jj) default) (s.f + jj) x) x
  if (nsupc s) = 1 then wr x1 s.f (rd x1 s.f / sA one s 0 0)
  else trsvUTN (sA one s) (nsupc s) s.f x1

inductive TrsvRes where
  /-- `*info = -k; xerbla_("sp_?trsv", &k)` -/
  | xerbla (k : Nat)
  | ok (x : Array Rat)
  deriving Repr, DecidableEq

/-- supernodes `0, 1, …, nsuper` -/
def sweepUp (L : SCP) (step : Snode → Array Rat → Array Rat) (x : Array Rat) : Array Rat :=
  (List.range L.numSnodes).foldl (fun x k => step (L.sn.getD k default) x) x
/-- supernodes `nsuper, …, 1, 0` -/
def sweepDown (L : SCP) (step : Snode → Array Rat → Array Rat) (x : Array Rat) : Array Rat :=
  (List.range L.numSnodes).foldl (fun x k => step (L.sn.getD (L.numSnodes - 1 - k) default) x) x

/-- `sp_?trsv(uplo, trans, diag, L, U, x, &info)` for the real precisions (`'C'` is accepted and,
the data being real, takes the transpose branch; the complex twins still reject `'C'`).  `lnrow … uncol` are the
`nrow`/`ncol` header fields of the two `SuperMatrix` arguments. -/
def spTrsv (uplo trans diag : Char) (lnrow lncol unrow uncol : Int) (one : Int) (L : SCP) (U : NCP)
    (x : Array Rat) : TrsvRes :=
  if !lsame uplo 'L' && !lsame uplo 'U' then .xerbla 1
  else if !lsame trans 'N' && !lsame trans 'T' && !lsame trans 'C' then .xerbla 2
  else if !lsame diag 'U' && !lsame diag 'N' then .xerbla 3
  else if lnrow ≠ lncol ∨ lnrow < 0 then .xerbla 4
  else if unrow ≠ uncol ∨ unrow < 0 then .xerbla 5
  else if lsame trans 'N' then
    if lsame uplo 'L' then
      if lnrow = 0 then .ok x else .ok (sweepUp L (stepLN one) x)
    else
      if unrow = 0 then .ok x else .ok (sweepDown L (stepUN one U) x)
  else
    if lsame uplo 'L' then
      if lnrow = 0 then .ok x else .ok (sweepDown L (stepLT one) x)
    else
      if unrow = 0 then .ok x else .ok (sweepUp L (stepUT one U) x)

end Trsv

end Slu.Blas
