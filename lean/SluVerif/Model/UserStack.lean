/-
M-UserStack: the two-ended bump allocator over the caller's workspace (SRC/p?memory.c: `stack`, `?user_malloc`,
`?user_free`, `p?gstrf_SetupSpace`, `p?gstrf_WorkInit`, `p?gstrf_WorkFree`), at the granularity of its critical sections.

Offsets are relative to the start of the caller's buffer; `base8` is the buffer's address modulo 8 (alignment of the real
work array is decided on the address, not on the offset).  The head (`top1`, growing up) holds the L/U arrays, the tail
(`top2`, growing down) the per-thread work arrays.  `tailUsers` counts the workers that hold tail space (repair 371e0b6);
a worker's real array is aligned inside its own block (repair 915999e).  The two original behaviours are modelled next to
the repaired ones (`workFreeOrig`, `alignOrigStep`) so that the defects are theorems about the model, not only test results.
-/
namespace Slu

structure UStack where
  size : Int
  used : Int
  top1 : Int
  top2 : Int
  tailUsers : Int
  deriving Repr, DecidableEq

/-- `p?gstrf_SetupSpace(work, lwork)` with `lwork > 0` -/
def UStack.setup (lwork : Int) : UStack := { size := lwork, used := 0, top1 := 0, top2 := lwork, tailUsers := 0 }

/-- `StackFull(x) = (x + stack.used >= stack.size)` -/
def UStack.full (s : UStack) (bytes : Int) : Bool := decide (bytes + s.used ≥ s.size)

/-- `?user_malloc(bytes, HEAD)`: offset of the block, or none (NULL) -/
def UStack.mallocHead (s : UStack) (bytes : Int) : UStack × Option Int :=
  if s.full bytes then (s, none) else ({ s with top1 := s.top1 + bytes, used := s.used + bytes }, some s.top1)

/-- `?user_malloc(bytes, TAIL)` -/
def UStack.mallocTail (s : UStack) (bytes : Int) : UStack × Option Int :=
  if s.full bytes then (s, none) else ({ s with top2 := s.top2 - bytes, used := s.used + bytes }, some (s.top2 - bytes))

/-- `?user_free(bytes, HEAD | TAIL)` -/
def UStack.freeHead (s : UStack) (bytes : Int) : UStack := { s with top1 := s.top1 - bytes, used := s.used - bytes }
def UStack.freeTail (s : UStack) (bytes : Int) : UStack := { s with top2 := s.top2 + bytes, used := s.used - bytes }

/-- `DoubleAlign(addr) = (addr + 7) & ~7`, on the address `base8 + off`, returned as an offset -/
def alignUp (base8 off : Int) : Int := ((base8 + off + 7) / 8) * 8 - base8

/-- sizes requested by `p?gstrf_WorkInit(n, panel_size, …)`; `NO_MARKER = 3` -/
def iworkBytes (n w iword : Int) : Int := (2 * w + 5 + 3) * n * iword
def dworkBytes (n w maxsuper rowblk dword : Int) : Int := (n * w + max (2 * n) ((maxsuper + rowblk) * w)) * dword

/-! ### the worker protocol, one critical section per step -/

inductive WPc where
  | start                          -- before `p?gstrf_WorkInit`
  | counted                        -- `++tail_users` done
  | gotI (offI : Int)              -- integer work array allocated
  | gotD (offI offD : Int)         -- real work array allocated: block [offD, offD + dsize + 8), array at alignUp offD
  | failed                         -- an allocation failed: the thread returns, `p?gstrf_WorkFree` is not called
  | freed                          -- `p?gstrf_WorkFree` done
  deriving Repr, DecidableEq

structure WSys where
  st : UStack
  pcs : List WPc
  deriving Repr, DecidableEq

/-- one step of worker `i` (repaired code) -/
def wstep (isz dsz : Int) (s : WSys) (i : Nat) : WSys :=
  match s.pcs[i]? with
  | none => s
  | some pc =>
    match pc with
    | .start => { st := { s.st with tailUsers := s.st.tailUsers + 1 }, pcs := s.pcs.set i .counted }
    | .counted =>
      match s.st.mallocTail isz with
      | (st', some off) => { st := st', pcs := s.pcs.set i (.gotI off) }
      | (st', none) => { st := st', pcs := s.pcs.set i .failed }
    | .gotI offI =>
      match s.st.mallocTail (dsz + 8) with
      | (st', some off) => { st := st', pcs := s.pcs.set i (.gotD offI off) }
      | (st', none) => { st := st', pcs := s.pcs.set i .failed }
    | .gotD _ _ =>
      -- `if ( --tail_users <= 0 ) { used -= size - top2; top2 = size; }`
      let tu := s.st.tailUsers - 1
      let st' := if tu ≤ 0 then { s.st with tailUsers := tu, used := s.st.used - (s.st.size - s.st.top2), top2 := s.st.size }
                 else { s.st with tailUsers := tu }
      { st := st', pcs := s.pcs.set i .freed }
    | .failed => s
    | .freed => s

/-- the blocks a worker currently owns, as (offset, length) -/
def wblocks (isz dsz : Int) : WPc → List (Int × Int)
  | .gotI offI => [(offI, isz)]
  | .gotD offI offD => [(offI, isz), (offD, dsz + 8)]
  | _ => []

def allBlocks (isz dsz : Int) (s : WSys) : List (Int × Int) := s.pcs.flatMap (wblocks isz dsz)

def disjointB (a b : Int × Int) : Prop := a.1 + a.2 ≤ b.1 ∨ b.1 + b.2 ≤ a.1

/-! ### the original behaviours -/

/-- original `p?gstrf_WorkFree`: every worker that leaves releases the whole tail -/
def wstepOrigFree (isz dsz : Int) (s : WSys) (i : Nat) : WSys :=
  match s.pcs[i]? with
  | some (.gotD _ _) =>
    { st := { s.st with used := s.st.used - (s.st.size - s.st.top2), top2 := s.st.size }, pcs := s.pcs.set i .freed }
  | _ => wstep isz dsz s i

/-- original alignment of the real work array, in two critical sections: allocate `dsz` bytes, then (separately) move the
start down to `DoubleAlign(p) - 8` and charge the difference to the stack.  Returns the array's final offset. -/
def alignOrigDown (base8 off : Int) : Int := alignUp base8 off - 8
def alignOrigAdjust (s : UStack) (extra : Int) : UStack := { s with top2 := s.top2 - extra, used := s.used + extra }

end Slu

namespace Slu

/-! ### the file-static state that survives between driver calls (`whichspace`, `stack`) and the operations that read it -/

inductive UMode where
  | system | user
  deriving Repr, DecidableEq

structure UState where
  mode : UMode
  st : UStack
  deriving Repr, DecidableEq

structure UParams where
  iword : Int
  dword : Int
  maxsuper : Int
  rowblk : Int
  base8 : Int

/-- `p?gstrf_SetupSpace(work, lwork)` as written: `lwork = 0` selects the system allocator and leaves the stack descriptor
alone, `lwork > 0` selects the caller's buffer and resets every field of the descriptor (usable length rounded down to a multiple of 8), `lwork < 0` (the query) touches nothing. -/
def setupSpace (old : UState) (lwork : Int) : UState :=
  if lwork = 0 then { old with mode := .system }
  else if lwork > 0 then { mode := .user, st := UStack.setup (lwork - lwork % 8) }   -- the usable length is rounded down to a multiple of sizeof(double)
  else old

inductive UOp where
  | mh (b : Int) | mt (b : Int) | fh (b : Int) | ft (b : Int)
  | wi (n w : Int)            -- p?gstrf_WorkInit as a whole
  | wf                        -- p?gstrf_WorkFree
  | probe
  deriving Repr, DecidableEq

inductive UOut where
  | ptr (p : Option Int)
  | unit
  | work (rc : Int) (i d : Option Int)
  | sysWork                   -- system allocator: pointers outside the caller's buffer
  | two (a b : Option Int)
  deriving Repr, DecidableEq

/-- one allocator operation.  In system mode `WorkInit`/`WorkFree` do not touch the stack descriptor; the raw `?user_malloc`
family is only meaningful in user mode and is modelled there. -/
def ustep (K : UParams) (u : UState) : UOp → UState × UOut
  | .mh b => let (s, r) := u.st.mallocHead b; ({ u with st := s }, .ptr r)
  | .mt b => let (s, r) := u.st.mallocTail b; ({ u with st := s }, .ptr r)
  | .fh b => ({ u with st := u.st.freeHead b }, .unit)
  | .ft b => ({ u with st := u.st.freeTail b }, .unit)
  | .wi n w =>
    match u.mode with
    | .system => (u, .sysWork)
    | .user =>
      let isz := iworkBytes n w K.iword
      let dsz := dworkBytes n w K.maxsuper K.rowblk K.dword
      let st1 := { u.st with tailUsers := u.st.tailUsers + 1 }
      match st1.mallocTail isz with
      | (st2, none) => ({ u with st := st2 }, .work (isz + n) none none)
      | (st2, some oi) =>
        match st2.mallocTail (dsz + 8) with
        | (st3, none) => ({ u with st := st3 }, .work (isz + dsz + n) (some oi) none)
        | (st3, some od) => ({ u with st := st3 }, .work 0 (some oi) (some (alignUp K.base8 od)))
  | .wf =>
    match u.mode with
    | .system => (u, .unit)
    | .user =>
      let tu := u.st.tailUsers - 1
      let st' := if tu ≤ 0 then { u.st with tailUsers := tu, used := u.st.used - (u.st.size - u.st.top2), top2 := u.st.size }
                 else { u.st with tailUsers := tu }
      ({ u with st := st' }, .unit)
  | .probe =>
    let (s1, r1) := u.st.mallocHead 0
    let (s2, r2) := s1.mallocTail 0
    ({ u with st := s2 }, .two r1 r2)

/-- run a sequence of operations, collecting the outputs -/
def urun (K : UParams) : UState → List UOp → List UOut
  | _, [] => []
  | u, op :: ops => let r := ustep K u op; r.2 :: urun K r.1 ops

/-- the operations a factorization issues: worker set-up and release only (the raw requests are the master's business in user mode) -/
def workerOp : UOp → Bool
  | .wi _ _ => true
  | .wf => true
  | _ => false

end Slu
