/-
M-Lacon: the reverse-communication 1-norm estimator `?lacon_` (SRC/dlacon.c, slacon.c) as a pure state
machine over `Rat`, one Lean function per call of the C routine, mirroring the jump labels
L20 / L40 / L50 / L70 / L90 / L110 / L120 / L140 / L150, and `runLacon`, the caller's do-while loop
(`?gscon`, `?gsrfs`) that plays the dialogue against two operators (`kase = 1`: x := A x,
`kase = 2`: x := Aᵀ x).

The C routine keeps `iter, jump, jlast, altsgn, estold, i, j` in `static` storage: they are the fields
of `LaconSt` (threaded explicitly); the caller-owned arguments `v, x, isgn, est, kase` are `LaconIO`.
Vectors are `Array Rat` read through `rget` (0 outside the range), so no size side conditions appear.

The complex twins (`clacon_`, `zlacon_`) are `claconCall` below (executable only, see the comment there).
-/
namespace Slu

abbrev RVec := Array Rat

@[inline] def rget (v : RVec) (i : Nat) : Rat := v.getD i 0
def rmk (n : Nat) (f : Nat → Rat) : RVec := Array.ofFn (n := n) fun i => f i.val
/-- `fabs` -/
def rabs (x : Rat) : Rat := if x < 0 then -x else x
/-- `Σ_{i<n} f i` -/
def rsum (n : Nat) (f : Nat → Rat) : Rat := ((List.range n).map f).sum
/-- BLAS `?asum` with unit stride -/
def asum (n : Nat) (x : RVec) : Rat := rsum n fun i => rabs (rget x i)
/-- BLAS `i?amax` (0-based): the first index whose absolute value is maximal; 0 when `n = 0`. -/
def idamax (n : Nat) (x : RVec) : Nat :=
  (List.range n).foldl (fun best i => if rabs (rget x best) < rabs (rget x i) then i else best) 0

/-- `d_sign(one, t)`: `t >= 0 ? 1 : -1` -/
def sgn (t : Rat) : Rat := if 0 ≤ t then 1 else -1
def sgnI (t : Rat) : Int := if 0 ≤ t then 1 else -1

/-- `x[i] = d_sign(one, x[i])` for all i -/
def signVec (n : Nat) (x : RVec) : RVec := rmk n fun i => sgn (rget x i)
/-- `isgn[i] = i_dnnt(x[i])` after the line above -/
def isgnOf (n : Nat) (x : RVec) : Array Int := Array.ofFn (n := n) fun i => sgnI (rget x i.val)
/-- `for i: if (i_dnnt(d_sign(one, x[i])) != isgn[i]) goto L90;` falls through = all equal -/
def sameSigns (n : Nat) (x : RVec) (isgn : Array Int) : Bool :=
  (List.range n).all fun i => sgnI (rget x i) == isgn.getD i 0
/-- L50: `x := e_j` -/
def unitVec (n j : Nat) : RVec := rmk n fun i => if i = j then 1 else 0
/-- L120: `x[i-1] = altsgn * ((double)(i-1)/(double)(n-1) + 1.)`, altsgn alternating from +1 -/
def altVec (n : Nat) : RVec :=
  rmk n fun k => (if k % 2 = 0 then (1 : Rat) else -1) * ((k : Rat) / (((n : Int) - 1 : Int) : Rat) + 1)
/-- `dcopy_(n, x, 1, v, 1)` -/
def vcopy (n : Nat) (x : RVec) : RVec := rmk n fun i => rget x i

/-- the `static` locals of `?lacon_` that survive between calls -/
structure LaconSt where
  jump : Nat := 0
  iter : Nat := 0
  j : Nat := 0
  jlast : Nat := 0
  estold : Rat := 0
  deriving Repr, Inhabited

/-- the caller-owned arguments of `?lacon_` -/
structure LaconIO where
  v : RVec
  x : RVec
  isgn : Array Int
  est : Rat
  kase : Nat
  deriving Repr, Inhabited

/-- number of main iterations, the literal `5` in `iter < 5` (ITMAX of the LAPACK original) -/
def laconItmax : Nat := 5

/-- L50: main loop head -/
def l50 (n : Nat) (st : LaconSt) (io : LaconIO) : LaconSt × LaconIO :=
  ({ st with jump := 3 }, { io with x := unitVec n st.j, kase := 1 })
/-- L120: final stage -/
def l120 (n : Nat) (st : LaconSt) (io : LaconIO) : LaconSt × LaconIO :=
  ({ st with jump := 5 }, { io with x := altVec n, kase := 1 })
/-- L150: quit -/
def l150 (st : LaconSt) (io : LaconIO) : LaconSt × LaconIO := (st, { io with kase := 0 })

/-- one call `?lacon_(&n, v, x, isgn, &est, &kase)` -/
def laconCall (n : Nat) (st : LaconSt) (io : LaconIO) : LaconSt × LaconIO :=
  if io.kase = 0 then
    ({ st with jump := 1 }, { io with x := rmk n (fun _ => 1 / (n : Rat)), kase := 1 })
  else match st.jump with
  | 2 =>   -- L40: x has been overwritten by Aᵀ x
    l50 n { st with j := idamax n io.x, iter := 2 } io
  | 3 =>   -- L70: x has been overwritten by A x
    let st1 := { st with estold := io.est }
    let io1 := { io with v := vcopy n io.x, est := asum n io.x }
    if sameSigns n io.x io.isgn then l120 n st1 io1            -- repeated sign vector
    else if io1.est ≤ st1.estold then l120 n st1 io1           -- L90: test for cycling
    else ({ st1 with jump := 4 }, { io1 with x := signVec n io.x, isgn := isgnOf n io.x, kase := 2 })
  | 4 =>   -- L110: x has been overwritten by Aᵀ x
    let st1 := { st with jlast := st.j, j := idamax n io.x }
    if rget io.x st1.jlast ≠ rabs (rget io.x st1.j) ∧ st1.iter < laconItmax then
      l50 n { st1 with iter := st1.iter + 1 } io
    else l120 n st1 io
  | 5 =>   -- L140: x has been overwritten by A x
    let temp := asum n io.x / (((n * 3 : Nat) : Int) : Rat) * 2
    if io.est < temp then l150 st { io with v := vcopy n io.x, est := temp } else l150 st io
  | _ =>   -- L20 (jump = 1; also where the C `switch` falls through to)
    if n = 1 then
      l150 st { io with v := vcopy n io.x, est := rabs (rget io.x 0) }
    else
      ({ st with jump := 2 },
       { io with est := asum n io.x, x := signVec n io.x, isgn := isgnOf n io.x, kase := 2 })

/-- result of a complete dialogue -/
structure LaconRun where
  st : LaconSt
  io : LaconIO
  applies : Nat          -- operator applications performed
  deriving Repr, Inhabited

/-- the caller's loop `do { lacon(..); if (kase == 0) break; x := op_kase(x); } while (kase != 0)` -/
def laconLoop (n : Nat) (apply applyT : RVec → RVec) : Nat → LaconSt → LaconIO → Nat → LaconRun
  | 0, st, io, k => { st, io, applies := k }
  | fuel + 1, st, io, k =>
    let r := laconCall n st io
    if r.2.kase = 0 then { st := r.1, io := r.2, applies := k }
    else
      let x' := if r.2.kase = 1 then apply r.2.x else applyT r.2.x
      laconLoop n apply applyT fuel r.1 { r.2 with x := x' } (k + 1)

/-- calls of `?lacon_` that always suffice: 1 (start) + L20 + L40 + 2·(ITMAX-1) + L140 -/
def laconFuel : Nat := 12

def laconInitIO (n : Nat) : LaconIO :=
  { v := rmk n fun _ => 0, x := rmk n fun _ => 0, isgn := Array.replicate n 0, est := 0, kase := 0 }

def runLacon (n : Nat) (apply applyT : RVec → RVec) : LaconRun :=
  laconLoop n apply applyT laconFuel {} (laconInitIO n) 0

/-- dense operator `x ↦ M x` and `x ↦ Mᵀ x` (`M i j` for `i, j < n`) -/
def matVec (n : Nat) (M : Nat → Nat → Rat) (x : RVec) : RVec := rmk n fun i => rsum n fun j => M i j * rget x j
def matVecT (n : Nat) (M : Nat → Nat → Rat) (x : RVec) : RVec := rmk n fun j => rsum n fun i => M i j * rget x i

/-- `Σ_i |M i j|` -/
def colAbsSum (n : Nat) (M : Nat → Nat → Rat) (j : Nat) : Rat := rsum n fun i => rabs (M i j)
def rmaxTo (n : Nat) (f : Nat → Rat) : Rat := (List.range n).foldl (fun m i => if m < f i then f i else m) 0
/-- `‖M‖₁` = max column sum -/
def norm1 (n : Nat) (M : Nat → Nat → Rat) : Rat := rmaxTo n (colAbsSum n M)

/-! ### the dialogue as a trace (driver / correspondence) -/

structure LaconEvent where
  kase : Nat
  est : Rat
  x : RVec
  jump : Nat
  j : Nat
  tie : Bool        -- the `i?amax` just performed (jump 2/4 entry) had a tie for the maximum
  deriving Repr, Inhabited

/-- does the maximum of `|x_i|` occur at two different indices? (margin rule of the correspondence) -/
def amaxTie (n : Nat) (x : RVec) : Bool :=
  let j := idamax n x
  (List.range n).any fun i => i != j && rabs (rget x i) == rabs (rget x j)

def laconTrace (n : Nat) (apply applyT : RVec → RVec) : Nat → LaconSt → LaconIO → Array LaconEvent → Array LaconEvent
  | 0, _, _, acc => acc
  | fuel + 1, st, io, acc =>
    let tie := (io.kase != 0) && (st.jump == 2 || st.jump == 4) && amaxTie n io.x
    let r := laconCall n st io
    let acc := acc.push { kase := r.2.kase, est := r.2.est, x := r.2.x, jump := r.1.jump, j := r.1.j, tie }
    if r.2.kase = 0 then acc
    else
      let x' := if r.2.kase = 1 then apply r.2.x else applyT r.2.x
      laconTrace n apply applyT fuel r.1 { r.2 with x := x' } acc

/-! ### complex twins (`clacon_`, `zlacon_`) — executable model only

Differences from the real routine (all mirrored): no `isgn`, no repeated-sign test at L70; the sign
vector is `x_i/|x_i|` (or 1 when `|x_i| ≤ safmin`); `i?max1` looks at the absolute value of the REAL part
only; the cycling test at L110 compares real parts; sums use the modulus (`?zsum1`).
The modulus is irrational in general: this model is restricted to axis-aligned values (real or purely
imaginary), for which `|re| + |im|` IS the modulus; the correspondence check only feeds such operators. -/

structure CRat where
  re : Rat
  im : Rat
  deriving Repr, Inhabited, BEq

abbrev CVec := Array CRat
@[inline] def cget (v : CVec) (i : Nat) : CRat := v.getD i ⟨0, 0⟩
def cmk (n : Nat) (f : Nat → CRat) : CVec := Array.ofFn (n := n) fun i => f i.val
/-- modulus of an axis-aligned value -/
def cabsAxis (z : CRat) : Rat := rabs z.re + rabs z.im
def cmul (a b : CRat) : CRat := ⟨a.re * b.re - a.im * b.im, a.re * b.im + a.im * b.re⟩
def cadd (a b : CRat) : CRat := ⟨a.re + b.re, a.im + b.im⟩
def cconj (a : CRat) : CRat := ⟨a.re, -a.im⟩
def csum1 (n : Nat) (x : CVec) : Rat := rsum n fun i => cabsAxis (cget x i)
def icmax1 (n : Nat) (x : CVec) : Nat :=
  (List.range n).foldl (fun best i => if rabs (cget x best).re < rabs (cget x i).re then i else best) 0
/-- `x_i / |x_i|`, or 1 when the modulus is 0 (`≤ safmin`) -/
def csignVec (n : Nat) (x : CVec) : CVec :=
  cmk n fun i => let z := cget x i; let a := cabsAxis z; if 0 < a then ⟨z.re / a, z.im / a⟩ else ⟨1, 0⟩

structure CLaconIO where
  v : CVec
  x : CVec
  est : Rat
  kase : Nat
  deriving Repr, Inhabited

def claconCall (n : Nat) (st : LaconSt) (io : CLaconIO) : LaconSt × CLaconIO :=
  let l50 (st : LaconSt) (io : CLaconIO) : LaconSt × CLaconIO :=
    ({ st with jump := 3 }, { io with x := cmk n fun i => if i = st.j then ⟨1, 0⟩ else ⟨0, 0⟩, kase := 1 })
  let l120 (st : LaconSt) (io : CLaconIO) : LaconSt × CLaconIO :=
    ({ st with jump := 5 }, { io with x := cmk n fun i => ⟨rget (altVec n) i, 0⟩, kase := 1 })
  if io.kase = 0 then
    ({ st with jump := 1 }, { io with x := cmk n (fun _ => ⟨1 / (n : Rat), 0⟩), kase := 1 })
  else match st.jump with
  | 2 => l50 { st with j := icmax1 n io.x, iter := 2 } io
  | 3 =>
    let st1 := { st with estold := io.est }
    let io1 := { io with v := cmk n (cget io.x), est := csum1 n io.x }
    if io1.est ≤ st1.estold then l120 st1 io1
    else ({ st1 with jump := 4 }, { io1 with x := csignVec n io.x, kase := 2 })
  | 4 =>
    let st1 := { st with jlast := st.j, j := icmax1 n io.x }
    if (cget io.x st1.jlast).re ≠ rabs (cget io.x st1.j).re ∧ st1.iter < laconItmax then
      l50 { st1 with iter := st1.iter + 1 } io
    else l120 st1 io
  | 5 =>
    let temp := csum1 n io.x / (((n * 3 : Nat) : Int) : Rat) * 2
    if io.est < temp then (st, { io with v := cmk n (cget io.x), est := temp, kase := 0 }) else (st, { io with kase := 0 })
  | _ =>
    if n = 1 then (st, { io with v := cmk n (cget io.x), est := cabsAxis (cget io.x 0), kase := 0 })
    else ({ st with jump := 2 }, { io with est := csum1 n io.x, x := csignVec n io.x, kase := 2 })

structure CLaconEvent where
  kase : Nat
  est : Rat
  x : CVec
  jump : Nat
  j : Nat
  tie : Bool
  deriving Repr, Inhabited

def cmaxTie (n : Nat) (x : CVec) : Bool :=
  let j := icmax1 n x
  (List.range n).any fun i => i != j && rabs (cget x i).re == rabs (cget x j).re

def claconTrace (n : Nat) (apply applyH : CVec → CVec) : Nat → LaconSt → CLaconIO → Array CLaconEvent → Array CLaconEvent
  | 0, _, _, acc => acc
  | fuel + 1, st, io, acc =>
    let tie := (io.kase != 0) && (st.jump == 2 || st.jump == 4) && cmaxTie n io.x
    let r := claconCall n st io
    let acc := acc.push { kase := r.2.kase, est := r.2.est, x := r.2.x, jump := r.1.jump, j := r.1.j, tie }
    if r.2.kase = 0 then acc
    else
      let x' := if r.2.kase = 1 then apply r.2.x else applyH r.2.x
      claconTrace n apply applyH fuel r.1 { r.2 with x := x' } acc

def cmatVec (n : Nat) (M : Nat → Nat → CRat) (x : CVec) : CVec :=
  cmk n fun i => (List.range n).foldl (fun a j => cadd a (cmul (M i j) (cget x j))) ⟨0, 0⟩
/-- conjugate transpose -/
def cmatVecH (n : Nat) (M : Nat → Nat → CRat) (x : CVec) : CVec :=
  cmk n fun j => (List.range n).foldl (fun a i => cadd a (cmul (cconj (M i j)) (cget x i))) ⟨0, 0⟩

end Slu
