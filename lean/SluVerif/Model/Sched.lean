/-
M-Panels + M-Sched: `pxgstrf_relax_snode`, `ParallelInit` and the critical section of
`pxgstrf_scheduler` (SRC/pxgstrf_relax_snode.c, pxgstrf_synch.c, pxgstrf_scheduler.c), array for array.
The etree is an array of length n with parent n for roots (postordered: etree[j] > j).
Enum values come from the generated `Gen/Consts.lean` because the C code compares them by value
(`STATE(dad) > BUSY`, `STATE(jcol) >= CANGO`).
-/
import SluVerif.Gen.Consts
namespace Slu
open Slu.Gen

@[inline] def getN (a : Array Nat) (i : Nat) : Nat := a.getD i 0
@[inline] def getZ (a : Array Int) (i : Nat) : Int := a.getD i 0

/-- `pxgstrf_relax_snode`: returns the list of (fcol, size) of relaxed supernodes, in column order. -/
def descCounts (n : Nat) (etree : Array Nat) : Array Nat :=
  (List.range n).foldl (fun desc j => let p := getN etree j; desc.setIfInBounds p (getN desc p + getN desc j + 1))
    (Array.replicate (n + 1) 0)

/-- climb while `parent != n && desc[parent] < relax` -/
def climb (n relax : Nat) (etree desc : Array Nat) : Nat → Nat → Nat
  | 0, j => j
  | fuel + 1, j =>
    let parent := getN etree j
    if parent ≠ n ∧ getN desc parent < relax then climb n relax etree desc fuel parent else j

/-- search for a new leaf: `while (desc[j] != 0 && j < n) j++` -/
def nextLeaf (n : Nat) (desc : Array Nat) : Nat → Nat → Nat
  | 0, j => j
  | fuel + 1, j => if getN desc j ≠ 0 ∧ j < n then nextLeaf n desc fuel (j + 1) else j

def relaxLoop (n relax : Nat) (etree desc : Array Nat) : Nat → Nat → List (Nat × Nat) → List (Nat × Nat)
  | 0, _, acc => acc.reverse
  | fuel + 1, j, acc =>
    if j < n then
      let last := climb n relax etree desc n j
      let acc' := (j, last - j + 1) :: acc
      relaxLoop n relax etree desc fuel (nextLeaf n desc n (last + 1)) acc'
    else acc.reverse

def relaxSnode (n relax : Nat) (etree : Array Nat) : List (Nat × Nat) :=
  relaxLoop n relax etree (descCounts n etree) (n + 1) 0 []

/-- shared scheduler state (`pxgstrf_shared_t` fields the scheduler touches) -/
structure Sh where
  state : Array Nat          -- size n+1
  typ : Array Nat            -- size n
  size : Array Int           -- size n+1 (leading column: panel size; others: negative offset)
  ukids : Array Int          -- size n+1
  fb : Array Nat             -- fb_cols, size n+1
  queue : Array Nat          -- size n
  head : Nat
  tail : Nat
  count : Int
  tasksRemain : Int
  spin : Array Nat           -- size n
  numSplits : Nat
  deriving Repr, DecidableEq

structure PanelCfg where
  n : Nat
  etree : Array Nat
  panelSize : Nat
  relax : Nat

/-- `w = panel_size; for (k = i+1; k < min(i+panel_size, n); ++k) if (k == next relaxed fcol) { w = k - i; break; }`
`if (k == n) w = n - i;` — the C loop leaves k == n exactly when it ran to min(i+panel_size, n) == n without a hit -/
def pw0 (c : PanelCfg) (i nextRelaxFcol : Nat) : Nat :=
  let lim := min (i + c.panelSize) c.n
  match (List.range' (i + 1) (lim - (i + 1))).find? (fun k => k == nextRelaxFcol) with
  | some k => k - i
  | none => if lim == c.n && lim - i < c.panelSize then c.n - i else c.panelSize

/-- `w_top = panel_size/2; if (w_top == 0) w_top = 1;` -/
def pwTop (c : PanelCfg) : Nat := if c.panelSize / 2 == 0 then 1 else c.panelSize / 2

/-- SPLIT_TOP: `if (do_split && w > w_top) { w = w_top; ++num_splits; }` -/
def pw1 (split : Bool) (wTop w0 : Nat) : Nat × Nat := if split && decide (w0 > wTop) then (wTop, 1) else (w0, 0)

/-- do not cross a branch point: `for (j = i+1; j < i+w; ++j) if (ukids[j] > 1) { w = j - i; break; }` -/
def pw2 (ukids0 : Array Int) (i w1 : Nat) : Nat :=
  match (List.range' (i + 1) (w1 - 1)).find? (fun j => decide (getZ ukids0 j > 1)) with
  | some j => j - i
  | none => w1

/-- one iteration of the partition loop of `ParallelInit` starting at column `i` with the relaxed
snode cursor `rs` (a list of the remaining relaxed snodes); returns the width and type. -/
def panelWidth (c : PanelCfg) (ukids0 : Array Int) (i : Nat) (nextRelaxFcol : Nat) (doSplit : Bool) : Nat × Bool × Nat :=
  let w0 := pw0 c i nextRelaxFcol
  let doSplit' := doSplit || (SPLIT_TOP && decide (c.n - i < c.panelSize * SPLIT_P))
  let (w1, splits) := pw1 (SPLIT_TOP && doSplit') (pwTop c) w0
  (pw2 ukids0 i w1, doSplit', splits)

structure InitAcc where
  sh : Sh
  i : Nat
  rs : List (Nat × Nat)
  doSplit : Bool

def initStep (c : PanelCfg) (ukids0 : Array Int) (a : InitAcc) : InitAcc :=
  let i := a.i
  let (w, isRelax, rs', doSplit', splits) :=
    match a.rs with
    | (f, sz) :: rest =>
      if f == i then (sz, true, rest, a.doSplit, 0)
      else let (w, ds, sp) := panelWidth c ukids0 i f a.doSplit; (w, false, a.rs, ds, sp)
    | [] => let (w, ds, sp) := panelWidth c ukids0 i c.n a.doSplit; (w, false, [], ds, sp)
  let sh := a.sh
  let st := sh.state.setIfInBounds i (if isRelax then CANGO else UNREADY)
  let tr := if isRelax then sh.tasksRemain else sh.tasksRemain + 1
  -- sizes, types, ukids sum
  let (size', typ', uk) := (List.range' i w).foldl
      (fun (acc : Array Int × Array Nat × Int) j =>
        let (sz, ty, u) := acc
        (sz.setIfInBounds j (-( (j - i : Nat) : Int)), ty.setIfInBounds j (if isRelax then RELAXED_SNODE else REGULAR_PANEL), u + getZ sh.ukids j))
      (sh.size, sh.typ, 0)
  let size'' := size'.setIfInBounds i (w : Int)
  let ukids' := sh.ukids.setIfInBounds i (uk - ((w : Int) - 1))
  { sh := { sh with state := st, typ := typ', size := size'', ukids := ukids', fb := sh.fb.setIfInBounds i i,
                    tasksRemain := tr, numSplits := sh.numSplits + splits },
    i := i + (if w == 0 then 1 else w), rs := rs', doSplit := doSplit' }

def initLoop (c : PanelCfg) (ukids0 : Array Int) : Nat → InitAcc → InitAcc
  | 0, a => a
  | fuel + 1, a => if a.i < c.n then initLoop c ukids0 fuel (initStep c ukids0 a) else a

/-- `ParallelInit` (scheduling part) followed by `EnqueueRelaxSnode` -/
def parallelInit (c : PanelCfg) : Sh :=
  let n := c.n
  let rsn := relaxSnode n c.relax c.etree
  let ukids0 : Array Int := (List.range n).foldl (fun u i => let d := getN c.etree i; u.setIfInBounds d (getZ u d + 1)) (Array.replicate (n + 1) 0)
  let sh0 : Sh := { state := Array.replicate (n + 1) 0, typ := Array.replicate n 0, size := Array.replicate (n + 1) 0,
                    ukids := ukids0, fb := Array.replicate (n + 1) 0, queue := Array.replicate n 0, head := 0, tail := 0,
                    count := 0, tasksRemain := 0, spin := Array.replicate n 0, numSplits := 0 }
  let a := initLoop c ukids0 n { sh := sh0, i := 0, rs := rsn, doSplit := false }
  let sh1 := { a.sh with size := a.sh.size.setIfInBounds n 1, state := a.sh.state.setIfInBounds n UNREADY }
  rsn.foldl (fun sh (f, _) => { sh with queue := sh.queue.setIfInBounds sh.tail f, tail := sh.tail + 1, count := sh.count + 1,
                                         tasksRemain := sh.tasksRemain + 1 }) sh1

/-- `DADPANEL(j) = etree[j + size[j] - 1]` -/
def dadPanel (c : PanelCfg) (sh : Sh) (j : Nat) : Nat := getN c.etree (j + (getZ sh.size j).toNat - 1)

/-- the dequeue loop: skip entries whose state is below CANGO -/
def dequeue (sh : Sh) : Nat → Sh × Option Nat
  | 0 => (sh, none)
  | fuel + 1 =>
    if sh.count ≤ 0 then (sh, none)
    else
      let j := getN sh.queue sh.head
      let sh' := { sh with head := sh.head + 1, count := sh.count - 1 }
      if getN sh'.state j ≥ CANGO then (sh', some j) else dequeue sh' fuel

/-- `while (STATE(*bcol) == DONE) *bcol = DADPANEL(*bcol)` -/
def climbDone (c : PanelCfg) (sh : Sh) : Nat → Nat → Nat
  | 0, b => b
  | fuel + 1, b => if getN sh.state b == DONE then climbDone c sh fuel (dadPanel c sh b) else b

/-- first half of the critical section: report the finished panel `cur` to its parent and pick the
next panel — the parent itself when this was its last unfinished child and it has not been started,
otherwise the first live entry of the task queue. -/
def pickPanel (c : PanelCfg) (sh : Sh) (cur : Option Nat) : Sh × Option Nat :=
  match cur with
  | some jcol =>
    let dad := dadPanel c sh jcol
    let du := getZ sh.ukids dad - 1
    let shA := { sh with ukids := sh.ukids.setIfInBounds dad du }
    if du == 0 && decide (getN shA.state dad > BUSY) then (shA, some dad)
    else dequeue shA (c.n + 1)
  | none => dequeue sh (c.n + 1)

/-- second half: mark panel `jcol` BUSY, set its column flags, make the parent CANPIPE (and enqueue it)
when this was its only unfinished child, compute the farthest busy descendant. -/
def takePanel (c : PanelCfg) (sh1 : Sh) (jcol : Nat) : Sh × Nat :=
  let w := (getZ sh1.size jcol).toNat
  let dad := dadPanel c sh1 jcol
  -- `if ( dad < n && pan_status[dad].ukids == 1 )`
  let pipe : Bool := decide (dad < c.n) && (getZ sh1.ukids dad == 1)
  let st1 := sh1.state.setIfInBounds jcol BUSY
  let sh4 : Sh :=
    { sh1 with tasksRemain := sh1.tasksRemain - 1,
               state := if pipe then st1.setIfInBounds dad CANPIPE else st1,
               spin := (List.range' jcol w).foldl (fun s j => s.setIfInBounds j 1) sh1.spin,
               queue := if pipe then sh1.queue.setIfInBounds sh1.tail dad else sh1.queue,
               tail := if pipe then sh1.tail + 1 else sh1.tail,
               count := if pipe then sh1.count + 1 else sh1.count }
  let b := climbDone c sh4 (c.n + 1) (getN sh4.fb jcol)
  ({ sh4 with fb := sh4.fb.setIfInBounds dad b }, b)

/-- the critical section of `pxgstrf_scheduler`; `cur` = the panel this worker just finished (or none).
Returns the new shared state, the panel handed out (or none) and `bcol`. -/
def schedule (c : PanelCfg) (sh : Sh) (cur : Option Nat) (bcolIn : Nat) : Sh × Option Nat × Nat :=
  match pickPanel c sh cur with
  | (sh1, none) => (sh1, none, bcolIn)
  | (sh1, some jcol) => let r := takePanel c sh1 jcol; (r.1, some jcol, r.2)

/-- what the worker does when it has finished its panel: release the columns, `STATE = DONE` -/
def finishPanel (sh : Sh) (jcol : Nat) : Sh :=
  let w := (getZ sh.size jcol).toNat
  { sh with spin := (List.range' jcol w).foldl (fun s j => s.setIfInBounds j 0) sh.spin,
            state := sh.state.setIfInBounds jcol DONE }

end Slu
