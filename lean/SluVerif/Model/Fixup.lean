/-
`fixupL` and `countnz` (SRC/util.c) as pure functions on the pieces of `GlobalLU_t` they touch.
`fixupL` is modelled as the code is NOW (compaction from a copy of `lsub`); `fixupLInPlace` is the
original in-place loop, kept to state exactly what was wrong with it (Props/C09Fixup.lean).
-/
import SluVerif.Model.Sched
import SluVerif.Model.Perm
namespace Slu

structure GluL where
  n : Nat
  nsuper : Nat                 -- `supno[n]`: last supernode number
  xsup : Array Nat
  xsupEnd : Array Nat
  lsub : Array Int
  xlsub : Array Nat
  xlsubEnd : Array Nat
  deriving Repr, DecidableEq

/-- row subscripts of supernode `i` in the OLD storage -/
def GluL.seg (g : GluL) (i : Nat) : List Int :=
  let f := getN g.xsup i
  (g.lsub.toList.drop (getN g.xlsub f)).take (getN g.xlsubEnd f - getN g.xlsub f)

structure FixAcc where
  out : List Int               -- new lsub[0 .. nextl)
  xlsub : Array Nat
  xlsubEnd : Array Nat

/-- one iteration of the supernode loop, reading from the copy `g.lsub` -/
def fixStep (g : GluL) (permr : Array Int) (a : FixAcc) (i : Nat) : FixAcc :=
  let f := getN g.xsup i
  let s := (g.seg i).map fun r => geti permr r.toNat
  { out := a.out ++ s, xlsub := a.xlsub.setIfInBounds f a.out.length, xlsubEnd := a.xlsubEnd.setIfInBounds f (a.out.length + s.length) }

/-- `fixupL` (n > 1): returns new (lsub prefix, xlsub, xlsub_end); `xlsub[n] = nextl` is set at the end. -/
def fixupL (g : GluL) (permr : Array Int) : FixAcc :=
  let a := (List.range (g.nsuper + 1)).foldl (fixStep g permr) { out := [], xlsub := g.xlsub, xlsubEnd := g.xlsubEnd }
  { a with xlsub := a.xlsub.setIfInBounds g.n a.out.length }

/-- the ORIGINAL loop: reads and writes the same array -/
def fixInPlaceStep (g : GluL) (permr : Array Int) (st : Array Int × Nat × Array Nat × Array Nat) (i : Nat) :
    Array Int × Nat × Array Nat × Array Nat :=
  let (lsub, nextl, xl, xe) := st
  let f := getN g.xsup i
  let jstrt := getN xl f
  let jend := getN xe f
  let (lsub', nextl') := (List.range' jstrt (jend - jstrt)).foldl
      (fun (acc : Array Int × Nat) j => (acc.1.setIfInBounds acc.2 (geti permr (geti acc.1 j).toNat), acc.2 + 1)) (lsub, nextl)
  (lsub', nextl', xl.setIfInBounds f nextl, xe.setIfInBounds f nextl')

def fixupLInPlace (g : GluL) (permr : Array Int) : Array Int × Nat × Array Nat × Array Nat :=
  (List.range (g.nsuper + 1)).foldl (fixInPlaceStep g permr) (g.lsub, 0, g.xlsub, g.xlsubEnd)

/-- `countnz`: nnzL, nnzU (given `nextu`) -/
def countnz (g : GluL) (nextu : Nat) : Nat × Nat :=
  (List.range (g.nsuper + 1)).foldl (fun (acc : Nat × Nat) i =>
      let f := getN g.xsup i
      let jlen := getN g.xlsubEnd f - getN g.xlsub f
      let w := getN g.xsupEnd i - f
      ((List.range w).foldl (fun (a : Nat × Nat) k => (a.1 + (jlen - k), a.2 + (k + 1))) acc)) (0, nextu)

end Slu
