/-
M-Alloc: the storage bookkeeping of `pmemory.c` / `p?memory.c`.
  * `slotStarts caps` — the static memory image `?PresetMap` lays out: slot k starts at the sum of the
    capacities of the slots before it (capacity = width × predicted row count).
  * `bumpSlot` — `Glu_alloc(LUSUP)`: per-slot bump allocation WITHOUT a bounds check.
  * `bumpChecked` — `Glu_alloc(UCOL|USUB|LSUB)`: global bump allocation that aborts on overflow.
-/
namespace Slu

/-- start offsets of consecutive slots with the given capacities, and the total -/
def slotStarts : List Nat → Nat → List Nat
  | [], _ => []
  | c :: cs, base => base :: slotStarts cs (base + c)

def totalCap (caps : List Nat) : Nat := caps.sum

/-- bump allocation inside one slot: request `num` words when `next` is the next free offset;
returns the extent start (`*prev_next`) and the new `next` — no check, as in the C code -/
def bumpSlot (next num : Nat) : Nat × Nat := (next, next + num)

/-- extents handed out for a request sequence starting at `start` -/
def bumpExtents : List Nat → Nat → List (Nat × Nat)
  | [], _ => []
  | r :: rs, next => (next, r) :: bumpExtents rs (next + r)

/-- `Glu_alloc` for UCOL/USUB/LSUB: abort (none) when the request does not fit in `maxLen` -/
def bumpChecked (next num maxLen : Nat) : Option (Nat × Nat) :=
  if next + num > maxLen then none else some (next, next + num)

end Slu
