/-
M-Alloc: the storage bookkeeping of `pmemory.c` / `p?memory.c`.
  * `slotStarts caps` — the static memory image `?PresetMap` lays out: slot k starts at the sum of the
    capacities of the slots before it (capacity = width × predicted row count).
  * `bumpSlot` — `Glu_alloc(LUSUP)`: per-slot bump allocation WITHOUT a bounds check.
  * `bumpChecked` — `Glu_alloc(UCOL|USUB|LSUB)`: global bump allocation that aborts on overflow.
-/
namespace Slu

/-- start offsets of consecutive slots with the given capacities, and the total -/
def slotStarts : List Nat → Nat → List Nat
  | [], _ => []
  | c :: cs, base => base :: slotStarts cs (base + c)

def totalCap (caps : List Nat) : Nat := caps.sum

/-- bump allocation inside one slot: request `num` words when `next` is the next free offset;
returns the extent start (`*prev_next`) and the new `next` — no check, as in the C code -/
def bumpSlot (next num : Nat) : Nat × Nat := (next, next + num)

/-- extents handed out for a request sequence starting at `start` -/
def bumpExtents : List Nat → Nat → List (Nat × Nat)
  | [], _ => []
  | r :: rs, next => (next, r) :: bumpExtents rs (next + r)

/-- `Glu_alloc` for UCOL/USUB/LSUB: abort (none) when the request does not fit in `maxLen` -/
def bumpChecked (next num maxLen : Nat) : Option (Nat × Nat) :=
  if next + num > maxLen then none else some (next, next + num)

end Slu

namespace Slu

/-! ### the dynamic L-supernode storage scheme (`DynamicSetMap` + `Glu_alloc(LUSUP)`, `SRC/pmemory.c`)

`DynamicSetMap(jcol, num)` sets `map_in_sup[jcol] = nextlu` and advances `nextlu` by `num` (under `LULOCK`); `Glu_alloc(.., LUSUP, ..)` for a
column whose H-supernode leader is `l` returns `map_in_sup[l]` and advances it by the request, with no check against the reservation.
The slot list is the model's record of the reservations made so far (`used` = how far `map_in_sup[l]` has moved). -/

structure DSlot where
  leader : Nat
  start : Nat
  cap : Nat
  used : Nat
  deriving Repr, DecidableEq

structure DState where
  next : Nat                 -- `Glu->nextlu`
  slots : List DSlot
  deriving Repr, DecidableEq

inductive DEv where
  | reserve (leader cap : Nat)     -- DynamicSetMap(leader, cap)
  | alloc (leader num : Nat)       -- Glu_alloc(.., num, LUSUP, ..) for a column of that H-supernode
  deriving Repr, DecidableEq

def bumpUsed (l n : Nat) (t : DSlot) : DSlot := if t.leader = l then { t with used := t.used + n } else t

/-- one event; an allocation returns the extent (start, length) handed out -/
def dstep (st : DState) : DEv → DState × Option (Nat × Nat)
  | .reserve l c => ({ next := st.next + c, slots := st.slots ++ [{ leader := l, start := st.next, cap := c, used := 0 }] }, none)
  | .alloc l n =>
    match st.slots.find? (fun t => t.leader = l) with
    | none => (st, none)
    | some s => ({ st with slots := st.slots.map (bumpUsed l n) }, some (s.start + s.used, n))

def drun : DState → List DEv → List (Option (Nat × Nat))
  | _, [] => []
  | st, e :: es => (dstep st e).2 :: drun (dstep st e).1 es

def dfinal : DState → List DEv → DState
  | st, [] => st
  | st, e :: es => dfinal (dstep st e).1 es

end Slu
