/-
Complex-precision judges by real embedding: a complex matrix `R + iI` is the real `2n × 2n` matrix `[[R, −I], [I, R]]`;
products, sums and permutations commute with the embedding, so the verified real checkers (Model/Check.lean) applied to the
embedded operands decide the componentwise complex statements — real and imaginary parts separately:
    |Re(A − L·U)| ≤ γ·(|Re L||Re U| + |Im L||Im U|),   |Im(A − L·U)| ≤ γ·(|Re L||Im U| + |Im L||Re U|)
(entries permuted as in the real case).  Props/CheckersC.lean proves that this is exactly what the embedded check says.
-/
import SluVerif.Model.Check
namespace Slu

/-- `[[R, −I], [I, R]]` -/
def embedM (n : Nat) (R I : Mat) : Mat := fun i j =>
  if i < n then (if j < n then R i j else -(I i (j - n)))
  else (if j < n then I (i - n) j else R (i - n) (j - n))

/-- a permutation of `0..n-1` acting on both halves -/
def embedP (n : Nat) (p : Nat → Nat) : Nat → Nat := fun i => if i < n then p i else n + p (i - n)

/-- `[x_re; x_im]` -/
def embedV (n : Nat) (r i : Vec) : Vec := fun k => if k < n then r k else i (k - n)

/-- complex C02 judge -/
def cCheckLU (n : Nat) (Are Aim Lre Lim Ure Uim : Mat) (pr pc : Nat → Nat) (num den : Int) : Bool :=
  checkLU (2 * n) (embedM n Are Aim) (embedM n Lre Lim) (embedM n Ure Uim) (embedP n pr) (embedP n pc) num den

end Slu
