/- The DOCUMENTED argument contracts of the eight routine families of property C15, transcribed BY HAND from the
   "Arguments" section of each routine's header comment in /repo/SRC (pdgssv.c, pdgssvx.c, dgstrs.c, dgsrfs.c,
   dgscon.c, dgsequ.c, dsp_blas2.c and their s/c/z twins).  Nothing here is derived from the code.

   For every routine: one entry `(i, violated?)` per documented argument position `i` (1-based position in the C
   parameter list — the number `xerbla_` is documented to report), in increasing order;
   `docInfo = firstOffender table` = −(least violated position), 0 if none.

   Reading conventions (each applied uniformly; see REPORT_C15.md):
   * `dt` is the routine's own precision tag.  The s/c/z headers of the drivers, ?gstrs and ?gsrfs say
     "Dtype = _D" (text copied from the d file); that is read as "the Dtype of this precision".
   * a header that gives the legal values of an enumerated / character option documents that every other value is
     illegal.  Character options are case-insensitive (the sp_?trsv header says "'U' or 'u'"; ?gscon lists only
     upper case — LAPACK convention, `lsame_`).
   * where a header says "X has types: Stype = .., Dtype = .., Mtype = .." that is a requirement on argument X.
   * sizes: "A->nrow = A->ncol" is explicit for the drivers.  Non-negative sizes, squareness of the factors L and
     U, and "the leading dimension can hold the rows" are NOT written in the headers; they are the usual
     storage-consistency requirements, and are entered under the position of the object they constrain, with the
     bound the routine family uses (LDB ≥ max(1,n) for p?gssv, ≥ max(0,n) elsewhere).  The headers say nothing
     that these entries could contradict; what the table fixes for them is the POSITION that must be reported.
   * the sp_?trsv header says L has "Stype = SC"; no routine of this library produces SC (pxgstrf produces SCP and
     the body casts `L->Store` to `SCPformat*`), so it is read as SCP.  (The code checks neither, see Props/C15.)
   * superlumt_options is ONE argument (position 2 of p?gssvx): an illegal value of any of its documented discrete
     fields (fact, trans, refact, usepr) or `lwork < -1` violates position 2.  The documented ranges of the
     floating-point fields (0 ≤ diag_pivot_thresh ≤ 1, 0 ≤ drop_tol ≤ 1) are outside property C15's list and are
     not part of the table (the code does not validate them either; reported, not modelled). -/
import SluVerif.Gen.ArgCheck
namespace Slu.Doc
open Slu.Arg Slu.Gen

/-- some entry among the first `n` of `xs` is ≤ 0 ("each element of R must be positive", R of dimension n) -/
def someNonPos (xs : List Int) (n : Int) : Bool := (xs.take n.toNat).any (fun x => decide (x ≤ 0))

/-- character option `c` is `k` (upper case letter code) in either case -/
def isLetter (c k : Int) : Bool := decide (c = k ∨ c = k + 32)

/-! ### p?gssv (nprocs, A, perm_c, perm_r, L, U, B, info) -/
namespace gssv
/-- 1 nprocs: "Number of processes (or threads) to be spawned" -/
def violates_1 (a : GssvArgs) : Bool := decide (a.nprocs ≤ 0)
/-- 2 A: "of dimension (A->nrow, A->ncol), where A->nrow = A->ncol ... Stype = NC or NR; Dtype = _D; Mtype = GE" -/
def violates_2 (dt : Int) (a : GssvArgs) : Bool :=
  decide (a.A_nrow ≠ a.A_ncol ∨ a.A_nrow < 0 ∨ ¬(a.A_Stype = SLU_NC ∨ a.A_Stype = SLU_NR) ∨ a.A_Dtype ≠ dt ∨ a.A_Mtype ≠ SLU_GE)
/-- 7 B: "B has types: Stype = DN, Dtype = _D, Mtype = GE.  On entry, the right hand side matrix." -/
def violates_7 (dt : Int) (a : GssvArgs) : Bool :=
  decide (a.B_Stype ≠ SLU_DN ∨ a.B_Dtype ≠ dt ∨ a.B_Mtype ≠ SLU_GE ∨ a.B_ncol < 0 ∨ a.B_lda < max 1 a.A_nrow)
/-- perm_c (3), perm_r (4), L (5), U (6): outputs / permutation contents — no requirement that can be tested
    from the argument record -/
def table (dt : Int) (a : GssvArgs) : List (Nat × Bool) :=
  [(1, violates_1 a), (2, violates_2 dt a), (3, false), (4, false), (5, false), (6, false), (7, violates_7 dt a)]
def docInfo (dt : Int) (a : GssvArgs) : Int := firstOffender (table dt a)
def valid (dt : Int) (a : GssvArgs) : Bool := allValid (table dt a)
end gssv

/-! ### p?gssvx (nprocs, superlumt_options, A, perm_c, perm_r, equed, R, C, L, U, B, X,
                 recip_pivot_growth, rcond, ferr, berr, superlu_memusage, info) -/
namespace gssvx
def violates_1 (a : GssvxArgs) : Bool := decide (a.nprocs ≤ 0)
/-- 2 superlumt_options: fact = DOFACT | EQUILIBRATE | FACTORED; trans = NOTRANS | TRANS | CONJ;
    refact = NO | YES; usepr = YES | NO; lwork = 0 | > 0 | -1 -/
def violates_2 (a : GssvxArgs) : Bool :=
  decide (¬(a.superlumt_options_fact = DOFACT ∨ a.superlumt_options_fact = EQUILIBRATE ∨ a.superlumt_options_fact = FACTORED)
        ∨ ¬(a.superlumt_options_trans = NOTRANS ∨ a.superlumt_options_trans = TRANS ∨ a.superlumt_options_trans = CONJ)
        ∨ ¬(a.superlumt_options_refact = NO ∨ a.superlumt_options_refact = YES)
        ∨ ¬(a.superlumt_options_usepr = YES ∨ a.superlumt_options_usepr = NO)
        ∨ a.superlumt_options_lwork < -1)
/-- 3 A: "A->nrow = A->ncol ... Stype = NC or NR, Dtype = _D, Mtype = GE" -/
def violates_3 (dt : Int) (a : GssvxArgs) : Bool :=
  decide (a.A_nrow ≠ a.A_ncol ∨ a.A_nrow < 0 ∨ ¬(a.A_Stype = SLU_NC ∨ a.A_Stype = SLU_NR) ∨ a.A_Dtype ≠ dt ∨ a.A_Mtype ≠ SLU_GE)
/-- 6 equed: "= NOEQUIL | ROW | COL | BOTH.  If superlumt_options->fact = FACTORED, equed is an input argument,
    otherwise it is an output argument." -/
def violates_6 (a : GssvxArgs) : Bool :=
  decide (a.superlumt_options_fact = FACTORED ∧ ¬(a.equed = NOEQUIL ∨ a.equed = ROW ∨ a.equed = COL ∨ a.equed = BOTH))
/-- 7 R: "dimension (A->nrow) ... If fact = FACTORED and equed = ROW or BOTH, each element of R must be positive." -/
def violates_7 (a : GssvxArgs) : Bool :=
  decide (a.superlumt_options_fact = FACTORED ∧ (a.equed = ROW ∨ a.equed = BOTH)) && someNonPos a.R a.A_nrow
/-- 8 C: "dimension (A->ncol) ... If fact = FACTORED and equed = COL or BOTH, each element of C must be positive." -/
def violates_8 (a : GssvxArgs) : Bool :=
  decide (a.superlumt_options_fact = FACTORED ∧ (a.equed = COL ∨ a.equed = BOTH)) && someNonPos a.C a.A_ncol
/-- 11 B: "B has types: Stype = DN, Dtype = _D, Mtype = GE.  On entry, the right hand side matrix." -/
def violates_11 (dt : Int) (a : GssvxArgs) : Bool :=
  decide (a.B_Stype ≠ SLU_DN ∨ a.B_Dtype ≠ dt ∨ a.B_Mtype ≠ SLU_GE ∨ a.B_ncol < 0 ∨ a.B_lda < max 0 a.A_nrow)
/-- 12 X: "X has types: Stype = DN, Dtype = _D, Mtype = GE ... the solution matrix" (one column per column of B) -/
def violates_12 (dt : Int) (a : GssvxArgs) : Bool :=
  decide (a.X_Stype ≠ SLU_DN ∨ a.X_Dtype ≠ dt ∨ a.X_Mtype ≠ SLU_GE ∨ a.X_ncol < 0 ∨ a.X_lda < max 0 a.A_nrow ∨ a.X_ncol ≠ a.B_ncol)
/-- perm_c 4, perm_r 5, L 9, U 10: contents only; 13..17 are outputs -/
def table (dt : Int) (a : GssvxArgs) : List (Nat × Bool) :=
  [(1, violates_1 a), (2, violates_2 a), (3, violates_3 dt a), (4, false), (5, false), (6, violates_6 a),
   (7, violates_7 a), (8, violates_8 a), (9, false), (10, false), (11, violates_11 dt a), (12, violates_12 dt a),
   (13, false), (14, false), (15, false), (16, false), (17, false)]
def docInfo (dt : Int) (a : GssvxArgs) : Int := firstOffender (table dt a)
def valid (dt : Int) (a : GssvxArgs) : Bool := allValid (table dt a)
end gssvx

/-! ### ?gstrs (trans, L, U, perm_r, perm_c, B, Gstat, info) -/
namespace gstrs
/-- 1 trans.  s/d header (since /repo 2acf694): "= NOTRANS: A * X = B; = TRANS: A'* X = B; = CONJ: A**H * X = B";
    the c/z header still lists NOTRANS and TRANS only.  `docConj` = "this precision's header lists CONJ". -/
def violates_1 (docConj : Bool) (a : GstrsArgs) : Bool :=
  decide (¬(a.trans = NOTRANS ∨ a.trans = TRANS ∨ (docConj = true ∧ a.trans = CONJ)))
/-- 2 L: "L has types: Stype = SCP, Dtype = _D, Mtype = TRLU" (square factor) -/
def shape_2 (a : GstrsArgs) : Bool := decide (a.L_nrow ≠ a.L_ncol ∨ a.L_nrow < 0)
def types_2 (dt : Int) (a : GstrsArgs) : Bool := decide (a.L_Stype ≠ SLU_SCP ∨ a.L_Dtype ≠ dt ∨ a.L_Mtype ≠ SLU_TRLU)
def violates_2 (dt : Int) (a : GstrsArgs) : Bool := shape_2 a || types_2 dt a
/-- 3 U: "U has types: Stype = NCP, Dtype = _D, Mtype = TRU" -/
def shape_3 (a : GstrsArgs) : Bool := decide (a.U_nrow ≠ a.U_ncol ∨ a.U_nrow < 0)
def types_3 (dt : Int) (a : GstrsArgs) : Bool := decide (a.U_Stype ≠ SLU_NCP ∨ a.U_Dtype ≠ dt ∨ a.U_Mtype ≠ SLU_TRU)
def violates_3 (dt : Int) (a : GstrsArgs) : Bool := shape_3 a || types_3 dt a
/-- 6 B: "B has types: Stype = DN, Dtype = _D, Mtype = GE.  On entry, the right hand side matrix." -/
def shape_6 (a : GstrsArgs) : Bool := decide (a.B_lda < max 0 a.L_nrow)
def types_6 (dt : Int) (a : GstrsArgs) : Bool := decide (a.B_Stype ≠ SLU_DN ∨ a.B_Dtype ≠ dt ∨ a.B_Mtype ≠ SLU_GE)
def violates_6 (dt : Int) (a : GstrsArgs) : Bool := shape_6 a || types_6 dt a
def table (docConj : Bool) (dt : Int) (a : GstrsArgs) : List (Nat × Bool) :=
  [(1, violates_1 docConj a), (2, violates_2 dt a), (3, violates_3 dt a), (4, false), (5, false), (6, violates_6 dt a), (7, false)]
def docInfo (docConj : Bool) (dt : Int) (a : GstrsArgs) : Int := firstOffender (table docConj dt a)
def valid (docConj : Bool) (dt : Int) (a : GstrsArgs) : Bool := allValid (table docConj dt a)
end gstrs

/-! ### ?gsrfs (trans, A, L, U, perm_r, perm_c, equed, R, C, B, X, ferr, berr, Gstat, info) -/
namespace gsrfs
/-- 1 trans: "= NOTRANS | TRANS | CONJ" -/
def violates_1 (a : GsrfsArgs) : Bool := decide (¬(a.trans = NOTRANS ∨ a.trans = TRANS ∨ a.trans = CONJ))
/-- 2 A: "The type of A can be: Stype = NC, Dtype = _D, Mtype = GE." (the original square matrix) -/
def violates_2 (dt : Int) (a : GsrfsArgs) : Bool :=
  decide (a.A_nrow ≠ a.A_ncol ∨ a.A_nrow < 0 ∨ a.A_Stype ≠ SLU_NC ∨ a.A_Dtype ≠ dt ∨ a.A_Mtype ≠ SLU_GE)
/-- 3 L: "L has types: Stype = SCP, Dtype = _D, Mtype = TRLU" -/
def violates_3 (dt : Int) (a : GsrfsArgs) : Bool :=
  decide (a.L_nrow ≠ a.L_ncol ∨ a.L_nrow < 0 ∨ a.L_Stype ≠ SLU_SCP ∨ a.L_Dtype ≠ dt ∨ a.L_Mtype ≠ SLU_TRLU)
/-- 4 U: "U has types: Stype = NCP, Dtype = _D, Mtype = TRU" -/
def violates_4 (dt : Int) (a : GsrfsArgs) : Bool :=
  decide (a.U_nrow ≠ a.U_ncol ∨ a.U_nrow < 0 ∨ a.U_Stype ≠ SLU_NCP ∨ a.U_Dtype ≠ dt ∨ a.U_Mtype ≠ SLU_TRU)
/-- 7 equed: "(input) equed_t ... = NOEQUIL | ROW | COL | BOTH" -/
def violates_7 (a : GsrfsArgs) : Bool := decide (¬(a.equed = NOEQUIL ∨ a.equed = ROW ∨ a.equed = COL ∨ a.equed = BOTH))
/-- 10 B: "B has types: Stype = DN, Dtype = _D, Mtype = GE." -/
def violates_10 (dt : Int) (a : GsrfsArgs) : Bool :=
  decide (a.B_lda < max 0 a.A_nrow ∨ a.B_Stype ≠ SLU_DN ∨ a.B_Dtype ≠ dt ∨ a.B_Mtype ≠ SLU_GE)
/-- 11 X: "X has types: Stype = DN, Dtype = _D, Mtype = GE." -/
def violates_11 (dt : Int) (a : GsrfsArgs) : Bool :=
  decide (a.X_lda < max 0 a.A_nrow ∨ a.X_Stype ≠ SLU_DN ∨ a.X_Dtype ≠ dt ∨ a.X_Mtype ≠ SLU_GE)
def table (dt : Int) (a : GsrfsArgs) : List (Nat × Bool) :=
  [(1, violates_1 a), (2, violates_2 dt a), (3, violates_3 dt a), (4, violates_4 dt a), (5, false), (6, false),
   (7, violates_7 a), (8, false), (9, false), (10, violates_10 dt a), (11, violates_11 dt a), (12, false), (13, false), (14, false)]
def docInfo (dt : Int) (a : GsrfsArgs) : Int := firstOffender (table dt a)
def valid (dt : Int) (a : GsrfsArgs) : Bool := allValid (table dt a)
end gsrfs

/-! ### ?gscon (norm, L, U, anorm, rcond, info) -/
namespace gscon
/-- 1 NORM: "= '1' or 'O': 1-norm; = 'I': Infinity-norm" -/
def violates_1 (a : GsconArgs) : Bool := !(decide (a.norm = 49) || isLetter a.norm 79 || isLetter a.norm 73)
/-- 2 L: "L has types: Stype = SLU_SCP, Dtype = SLU_D, Mtype = SLU_TRLU" -/
def violates_2 (dt : Int) (a : GsconArgs) : Bool :=
  decide (a.L_nrow < 0 ∨ a.L_nrow ≠ a.L_ncol ∨ a.L_Stype ≠ SLU_SCP ∨ a.L_Dtype ≠ dt ∨ a.L_Mtype ≠ SLU_TRLU)
/-- 3 U: "U has types: Stype = SLU_NCP, Dtype = SLU_D, Mtype = SLU_TRU" -/
def violates_3 (dt : Int) (a : GsconArgs) : Bool :=
  decide (a.U_nrow < 0 ∨ a.U_nrow ≠ a.U_ncol ∨ a.U_Stype ≠ SLU_NCP ∨ a.U_Dtype ≠ dt ∨ a.U_Mtype ≠ SLU_TRU)
def table (dt : Int) (a : GsconArgs) : List (Nat × Bool) :=
  [(1, violates_1 a), (2, violates_2 dt a), (3, violates_3 dt a), (4, false), (5, false)]
def docInfo (dt : Int) (a : GsconArgs) : Int := firstOffender (table dt a)
def valid (dt : Int) (a : GsconArgs) : Bool := allValid (table dt a)
end gscon

/-! ### ?gsequ (A, r, c, rowcnd, colcnd, amax, info) -/
namespace gsequ
/-- 1 A: "The matrix of dimension (A->nrow, A->ncol) ... Stype = SLU_NC; Dtype = SLU_D; Mtype = SLU_GE." (M-by-N) -/
def violates_1 (dt : Int) (a : GsequArgs) : Bool :=
  decide (a.A_nrow < 0 ∨ a.A_ncol < 0 ∨ a.A_Stype ≠ SLU_NC ∨ a.A_Dtype ≠ dt ∨ a.A_Mtype ≠ SLU_GE)
def table (dt : Int) (a : GsequArgs) : List (Nat × Bool) :=
  [(1, violates_1 dt a), (2, false), (3, false), (4, false), (5, false), (6, false)]
def docInfo (dt : Int) (a : GsequArgs) : Int := firstOffender (table dt a)
def valid (dt : Int) (a : GsequArgs) : Bool := allValid (table dt a)
end gsequ

/-! ### sp_?trsv (uplo, trans, diag, L, U, x, info) -/
namespace trsv
/-- 1 uplo: "'U' or 'u' ... 'L' or 'l'" -/
def violates_1 (a : TrsvArgs) : Bool := !(isLetter a.uplo 85 || isLetter a.uplo 76)
/-- 2 trans: "'N' or 'n' A*x = b; 'T' or 't' A'*x = b; 'C' or 'c' A'*x = b (A^H*x = b in c/z)" -/
def violates_2 (a : TrsvArgs) : Bool := !(isLetter a.trans 78 || isLetter a.trans 84 || isLetter a.trans 67)
/-- 3 diag: "'U' or 'u' ... 'N' or 'n'" -/
def violates_3 (a : TrsvArgs) : Bool := !(isLetter a.diag 85 || isLetter a.diag 78)
/-- 4 L: "L has types: Stype = SC[P], Dtype = _D, Mtype = TRLU" -/
def shape_4 (a : TrsvArgs) : Bool := decide (a.L_nrow ≠ a.L_ncol ∨ a.L_nrow < 0)
def types_4 (dt : Int) (a : TrsvArgs) : Bool := decide (a.L_Stype ≠ SLU_SCP ∨ a.L_Dtype ≠ dt ∨ a.L_Mtype ≠ SLU_TRLU)
def violates_4 (dt : Int) (a : TrsvArgs) : Bool := shape_4 a || types_4 dt a
/-- 5 U: "U has types: Stype = NCP, Dtype = _D, Mtype = TRU" -/
def shape_5 (a : TrsvArgs) : Bool := decide (a.U_nrow ≠ a.U_ncol ∨ a.U_nrow < 0)
def types_5 (dt : Int) (a : TrsvArgs) : Bool := decide (a.U_Stype ≠ SLU_NCP ∨ a.U_Dtype ≠ dt ∨ a.U_Mtype ≠ SLU_TRU)
def violates_5 (dt : Int) (a : TrsvArgs) : Bool := shape_5 a || types_5 dt a
def table (dt : Int) (a : TrsvArgs) : List (Nat × Bool) :=
  [(1, violates_1 a), (2, violates_2 a), (3, violates_3 a), (4, violates_4 dt a), (5, violates_5 dt a), (6, false)]
def docInfo (dt : Int) (a : TrsvArgs) : Int := firstOffender (table dt a)
def valid (dt : Int) (a : TrsvArgs) : Bool := allValid (table dt a)
end trsv

/-! ### sp_?gemv (trans, alpha, A, x, incx, beta, y, incy) — no info argument: the position goes to xerbla_ only -/
namespace gemv
/-- 1 TRANS: "'N' or 'n' | 'T' or 't' | 'C' or 'c'" -/
def violates_1 (a : GemvArgs) : Bool := !(isLetter a.trans 78 || isLetter a.trans 84 || isLetter a.trans 67)
/-- 3 A: "of dimension (A->nrow, A->ncol).  Currently, the type of A can be: Stype = NC or NCP; Dtype = SLU_D; Mtype = GE." -/
def shape_3 (a : GemvArgs) : Bool := decide (a.A_nrow < 0 ∨ a.A_ncol < 0)
def types_3 (dt : Int) (a : GemvArgs) : Bool := decide (¬(a.A_Stype = SLU_NC ∨ a.A_Stype = SLU_NCP) ∨ a.A_Dtype ≠ dt ∨ a.A_Mtype ≠ SLU_GE)
def violates_3 (dt : Int) (a : GemvArgs) : Bool := shape_3 a || types_3 dt a
/-- 5 INCX: "INCX must not be zero." -/
def violates_5 (a : GemvArgs) : Bool := decide (a.incx = 0)
/-- 8 INCY: "INCY must not be zero." -/
def violates_8 (a : GemvArgs) : Bool := decide (a.incy = 0)
def table (dt : Int) (a : GemvArgs) : List (Nat × Bool) :=
  [(1, violates_1 a), (2, false), (3, violates_3 dt a), (4, false), (5, violates_5 a), (6, false), (7, false), (8, violates_8 a)]
def docInfo (dt : Int) (a : GemvArgs) : Int := firstOffender (table dt a)
def valid (dt : Int) (a : GemvArgs) : Bool := allValid (table dt a)
end gemv

end Slu.Doc
