/-
M-Sched, system level: `P` workers running the main loop of `p?gstrf_thread` against the shared
scheduler state, at panel granularity.

Worker program (SRC/pdgstrf_thread.c:204-420):
    while (tasks_remain > 0) {             -- read outside the lock: event `loop`
        scheduler(&jcol, &bcol);           -- one critical section: event `sched`
        if (jcol != EMPTY) { factor panel jcol (waiting on its busy-descendant chain); STATE(jcol) = DONE }
    }                                      -- event `finish` (enabled when the chain is released), `exit`
The C variable `jcol` persists across iterations: a finished panel is reported to the scheduler at
the *next* call.  A regular panel waits for every column on the etree path from `bcol` up to its own
first column (`panel_bmod` climbs `kcol = etree[kcol]` and spins on each); a relaxed supernode waits
for nothing.  Release is modelled per panel (the code releases column by column, which only makes
waiters proceed earlier).
-/
import SluVerif.Model.Sched
namespace Slu
open Slu.Gen

inductive Phase where
  | head                     -- at the loop head, about to read tasks_remain
  | calling                  -- read tasks_remain > 0, about to enter the scheduler
  | working (p : Nat) (bcol : Nat)
  | exited
  deriving Repr, DecidableEq

structure Worker where
  cur : Option Nat           -- C variable `jcol`: last panel handed out (reported at the next call)
  phase : Phase
  lastB : Int := -1          -- C variable `bcol` (only written when a panel is handed out)
  deriving Repr, DecidableEq

/-- what reading a non-existent worker slot yields (never enabled) -/
def dfltW : Worker := ⟨none, .exited, -1⟩

structure Sys where
  sh : Sh
  ws : Array Worker
  deriving Repr, DecidableEq

inductive Ev where
  | loop (w : Nat)           -- evaluate `tasks_remain > 0`
  | sched (w : Nat)          -- the scheduler critical section
  | finish (w : Nat)         -- panel done: release columns, STATE = DONE
  deriving Repr, DecidableEq

def sysInit (c : PanelCfg) (nw : Nat) : Sys :=
  { sh := parallelInit c, ws := Array.replicate nw { cur := none, phase := .head } }

/-- columns a regular panel `p` waits for, given `bcol`: the etree path bcol, etree[bcol], … below p -/
def waitChain (c : PanelCfg) (p : Nat) : Nat → Nat → List Nat
  | 0, _ => []
  | fuel + 1, k => if k < p then k :: waitChain c p fuel (getN c.etree k) else []

def chainReleased (c : PanelCfg) (sh : Sh) (p bcol : Nat) : Bool :=
  if getN sh.typ p == RELAXED_SNODE then true
  else (waitChain c p (c.n + 1) bcol).all fun k => getN sh.spin k == 0

def enabled (c : PanelCfg) (s : Sys) : Ev → Bool
  | .loop w => match (s.ws.getD w dfltW).phase with | .head => true | _ => false
  | .sched w => match (s.ws.getD w dfltW).phase with | .calling => true | _ => false
  | .finish w => match (s.ws.getD w dfltW).phase with
      | .working p b => chainReleased c s.sh p b
      | _ => false

def step (c : PanelCfg) (s : Sys) (e : Ev) : Sys :=
  if !enabled c s e then s else
  match e with
  | .loop w =>
    let wk := s.ws.getD w dfltW
    { s with ws := s.ws.setIfInBounds w { wk with phase := if s.sh.tasksRemain > 0 then .calling else .exited } }
  | .sched w =>
    let wk := s.ws.getD w dfltW
    let (sh', got, b) := schedule c s.sh wk.cur 0
    let ph : Phase := match got with | some p => .working p b | none => .head
    let lb : Int := match got with | some _ => (b : Int) | none => wk.lastB
    { sh := sh', ws := s.ws.setIfInBounds w { cur := got, phase := ph, lastB := lb } }
  | .finish w =>
    let wk := s.ws.getD w dfltW
    match wk.phase with
    | .working p _ => { sh := finishPanel s.sh p, ws := s.ws.setIfInBounds w { wk with phase := .head } }
    | _ => s

def allEvents (nw : Nat) : List Ev :=
  (List.range nw).flatMap fun w => [Ev.loop w, Ev.sched w, Ev.finish w]

def enabledEvents (c : PanelCfg) (s : Sys) : List Ev := (allEvents s.ws.size).filter (enabled c s)

/-! ### monitors (the Boolean forms of the invariants proved in Props/C04.lean / C03.lean) -/

/-- leading columns of the panels, in order -/
def panelsOf (n : Nat) (sh : Sh) : List Nat := (List.range n).filter fun j => decide (getZ sh.size j > 0)

/-- the entries ever put into the task queue, in order -/
def qlist (sh : Sh) : List Nat := (List.range sh.tail).map (fun k => getN sh.queue k)

/-- Executable check of the state `ParallelInit` hands to the workers: sizes, queue cursors, the panel forest (`DADPANEL` strictly
increasing, parents of panels are panels), queue entries are distinct runnable panels, every panel untaken with a valid state,
`ukids` = number of child panels, runnable panels have no child panels, `tasks_remain` = number of panels, a root exists.
It is the hypothesis of the system-level theorems (Props/C04Global.lean) and is evaluated by the driver on every configuration
run through the real `ParallelInit`. -/
def initOk (c : PanelCfg) (sh : Sh) : Bool :=
  let P := panelsOf c.n sh
  let dad := dadPanel c sh
  decide (sh.state.size = c.n + 1) && decide (sh.ukids.size = c.n + 1) && decide (sh.queue.size = c.n)
  && decide (sh.head ≤ sh.tail) && decide (sh.count = ((sh.tail : Int) - (sh.head : Int)))
  && P.all (fun j => decide (j < dad j) && decide (dad j ≤ c.n))
  && P.all (fun p => !(decide (dad p < c.n)) || P.contains (dad p))
  && (List.range sh.tail).all (fun k => P.contains (getN sh.queue k) && (getN sh.state (getN sh.queue k) != UNREADY))
  && decide ((qlist sh).Nodup)
  && P.all (fun p => decide (BUSY < getN sh.state p) && decide (getN sh.state p ≤ UNREADY))
  && (c.n :: P).all (fun d => decide (getZ sh.ukids d = ((P.filter (fun q => dad q == d)).length : Int)))
  && P.all (fun d => (getN sh.state d == UNREADY) || P.all (fun q => dad q != d))
  && decide (sh.tasksRemain = (P.length : Int))
  && P.any (fun r => dad r == c.n)

/-- first column of the panel containing column `k` (`size[k] > 0` on a leading column, minus the offset otherwise) -/
def panOf (sh : Sh) (k : Nat) : Nat := if getZ sh.size k > 0 then k else k - (-(getZ sh.size k)).toNat
def widthOf (sh : Sh) (p : Nat) : Nat := (getZ sh.size p).toNat

/-- Second executable check of `ParallelInit`'s output (hypothesis of the progress theorem): the panels tile the columns, the
columns of a panel form an etree path that leaves the panel only through its last column, no column flag is set, `fb_cols[p] = p`,
and every panel without child panels is waiting in the queue. -/
def initOk2 (c : PanelCfg) (sh : Sh) : Bool :=
  let P := panelsOf c.n sh
  let pan := panOf sh
  let wd := widthOf sh
  decide (sh.spin.size = c.n) && decide (sh.fb.size = c.n + 1)
  && (List.range c.n).all (fun k => P.contains (pan k) && decide (pan k ≤ k) && decide (k < pan k + wd (pan k)))
  && P.all (fun p => (List.range' p (wd p)).all (fun k => pan k == p))
  && P.all (fun p => decide (0 < wd p) && decide (p + wd p ≤ c.n))
  && (List.range c.n).all (fun k => !(decide (k + 1 < pan k + wd (pan k))) ||
        (decide (pan k ≤ getN c.etree k) && decide (getN c.etree k < pan k + wd (pan k))))
  && (List.range c.n).all (fun k => getN sh.spin k == 0)
  && P.all (fun p => getN sh.fb p == p)
  && P.all (fun p => !(getZ sh.ukids p == 0) || (List.range sh.tail).any (fun k => decide (sh.head ≤ k) && (getN sh.queue k == p)))

def taken (sh : Sh) (p : Nat) : Bool := decide (getN sh.state p ≤ BUSY)

/-- tasks_remain = number of untaken panels -/
def monTasks (c : PanelCfg) (s : Sys) : Bool :=
  s.sh.tasksRemain == (((panelsOf c.n s.sh).filter fun p => !taken s.sh p).length : Int)

/-- queue bookkeeping: 0 ≤ head ≤ tail ≤ n, count = tail - head, entries are distinct panels -/
def monQueue (c : PanelCfg) (s : Sys) : Bool :=
  decide (s.sh.head ≤ s.sh.tail) && decide (s.sh.tail ≤ c.n) && s.sh.count == ((s.sh.tail - s.sh.head : Nat) : Int)
  && decide ((s.sh.queue.toList.take s.sh.tail).Nodup)
  && (s.sh.queue.toList.take s.sh.tail).all fun p => decide (getZ s.sh.size p > 0)

/-- each BUSY panel is held by exactly one worker and each worker holds a BUSY panel -/
def monOwners (c : PanelCfg) (s : Sys) : Bool :=
  let held := s.ws.toList.filterMap fun w => match w.phase with | .working p _ => some p | _ => none
  decide held.Nodup && held.all (fun p => getN s.sh.state p == BUSY)
  && (panelsOf c.n s.sh).all fun p => getN s.sh.state p != BUSY || held.contains p

/-- proper descendants (panels) of panel `p` that are not DONE-and-released -/
def isAncestorCol (c : PanelCfg) (a : Nat) : Nat → Nat → Bool
  | 0, _ => false
  | fuel + 1, k => if k == a then true else if k ≥ c.n then false else isAncestorCol c a fuel (getN c.etree k)

/-- pipeline rule at a hand-out: every proper descendant panel of `p` that is not finished is BUSY and
lies on the etree path from `bcol` to `p` (one chain), and every panel strictly below `bcol` in
`p`'s subtree ... is finished.  Checked for every worker in phase `working`. -/
def monPipeline (c : PanelCfg) (s : Sys) : Bool :=
  s.ws.toList.all fun w => match w.phase with
    | .working p b =>
      if getN s.sh.typ p == RELAXED_SNODE then true else
      let chain := waitChain c p (c.n + 1) b
      (panelsOf c.n s.sh).all fun q =>
        -- q a proper descendant panel of p (its first column's etree path reaches p's first column … )
        if q < p && isAncestorCol c p (c.n + 1) q && getN s.sh.state q != DONE then
          -- unfinished descendant: must be BUSY, and all its columns' path must be covered by the wait chain
          getN s.sh.state q == BUSY && chain.contains (q + (getZ s.sh.size q).toNat - 1)
        else true
    | _ => true

/-- nobody is stuck: while some panel is not DONE, some worker can finish its panel, or some worker that
is not working has a finished panel to report or would be handed a panel (empty polls do not count). -/
def monProgress (c : PanelCfg) (s : Sys) : Bool :=
  let allDone := (panelsOf c.n s.sh).all fun p => getN s.sh.state p == DONE
  allDone || s.ws.toList.any fun w => match w.phase with
    | .working p b => chainReleased c s.sh p b
    | .calling => w.cur.isSome || (schedule c s.sh w.cur 0).2.1.isSome
    | .head => decide (s.sh.tasksRemain > 0) && (w.cur.isSome || (schedule c s.sh w.cur 0).2.1.isSome)
    | .exited => false

def monAll (c : PanelCfg) (s : Sys) : List (String × Bool) :=
  [("tasks_remain_eq", monTasks c s), ("queue_bounded", monQueue c s), ("owners", monOwners c s),
   ("pipeline", monPipeline c s), ("progress", monProgress c s)]

end Slu
