/-
M-Equil: executable model of the equilibration routines of SuperLU_MT

  ?gsequ  (SRC/dgsequ.c and s/c/z twins)   row / column scale factors, ratios, amax, info
  ?laqgs  (SRC/dlaqgs.c and twins)         four-way decision and its effect on A, returned flag
  p?gssvx (SRC/pdgssvx.c:430-570,655-668)  the equilibration wiring of the expert driver
                                           (NR flip of `notran`, which of R / C scales B and X)

over exact rationals.  The machine constants (`smlnum bignum small large`) and the threshold are
parameters: the harness reads them from the library at run time.  The entry type is abstract
(`Entry`): real precisions use `Rat` with `|x|`, complex precisions use `Cx` with
`abs1 z = |re| + |im|` (SRC/dcomplex.c `z_abs1`) and the real-by-complex product `zd_mult`.

A compressed-column matrix is the list of its columns, each column the list of its stored
`(row index, value)` pairs in storage order (duplicates and explicit zeros allowed, exactly like the
`colptr/rowind/nzval` triple the C loops walk over).  No Mathlib.
-/
namespace Slu.Equil

/-- `SUPERLU_MAX(x,y) = ((x) > (y) ? (x) : (y))` (slu_mt_util.h). -/
@[inline] def rmax (a b : Rat) : Rat := if a > b then a else b
/-- `SUPERLU_MIN(x,y) = ((x) < (y) ? (x) : (y))`. -/
@[inline] def rmin (a b : Rat) : Rat := if a < b then a else b
/-- `fabs` / the sign flips of `z_abs1`. -/
@[inline] def rabs (x : Rat) : Rat := if x < 0 then -x else x

/-- what the routines need of a matrix entry: a magnitude and multiplication by a real scalar. -/
class Entry (E : Type) where
  mag : E → Rat
  smul : Rat → E → E

instance : Entry Rat where
  mag x := rabs x
  smul s x := x * s          -- `Aval[i] *= cj`

/-- complex entry `(re, im)`. -/
structure Cx where
  re : Rat
  im : Rat
deriving DecidableEq, Repr, Inhabited

instance : Entry Cx where
  mag z := rabs z.re + rabs z.im            -- z_abs1 / c_abs1
  smul s z := ⟨z.re * s, z.im * s⟩          -- zd_mult / cs_mult

open Entry

/-- compressed-column matrix: `nrow` and the columns in storage order. -/
structure SpMat (E : Type) where
  nrow : Nat
  cols : List (List (Nat × E))

namespace SpMat
variable {E : Type}
def ncol (A : SpMat E) : Nat := A.cols.length
/-- all row indices are in range (the C code indexes `r[irow]` unchecked). -/
def wf (A : SpMat E) : Bool := A.cols.all fun col => col.all fun e => decide (e.1 < A.nrow)
end SpMat

/-! ### ?gsequ -/

section gsequ
variable {E : Type} [Entry E]

/-- `r[irow] = SUPERLU_MAX(r[irow], |Aval[i]|)` -/
def rowMaxStep (r : List Rat) (e : Nat × E) : List Rat := r.modify e.1 (fun x => rmax x (mag e.2))

/-- first double loop of gsequ: `r := 0`, then every stored entry in storage order. -/
def rowMaxPass (A : SpMat E) : List Rat :=
  A.cols.foldl (fun r col => col.foldl rowMaxStep r) (List.replicate A.nrow 0)

/-- `rcmin = bignum; rcmax = 0; for i: rcmax = MAX(rcmax, v[i]); rcmin = MIN(rcmin, v[i])`
returns `(rcmin, rcmax)`. -/
def scanMinMax (big : Rat) (v : List Rat) : Rat × Rat :=
  v.foldl (fun (s : Rat × Rat) x => (rmin s.1 x, rmax s.2 x)) (big, 0)

/-- `for i: if (v[i] == 0.) return i` -/
def firstZero : List Rat → Option Nat
  | [] => none
  | x :: xs => if x == 0 then some 0 else (firstZero xs).map (· + 1)

/-- `1. / SUPERLU_MIN( SUPERLU_MAX( x, smlnum ), bignum )` -/
def clipInv (sml big x : Rat) : Rat := 1 / rmin (rmax x sml) big

/-- `c[j] = 0; for entries of column j: c[j] = MAX(c[j], |Aval[i]| * r[irow])` -/
def colMax (r : List Rat) (col : List (Nat × E)) : Rat :=
  col.foldl (fun c e => rmax c (mag e.2 * r.getD e.1 0)) 0

def colMaxPass (A : SpMat E) (r : List Rat) : List Rat := A.cols.map (colMax r)

/-- the output arguments of gsequ.  The model is a state transformer: whatever the routine does not
write keeps its value from the incoming state (the harness fills sentinels and checks them too). -/
structure GsState where
  r : List Rat
  c : List Rat
  rowcnd : Rat
  colcnd : Rat
  amax : Rat
  info : Int
deriving Repr, DecidableEq

/-- row half of gsequ (SRC/dgsequ.c:118-150): row maxima, `amax`, then either the early return
`*info = i+1` at the first zero row (second component `false`) or the inverted factors and `rowcnd`. -/
def gsequRowPart (sml big : Rat) (A : SpMat E) (s : GsState) : GsState × Bool :=
  let r1 := rowMaxPass A
  let mm := scanMinMax big r1
  let rcmin := mm.1
  let rcmax := mm.2
  let s1 : GsState := { s with r := r1, amax := rcmax, info := 0 }
  -- if (rcmin == 0.) { for i: if (r[i] == 0.) { *info = i+1; return; } }  (falls through if none found)
  let z : Option Nat := if rcmin == 0 then firstZero r1 else none
  match z with
  | some i => ({ s1 with info := (i : Int) + 1 }, false)
  | none =>
    -- else { invert the scale factors; rowcnd }
    if rcmin == 0 then (s1, true)
    else ({ s1 with r := r1.map (clipInv sml big), rowcnd := rmax rcmin sml / rmin rcmax big }, true)

/-- column half of gsequ (SRC/dgsequ.c:152-193): column maxima of `diag(R)*A` with the `r` just
computed, early return `*info = nrow + j + 1` at the first zero column, else inversion and `colcnd`. -/
def gsequColPart (sml big : Rat) (A : SpMat E) (s2 : GsState) : GsState :=
  let c1 := colMaxPass A s2.r
  let mm2 := scanMinMax big c1
  let ccmin := mm2.1
  let ccmax := mm2.2
  let s3 : GsState := { s2 with c := c1 }
  let z2 : Option Nat := if ccmin == 0 then firstZero c1 else none
  match z2 with
  | some j => { s3 with info := (A.nrow : Int) + (j : Int) + 1 }
  | none =>
    if ccmin == 0 then s3
    else { s3 with c := c1.map (clipInv sml big), colcnd := rmax ccmin sml / rmin ccmax big }

/-- `?gsequ(A, r, c, &rowcnd, &colcnd, &amax, &info)`.
`typeOk` = the test `Stype == SLU_NC && Dtype == ... && Mtype == SLU_GE` (nrow, ncol < 0 cannot be
expressed).  Statement order follows SRC/dgsequ.c:95-196. -/
def gsequ (typeOk : Bool) (sml big : Rat) (A : SpMat E) (s : GsState) : GsState :=
  -- *info = 0; if (bad type) *info = -1;  if (*info != 0) { xerbla; return; }
  if !typeOk then { s with info := -1 } else
  -- quick return
  if A.nrow == 0 || A.ncol == 0 then { s with rowcnd := 1, colcnd := 1, amax := 0, info := 0 } else
  let rp := gsequRowPart sml big A s
  if rp.2 then gsequColPart sml big A rp.1 else rp.1

end gsequ

/-! ### ?laqgs -/

/-- `equed_t` (slu_mt_util.h): `{NOEQUIL, ROW, COL, BOTH}` = 0..3. -/
inductive Equed where
  | noequil | row | col | both
deriving DecidableEq, Repr, Inhabited

namespace Equed
def code : Equed → Nat
  | noequil => 0 | row => 1 | col => 2 | both => 3
def ofCode : Nat → Equed
  | 1 => row | 2 => col | 3 => both | _ => noequil
/-- `rowequ = (*equed == ROW) || (*equed == BOTH)` -/
def rowequ : Equed → Bool
  | row => true | both => true | _ => false
/-- `colequ = (*equed == COL) || (*equed == BOTH)` -/
def colequ : Equed → Bool
  | col => true | both => true | _ => false
end Equed

section laqgs
variable {E : Type} [Entry E]

/-- apply `f j irow` to the stored value at row `irow` of column `j`: the loop nest
`for j: for i in colptr[j]..colptr[j+1]: Aval[i] = smul (f j rowind[i]) Aval[i]` -/
def scaleBy (A : SpMat E) (f : Nat → Nat → Rat) : SpMat E :=
  { A with cols := A.cols.mapIdx fun j col => col.map fun e => (e.1, smul (f j e.1) e.2) }

/-- the four-way decision of laqgs (SRC/dlaqgs.c:111-142), as the code nests its tests. -/
def laqgsFlag (small large thresh rowcnd colcnd amax : Rat) : Equed :=
  if rowcnd ≥ thresh && amax ≥ small && amax ≤ large then
    if colcnd ≥ thresh then .noequil else .col
  else if colcnd ≥ thresh then .row
  else .both

/-- `?laqgs(A, r, c, rowcnd, colcnd, amax, &equed)`: returns the new A and the flag. -/
def laqgs (small large thresh : Rat) (A : SpMat E) (r c : List Rat) (rowcnd colcnd amax : Rat) :
    SpMat E × Equed :=
  -- quick return: if (A->nrow <= 0 || A->ncol <= 0) { *equed = NOEQUIL; return; }
  if A.nrow == 0 || A.ncol == 0 then (A, .noequil) else
  if rowcnd ≥ thresh && amax ≥ small && amax ≤ large then
    if colcnd ≥ thresh then (A, .noequil)
    else (scaleBy A (fun j _ => c.getD j 0), .col)                  -- Aval[i] *= cj
  else if colcnd ≥ thresh then
    (scaleBy A (fun _ i => r.getD i 0), .row)                       -- Aval[i] *= r[irow]
  else
    (scaleBy A (fun j i => c.getD j 0 * r.getD i 0), .both)         -- Aval[i] *= cj * r[irow]

end laqgs

/-! ### expert driver: equilibration wiring -/

/-- machine parameters handed in by the harness. -/
structure Params where
  sml : Rat
  big : Rat
  small : Rat
  large : Rat
  thresh : Rat
deriving Repr

/-- which vector scales a dense block. -/
inductive Which where
  | none | byR | byC
deriving DecidableEq, Repr, Inhabited

/-- `trans_t`: NOTRANS = 0, TRANS = 1, CONJ = 2;  `fact_t`: DOFACT = 0, EQUILIBRATE = 1, FACTORED = 2 -/
abbrev TRANS_NOTRANS : Nat := 0
abbrev FACT_DOFACT : Nat := 0
abbrev FACT_EQUILIBRATE : Nat := 1
abbrev FACT_FACTORED : Nat := 2

/-- `notran` after the storage flip (pdgssvx.c:433 and 519-534): `notran = (trans == NOTRANS)`;
row-wise storage factors the transpose and reverses the flag. -/
def notranEff (nr : Bool) (trans : Nat) : Bool :=
  let notran := trans == TRANS_NOTRANS
  if nr then !notran else notran

/-- "Scale the right hand side" (pdgssvx.c:557-570):
`if (notran) { if (rowequ) B *= R } else if (colequ) B *= C`. -/
def bScale (notran rowequ colequ : Bool) : Which :=
  if notran then (if rowequ then .byR else .none) else if colequ then .byC else .none

/-- "Transform the solution matrix X" (pdgssvx.c:655-668):
`if (notran) { if (colequ) X *= C } else if (rowequ) X *= R`. -/
def xScale (notran rowequ colequ : Bool) : Which :=
  if notran then (if colequ then .byC else .none) else if rowequ then .byR else .none

section driver
variable {E : Type} [Entry E]

/-- `for j < nrhs: for i < nrow: M[i + j*ld] *= v[i]` on the list of right-hand-side columns. -/
def scaleDense (w : Which) (R C : List Rat) (B : List (List E)) : List (List E) :=
  match w with
  | .none => B
  | .byR => B.map fun col => col.mapIdx fun i x => smul (R.getD i 0) x
  | .byC => B.map fun col => col.mapIdx fun i x => smul (C.getD i 0) x

structure FrameOut (E : Type) where
  A : SpMat E          -- the NC view `AA` (A itself for NC storage, its transpose for NR storage)
  B : List (List E)
  R : List Rat
  C : List Rat
  equed : Equed
  rowequ : Bool
  colequ : Bool
  notran : Bool
  info1 : Int          -- gsequ's info (0 when gsequ is not called)
  xw : Which           -- what the final solution is multiplied by

/-- the equilibration frame of `p?gssvx` for a call that passes the argument checks.
`AA` is the compressed-column view the routine works on; `R C equedIn` the incoming values of the
in/out arguments; `rc0 cc0 am0` the (uninitialised) locals `rowcnd colcnd amax`. -/
def gssvxEquil (P : Params) (nr : Bool) (trans fact : Nat) (equedIn : Equed)
    (AA : SpMat E) (B : List (List E)) (R C : List Rat) (rc0 cc0 am0 : Rat) : FrameOut E :=
  let dofact := fact == FACT_DOFACT
  let equil := fact == FACT_EQUILIBRATE
  -- if (dofact || equil) { *equed = NOEQUIL; rowequ = colequ = FALSE } else { from *equed }
  let eq0 : Equed := if dofact || equil then .noequil else equedIn
  let notran := notranEff nr trans
  -- if (equil) { gsequ; if (info1 == 0) { laqgs; rowequ/colequ from *equed } }
  let st : SpMat E × GsState × Equed :=
    if equil then
      let g := gsequ true P.sml P.big AA
        { r := R, c := C, rowcnd := rc0, colcnd := cc0, amax := am0, info := 0 }
      if g.info == 0 then
        let l := laqgs P.small P.large P.thresh AA g.r g.c g.rowcnd g.colcnd g.amax
        (l.1, g, l.2)
      else (AA, g, eq0)
    else (AA, { r := R, c := C, rowcnd := rc0, colcnd := cc0, amax := am0, info := 0 }, eq0)
  let A1 := st.1
  let g := st.2.1
  let eq1 := st.2.2
  let rowequ := eq1.rowequ
  let colequ := eq1.colequ
  { A := A1, B := scaleDense (bScale notran rowequ colequ) g.r g.c B, R := g.r, C := g.c,
    equed := eq1, rowequ, colequ, notran, info1 := g.info, xw := xScale notran rowequ colequ }

end driver

end Slu.Equil
