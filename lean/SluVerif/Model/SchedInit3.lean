/- third executable check of `ParallelInit`'s output (hypothesis of the pipeline theorems): the etree is postordered
   (`etree[k] > k`) and a relaxed supernode has no child panel -/
import SluVerif.Model.SchedSys
namespace Slu
open Slu.Gen

def initOk3 (c : PanelCfg) (sh : Sh) : Bool :=
  let P := panelsOf c.n sh
  (List.range c.n).all (fun k => decide (k < getN c.etree k))
  && P.all (fun p => (getN sh.typ p != RELAXED_SNODE) || P.all (fun q => dadPanel c sh q != p))

end Slu
