/- third executable check of `ParallelInit`'s output (hypothesis of the pipeline theorems): the etree is postordered
   (`etree[k] > k`) and a relaxed supernode has no child panel -/
import SluVerif.Model.SchedSys
namespace Slu
open Slu.Gen

def initOk3 (c : PanelCfg) (sh : Sh) : Bool :=
  let P := panelsOf c.n sh
  (List.range c.n).all (fun k => decide (k < getN c.etree k))
  && P.all (fun p => (getN sh.typ p != RELAXED_SNODE) || P.all (fun q => dadPanel c sh q != p))

/-- executable form of `PostOrd` (Proofs/RelaxSnode.lean), the hypothesis of the `relaxSnode` theorems: parents strictly above
their children and inside [0, n]; evaluated by the driver on every configuration run through the real `pxgstrf_relax_snode` -/
def postOrdB (n : Nat) (etree : Array Nat) : Bool :=
  (List.range n).all (fun k => decide (k < getN etree k) && decide (getN etree k ≤ n))

end Slu
