/- Vocabulary shared by the GENERATED argument-check chains (Gen/ArgCheck.lean, written by gen/argcheck.py from
   /repo/SRC) and the hand-written documented tables (Model/ArgDoc.lean).  Mathlib-free, executable. -/

namespace Slu.Arg

/-- `lsame_` of SRC/lsame.c on an ASCII machine (`zcode == 90`): equal characters, or equal after folding
    `a..z` (97..122) to upper case.  Characters travel as their codes. -/
def upcase (c : Int) : Int := if 97 ≤ c ∧ c ≤ 122 then c - 32 else c

def lsame (ca cb : Int) : Bool := ca == cb || upcase ca == upcase cb

/-- `SUPERLU_MAX(x, y)  ( (x) > (y) ? (x) : (y) )` -/
def cmax (x y : Int) : Int := if x > y then x else y
/-- `SUPERLU_MIN(x, y)  ( (x) < (y) ? (x) : (y) )` -/
def cmin (x y : Int) : Int := if x < y then x else y

/-- `v = init; for (j = 0; j < bound; ++j) v = SUPERLU_MIN(v, xs[j]);`  The array is the list of the values
    the caller supplied; positions beyond its end are not read (the C loop would read past the array). -/
def loopMin (init : Int) (xs : List Int) (bound : Int) : Int :=
  (xs.take bound.toNat).foldl cmin init

def loopMax (init : Int) (xs : List Int) (bound : Int) : Int :=
  (xs.take bound.toNat).foldl cmax init

/-- documented tables: `firstOffender [(i₁, v₁), (i₂, v₂), …]` is `-iₖ` for the first `k` with `vₖ = true`,
    0 when no entry is violated.  Tables list positions in increasing order, so this is `-(least violated i)`. -/
def firstOffender : List (Nat × Bool) → Int
  | [] => 0
  | (i, v) :: rest => if v then -(i : Int) else firstOffender rest

/-- no documented requirement is violated -/
def allValid (t : List (Nat × Bool)) : Bool := t.all (fun p => !p.2)

end Slu.Arg
