/-
M-Rfs: iterative refinement and error bounds `?gsrfs` (SRC/dgsrfs.c, sgsrfs.c) over `Rat`, one right-hand
side at a time (the columns are independent in the C code).  The triangular solve `?gstrs(trans, ..)` is
a parameter `solve : Trans → RVec → RVec` (exact inverse in the theorems, dense exact solves in the driver).
Machine constants `eps`, `safmin` are parameters (read from ?lamch in the harness).
-/
import SluVerif.Model.Growth
namespace Slu

/-- `#define ITMAX 5` of dgsrfs.c -/
def rfsItmax : Nat := 5

structure RfsCfg where
  trans : Trans
  rowequ : Bool
  colequ : Bool
  R : RVec
  C : RVec
  eps : Rat
  safmin : Rat
  deriving Inhabited

def RfsCfg.notran (c : RfsCfg) : Bool := c.trans == .NOTRANS
/-- `transt`: the "other" sense handed to `?gstrs` for the `kase = 1` request -/
def RfsCfg.transt (c : RfsCfg) : Trans := if c.notran then .TRANS else .NOTRANS

/-- `fold (acc + g e)` over one column -/
def colFold (A : NCMat) (j : Nat) (g : Nat × Rat → Rat) (acc : Rat) : Rat := (A.col j).foldl (fun s e => s + g e) acc

/-- `(op(A) x)_i` by the sparse loops of `sp_?gemv`: `op = A` (column sweep, scatter to row `i`) when `notran`,
`op = Aᵀ` (dot product of column `i` with x) otherwise -/
def opMul (notran : Bool) (A : NCMat) (x : RVec) (i : Nat) : Rat :=
  if notran then (List.range A.ncol).foldl (fun s j => colFold A j (fun e => if e.1 = i then e.2 * rget x j else 0) s) 0
  else colFold A i (fun e => e.2 * rget x e.1) 0

/-- `(|op(A)| |x|)_i` by the loops of dgsrfs.c:291-306 -/
def opAbsMul (notran : Bool) (A : NCMat) (x : RVec) (i : Nat) : Rat :=
  if notran then (List.range A.ncol).foldl (fun s j => colFold A j (fun e => if e.1 = i then rabs e.2 * rabs (rget x j) else 0) s) 0
  else colFold A i (fun e => rabs e.2 * rabs (rget x e.1)) 0

/-- residual `work = B - op(A)·X`  (`dcopy` + `sp_dgemv(transc, -1, A, X, 1, 1, work, 1)`) -/
def residual (notran : Bool) (A : NCMat) (b x : RVec) : RVec := rmk A.nrow fun i => rget b i - opMul notran A x i
/-- `rwork = |B| + |op(A)||X|` -/
def denomVec (notran : Bool) (A : NCMat) (b x : RVec) : RVec := rmk A.nrow fun i => rabs (rget b i) + opAbsMul notran A x i

/-- the componentwise backward error with the `safe1` / `safe2` guards (dgsrfs.c:307-315) -/
def berrOf (n : Nat) (safe1 safe2 : Rat) (r den : RVec) : Rat :=
  (List.range n).foldl (fun s i =>
      if safe2 < rget den i then rmax s (rabs (rget r i) / rget den i)
      else if rget den i ≠ 0 then rmax s ((rabs (rget r i) + safe1) / rget den i)
      else s) 0

def safe1Of (A : NCMat) (c : RfsCfg) : Rat := ((A.ncol + 1 : Nat) : Rat) * c.safmin
def safe2Of (A : NCMat) (c : RfsCfg) : Rat := safe1Of A c / c.eps

/-- ω(x): the guarded componentwise backward error of `x` for `op(A) x = b` -/
def omega (A : NCMat) (c : RfsCfg) (b x : RVec) : Rat :=
  berrOf A.nrow (safe1Of A c) (safe2Of A c) (residual c.notran A b x) (denomVec c.notran A b x)

def vadd (n : Nat) (x d : RVec) : RVec := rmk n fun i => rget x i + rget d i
def vmul (n : Nat) (w x : RVec) : RVec := rmk n fun i => rget w i * rget x i

structure RefineRes where
  x : RVec
  berr : Rat
  count : Nat
  r : RVec            -- `work` on exit: the residual of the returned x
  deriving Inhabited

/-- the `while (1)` loop of dgsrfs.c:262-332 for one right-hand side -/
def refineLoop (A : NCMat) (c : RfsCfg) (solve : Trans → RVec → RVec) (b : RVec) (x : RVec) (lstres : Rat) (count : Nat) : RefineRes :=
  let r := residual c.notran A b x
  let berr := berrOf A.nrow (safe1Of A c) (safe2Of A c) r (denomVec c.notran A b x)
  if c.eps < berr ∧ berr * 2 ≤ lstres ∧ count < rfsItmax then
    refineLoop A c solve b (vadd A.nrow x (solve c.trans r)) berr (count + 1)
  else { x, berr, count, r }
termination_by rfsItmax - count
decreasing_by omega

/-- the sequence of `berr` values the loop evaluates (diagnostics for the correspondence check: decision margins) -/
def refineBerrs (A : NCMat) (c : RfsCfg) (solve : Trans → RVec → RVec) (b : RVec) (x : RVec) (lstres : Rat) (count : Nat) : List Rat :=
  let r := residual c.notran A b x
  let berr := berrOf A.nrow (safe1Of A c) (safe2Of A c) r (denomVec c.notran A b x)
  if c.eps < berr ∧ berr * 2 ≤ lstres ∧ count < rfsItmax then
    berr :: refineBerrs A c solve b (vadd A.nrow x (solve c.trans r)) berr (count + 1)
  else [berr]
termination_by rfsItmax - count
decreasing_by omega

/-- `iwork[i]`: number of stored entries in row `i` of `op(A)` -/
def nzCount (notran : Bool) (A : NCMat) (i : Nat) : Nat :=
  if notran then (List.range A.ncol).foldl (fun s j => s + ((A.col j).filter fun e => e.1 = i).length) 0
  else (A.col i).length

/-- `W = |r| + (iwork+1)·eps·(|op(A)||x|+|b|)  (+ safe1 when the bracket is ≤ safe2)`  (dgsrfs.c:375-380) -/
def wVec (A : NCMat) (c : RfsCfg) (b x r : RVec) : RVec :=
  let den := denomVec c.notran A b x
  rmk A.nrow fun i =>
    if safe2Of A c < rget den i then rabs (rget r i) + ((nzCount c.notran A i + 1 : Nat) : Rat) * c.eps * rget den i
    else rabs (rget r i) + ((nzCount c.notran A i + 1 : Nat) : Rat) * c.eps * rget den i + safe1Of A c

/-- the diagonal `D` applied around the solves: `C` if `notran ∧ colequ`, `R` if `¬notran ∧ rowequ`, else identity -/
def dVec (n : Nat) (c : RfsCfg) : RVec :=
  if c.notran && c.colequ then vcopy n c.C
  else if !c.notran && c.rowequ then vcopy n c.R
  else rmk n fun _ => 1

/-- `kase = 1`: `work := W ∘ solve(transt, D ∘ work)` -/
def ferrOp1 (n : Nat) (c : RfsCfg) (solve : Trans → RVec → RVec) (w : RVec) (x : RVec) : RVec :=
  vmul n w (solve c.transt (vmul n (dVec n c) x))
/-- `kase = 2`: `work := D ∘ solve(trans, W ∘ work)` -/
def ferrOp2 (n : Nat) (c : RfsCfg) (solve : Trans → RVec → RVec) (w : RVec) (x : RVec) : RVec :=
  vmul n (dVec n c) (solve c.trans (vmul n w x))

/-- `lstres = max_i D_i·|x_i|` -/
def xNormD (n : Nat) (c : RfsCfg) (x : RVec) : Rat :=
  (List.range n).foldl (fun m i => rmax m (rget (dVec n c) i * rabs (rget x i))) 0

structure RfsCol where
  x : RVec
  berr : Rat
  ferr : Rat
  count : Nat
  w : RVec
  deriving Inhabited

/-- one iteration of `for (j = 0; j < nrhs; ++j)` -/
def rfsColumn (A : NCMat) (c : RfsCfg) (solve : Trans → RVec → RVec) (b x0 : RVec) : RfsCol :=
  let n := A.nrow
  let rr := refineLoop A c solve b x0 3 0
  let w := wVec A c b rr.x rr.r
  let run := runLacon n (ferrOp1 n c solve w) (ferrOp2 n c solve w)
  let lstres := xNormD n c rr.x
  { x := rr.x, berr := rr.berr, count := rr.count, w,
    ferr := if lstres ≠ 0 then run.io.est / lstres else run.io.est }

structure RfsRes where
  info : Int
  cols : List RfsCol       -- refined columns (empty on quick return)
  ferr : List Rat
  berr : List Rat
  deriving Inhabited

/-- `?gsrfs` for well-formed arguments: quick return when `n = 0` or `nrhs = 0` (ferr = berr = 0), else column by column -/
def gsrfs (A : NCMat) (c : RfsCfg) (solve : Trans → RVec → RVec) (B X : List RVec) : RfsRes :=
  if A.nrow = 0 ∨ B.length = 0 then
    { info := 0, cols := [], ferr := B.map fun _ => 0, berr := B.map fun _ => 0 }
  else
    let cols := (B.zip X).map fun bx => rfsColumn A c solve bx.1 bx.2
    { info := 0, cols, ferr := cols.map (·.ferr), berr := cols.map (·.berr) }

end Slu
