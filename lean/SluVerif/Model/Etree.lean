/-
M-Etree: the preprocessing routines of SuperLU_MT as executable, total, Mathlib-free functions.

  SRC/sp_coletree.c : make_set / make_link / find (path halving), sp_coletree, sp_symetree,
                      TreePostorder + nr_etdfs (the NON-recursive walk that is compiled in)
  SRC/sp_colorder.c : sp_colorder (view of A*Pc, etree, postorder, relabel, perm_c := post ∘ perm_c)
  SRC/get_perm_c.c  : at_plus_a (needed by sp_colorder in SymmetricMode), getata (pattern of AᵀA,
                      only used as reference adjacency), the natural ordering (ispec = 0)
  SRC/qrnzcnt.c     : first pass (supernode partition `part_super_h` of the Householder matrix)
  SRC/cholnzcnt.c   : the part of the main loop that decides `part_super_L`

C `int_t` arrays of vertex numbers are `Array Nat` (the library's "no parent" value is `n`, its
"EMPTY = -1" sentinel is `none`).  Reads outside an array give 0 / `none`; the theorems carry the range
hypotheses under which no such read happens.  MMD and COLAMD are not modelled (see Props/C10).
-/
import SluVerif.Model.Perm
namespace Slu.Pre

@[inline] def getN (a : Array Nat) (i : Nat) : Nat := a.getD i 0
@[inline] def getO (a : Array (Option Nat)) (i : Nat) : Option Nat := a.getD i none

/-! ## TreePostorder (non-recursive) -/

/-- `for (v = n-1; v >= 0; v--) { dad = parent[v]; next_kid[v] = first_kid[dad]; first_kid[dad] = v; }`
`kidsLoop parent v` performs the iterations `v-1, v-2, .., 0`. -/
def kidsLoop (parent : Array Nat) : Nat → Array (Option Nat) × Array (Option Nat) → Array (Option Nat) × Array (Option Nat)
  | 0, s => s
  | v + 1, (fk, nk) =>
      let dad := getN parent v
      kidsLoop parent v (fk.setIfInBounds dad (some v), nk.setIfInBounds v (getO fk dad))

/-- `first_kid`, `next_kid` as `TreePostorder` builds them: `first_kid[0..n] = -1` first; `next_kid` comes
from `mxCallocInt`, i.e. is 0-initialised (entry `n` is never written and stays 0 ≠ -1: the walk relies
on this to stop climbing at the dummy root). -/
def buildKids (n : Nat) (parent : Array Nat) : Array (Option Nat) × Array (Option Nat) :=
  kidsLoop parent n (Array.replicate (n + 1) none, Array.replicate (n + 1) (some 0))

/-- `nr_etdfs`.  Two program points: `climb = false` is the head of the outer `while (postnum != n)`,
`climb = true` is `next = next_kid[current]; while (next == -1) ..` entered right after a
`post[current] = postnum++`.  One unit of fuel per visit of a program point. -/
def walk (n : Nat) (parent : Array Nat) (fk nk : Array (Option Nat)) :
    Nat → Bool → Nat → Nat → Array Nat → Option (Array Nat)
  | 0, _, _, _, _ => none
  | f + 1, false, cur, pn, post =>
      if pn = n then some post else
      match getO fk cur with
      | none => walk n parent fk nk f true cur (pn + 1) (post.setIfInBounds cur pn)
      | some first => walk n parent fk nk f false first pn post
  | f + 1, true, cur, pn, post =>
      match getO nk cur with
      | none =>
          let cur' := getN parent cur
          walk n parent fk nk f true cur' (pn + 1) (post.setIfInBounds cur' pn)
      | some next => if pn = n + 1 then some post else walk n parent fk nk f false next pn post

/-- fuel that always suffices for a forest: every vertex `0..n` is entered once and left once. -/
def walkFuel (n : Nat) : Nat := 2 * n + 3

/-- `TreePostorder(n, parent)`: array of length `n+1`; `post[v]` = postorder number of vertex `v`,
`post[n] = n` for the dummy root. -/
def treePostorder (n : Nat) (parent : Array Nat) : Array Nat :=
  let (fk, nk) := buildKids n parent
  match walk n parent fk nk (walkFuel n) false n 0 (Array.replicate (n + 1) 0) with
  | some p => p
  | none => Array.replicate (n + 1) 0

/-! ## disjoint sets with path halving -/

/-- loop of `find`: `while (gp != p) { pp[i] = gp; i = gp; p = pp[i]; gp = pp[p]; }  return p;` -/
def findLoop : Nat → Nat → Nat → Nat → Array Nat → Nat × Array Nat
  | 0, _, p, _, pp => (p, pp)
  | f + 1, i, p, gp, pp =>
      if gp = p then (p, pp) else
      let pp := pp.setIfInBounds i gp
      let i := gp
      let p := getN pp i
      let gp := getN pp p
      findLoop f i p gp pp

/-- `find (i, pp)`; fuel `pp.size + 1` suffices for every valid structure (`Proofs/UnionFind`). -/
def ufFind (i : Nat) (pp : Array Nat) : Nat × Array Nat :=
  let p := getN pp i
  let gp := getN pp p
  findLoop (pp.size + 1) i p gp pp

/-! ## Liu's algorithm -/

structure LiuSt where
  pp : Array Nat
  root : Array Nat
  parent : Array Nat
  cset : Nat
  deriving Repr

/-- body of the inner loop for one `row` (already mapped through `firstcol` for the column etree). -/
def liuEdge (col row : Nat) (s : LiuSt) : LiuSt :=
  if col ≤ row then s else
  let (rset, pp) := ufFind row s.pp
  let rroot := getN s.root rset
  if rroot ≠ col then
    { pp := pp.setIfInBounds s.cset rset            -- cset = make_link (cset, rset)
      root := s.root.setIfInBounds rset col         -- root[cset] = col
      parent := s.parent.setIfInBounds rroot col    -- parent[rroot] = col
      cset := rset }
  else { s with pp := pp }

/-- one iteration of the `col` loop given the list of (mapped) row indices of that column. -/
def liuCol (n col : Nat) (rows : List Nat) (s : LiuSt) : LiuSt :=
  let s0 : LiuSt :=
    { pp := s.pp.setIfInBounds col col, root := s.root.setIfInBounds col col,
      parent := s.parent.setIfInBounds col n, cset := col }
  rows.foldl (fun s row => liuEdge col row s) s0

/-- positions `acolst[col] .. acolend[col]-1` -/
def colRange (colbeg colend : Array Nat) (col : Nat) : List Nat :=
  List.range' (getN colbeg col) (getN colend col - getN colbeg col)

/-- positions `colptr[col] .. colptr[col+1]-1` (NC format) -/
def colRangeP (colptr : Array Nat) (col : Nat) : List Nat :=
  List.range' (getN colptr col) (getN colptr (col + 1) - getN colptr col)

def liuInit (n : Nat) : LiuSt :=
  { pp := Array.replicate n 0, root := Array.replicate n 0, parent := Array.replicate n 0, cset := 0 }

/-- `sp_symetree(acolst, acolend, arow, n, parent)` -/
def symEtree (colbeg colend rowind : Array Nat) (n : Nat) : Array Nat :=
  ((List.range n).foldl (fun s col =>
      liuCol n col ((colRange colbeg colend col).map (getN rowind)) s) (liuInit n)).parent

/-- `firstcol[row]` = first column with an entry in `row` (`nc` if none). -/
def firstCol (colbeg colend rowind : Array Nat) (nr nc : Nat) : Array Nat :=
  (List.range nc).foldl (fun fc col =>
    (colRange colbeg colend col).foldl (fun fc p =>
      let row := getN rowind p
      fc.setIfInBounds row (min (getN fc row) col)) fc) (Array.replicate nr nc)

/-- `sp_coletree(acolst, acolend, arow, nr, nc, parent)` -/
def colEtree (colbeg colend rowind : Array Nat) (nr nc : Nat) : Array Nat :=
  let fc := firstCol colbeg colend rowind nr nc
  ((List.range nc).foldl (fun s col =>
      liuCol nc col ((colRange colbeg colend col).map (fun p => getN fc (getN rowind p))) s) (liuInit nc)).parent

/-! ## reference: elimination tree by naive symbolic elimination -/

abbrev BTab := Array (Array Bool)

def tabGet (T : BTab) (a b : Nat) : Bool := (T.getD a #[]).getD b false

def tabulate (n : Nat) (f : Nat → Nat → Bool) : BTab :=
  Array.ofFn (n := n) (fun a => Array.ofFn (n := n) (fun b => f a.1 b.1))

/-- eliminate vertex `j`: its higher neighbours become pairwise adjacent. -/
def elimStep (n : Nat) (T : BTab) (j : Nat) : BTab :=
  tabulate n (fun a b => tabGet T a b ||
    (decide (j < a) && decide (j < b) && decide (a ≠ b) && tabGet T a j && tabGet T j b))

/-- filled graph after eliminating `0..n-1` -/
def fillTab (n : Nat) (adj : Nat → Nat → Bool) : BTab :=
  (List.range n).foldl (elimStep n) (tabulate n adj)

/-- `parent j = min { i > j : L_ij ≠ 0 }`, `n` if there is none. -/
def etreeOfFill (n : Nat) (T : BTab) : Array Nat :=
  Array.ofFn (n := n) (fun j =>
    match (List.range' (j.1 + 1) (n - (j.1 + 1))).find? (fun i => tabGet T i j.1) with
    | some i => i
    | none => n)

def etreeRef (n : Nat) (adj : Nat → Nat → Bool) : Array Nat := etreeOfFill n (fillTab n adj)

/-- entry `(row, col)` present in the pattern -/
def hasEntry (colbeg colend rowind : Array Nat) (row col : Nat) : Bool :=
  (colRange colbeg colend col).any (fun p => getN rowind p == row)

/-- adjacency used by `sp_symetree`: the strict upper triangle of the given pattern, symmetrised. -/
def symAdj (colbeg colend rowind : Array Nat) (a b : Nat) : Bool :=
  (decide (a < b) && hasEntry colbeg colend rowind a b) || (decide (b < a) && hasEntry colbeg colend rowind b a)

/-- adjacency of AᵀA: two distinct columns sharing a row. -/
def ataAdj (colbeg colend rowind : Array Nat) (nr : Nat) (a b : Nat) : Bool :=
  decide (a ≠ b) && (List.range nr).any (fun r => hasEntry colbeg colend rowind r a && hasEntry colbeg colend rowind r b)

/-- tabulated once (the driver uses these; the closures above are re-evaluated on every call) -/
def symEtreeRef (colbeg colend rowind : Array Nat) (n : Nat) : Array Nat :=
  let T := tabulate n (symAdj colbeg colend rowind)
  etreeRef n (tabGet T)

def colEtreeRef (colbeg colend rowind : Array Nat) (nr nc : Nat) : Array Nat :=
  let E := Array.ofFn (n := nr) (fun r => Array.ofFn (n := nc) (fun c => hasEntry colbeg colend rowind r.1 c.1))
  let T := tabulate nc (fun a b => decide (a ≠ b) && (List.range nr).any (fun r => tabGet E r a && tabGet E r b))
  etreeRef nc (tabGet T)

/-! ## at_plus_a -/

/-- column `j` of `T = Aᵀ` in the order the counting transpose produces (by column of A, then position). -/
def transCol (n : Nat) (colptr rowind : Array Nat) (j : Nat) : List Nat :=
  (List.range n).flatMap (fun k =>
    ((colRangeP colptr k).filter (fun p => getN rowind p == j)).map (fun _ => k))

/-- append the entries of `xs` not yet marked (marker semantics of `at_plus_a`: the diagonal `j` is
marked from the start, every appended entry gets marked). -/
def addUnmarked (seen : List Nat) (out : List Nat) : List Nat → List Nat × List Nat
  | [] => (seen, out)
  | k :: xs => if seen.contains k then addUnmarked seen out xs else addUnmarked (k :: seen) (out ++ [k]) xs

/-- column `j` of `B = A + Aᵀ` without the diagonal -/
def bCol (n : Nat) (colptr rowind : Array Nat) (j : Nat) : List Nat :=
  let acol := (colRangeP colptr j).map (getN rowind)
  let (seen, out) := addUnmarked [j] [] acol
  (addUnmarked seen out (transCol n colptr rowind j)).2

/-- `(b_colptr, b_rowind)` of `at_plus_a` -/
def atPlusA (n : Nat) (colptr rowind : Array Nat) : Array Nat × Array Nat :=
  (List.range n).foldl (fun (cp, ri) j =>
    let c := bCol n colptr rowind j
    (cp.push (ri.size + c.length), ri ++ c.toArray)) (#[0], #[])

/-! ## supernode partitions -/

/-- `part_super[xsup] = k - xsup; xsup = k;` on the pair `(part_super, xsup)` -/
def closeBlock (k : Nat) (st : Array Nat × Nat) : Array Nat × Nat :=
  (st.1.setIfInBounds st.2 (k - st.2), k)

/-- first pass of `qrnzcnt`, body of the loop over the entries `j` of column `perm[k]`; state
`(part_super_h, fnz, xsup)`: a row seen for the first time makes `k` the leader of a new block -/
def qrRow (k : Nat) (adjncy : Array Nat) (st : Array Nat × Array (Option Nat) × Nat) (j : Nat) :
    Array Nat × Array (Option Nat) × Nat :=
  let i := getN adjncy j
  if getO st.2.1 i = none then
    let px := if k ≠ 0 ∧ st.2.2 ≠ k then closeBlock k (st.1, st.2.2) else (st.1, st.2.2)
    (px.1, st.2.1.setIfInBounds i (some k), px.2)
  else st

/-- first pass of `qrnzcnt`, body of the loop over `k`; state `(part_super_h, nchild, fnz, xsup)`.
`perm[k]` = original column in position `k`; rows are not renumbered (`zfdperm` = identity in `sp_colorder`). -/
def qrStep (xadj adjncy perm etpar : Array Nat) (st : Array Nat × Array Nat × Array (Option Nat) × Nat) (k : Nat) :
    Array Nat × Array Nat × Array (Option Nat) × Nat :=
  let parent := getN etpar k
  let nchild := st.2.1.setIfInBounds parent (getN st.2.1 parent + 1)
  let px := if k ≠ 0 ∧ 2 ≤ getN nchild k then closeBlock k (st.1, st.2.2.2) else (st.1, st.2.2.2)
  let r := (colRangeP xadj (getN perm k)).foldl (qrRow k adjncy) (px.1, st.2.2.1, px.2)
  (r.1, nchild, r.2.1, r.2.2)

/-- `part_super_h` of `qrnzcnt` -/
def qrPart (n : Nat) (xadj adjncy perm etpar : Array Nat) : Array Nat :=
  let st := (List.range n).foldl (qrStep xadj adjncy perm etpar)
    (Array.replicate n 0, Array.replicate (n + 1) 0, Array.replicate n none, 0)
  st.1.setIfInBounds st.2.2.2 (n - st.2.2.2)

/-- `fdesc`, `nchild` of `cholnzcnt` (`fdesc[ROOT] = EMPTY` is never lowered: index `n` is not updated) -/
def cholPre (n : Nat) (etpar : Array Nat) : Array Nat × Array Nat :=
  (List.range n).foldl (fun (st : Array Nat × Array Nat) k =>
    let parent := getN etpar k
    let nchild := st.2.setIfInBounds parent (getN st.2 parent + 1)
    let ifdesc := getN st.1 k
    let fdesc := if parent < n ∧ ifdesc < getN st.1 parent then st.1.setIfInBounds parent ifdesc else st.1
    (fdesc, nchild)) (Array.ofFn (n := n + 1) (fun k => k.1), Array.replicate (n + 1) 0)

/-- inner loop of `cholnzcnt` over the neighbours of `lownbr`; state `(lflag, prvnbr)` -/
def cholRow (lownbr ifdesc : Nat) (adjncy invp : Array Nat) (st : Bool × Array (Option Nat)) (j : Nat) :
    Bool × Array (Option Nat) :=
  let hinbr := getN invp (getN adjncy j)
  if lownbr < hinbr then
    -- `ifdesc > prvnbr[hinbr]` with EMPTY = -1
    let newleaf := match getO st.2 hinbr with
      | none => true
      | some q => decide (q < ifdesc)
    (st.1 || newleaf, st.2.setIfInBounds hinbr (some lownbr))
  else st

/-- main loop of `cholnzcnt`, the part that decides `part_super_L`; state `(part_super_L, prvnbr, xsup)` -/
def cholStep (xadj adjncy perm invp fdesc nchild : Array Nat) (st : Array Nat × Array (Option Nat) × Nat) (lownbr : Nat) :
    Array Nat × Array (Option Nat) × Nat :=
  let r := (colRangeP xadj (getN perm lownbr)).foldl (cholRow lownbr (getN fdesc lownbr) adjncy invp) (false, st.2.1)
  if r.1 = true ∨ 2 ≤ getN nchild lownbr then
    ((closeBlock lownbr (st.1, st.2.2)).1, r.2, lownbr)
  else (st.1, r.2, st.2.2)

/-- `part_super_L` of `cholnzcnt` -/
def cholPart (n : Nat) (xadj adjncy perm invp etpar : Array Nat) : Array Nat :=
  let pre := cholPre n etpar
  let st := (List.range n).foldl (cholStep xadj adjncy perm invp pre.1 pre.2)
    (Array.replicate n 0, Array.replicate n none, 0)
  st.1.setIfInBounds st.2.2 (n - st.2.2)

/-- executable check: `part` describes consecutive blocks `[k, k + part[k])` covering `k..n-1`,
zero inside the blocks. -/
def checkBlocksFrom (part : Array Nat) (n : Nat) : Nat → Nat → Bool
  | 0, k => decide (k = n)
  | f + 1, k =>
      if k = n then true else
      let s := getN part k
      decide (1 ≤ s) && decide (k + s ≤ n) &&
      (List.range' (k + 1) (s - 1)).all (fun j => getN part j == 0) &&
      checkBlocksFrom part n f (k + s)

def checkPartSuper (n : Nat) (part : Array Nat) : Bool :=
  part.size == n && checkBlocksFrom part n n 0

/-! ## executable oracle: a forest is postordered -/

/-- `v` is an ancestor-or-self of `u` (walk up from `u`; `fuel` = number of parent steps allowed). -/
def descB (par : Array Nat) (n v : Nat) : Nat → Nat → Bool
  | 0, u => decide (u = v)
  | f + 1, u => if u = v then true else if n ≤ u then false else descB par n v f (getN par u)

/-- `parent v > v` for every vertex, and every subtree is closed under `u ↦ u+1` below its root,
i.e. it is a contiguous index range ending at its root. -/
def checkPostordered (n : Nat) (par : Array Nat) : Bool :=
  par.size == n &&
  (List.range n).all (fun v => decide (v < getN par v) && decide (getN par v ≤ n)) &&
  (List.range n).all (fun v => (List.range v).all (fun u =>
    !(descB par n v n u) || descB par n v n (u + 1)))

/-! ## sp_colorder -/

/-- `for (i = 0; i < n; ++i) out[p[i]] = f i;` -/
def scatter (n : Nat) (p : Array Nat) (f : Nat → Nat) (out : Array Nat) : Array Nat :=
  (List.range n).foldl (fun a i => a.setIfInBounds (getN p i) (f i)) out

/-- renumber the etree in postorder: `iwork[post[i]] = post[etree[i]]; etree = iwork` -/
def relabelEtree (n : Nat) (post et0 : Array Nat) : Array Nat :=
  scatter n post (fun i => getN post (getN et0 i)) (Array.replicate n 0)

structure Colorder where
  colbeg : Array Nat
  colend : Array Nat
  permc : Array Nat
  etree : Array Nat
  part : Array Nat
  deriving Repr

/-- step 1 of `sp_colorder`: `colbeg[perm_c[i]] = colptr[i]`, `colend[perm_c[i]] = colptr[i+1]` -/
def viewBeg (n : Nat) (colptr permc : Array Nat) : Array Nat :=
  scatter n permc (fun i => getN colptr i) (Array.replicate n 0)
def viewEnd (n : Nat) (colptr permc : Array Nat) : Array Nat :=
  scatter n permc (fun i => getN colptr (i + 1)) (Array.replicate n 0)

/-- SymmetricMode branch: `B = A + Aᵀ`, `C = Pc B Pcᵀ` (columns by a view, row indices relabelled in
place), `sp_symetree (C)`, then B restored through the inverse of `perm_c`.
Returns `(etree of C, b_colptr, restored b_rowind)`. -/
def colorderSym (n : Nat) (colptr rowind permc : Array Nat) : Array Nat × Array Nat × Array Nat :=
  let (bcp, bri) := atPlusA n colptr rowind
  let cbeg := scatter n permc (fun i => getN bcp i) (Array.replicate n 0)
  let cend := scatter n permc (fun i => getN bcp (i + 1)) (Array.replicate n 0)
  -- b_rowind[i] = perm_c[b_rowind[i]] column by column of C
  let bri' := (List.range n).foldl (fun ri j =>
    (colRange cbeg cend j).foldl (fun ri i => ri.setIfInBounds i (getN permc (getN ri i))) ri) bri
  -- `iwork[perm_c[j]] = j`, later `b_rowind[i] = iwork[b_rowind[i]]`
  let iwork := scatter n permc (fun j => j) (Array.replicate (n + 1) 0)
  (symEtree cbeg cend bri' n, bcp, bri'.map (getN iwork))

/-- the elimination tree `sp_colorder` computes before postordering -/
def colorderEt0 (m n : Nat) (colptr rowind permc : Array Nat) (symm : Bool) : Array Nat :=
  if symm then (colorderSym n colptr rowind permc).1
  else colEtree (viewBeg n colptr permc) (viewEnd n colptr permc) rowind m n

/-- `sp_colorder (A, perm_c, options, AC)` on the pattern `(colptr, rowind)` of the `m × n` matrix A.
`rowind`/`nzval` of AC are A's own arrays (shared, never written), so only the view is returned.
`etree0`/`part0` are the caller's arrays in `options` (returned untouched when `refact = YES`). -/
def colorder (m n : Nat) (colptr rowind permc : Array Nat) (symm refact : Bool)
    (etree0 part0 : Array Nat) : Colorder :=
  let colbeg0 := viewBeg n colptr permc
  let colend0 := viewEnd n colptr permc
  if refact then { colbeg := colbeg0, colend := colend0, permc := permc, etree := etree0, part := part0 } else
  let et0 := colorderEt0 m n colptr rowind permc symm
  let post := treePostorder n et0
  -- renumber etree in postorder
  let etree := relabelEtree n post et0
  -- postmultiply A*Pc by post
  let colbeg := scatter n post (fun i => getN colbeg0 i) (Array.replicate n 0)
  let colend := scatter n post (fun i => getN colend0 i) (Array.replicate n 0)
  -- product of perm_c and post
  let permc' := Array.ofFn (n := n) (fun i => getN post (getN permc i.1))
  let invp := scatter n permc' (fun i => i) (Array.replicate n 0)
  let part :=
    if symm then
      let (_, bcp, bri) := colorderSym n colptr rowind permc
      cholPart n bcp bri invp permc' etree
    else qrPart n colptr rowind invp etree
  { colbeg := colbeg, colend := colend, permc := permc', etree := etree, part := part }

/-- `get_perm_c (0, A, perm_c)`: natural ordering. -/
def naturalPerm (n : Nat) : Array Nat := Array.ofFn (n := n) (fun i => i.1)

end Slu.Pre
