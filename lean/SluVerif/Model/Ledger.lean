/-
M-Ledger: the allocation ledger of one library call.  The harness logs every request the library issues through its own
allocation points (SUPERLU_MALLOC / SUPERLU_FREE, i.e. USER_MALLOC / USER_FREE) as an event with a fresh block id; a free
names the id of the block that currently lives at the freed address, or `none` when the address is not a live block of
the ledger (double free, or a pointer the library did not obtain from its allocator).
`checkCall` is the executable judge: the trace is well formed and, at the end, exactly the blocks handed back to the caller
(reachable from the returned L, U) are live; `checkBalanced` judges call + documented destroy routines: nothing is live.
-/
namespace Slu

inductive LEv where
  | alloc (id : Nat)
  | free (id : Option Nat)
  deriving Repr, DecidableEq

/-- replay a trace: the live blocks in order of allocation, or `none` as soon as an event is illegal
(an id allocated twice, a free of something that is not live) -/
def replayL : List Nat → List LEv → Option (List Nat)
  | live, [] => some live
  | live, .alloc id :: tr => if live.contains id then none else replayL (live ++ [id]) tr
  | live, .free (some id) :: tr => if live.contains id then replayL (live.erase id) tr else none
  | _, .free none :: _ => none

/-- the call's ledger is fine: legal trace, and what stays live is exactly what the caller was handed -/
def checkCall (tr : List LEv) (returned : List Nat) : Bool :=
  match replayL [] tr with
  | some live => live.all (fun b => returned.contains b) && returned.all (fun b => live.contains b)
  | none => false

/-- call followed by the documented destroy routines: nothing stays live -/
def checkBalanced (tr : List LEv) : Bool :=
  match replayL [] tr with
  | some live => live.isEmpty
  | none => false

/-- what is still live and not accounted for: the leak report -/
def leaked (tr : List LEv) (returned : List Nat) : List Nat :=
  match replayL [] tr with
  | some live => live.filter (fun b => !returned.contains b)
  | none => []

def allocCount (id : Nat) (tr : List LEv) : Nat := (tr.filter (fun e => e == .alloc id)).length
def freeCount (id : Nat) (tr : List LEv) : Nat := (tr.filter (fun e => e == .free (some id))).length

end Slu
