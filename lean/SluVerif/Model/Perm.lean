/-
M-Perm: permutation arrays as the C code stores them (`int_t perm[n]`), the executable validity
check used on every array the library returns, and the library's two conventions:
  perm_r[i] = j  : row i of A is row j of Pr*A
  perm_c[i] = j  : column i of A is column j of A*Pc
-/
namespace Slu

/-- value of a C `int_t` array at index `i` (0 outside; callers guard the range). -/
@[inline] def geti (a : Array Int) (i : Nat) : Int := a.getD i 0

/-- `p` encodes a bijection of `0..n-1`: right length, values in range, no repetition. -/
def IsPerm (n : Nat) (p : Array Int) : Prop :=
  p.size = n ∧ (∀ v ∈ p.toList, 0 ≤ v ∧ v < (n : Int)) ∧ p.toList.Nodup

instance (n : Nat) (p : Array Int) : Decidable (IsPerm n p) := by
  unfold IsPerm; exact inferInstance

/-- executable check (quadratic `Nodup`, fine for the sizes the harness dumps). -/
def checkPerm (n : Nat) (p : Array Int) : Bool :=
  p.size == n && p.toList.all (fun v => decide (0 ≤ v) && decide (v < (n : Int))) && decide p.toList.Nodup

theorem checkPerm_iff (n : Nat) (p : Array Int) : checkPerm n p = true ↔ IsPerm n p := by
  unfold checkPerm IsPerm
  simp only [Bool.and_eq_true, beq_iff_eq, List.all_eq_true, decide_eq_true_eq, and_assoc]

/-- inverse permutation as an array of naturals (`inv[p[i]] = i`). -/
def invPerm (n : Nat) (p : Array Int) : Array Nat :=
  (List.range n).foldl (fun acc i => acc.setIfInBounds (geti p i).toNat i) (Array.replicate n 0)

/-- composition used by `sp_colorder`: `perm_c := post ∘ perm_c`, i.e. `out[i] = post[pc[i]]`. -/
def compPerm (post pc : Array Int) : Array Int := pc.map (fun v => geti post v.toNat)

end Slu
