/-
M-LU: dense left-looking LU with the library's pivot policy, in exact rational arithmetic.

Column `j` of `A·Pc` is processed exactly as the library does at the dense level:
  * `u_t` for `t < j` by forward substitution with the unit-lower columns already computed
    (rows taken in pivot order), * candidate values `c_i` for the rows not yet pivoted,
  * `pivotSelect` (Model/Pivot.lean) on the candidates, * CDIV.
Rows keep their ORIGINAL indices throughout (the library also stores L by original row index until
`fixupL`): `piv t` is the row chosen at step `t`, `pos i = some t` iff `piv t = i`, so `perm_r[i] = t`.
What the model does not contain: supernodes, panels, the symbolic DFS (the library's candidate list is
the *structure* of the column, a subset of the unpivoted rows whose complement is exactly zero) and
BLAS.  Consequently the order of candidates — which only matters for exact ties and for which row is
taken in a singular column — is the model's own (increasing row index); `ambiguous` records when it mattered.
Matrices live in `Array (Array Rat)` (re-tabulated once per column) so that the compiled model is
cubic, with `getQ`/`tabQ` as the only access path.
-/
import SluVerif.Model.Check
import SluVerif.Model.Pivot
namespace Slu

abbrev QArr := Array (Array Rat)

@[inline] def getQ (a : QArr) (i j : Nat) : Rat := (a.getD i #[]).getD j 0
def tabQ (n : Nat) (f : Nat → Nat → Rat) : QArr := Array.ofFn (n := n) fun i => Array.ofFn (n := n) fun j => f i.val j.val

theorem getQ_tabQ (n : Nat) (f : Nat → Nat → Rat) (i j : Nat) (hi : i < n) (hj : j < n) : getQ (tabQ n f) i j = f i j := by
  simp [getQ, tabQ, Array.getD, hi, hj]

def qabs (x : Rat) : Rat := if x < 0 then -x else x

def sumQ (n : Nat) (f : Nat → Rat) : Rat := ((List.range n).map f).sum

/-- forward substitution for column `j`: `ucolA … t` has the `t` values `u_0 .. u_{t-1}`;
`u_s = A (piv s) j - Σ_{s' < s} ell (piv s) s' * u_{s'}`. -/
def ucolA (A ell : QArr) (piv : Array Nat) (j : Nat) : Nat → Array Rat
  | 0 => #[]
  | t + 1 =>
    let prev := ucolA A ell piv j t
    let r := piv.getD t 0
    prev.push (getQ A r j - sumQ t (fun s' => getQ ell r s' * prev.getD s' 0))

structure LUState where
  k : Nat                       -- columns done
  piv : Array Nat               -- piv[t] for t < k
  pos : Array (Option Nat)      -- size n
  ell : QArr                    -- ell i t : multiplier of original row i at step t (1 on the pivot row, 0 on rows pivoted earlier)
  uu : QArr                     -- uu t j
  info : Nat                    -- 0, or 1 + first column whose candidates were all zero
  usepr : Bool
  ambiguous : Bool              -- a tie or a singular column made the library's row choice order-dependent

/-- parameters that stay fixed during one factorization -/
structure LUParams where
  n : Nat
  A : QArr                      -- A·Pc, rows by original index
  u : Rat                       -- diag_pivot_thresh
  diagOf : Nat → Int            -- inv_perm_c[j]
  oldInv : Nat → Int            -- inv_perm_r[j] from a previous factorization (used when usepr)

def luInit (n : Nat) (usepr : Bool) : LUState :=
  { k := 0, piv := #[], pos := Array.replicate n none, ell := tabQ n fun _ _ => 0, uu := tabQ n fun _ _ => 0,
    info := 0, usepr := usepr, ambiguous := false }

def posOf (st : LUState) (i : Nat) : Option Nat := st.pos.getD i none

def candRows (P : LUParams) (st : LUState) : List Nat := (List.range P.n).filter fun i => (posOf st i).isNone

/-- candidate value of row `i` in the current column given the already computed `u` part -/
def candVal (P : LUParams) (st : LUState) (u : Array Rat) (i : Nat) : Rat :=
  getQ P.A i st.k - sumQ st.k (fun t => getQ st.ell i t * u.getD t 0)

def pivIn (P : LUParams) (st : LUState) (u : Array Rat) : PivIn :=
  let cands := candRows P st
  { jcol := st.k, nsupc := 0, rows := (cands.map fun (i : Nat) => Int.ofNat i).toArray,
    mags := (cands.map fun i => qabs (candVal P st u i)).toArray,
    u := P.u, usepr := st.usepr, oldPivRow := P.oldInv st.k, diagInd := P.diagOf st.k }

/-- a tie that makes the library's choice depend on its own candidate order -/
def tieAmbiguous (p : PivIn) (sel : PivSel) : Bool :=
  if sel.info ≠ 0 then decide (p.rows.size > 1)
  else
    let m := p.mags.getD sel.pivptr 0
    (sel.usepr == false) && (p.rows.getD sel.pivptr 0 != p.diagInd) &&
      decide (((List.range p.rows.size).filter fun i => decide (p.mags.getD i 0 = m)).length > 1)

/-- decision-margin rule for comparing discrete outputs with a floating-point run: every comparison the
policy made is clear of equality by a relative `2^-30` (and no exact zero sits where a rounding
residue could flip a `!= 0` test).  Only used to label correspondence cases, never in theorems. -/
def marginOk (p : PivIn) (sel : PivSel) : Bool :=
  let eps : Rat := 1 / 1073741824
  if sel.info ≠ 0 then false else
  let n := p.rows.size
  let M := (List.range n).foldl (fun m i => if p.mags.getD i 0 > m then p.mags.getD i 0 else m) 0
  let thresh := p.u * M
  let clear (x y : Rat) : Bool := if x = 0 then decide (y > 0) else decide (qabs (x - y) > eps * (if x > y then x else y))
  let testOk (i : Nat) : Bool := clear (p.mags.getD i 0) thresh
  let oldOk := !p.usepr || ((List.range n).all fun i => if p.rows.getD i 0 == p.oldPivRow then testOk i else true)
  -- the diagonal test may sit on the threshold when the diagonal is the clear maximum: both outcomes then select the same row
  let clearMax (i : Nat) : Bool := decide (p.mags.getD i 0 = M) && ((List.range n).all fun k => k == i || decide (p.mags.getD k 0 < M * (1 - eps)))
  let diagOk := sel.usepr || ((List.range n).all fun i => if p.rows.getD i 0 == p.diagInd then (testOk i || clearMax i) else true)
  let maxRule := !sel.usepr && (p.rows.getD sel.pivptr 0 != p.diagInd)
  let maxOk := !maxRule || ((List.range n).all fun i => i == sel.pivptr || decide (p.mags.getD i 0 < M * (1 - eps)))
  oldOk && diagOk && maxOk

def luStep (P : LUParams) (st : LUState) : LUState :=
  let j := st.k
  let cands := candRows P st
  let u := ucolA P.A st.ell st.piv j j
  let p := pivIn P st u
  let sel := pivotSelect p
  let r := cands.getD sel.pivptr 0
  let cr := candVal P st u r
  { k := j + 1,
    piv := st.piv.push r,
    pos := st.pos.setIfInBounds r (some j),
    ell := tabQ P.n fun i t => if t = j then
                        (if i = r then 1 else if (posOf st i).isNone then
                            (if sel.info = 0 then candVal P st u i / cr else candVal P st u i) else 0)
                      else getQ st.ell i t,
    uu := tabQ P.n fun t jj => if jj = j then (if t < j then u.getD t 0 else if t = j then cr else 0) else getQ st.uu t jj,
    info := if st.info = 0 ∧ sel.info ≠ 0 then j + 1 else st.info,
    usepr := sel.usepr,
    ambiguous := st.ambiguous || tieAmbiguous p sel || !marginOk p sel }

def luRun (P : LUParams) : Nat → LUState → LUState
  | 0, st => st
  | m + 1, st => luRun P m (luStep P st)

def factor (P : LUParams) (usepr : Bool) : LUState := luRun P P.n (luInit P.n usepr)

/-- `perm_r` as the library returns it: `perm_r[i] = t` iff row `i` was pivoted at step `t` -/
def permROf (n : Nat) (st : LUState) : Array Int := (Array.range n).map fun i => match posOf st i with | some t => (t : Int) | none => -1

/-- exact triangular solves with the factors of a state: `L y = P b`, `U x = y` (column order of A·Pc) -/
def solveLower (n : Nat) (st : LUState) (b : Nat → Rat) : Nat → Array Rat
  | 0 => #[]
  | t + 1 => let prev := solveLower n st b t
             let r := st.piv.getD t 0
             prev.push (b r - sumQ t (fun s => getQ st.ell r s * prev.getD s 0))

/-- back substitution: returns `x_{n-1}, …, x_{n-m}` reversed (index `d` holds `x_{n-1-d}`) -/
def solveUpperRev (n : Nat) (st : LUState) (y : Array Rat) : Nat → Array Rat
  | 0 => #[]
  | m + 1 => let prev := solveUpperRev n st y m
             let t := n - 1 - m
             prev.push ((y.getD t 0 - sumQ m (fun d => getQ st.uu t (n - 1 - d) * prev.getD d 0)) / getQ st.uu t t)

def solveN (n : Nat) (st : LUState) (b : Nat → Rat) : Nat → Rat :=
  let y := solveLower n st b n
  let xr := solveUpperRev n st y n
  fun j => xr.getD (n - 1 - j) 0

end Slu
