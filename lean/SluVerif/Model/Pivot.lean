/-
M-Pivot: `p?gstrf_pivotL` (SRC/pdgstrf_pivotL.c) as a pure function.

The C routine looks at the current column of the current supernode: positions `nsupc .. nsupr-1`
of the row list `lsub_ptr` / value column `lu_col_ptr` are the candidate pivots.  The *selection*
depends only on the magnitudes (`fabs` for real, `|re|+|im|` for complex precisions), so the model
selects on an array of rational magnitudes; the interchange and the CDIV are modelled on rational
values.  Everything mirrors the C statement order: scan order, strict `>` (first maximum wins),
`old_pivptr`/`pivptr` defaulting to `nsupc`, the singular branch returning before any interchange,
the `rtemp != 0 && rtemp >= thresh` tests, and the shared `*usepr` flag being cleared.
-/
namespace Slu

structure Scan where
  pivmax : Rat
  pivptr : Nat
  oldPtr : Nat
  diag : Option Nat
  deriving Repr, DecidableEq

/-- one iteration of the scan loop (`for isub = nsupc .. nsupr-1`) -/
def scanStep (rows : Array Int) (mags : Array Rat) (usepr : Bool) (pivrow diagInd : Int)
    (s : Scan) (isub : Nat) : Scan :=
  let rtemp := mags.getD isub 0
  let s1 : Scan := if rtemp > s.pivmax then { s with pivmax := rtemp, pivptr := isub } else s
  let s2 : Scan := if usepr && rows.getD isub 0 == pivrow then { s1 with oldPtr := isub } else s1
  if rows.getD isub 0 == diagInd then { s2 with diag := some isub } else s2

def scanInit (nsupc : Nat) : Scan := { pivmax := 0, pivptr := nsupc, oldPtr := nsupc, diag := none }

def scan (rows : Array Int) (mags : Array Rat) (usepr : Bool) (pivrow diagInd : Int) (nsupc nsupr : Nat) : Scan :=
  (List.range' nsupc (nsupr - nsupc)).foldl (scanStep rows mags usepr pivrow diagInd) (scanInit nsupc)

structure PivIn where
  jcol : Nat
  nsupc : Nat               -- columns of the supernode before jcol
  rows : Array Int          -- lsub_ptr[0..nsupr)
  mags : Array Rat          -- magnitudes of lu_col_ptr[0..nsupr)
  u : Rat
  usepr : Bool
  oldPivRow : Int           -- inv_perm_r[jcol] (meaningful when usepr)
  diagInd : Int             -- inv_perm_c[jcol]

/-- what the selection part decides -/
structure PivSel where
  outOfRange : Bool         -- the C code reads `lsub_ptr[nsupc]` past the row list (nsupr = nsupc)
  info : Nat                -- 0, or jcol+1 when every candidate is exactly zero
  pivptr : Nat
  pivrow : Int
  usepr : Bool              -- value of `*usepr` after the call
  swapped : Bool            -- interchange + CDIV performed (not in the singular branch)
  deriving Repr, DecidableEq

/-- `*pivrow` as initialised before the scan (`inv_perm_r[jcol]` when reuse is requested) -/
def PivIn.pivrow0 (p : PivIn) : Int := if p.usepr then p.oldPivRow else 0

/-- everything after the scan loop, as a function of the scan result -/
def pivotDecide (p : PivIn) (s : Scan) : PivSel :=
  let nsupr := p.rows.size
  if s.pivmax = 0 then
    -- singular: *pivrow = lsub_ptr[pivptr] with pivptr = nsupc
    { outOfRange := decide (nsupr ≤ s.pivptr), info := p.jcol + 1, pivptr := s.pivptr,
      pivrow := p.rows.getD s.pivptr 0, usepr := false, swapped := false }
  else
    let thresh := p.u * s.pivmax
    let oldOk := p.usepr && (decide (p.mags.getD s.oldPtr 0 ≠ 0) && decide (p.mags.getD s.oldPtr 0 ≥ thresh))
    if oldOk then
      { outOfRange := false, info := 0, pivptr := s.oldPtr, pivrow := p.oldPivRow, usepr := true, swapped := true }
    else
      let ptr := match s.diag with
        | some d => if decide (p.mags.getD d 0 ≠ 0) && decide (p.mags.getD d 0 ≥ thresh) then d else s.pivptr
        | none => s.pivptr
      { outOfRange := false, info := 0, pivptr := ptr, pivrow := p.rows.getD ptr 0, usepr := false, swapped := true }

def pivotSelect (p : PivIn) : PivSel :=
  pivotDecide p (scan p.rows p.mags p.usepr p.pivrow0 p.diagInd p.nsupc p.rows.size)

/-- swap positions `a` and `b` of an array -/
def swapAt {α} [Inhabited α] (x : Array α) (a b : Nat) : Array α :=
  if a < x.size ∧ b < x.size then (x.setIfInBounds a (x.getD b default)).setIfInBounds b (x.getD a default) else x

/-- interchange + CDIV on rational values: `cols` are the `nsupc+1` columns of the supernode up to and
including jcol (each of length nsupr).  Returns new row list and columns. -/
def pivotApply (rows : Array Int) (cols : Array (Array Rat)) (nsupc : Nat) (sel : PivSel) :
    Array Int × Array (Array Rat) :=
  if !sel.swapped then (rows, cols) else
  let rows' := if sel.pivptr ≠ nsupc then swapAt rows sel.pivptr nsupc else rows
  let cols' := if sel.pivptr ≠ nsupc then cols.map (fun c => swapAt c sel.pivptr nsupc) else cols
  let last := cols'.getD nsupc #[]
  let piv := last.getD nsupc 0
  let scaled := (List.range last.size).toArray.map (fun k => if nsupc < k then last.getD k 0 / piv else last.getD k 0)
  (rows', cols'.setIfInBounds nsupc scaled)

end Slu
