/-
Exact-arithmetic checkers (the "bridge" of DESIGN §2.3).

Every IEEE number is a dyadic rational.  The harness output is rescaled to integers with one common
power of two `2^E` (E ≤ 0), so that the property's own inequality can be evaluated with `Int`
arithmetic only.  All matrices are functions `Nat → Nat → Int` (the driver wraps dense arrays).
The checkers below are *the statements* of C01/C02 with γ(k) = k·u/(1-k·u), u = 2^-p, written as
`num/den = k / (2^p - k)`; soundness/completeness theorems are in `Props/Checkers.lean`.
-/
namespace Slu

abbrev Mat := Nat → Nat → Int
abbrev Vec := Nat → Int

@[inline] def iabs (x : Int) : Int := (x.natAbs : Int)

def sumTo (n : Nat) (f : Nat → Int) : Int := ((List.range n).map f).sum

/-- `(L*U) i j` for `n × n` operands. -/
def mulEntry (n : Nat) (L U : Mat) (i j : Nat) : Int := sumTo n fun k => L i k * U k j
/-- `(|L|*|U|) i j`. -/
def absMulEntry (n : Nat) (L U : Mat) (i j : Nat) : Int := sumTo n fun k => iabs (L i k) * iabs (U k j)

/-- γ(k) = k·u/(1-k·u) with u = 2^-p as a fraction `num/den`; requires `k < 2^p` (checked by caller). -/
def gammaNum (k : Nat) : Int := k
def gammaDen (p k : Nat) : Int := (2 : Int) ^ p - k

/-- One entry of C02's inequality, in the library's conventions: entry `(i,j)` of `A` sits at
`(pr i, pc j)` of `Pr*A*Pc`.  `A` is scaled by `2^(2E)`, `L`,`U` by `2^E`, so both sides share a scale. -/
def luEntryOk (n : Nat) (A L U : Mat) (pr pc : Nat → Nat) (num den : Int) (i j : Nat) : Bool :=
  decide (iabs (A i j - mulEntry n L U (pr i) (pc j)) * den ≤ num * absMulEntry n L U (pr i) (pc j))

/-- C02: `|Pr A Pc - L U| ≤ γ |L||U|` componentwise (all n² entries). -/
def checkLU (n : Nat) (A L U : Mat) (pr pc : Nat → Nat) (num den : Int) : Bool :=
  (List.range n).all fun i => (List.range n).all fun j => luEntryOk n A L U pr pc num den i j

/-- first failing entry, for replay files. -/
def firstBadLU (n : Nat) (A L U : Mat) (pr pc : Nat → Nat) (num den : Int) : Option (Nat × Nat) :=
  (List.range n).findSome? fun i => (List.range n).findSome? fun j =>
    if luEntryOk n A L U pr pc num den i j then none else some (i, j)

/-- unit lower triangular (`one` = the scaled integer that represents 1.0) / upper triangular. -/
def isUnitLower (n : Nat) (L : Mat) (one : Int) : Bool :=
  (List.range n).all fun i => (List.range n).all fun j =>
    if i = j then decide (L i j = one) else if i < j then decide (L i j = 0) else true
def isUpper (n : Nat) (U : Mat) : Bool :=
  (List.range n).all fun i => (List.range n).all fun j => if j < i then decide (U i j = 0) else true

/-- multiplier bound `|l_ij| ≤ (1/u)(1+slack)`:  `|l|·uNum·sDen ≤ one·uDen·(sDen+sNum)` where the
pivot threshold is `uNum/uDen`, `one` is the scaled integer representing 1.0 and slack = sNum/sDen. -/
def checkMultipliers (n : Nat) (L : Mat) (one uNum uDen sNum sDen : Int) : Bool :=
  (List.range n).all fun i => (List.range n).all fun j =>
    if j < i then decide (iabs (L i j) * uNum * sDen ≤ one * uDen * (sDen + sNum)) else true

/-- largest `|L r j|` over rows `r > j` and the diagonal `one` -/
def colMaxL (n : Nat) (L : Mat) (one : Int) (j : Nat) : Int :=
  (List.range n).foldl (fun m r => if j < r then max m (iabs (L r j)) else m) (iabs one)

/-- C02 "diagonal preferred": in column `j` of `A*Pc` the original diagonal entry sits in original row
`d = pcInv j`.  If that row was still a candidate and was *not* chosen (`pr d > j`), then its candidate
value relative to the pivot is `l = L (pr d) j`, and the largest candidate relative to the pivot is
`colMaxL`.  The diagonal had to be taken when `l ≠ 0 ∧ |l| ≥ u·max`; to stay clear of rounding in
`l = fl(c·fl(1/p))` the check only fires when `|l| ≥ u·max·(1 + mNum/mDen)` (margin rule).
Returns `true` when no column shows a clear breach. -/
def diagPrefColOk (n : Nat) (L : Mat) (one : Int) (pr pcInv : Nat → Nat) (uNum uDen mNum mDen : Int) (j : Nat) : Bool :=
  let r := pr (pcInv j)
  if j < r then
    let l := iabs (L r j)
    !(decide (l ≠ 0) && decide (l * uDen * mDen ≥ uNum * colMaxL n L one j * (mDen + mNum)))
  else true

def checkDiagPref (n : Nat) (L : Mat) (one : Int) (pr pcInv : Nat → Nat) (uNum uDen mNum mDen : Int) : Bool :=
  (List.range n).all fun j => diagPrefColOk n L one pr pcInv uNum uDen mNum mDen j

/-- C01 residual, one row: `|b_i - Σ_j A i j x_j|·2^s ≤ γ Σ_j W i j |x_j|`.
`W` is the bound matrix `Prᵀ|L||U|Pcᵀ` (see `boundW`; transposed when the library factored Aᵀ).
Scales: A, L, U, x by `2^E`; b by `2^(2E)`; `s = -E`. -/
def residRowOk (n : Nat) (A W : Mat) (b x : Vec) (s : Nat) (num den : Int) (i : Nat) : Bool :=
  decide (iabs (b i - sumTo n fun j => A i j * x j) * (2 : Int) ^ s * den
            ≤ num * sumTo n fun j => W i j * iabs (x j))

def checkResidual (n : Nat) (A W : Mat) (b x : Vec) (s : Nat) (num den : Int) : Bool :=
  (List.range n).all fun i => residRowOk n A W b x s num den i

/-- `(Prᵀ |L||U| Pcᵀ) i j = (|L||U|)(pr i, pc j)` -/
def boundW (n : Nat) (L U : Mat) (pr pc : Nat → Nat) : Mat := fun i j => absMulEntry n L U (pr i) (pc j)

def transposeM (A : Mat) : Mat := fun i j => A j i

end Slu
