/-
M-Read: executable model of the matrix file readers `?readhb`, `?readrb`, `?readmt` (SRC/?readhb.c,
SRC/?readrb.c, SRC/?readmt.c), statement by statement.

The input is the byte stream on stdin as `List Char` (one `Char` per byte).  Every C library call the
readers make is modelled on that stream:

* `fscanf(fp,"%kc",buf)`  = `takeN k`     (reads exactly `k` bytes, newlines included)
* `?DumpLine`             = `dumpLine`    (discard through the next '\n'; **spins forever at EOF**)
* `fgets(buf,100,fp)`     = `fgets`       (≤ 99 bytes, stops after '\n'; NULL at EOF, buffer unchanged)
* `atoi`                  = `atoiC`       (isspace*, sign, digits; the integer denoted; > int range = UB)
* `atof`                  = `atofC`       (isspace*, sign, digits[.digits][(e|E)[sign]digits]; the
                                          decimal `mant * 10^exp` denoted, 0 when no conversion)
* `scanf("%d")`,`"%lf"`   = `scanInt`, `scanFloat`

The result type is `Option`: `none` stands for *every* behaviour of the C code that is not a normal
return with determined arrays: an infinite loop (`perline = 0`, `DumpLine` at EOF), reads of
uninitialised / stale buffer bytes (field start beyond the line's terminator), writes outside
`buf[100]` / `title[80]` / the allocated arrays, `atoi` overflow, `exit(-1)`, non-decimal `strtod`
forms (hex, inf, nan).  On `some r` the C code returns exactly `r` (checked by correspondence).

Values are returned as exact decimals `(mant, exp)` meaning `mant * 10^exp` — no rounding in the model;
the tie to the C library's correctly rounded `strtod` is made by the check (checks/c20.py).
-/
namespace Slu.Read

abbrev Str := List Char

/-- C-locale `isspace`. -/
def isSpace (c : Char) : Bool :=
  c == ' ' || c == '\t' || c == '\n' || c == '\x0b' || c == '\x0c' || c == '\r'

def isDig (c : Char) : Bool := decide ('0' ≤ c) && decide (c ≤ '9')

def digVal (c : Char) : Nat := c.toNat - 48

def skipSpace : Str → Str
  | [] => []
  | c :: cs => if isSpace c then skipSpace cs else c :: cs

/-- longest prefix of decimal digits, and the rest. -/
def spanDigits : Str → Str × Str
  | [] => ([], [])
  | c :: cs => if isDig c then ((spanDigits cs).1.cons c, (spanDigits cs).2) else ([], c :: cs)

/-- the natural number denoted by a digit string (big-endian). -/
def valOf (ds : Str) : Nat := ds.foldl (fun a c => a * 10 + digVal c) 0

/-- optional sign: `(negative?, rest)`. -/
def takeSign : Str → Bool × Str
  | '-' :: r => (true, r)
  | '+' :: r => (false, r)
  | r => (false, r)

def applySign (neg : Bool) (v : Nat) : Int := if neg then -(v : Int) else (v : Int)

/-- `strtol(s, 0, 10)` as a mathematical integer. -/
def atoiZ (s : Str) : Int :=
  let sr := takeSign (skipSpace s)
  applySign sr.1 (valOf (spanDigits sr.2).1)

def inInt32 (v : Int) : Bool := decide (-2147483648 ≤ v) && decide (v ≤ 2147483647)

/-- `atoi` with `int_t = int`: out of range is undefined behaviour (`none`). -/
def atoiC (s : Str) : Option Int :=
  let v := atoiZ s
  if inInt32 v then some v else none

/-! ### `strtod` / `scanf("%lf")` on decimal input -/

def isExpLetter (c : Char) : Bool := c == 'e' || c == 'E'

/-- exponent part following the mantissa: `(exponent, rest, dangling)`, where `dangling` says an
`e`/`E` was present but not followed by `[sign]digit` (strtod then stops before the `e`; scanf fails). -/
def parseExp : Str → Int × Str × Bool
  | [] => (0, [], false)
  | c :: r =>
    if isExpLetter c then
      let sr := takeSign r
      let dr := spanDigits sr.2
      if dr.1.isEmpty then (0, c :: r, true) else (applySign sr.1 (valOf dr.1), dr.2, false)
    else (0, c :: r, false)

inductive FRes where
  | noconv                       -- no conversion could be performed
  | special                      -- inf / nan / hex forms: outside the model
  | val (neg : Bool) (mant : Nat) (exp : Int) (rest : Str) (dangling : Bool)
  deriving Repr, DecidableEq

def startsSpecial : Str → Bool
  | c :: _ => c == 'i' || c == 'I' || c == 'n' || c == 'N'
  | [] => false

def startsHex : Str → Bool
  | '0' :: c :: _ => c == 'x' || c == 'X'
  | _ => false

/-- parse after white space and sign have been removed. -/
def parseUnsigned (neg : Bool) (s : Str) : FRes :=
  if startsSpecial s || startsHex s then FRes.special else
  let ipr := spanDigits s
  let fpr : Str × Str := match ipr.2 with
    | '.' :: t => spanDigits t
    | t => ([], t)
  if ipr.1.isEmpty && fpr.1.isEmpty then FRes.noconv
  else
    let er := parseExp fpr.2
    FRes.val neg (valOf (ipr.1 ++ fpr.1)) (er.1 - (fpr.1.length : Int)) er.2.1 er.2.2

def parseFloat (s : Str) : FRes :=
  let sr := takeSign (skipSpace s)
  parseUnsigned sr.1 sr.2

/-- `atof`: the decimal `(mant, exp)` = `mant * 10^exp` denoted by the string; `(0,0)` when no
conversion is possible; `none` for inf/nan/hex forms. -/
def atofC (s : Str) : Option (Int × Int) :=
  match parseFloat s with
  | FRes.noconv => some (0, 0)
  | FRes.special => none
  | FRes.val neg m e _ _ => some (applySign neg m, e)

/-- `scanf("%d")`: skip white space, optional sign, at least one digit. -/
def scanInt (s : Str) : Option (Int × Str) :=
  let sr := takeSign (skipSpace s)
  let dr := spanDigits sr.2
  if dr.1.isEmpty then none
  else
    let v := applySign sr.1 (valOf dr.1)
    if inInt32 v then some (v, dr.2) else none

/-- `scanf("%lf")` / `"%f"`: as `strtod`, but a dangling exponent letter is a matching failure. -/
def scanFloat (s : Str) : Option ((Int × Int) × Str) :=
  match parseFloat s with
  | FRes.val neg m e rest dangling => if dangling then none else some ((applySign neg m, e), rest)
  | _ => none

/-! ### stdio primitives -/

/-- `fscanf(fp, "%kc", buf)`; a short read is always followed by a `DumpLine` at EOF (infinite loop). -/
def takeN (k : Nat) (s : Str) : Option (Str × Str) :=
  if s.length < k then none else some (s.take k, s.drop k)

/-- `while ((c = fgetc(fp)) != '\n') ;` — never returns at EOF. -/
def dumpLine : Str → Option Str
  | [] => none
  | c :: cs => if c == '\n' then some cs else dumpLine cs

/-- at most `k` bytes, stopping after a newline. -/
def fgetsAux : Nat → Str → Str × Str
  | 0, s => ([], s)
  | _ + 1, [] => ([], [])
  | k + 1, c :: cs =>
    if c == '\n' then ([c], cs) else ((fgetsAux k cs).1.cons c, (fgetsAux k cs).2)

/-- `fgets(buf, 100, fp)`: `none` = NULL (EOF, buffer untouched). -/
def fgets (s : Str) : Option (Str × Str) :=
  match s with
  | [] => none
  | _ => some (fgetsAux 99 s)

/-! ### format descriptors (`?ParseIntFormat`, `?ParseFloatFormat`) -/

/-- `while (*tmp++ != c) ;` — result points just after the first `c`; running off the string is UB. -/
def dropThrough (p : Char → Bool) : Str → Option Str
  | [] => none
  | c :: cs => if p c then some cs else dropThrough p cs

/-- `while (!p(*tmp)) ++tmp;` — result points at the first char satisfying `p`. -/
def dropUntil (p : Char → Bool) : Str → Option Str
  | [] => none
  | c :: cs => if p c then some (c :: cs) else dropUntil p cs

/-- prefix before the first char satisfying `p` (`none` if there is none). -/
def takeUntil (p : Char → Bool) : Str → Option Str
  | [] => none
  | c :: cs => if p c then some [] else (takeUntil p cs).map (List.cons c)

def isI (c : Char) : Bool := c == 'I' || c == 'i'

/-- `?ParseIntFormat(buf,&num,&size)`; `buf` is the C string at `buf`. -/
def parseIntFormat (buf : Str) : Option (Int × Int) :=
  match dropThrough (· == '(') buf with
  | none => none
  | some t =>
    match atoiC t, dropUntil isI t with
    | some num, some t2 =>
      match atoiC (t2.drop 1) with
      | some size => some (num, size)
      | none => none
    | _, _ => none

def isEDF (c : Char) : Bool :=
  c == 'E' || c == 'e' || c == 'D' || c == 'd' || c == 'F' || c == 'f'

def isP (c : Char) : Bool := c == 'p' || c == 'P'

/-- the scan for the edit letter, re-reading the repeat count after every `P`;
returns `(num, tmp)` with `tmp` pointing at the edit letter. -/
def pfLoop : Int → Str → Option (Int × Str)
  | _, [] => none
  | num, c :: cs =>
    if isEDF c then some (num, c :: cs)
    else if isP c then
      match atoiC cs with
      | some n => pfLoop n cs
      | none => none
    else pfLoop num cs

def isDotOrClose (c : Char) : Bool := c == '.' || c == ')'

/-- `?ParseFloatFormat(buf,&num,&size)`. -/
def parseFloatFormat (buf : Str) : Option (Int × Int) :=
  match dropThrough (· == '(') buf with
  | none => none
  | some t =>
    match atoiC t with
    | none => none
    | some num0 =>
      match pfLoop num0 t with
      | none => none
      | some (num, t2) =>
        match takeUntil isDotOrClose (t2.drop 1) with
        | none => none
        | some fld =>
          match atoiC fld with
          | some size => some (num, size)
          | none => none

/-! ### fixed-width slicing (`?ReadVector`, `?ReadValues`) -/

/-- The fields `j = off/w, …` of one buffered line.  `rest` is the C string starting at `buf[off]`.
Field `j` is `buf[j*w .. (j+1)*w)` cut at the terminator; writing the temporary NUL at `(j+1)*w ≥ 100`
is out of bounds; a field starting beyond the line's terminator reads stale bytes. -/
def fieldsFrom (w : Nat) : Nat → Nat → Str → Option (List Str)
  | 0, _, _ => some []
  | k + 1, off, rest =>
    if off + w ≥ 100 then none
    else if rest.length < w ∧ k ≠ 0 then none
    else (fieldsFrom w k (off + w) (rest.drop w)).map (List.cons (rest.take w))

/-- `while (i < n) { fgets; for (j=0; j<perline && i<n; j++) … }` — `fuel` bounds the number of lines
(one item at least per line, so `fuel = need` suffices). -/
def readItemsAux {α : Type} (conv : Str → Option α) (perline w : Nat) :
    Nat → Nat → Str → Option (List α × Str)
  | _, 0, s => some ([], s)
  | 0, _ + 1, _ => none
  | fuel + 1, need + 1, s =>
    match fgets s with
    | none => none
    | some (line, rest) =>
      let k := min perline (need + 1)
      if k = 0 then none
      else
        match fieldsFrom w k 0 line with
        | none => none
        | some fs =>
          match fs.mapM conv, readItemsAux conv perline w fuel (need + 1 - k) rest with
          | some vs, some (more, rest') => some (vs ++ more, rest')
          | _, _ => none

def readItems {α : Type} (conv : Str → Option α) (perline w : Int) (need : Nat) (s : Str) :
    Option (List α × Str) :=
  if need = 0 then some ([], s)
  else if perline ≤ 0 ∨ w < 0 then none
  else readItemsAux conv perline.toNat w.toNat need need s

/-- `where[i++] = atoi(field) - 1`. -/
def convIndex (f : Str) : Option Int :=
  match atoiC f with
  | some v => if inInt32 (v - 1) then some (v - 1) else none
  | none => none

def dToE (c : Char) : Char := if c == 'D' || c == 'd' then 'E' else c

/-- `D`→`E` over the field, then `atof`. -/
def convValue (f : Str) : Option (Int × Int) := atofC (f.map dToE)

/-! ### results -/

structure Mat where
  nrow : Int
  ncol : Int
  nnz : Int
  colptr : List Int
  rowind : List Int
  /-- `none`: the value section was not read (VALCRD = 0); for complex precisions real and imaginary
  parts alternate (`2*nnz` entries). -/
  vals : Option (List (Int × Int))
  deriving Repr, DecidableEq

/-- the three data sections common to HB and RB. -/
def readBody (cplx : Bool) (nrow ncol nonz numerLines : Int) (cfmt rfmt vfmt : Int × Int) (s : Str) :
    Option Mat :=
  if ncol < 0 ∨ nonz < 0 then none else
  match readItems convIndex cfmt.1 cfmt.2 (ncol.toNat + 1) s with
  | none => none
  | some (colptr, s1) =>
    match readItems convIndex rfmt.1 rfmt.2 nonz.toNat s1 with
    | none => none
    | some (rowind, s2) =>
      if numerLines = 0 then
        some { nrow, ncol, nnz := nonz, colptr, rowind, vals := none }
      else
        match readItems convValue vfmt.1 vfmt.2 ((if cplx then 2 else 1) * nonz.toNat) s2 with
        | none => none
        | some (vals, _) => some { nrow, ncol, nnz := nonz, colptr, rowind, vals := some vals }

/-- `k` consecutive `%14c` fields converted by `atoi`. -/
def take14s : Nat → Str → Option (List Int × Str)
  | 0, s => some ([], s)
  | k + 1, s =>
    match takeN 14 s with
    | none => none
    | some (f, s1) =>
      match atoiC f, take14s k s1 with
      | some v, some (vs, s2) => some (v :: vs, s2)
      | _, _ => none

/-- Line 1 of `?readhb`: `%72c` title, `%8c` key, DumpLine → `(title, rest)`. -/
def hbLine1 (inp : Str) : Option (Str × Str) :=
  match takeN 72 inp with
  | none => none
  | some (title, s) =>
    match takeN 8 s with
    | none => none
    | some (_, s1) =>
      match dumpLine s1 with
      | none => none
      | some s2 => some (title, s2)

/-- Line 2: `k` fields `%14c` → atoi, DumpLine. -/
def cardInts (k : Nat) (s : Str) : Option (List Int × Str) :=
  match take14s k s with
  | none => none
  | some (vs, s1) =>
    match dumpLine s1 with
    | none => none
    | some s2 => some (vs, s2)

/-- Line 3: `%3c` type, `%11c` pad, four `%14c` → atoi, DumpLine. -/
def line3 (s : Str) : Option (List Int × Str) :=
  match takeN 3 s with
  | none => none
  | some (_, s1) =>
    match takeN 11 s1 with
    | none => none
    | some (_, s2) => cardInts 4 s2

/-- Line 4 of `?readhb`: the format fields overwrite the start of `buf`; the title's tail is still behind
them (`buf[72] = 0`). -/
def hbLine4 (title s : Str) : Option (((Int × Int) × (Int × Int) × (Int × Int)) × Str) :=
  match takeN 16 s with
  | none => none
  | some (pf, s1) =>
    match parseIntFormat (pf ++ title.drop 16), takeN 16 s1 with
    | some cfmt, some (rf, s2) =>
      match parseIntFormat (rf ++ title.drop 16), takeN 20 s2 with
      | some rfmt, some (vf, s3) =>
        match parseFloatFormat (vf ++ title.drop 20), takeN 20 s3 with
        | some vfmt, some (_, s4) =>
          match dumpLine s4 with
          | none => none
          | some s5 => some ((cfmt, rfmt, vfmt), s5)
        | _, _ => none
      | _, _ => none
    | _, _ => none

/-- `?readhb`. -/
def readHB (cplx : Bool) (inp : Str) : Option Mat :=
  match hbLine1 inp with
  | none => none
  | some (title, s1) =>
    match cardInts 5 s1 with
    | none => none
    | some (l2, s2) =>
      match line3 s2 with
      | none => none
      | some (l3, s3) =>
        match hbLine4 title s3 with
        | none => none
        | some ((cfmt, rfmt, vfmt), s4) =>
          -- Line 5: present iff RHSCRD ≠ 0
          match (if l2.getD 4 0 ≠ 0 then dumpLine s4 else some s4) with
          | none => none
          | some s5 => readBody cplx (l3.getD 0 0) (l3.getD 1 0) (l3.getD 2 0) (l2.getD 3 0) cfmt rfmt vfmt s5

def lastIsDig (s : Str) : Bool :=
  match s.getLast? with
  | some c => isDig c
  | none => false

/-- what lies in `buf` behind a `%kc` field in `?readrb`: the tail of line 1 (read by `fgets`) when that
line had at least `k` bytes, indeterminate stack bytes otherwise.  The parsers return `none` when they run
off the end of the string, so an indeterminate tail is represented by `[]`, except that a field ending in
a digit would let `atoi` read on into it (`none`). -/
def rbTail (l1 : Str) (k : Nat) (fld : Str) : Option Str :=
  if l1.length ≥ k then some (l1.drop k) else if lastIsDig fld then none else some []

/-- Line 4 of `?readrb`. -/
def rbLine4 (l1 s : Str) : Option (((Int × Int) × (Int × Int) × (Int × Int)) × Str) :=
  match takeN 16 s with
  | none => none
  | some (pf, s1) =>
    match rbTail l1 16 pf, takeN 16 s1 with
    | some t1, some (rf, s2) =>
      match parseIntFormat (pf ++ t1), rbTail l1 16 rf, takeN 20 s2 with
      | some cfmt, some t2, some (vf, s3) =>
        match parseIntFormat (rf ++ t2), rbTail l1 20 vf with
        | some rfmt, some t3 =>
          match parseFloatFormat (vf ++ t3), dumpLine s3 with
          | some vfmt, some s4 => some ((cfmt, rfmt, vfmt), s4)
          | _, _ => none
        | _, _ => none
      | _, _, _ => none
    | _, _ => none

/-- `?readrb`.  Line 1 is read by `fgets(buf,100)`; its bytes beyond the later `%kc` overwrites are
still in `buf` when the format fields are parsed. -/
def readRB (cplx : Bool) (inp : Str) : Option Mat :=
  match fgets inp with
  | none => none
  | some (l1, s1) =>
    match cardInts 4 s1 with
    | none => none
    | some (l2, s2) =>
      match line3 s2 with
      | none => none
      | some (l3, s3) =>
        match rbLine4 l1 s3 with
        | none => none
        | some ((cfmt, rfmt, vfmt), s4) =>
          readBody cplx (l3.getD 0 0) (l3.getD 1 0) (l3.getD 2 0) (l2.getD 3 0) cfmt rfmt vfmt s4

/-! ### `?readmt` -/

/-- `dumptitle`: bytes up to the newline go to `title[80]` followed by a NUL. -/
def mtTitle (s : Str) : Option Str :=
  match takeUntil (· == '\n') s with
  | none => none
  | some t => if t.length ≥ 80 then none else some (s.drop (t.length + 1))

/-- `k` entries `scanf("%d%lf\n")` (`"%d%lf%lf\n"` for complex) of one column; `lasta < nonz` is needed
for every store. -/
def mtEntries (cplx : Bool) (nonz : Int) :
    Nat → Int → Str → Option (List Int × List (Int × Int) × Int × Str)
  | 0, lasta, s => some ([], [], lasta, s)
  | k + 1, lasta, s =>
    if lasta ≥ nonz then none else
    match scanInt s with
    | none => none
    | some (r, s1) =>
      if !inInt32 (r - 1) then none else
      match scanFloat s1 with
      | none => none
      | some (re, s2) =>
        if cplx then
          match scanFloat s2 with
          | none => none
          | some (im, s3) =>
            match mtEntries cplx nonz k (lasta + 1) (skipSpace s3) with
            | none => none
            | some (rs, vs, l, s4) => some ((r - 1) :: rs, re :: im :: vs, l, s4)
        else
          match mtEntries cplx nonz k (lasta + 1) (skipSpace s2) with
          | none => none
          | some (rs, vs, l, s4) => some ((r - 1) :: rs, re :: vs, l, s4)

/-- the loop over columns: `(colptr[0..n), rowind, vals, lasta)`. -/
def mtCols (cplx : Bool) (nonz : Int) :
    Nat → Int → Str → Option (List Int × List Int × List (Int × Int) × Int)
  | 0, lasta, _ => some ([], [], [], lasta)
  | n + 1, lasta, s =>
    match scanInt s with
    | none => none
    | some (cnt, s1) =>
      match mtEntries cplx nonz cnt.toNat lasta s1 with
      | none => none
      | some (rs, vs, l, s2) =>
        match mtCols cplx nonz n l s2 with
        | none => none
        | some (ptr, rs', vs', l') => some (lasta :: ptr, rs ++ rs', vs ++ vs', l')

/-- `?readmt`. -/
def readMT (cplx : Bool) (inp : Str) : Option Mat := do
  let s ← mtTitle inp
  let (m, s) ← scanInt s
  let (n, s) ← scanInt s
  let (nonz, s) ← scanInt s
  if n < 0 ∨ nonz < 0 then none else
  let (ptr, rs, vs, lasta) ← mtCols cplx nonz n.toNat 0 s
  some { nrow := m, ncol := n, nnz := nonz, colptr := ptr ++ [lasta], rowind := rs, vals := some vs }

/-- NUL bytes would end C strings early: outside the model. -/
def hasNul (s : Str) : Bool := s.any (· == '\x00')

/-- entry point used by the driver: `fmt` 0 = HB, 1 = RB, 2 = MT. -/
def readFile (fmt : Nat) (cplx : Bool) (inp : Str) : Option Mat :=
  if hasNul inp then none
  else match fmt with
    | 0 => readHB cplx inp
    | 1 => readRB cplx inp
    | _ => readMT cplx inp

end Slu.Read
