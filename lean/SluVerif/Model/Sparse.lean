/-
M-Sparse: the supernodal L (`SCPformat`) and column U (`NCPformat`) exactly as `pxgstrf_thread_finalize`
hands them back, the well-formedness predicate of property C09 as an executable check, and the dense
matrices they denote.  Values are integers (dyadic values on a common scale, see Check.lean).
-/
import SluVerif.Model.Perm
import SluVerif.Model.Check
namespace Slu

/-- One supernode of L as dumped: columns `[f,e)`, the row list of its first column (already in the
pivoted row numbering), the begin offset of that list in `rowind`, and for every column its value
extent begin and its values (length = number of rows). -/
structure Snode where
  f : Nat
  e : Nat
  rowBeg : Int
  rows : Array Int
  nzBeg : Array Int           -- per column of the supernode
  vals : Array (Array Int)    -- per column, `rows.size` values
  deriving Repr, Inhabited

structure SCP where
  n : Nat
  nnz : Int
  nsuper : Int               -- stored value: number of supernodes - 1
  colToSup : Array Int
  supBeg : Array Int
  supEnd : Array Int
  rowBegA : Array Int        -- rowind_colbeg (per column)
  rowEndA : Array Int
  nzBegA : Array Int
  nzEndA : Array Int
  sn : Array Snode
  deriving Repr, Inhabited

structure UCol where
  beg : Int
  rows : Array Int
  vals : Array Int
  deriving Repr, Inhabited

structure NCP where
  n : Nat
  nnz : Int
  cols : Array UCol
  deriving Repr, Inhabited

/-- extents `[b, b+len)` pairwise disjoint (quadratic; extents are few). -/
def disjointExtents (xs : List (Int × Int)) : Bool :=
  match xs with
  | [] => true
  | (b, l) :: rest => rest.all (fun (b', l') => l = 0 || l' = 0 || decide (b + l ≤ b') || decide (b' + l' ≤ b))
                      && disjointExtents rest

/-- per-supernode conditions of C09 -/
def Snode.wf (n : Nat) (s : Snode) : Bool :=
  let w := s.e - s.f
  decide (s.f < s.e) && decide (s.e ≤ n) && decide (w ≤ s.rows.size) && decide (0 ≤ s.rowBeg)
  -- own columns first, in order
  && (List.range w).all (fun k => geti s.rows k == ((s.f + k : Nat) : Int))
  -- then distinct larger in-range rows
  && ((s.rows.toList.drop w).all fun r => decide ((s.e : Int) ≤ r) && decide (r < (n : Int)))
  && decide (s.rows.toList.drop w).Nodup
  -- values: one rectangle, column major, leading dimension = #rows
  && s.vals.size == w && s.nzBeg.size == w
  && (List.range w).all (fun k => (s.vals.getD k #[]).size == s.rows.size
        && geti s.nzBeg k == geti s.nzBeg 0 + ((k * s.rows.size : Nat) : Int))
  && decide (0 ≤ geti s.nzBeg 0)

def SCP.numSnodes (L : SCP) : Nat := (L.nsuper + 1).toNat

/-- supernodes partition the columns into contiguous ranges with consistent maps.  Supernode
*numbers* need not increase with the column index (with several threads they are handed out in
completion order); what the solves need is `depOrderOk` below. -/
def SCP.partitionOk (L : SCP) : Bool :=
  let ns := L.numSnodes
  decide (0 ≤ L.nsuper + 1) && L.sn.size == ns && L.colToSup.size == L.n
  && L.supBeg.size == ns && L.supEnd.size == ns
  && (L.sn.foldl (fun acc s => acc + (s.e - s.f)) 0) == L.n
  && (List.range ns).all (fun s =>
        let sn := L.sn.getD s default
        geti L.supBeg s == (sn.f : Int) && geti L.supEnd s == (sn.e : Int)
        && decide (sn.f < sn.e) && decide (sn.e ≤ L.n)
        && (List.range (sn.e - sn.f)).all (fun k => geti L.colToSup (sn.f + k) == (s : Int))
        -- per-column pointer arrays agree with what the supernode dump used
        && geti L.rowBegA sn.f == sn.rowBeg && geti L.rowEndA sn.f == sn.rowBeg + (sn.rows.size : Int)
        && (List.range (sn.e - sn.f)).all (fun k =>
              geti L.nzBegA (sn.f + k) == geti sn.nzBeg k
              && geti L.nzEndA (sn.f + k) == geti sn.nzBeg k + (sn.rows.size : Int)))

/-- visiting supernodes in index order respects the triangular dependencies: every sub-diagonal row
of supernode `s` belongs to a supernode numbered after `s` (forward sweep with L, backward with Lᵀ). -/
def SCP.depOrderOk (L : SCP) : Bool :=
  (List.range L.sn.size).all fun s =>
    let sn := L.sn.getD s default
    (sn.rows.toList.drop (sn.e - sn.f)).all fun r => decide ((s : Int) < geti L.colToSup r.toNat)

/-- number of stored entries of L counted the way `countnz` does: column `j` of a supernode with
`r` rows holds `r - (j - f)` entries of L (unit diagonal included). -/
def SCP.countL (L : SCP) : Int :=
  L.sn.foldl (fun acc s => acc + ((List.range (s.e - s.f)).map (fun (k : Nat) => (s.rows.size : Int) - (k : Int))).sum) 0
/-- entries of U living in the supernode rectangles (upper triangle incl. diagonal). -/
def SCP.countUdiag (L : SCP) : Int :=
  L.sn.foldl (fun acc s => acc + ((List.range (s.e - s.f)).map (fun (k : Nat) => ((k : Int) + 1))).sum) 0

/-- every column lies inside the supernode its `col_to_sup` entry names -/
def SCP.colsCovered (L : SCP) : Bool :=
  (List.range L.n).all fun j =>
    let s := geti L.colToSup j
    decide (0 ≤ s) && decide (s.toNat < L.sn.size) &&
      decide ((L.sn.getD s.toNat default).f ≤ j) && decide (j < (L.sn.getD s.toNat default).e)

/-- the conjuncts of `SCP.wf`, separately (diagnostics for replay files) -/
def SCP.wfParts (L : SCP) : List Bool :=
  [L.partitionOk, L.sn.all (fun s => s.wf L.n),
   disjointExtents (L.sn.toList.map fun s => (s.rowBeg, (s.rows.size : Int))),
   disjointExtents (L.sn.toList.map fun s => (geti s.nzBeg 0, ((s.rows.size * (s.e - s.f) : Nat) : Int))),
   L.nnz == L.countL, L.depOrderOk, L.colsCovered]

def SCP.wf (L : SCP) : Bool :=
  L.partitionOk && L.sn.all (fun s => s.wf L.n)
  && disjointExtents (L.sn.toList.map fun s => (s.rowBeg, (s.rows.size : Int)))
  && disjointExtents (L.sn.toList.map fun s => (geti s.nzBeg 0, ((s.rows.size * (s.e - s.f) : Nat) : Int)))
  && L.nnz == L.countL && L.depOrderOk && L.colsCovered

/-- first column of the supernode containing column `j` -/
def SCP.fsupc (L : SCP) (j : Nat) : Nat := (L.sn.getD (geti L.colToSup j).toNat default).f

def NCP.wf (U : NCP) (L : SCP) : Bool :=
  U.n == L.n && U.cols.size == U.n
  && (List.range U.n).all (fun j =>
        let c := U.cols.getD j default
        c.rows.size == c.vals.size && decide (0 ≤ c.beg)
        && c.rows.toList.all (fun r => decide (0 ≤ r) && decide (r < (L.fsupc j : Int))
              && decide (geti L.colToSup r.toNat < geti L.colToSup j))
        && decide c.rows.toList.Nodup)
  && disjointExtents (U.cols.toList.map fun c => (c.beg, (c.rows.size : Int)))
  && U.nnz == (U.cols.foldl (fun acc c => acc + (c.rows.size : Int)) 0) + L.countUdiag

/-- position of row `i` in a row list -/
def rowPos (rows : Array Int) (i : Nat) : Option Nat :=
  let k := rows.toList.idxOf (i : Int)
  if k < rows.size then some k else none

/-- dense L: unit diagonal (`one` = scaled representation of 1.0), strictly-lower part of each supernode rectangle -/
def SCP.entryL (L : SCP) (one : Int) (i j : Nat) : Int :=
  if i = j then one else
  let s := L.sn.getD (geti L.colToSup j).toNat default
  match rowPos s.rows i with
  | some k => if j - s.f < k then geti (s.vals.getD (j - s.f) #[]) k else 0
  | none => 0

/-- dense U: upper triangle of the supernode rectangle, plus the NCP columns -/
def entryU (L : SCP) (U : NCP) (i j : Nat) : Int :=
  let s := L.sn.getD (geti L.colToSup j).toNat default
  match rowPos s.rows i with
  | some k => if k ≤ j - s.f then geti (s.vals.getD (j - s.f) #[]) k else 0
  | none =>
    let c := U.cols.getD j default
    match rowPos c.rows i with
    | some k => geti c.vals k
    | none => 0

/-- tabulate an `n × n` function into arrays (driver-side speed-up).  Kept as data + accessor: a
definition returning a closure would be eta-expanded by the compiler and re-tabulate on every call. -/
def tabArr (n : Nat) (f : Nat → Nat → Int) : Array (Array Int) :=
  Array.ofFn (n := n) fun i => Array.ofFn (n := n) fun j => f i.val j.val

@[inline] def getM (arr : Array (Array Int)) (i j : Nat) : Int := (arr.getD i #[]).getD j 0

theorem getM_tabArr (n : Nat) (f : Nat → Nat → Int) (i j : Nat) (hi : i < n) (hj : j < n) :
    getM (tabArr n f) i j = f i j := by
  simp [getM, tabArr, Array.getD, hi, hj]

end Slu
