/-
An independent, executable *writer* of Harwell-Boeing / Rutherford-Boeing card images, used only to STATE
the round-trip theorems of C20 (`readHB (writeHB …) = some …`).  It is written from the format definition
(Fortran `nIw` / `[kP]n(E|D|F)w.d` edit descriptors, right-justified fields, `perline` fields per card,
1-based indices), not from the reader model, and it is Mathlib-free so it can be `#eval`ed.
-/
import SluVerif.Model.Read
namespace Slu.Read

def digitChar (d : Nat) : Char := Char.ofNat (48 + d)

/-- decimal digits of `k`, most significant first, no leading zeros (`"0"` for 0). -/
def natDigits (k : Nat) : Str :=
  if k < 10 then [digitChar k] else natDigits (k / 10) ++ [digitChar (k % 10)]
decreasing_by omega

def blanks (k : Nat) : Str := List.replicate k ' '

/-- right-justify in a field of width `w` (Fortran `Iw`, `Ew.d` …). -/
def padLeft (w : Nat) (s : Str) : Str := blanks (w - s.length) ++ s

/-- left-justify (character fields `A16`, `A20`). -/
def padRight (w : Nat) (s : Str) : Str := s ++ blanks (w - s.length)

/-- `Iw` edit of a natural number. -/
def fmtInt (w k : Nat) : Str := padLeft w (natDigits k)

/-- `Iw` edit of an integer. -/
def fmtIntZ (w : Nat) (z : Int) : Str :=
  if z < 0 then padLeft w ('-' :: natDigits z.natAbs) else padLeft w (natDigits z.natAbs)

/-- cards of `perline` fields each, every card followed by `trail` (padding) and a newline.
`fuel` bounds the number of cards (`fields.length` suffices). -/
def writeItems (perline : Nat) (trail : Str) : Nat → List Str → Str
  | _, [] => []
  | 0, _ :: _ => []
  | fuel + 1, f :: fs =>
    ((f :: fs).take perline).flatten ++ trail ++ '\n' :: writeItems perline trail fuel ((f :: fs).drop perline)

/-- an integer edit descriptor `(nIw)`. -/
structure IntDesc where
  pre : Str := []          -- blanks before the parenthesis
  n : Nat                  -- repeat count = fields per card
  letter : Char := 'I'     -- 'I' or 'i'
  w : Nat

def IntDesc.text (d : IntDesc) : Str :=
  d.pre ++ '(' :: natDigits d.n ++ d.letter :: natDigits d.w ++ [')']

/-- a real edit descriptor `([kP]nXw.d…)`. -/
structure RealDesc where
  pre : Str := []
  scale : Option (Nat × Char) := none   -- `kP`
  n : Nat
  letter : Char := 'E'                  -- E e D d F f
  w : Nat
  rest : Str := ['.', '8', ')']         -- from the '.' (or ')') on: ".d)", ".dE3)", ")"

def RealDesc.text (d : RealDesc) : Str :=
  d.pre ++ '(' :: (match d.scale with | some (k, p) => natDigits k ++ [p] | none => []) ++
    natDigits d.n ++ d.letter :: natDigits d.w ++ d.rest

/-- a printed decimal `[sign] ip . fp [letter [sign] digits]`. -/
structure ExpPart where
  letter : Char            -- E e D d
  neg : Bool
  plus : Bool              -- explicit '+'
  ds : Str                 -- exponent digits
  deriving Repr, DecidableEq

structure Dec where
  neg : Bool
  plus : Bool              -- explicit '+' (ignored when `neg`)
  ip : Str                 -- digits before the point (may be empty)
  fp : Str                 -- digits after the point (may be empty)
  ex : Option ExpPart
  deriving Repr, DecidableEq

def signStr (neg plus : Bool) : Str := if neg then ['-'] else if plus then ['+'] else []

def ExpPart.text (e : ExpPart) : Str := e.letter :: signStr e.neg e.plus ++ e.ds

def Dec.text (d : Dec) : Str :=
  signStr d.neg d.plus ++ d.ip ++ '.' :: d.fp ++ (match d.ex with | some e => e.text | none => [])

/-- the exact decimal `(mant, exp)` = `mant * 10^exp` a printed decimal denotes. -/
def Dec.value (d : Dec) : Int × Int :=
  (applySign d.neg (valOf (d.ip ++ d.fp)),
   (match d.ex with | some e => applySign e.neg (valOf e.ds) | none => 0) - (d.fp.length : Int))

/-- everything the Harwell-Boeing writer is told. -/
structure HBFile where
  title : Str              -- 72 characters
  key : Str                -- 8 characters
  trail : Str              -- padding after every card
  totcrd : Nat
  ptrcrd : Nat
  indcrd : Nat
  valcrd : Nat
  rhscrd : Nat
  mxtype : Str             -- 3 characters
  pad11 : Str              -- 11 characters
  nrow : Nat
  ncol : Nat
  nnz : Nat
  neltvl : Nat
  ptrfmt : IntDesc
  indfmt : IntDesc
  valfmt : RealDesc
  rhsfmt : Str             -- 20 characters
  rhsline : Str            -- card 5 (written iff rhscrd > 0)
  colptr : List Nat        -- 0-based
  rowind : List Nat        -- 0-based
  vals : List Dec
  after : Str              -- whatever follows (right-hand sides …)

def card (body trail : Str) : Str := body ++ trail ++ ['\n']

def writeHB (f : HBFile) : Str :=
  card (f.title ++ f.key) f.trail ++
  card (fmtInt 14 f.totcrd ++ fmtInt 14 f.ptrcrd ++ fmtInt 14 f.indcrd ++ fmtInt 14 f.valcrd ++ fmtInt 14 f.rhscrd) f.trail ++
  card (f.mxtype ++ f.pad11 ++ fmtInt 14 f.nrow ++ fmtInt 14 f.ncol ++ fmtInt 14 f.nnz ++ fmtInt 14 f.neltvl) f.trail ++
  card (padRight 16 f.ptrfmt.text ++ padRight 16 f.indfmt.text ++ padRight 20 f.valfmt.text ++ f.rhsfmt) f.trail ++
  (if f.rhscrd = 0 then [] else card f.rhsline []) ++
  writeItems f.ptrfmt.n f.trail f.colptr.length (f.colptr.map fun p => fmtInt f.ptrfmt.w (p + 1)) ++
  writeItems f.indfmt.n f.trail f.rowind.length (f.rowind.map fun i => fmtInt f.indfmt.w (i + 1)) ++
  writeItems f.valfmt.n f.trail f.vals.length (f.vals.map fun v => padLeft f.valfmt.w v.text) ++
  f.after

/-- Rutherford-Boeing: `(A72,A8) / (I14,3(1X,I13)) / (A3,11X,4(1X,I13)) / (2A16,A20)`. -/
structure RBFile where
  title : Str              -- 72 + 8 characters, free
  trail : Str
  totcrd : Nat
  ptrcrd : Nat
  indcrd : Nat
  valcrd : Nat
  mxtype : Str             -- 3 characters
  pad11 : Str              -- 11 characters
  nrow : Nat
  ncol : Nat
  nnz : Nat
  neltvl : Nat
  ptrfmt : IntDesc
  indfmt : IntDesc
  valfmt : RealDesc
  colptr : List Nat
  rowind : List Nat
  vals : List Dec
  after : Str

def x13 (k : Nat) : Str := ' ' :: fmtInt 13 k

def writeRB (f : RBFile) : Str :=
  card f.title f.trail ++
  card (fmtInt 14 f.totcrd ++ x13 f.ptrcrd ++ x13 f.indcrd ++ x13 f.valcrd) f.trail ++
  card (f.mxtype ++ f.pad11 ++ x13 f.nrow ++ x13 f.ncol ++ x13 f.nnz ++ x13 f.neltvl) f.trail ++
  card (padRight 16 f.ptrfmt.text ++ padRight 16 f.indfmt.text ++ padRight 20 f.valfmt.text) f.trail ++
  writeItems f.ptrfmt.n f.trail f.colptr.length (f.colptr.map fun p => fmtInt f.ptrfmt.w (p + 1)) ++
  writeItems f.indfmt.n f.trail f.rowind.length (f.rowind.map fun i => fmtInt f.indfmt.w (i + 1)) ++
  writeItems f.valfmt.n f.trail f.vals.length (f.vals.map fun v => padLeft f.valfmt.w v.text) ++
  f.after

/-! ### the `?readmt` column-list text form -/

/-- one `index value` (`index re im` for complex) pair with the white space around it. -/
structure MTEntry where
  pre : Str := []          -- white space before the row index
  row : Nat                -- 0-based
  mid : Str := [' ']       -- white space (non-empty) before the value
  re : Dec
  mid2 : Str := [' ']      -- complex: white space (non-empty) before the imaginary part
  im : Dec := re           -- complex only
  post : Str := ['\n']     -- white space (non-empty) after the entry

def MTEntry.text (cplx : Bool) (e : MTEntry) : Str :=
  e.pre ++ (natDigits (e.row + 1) ++ (e.mid ++ (e.re.text ++
    ((if cplx then e.mid2 ++ e.im.text else []) ++ e.post))))

def MTEntry.values (cplx : Bool) (e : MTEntry) : List (Int × Int) :=
  if cplx then [e.re.value, e.im.value] else [e.re.value]

structure MTCol where
  pre : Str := []          -- white space before the count
  post : Str := ['\n']     -- white space (non-empty) after the count
  entries : List MTEntry

def MTCol.text (cplx : Bool) (c : MTCol) : Str :=
  c.pre ++ (natDigits c.entries.length ++ (c.post ++ (c.entries.map (MTEntry.text cplx)).flatten))

structure MTFile where
  title : Str              -- up to 79 characters
  pre : Str := []
  nrow : Nat
  sep1 : Str := [' ']
  sep2 : Str := [' ']
  nnz : Nat
  post : Str := ['\n']
  cols : List MTCol        -- ncol = cols.length
  after : Str := []

def writeMT (cplx : Bool) (f : MTFile) : Str :=
  f.title ++ '\n' :: (f.pre ++ (natDigits f.nrow ++ (f.sep1 ++ (natDigits f.cols.length ++ (f.sep2 ++
    (natDigits f.nnz ++ (f.post ++ ((f.cols.map (MTCol.text cplx)).flatten ++ f.after))))))))

/-- column pointers: running sums of the column counts, starting at `start`. -/
def mtColptr : Nat → List MTCol → List Int
  | start, [] => [(start : Int)]
  | start, c :: cs => (start : Int) :: mtColptr (start + c.entries.length) cs

def mtRows (cs : List MTCol) : List Int :=
  (cs.map fun c => c.entries.map fun e => (e.row : Int)).flatten

def mtVals (cplx : Bool) (cs : List MTCol) : List (Int × Int) :=
  (cs.map fun c => (c.entries.map (MTEntry.values cplx)).flatten).flatten

def mtCount (cs : List MTCol) : Nat := (cs.map fun c => c.entries.length).sum

end Slu.Read
