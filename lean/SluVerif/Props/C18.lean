/-
C18 — calls are independent of what was factored before: the allocator's file-static state (whichspace, stack).
The other persistent state (the static GlobalLU_t per precision, the expander table, ?lacon's statics) is covered by the
fresh-process differential only.
-/
import SluVerif.Model.UserStack
namespace Slu

/-- in system mode the worker operations neither read nor change the stack descriptor -/
theorem ustep_system (K : UParams) (u : UState) (op : UOp) (hm : u.mode = .system) (hw : workerOp op = true) :
    (ustep K u op).1 = u ∧ (ustep K u op).2 = (match op with | .wi _ _ => UOut.sysWork | _ => UOut.unit) := by
  cases op <;> simp [workerOp] at hw <;> simp [ustep, hm]

theorem urun_system (K : UParams) (ops : List UOp) (hw : ∀ op ∈ ops, workerOp op = true) :
    ∀ u u' : UState, u.mode = .system → u'.mode = .system → urun K u ops = urun K u' ops := by
  induction ops with
  | nil => intros; rfl
  | cons op ops ih =>
    intro u u' hm hm'
    have h1 := ustep_system K u op hm (hw op (List.mem_cons_self))
    have h2 := ustep_system K u' op hm' (hw op (List.mem_cons_self))
    unfold urun
    simp only
    rw [h1.1, h2.1, h1.2, h2.2]
    congr 1
    exact ih (fun o ho => hw o (List.mem_cons_of_mem _ ho)) u u' hm hm'

/-- **A first-time call does not see what earlier calls left in the allocator's file-static state.**  Whatever the descriptor
and mode were (`old`, `old'`), after `p?gstrf_SetupSpace(work, lwork)` with `lwork ≥ 0` the outputs of every sequence of
operations of the factorization are the same: with a caller buffer every field is reset, without one the system allocator is
selected and the stale descriptor is never consulted. -/
theorem fresh_call_independent (K : UParams) (old old' : UState) (lwork : Int) (h : 0 ≤ lwork) (ops : List UOp)
    (hops : lwork = 0 → ∀ op ∈ ops, workerOp op = true) :
    urun K (setupSpace old lwork) ops = urun K (setupSpace old' lwork) ops := by
  by_cases h0 : lwork = 0
  · apply urun_system K ops (hops h0) <;> simp [setupSpace, h0]
  · have hp : lwork > 0 := by omega
    have e : setupSpace old lwork = setupSpace old' lwork := by simp [setupSpace, h0, hp]
    rw [e]

/-- the stale-mode variant (a `SetupSpace` that does not re-establish SYSTEM for `lwork = 0`, as in seeded change C14) is
history dependent: after a call with a caller buffer the next call without one still allocates from that buffer -/
def setupSpaceStale (old : UState) (lwork : Int) : UState :=
  if lwork > 0 then { mode := .user, st := UStack.setup lwork } else old

example : let K : UParams := { iword := 4, dword := 8, maxsuper := 4, rowblk := 4, base8 := 0 }
    urun K (setupSpaceStale (setupSpaceStale ⟨.system, UStack.setup 0⟩ 100000) 0) [.wi 5 1] ≠
    urun K (setupSpaceStale ⟨.system, UStack.setup 0⟩ 0) [.wi 5 1] := by decide

end Slu
