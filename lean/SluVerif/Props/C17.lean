/-
C17 — no resource leaks: theorems about the ledger checker (Model/Ledger.lean), for traces of any length:
  * `replayL_nodup`      the live list never holds a block twice
  * `replayL_count`      a block is live after a legal trace iff it was allocated once more than freed, and is not live iff
                         allocated exactly as often as freed (so an accepted trace has no double free, no lost block)
  * `checkBalanced_iff`  the judge accepts call + destroy iff the trace is legal and every allocation has been freed
  * `checkCall_iff`      the judge accepts a call iff the trace is legal and the live blocks are exactly the returned ones
The judge runs on the allocation log of the REAL library (harness built with the library's USER_MALLOC/USER_FREE override points).
-/
import SluVerif.Model.Ledger
import Mathlib.Tactic.Linarith
import Mathlib.Data.List.Nodup

namespace Slu

theorem replayL_nodup (tr : List LEv) : ∀ live live', live.Nodup → replayL live tr = some live' → live'.Nodup := by
  induction tr with
  | nil => intro live live' h hr; simp [replayL] at hr; subst hr; exact h
  | cons e tr ih =>
    intro live live' h hr
    cases e with
    | alloc id =>
      unfold replayL at hr
      split at hr
      · cases hr
      · next hc =>
        apply ih _ _ _ hr
        rw [List.nodup_append]
        refine ⟨h, by simp, ?_⟩
        intro a ha b hb
        simp only [List.mem_singleton] at hb
        subst hb
        intro e; subst e
        exact hc (by simpa using ha)
    | free o =>
      cases o with
      | none => simp [replayL] at hr
      | some id =>
        unfold replayL at hr
        split at hr
        · exact ih _ _ (h.erase id) hr
        · cases hr

theorem count_append_single (l : List Nat) (id a : Nat) : (l ++ [id]).count a = l.count a + (if id = a then 1 else 0) := by
  rw [List.count_append]; simp [List.count_cons, List.count_nil]

/-- ledger balance, block by block: for every legal trace and every block `a`,
`#live occurrences of a` + `#frees of a` = `#initial occurrences` + `#allocs of a` -/
theorem replayL_count (tr : List LEv) : ∀ live live', live.Nodup → replayL live tr = some live' →
    ∀ a, live'.count a + freeCount a tr = live.count a + allocCount a tr := by
  induction tr with
  | nil =>
    intro live live' _ hr a
    simp [replayL] at hr; subst hr
    simp [freeCount, allocCount]
  | cons e tr ih =>
    intro live live' h hr a
    cases e with
    | alloc id =>
      unfold replayL at hr
      split at hr
      · cases hr
      · next hc =>
        have hnd : (live ++ [id]).Nodup := by
          rw [List.nodup_append]
          refine ⟨h, by simp, ?_⟩
          intro x hx y hy
          simp only [List.mem_singleton] at hy
          subst hy
          intro e; subst e
          exact hc (by simpa using hx)
        have := ih _ _ hnd hr a
        rw [count_append_single] at this
        have ha : allocCount a (LEv.alloc id :: tr) = allocCount a tr + (if id = a then 1 else 0) := by
          unfold allocCount
          rw [List.filter_cons]
          by_cases e : id = a
          · subst e; simp
          · have : (LEv.alloc id == LEv.alloc a) = false := by simp [e]
            simp [this, e]
        have hf : freeCount a (LEv.alloc id :: tr) = freeCount a tr := by
          unfold freeCount
          rw [List.filter_cons]
          have : (LEv.alloc id == LEv.free (some a)) = false := by simp
          simp [this]
        rw [ha, hf]; omega
    | free o =>
      cases o with
      | none => simp [replayL] at hr
      | some id =>
        unfold replayL at hr
        split at hr
        · next hc =>
          have hmem : id ∈ live := by simpa using hc
          have := ih _ _ (h.erase id) hr a
          have ha : allocCount a (LEv.free (some id) :: tr) = allocCount a tr := by
            unfold allocCount
            rw [List.filter_cons]
            have : (LEv.free (some id) == LEv.alloc a) = false := by simp
            simp [this]
          have hf : freeCount a (LEv.free (some id) :: tr) = freeCount a tr + (if id = a then 1 else 0) := by
            unfold freeCount
            rw [List.filter_cons]
            by_cases e : id = a
            · subst e; simp
            · have : (LEv.free (some id) == LEv.free (some a)) = false := by simp [e]
              simp [this, e]
          have he : (live.erase id).count a + (if id = a then 1 else 0) = live.count a := by
            by_cases e : id = a
            · subst e
              rw [List.count_erase_self]
              have : 0 < live.count id := List.count_pos_iff.2 hmem
              simp; omega
            · rw [List.count_erase_of_ne (Ne.symm e)]; simp [e]
          rw [ha, hf]; omega
        · cases hr

/-- an accepted trace: every block is live iff allocated once more than freed — no block is lost, none is freed twice -/
theorem replayL_live_iff (tr : List LEv) (live' : List Nat) (hr : replayL [] tr = some live') (a : Nat) :
    (a ∈ live' ↔ allocCount a tr = freeCount a tr + 1) ∧ (a ∉ live' ↔ allocCount a tr = freeCount a tr) := by
  have hnd := replayL_nodup tr [] live' List.nodup_nil hr
  have hc := replayL_count tr [] live' List.nodup_nil hr a
  simp only [List.count_nil, Nat.zero_add] at hc
  have h01 : live'.count a = 0 ∨ live'.count a = 1 := by
    have := List.nodup_iff_count_le_one.1 hnd a
    omega
  constructor
  · constructor
    · intro hm
      have : 0 < live'.count a := List.count_pos_iff.2 hm
      omega
    · intro he
      apply List.count_pos_iff.1
      omega
  · constructor
    · intro hm
      have : live'.count a = 0 := List.count_eq_zero.2 hm
      omega
    · intro he hm
      have : 0 < live'.count a := List.count_pos_iff.2 hm
      omega

theorem checkBalanced_iff (tr : List LEv) :
    checkBalanced tr = true ↔ ∃ live, replayL [] tr = some live ∧ ∀ a, allocCount a tr = freeCount a tr := by
  unfold checkBalanced
  cases hr : replayL [] tr with
  | none => simp
  | some live =>
    simp only [List.isEmpty_iff, Option.some.injEq, exists_eq_left']
    constructor
    · intro he a
      subst he
      exact ((replayL_live_iff tr [] hr a).2).1 (by simp)
    · intro h
      apply List.eq_nil_iff_forall_not_mem.2
      intro a
      exact ((replayL_live_iff tr live hr a).2).2 (h a)

theorem checkCall_iff (tr : List LEv) (returned : List Nat) :
    checkCall tr returned = true ↔
      ∃ live, replayL [] tr = some live ∧ ∀ a, (a ∈ returned ↔ allocCount a tr = freeCount a tr + 1) ∧
                                               (a ∉ returned ↔ allocCount a tr = freeCount a tr) := by
  unfold checkCall
  cases hr : replayL [] tr with
  | none => simp
  | some live =>
    simp only [Bool.and_eq_true, List.all_eq_true, List.contains_iff_mem, Option.some.injEq, exists_eq_left']
    constructor
    · intro ⟨h1, h2⟩ a
      have hl := replayL_live_iff tr live hr a
      have hiff : a ∈ returned ↔ a ∈ live := ⟨fun h => h2 a h, fun h => h1 a h⟩
      exact ⟨hiff.trans hl.1, (not_congr hiff).trans hl.2⟩
    · intro h
      constructor
      · intro a ha
        exact ((h a).1).2 (((replayL_live_iff tr live hr a).1).1 ha)
      · intro a ha
        exact ((replayL_live_iff tr live hr a).1).2 (((h a).1).1 ha)

/-! non-vacuity -/
example : checkCall [.alloc 1, .alloc 2, .free (some 1), .alloc 3] [2, 3] = true := by decide
example : checkCall [.alloc 1, .alloc 2, .free (some 1), .alloc 3] [3] = false := by decide          -- block 2 leaked
example : checkBalanced [.alloc 1, .free (some 1), .free (some 1)] = false := by decide               -- double free
example : leaked [.alloc 1, .alloc 2, .free (some 1), .alloc 3] [3] = [2] := by decide

end Slu
