/-
C09 — `fixupL` (as repaired) lays the supernodes' row lists out consecutively in supernode-number
order, each mapped through `perm_r`, WHATEVER order they were stored in; the original in-place loop
does not (formal account of the defect fixed in /repo commit "fix: fixupL compacts ...").
-/
import SluVerif.Model.Fixup
import Mathlib.Tactic.Linarith

namespace Slu

/-- the specification: concatenation of the mapped segments of supernodes `0 .. k-1` -/
def fixSpecOut (g : GluL) (permr : Array Int) (k : Nat) : List Int :=
  (List.range k).flatMap fun i => (g.seg i).map fun r => geti permr r.toNat

theorem fixSpecOut_succ (g : GluL) (permr : Array Int) (k : Nat) :
    fixSpecOut g permr (k + 1) = fixSpecOut g permr k ++ (g.seg k).map (fun r => geti permr r.toNat) := by
  simp [fixSpecOut, List.range_succ, List.flatMap_append]

theorem getN_set' (a : Array Nat) (i j v : Nat) (hi : i < a.size) :
    getN (a.setIfInBounds i v) j = if j = i then v else getN a j := by
  unfold getN
  by_cases h : j = i
  · subst h; simp [Array.getD, hi]
  · simp only [Array.getD, Array.size_setIfInBounds, h, if_false]
    split
    · next hj =>
      rw [Array.getInternal_eq_getElem, Array.getInternal_eq_getElem, Array.getElem_setIfInBounds]
      · simp [Ne.symm h]
      · exact hj
    · rfl

/-- invariant of the supernode loop after `k` supernodes -/
theorem fixupL_loop (g : GluL) (permr : Array Int) (k : Nat)
    (hinj : ∀ i i', i < k → i' < k → getN g.xsup i = getN g.xsup i' → i = i')
    (hsz : ∀ i, i < k → getN g.xsup i < g.xlsub.size ∧ getN g.xsup i < g.xlsubEnd.size) :
    let a := (List.range k).foldl (fixStep g permr) { out := [], xlsub := g.xlsub, xlsubEnd := g.xlsubEnd }
    a.out = fixSpecOut g permr k ∧ a.xlsub.size = g.xlsub.size ∧ a.xlsubEnd.size = g.xlsubEnd.size ∧
    (∀ i, i < k → getN a.xlsub (getN g.xsup i) = (fixSpecOut g permr i).length ∧
                  getN a.xlsubEnd (getN g.xsup i) = (fixSpecOut g permr (i + 1)).length) ∧
    (∀ f, (∀ i, i < k → getN g.xsup i ≠ f) → getN a.xlsub f = getN g.xlsub f ∧ getN a.xlsubEnd f = getN g.xlsubEnd f) := by
  induction k with
  | zero => simp [fixSpecOut]
  | succ k ih =>
    have ih' := ih (fun i i' h1 h2 => hinj i i' (by omega) (by omega)) (fun i h => hsz i (by omega))
    simp only at ih'
    obtain ⟨h1, h2, h3, h4, h5⟩ := ih'
    simp only [List.range_succ, List.foldl_append, List.foldl_cons, List.foldl_nil]
    generalize (List.range k).foldl (fixStep g permr) { out := [], xlsub := g.xlsub, xlsubEnd := g.xlsubEnd } = a at *
    have hfk := hsz k (by omega)
    refine ⟨?_, ?_, ?_, ?_, ?_⟩
    · simp only [fixStep]; rw [h1, fixSpecOut_succ]
    · simp [fixStep, h2]
    · simp [fixStep, h3]
    · intro i hi
      simp only [fixStep]
      rw [getN_set' _ _ _ _ (by rw [h2]; exact hfk.1), getN_set' _ _ _ _ (by rw [h3]; exact hfk.2)]
      by_cases e : i = k
      · subst e
        simp only [if_true]
        rw [h1, fixSpecOut_succ]
        simp
      · have hik : i < k := by omega
        have hne : getN g.xsup i ≠ getN g.xsup k := fun heq => e (hinj i k (by omega) (by omega) heq)
        rw [if_neg hne, if_neg hne]
        exact h4 i hik
    · intro f hf
      simp only [fixStep]
      have hne : f ≠ getN g.xsup k := fun heq => hf k (by omega) heq.symm
      rw [getN_set' _ _ _ _ (by rw [h2]; exact hfk.1), getN_set' _ _ _ _ (by rw [h3]; exact hfk.2), if_neg hne, if_neg hne]
      exact h5 f (fun i hi => hf i (by omega))

/-- **`fixupL` specification**: for EVERY storage order of the supernodes in `lsub`, the compacted array is the
concatenation of the supernodes' row lists in supernode-number order, mapped through `perm_r`;
`xlsub/xlsub_end` of each supernode's first column delimit its list; `xlsub[n]` is the total length. -/
theorem fixupL_spec (g : GluL) (permr : Array Int)
    (hinj : ∀ i i', i ≤ g.nsuper → i' ≤ g.nsuper → getN g.xsup i = getN g.xsup i' → i = i')
    (hsz : ∀ i, i ≤ g.nsuper → getN g.xsup i < g.xlsub.size ∧ getN g.xsup i < g.xlsubEnd.size)
    (hn : g.n < g.xlsub.size) (hfn : ∀ i, i ≤ g.nsuper → getN g.xsup i ≠ g.n) :
    (fixupL g permr).out = fixSpecOut g permr (g.nsuper + 1) ∧
    getN (fixupL g permr).xlsub g.n = (fixSpecOut g permr (g.nsuper + 1)).length ∧
    ∀ i, i ≤ g.nsuper →
      getN (fixupL g permr).xlsub (getN g.xsup i) = (fixSpecOut g permr i).length ∧
      getN (fixupL g permr).xlsubEnd (getN g.xsup i) = (fixSpecOut g permr (i + 1)).length := by
  have L := fixupL_loop g permr (g.nsuper + 1) (fun i i' h1 h2 => hinj i i' (by omega) (by omega)) (fun i h => hsz i (by omega))
  simp only at L
  obtain ⟨h1, h2, h3, h4, h5⟩ := L
  unfold fixupL
  simp only
  refine ⟨h1, ?_, ?_⟩
  · rw [getN_set' _ _ _ _ (by rw [h2]; exact hn), if_pos rfl, h1]
  · intro i hi
    rw [getN_set' _ _ _ _ (by rw [h2]; exact hn), if_neg (hfn i hi)]
    exact h4 i (by omega)

/-! ### what was wrong with the in-place loop

Two singleton supernodes whose row lists were allocated in the opposite order of their numbers
(possible with two threads: numbers and storage are handed out under different locks): supernode 0 =
column 0 stored at lsub[2..4), supernode 1 = column 1 stored at lsub[0..2).  The in-place loop
overwrites supernode 1's list before reading it. -/

def exSwapped : GluL :=
  { n := 2, nsuper := 1, xsup := #[0, 1], xsupEnd := #[1, 2], lsub := #[1, 1, 0, 1], xlsub := #[2, 0, 0], xlsubEnd := #[4, 2, 0] }

/-- the repaired routine gives the specified result on the swapped layout … -/
example : (fixupL exSwapped #[0, 1]).out = [0, 1, 1, 1] := by decide
/-- … while the original in-place loop destroys supernode 1's row list (`[0,1,0,1]` instead of `[0,1,1,1]`) -/
theorem fixupL_inplace_needs_storage_order :
    ((fixupLInPlace exSwapped #[0, 1]).1.toList.take 4) ≠ fixSpecOut exSwapped #[0, 1] 2 := by decide

/-- when the storage order agrees with the numbering the two coincide on this layout -/
example : ((fixupLInPlace { exSwapped with lsub := #[0, 1, 1, 1], xlsub := #[0, 2, 0], xlsubEnd := #[2, 4, 0] } #[0, 1]).1.toList.take 4)
    = [0, 1, 1, 1] := by decide

end Slu
