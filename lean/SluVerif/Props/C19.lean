/-
Property C19 — sparse kernels and format utilities agree with their dense definitions.
Theorems about Model/Blas.lean (the executable model that `sludrv blas` runs against the real
routines).  Scalars: any commutative ring (`Int`, `Rat`, complex pairs `Cx β`, …); the triangular
solves are over `Rat`.
-/
import SluVerif.Proofs.BlasGemv
import SluVerif.Proofs.BlasCx
import SluVerif.Proofs.BlasLangs
import SluVerif.Proofs.BlasConv
import SluVerif.Proofs.BlasCopy
import SluVerif.Proofs.BlasTrsvWf
import Mathlib.Data.Matrix.Mul
import Mathlib.Algebra.BigOperators.Fin
set_option linter.unusedSectionVars false
set_option linter.unusedSimpArgs false
namespace Slu.Blas
open Finset

section Gemv
variable {α : Type} [CommRing α] [DecidableEq α]

/-- **sp_?gemv, trans = 'N'** (`incy = 1`, any non-zero `incx`, any base offsets): the sweep returns
`y := alpha*A*x + beta*y` on the `m` cells of `y`, leaves every other cell alone, for every alpha and
beta (the `beta = 0`, `beta = 1`, `alpha = 0` shortcuts included). -/
theorem spGemv_spec_N (trans : Char) (alpha beta : α) (A : NCMat α) (x y : Array α) (xoff yoff : Nat)
    (incx : Int) (m n : Nat)
    (hN : lsame trans 'N' = true) (hm : A.nrow = (m : Int)) (hn : A.ncol = (n : Int))
    (hm0 : m ≠ 0) (hn0 : n ≠ 0) (hix : incx ≠ 0) (hrows : A.rowsOk) (hy : yoff + m ≤ y.size) :
    ∃ y', spGemvAt trans alpha A x xoff incx beta y yoff 1 = .ok y' ∧ y'.size = y.size ∧
      (∀ i < m, rd y' (yoff + i)
          = alpha * ∑ j ∈ range n, A.dense i j * rd x (xoff + spos (n : Int) incx j) + beta * rd y (yoff + i)) ∧
      (∀ q, (∀ i < m, q ≠ yoff + i) → rd y' q = rd y q) := by
  have hmT : A.nrow.toNat = m := by rw [hm]; exact Int.toNat_natCast m
  have hnT : A.ncol.toNat = n := by rw [hn]; exact Int.toNat_natCast n
  rw [spGemvAt_valid trans alpha A x xoff incx beta y yoff 1 (by simp [hN]) (by rw [hm, hn]; omega) hix (by decide)
    ⟨by rw [hm]; exact_mod_cast hm0, by rw [hn]; exact_mod_cast hn0⟩]
  simp only [hN, if_true]
  have hy1 : m = 0 ∨ yoff + (m - 1) * (1 : Int).natAbs < y.size := by right; simp; omega
  obtain ⟨s1, s2, s3⟩ := scaleY_spec beta m 1 yoff y (by decide) hy1
  simp only [spos_one] at s2 s3
  rw [hm]
  by_cases hq : alpha = 0 ∧ beta = 1
  · rw [if_pos hq]
    exact ⟨y, rfl, rfl, fun i _ => by rw [hq.1, hq.2]; ring, fun q _ => rfl⟩
  rw [if_neg hq]
  by_cases ha : alpha = 0
  · rw [if_pos ha]
    exact ⟨_, rfl, s1, fun i hi => by rw [s2 i hi, ha]; ring, s3⟩
  rw [if_neg ha]
  obtain ⟨g1, g2, g3⟩ := gemvN_spec alpha A x xoff incx yoff (scaleY beta (m : Int) 1 yoff y) hrows
    (by rw [s1, hmT]; exact hy)
  rw [hmT, hnT, hn] at g2
  rw [hmT] at g3
  refine ⟨_, rfl, by rw [g1, s1], fun i hi => ?_, fun q hq' => ?_⟩
  · rw [g2 i hi, s2 i hi]; ring
  · rw [g3 q hq', s3 q hq']

/-- **sp_?gemv, trans = 'T' or 'C'** (`incx = 1`, any non-zero `incy`): `y := alpha*Aᵀ*x + beta*y` on the
`n` strided cells of `y`; every other cell is left alone.  (`'C'` is treated exactly like `'T'` by the
code, also in the complex precisions: see `spGemv_conj_counterexample`.) -/
theorem spGemv_spec_T (trans : Char) (alpha beta : α) (A : NCMat α) (x y : Array α) (xoff yoff : Nat)
    (incy : Int) (m n : Nat)
    (hN : lsame trans 'N' = false) (hT : lsame trans 'T' = true ∨ lsame trans 'C' = true)
    (hm : A.nrow = (m : Int)) (hn : A.ncol = (n : Int))
    (hm0 : m ≠ 0) (hn0 : n ≠ 0) (hiy : incy ≠ 0) (hrows : A.rowsOk)
    (hy : yoff + (n - 1) * incy.natAbs < y.size) :
    ∃ y', spGemvAt trans alpha A x xoff 1 beta y yoff incy = .ok y' ∧ y'.size = y.size ∧
      (∀ j < n, rd y' (yoff + spos (n : Int) incy j)
          = alpha * ∑ i ∈ range m, A.dense i j * rd x (xoff + i) + beta * rd y (yoff + spos (n : Int) incy j)) ∧
      (∀ q, (∀ j < n, q ≠ yoff + spos (n : Int) incy j) → rd y' q = rd y q) := by
  have hmT : A.nrow.toNat = m := by rw [hm]; exact Int.toNat_natCast m
  rw [spGemvAt_valid trans alpha A x xoff 1 beta y yoff incy
    (by rcases hT with h | h <;> simp [hN, h]) (by rw [hm, hn]; omega) (by decide) hiy
    ⟨by rw [hm]; exact_mod_cast hm0, by rw [hn]; exact_mod_cast hn0⟩]
  simp only [hN, if_true, Bool.false_eq_true, if_false]
  obtain ⟨s1, s2, s3⟩ := scaleY_spec beta n incy yoff y hiy (Or.inr hy)
  rw [hn]
  by_cases hq : alpha = 0 ∧ beta = 1
  · rw [if_pos hq]
    exact ⟨y, rfl, rfl, fun i _ => by rw [hq.1, hq.2]; ring, fun q _ => rfl⟩
  rw [if_neg hq]
  by_cases ha : alpha = 0
  · rw [if_pos ha]
    exact ⟨_, rfl, s1, fun i hi => by rw [s2 i hi, ha]; ring, s3⟩
  rw [if_neg ha]
  obtain ⟨g1, g2, g3⟩ := gemvT_spec alpha A x xoff yoff incy (scaleY beta (n : Int) incy yoff y) n hn hiy hrows
    (by rw [s1]; exact Or.inr hy)
  rw [hmT] at g2
  refine ⟨_, rfl, by rw [g1, s1], fun j hj => ?_, fun q hq' => ?_⟩
  · rw [g2 j hj, s2 j hj]; ring
  · rw [g3 q hq', s3 q hq']


/-- lengths and `op(A)` as the code implements them -/
def gLenX (trans : Char) (m n : Nat) : Nat := if lsame trans 'N' then n else m
def gLenY (trans : Char) (m n : Nat) : Nat := if lsame trans 'N' then m else n
/-- `op(A)`: `A` for 'N', `Aᵀ` for 'T' **and** 'C' (the code never conjugates) -/
def opDense (trans : Char) (A : NCMat α) (i j : Nat) : α := if lsame trans 'N' then A.dense i j else A.dense j i

/-- **spGemv_spec** — the accepted domain in one statement: valid `trans`, `m, n > 0`, non-zero
increments with `incy = 1` for 'N' and `incx = 1` for 'T'/'C'.  On it the model returns
`y := alpha*op(A)*x + beta*y` on the strided cells of `y` (logical element `i` lives at
`yoff + spos leny incy i`, exactly the index the C code computes) and nothing else changes. -/
theorem spGemv_spec (trans : Char) (alpha beta : α) (A : NCMat α) (x y : Array α) (xoff yoff : Nat)
    (incx incy : Int) (m n : Nat)
    (htr : lsame trans 'N' = true ∨ lsame trans 'T' = true ∨ lsame trans 'C' = true)
    (hm : A.nrow = (m : Int)) (hn : A.ncol = (n : Int)) (hm0 : m ≠ 0) (hn0 : n ≠ 0)
    (hix : incx ≠ 0) (hiy : incy ≠ 0)
    (hdom : if lsame trans 'N' = true then incy = 1 else incx = 1)
    (hrows : A.rowsOk)
    (hy : yoff + (gLenY trans m n - 1) * incy.natAbs < y.size) :
    ∃ y', spGemvAt trans alpha A x xoff incx beta y yoff incy = .ok y' ∧ y'.size = y.size ∧
      (∀ i < gLenY trans m n, rd y' (yoff + spos (gLenY trans m n : Int) incy i)
          = alpha * ∑ j ∈ range (gLenX trans m n),
                opDense trans A i j * rd x (xoff + spos (gLenX trans m n : Int) incx j)
            + beta * rd y (yoff + spos (gLenY trans m n : Int) incy i)) ∧
      (∀ q, (∀ i < gLenY trans m n, q ≠ yoff + spos (gLenY trans m n : Int) incy i) → rd y' q = rd y q) := by
  unfold gLenX gLenY opDense at *
  by_cases hN : lsame trans 'N' = true
  · simp only [hN, if_true] at hdom hy ⊢
    subst hdom
    simp only [spos_one]
    have hy' : yoff + m ≤ y.size := by simp at hy; omega
    exact spGemv_spec_N trans alpha beta A x y xoff yoff incx m n hN hm hn hm0 hn0 hix hrows hy'
  · have hN' : lsame trans 'N' = false := by simpa using hN
    simp only [hN', Bool.false_eq_true, if_false] at hdom hy ⊢
    subst hdom
    simp only [spos_one]
    exact spGemv_spec_T trans alpha beta A x y xoff yoff incy m n hN' (by simpa [hN'] using htr) hm hn hm0 hn0 hiy hrows hy

end Gemv

section GemvOps
variable {α : Type} [Add α] [Mul α] [Zero α] [One α] [DecidableEq α]

/-- **spGemv_domain** — the model (like the code) ends in `SUPERLU_ABORT("Not implemented.")` exactly
when the documented argument contract holds, neither dimension is 0, `alpha ≠ 0`, and the increment
of the *output-side* vector is not 1 (`incy` for 'N', `incx` for 'T'/'C').  Needs no algebraic law. -/
theorem spGemv_domain (trans : Char) (alpha beta : α) (A : NCMat α) (x y : Array α) (xoff yoff : Nat) (incx incy : Int) :
    spGemvAt trans alpha A x xoff incx beta y yoff incy = .notImplemented ↔
      gemvArgsOk trans A incx incy ∧ A.nrow ≠ 0 ∧ A.ncol ≠ 0 ∧ alpha ≠ 0 ∧
      (if lsame trans 'N' = true then incy ≠ 1 else incx ≠ 1) :=
  spGemv_domain' trans alpha beta A x y xoff yoff incx incy

/-- the info codes of the argument check, in the order the code tests them -/
theorem spGemv_argcheck (trans : Char) (alpha beta : α) (A : NCMat α) (x y : Array α) (xoff yoff : Nat) (incx incy : Int) (k : Nat) :
    spGemvAt trans alpha A x xoff incx beta y yoff incy = .xerbla k ↔
      (k = 1 ∧ ¬ (lsame trans 'N' = true ∨ lsame trans 'T' = true ∨ lsame trans 'C' = true)) ∨
      (k = 3 ∧ (lsame trans 'N' = true ∨ lsame trans 'T' = true ∨ lsame trans 'C' = true) ∧ (A.nrow < 0 ∨ A.ncol < 0)) ∨
      (k = 5 ∧ (lsame trans 'N' = true ∨ lsame trans 'T' = true ∨ lsame trans 'C' = true) ∧ ¬ (A.nrow < 0 ∨ A.ncol < 0) ∧ incx = 0) ∨
      (k = 8 ∧ (lsame trans 'N' = true ∨ lsame trans 'T' = true ∨ lsame trans 'C' = true) ∧ ¬ (A.nrow < 0 ∨ A.ncol < 0) ∧ incx ≠ 0 ∧ incy = 0) :=
  spGemv_argcheck' trans alpha beta A x y xoff yoff incx incy k

/-- **"when BETA is supplied as zero then Y need not be set on input"** — for *any* interpretation of
the arithmetic (no ring law is used, so this covers IEEE NaN/Inf in `y`): with `beta = 0` and both
dimensions non-zero, the outcome does not depend on the content of the strided cells of `y`. -/
theorem spGemv_beta_zero_y_unset (h01 : (0 : α) ≠ 1) (trans : Char) (alpha : α) (A : NCMat α) (x y y' : Array α)
    (xoff yoff : Nat) (incx incy : Int) (hne : A.nrow ≠ 0 ∧ A.ncol ≠ 0) (hs : y.size = y'.size)
    (hag : ∀ q, (∀ i < (if lsame trans 'N' then A.nrow else A.ncol).toNat,
        q ≠ yoff + spos (if lsame trans 'N' then A.nrow else A.ncol) incy i) → rd y q = rd y' q) :
    spGemvAt trans alpha A x xoff incx 0 y yoff incy = spGemvAt trans alpha A x xoff incx 0 y' yoff incy := by
  unfold spGemvAt
  have hq : ¬ (A.nrow = 0 ∨ A.ncol = 0 ∨ (alpha = 0 ∧ (0 : α) = 1)) := by
    rintro (h | h | h)
    · exact hne.1 h
    · exact hne.2 h
    · exact h01 h.2
  simp only [if_neg hq, scaleY_zero_congr h01 _ incy yoff y y' hs hag]


/-- with an empty operand the model (like the code) returns `y` untouched: the reference-BLAS quick
return, taken before `y := beta*y` is formed. -/
theorem spGemv_empty (trans : Char) (alpha beta : α) (A : NCMat α) (x y : Array α) (xoff yoff : Nat) (incx incy : Int)
    (hok : gemvArgsOk trans A incx incy) (hz : A.nrow = 0 ∨ A.ncol = 0) :
    spGemvAt trans alpha A x xoff incx beta y yoff incy = .ok y := by
  obtain ⟨h1, h2, h3, h4, h5⟩ := hok
  unfold spGemvAt
  rw [if_neg (by rcases h1 with h | h | h <;> simp [h]), if_neg (by omega), if_neg h4, if_neg h5,
    if_pos (by rcases hz with h | h; exact Or.inl h; exact Or.inr (Or.inl h))]

end GemvOps

/-! #### non-vacuity and the witnesses of the findings (concrete evaluations of the model) -/

/-- 2×3 example matrix: columns `(0↦1, 1↦2)`, `()`, `(1↦3)` -/
def exA : NCMat Int :=
  { nrow := 2, ncol := 3, nnz := 3, colptr := #[0, 2, 2, 3], rowind := #[0, 1, 1], nzval := #[1, 2, 3] }

theorem exA_rowsOk : exA.rowsOk := by unfold NCMat.rowsOk; decide

/-- `spGemv_spec` applies (all hypotheses satisfiable): 'N', alpha = 2, beta = -1, incx = -2 -/
example : ∃ y', spGemvAt 'N' (2 : Int) exA #[1, 55, 1, 55, 1] 0 (-2) (-1) #[10, 20, 77] 0 1 = .ok y' ∧ y'.size = 3 := by
  obtain ⟨y', h1, h2, -, -⟩ := spGemv_spec 'N' (2 : Int) (-1) exA #[1, 55, 1, 55, 1] #[10, 20, 77] 0 0 (-2) 1 2 3
    (by decide) rfl rfl (by decide) (by decide) (by decide) (by decide) (by decide) exA_rowsOk (by decide)
  exact ⟨y', h1, h2⟩
example : spGemvAt 'N' (2 : Int) exA #[1, 55, 1, 55, 1] 0 (-2) (-1) #[10, 20, 77] 0 1 = .ok #[-8, -10, 77] := by decide
/-- 'T' with incy = -3 (`spGemv_spec_T` applies) -/
example : spGemvAt 't' (1 : Int) exA #[1, 1] 0 1 0 #[5, 77, 77, 5, 77, 77, 5] 0 (-3) = .ok #[3, 77, 77, 0, 77, 77, 3] := by decide
example : ∃ y', spGemvAt 't' (1 : Int) exA #[1, 1] 0 1 0 #[5, 77, 77, 5, 77, 77, 5] 0 (-3) = .ok y' ∧ y'.size = 7 := by
  obtain ⟨y', h1, h2, -, -⟩ := spGemv_spec 't' (1 : Int) 0 exA #[1, 1] #[5, 77, 77, 5, 77, 77, 5] 0 0 1 (-3) 2 3
    (by decide) rfl rfl (by decide) (by decide) (by decide) (by decide) (by decide) exA_rowsOk (by decide)
  exact ⟨y', h1, h2⟩

/-- **finding `gemv-nonunit-stride-abort`**: a perfectly valid call (`incy = 2`) ends in "Not implemented". -/
theorem spGemv_abort_example :
    spGemvAt 'N' (1 : Int) exA #[1, 1, 1] 0 1 1 #[0, 77, 0] 0 2 = .notImplemented := by decide
theorem spGemv_abort_example_T :
    spGemvAt 'T' (1 : Int) exA #[1, 77, 1] 0 2 1 #[0, 0, 0] 0 1 = .notImplemented := by decide

/-- **finding `gemv-empty-operand-skips-beta`**: `A` is 1×0, `beta = 2`: the dense definition gives
`y = 2*y = [2]`, the code leaves `[1]`. -/
theorem spGemv_empty_counterexample :
    spGemvAt 'N' (1 : Int) { nrow := 1, ncol := 0, nnz := 0, colptr := #[0], rowind := #[], nzval := #[] }
      #[] 0 1 2 #[1] 0 1 = .ok #[1] := by decide

/-- **finding `gemv-complex-C-not-conjugated`**: `A = [i]`, `x = [1]`: `Aᴴx = -i`, the code returns `+i`
(the same as for 'T'). -/
theorem spGemv_conj_counterexample :
    spGemvAt 'C' (1 : Cx Int) { nrow := 1, ncol := 1, nnz := 1, colptr := #[0, 1], rowind := #[0], nzval := #[⟨0, 1⟩] }
      #[1] 0 1 0 #[0] 0 1 = .ok #[⟨0, 1⟩]
    ∧ (Cx.conj (⟨0, 1⟩ : Cx Int)) * 1 = ⟨0, -1⟩ := by decide

/-- `spGemv_beta_zero_y_unset` applies: -/
example : spGemvAt 'N' (2 : Int) exA #[1, 1, 1] 0 1 0 #[10, 20] 0 1 = spGemvAt 'N' (2 : Int) exA #[1, 1, 1] 0 1 0 #[-7, 99] 0 1 :=
  spGemv_beta_zero_y_unset (by decide) 'N' 2 exA #[1, 1, 1] #[10, 20] #[-7, 99] 0 0 1 1 (by decide) rfl
    (by intro q hq
        have h0 := hq 0 (by decide); have h1 := hq 1 (by decide)
        have : 2 ≤ q := by
          simp [spos_one] at h0 h1; omega
        simp [rd, Array.getD, Nat.not_lt.mpr this])

section Gemm
variable {α : Type} [CommRing α] [DecidableEq α]

theorem col_disj (ldc j j' i' leny : Nat) (h : leny ≤ ldc) (hi' : i' < leny) (hjj' : j' < j) :
    ldc * j' + i' < ldc * j := by
  calc ldc * j' + i' < ldc * j' + ldc := by omega
    _ = ldc * (j' + 1) := by ring
    _ ≤ ldc * j := Nat.mul_le_mul_left _ hjj'

/-- **spGemm_spec** — the column loop over sp_?gemv computes `C := alpha*op(A)*B + beta*C` on the
`leny × ncols` block of `C` (leading dimension `ldc`), touches nothing else, never aborts (its
increments are 1) and never calls xerbla on valid arguments. -/
theorem spGemm_spec (trans : Char) (alpha beta : α) (A : NCMat α) (b c : Array α) (ldb ldc : Nat) (ncols m n : Nat)
    (htr : lsame trans 'N' = true ∨ lsame trans 'T' = true ∨ lsame trans 'C' = true)
    (hm : A.nrow = (m : Int)) (hn : A.ncol = (n : Int)) (hm0 : m ≠ 0) (hn0 : n ≠ 0) (hrows : A.rowsOk)
    (hld : gLenY trans m n ≤ ldc) (hc : ldc * (ncols - 1) + gLenY trans m n ≤ c.size) :
    let r := spGemm trans (ncols : Int) alpha A b ldb beta c ldc
    r.aborted = false ∧ r.xerblaCalls = 0 ∧ r.c.size = c.size ∧
    (∀ j < ncols, ∀ i < gLenY trans m n, rd r.c (ldc * j + i)
        = alpha * ∑ k ∈ range (gLenX trans m n), opDense trans A i k * rd b (ldb * j + k) + beta * rd c (ldc * j + i)) ∧
    (∀ q, (∀ j < ncols, ∀ i < gLenY trans m n, q ≠ ldc * j + i) → rd r.c q = rd c q) := by
  intro r
  have hN : ((ncols : Int)).toNat = ncols := Int.toNat_natCast ncols
  have hly : 0 < gLenY trans m n := by unfold gLenY; split_ifs <;> omega
  -- loop invariant
  let P : Nat → GemmRes α → Prop := fun j st =>
    st.aborted = false ∧ st.xerblaCalls = 0 ∧ st.c.size = c.size ∧
    (∀ j' < j, ∀ i < gLenY trans m n, rd st.c (ldc * j' + i)
        = alpha * ∑ k ∈ range (gLenX trans m n), opDense trans A i k * rd b (ldb * j' + k) + beta * rd c (ldc * j' + i)) ∧
    (∀ q, (∀ j' < j, ∀ i < gLenY trans m n, q ≠ ldc * j' + i) → rd st.c q = rd c q)
  have key : P ncols r := by
    show P ncols (spGemm trans (ncols : Int) alpha A b ldb beta c ldc)
    unfold spGemm
    rw [hN]
    apply foldl_range_inv P
    · exact ⟨rfl, rfl, rfl, fun j' hj' => absurd hj' (Nat.not_lt_zero _), fun q _ => rfl⟩
    · intro j st hj ⟨p1, p2, p3, p4, p5⟩
      have hsz : ldc * j + (gLenY trans m n - 1) * (1 : Int).natAbs < st.c.size := by
        have : ldc * j ≤ ldc * (ncols - 1) := Nat.mul_le_mul_left _ (by omega)
        simp; omega
      obtain ⟨y', e1, e2, e3, e4⟩ := spGemv_spec trans alpha beta A b st.c (ldb * j) (ldc * j) 1 1 m n htr hm hn hm0 hn0
        (by decide) (by decide) (by split_ifs <;> rfl) hrows hsz
      simp only [spos_one] at e3 e4
      simp only [p1, Bool.false_eq_true, if_false, e1]
      refine ⟨rfl, p2, by show y'.size = c.size; rw [e2, p3], ?_, ?_⟩
      · intro j' hj' i hi
        by_cases hjj : j' = j
        · subst hjj
          rw [e3 i hi, p5]
          intro j'' hj'' i'' hi''
          have := col_disj ldc j' j'' i'' _ hld hi'' hj''
          omega
        · have hlt : j' < j := by omega
          rw [e4, p4 j' hlt i hi]
          intro i'' hi''
          have := col_disj ldc j j' i _ hld hi hlt
          omega
      · intro q hq
        rw [e4 q (fun i hi => hq j (Nat.lt_succ_self j) i hi), p5 q (fun j' hj' i hi => hq j' (Nat.lt_succ_of_lt hj') i hi)]
  exact key

/-- non-vacuity: two right-hand sides, `ldb = 4`, `ldc = 3` -/
example : (spGemm 'N' 2 (1 : Int) exA #[1, 1, 1, 9, 1, 0, 0, 9] 4 1 #[0, 0, 7, 0, 0, 7] 3).c = #[1, 5, 7, 1, 2, 7] := by decide

end Gemm

/-! ### ?langs -/
section Langs
variable {α β : Type}

/-- **max-abs norm**: `?langs('M')` is the largest `|a_ij|` of the dense `m × n` matrix -/
theorem langs_max_spec [CommRing α] [LinearOrder β] [AddCommMonoid β] [IsOrderedAddMonoid β]
    (absf : α → β) (habs0 : absf 0 = 0) (hnonneg : ∀ a, 0 ≤ absf a)
    (norm : Char) (A : NCMat α) (m n : Nat) (hm : A.nrow = (m : Int)) (hn : A.ncol = (n : Int))
    (hm0 : 0 < m) (hn0 : 0 < n) (hrows : A.rowsOk) (hnd : A.nodupCols) (hM : lsame norm 'M' = true) :
    ∃ v, langs absf norm A = .val v ∧
      (∀ i < m, ∀ j < n, absf (A.dense i j) ≤ v) ∧ (∃ i < m, ∃ j < n, absf (A.dense i j) = v) :=
  langs_max_spec' absf habs0 hnonneg norm A m n hm hn hm0 hn0 hrows hnd hM

/-- **one norm**: `?langs('O' | '1')` is the largest column sum of absolute values -/
theorem langs_one_spec [CommRing α] [LinearOrder β] [AddCommMonoid β] [IsOrderedAddMonoid β]
    (absf : α → β) (habs0 : absf 0 = 0) (hnonneg : ∀ a, 0 ≤ absf a)
    (norm : Char) (A : NCMat α) (m n : Nat) (hm : A.nrow = (m : Int)) (hn : A.ncol = (n : Int))
    (hm0 : 0 < m) (hn0 : 0 < n) (hrows : A.rowsOk) (hnd : A.nodupCols)
    (hM : lsame norm 'M' = false) (hO : lsame norm 'O' = true ∨ norm = '1') :
    ∃ v, langs absf norm A = .val v ∧
      (∀ j < n, ∑ i ∈ range m, absf (A.dense i j) ≤ v) ∧ (∃ j < n, ∑ i ∈ range m, absf (A.dense i j) = v) :=
  langs_one_spec' absf habs0 hnonneg norm A m n hm hn hm0 hn0 hrows hnd hM hO

/-- **infinity norm**: `?langs('I')` is the largest row sum of absolute values -/
theorem langs_inf_spec [CommRing α] [LinearOrder β] [AddCommMonoid β] [IsOrderedAddMonoid β]
    (absf : α → β) (habs0 : absf 0 = 0) (hnonneg : ∀ a, 0 ≤ absf a)
    (norm : Char) (A : NCMat α) (m n : Nat) (hm : A.nrow = (m : Int)) (hn : A.ncol = (n : Int))
    (hm0 : 0 < m) (hn0 : 0 < n) (hrows : A.rowsOk) (hnd : A.nodupCols)
    (hM : lsame norm 'M' = false) (hO : lsame norm 'O' = false) (h1 : norm ≠ '1') (hI : lsame norm 'I' = true) :
    ∃ v, langs absf norm A = .val v ∧
      (∀ i < m, ∑ j ∈ range n, absf (A.dense i j) ≤ v) ∧ (∃ i < m, ∑ j ∈ range n, absf (A.dense i j) = v) :=
  langs_inf_spec' absf habs0 hnonneg norm A m n hm hn hm0 hn0 hrows hnd hM hO h1 hI

theorem langs_empty [Zero α] [Zero β] [Add β] [Max β] (absf : α → β) (norm : Char) (A : NCMat α)
    (h : min A.nrow A.ncol = 0) : langs absf norm A = .val 0 :=
  langs_empty' absf norm A h

/-- **finding `langs-frobenius-abort`**: for every non-empty matrix the documented Frobenius norm is
`SUPERLU_ABORT("Not implemented.")` -/
theorem langs_frobenius_notImplemented [Zero α] [Zero β] [Add β] [Max β] (absf : α → β) (norm : Char) (A : NCMat α)
    (h : min A.nrow A.ncol ≠ 0) (hn : norm = 'F' ∨ norm = 'f' ∨ norm = 'E' ∨ norm = 'e') :
    langs absf norm A = .notImplemented :=
  langs_frobenius_notImplemented' absf norm A h hn

example : langs (fun a : Int => (a.natAbs : Int)) 'I' exA = .val 5 := by decide
example : langs (fun a : Int => (a.natAbs : Int)) 'F' exA = .notImplemented :=
  langs_frobenius_notImplemented _ 'F' exA (by decide) (Or.inl rfl)

end Langs

/-! ### format utilities -/
section Utils
variable {α : Type} [CommRing α]

/-- **?CompRow_to_CompCol**: for a well-formed row-compressed input the output is a well-formed
column-compressed store (`colptr[0] = 0`, monotone, `colptr[n] = nnz`, row indices `< m`) that denotes
the same dense matrix (counting-sort argument). -/
theorem compRowToCompCol_spec (m n nnz : Nat) (a : Array α) (colind rowptr : Array Nat)
    (h : NRwf m n nnz colind rowptr) :
    let r := compRowToCompCol m n nnz a colind rowptr
    let B : NCMat α := { nrow := m, ncol := n, nnz := nnz, colptr := r.colptr, rowind := r.rowind, nzval := r.at_ }
    r.colptr.size = n + 1 ∧ r.rowind.size = nnz ∧ r.at_.size = nnz ∧
    rdN r.colptr 0 = 0 ∧ (∀ j < n, rdN r.colptr j ≤ rdN r.colptr (j + 1)) ∧ rdN r.colptr n = nnz ∧
    (∀ k < nnz, rdN r.rowind k < m) ∧
    (∀ i < m, ∀ j < n, B.dense i j = denseNR a colind rowptr i j) :=
  compRowToCompCol_spec' m n nnz a colind rowptr h

example : compRowToCompCol 2 3 3 (#[1, 2, 3] : Array Int) #[0, 2, 1] #[0, 2, 3]
    = { at_ := #[1, 3, 2], rowind := #[0, 1, 0], colptr := #[0, 1, 2, 3] } := by decide
example : NRwf 2 3 3 #[0, 2, 1] #[0, 2, 3] := ⟨by decide, by decide, by decide, by decide⟩

/-- **?Copy_CompCol_Matrix** preserves the matrix (and leaves the rest of B's storage alone) -/
theorem copy_spec (A B : NCMat α) (n : Nat) (hn : A.ncol = (n : Int))
    (hv : A.nnz ≤ B.nzval.size) (hr : A.nnz ≤ B.rowind.size) (hc : n + 1 ≤ B.colptr.size)
    (hext : ∀ j < n, A.cp (j + 1) ≤ A.nnz) :
    (copyCompCol A B).nrow = A.nrow ∧ (copyCompCol A B).ncol = A.ncol ∧ (copyCompCol A B).nnz = A.nnz ∧
    (∀ j ≤ n, (copyCompCol A B).cp j = A.cp j) ∧
    (∀ k < A.nnz, (copyCompCol A B).nz k = A.nz k ∧ (copyCompCol A B).ri k = A.ri k) ∧
    (∀ k, A.nnz ≤ k → (copyCompCol A B).nz k = B.nz k ∧ (copyCompCol A B).ri k = B.ri k) ∧
    (∀ i, ∀ j < n, (copyCompCol A B).dense i j = A.dense i j) := by
  obtain ⟨a1, a2, a3, -, -, -, a7, a8, a9, -, a11⟩ := copyCompCol_spec A B n hn hv hr hc hext
  exact ⟨a1, a2, a3, a9, a7, a8, a11⟩

example : (copyCompCol exA { nrow := -1, ncol := -1, nnz := 0, colptr := #[9, 9, 9, 9, 9], rowind := #[8, 8, 8, 8], nzval := #[7, 7, 7, 7] }).nzval
    = #[1, 2, 3, 7] := by decide

/-- **permuted view** (`?Create_CompCol_Permuted` on the pointers sp_colorder permutes): the view is `A·Pc` -/
theorem permutedView_spec (A : NCMat α) (permc : Array Nat) (n : Nat) (hn : A.ncol = (n : Int))
    (hlt : ∀ i < n, rdN permc i < n) (hinj : ∀ i < n, ∀ j < n, rdN permc i = rdN permc j → i = j) :
    (permutedView A permc).nrow = A.nrow ∧ (permutedView A permc).ncol = A.ncol ∧
    (permutedView A permc).nnz = A.nnz ∧ (permutedView A permc).nzval = A.nzval ∧
    (permutedView A permc).rowind = A.rowind ∧
    (∀ i, ∀ j < n, (permutedView A permc).dense i (rdN permc j) = A.dense i j) := by
  obtain ⟨a1, a2, a3, a4, a5, -, a7⟩ := permutedView_spec_full A permc n hn hlt hinj
  exact ⟨a1, a2, a3, a4, a5, a7⟩

example : (permutedView exA #[2, 0, 1]).colbeg = #[2, 2, 0] ∧ (permutedView exA #[2, 0, 1]).colend = #[2, 3, 2] := by decide

end Utils

/-! ### sp_?trsv -/
section Trsv

/-- the argument checks pass and the call reaches the sweeps -/
theorem spTrsv_ok (uplo trans diag : Char) (n : Nat) (one : Int) (L : SCP) (U : NCP) (x : Array Rat)
    (hu : lsame uplo 'L' = true ∨ lsame uplo 'U' = true)
    (ht : lsame trans 'N' = true ∨ lsame trans 'T' = true ∨ lsame trans 'C' = true)
    (hd : lsame diag 'U' = true ∨ lsame diag 'N' = true) :
    spTrsv uplo trans diag n n n n one L U x =
      if lsame trans 'N' then
        (if lsame uplo 'L' then (if (n : Int) = 0 then .ok x else .ok (sweepUp L (stepLN one) x))
         else (if (n : Int) = 0 then .ok x else .ok (sweepDown L (stepUN one U) x)))
      else
        (if lsame uplo 'L' then (if (n : Int) = 0 then .ok x else .ok (sweepDown L (stepLT one) x))
         else (if (n : Int) = 0 then .ok x else .ok (sweepUp L (stepUT one U) x))) := by
  unfold spTrsv
  rw [if_neg (by rcases hu with h | h <;> simp [h]), if_neg (by rcases ht with h | h | h <;> simp [h]),
    if_neg (by rcases hd with h | h <;> simp [h]), if_neg (by omega), if_neg (by omega)]

/-- the diagonal of U is non-zero in the supernode rectangles -/
theorem UOk_of_wf (L : SCP) (U : NCP) (one : Int) (hone : one ≠ 0) (hL : L.wf = true) (hU : U.wf L = true)
    (hdiag : ∀ j < L.n, entryU L U j j ≠ 0) : UOk one L U := by
  have hLok := LOk_of_wf L hL
  refine ⟨?_, ?_⟩
  · intro j hj t ht
    have := (ucol_facts L U hL hU j hj).1 t ht
    exact ⟨this.2.1, this.2.2⟩
  · intro k hk kk hkk
    have hsn := hLok.sn k hk
    have hnc := hsn.nc_eq
    have hj : (snk L k).f + kk < L.n := by have := hsn.e_le; omega
    have hsup : supOf L ((snk L k).f + kk) = k := hLok.sup_of_mem k hk _ (by omega) (by omega)
    have e := MUg_eq_entryU L U hL hU one ((snk L k).f + kk) ((snk L k).f + kk) hj
    unfold MUg MUs at e
    rw [hsup] at e
    have hsub : (snk L k).f + kk - (snk L k).f = kk := by omega
    have hcok : UcolOk (snk L k).f (U.cols.getD ((snk L k).f + kk) default) := by
      intro t ht
      have := ((ucol_facts L U hL hU _ hj).1 t ht).2.1
      rw [hsup] at this; exact this
    rw [hsub, snU_own hsn kk kk hkk hkk, if_pos (le_refl kk), ucolD_ge hcok _ (by omega), add_zero] at e
    rw [e]
    have h1 : ((entryU L U ((snk L k).f + kk) ((snk L k).f + kk) : Int) : Rat) ≠ 0 := by exact_mod_cast hdiag _ hj
    have h2 : (one : Rat) ≠ 0 := by exact_mod_cast hone
    exact div_ne_zero h1 h2


/-- **x := inv(L)·x.**  For a well-formed supernodal `L` (`SCP.wf`, which includes `depOrderOk`) the
sweep over supernodes `0, 1, …` (dense block solve, block gemv, scatter) returns `r` with
`L·r = x`, where `L` is the dense unit lower triangular matrix `entryL / one`. -/
theorem spTrsv_LN_spec (L : SCP) (U : NCP) (one : Int) (hone : one ≠ 0) (hL : L.wf = true) (uplo trans diag : Char) (hu : lsame uplo 'L' = true) (ht : lsame trans 'N' = true)
    (hd : lsame diag 'U' = true ∨ lsame diag 'N' = true) (x : Array Rat) (hx : x.size = L.n) :
    ∃ r, spTrsv uplo trans diag L.n L.n L.n L.n one L U x = .ok r ∧ r.size = L.n ∧
      ∀ i < L.n, ∑ j ∈ range L.n, ((L.entryL one i j : Int) : Rat) / (one : Rat) * rd r j = rd x i := by
  rw [spTrsv_ok uplo trans diag L.n one L U x (Or.inl hu) (Or.inl ht) hd]
  simp only [ht, hu, if_true]
  by_cases hn : (L.n : Int) = 0
  · rw [if_pos hn]
    exact ⟨x, rfl, hx, fun i hi => by omega⟩
  · rw [if_neg hn]
    obtain ⟨s1, s2⟩ := sweepUp_LN (LOk_of_wf L hL) one x hx
    refine ⟨_, rfl, s1, fun i hi => ?_⟩
    rw [← s2 i hi]
    exact sum_congr rfl (fun j hj => by rw [MLg_eq_entryL L hL one hone i j (mem_range.mp hj)])

/-- **x := inv(Lᵀ)·x**: supernodes `nsuper, …, 0` (dot products with the rows below the block, then the
transposed dense block solve): `Lᵀ·r = x`. -/
theorem spTrsv_LT_spec (L : SCP) (U : NCP) (one : Int) (hone : one ≠ 0) (hL : L.wf = true) (uplo trans diag : Char) (hu : lsame uplo 'L' = true) (hN : lsame trans 'N' = false)
    (ht : lsame trans 'T' = true ∨ lsame trans 'C' = true) (hd : lsame diag 'U' = true ∨ lsame diag 'N' = true)
    (x : Array Rat) (hx : x.size = L.n) :
    ∃ r, spTrsv uplo trans diag L.n L.n L.n L.n one L U x = .ok r ∧ r.size = L.n ∧
      ∀ i < L.n, ∑ j ∈ range L.n, ((L.entryL one j i : Int) : Rat) / (one : Rat) * rd r j = rd x i := by
  rw [spTrsv_ok uplo trans diag L.n one L U x (Or.inl hu) (Or.inr ht) hd]
  simp only [hN, hu, if_true, Bool.false_eq_true, if_false]
  by_cases hn : (L.n : Int) = 0
  · rw [if_pos hn]
    exact ⟨x, rfl, hx, fun i hi => by omega⟩
  · rw [if_neg hn]
    obtain ⟨s1, s2⟩ := sweepDown_LT (LOk_of_wf L hL) one x hx
    refine ⟨_, rfl, s1, fun i hi => ?_⟩
    rw [← s2 i hi]
    exact sum_congr rfl (fun j hj => by rw [MLg_eq_entryL L hL one hone j i hi])


/-- **x := inv(U)·x**: supernodes `nsuper, …, 0` (dense upper block solve, then the axpy updates with
the NCP columns): `U·r = x` for the dense upper triangular `entryU / one` with non-zero diagonal. -/
theorem spTrsv_UN_spec (L : SCP) (U : NCP) (one : Int) (hone : one ≠ 0) (hL : L.wf = true)
    (hU : U.wf L = true) (hdiag : ∀ j < L.n, entryU L U j j ≠ 0) (uplo trans diag : Char) (hnl : lsame uplo 'L' = false) (hu : lsame uplo 'U' = true)
    (ht : lsame trans 'N' = true) (hd : lsame diag 'U' = true ∨ lsame diag 'N' = true)
    (x : Array Rat) (hx : x.size = L.n) :
    ∃ r, spTrsv uplo trans diag L.n L.n L.n L.n one L U x = .ok r ∧ r.size = L.n ∧
      ∀ i < L.n, ∑ j ∈ range L.n, ((entryU L U i j : Int) : Rat) / (one : Rat) * rd r j = rd x i := by
  rw [spTrsv_ok uplo trans diag L.n one L U x (Or.inr hu) (Or.inl ht) hd]
  simp only [ht, hnl, if_true, Bool.false_eq_true, if_false]
  by_cases hn : (L.n : Int) = 0
  · rw [if_pos hn]
    exact ⟨x, rfl, hx, fun i hi => by omega⟩
  · rw [if_neg hn]
    obtain ⟨s1, s2⟩ := sweepDown_UN (LOk_of_wf L hL) one U (UOk_of_wf L U one hone hL hU hdiag) x hx
    refine ⟨_, rfl, s1, fun i hi => ?_⟩
    rw [← s2 i hi]
    exact sum_congr rfl (fun j hj => by rw [MUg_eq_entryU L U hL hU one i j (mem_range.mp hj)])

/-- **x := inv(Uᵀ)·x**: supernodes `0, 1, …`: `Uᵀ·r = x`. -/
theorem spTrsv_UT_spec (L : SCP) (U : NCP) (one : Int) (hone : one ≠ 0) (hL : L.wf = true)
    (hU : U.wf L = true) (hdiag : ∀ j < L.n, entryU L U j j ≠ 0) (uplo trans diag : Char) (hnl : lsame uplo 'L' = false) (hu : lsame uplo 'U' = true)
    (hN : lsame trans 'N' = false) (ht : lsame trans 'T' = true ∨ lsame trans 'C' = true)
    (hd : lsame diag 'U' = true ∨ lsame diag 'N' = true)
    (x : Array Rat) (hx : x.size = L.n) :
    ∃ r, spTrsv uplo trans diag L.n L.n L.n L.n one L U x = .ok r ∧ r.size = L.n ∧
      ∀ i < L.n, ∑ j ∈ range L.n, ((entryU L U j i : Int) : Rat) / (one : Rat) * rd r j = rd x i := by
  rw [spTrsv_ok uplo trans diag L.n one L U x (Or.inr hu) (Or.inr ht) hd]
  simp only [hN, hnl, Bool.false_eq_true, if_false]
  by_cases hn : (L.n : Int) = 0
  · rw [if_pos hn]
    exact ⟨x, rfl, hx, fun i hi => by omega⟩
  · rw [if_neg hn]
    obtain ⟨s1, s2⟩ := sweepUp_UT (LOk_of_wf L hL) one U (UOk_of_wf L U one hone hL hU hdiag) x hx
    refine ⟨_, rfl, s1, fun i hi => ?_⟩
    rw [← s2 i hi]
    exact sum_congr rfl (fun j hj => by rw [MUg_eq_entryU L U hL hU one j i hi])

/-- `trans = 'C'` takes exactly the path of `'T'` (real data: conjugate transpose = transpose).
(The complex twins sp_c/ztrsv still reject 'C' with info = -2: finding `trsv-rejects-trans-C`, which has
no model counterpart because the factors of Model/Sparse.lean are real.) -/
theorem spTrsv_C_is_T (L : SCP) (U : NCP) (one : Int) (uplo diag : Char) (lnrow lncol unrow uncol : Int) (x : Array Rat) :
    spTrsv uplo 'C' diag lnrow lncol unrow uncol one L U x = spTrsv uplo 'T' diag lnrow lncol unrow uncol one L U x ∧
    spTrsv uplo 'c' diag lnrow lncol unrow uncol one L U x = spTrsv uplo 'T' diag lnrow lncol unrow uncol one L U x := by
  have e1 : lsame 'C' 'N' = false := by decide
  have e2 : lsame 'C' 'T' = false := by decide
  have e3 : lsame 'C' 'C' = true := by decide
  have e4 : lsame 'T' 'N' = false := by decide
  have e5 : lsame 'T' 'T' = true := by decide
  have e6 : lsame 'c' 'N' = false := by decide
  have e7 : lsame 'c' 'T' = false := by decide
  have e8 : lsame 'c' 'C' = true := by decide
  have e9 : lsame 'T' 'C' = false := by decide
  constructor <;> unfold spTrsv <;> simp only [e1, e2, e3, e4, e5, e6, e7, e8, e9, Bool.false_and, Bool.true_and, Bool.not_false, Bool.not_true, Bool.and_false,
    Bool.and_true, Bool.false_eq_true, if_false]

/-- the info codes of sp_?trsv's argument check, in the order the code tests them -/
theorem spTrsv_argcheck (uplo trans diag : Char) (lnrow lncol unrow uncol : Int) (one : Int) (L : SCP) (U : NCP) (x : Array Rat) :
    (¬ (lsame uplo 'L' = true ∨ lsame uplo 'U' = true) →
      spTrsv uplo trans diag lnrow lncol unrow uncol one L U x = .xerbla 1) ∧
    ((lsame uplo 'L' = true ∨ lsame uplo 'U' = true) →
      ¬ (lsame trans 'N' = true ∨ lsame trans 'T' = true ∨ lsame trans 'C' = true) →
      spTrsv uplo trans diag lnrow lncol unrow uncol one L U x = .xerbla 2) ∧
    ((lsame uplo 'L' = true ∨ lsame uplo 'U' = true) →
      (lsame trans 'N' = true ∨ lsame trans 'T' = true ∨ lsame trans 'C' = true) →
      ¬ (lsame diag 'U' = true ∨ lsame diag 'N' = true) →
      spTrsv uplo trans diag lnrow lncol unrow uncol one L U x = .xerbla 3) ∧
    ((lsame uplo 'L' = true ∨ lsame uplo 'U' = true) →
      (lsame trans 'N' = true ∨ lsame trans 'T' = true ∨ lsame trans 'C' = true) →
      (lsame diag 'U' = true ∨ lsame diag 'N' = true) → (lnrow ≠ lncol ∨ lnrow < 0) →
      spTrsv uplo trans diag lnrow lncol unrow uncol one L U x = .xerbla 4) ∧
    ((lsame uplo 'L' = true ∨ lsame uplo 'U' = true) →
      (lsame trans 'N' = true ∨ lsame trans 'T' = true ∨ lsame trans 'C' = true) →
      (lsame diag 'U' = true ∨ lsame diag 'N' = true) → ¬ (lnrow ≠ lncol ∨ lnrow < 0) → (unrow ≠ uncol ∨ unrow < 0) →
      spTrsv uplo trans diag lnrow lncol unrow uncol one L U x = .xerbla 5) := by
  have hU : ∀ c1 c2 : Char, ¬ (lsame uplo c1 = true ∨ lsame uplo c2 = true) → (!lsame uplo c1 && !lsame uplo c2) = true := by
    intro c1 c2 h; cases h1 : lsame uplo c1 <;> cases h2 : lsame uplo c2 <;> simp_all
  have hU' : ∀ c1 c2 : Char, (lsame uplo c1 = true ∨ lsame uplo c2 = true) → ¬ ((!lsame uplo c1 && !lsame uplo c2) = true) := by
    intro c1 c2 h; rcases h with h | h <;> simp [h]
  have hT : ¬ (lsame trans 'N' = true ∨ lsame trans 'T' = true ∨ lsame trans 'C' = true) →
      (!lsame trans 'N' && !lsame trans 'T' && !lsame trans 'C') = true := by
    intro h; cases h1 : lsame trans 'N' <;> cases h2 : lsame trans 'T' <;> cases h3 : lsame trans 'C' <;> simp_all
  have hT' : (lsame trans 'N' = true ∨ lsame trans 'T' = true ∨ lsame trans 'C' = true) →
      ¬ ((!lsame trans 'N' && !lsame trans 'T' && !lsame trans 'C') = true) := by
    intro h; rcases h with h | h | h <;> simp [h]
  have hD : ¬ (lsame diag 'U' = true ∨ lsame diag 'N' = true) → (!lsame diag 'U' && !lsame diag 'N') = true := by
    intro h; cases h1 : lsame diag 'U' <;> cases h2 : lsame diag 'N' <;> simp_all
  have hD' : (lsame diag 'U' = true ∨ lsame diag 'N' = true) → ¬ ((!lsame diag 'U' && !lsame diag 'N') = true) := by
    intro h; rcases h with h | h <;> simp [h]
  refine ⟨fun h => ?_, fun a h => ?_, fun a b h => ?_, fun a b c h => ?_, fun a b c d h => ?_⟩
  · unfold spTrsv; rw [if_pos (hU _ _ h)]
  · unfold spTrsv; rw [if_neg (hU' _ _ a), if_pos (hT h)]
  · unfold spTrsv; rw [if_neg (hU' _ _ a), if_neg (hT' b), if_pos (hD h)]
  · unfold spTrsv; rw [if_neg (hU' _ _ a), if_neg (hT' b), if_neg (hD' c), if_pos h]
  · unfold spTrsv; rw [if_neg (hU' _ _ a), if_neg (hT' b), if_neg (hD' c), if_neg d, if_pos h]

end Trsv

/-! non-vacuity of the triangular-solve theorems: `L = [[1,0],[3,1]]`, `U = [[2,1],[0,4]]` stored as one
two-column supernode -/
def exSn : Snode := { f := 0, e := 2, rowBeg := 0, rows := #[0, 1], nzBeg := #[0, 2], vals := #[#[2, 3], #[1, 4]] }
def exL : SCP :=
  { n := 2, nnz := 3, nsuper := 0, colToSup := #[0, 0], supBeg := #[0], supEnd := #[2]
    rowBegA := #[0, 0], rowEndA := #[2, 2], nzBegA := #[0, 2], nzEndA := #[2, 4], sn := #[exSn] }
def exU : NCP := { n := 2, nnz := 3, cols := #[{ beg := 0, rows := #[], vals := #[] }, { beg := 0, rows := #[], vals := #[] }] }
theorem exL_wf : exL.wf = true := by decide +kernel
theorem exU_wf : exU.wf exL = true := by decide +kernel
theorem exU_diag : ∀ j < exL.n, entryU exL exU j j ≠ 0 := by decide +kernel

example : ∃ r, spTrsv 'L' 'N' 'U' 2 2 2 2 1 exL exU #[2, 10] = .ok r ∧ r.size = 2 ∧
    ∀ i < 2, ∑ j ∈ range 2, ((exL.entryL 1 i j : Int) : Rat) / ((1 : Int) : Rat) * rd r j = rd #[(2 : Rat), 10] i :=
  spTrsv_LN_spec exL exU 1 (by decide) exL_wf 'L' 'N' 'U' (by decide) (by decide) (Or.inl (by decide)) #[2, 10] rfl
example : ∃ r, spTrsv 'U' 't' 'N' 2 2 2 2 1 exL exU #[4, 8] = .ok r ∧ r.size = 2 ∧
    ∀ i < 2, ∑ j ∈ range 2, ((entryU exL exU j i : Int) : Rat) / ((1 : Int) : Rat) * rd r j = rd #[(4 : Rat), 8] i :=
  spTrsv_UT_spec exL exU 1 (by decide) exL_wf exU_wf exU_diag 'U' 't' 'N' (by decide) (by decide) (by decide) (Or.inl (by decide))
    (Or.inr (by decide)) #[4, 8] rfl
example : spTrsv 'L' 'N' 'U' 2 2 2 2 1 exL exU #[2, 10] = .ok #[2, 4] := by decide +kernel
example : spTrsv 'U' 'N' 'N' 2 2 2 2 1 exL exU #[4, 8] = .ok #[1, 2] := by decide +kernel
example : spTrsv 'L' 'T' 'U' 2 2 2 2 1 exL exU #[5, 1] = .ok #[2, 1] := by decide +kernel
example : spTrsv 'U' 'T' 'N' 2 2 2 2 1 exL exU #[4, 10] = .ok #[2, 2] := by decide +kernel
example : spTrsv 'U' 'C' 'N' 2 2 2 2 1 exL exU #[4, 10] = .ok #[2, 2] := by decide +kernel


/-! ### the same statements in Mathlib's matrix notation -/
section MatrixForm
variable {α : Type} [CommRing α] [DecidableEq α]

/-- the dense matrix of an `NCformat` store as a Mathlib matrix -/
def NCMat.toMatrix (A : NCMat α) (m n : Nat) : Matrix (Fin m) (Fin n) α := Matrix.of fun i j => A.dense i j

/-- **sp_?gemv in matrix notation** (unit increments): `y' = alpha • A *ᵥ x + beta • y` -/
theorem spGemv_spec_matrix_N (trans : Char) (alpha beta : α) (A : NCMat α) (x y : Array α) (m n : Nat)
    (hN : lsame trans 'N' = true) (hm : A.nrow = (m : Int)) (hn : A.ncol = (n : Int))
    (hm0 : m ≠ 0) (hn0 : n ≠ 0) (hrows : A.rowsOk) (hy : m ≤ y.size) :
    ∃ y', spGemv trans alpha A x 1 beta y 1 = .ok y' ∧
      (fun i : Fin m => rd y' i) =
        alpha • (A.toMatrix m n).mulVec (fun j : Fin n => rd x j) + beta • (fun i : Fin m => rd y i) := by
  obtain ⟨y', h1, -, h3, -⟩ := spGemv_spec_N trans alpha beta A x y 0 0 1 m n hN hm hn hm0 hn0 (by decide) hrows (by omega)
  refine ⟨y', h1, ?_⟩
  funext i
  have := h3 i i.2
  simp only [Nat.zero_add, spos_one] at this
  simp only [Pi.add_apply, Pi.smul_apply, smul_eq_mul, Matrix.mulVec, dotProduct, NCMat.toMatrix, Matrix.of_apply]
  rw [this, Fin.sum_univ_eq_sum_range (fun j => A.dense i j * rd x j) n]

theorem spGemv_spec_matrix_T (trans : Char) (alpha beta : α) (A : NCMat α) (x y : Array α) (m n : Nat)
    (hN : lsame trans 'N' = false) (hT : lsame trans 'T' = true ∨ lsame trans 'C' = true)
    (hm : A.nrow = (m : Int)) (hn : A.ncol = (n : Int))
    (hm0 : m ≠ 0) (hn0 : n ≠ 0) (hrows : A.rowsOk) (hy : n ≤ y.size) :
    ∃ y', spGemv trans alpha A x 1 beta y 1 = .ok y' ∧
      (fun j : Fin n => rd y' j) =
        alpha • (A.toMatrix m n).transpose.mulVec (fun i : Fin m => rd x i) + beta • (fun j : Fin n => rd y j) := by
  obtain ⟨y', h1, -, h3, -⟩ := spGemv_spec_T trans alpha beta A x y 0 0 1 m n hN hT hm hn hm0 hn0 (by decide) hrows
    (by simp; omega)
  refine ⟨y', h1, ?_⟩
  funext j
  have := h3 j j.2
  simp only [Nat.zero_add, spos_one] at this
  simp only [Pi.add_apply, Pi.smul_apply, smul_eq_mul, Matrix.mulVec, dotProduct, NCMat.toMatrix, Matrix.of_apply,
    Matrix.transpose_apply]
  rw [this, Fin.sum_univ_eq_sum_range (fun i => A.dense i j * rd x i) m]

end MatrixForm

/-- dense `L` and `U` of a factorization as Mathlib matrices (values divided by the scale `one`) -/
def Lmat (L : SCP) (one : Int) : Matrix (Fin L.n) (Fin L.n) Rat :=
  Matrix.of fun i j => ((L.entryL one i j : Int) : Rat) / (one : Rat)
def Umat (L : SCP) (U : NCP) (one : Int) : Matrix (Fin L.n) (Fin L.n) Rat :=
  Matrix.of fun i j => ((entryU L U i j : Int) : Rat) / (one : Rat)

/-- **spTrsv_spec** — the four real cases in one statement, in matrix notation: for well-formed factors
(`SCP.wf` incl. `depOrderOk`, `NCP.wf`, non-zero diagonal of `U`) the result `r` of
`sp_?trsv(uplo, trans, …)` satisfies `op(T)·r = x` with `T = L` or `U` and `op` = identity or transpose
(`'C'` = `'T'`), i.e. `r = inv(L)x, inv(U)x, inv(Lᵀ)x, inv(Uᵀ)x`. -/
theorem spTrsv_spec (L : SCP) (U : NCP) (one : Int) (hone : one ≠ 0) (hL : L.wf = true) (hU : U.wf L = true)
    (hdiag : ∀ j < L.n, entryU L U j j ≠ 0) (uplo trans diag : Char)
    (hu : lsame uplo 'L' = true ∨ (lsame uplo 'L' = false ∧ lsame uplo 'U' = true))
    (ht : lsame trans 'N' = true ∨ (lsame trans 'N' = false ∧ (lsame trans 'T' = true ∨ lsame trans 'C' = true)))
    (hd : lsame diag 'U' = true ∨ lsame diag 'N' = true) (x : Array Rat) (hx : x.size = L.n) :
    ∃ r, spTrsv uplo trans diag L.n L.n L.n L.n one L U x = .ok r ∧ r.size = L.n ∧
      (let T := if lsame uplo 'L' then Lmat L one else Umat L U one
       let T' := if lsame trans 'N' then T else T.transpose
       T'.mulVec (fun j : Fin L.n => rd r j) = fun i : Fin L.n => rd x i) := by
  have conv : ∀ (F : Nat → Nat → Rat) (r : Array Rat),
      (∀ i < L.n, ∑ j ∈ range L.n, F i j * rd r j = rd x i) →
      (Matrix.of fun (i j : Fin L.n) => F i j).mulVec (fun j : Fin L.n => rd r j) = fun i : Fin L.n => rd x i := by
    intro F r h
    funext i
    simp only [Matrix.mulVec, dotProduct, Matrix.of_apply]
    rw [Fin.sum_univ_eq_sum_range (fun j => F i j * rd r j) L.n]
    exact h i i.2
  rcases hu with hu | ⟨hnl, hu⟩
  · rcases ht with ht | ⟨hN, ht⟩
    · obtain ⟨r, h1, h2, h3⟩ := spTrsv_LN_spec L U one hone hL uplo trans diag hu ht hd x hx
      refine ⟨r, h1, h2, ?_⟩
      simp only [hu, ht, if_true]
      exact conv _ r h3
    · obtain ⟨r, h1, h2, h3⟩ := spTrsv_LT_spec L U one hone hL uplo trans diag hu hN ht hd x hx
      refine ⟨r, h1, h2, ?_⟩
      simp only [hu, hN, if_true, Bool.false_eq_true, if_false]
      exact conv (fun i j => ((L.entryL one j i : Int) : Rat) / (one : Rat)) r h3
  · rcases ht with ht | ⟨hN, ht⟩
    · obtain ⟨r, h1, h2, h3⟩ := spTrsv_UN_spec L U one hone hL hU hdiag uplo trans diag hnl hu ht hd x hx
      refine ⟨r, h1, h2, ?_⟩
      simp only [hnl, ht, if_true, Bool.false_eq_true, if_false]
      exact conv _ r h3
    · obtain ⟨r, h1, h2, h3⟩ := spTrsv_UT_spec L U one hone hL hU hdiag uplo trans diag hnl hu hN ht hd x hx
      refine ⟨r, h1, h2, ?_⟩
      simp only [hnl, hN, Bool.false_eq_true, if_false]
      exact conv (fun i j => ((entryU L U j i : Int) : Rat) / (one : Rat)) r h3

example : ∃ r, spTrsv 'U' 'N' 'N' 2 2 2 2 1 exL exU #[4, 8] = .ok r ∧ r.size = 2 ∧
    (Umat exL exU 1).mulVec (fun j : Fin 2 => rd r j) = fun i : Fin 2 => rd #[(4 : Rat), 8] i := by
  obtain ⟨r, h1, h2, h3⟩ := spTrsv_spec exL exU 1 (by decide) exL_wf exU_wf exU_diag 'U' 'N' 'N'
    (Or.inr ⟨by decide, by decide⟩) (Or.inl (by decide)) (Or.inr (by decide)) #[4, 8] rfl
  have e1 : lsame 'N' 'N' = true := by decide
  have e2 : lsame 'U' 'L' = false := by decide
  simp only [e1, e2, if_true, Bool.false_eq_true, if_false] at h3
  exact ⟨r, h1, h2, h3⟩

end Slu.Blas
