/-
C09 — returned L, U and permutations are well-formed data structures.
`SCP.wf` / `NCP.wf` / `checkPerm` (Model/Sparse.lean, Model/Perm.lean) are the executable forms of the
property's conjunctions and are evaluated on every factorization the real library returns.
Here: what well-formedness buys (for every size and every structure that passes the check):
  * the dense L it denotes is unit lower triangular, the dense U upper triangular,
  * every sub-diagonal row of a supernode belongs to a later-numbered supernode, so sweeping the
    supernodes in index order is a valid substitution order,
  * `checkPerm` decides exactly "bijection of 0..n-1".
The models of `fixupL` / `countnz` and their specifications are in Props/C09Fixup.lean.
-/
import SluVerif.Model.Sparse
import SluVerif.Props.Checkers

namespace Slu

theorem wf_parts (L : SCP) (h : L.wf = true) :
    L.partitionOk = true ∧ (L.sn.all (fun s => s.wf L.n)) = true ∧ L.depOrderOk = true ∧ L.colsCovered = true := by
  unfold SCP.wf at h
  simp only [Bool.and_eq_true] at h
  obtain ⟨⟨⟨⟨⟨⟨h1, h2⟩, _⟩, _⟩, _⟩, h6⟩, h7⟩ := h
  exact ⟨h1, h2, h6, h7⟩

/-- the supernode named by `col_to_sup[j]` really contains column `j` and is itself well-formed -/
theorem wf_col_in_snode (L : SCP) (h : L.wf = true) (j : Nat) (hj : j < L.n) :
    let s := L.sn.getD (geti L.colToSup j).toNat default
    s.f ≤ j ∧ j < s.e ∧ s.wf L.n = true := by
  obtain ⟨_, hsn, _, hcov⟩ := wf_parts L h
  unfold SCP.colsCovered at hcov
  rw [all_range_iff] at hcov
  have := hcov j hj
  simp only [Bool.and_eq_true, decide_eq_true_eq] at this
  obtain ⟨⟨⟨_, hlt⟩, hf⟩, he⟩ := this
  refine ⟨hf, he, ?_⟩
  rw [Array.all_eq_true] at hsn
  have hsz : (geti L.colToSup j).toNat < L.sn.size := hlt
  have := hsn (geti L.colToSup j).toNat hsz
  simpa [Array.getD, hsz] using this

/-- shape facts packed in `Snode.wf` -/
theorem snode_wf_rows (n : Nat) (s : Snode) (h : s.wf n = true) :
    s.f < s.e ∧ s.e ≤ n ∧ s.e - s.f ≤ s.rows.size ∧
    (∀ k, k < s.e - s.f → geti s.rows k = ((s.f + k : Nat) : Int)) ∧
    (∀ r ∈ s.rows.toList.drop (s.e - s.f), (s.e : Int) ≤ r ∧ r < (n : Int)) := by
  unfold Snode.wf at h
  simp only [Bool.and_eq_true, decide_eq_true_eq, List.all_eq_true, beq_iff_eq, List.mem_range] at h
  obtain ⟨⟨⟨⟨⟨⟨⟨⟨⟨⟨h1, h2⟩, h3⟩, _⟩, h5⟩, h6⟩, _⟩, _⟩, _⟩, _⟩, _⟩ := h
  exact ⟨h1, h2, h3, h5, h6⟩

theorem rowPos_some (rows : Array Int) (i k : Nat) (hp : rowPos rows i = some k) :
    k < rows.size ∧ geti rows k = (i : Int) := by
  unfold rowPos at hp
  simp only at hp
  split at hp
  · next hlt =>
    simp only [Option.some.injEq] at hp
    subst hp
    refine ⟨hlt, ?_⟩
    have hl : rows.toList.idxOf (i : Int) < rows.toList.length := by simpa using hlt
    have hget : rows.toList[rows.toList.idxOf (i : Int)]'hl = (i : Int) := List.getElem_idxOf hl
    unfold geti
    simp only [Array.getD, hlt, dite_true]
    rw [Array.getInternal_eq_getElem, ← Array.getElem_toList]
    exact hget
  · cases hp

theorem geti_mem_drop (rows : Array Int) (w k : Nat) (hw : w ≤ k) (hk : k < rows.size) :
    geti rows k ∈ rows.toList.drop w := by
  rw [List.mem_drop_iff_getElem]
  refine ⟨k - w, by simp; omega, ?_⟩
  have : w + (k - w) = k := by omega
  simp only [this]
  unfold geti
  simp [Array.getD, hk]

theorem geti_mem (rows : Array Int) (k : Nat) (hk : k < rows.size) : geti rows k ∈ rows.toList := by
  unfold geti
  simp [Array.getD, hk]

/-- a row index below the supernode's last column can only sit at its own offset `i - f` -/
theorem rowPos_own (n : Nat) (s : Snode) (h : s.wf n = true) (i k : Nat) (hi : i < s.e)
    (hp : rowPos s.rows i = some k) : s.f ≤ i ∧ k = i - s.f := by
  obtain ⟨h1, h2, h3, h5, h6⟩ := snode_wf_rows n s h
  obtain ⟨hk, hget⟩ := rowPos_some s.rows i k hp
  by_cases hkw : k < s.e - s.f
  · have := h5 k hkw
    rw [hget] at this
    have : i = s.f + k := by exact_mod_cast this
    omega
  · exfalso
    have hmem := geti_mem_drop s.rows (s.e - s.f) k (by omega) hk
    rw [hget] at hmem
    have := (h6 _ hmem).1
    omega

/-- **WF ⇒ L is unit lower triangular** (dense reading `SCP.entryL`, `one` = the representation of 1.0) -/
theorem wf_gives_unit_lower (L : SCP) (one : Int) (h : L.wf = true) (i j : Nat) (hj : j < L.n) :
    (i = j → L.entryL one i j = one) ∧ (i < j → L.entryL one i j = 0) := by
  constructor
  · intro e; unfold SCP.entryL; simp [e]
  · intro hij
    obtain ⟨hf, he, hw⟩ := wf_col_in_snode L h j hj
    unfold SCP.entryL
    rw [if_neg (by omega)]
    simp only
    cases hp : rowPos (L.sn.getD (geti L.colToSup j).toNat default).rows i with
    | none => rfl
    | some k =>
      simp only
      obtain ⟨h1, h2⟩ := rowPos_own L.n _ hw i k (by omega) hp
      rw [if_neg (by omega)]

/-- **WF ⇒ U is upper triangular** (dense reading `entryU`: supernode upper triangles + NCP columns) -/
theorem wf_gives_upper (L : SCP) (U : NCP) (h : L.wf = true) (hu : U.wf L = true) (i j : Nat) (hj : j < L.n)
    (hji : j < i) : entryU L U i j = 0 := by
  obtain ⟨hf, he, hw⟩ := wf_col_in_snode L h j hj
  unfold entryU
  simp only
  cases hp : rowPos (L.sn.getD (geti L.colToSup j).toNat default).rows i with
  | some k =>
    simp only
    -- i > j: either i is one of the supernode's own later columns (k = i - f > j - f) or a sub-diagonal row (k ≥ width)
    by_cases hie : i < (L.sn.getD (geti L.colToSup j).toNat default).e
    · obtain ⟨h1, h2⟩ := rowPos_own L.n _ hw i k hie hp
      rw [if_neg (by omega)]
    · -- k ≥ width > j - f
      obtain ⟨g1, g2, g3, g5, g6⟩ := snode_wf_rows L.n _ hw
      have hk : ¬ k ≤ j - (L.sn.getD (geti L.colToSup j).toNat default).f := by
        intro hk
        have hkw : k < (L.sn.getD (geti L.colToSup j).toNat default).e - (L.sn.getD (geti L.colToSup j).toNat default).f := by omega
        have h5k := g5 k hkw
        obtain ⟨_, hget⟩ := rowPos_some _ i k hp
        rw [hget] at h5k
        have : i = (L.sn.getD (geti L.colToSup j).toNat default).f + k := by exact_mod_cast h5k
        omega
      rw [if_neg hk]
  | none =>
    simp only
    -- NCP part: every stored row is < first column of j's supernode ≤ j < i
    unfold NCP.wf at hu
    simp only [Bool.and_eq_true] at hu
    obtain ⟨⟨⟨⟨hn, _⟩, hcols⟩, _⟩, _⟩ := hu
    rw [all_range_iff] at hcols
    have hnn : U.n = L.n := by simpa using hn
    have hc := hcols j (by rw [hnn]; exact hj)
    simp only [Bool.and_eq_true, decide_eq_true_eq, List.all_eq_true] at hc
    obtain ⟨⟨⟨_, _⟩, hrows⟩, _⟩ := hc
    cases hq : rowPos (U.cols.getD j default).rows i with
    | none => rfl
    | some k =>
      simp only
      exfalso
      obtain ⟨hk2, hget⟩ := rowPos_some _ i k hq
      have hmem := geti_mem (U.cols.getD j default).rows k hk2
      rw [hget] at hmem
      have := (hrows _ hmem).1.2
      unfold SCP.fsupc at this
      omega

/-- **index-order sweeps are valid**: every sub-diagonal row of supernode `s` lives in a supernode numbered after `s` -/
theorem wf_dep_order (L : SCP) (h : L.wf = true) (s : Nat) (hs : s < L.sn.size)
    (r : Int) (hr : r ∈ (L.sn.getD s default).rows.toList.drop ((L.sn.getD s default).e - (L.sn.getD s default).f)) :
    (s : Int) < geti L.colToSup r.toNat := by
  obtain ⟨_, _, hdep, _⟩ := wf_parts L h
  unfold SCP.depOrderOk at hdep
  rw [all_range_iff] at hdep
  have := hdep s hs
  simp only [List.all_eq_true, decide_eq_true_eq] at this
  exact this r hr

end Slu
