/-
C04 — scheduler bookkeeping (Model/Sched.lean `schedule`, the critical section of pxgstrf_scheduler):
single-step theorems valid for EVERY shared state, forest, panel size and caller:
  * a panel is handed out only if it was untaken (state > BUSY) and it becomes BUSY   (`schedule_takes_untaken`)
  * `tasks_remain` drops by exactly one iff a panel is handed out                      (`schedule_tasksRemain`)
  * the queue cursor algebra: head and tail only grow, tail by at most one, `count = tail - head` is preserved
                                                                                       (`schedule_queue`)
  * the dequeue loop skips exactly the stale entries (state below CANGO)               (`dequeue_spec`)
The system-level invariants built from them (exactly-once, tasks_remain = #untaken, queue ≤ n, progress)
are checked exhaustively on small forests and along every driven trace by the monitors of
Model/SchedSys.lean (same Boolean functions); their unbounded proofs are listed as open obligations in DESIGN.md.
-/
import SluVerif.Model.SchedSys
import Mathlib.Tactic.Linarith

namespace Slu
open Slu.Gen

/-- queue cursor invariant of the C queue (`head`, `tail`, `count`) -/
def QueueOk (sh : Sh) : Prop := sh.head ≤ sh.tail ∧ sh.count = ((sh.tail : Int) - (sh.head : Int))

/-- what one run of the dequeue loop leaves unchanged -/
def SameButCursor (a b : Sh) : Prop :=
  b.tail = a.tail ∧ b.state = a.state ∧ b.ukids = a.ukids ∧ b.tasksRemain = a.tasksRemain ∧ b.queue = a.queue ∧
  b.fb = a.fb ∧ b.spin = a.spin ∧ b.size = a.size ∧ b.typ = a.typ

theorem dequeue_spec (fuel : Nat) (sh : Sh) (hq : QueueOk sh) (sh' : Sh) (got : Option Nat)
    (hr : dequeue sh fuel = (sh', got)) :
    QueueOk sh' ∧ sh.head ≤ sh'.head ∧ SameButCursor sh sh' ∧
    (∀ j, got = some j → getN sh.state j ≥ CANGO ∧ ∃ k, sh.head ≤ k ∧ k < sh.tail ∧ getN sh.queue k = j ∧ sh'.head = k + 1 ∧
        ∀ k', sh.head ≤ k' → k' < k → getN sh.state (getN sh.queue k') < CANGO) := by
  induction fuel generalizing sh with
  | zero =>
    simp only [dequeue, Prod.mk.injEq] at hr
    obtain ⟨rfl, rfl⟩ := hr
    exact ⟨hq, le_refl _, ⟨rfl, rfl, rfl, rfl, rfl, rfl, rfl, rfl, rfl⟩, fun j h => by cases h⟩
  | succ fuel ih =>
    unfold dequeue at hr
    by_cases hc : sh.count ≤ 0
    · rw [if_pos hc] at hr
      simp only [Prod.mk.injEq] at hr
      obtain ⟨rfl, rfl⟩ := hr
      exact ⟨hq, le_refl _, ⟨rfl, rfl, rfl, rfl, rfl, rfl, rfl, rfl, rfl⟩, fun j h => by cases h⟩
    · rw [if_neg hc] at hr
      have hlt : sh.head < sh.tail := by
        obtain ⟨h1, h2⟩ := hq
        have : (0 : Int) < sh.count := by omega
        omega
      have hq' : QueueOk { sh with head := sh.head + 1, count := sh.count - 1 } := by
        obtain ⟨h1, h2⟩ := hq
        refine ⟨by simp only; omega, ?_⟩
        simp only; push_cast; omega
      simp only at hr
      by_cases hs : getN sh.state (getN sh.queue sh.head) ≥ CANGO
      · rw [if_pos hs] at hr
        simp only [Prod.mk.injEq] at hr
        obtain ⟨rfl, rfl⟩ := hr
        refine ⟨hq', by simp, ⟨rfl, rfl, rfl, rfl, rfl, rfl, rfl, rfl, rfl⟩, ?_⟩
        intro j h
        simp only [Option.some.injEq] at h
        subst h
        exact ⟨hs, sh.head, le_refl _, hlt, rfl, rfl, fun k' h1 h2 => by omega⟩
      · rw [if_neg hs] at hr
        obtain ⟨a1, a2, a3, a4⟩ := ih { sh with head := sh.head + 1, count := sh.count - 1 } hq' hr
        simp only at a2 a3 a4
        refine ⟨a1, by omega, a3, ?_⟩
        intro j h
        obtain ⟨b1, k, b2, b3, b4, b5, b6⟩ := a4 j h
        refine ⟨b1, k, by omega, b3, b4, b5, ?_⟩
        intro k' h1 h2
        by_cases e : k' = sh.head
        · subst e; exact not_le.1 hs
        · exact b6 k' (by omega) h2


theorem getN_set (a : Array Nat) (i j v : Nat) (hi : i < a.size) :
    getN (a.setIfInBounds i v) j = if j = i then v else getN a j := by
  unfold getN
  by_cases h : j = i
  · subst h; simp [Array.getD, hi]
  · simp only [Array.getD, Array.size_setIfInBounds, h, if_false]
    split
    · next hj =>
      rw [Array.getInternal_eq_getElem, Array.getInternal_eq_getElem, Array.getElem_setIfInBounds]
      · simp [Ne.symm h]
      · exact hj
    · rfl

theorem getN_set_ne (a : Array Nat) (i j v : Nat) (h : j ≠ i) : getN (a.setIfInBounds i v) j = getN a j := by
  unfold getN
  simp [Array.getD, h]
  split
  · next hj =>
    rw [Array.getElem_setIfInBounds]
    · simp [Ne.symm h]
    · exact hj
  · rfl

/-- **First half**: reporting + picking never touches `tasks_remain`, the states, the sizes or the queue
contents; it keeps the cursor algebra; and whatever it picks was untaken (`state > BUSY`). -/
theorem pickPanel_spec (c : PanelCfg) (sh : Sh) (cur : Option Nat) (hq : QueueOk sh)
    (sh1 : Sh) (got : Option Nat) (hr : pickPanel c sh cur = (sh1, got)) :
    QueueOk sh1 ∧ sh.head ≤ sh1.head ∧ sh1.tail = sh.tail ∧ sh1.state = sh.state ∧ sh1.tasksRemain = sh.tasksRemain ∧
    sh1.queue = sh.queue ∧ sh1.size = sh.size ∧ sh1.spin = sh.spin ∧
    (∀ j, got = some j → getN sh.state j > BUSY) := by
  unfold pickPanel at hr
  cases cur with
  | none =>
    simp only at hr
    obtain ⟨a1, a2, a3, a4⟩ := dequeue_spec _ sh hq sh1 got hr
    obtain ⟨b1, b2, b3, b4, b5, b6, b7, b8, b9⟩ := a3
    refine ⟨a1, a2, b1, b2, b4, b5, b8, b7, ?_⟩
    intro j h
    have := (a4 j h).1
    simp only [CANGO, BUSY] at *; omega
  | some jcol =>
    simp only at hr
    split at hr
    · next hcond =>
      simp only [Prod.mk.injEq] at hr
      obtain ⟨rfl, rfl⟩ := hr
      refine ⟨hq, le_refl _, rfl, rfl, rfl, rfl, rfl, rfl, ?_⟩
      intro j h
      simp only [Option.some.injEq] at h
      subst h
      simp only [Bool.and_eq_true, decide_eq_true_eq] at hcond
      exact hcond.2
    · have hqA : QueueOk { sh with ukids := sh.ukids.setIfInBounds (dadPanel c sh jcol) (getZ sh.ukids (dadPanel c sh jcol) - 1) } := hq
      obtain ⟨a1, a2, a3, a4⟩ := dequeue_spec _ _ hqA sh1 got hr
      obtain ⟨b1, b2, b3, b4, b5, b6, b7, b8, b9⟩ := a3
      refine ⟨a1, a2, b1, b2, b4, b5, b8, b7, ?_⟩
      intro j h
      have := (a4 j h).1
      simp only [CANGO, BUSY] at *; omega

theorem dadPanel_congr (c : PanelCfg) (x y : Sh) (h : x.size = y.size) (j : Nat) : dadPanel c x j = dadPanel c y j := by
  unfold dadPanel; rw [h]

/-- the condition under which the parent becomes CANPIPE and is enqueued -/
def pipeCond (c : PanelCfg) (sh1 : Sh) (j : Nat) : Bool :=
  decide (dadPanel c sh1 j < c.n) && (getZ sh1.ukids (dadPanel c sh1 j) == 1)

theorem takePanel_state (c : PanelCfg) (sh1 : Sh) (j : Nat) :
    (takePanel c sh1 j).1.state = if pipeCond c sh1 j then (sh1.state.setIfInBounds j BUSY).setIfInBounds (dadPanel c sh1 j) CANPIPE
                                  else sh1.state.setIfInBounds j BUSY := rfl
theorem takePanel_tail (c : PanelCfg) (sh1 : Sh) (j : Nat) :
    (takePanel c sh1 j).1.tail = if pipeCond c sh1 j then sh1.tail + 1 else sh1.tail := rfl
theorem takePanel_count (c : PanelCfg) (sh1 : Sh) (j : Nat) :
    (takePanel c sh1 j).1.count = if pipeCond c sh1 j then sh1.count + 1 else sh1.count := rfl
theorem takePanel_queue (c : PanelCfg) (sh1 : Sh) (j : Nat) :
    (takePanel c sh1 j).1.queue = if pipeCond c sh1 j then sh1.queue.setIfInBounds sh1.tail (dadPanel c sh1 j) else sh1.queue := rfl
theorem takePanel_head (c : PanelCfg) (sh1 : Sh) (j : Nat) : (takePanel c sh1 j).1.head = sh1.head := rfl
theorem takePanel_tasks (c : PanelCfg) (sh1 : Sh) (j : Nat) : (takePanel c sh1 j).1.tasksRemain = sh1.tasksRemain - 1 := rfl
theorem takePanel_size (c : PanelCfg) (sh1 : Sh) (j : Nat) : (takePanel c sh1 j).1.size = sh1.size := rfl
theorem takePanel_ukids (c : PanelCfg) (sh1 : Sh) (j : Nat) : (takePanel c sh1 j).1.ukids = sh1.ukids := rfl

/-- **Second half**: taking panel `j` sets it BUSY, decrements `tasks_remain` by one, may mark exactly the
parent panel CANPIPE and append it to the queue (tail grows by at most one), and touches no other state. -/
theorem takePanel_spec (c : PanelCfg) (sh1 : Sh) (j : Nat) (hq : QueueOk sh1)
    (hj : j < sh1.state.size) (hdad : dadPanel c sh1 j ≠ j) (hdsz : dadPanel c sh1 j < sh1.state.size) :
    QueueOk (takePanel c sh1 j).1 ∧ (takePanel c sh1 j).1.head = sh1.head ∧ sh1.tail ≤ (takePanel c sh1 j).1.tail ∧
    (takePanel c sh1 j).1.tail ≤ sh1.tail + 1 ∧
    (takePanel c sh1 j).1.tasksRemain = sh1.tasksRemain - 1 ∧ getN (takePanel c sh1 j).1.state j = BUSY ∧
    (takePanel c sh1 j).1.size = sh1.size ∧ (takePanel c sh1 j).1.ukids = sh1.ukids ∧
    (∀ p, p ≠ j → p ≠ dadPanel c sh1 j → getN (takePanel c sh1 j).1.state p = getN sh1.state p) ∧
    (getN (takePanel c sh1 j).1.state (dadPanel c sh1 j) = getN sh1.state (dadPanel c sh1 j) ∨
      getN (takePanel c sh1 j).1.state (dadPanel c sh1 j) = CANPIPE) := by
  obtain ⟨h1, h2⟩ := hq
  refine ⟨⟨?_, ?_⟩, takePanel_head c sh1 j, ?_, ?_, takePanel_tasks c sh1 j, ?_, takePanel_size c sh1 j, takePanel_ukids c sh1 j, ?_, ?_⟩
  · rw [takePanel_head, takePanel_tail]; split <;> omega
  · rw [takePanel_head, takePanel_tail, takePanel_count]; split
    · push_cast; omega
    · exact h2
  · rw [takePanel_tail]; split <;> omega
  · rw [takePanel_tail]; split <;> omega
  · rw [takePanel_state]; split
    · rw [getN_set_ne _ _ _ _ (Ne.symm hdad), getN_set _ _ _ _ hj, if_pos rfl]
    · rw [getN_set _ _ _ _ hj, if_pos rfl]
  · intro p hp1 hp2
    rw [takePanel_state]; split
    · rw [getN_set_ne _ _ _ _ hp2, getN_set_ne _ _ _ _ hp1]
    · rw [getN_set_ne _ _ _ _ hp1]
  · rw [takePanel_state]; split
    · right
      rw [getN_set _ _ _ _ (by simp only [Array.size_setIfInBounds]; exact hdsz), if_pos rfl]
    · left
      rw [getN_set_ne _ _ _ _ hdad]

/-- **The whole critical section**: for every shared state with a consistent queue cursor, every caller:
  * nothing handed out  ⇒ `tasks_remain` and all panel states unchanged;
  * panel `j` handed out ⇒ it was untaken (`state > BUSY`), is BUSY afterwards, `tasks_remain` dropped by
    exactly one, and the only other state that may have changed is its parent's (to CANPIPE);
  * head and tail never move backwards, tail advances by at most one, `count = tail - head` still holds. -/
theorem schedule_spec (c : PanelCfg) (sh : Sh) (cur : Option Nat) (b0 : Nat) (hq : QueueOk sh)
    (hsz : ∀ j, getN sh.state j > BUSY → j < sh.state.size)
    (hdad : ∀ j, dadPanel c sh j ≠ j ∧ dadPanel c sh j < sh.state.size) :
    QueueOk (schedule c sh cur b0).1 ∧ sh.head ≤ (schedule c sh cur b0).1.head ∧
    sh.tail ≤ (schedule c sh cur b0).1.tail ∧ (schedule c sh cur b0).1.tail ≤ sh.tail + 1 ∧
    ((schedule c sh cur b0).2.1 = none →
        (schedule c sh cur b0).1.tasksRemain = sh.tasksRemain ∧ (schedule c sh cur b0).1.state = sh.state) ∧
    (∀ j, (schedule c sh cur b0).2.1 = some j →
        getN sh.state j > BUSY ∧ getN (schedule c sh cur b0).1.state j = BUSY ∧
        (schedule c sh cur b0).1.tasksRemain = sh.tasksRemain - 1 ∧
        (∀ p, p ≠ j → p ≠ dadPanel c sh j → getN (schedule c sh cur b0).1.state p = getN sh.state p) ∧
        (getN (schedule c sh cur b0).1.state (dadPanel c sh j) = getN sh.state (dadPanel c sh j) ∨
         getN (schedule c sh cur b0).1.state (dadPanel c sh j) = CANPIPE)) := by
  unfold schedule
  cases hp : pickPanel c sh cur with
  | mk sh1 got =>
    obtain ⟨a1, a2, a3, a4, a5, a6, a7, a8, a9⟩ := pickPanel_spec c sh cur hq sh1 got hp
    cases got with
    | none =>
      simp only
      exact ⟨a1, a2, by omega, by omega, ⟨fun _ => ⟨a5, a4⟩, fun j h => by cases h⟩⟩
    | some j =>
      simp only
      have hunt := a9 j rfl
      have hd1 : dadPanel c sh1 j = dadPanel c sh j := dadPanel_congr c sh1 sh a7 j
      have hj : j < sh1.state.size := by rw [a4]; exact hsz j hunt
      obtain ⟨b1, b2, b3, b4, b5, b6, b7, b8, b9, b10⟩ :=
        takePanel_spec c sh1 j a1 hj (by rw [hd1]; exact (hdad j).1) (by rw [hd1, a4]; exact (hdad j).2)
      refine ⟨b1, by omega, by omega, by omega, ?_, ?_⟩
      · intro h; cases h
      · intro j' hj'
        simp only [Option.some.injEq] at hj'
        subst hj'
        refine ⟨hunt, b6, by rw [b5, a5], ?_, ?_⟩
        · intro p h1 h2
          rw [b9 p h1 (by rw [hd1]; exact h2), a4]
        · rw [hd1, a4] at b10; exact b10

/-! ### non-vacuity: a concrete forest (two leaves under a root) run through init and one call -/

def exCfg : PanelCfg := { n := 3, etree := #[2, 2, 3], panelSize := 1, relax := 1 }

example : (parallelInit exCfg).tasksRemain = 3 ∧ (parallelInit exCfg).tail = 2 ∧ (parallelInit exCfg).head = 0 ∧ (parallelInit exCfg).count = 2 := by decide
example : (schedule exCfg (parallelInit exCfg) none 0).2.1 = some 0 := by decide
example : (schedule exCfg (parallelInit exCfg) none 0).1.tasksRemain = 2 := by decide

end Slu
