/-
C14 — the caller's workspace is handled without corruption (the allocator part).
Theorems about Model/UserStack.lean:
  * `mallocTail_spec`, `mallocHead_spec`   a successful request returns a block inside the free gap, the gap stays non-negative
  * `alignUp_spec`                          the aligned real work array lies inside the (dsize + 8)-byte block requested for it
  * `wrun_inv` / `workers_blocks_safe`      for every number of workers, every interleaving of their critical sections and every
                                            request size: the blocks held by workers are pairwise disjoint, lie inside the buffer
                                            and above the head region (L/U storage), and the tail is released only when nobody holds it
  * `orig_free_overlap`, `orig_align_steals`, `orig_align_overlap`
                                            the two original behaviours (repaired in /repo by 371e0b6 and 915999e) do hand out
                                            overlapping memory: concrete histories
-/
import SluVerif.Model.UserStack
import Mathlib.Tactic.Linarith

namespace Slu

macro "domega" : tactic => `(tactic| first | omega | (dsimp only; omega) | (dsimp only at *; omega))
macro "triv" : tactic => `(tactic| first | rfl | trivial)

theorem mallocTail_spec (s : UStack) (b : Int) (hb : 0 ≤ b) (hu : s.used = s.top1 + (s.size - s.top2)) :
    (∀ off s', s.mallocTail b = (s', some off) →
        off = s.top2 - b ∧ s'.top2 = off ∧ s'.top1 = s.top1 ∧ s'.size = s.size ∧ s'.tailUsers = s.tailUsers ∧
        s.top1 < off ∧ s'.used = s'.top1 + (s'.size - s'.top2)) ∧
    (∀ s', s.mallocTail b = (s', none) → s' = s) := by
  unfold UStack.mallocTail UStack.full
  constructor
  · intro off s' h
    split at h
    · exact absurd (congrArg Prod.snd h) (by simp)
    · next hf =>
      simp only [decide_eq_true_eq, not_le] at hf
      simp only [Prod.mk.injEq, Option.some.injEq] at h
      obtain ⟨rfl, rfl⟩ := h
      refine ⟨rfl, rfl, rfl, rfl, rfl, ?_, ?_⟩ <;> domega
  · intro s' h
    split at h
    · exact (congrArg Prod.fst h).symm
    · exact absurd (congrArg Prod.snd h) (by simp)

theorem mallocHead_spec (s : UStack) (b : Int) (_hb : 0 ≤ b) (hu : s.used = s.top1 + (s.size - s.top2)) :
    ∀ off s', s.mallocHead b = (s', some off) →
        off = s.top1 ∧ s'.top1 = off + b ∧ s'.top2 = s.top2 ∧ s'.top1 < s'.top2 ∧ s'.used = s'.top1 + (s'.size - s'.top2) := by
  unfold UStack.mallocHead UStack.full
  intro off s' h
  split at h
  · simp at h
  · next hf =>
    simp only [decide_eq_true_eq, not_le] at hf
    simp only [Prod.mk.injEq, Option.some.injEq] at h
    obtain ⟨rfl, rfl⟩ := h
    refine ⟨rfl, rfl, rfl, ?_, ?_⟩ <;> domega

/-- the aligned array fits into the block that was requested with 8 spare bytes, and its address is a multiple of 8 -/
theorem alignUp_spec (base8 off : Int) :
    off ≤ alignUp base8 off ∧ alignUp base8 off < off + 8 ∧ (base8 + alignUp base8 off) % 8 = 0 := by
  unfold alignUp
  refine ⟨?_, ?_, ?_⟩ <;> omega

/-! ### the worker protocol -/

def activePc : WPc → Bool
  | .counted => true
  | .gotI _ => true
  | .gotD _ _ => true
  | .failed => true
  | _ => false

def cntA (pcs : List WPc) : Int := ((pcs.filter activePc).length : Int)

theorem cntA_set (l : List WPc) (i : Nat) (old x : WPc) (h : l[i]? = some old) :
    cntA (l.set i x) + (if activePc old then 1 else 0) = cntA l + (if activePc x then 1 else 0) := by
  unfold cntA
  induction l generalizing i with
  | nil => simp at h
  | cons a t ih =>
    cases i with
    | zero =>
      simp only [List.getElem?_cons_zero, Option.some.injEq] at h
      subst h
      simp only [List.set_cons_zero, List.filter_cons]
      split <;> split <;> simp <;> omega
    | succ i =>
      simp only [List.getElem?_cons_succ] at h
      have := ih i h
      simp only [List.set_cons_succ, List.filter_cons]
      split <;> (try simp only [List.length_cons]) <;> (try push_cast) <;> omega

/-- invariant of the tail of the user stack while workers run (`lo` = first byte above the L/U arrays = top1) -/
structure WInv (isz dsz : Int) (s : WSys) : Prop where
  top : s.st.top1 ≤ s.st.top2 ∧ s.st.top2 ≤ s.st.size
  used : s.st.used = s.st.top1 + (s.st.size - s.st.top2)
  users : s.st.tailUsers = cntA s.pcs
  inb : ∀ (i : Nat) pc, s.pcs[i]? = some pc → ∀ b ∈ wblocks isz dsz pc, s.st.top2 ≤ b.1 ∧ b.1 + b.2 ≤ s.st.size
  own : ∀ (i : Nat) offI offD, s.pcs[i]? = some (.gotD offI offD) → offD + (dsz + 8) ≤ offI
  cross : ∀ (i j : Nat) pi pj, i ≠ j → s.pcs[i]? = some pi → s.pcs[j]? = some pj →
      ∀ a ∈ wblocks isz dsz pi, ∀ b ∈ wblocks isz dsz pj, disjointB a b

theorem getElem?_set' (l : List WPc) (i j : Nat) (x : WPc) (hi : i < l.length) :
    (l.set i x)[j]? = if j = i then some x else l[j]? := by
  rw [List.getElem?_set]
  by_cases e : i = j
  · subst e; simp [hi]
  · simp [e, Ne.symm e]

theorem wstep_inv (isz dsz : Int) (hi0 : 0 ≤ isz) (hd0 : 0 ≤ dsz) (s : WSys) (inv : WInv isz dsz s) (i : Nat) :
    WInv isz dsz (wstep isz dsz s i) ∧ (wstep isz dsz s i).st.top1 = s.st.top1 ∧ (wstep isz dsz s i).st.size = s.st.size := by
  unfold wstep
  cases hpc : s.pcs[i]? with
  | none => exact ⟨inv, rfl, rfl⟩
  | some pc =>
    have hil : i < s.pcs.length := by
      by_contra hc
      rw [List.getElem?_eq_none (by domega)] at hpc; cases hpc
    simp only
    cases pc with
    | start =>
      simp only
      refine ⟨⟨inv.top, inv.used, ?_, ?_, ?_, ?_⟩, by triv, by triv⟩
      · have := cntA_set s.pcs i .start .counted hpc
        simp [activePc] at this
        simp only; rw [inv.users]; simpa using this.symm
      · intro j pc hj b hb
        rw [getElem?_set' _ _ _ _ hil] at hj
        by_cases e : j = i
        · rw [if_pos e] at hj; cases hj; simp [wblocks] at hb
        · rw [if_neg e] at hj; exact inv.inb j pc hj b hb
      · intro j oI oD hj
        rw [getElem?_set' _ _ _ _ hil] at hj
        by_cases e : j = i
        · rw [if_pos e] at hj; cases hj
        · rw [if_neg e] at hj; exact inv.own j oI oD hj
      · intro a b pa pb hab ha hb x hx y hy
        rw [getElem?_set' _ _ _ _ hil] at ha hb
        by_cases ea : a = i
        · rw [if_pos ea] at ha; cases ha; simp [wblocks] at hx
        · by_cases eb : b = i
          · rw [if_pos eb] at hb; cases hb; simp [wblocks] at hy
          · rw [if_neg ea] at ha; rw [if_neg eb] at hb
            exact inv.cross a b pa pb hab ha hb x hx y hy
    | counted =>
      simp only
      obtain ⟨m1, m2⟩ := mallocTail_spec s.st isz hi0 inv.used
      cases hm : s.st.mallocTail isz with
      | mk st' r =>
        cases r with
        | none =>
          have := m2 st' hm
          subst this
          simp only
          refine ⟨⟨inv.top, inv.used, ?_, ?_, ?_, ?_⟩, by triv, by triv⟩
          · have := cntA_set s.pcs i .counted .failed hpc
            simp [activePc] at this
            simp only; rw [inv.users]; domega
          · intro j pc hj b hb
            rw [getElem?_set' _ _ _ _ hil] at hj
            by_cases e : j = i
            · rw [if_pos e] at hj; cases hj; simp [wblocks] at hb
            · rw [if_neg e] at hj; exact inv.inb j pc hj b hb
          · intro j oI oD hj
            rw [getElem?_set' _ _ _ _ hil] at hj
            by_cases e : j = i
            · rw [if_pos e] at hj; cases hj
            · rw [if_neg e] at hj; exact inv.own j oI oD hj
          · intro a b pa pb hab ha hb x hx y hy
            rw [getElem?_set' _ _ _ _ hil] at ha hb
            by_cases ea : a = i
            · rw [if_pos ea] at ha; cases ha; simp [wblocks] at hx
            · by_cases eb : b = i
              · rw [if_pos eb] at hb; cases hb; simp [wblocks] at hy
              · rw [if_neg ea] at ha; rw [if_neg eb] at hb
                exact inv.cross a b pa pb hab ha hb x hx y hy
        | some off =>
          obtain ⟨e1, e2, e3, e4, e5, e6, e7⟩ := m1 off st' hm
          simp only
          have htop := inv.top
          refine ⟨⟨⟨by domega, by domega⟩, e7, ?_, ?_, ?_, ?_⟩, by first | exact e3 | triv, by first | exact e4 | triv⟩
          · have := cntA_set s.pcs i .counted (.gotI off) hpc
            simp [activePc] at this
            rw [e5, inv.users]; domega
          · intro j pc hj b hb
            rw [getElem?_set' _ _ _ _ hil] at hj
            by_cases e : j = i
            · rw [if_pos e] at hj; cases hj
              simp only [wblocks, List.mem_singleton] at hb
              subst hb
              simp only; domega
            · rw [if_neg e] at hj
              have := inv.inb j pc hj b hb
              domega
          · intro j oI oD hj
            rw [getElem?_set' _ _ _ _ hil] at hj
            by_cases e : j = i
            · rw [if_pos e] at hj; cases hj
            · rw [if_neg e] at hj; exact inv.own j oI oD hj
          · intro a b pa pb hab ha hb x hx y hy
            rw [getElem?_set' _ _ _ _ hil] at ha hb
            by_cases ea : a = i
            · rw [if_pos ea] at ha; cases ha
              have eb : b ≠ i := fun e => hab (by rw [ea, e])
              rw [if_neg eb] at hb
              simp only [wblocks, List.mem_singleton] at hx
              subst hx
              have := inv.inb b pb hb y hy
              left; simp only; domega
            · rw [if_neg ea] at ha
              by_cases eb : b = i
              · rw [if_pos eb] at hb; cases hb
                simp only [wblocks, List.mem_singleton] at hy
                subst hy
                have := inv.inb a pa ha x hx
                right; simp only; domega
              · rw [if_neg eb] at hb
                exact inv.cross a b pa pb hab ha hb x hx y hy
    | gotI offI =>
      simp only
      have hd8 : 0 ≤ dsz + 8 := by domega
      obtain ⟨m1, m2⟩ := mallocTail_spec s.st (dsz + 8) hd8 inv.used
      cases hm : s.st.mallocTail (dsz + 8) with
      | mk st' r =>
        cases r with
        | none =>
          have := m2 st' hm
          subst this
          simp only
          refine ⟨⟨inv.top, inv.used, ?_, ?_, ?_, ?_⟩, by triv, by triv⟩
          · have := cntA_set s.pcs i (.gotI offI) .failed hpc
            simp [activePc] at this
            simp only; rw [inv.users]; domega
          · intro j pc hj b hb
            rw [getElem?_set' _ _ _ _ hil] at hj
            by_cases e : j = i
            · rw [if_pos e] at hj; cases hj; simp [wblocks] at hb
            · rw [if_neg e] at hj; exact inv.inb j pc hj b hb
          · intro j oI oD hj
            rw [getElem?_set' _ _ _ _ hil] at hj
            by_cases e : j = i
            · rw [if_pos e] at hj; cases hj
            · rw [if_neg e] at hj; exact inv.own j oI oD hj
          · intro a b pa pb hab ha hb x hx y hy
            rw [getElem?_set' _ _ _ _ hil] at ha hb
            by_cases ea : a = i
            · rw [if_pos ea] at ha; cases ha; simp [wblocks] at hx
            · by_cases eb : b = i
              · rw [if_pos eb] at hb; cases hb; simp [wblocks] at hy
              · rw [if_neg ea] at ha; rw [if_neg eb] at hb
                exact inv.cross a b pa pb hab ha hb x hx y hy
        | some off =>
          obtain ⟨e1, e2, e3, e4, e5, e6, e7⟩ := m1 off st' hm
          simp only
          have htop := inv.top
          have hI := inv.inb i (.gotI offI) hpc (offI, isz) (by simp [wblocks])
          simp only at hI
          refine ⟨⟨⟨by domega, by domega⟩, e7, ?_, ?_, ?_, ?_⟩, by first | exact e3 | triv, by first | exact e4 | triv⟩
          · have := cntA_set s.pcs i (.gotI offI) (.gotD offI off) hpc
            simp [activePc] at this
            rw [e5, inv.users]; domega
          · intro j pc hj b hb
            rw [getElem?_set' _ _ _ _ hil] at hj
            by_cases e : j = i
            · rw [if_pos e] at hj; cases hj
              simp only [wblocks, List.mem_cons, List.mem_singleton, List.not_mem_nil, or_false] at hb
              rcases hb with rfl | rfl <;> simp only <;> domega
            · rw [if_neg e] at hj
              have := inv.inb j pc hj b hb
              domega
          · intro j oI oD hj
            rw [getElem?_set' _ _ _ _ hil] at hj
            by_cases e : j = i
            · rw [if_pos e] at hj
              simp only [Option.some.injEq, WPc.gotD.injEq] at hj
              obtain ⟨rfl, rfl⟩ := hj
              domega
            · rw [if_neg e] at hj; exact inv.own j oI oD hj
          · intro a b pa pb hab ha hb x hx y hy
            rw [getElem?_set' _ _ _ _ hil] at ha hb
            by_cases ea : a = i
            · rw [if_pos ea] at ha; cases ha
              have eb : b ≠ i := fun e => hab (by rw [ea, e])
              rw [if_neg eb] at hb
              have hy' := inv.inb b pb hb y hy
              simp only [wblocks, List.mem_cons, List.mem_singleton, List.not_mem_nil, or_false] at hx
              rcases hx with rfl | rfl
              · exact inv.cross i b (.gotI offI) pb (by rw [← ea]; exact hab) hpc hb (offI, isz) (by simp [wblocks]) y hy
              · left; simp only; domega
            · rw [if_neg ea] at ha
              by_cases eb : b = i
              · rw [if_pos eb] at hb; cases hb
                have hx' := inv.inb a pa ha x hx
                simp only [wblocks, List.mem_cons, List.mem_singleton, List.not_mem_nil, or_false] at hy
                rcases hy with rfl | rfl
                · exact inv.cross a i pa (.gotI offI) (by rw [← eb]; exact hab) ha hpc x hx (offI, isz) (by simp [wblocks])
                · right; simp only; domega
              · rw [if_neg eb] at hb
                exact inv.cross a b pa pb hab ha hb x hx y hy
    | gotD offI offD =>
      simp only
      have hcnt := cntA_set s.pcs i (.gotD offI offD) .freed hpc
      simp [activePc] at hcnt
      by_cases htu : s.st.tailUsers - 1 ≤ 0
      · rw [if_pos htu]
        -- nobody else holds tail space
        have hnone : ∀ j pc, j ≠ i → s.pcs[j]? = some pc → wblocks isz dsz pc = [] := by
          intro j pc hji hj
          by_contra hne
          have hact : activePc pc = true := by
            cases pc <;> simp [wblocks, activePc] at hne ⊢
          -- then two active workers: tailUsers ≥ 2
          have h2 := cntA_set (s.pcs.set i .freed) j pc .freed (by rw [getElem?_set' _ _ _ _ hil, if_neg hji]; exact hj)
          rw [hact] at h2
          simp [activePc] at h2
          have hnn : 0 ≤ cntA ((s.pcs.set i .freed).set j .freed) := Int.natCast_nonneg _
          have := inv.users
          domega
        refine ⟨⟨⟨by simp only; exact inv.top.1.trans inv.top.2, by simp only; domega⟩, ?_, ?_, ?_, ?_, ?_⟩, by triv, by triv⟩
        · simp only; have := inv.used; domega
        · simp only; rw [inv.users]; domega
        · intro j pc hj b hb
          rw [getElem?_set' _ _ _ _ hil] at hj
          by_cases e : j = i
          · rw [if_pos e] at hj; cases hj; simp [wblocks] at hb
          · rw [if_neg e] at hj
            rw [hnone j pc e hj] at hb; cases hb
        · intro j oI oD hj
          rw [getElem?_set' _ _ _ _ hil] at hj
          by_cases e : j = i
          · rw [if_pos e] at hj; cases hj
          · rw [if_neg e] at hj; exact inv.own j oI oD hj
        · intro a b pa pb hab ha hb x hx y hy
          rw [getElem?_set' _ _ _ _ hil] at ha hb
          by_cases ea : a = i
          · rw [if_pos ea] at ha; cases ha; simp [wblocks] at hx
          · by_cases eb : b = i
            · rw [if_pos eb] at hb; cases hb; simp [wblocks] at hy
            · rw [if_neg ea] at ha; rw [if_neg eb] at hb
              exact inv.cross a b pa pb hab ha hb x hx y hy
      · rw [if_neg htu]
        refine ⟨⟨inv.top, inv.used, ?_, ?_, ?_, ?_⟩, by triv, by triv⟩
        · simp only; rw [inv.users]; domega
        · intro j pc hj b hb
          rw [getElem?_set' _ _ _ _ hil] at hj
          by_cases e : j = i
          · rw [if_pos e] at hj; cases hj; simp [wblocks] at hb
          · rw [if_neg e] at hj; exact inv.inb j pc hj b hb
        · intro j oI oD hj
          rw [getElem?_set' _ _ _ _ hil] at hj
          by_cases e : j = i
          · rw [if_pos e] at hj; cases hj
          · rw [if_neg e] at hj; exact inv.own j oI oD hj
        · intro a b pa pb hab ha hb x hx y hy
          rw [getElem?_set' _ _ _ _ hil] at ha hb
          by_cases ea : a = i
          · rw [if_pos ea] at ha; cases ha; simp [wblocks] at hx
          · by_cases eb : b = i
            · rw [if_pos eb] at hb; cases hb; simp [wblocks] at hy
            · rw [if_neg ea] at ha; rw [if_neg eb] at hb
              exact inv.cross a b pa pb hab ha hb x hx y hy
    | failed => exact ⟨inv, rfl, rfl⟩
    | freed => exact ⟨inv, rfl, rfl⟩

end Slu

namespace Slu

def wrun (isz dsz : Int) (s : WSys) (evs : List Nat) : WSys := evs.foldl (wstep isz dsz) s

theorem wrun_inv (isz dsz : Int) (hi0 : 0 ≤ isz) (hd0 : 0 ≤ dsz) (evs : List Nat) :
    ∀ s, WInv isz dsz s → WInv isz dsz (wrun isz dsz s evs) ∧ (wrun isz dsz s evs).st.top1 = s.st.top1 ∧
      (wrun isz dsz s evs).st.size = s.st.size := by
  induction evs with
  | nil => intro s inv; exact ⟨inv, rfl, rfl⟩
  | cons e es ih =>
    intro s inv
    obtain ⟨a, b, c⟩ := wstep_inv isz dsz hi0 hd0 s inv e
    obtain ⟨a', b', c'⟩ := ih _ a
    exact ⟨a', by rw [← b]; exact b', by rw [← c]; exact c'⟩

/-- the state in which the workers start: the head (L/U arrays) occupies `[0, top1)`, nobody holds tail space -/
def wstart (st : UStack) (P : Nat) : WSys := { st := st, pcs := List.replicate P .start }

theorem wstart_inv (isz dsz : Int) (st : UStack) (P : Nat) (h1 : st.top1 ≤ st.top2) (h2 : st.top2 ≤ st.size)
    (h3 : st.used = st.top1 + (st.size - st.top2)) (h4 : st.tailUsers = 0) : WInv isz dsz (wstart st P) := by
  have hrep : ∀ (i : Nat) pc, (List.replicate P WPc.start)[i]? = some pc → pc = .start := by
    intro i pc h
    rw [List.getElem?_replicate] at h
    split at h
    · cases h; rfl
    · cases h
  refine ⟨⟨h1, h2⟩, h3, ?_, ?_, ?_, ?_⟩
  · show st.tailUsers = cntA (List.replicate P .start)
    rw [h4]
    unfold cntA
    have : (List.replicate P WPc.start).filter activePc = [] := by
      rw [List.filter_eq_nil_iff]
      intro a ha
      rw [List.eq_of_mem_replicate ha]; simp [activePc]
    rw [this]; rfl
  · intro i pc h b hb
    rw [hrep i pc h] at hb; simp [wblocks] at hb
  · intro i oI oD h
    have := hrep i _ h; cases this
  · intro i j pi pj _ hi _ a ha
    rw [hrep i pi hi] at ha; simp [wblocks] at ha

/-- **Workers never share workspace.**  From any state in which the L/U arrays occupy `[0, top1)` of the caller's buffer,
for every number of workers, every interleaving of their critical sections (including failed requests and workers that
never free) and every pair of request sizes: every block a worker holds lies inside the buffer above the L/U arrays, the
two blocks of one worker are disjoint, blocks of different workers are disjoint. -/
theorem workers_blocks_safe (isz dsz : Int) (hi0 : 0 ≤ isz) (hd0 : 0 ≤ dsz) (st : UStack) (P : Nat)
    (h1 : st.top1 ≤ st.top2) (h2 : st.top2 ≤ st.size) (h3 : st.used = st.top1 + (st.size - st.top2)) (h4 : st.tailUsers = 0)
    (evs : List Nat) :
    let s := wrun isz dsz (wstart st P) evs
    (∀ (i : Nat) pc, s.pcs[i]? = some pc → ∀ b ∈ wblocks isz dsz pc, st.top1 ≤ b.1 ∧ b.1 + b.2 ≤ st.size) ∧
    (∀ (i : Nat) offI offD, s.pcs[i]? = some (.gotD offI offD) → disjointB (offD, dsz + 8) (offI, isz)) ∧
    (∀ (i j : Nat) pi pj, i ≠ j → s.pcs[i]? = some pi → s.pcs[j]? = some pj →
        ∀ a ∈ wblocks isz dsz pi, ∀ b ∈ wblocks isz dsz pj, disjointB a b) := by
  intro s
  obtain ⟨inv, e1, e2⟩ := wrun_inv isz dsz hi0 hd0 evs (wstart st P) (wstart_inv isz dsz st P h1 h2 h3 h4)
  refine ⟨?_, ?_, inv.cross⟩
  · intro i pc h b hb
    have hb' : s.st.top2 ≤ b.1 ∧ b.1 + b.2 ≤ s.st.size := inv.inb i pc h b hb
    have ht : s.st.top1 ≤ s.st.top2 ∧ s.st.top2 ≤ s.st.size := inv.top
    have e1' : s.st.top1 = st.top1 := e1
    have e2' : s.st.size = st.size := e2
    omega
  · intro i oI oD h
    left
    exact inv.own i oI oD h

/-! ### the original behaviours hand out overlapping memory -/

def wrunOrig (isz dsz : Int) (s : WSys) (evs : List Nat) : WSys := evs.foldl (wstepOrigFree isz dsz) s

def overlapB (a b : Int × Int) : Bool := decide (a.1 < b.1 + b.2) && decide (b.1 < a.1 + a.2)

/-- original `p?gstrf_WorkFree` (every leaving worker releases the whole tail): workers 0 and 1 take their work space,
worker 1 leaves, worker 2 starts — and is handed the integer work array of the still running worker 0. -/
theorem orig_free_overlap :
    let s := wrunOrig 8 8 (wstart (UStack.setup 1000) 3) [0, 0, 0, 1, 1, 1, 1, 2, 2]
    s.pcs[0]? = some (.gotD 992 976) ∧ s.pcs[2]? = some (.gotI 992) ∧ overlapB (992, 8) (992, 8) = true := by decide

/-- the repaired protocol on the same history keeps them apart -/
example :
    let s := wrun 8 8 (wstart (UStack.setup 1000) 3) [0, 0, 0, 1, 1, 1, 1, 2, 2]
    s.pcs[0]? = some (.gotD 992 976) ∧ s.pcs[2]? = some (.gotI 944) := by decide

/-- original alignment: when the address of the block is not a multiple of 8 the array is moved DOWN, below its own block -/
theorem orig_align_steals (base8 off : Int) (h : (base8 + off) % 8 ≠ 0) :
    alignOrigDown base8 off < off ∧ off - alignOrigDown base8 off ≤ 7 := by
  unfold alignOrigDown alignUp
  constructor <;> omega

/-- … so a request served between the two critical sections overlaps it: worker A gets `[940, 1000)` (60 bytes, address
≡ 4 mod 8), worker B gets the 200 bytes below, `[740, 940)`; A then moves its array to 936 and overlaps B's last 4 bytes. -/
theorem orig_align_overlap :
    let s0 := UStack.setup 1000
    let (s1, a) := s0.mallocTail 60
    let (_, b) := s1.mallocTail 200
    a = some 940 ∧ b = some 740 ∧ alignOrigDown 0 940 = 936 ∧ overlapB (936, 60) (740, 200) = true := by decide

end Slu
