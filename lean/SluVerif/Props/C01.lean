/-
C01 — the solve with the returned factors solves the system (exact arithmetic).
`solveN` (Model/LU.lean) is the dense reading of `?gstrs` for `A·x = b`: forward substitution with the unit lower factor in
pivot order, back substitution with the upper factor.  Theorem `solve_correct`: for EVERY size, rational matrix, threshold
and reuse flag, if the factorization reports `info = 0` then `Σ_j A(i,j)·x_j = b_i` for every row `i` — `A` being the
column-permuted matrix handed to the factorization, so the caller's solution is `Pc·x`.  Together with `factor_identity`
this is the exact-arithmetic skeleton of the backward-error statement of C01; the rounding bound itself is checked on
the implementation by the exact residual oracle.
-/
import SluVerif.Props.C06

namespace Slu

theorem solveLower_size (n : Nat) (st : LUState) (b : Nat → Rat) (t : Nat) : (solveLower n st b t).size = t := by
  induction t with
  | zero => simp [solveLower]
  | succ t ih => simp [solveLower, ih]

theorem solveLower_stable (n : Nat) (st : LUState) (b : Nat → Rat) (s t : Nat) (hst : s < t) (d : Nat) :
    (solveLower n st b (t + d)).getD s 0 = (solveLower n st b t).getD s 0 := by
  induction d with
  | zero => rfl
  | succ d ih =>
    have : t + (d + 1) = (t + d) + 1 := by omega
    rw [this]
    conv_lhs => rw [solveLower]
    have hs : (solveLower n st b (t + d)).size = t + d := solveLower_size ..
    rw [getD_push_lt _ _ _ (by omega)]
    exact ih

/-- `y_s = b(piv s) − Σ_{s' < s} ell(piv s, s')·y_{s'}` -/
theorem solveLower_rec (n : Nat) (st : LUState) (b : Nat → Rat) (s t : Nat) (hst : s < t) :
    (solveLower n st b t).getD s 0 =
      b (st.piv.getD s 0) - sumQ s (fun s' => getQ st.ell (st.piv.getD s 0) s' * (solveLower n st b t).getD s' 0) := by
  obtain ⟨d, rfl⟩ : ∃ d, t = (s + 1) + d := ⟨t - (s + 1), by omega⟩
  rw [solveLower_stable n st b s (s + 1) (by omega) d]
  have hsum : sumQ s (fun s' => getQ st.ell (st.piv.getD s 0) s' * (solveLower n st b (s + 1 + d)).getD s' 0)
      = sumQ s (fun s' => getQ st.ell (st.piv.getD s 0) s' * (solveLower n st b s).getD s' 0) := by
    apply sumQ_congr
    intro s' hs'
    have := solveLower_stable n st b s' s hs' (1 + d)
    rw [show s + (1 + d) = s + 1 + d by omega] at this
    rw [this]
  rw [hsum]
  conv_lhs => rw [solveLower]
  have hs : (solveLower n st b s).size = s := solveLower_size ..
  rw [getD_push_eq _ _ _ hs.symm]

theorem solveUpperRev_size (n : Nat) (st : LUState) (y : Array Rat) (m : Nat) : (solveUpperRev n st y m).size = m := by
  induction m with
  | zero => simp [solveUpperRev]
  | succ m ih => simp [solveUpperRev, ih]

theorem solveUpperRev_stable (n : Nat) (st : LUState) (y : Array Rat) (s t : Nat) (hst : s < t) (d : Nat) :
    (solveUpperRev n st y (t + d)).getD s 0 = (solveUpperRev n st y t).getD s 0 := by
  induction d with
  | zero => rfl
  | succ d ih =>
    have : t + (d + 1) = (t + d) + 1 := by omega
    rw [this]
    conv_lhs => rw [solveUpperRev]
    have hs : (solveUpperRev n st y (t + d)).size = t + d := solveUpperRev_size ..
    rw [getD_push_lt _ _ _ (by omega)]
    exact ih

/-- entry `m` of the reversed solution: `x_t = (y_t − Σ_{d<m} uu(t, n−1−d)·xr_d) / uu(t,t)` with `t = n−1−m` -/
theorem solveUpperRev_rec (n : Nat) (st : LUState) (y : Array Rat) (m k : Nat) (hmk : m < k) :
    (solveUpperRev n st y k).getD m 0 =
      (y.getD (n - 1 - m) 0 - sumQ m (fun d => getQ st.uu (n - 1 - m) (n - 1 - d) * (solveUpperRev n st y k).getD d 0))
        / getQ st.uu (n - 1 - m) (n - 1 - m) := by
  obtain ⟨d, rfl⟩ : ∃ d, k = (m + 1) + d := ⟨k - (m + 1), by omega⟩
  rw [solveUpperRev_stable n st y m (m + 1) (by omega) d]
  have hsum : sumQ m (fun d' => getQ st.uu (n - 1 - m) (n - 1 - d') * (solveUpperRev n st y (m + 1 + d)).getD d' 0)
      = sumQ m (fun d' => getQ st.uu (n - 1 - m) (n - 1 - d') * (solveUpperRev n st y m).getD d' 0) := by
    apply sumQ_congr
    intro d' hd'
    have := solveUpperRev_stable n st y d' m hd' (1 + d)
    rw [show m + (1 + d) = m + 1 + d by omega] at this
    rw [this]
  rw [hsum]
  conv_lhs => rw [solveUpperRev]
  have hs : (solveUpperRev n st y m).size = m := solveUpperRev_size ..
  rw [getD_push_eq _ _ _ hs.symm]

/-- reversal of a finite sum -/
theorem sumQ_reverse (n : Nat) (f : Nat → Rat) : sumQ n (fun d => f (n - 1 - d)) = sumQ n f := by
  induction n generalizing f with
  | zero => simp [sumQ_zero]
  | succ n ih =>
    -- peel the first term on the left, the last on the right
    have hl : sumQ (n + 1) (fun d => f (n + 1 - 1 - d)) = f n + sumQ n (fun d => f (n - 1 - d)) := by
      have h1 : ∀ (m : Nat) (g : Nat → Rat), sumQ (m + 1) g = g 0 + sumQ m (fun d => g (d + 1)) := by
        intro m
        induction m with
        | zero => intro g; simp [sumQ_succ, sumQ_zero]
        | succ m ihm =>
          intro g
          rw [sumQ_succ, ihm g, sumQ_succ]
          ring
      rw [h1]
      congr 1
      apply sumQ_congr
      intro d hd
      congr 1
      omega
    rw [hl, ih, sumQ_succ]
    ring

theorem sumQ_mul_left (n : Nat) (c : Rat) (f : Nat → Rat) : sumQ n (fun t => c * f t) = c * sumQ n f := by
  induction n with
  | zero => simp [sumQ_zero]
  | succ n ih => rw [sumQ_succ, sumQ_succ, ih]; ring

theorem sumQ_add (n : Nat) (f g : Nat → Rat) : sumQ n (fun t => f t + g t) = sumQ n f + sumQ n g := by
  induction n with
  | zero => simp [sumQ_zero]
  | succ n ih => rw [sumQ_succ, sumQ_succ, sumQ_succ, ih]; ring

theorem sumQ_swap (n m : Nat) (f : Nat → Nat → Rat) :
    sumQ n (fun i => sumQ m (fun j => f i j)) = sumQ m (fun j => sumQ n (fun i => f i j)) := by
  induction n with
  | zero => simp [sumQ_zero]; exact (sumQ_eq_zero m _ (fun _ _ => rfl)).symm
  | succ n ih =>
    rw [sumQ_succ, ih]
    rw [← sumQ_add]
    apply sumQ_congr
    intro j _
    rw [sumQ_succ]

/-- **The solve is exact.** -/
theorem solve_correct (P : LUParams) (usepr : Bool) (b : Nat → Rat) (hinfo : (factor P usepr).info = 0) :
    ∀ i, i < P.n → sumQ P.n (fun j => getQ P.A i j * solveN P.n (factor P usepr) b j) = b i := by
  set st := factor P usepr with hst
  obtain ⟨inv, hk⟩ := luInv_factor P usepr
  obtain ⟨hbij1, hbij2⟩ := factor_bijection P usepr
  have hpiv : ∀ j, j < P.n → getQ st.uu j j ≠ 0 := (info_zero_iff P usepr).1 hinfo
  let n := P.n
  let y : Nat → Rat := fun t => (solveLower n st b n).getD t 0
  let x : Nat → Rat := solveN n st b
  -- L y = b, row by row (rows by original index)
  have hL : ∀ i, i < n → sumQ n (fun s => getQ st.ell i s * y s) = b i := by
    intro i hi
    obtain ⟨t, ht, _, hpt⟩ := hbij2 i hi
    have hrec := solveLower_rec n st b t n ht
    rw [hpt] at hrec
    -- the sum over s < n splits into s < t, s = t, s > t
    have h0 : ∀ s, t + 1 ≤ s → s < n → getQ st.ell i s * y s = 0 := by
      intro s h1 h2
      have := inv.ell_zero t s (by rw [hk]; exact ht) (by omega) h2
      rw [hpt] at this
      rw [this]; ring
    rw [sumQ_trunc n (t + 1) _ (by omega) h0, sumQ_succ]
    have h1 : getQ st.ell i t = 1 := by
      have := inv.ell_one t (by rw [hk]; exact ht)
      rw [hpt] at this; exact this
    rw [h1]
    show sumQ t (fun s => getQ st.ell i s * y s) + 1 * y t = b i
    have : y t = b i - sumQ t (fun s' => getQ st.ell i s' * y s') := hrec
    rw [this]; ring
  -- U x = y
  have hxr : ∀ j, j < n → x j = (solveUpperRev n st (solveLower n st b n) n).getD (n - 1 - j) 0 := fun j _ => rfl
  have hU : ∀ t, t < n → sumQ n (fun j => getQ st.uu t j * x j) = y t := by
    intro t ht
    have hm : n - 1 - t < n := by omega
    have hrec := solveUpperRev_rec n st (solveLower n st b n) (n - 1 - t) n hm
    have htt : n - 1 - (n - 1 - t) = t := by omega
    rw [htt] at hrec
    -- entries left of the diagonal vanish
    have h0 : ∀ j, j < t → getQ st.uu t j * x j = 0 := by
      intro j hj
      rw [inv.uu_upper t j (by rw [hk]; omega) hj ht]; ring
    -- rewrite the full sum in reversed order
    rw [← sumQ_reverse n (fun j => getQ st.uu t j * x j)]
    have h0' : ∀ d, (n - 1 - t) + 1 ≤ d → d < n → getQ st.uu t (n - 1 - d) * x (n - 1 - d) = 0 := by
      intro d h1 h2
      exact h0 (n - 1 - d) (by omega)
    rw [sumQ_trunc n ((n - 1 - t) + 1) _ (by omega) h0', sumQ_succ]
    rw [htt]
    have hxt : x t = (solveUpperRev n st (solveLower n st b n) n).getD (n - 1 - t) 0 := rfl
    have hsum : sumQ (n - 1 - t) (fun d => getQ st.uu t (n - 1 - d) * x (n - 1 - d)) =
        sumQ (n - 1 - t) (fun d => getQ st.uu t (n - 1 - d) * (solveUpperRev n st (solveLower n st b n) n).getD d 0) := by
      apply sumQ_congr
      intro d hd
      have : n - 1 - (n - 1 - d) = d := by omega
      rw [hxr (n - 1 - d) (by omega), this]
    rw [hsum, hxt, hrec]
    have hne := hpiv t ht
    field_simp
    ring
  -- A x = L (U x) = L y = b
  intro i hi
  have hA : ∀ j, j < n → getQ P.A i j * x j = sumQ n (fun t => getQ st.ell i t * (getQ st.uu t j * x j)) := by
    intro j hj
    rw [inv.col_id i j hi (by rw [hk]; exact hj)]
    rw [mul_comm, ← sumQ_mul_left]
    apply sumQ_congr
    intro t _
    ring
  rw [sumQ_congr n _ _ hA, sumQ_swap]
  have : ∀ t, t < n → sumQ n (fun j => getQ st.ell i t * (getQ st.uu t j * x j)) = getQ st.ell i t * y t := by
    intro t ht
    rw [sumQ_mul_left, hU t ht]
  rw [sumQ_congr n _ _ this]
  exact hL i hi

end Slu

namespace Slu
/-! non-vacuity: a 2×2 system with a row interchange is factored with `info = 0` and solved exactly -/
def exA : QArr := #[#[1, 3], #[4, 2]]
def exP : LUParams := { n := 2, A := exA, u := 1, diagOf := fun j => j, oldInv := fun _ => -1 }
example : (factor exP false).info = 0 ∧ (factor exP false).piv = #[1, 0] := by decide +kernel
example : solveN 2 (factor exP false) (fun i => if i = 0 then 7 else 8) 0 = 1 ∧
          solveN 2 (factor exP false) (fun i => if i = 0 then 7 else 8) 1 = 2 := by decide +kernel
end Slu
