/-
C12 — condition estimate and pivot growth are sound: property theorems over the models
Model/Lacon.lean (`?lacon_`) and Model/Growth.lean (`?langs`, `?PivotGrowth`, `?gscon`, driver wiring).
-/
import SluVerif.Proofs.LaconUpper
import SluVerif.Proofs.LaconLower
import SluVerif.Proofs.GrowthBasic
import SluVerif.Proofs.GrowthSpec

namespace Slu
open Finset

/-! ## the estimator -/

/-- The dialogue always ends (`kase = 0`) within the 12 calls of `laconFuel`, i.e. after at most 11
operator applications — whatever the two operators do (`iter < 5` is the ITMAX of the source). -/
theorem lacon_terminates (n : Nat) (apply applyT : RVec → RVec) :
    (runLacon n apply applyT).io.kase = 0 ∧ (runLacon n apply applyT).applies ≤ 11 := by
  have h := laconLoop_terminates n apply applyT laconFuel {} (laconInitIO n) 0 (Or.inl rfl)
    (by simp [laconRank, laconInitIO, laconFuel])
  have hr : laconRank {} (laconInitIO n) = 12 := by simp [laconRank, laconInitIO]
  rw [hr] at h
  exact ⟨h.1, by unfold runLacon; omega⟩

example : (runLacon 2 (matVec 2 fun i j => if i = j then 1 else 0) (matVecT 2 fun i j => if i = j then 1 else 0)).applies = 4 := by
  decide +kernel

theorem le_rmaxTo (n : Nat) (f : Nat → Rat) : ∀ i, i < n → f i ≤ rmaxTo n f := by
  unfold rmaxTo
  induction n with
  | zero => intro i hi; omega
  | succ k ih =>
    intro i hi
    rw [List.range_succ, List.foldl_append]
    simp only [List.foldl_cons, List.foldl_nil]
    rcases Nat.lt_succ_iff_lt_or_eq.mp hi with h | h
    · have := ih i h
      split
      · rename_i hlt; exact le_trans this (le_of_lt hlt)
      · exact this
    · subst h
      split
      · exact le_refl _
      · rename_i hlt; exact not_lt.mp hlt

/-- `est ≤ c` for every bound `c` on the absolute column sums of the operator that answers the
`kase = 1` requests; the `kase = 2` operator is irrelevant for this direction. -/
theorem lacon_upper_of_bound (n : Nat) (hn : 1 ≤ n) (M : Nat → Nat → Rat) (applyT : RVec → RVec) (c : Rat)
    (hc : ∀ j, j < n → colAbsSum n M j ≤ c) : (runLacon n (matVec n M) applyT).io.est ≤ c := by
  unfold runLacon
  apply laconLoop_upper n hn M applyT c hc
  left
  exact ⟨rfl, le_trans (colAbsSum_nonneg n M 0) (hc 0 hn)⟩

/-- `est ≤ ‖M‖₁`: every candidate is `‖M x‖₁` with `‖x‖₁ ≤ 1` — the start vector `e/n`, the unit vectors
`e_j`, and the alternating-sign vector, whose entries sum in absolute value to `3n/2`, times `2/(3n)`. -/
theorem lacon_upper (n : Nat) (hn : 1 ≤ n) (M : Nat → Nat → Rat) (applyT : RVec → RVec) :
    (runLacon n (matVec n M) applyT).io.est ≤ norm1 n M :=
  lacon_upper_of_bound n hn M applyT (norm1 n M) fun j hj => le_rmaxTo n (colAbsSum n M) j hj

example : norm1 2 (fun i j => if i = 0 ∧ j = 1 then 3 else 1) = 4 ∧
    (runLacon 2 (matVec 2 fun i j => if i = 0 ∧ j = 1 then 3 else 1) (matVecT 2 fun i j => if i = 0 ∧ j = 1 then 3 else 1)).io.est = 4 := by
  decide +kernel

/-- `est ≥ ‖M·(e/n)‖₁` when both operators are the real ones: the first candidate is `‖M e/n‖₁` and in
exact arithmetic the estimate never decreases (`‖M e_j‖₁ ≥ |z_j| = ‖z‖∞ ≥ zᵀx = ‖M x‖₁`). -/
theorem lacon_lower (n : Nat) (hn : 1 ≤ n) (M : Nat → Nat → Rat) :
    asum n (matVec n M (constVec n)) ≤ (runLacon n (matVec n M) (matVecT n M)).io.est := by
  have hterm := (lacon_terminates n (matVec n M) (matVecT n M)).1
  unfold runLacon at hterm ⊢
  have hfuel : laconFuel = 11 + 1 := rfl
  rw [hfuel, laconLoop_succ] at hterm ⊢
  have hcall : laconCall n {} (laconInitIO n)
      = ({ jump := 1 }, { laconInitIO n with x := constVec n, kase := 1 }) := by
    simp [laconCall, laconInitIO, constVec]
  rw [hcall] at hterm ⊢
  simp only [Nat.one_ne_zero, if_false] at hterm ⊢
  apply laconLoop_lower n hn M _ 11 _ _ _ _ _ hterm
  · simp [laconNextIO]
  · simp [LowEntry, laconNextIO]

/-- the lower bound is attained (so it cannot be improved) and differs from the upper one -/
example : asum 2 (matVec 2 (fun i j => if i = 0 ∧ j = 1 then 3 else 1) (constVec 2)) = 3 := by
  decide +kernel

/-! ## ?gscon: which operator the estimator sees, and the two-sided bound on rcond -/

theorem gscon_one (n : Nat) (hn0 : n ≠ 0) (a b : RVec → RVec) (anorm : Rat) :
    (gscon '1' n a b anorm).info = 0 ∧
    (gscon '1' n a b anorm).rcond
      = if (runLacon n a b).io.est ≠ 0 then (1 / (runLacon n a b).io.est) / anorm else 0 := by
  simp [gscon, hn0]

theorem gscon_I (n : Nat) (hn0 : n ≠ 0) (a b : RVec → RVec) (anorm : Rat) :
    (gscon 'I' n a b anorm).info = 0 ∧
    (gscon 'I' n a b anorm).rcond
      = if (runLacon n b a).io.est ≠ 0 then (1 / (runLacon n b a).io.est) / anorm else 0 := by
  have hI1 : ¬ (('I' : Char) = '1' ∨ ('I' : Char).toUpper = 'O') := by decide
  have hI2 : ¬ (('I' : Char).toUpper ≠ 'I') := by decide
  simp [gscon, hn0, hI1, hI2]

/-- `?gscon` with exact triangular solves (`B` = the inverse of `L·U`): for `norm = '1'` the estimator's
`kase = 1` operator is `B` (so `ainvnm` estimates `‖B‖₁`), for `norm = 'I'` it is `Bᵀ` (`‖Bᵀ‖₁ = ‖B‖∞`);
`rcond = (1/ainvnm)/anorm`, hence `1/(anorm·‖Bc‖₁) ≤ rcond ≤ 1/(anorm·‖Bc·e/n‖₁)` with `Bc = B` resp. `Bᵀ`. -/
theorem gscon_bounds (n : Nat) (hn : 1 ≤ n) (B : Nat → Nat → Rat) (anorm : Rat) (ha : 0 < anorm)
    (c : Char) (hc : c = '1' ∨ c = 'I') :
    (gscon c n (matVec n B) (matVecT n B) anorm).info = 0 ∧
    (0 < asum n (matVec n (if c = '1' then B else trD B) (constVec n)) →
      1 / (anorm * norm1 n (if c = '1' then B else trD B)) ≤ (gscon c n (matVec n B) (matVecT n B) anorm).rcond ∧
      (gscon c n (matVec n B) (matVecT n B) anorm).rcond
        ≤ 1 / (anorm * asum n (matVec n (if c = '1' then B else trD B) (constVec n)))) := by
  have hn0 : n ≠ 0 := by omega
  have key : ∀ (Bc : Nat → Nat → Rat), 0 < asum n (matVec n Bc (constVec n)) →
      1 / (anorm * norm1 n Bc) ≤ (1 / (runLacon n (matVec n Bc) (matVecT n Bc)).io.est) / anorm ∧
      (1 / (runLacon n (matVec n Bc) (matVecT n Bc)).io.est) / anorm ≤ 1 / (anorm * asum n (matVec n Bc (constVec n))) ∧
      (runLacon n (matVec n Bc) (matVecT n Bc)).io.est ≠ 0 := by
    intro Bc hpos
    have hlo := lacon_lower n hn Bc
    have hup := lacon_upper n hn Bc (matVecT n Bc)
    have hest : 0 < (runLacon n (matVec n Bc) (matVecT n Bc)).io.est := lt_of_lt_of_le hpos hlo
    have hnorm : 0 < norm1 n Bc := lt_of_lt_of_le hest hup
    refine ⟨?_, ?_, ne_of_gt hest⟩
    · rw [div_div, one_div, one_div, mul_comm anorm]
      exact inv_anti₀ (mul_pos hest ha) (mul_le_mul_of_nonneg_right hup (le_of_lt ha))
    · rw [div_div, one_div, one_div, mul_comm anorm]
      exact inv_anti₀ (mul_pos hpos ha) (mul_le_mul_of_nonneg_right hlo (le_of_lt ha))
  rcases hc with rfl | rfl
  · refine ⟨(gscon_one n hn0 _ _ anorm).1, fun hpos => ?_⟩
    simp only [if_true] at hpos ⊢
    obtain ⟨k1, k2, k3⟩ := key B hpos
    rw [(gscon_one n hn0 _ _ anorm).2, if_pos k3]
    exact ⟨k1, k2⟩
  · have hI3 : ¬ (('I' : Char) = '1') := by decide
    refine ⟨(gscon_I n hn0 _ _ anorm).1, fun hpos => ?_⟩
    simp only [hI3, if_false] at hpos ⊢
    have := key (trD B) hpos
    rw [← matVecT_eq, show matVecT n (trD B) = matVec n B from rfl] at this
    obtain ⟨k1, k2, k3⟩ := this
    rw [(gscon_I n hn0 _ _ anorm).2, if_pos k3]
    exact ⟨k1, k2⟩

example : (gscon '1' 2 (matVec 2 fun i j => if i = j then 2 else 0) (matVecT 2 fun i j => if i = j then 2 else 0) 3).rcond = 1 / 6 := by
  decide +kernel

/-! ## driver wiring: norm letter, anorm, info = n+1 -/

/-- the dense matrix `AA` that the factorization and `?langs` see -/
def aaDense (s : Stype) (D : Nat → Nat → Rat) : Nat → Nat → Rat := match s with | .NC => D | .NR => trD D
/-- the value `?langs(letter, AA)` denotes on a dense matrix (`langs_spec` ties `?langs` to it) -/
def letterNorm (c : Char) (n : Nat) (D : Nat → Nat → Rat) : Rat := if c = '1' then norm1 n D else normInf n D

/-- Decision table of `p?gssvx`: the letter is `'1'` exactly when the system solved with the factored matrix
`AA` is untransposed after the NR flip, `'I'` otherwise; and `anorm = ?langs(letter, AA)` is `‖A‖₁` of the USER's
matrix when `A X = B` is solved (`trans = NOTRANS`) and `‖A‖∞` when the transposed system is solved, for column
(NC) and row (NR) storage alike. -/
theorem gssvx_norm_choice (s : Stype) (t : Trans) (n : Nat) (D : Nat → Nat → Rat) :
    (normLetter s t = '1' ↔ trantOf s t = .NOTRANS) ∧
    (normLetter s t = '1' ∨ normLetter s t = 'I') ∧
    letterNorm (normLetter s t) n (aaDense s D) = (if t = .NOTRANS then norm1 n D else normInf n D) := by
  have hI : ¬ (('I' : Char) = '1') := by decide
  cases s <;> cases t <;>
    simp [normLetter, notranAfterFlip, trantOf, letterNorm, aaDense, hI, norm1_trD, normInf_trD]

example : normLetter .NR .NOTRANS = 'I' ∧ trantOf .NR .NOTRANS = .TRANS := by decide

/-- `info = n+1` exactly when `rcond < eps`, and the solution and the error bounds are still produced;
an exactly singular U (`0 < infoTrf ≤ n`) skips the solve and keeps `info`. -/
theorem info_n_plus_1 (n : Nat) (rcond eps : Rat) :
    ((gssvxTail n 0 rcond eps).info = (n : Int) + 1 ↔ rcond < eps) ∧
    (gssvxTail n 0 rcond eps).solved = true ∧
    ((gssvxTail n 0 rcond eps).info = 0 ∨ (gssvxTail n 0 rcond eps).info = (n : Int) + 1) ∧
    (∀ k : Int, 0 < k → (gssvxTail n k rcond eps).solved = false ∧ (gssvxTail n k rcond eps).info = k) := by
  refine ⟨?_, ?_, ?_, ?_⟩
  · unfold gssvxTail
    by_cases h : rcond < eps
    · simp [h]
    · simp only [lt_irrefl, if_false, h, iff_false]
      have : (0 : Int) ≤ n := Int.natCast_nonneg n
      omega
  · simp [gssvxTail]
  · unfold gssvxTail; by_cases h : rcond < eps <;> simp [h]
  · intro k hk; simp [gssvxTail, hk]

example : (gssvxTail 3 0 (1 / 1000) (1 / 10)).info = 4 ∧ (gssvxTail 3 0 (1 / 2) (1 / 10)).info = 0 := by decide +kernel


/-! ## ?langs -/

theorem langsOne_eq (A : NCMat) : langsOne A = ((List.range A.ncol).map (colSumAbs A)).foldl rmax 0 := by
  unfold langsOne; exact foldl_map_fn _ _ _ _
theorem langsInf_eq (A : NCMat) : langsInf A = ((List.range A.nrow).map (rowSumAbs A)).foldl rmax 0 := by
  unfold langsInf; exact foldl_map_fn _ _ _ _
theorem langsMax_eq (A : NCMat) :
    langsMax A = ((List.range A.ncol).flatMap fun j => (A.col j).map fun e => rabs e.2).foldl rmax 0 := by
  unfold langsMax
  generalize (0 : Rat) = r
  induction (List.range A.ncol) generalizing r with
  | nil => rfl
  | cons j t ih =>
    simp only [List.foldl_cons, List.flatMap_cons, List.foldl_append]
    rw [foldl_map_fn (A.col j) (fun e => rabs e.2) rmax r]; exact ih _

theorem entry_of_mem (A : NCMat) (hwf : A.wf) (j : Nat) (hj : j < A.ncol) (e : Nat × Rat) (he : e ∈ A.col j) :
    A.entry e.1 j = e.2 := by
  unfold NCMat.entry
  have hl := filter_row_length (A.col j) (hwf.2 j hj) e.1
  have hmem : e ∈ (A.col j).filter fun x => x.1 = e.1 := by simp [he]
  generalize ((A.col j).filter fun x => x.1 = e.1) = fl at hl hmem ⊢
  match fl, hl, hmem with
  | [x], _, hm => simp at hm; subst hm; simp
  | x :: y :: t, hl, _ => simp at hl

theorem entry_zero_or_mem (A : NCMat) (i j : Nat) : A.entry i j = 0 ∨ ∃ e ∈ A.col j, e.1 = i ∧ (A.col j).filter (fun x => x.1 = i) ≠ [] := by
  by_cases h : (A.col j).filter (fun x => x.1 = i) = []
  · left; unfold NCMat.entry; rw [h]; rfl
  · right
    obtain ⟨e, he⟩ := List.exists_mem_of_ne_nil _ h
    have := List.mem_filter.mp he
    exact ⟨e, this.1, by simpa using this.2, h⟩

/-- `?langs` returns the norms of the dense matrix the structure denotes (rows in range, no duplicate entries):
`'1'`/`'O'` the largest absolute column sum, `'I'` the largest absolute row sum, `'M'` the largest absolute entry —
each an upper bound that is attained (or 0); `F`/`E` and illegal letters abort; an empty matrix gives 0. -/
theorem langs_spec (A : NCMat) (hwf : A.wf) (h0 : min A.nrow A.ncol ≠ 0) :
    (langs '1' A = some (langsOne A) ∧ langs 'O' A = some (langsOne A) ∧
      (∀ j, j < A.ncol → denseColSum A j ≤ langsOne A) ∧
      (langsOne A = 0 ∨ ∃ j, j < A.ncol ∧ langsOne A = denseColSum A j)) ∧
    (langs 'I' A = some (langsInf A) ∧
      (∀ i, i < A.nrow → denseRowSum A i ≤ langsInf A) ∧
      (langsInf A = 0 ∨ ∃ i, i < A.nrow ∧ langsInf A = denseRowSum A i)) ∧
    (langs 'M' A = some (langsMax A) ∧
      (∀ i j, i < A.nrow → j < A.ncol → rabs (A.entry i j) ≤ langsMax A) ∧
      (langsMax A = 0 ∨ ∃ i j, i < A.nrow ∧ j < A.ncol ∧ langsMax A = rabs (A.entry i j))) ∧
    langs 'F' A = none ∧ langs 'X' A = none := by
  have c1 : ¬ (('1' : Char).toUpper = 'M') := by decide
  have c2 : ¬ (('O' : Char).toUpper = 'M') := by decide
  have c3 : ('O' : Char).toUpper = 'O' := by decide
  have c4 : ¬ (('I' : Char).toUpper = 'M') := by decide
  have c5 : ¬ (('I' : Char).toUpper = 'O' ∨ ('I' : Char) = '1') := by decide
  have c6 : ('I' : Char).toUpper = 'I' := by decide
  have c7 : ('M' : Char).toUpper = 'M' := by decide
  have c8 : ¬ (('F' : Char).toUpper = 'M') ∧ ¬ (('F' : Char).toUpper = 'O' ∨ ('F' : Char) = '1') ∧ ¬ (('F' : Char).toUpper = 'I') := by decide
  have c9 : ¬ (('X' : Char).toUpper = 'M') ∧ ¬ (('X' : Char).toUpper = 'O' ∨ ('X' : Char) = '1') ∧ ¬ (('X' : Char).toUpper = 'I') := by decide
  refine ⟨⟨?_, ?_, ?_, ?_⟩, ⟨?_, ?_, ?_⟩, ⟨?_, ?_, ?_⟩, ?_, ?_⟩
  · simp [langs, h0, c1]
  · simp [langs, h0, c2, c3]
  · intro j hj
    rw [langsOne_eq, ← colSumAbs_eq_dense A hwf j hj]
    exact foldl_rmax_ge_mem _ _ _ (List.mem_map.mpr ⟨j, List.mem_range.mpr hj, rfl⟩)
  · rw [langsOne_eq]
    rcases foldl_rmax_attained ((List.range A.ncol).map (colSumAbs A)) 0 with h | h
    · left; exact h
    · right
      obtain ⟨j, hj, hje⟩ := List.mem_map.mp h
      have hj' := List.mem_range.mp hj
      exact ⟨j, hj', by rw [← hje, colSumAbs_eq_dense A hwf j hj']⟩
  · simp [langs, h0, c4, c5, c6]
  · intro i hi
    rw [langsInf_eq, ← rowSumAbs_eq_dense A hwf i]
    exact foldl_rmax_ge_mem _ _ _ (List.mem_map.mpr ⟨i, List.mem_range.mpr hi, rfl⟩)
  · rw [langsInf_eq]
    rcases foldl_rmax_attained ((List.range A.nrow).map (rowSumAbs A)) 0 with h | h
    · left; exact h
    · right
      obtain ⟨i, hi, hie⟩ := List.mem_map.mp h
      exact ⟨i, List.mem_range.mp hi, by rw [← hie, rowSumAbs_eq_dense A hwf i]⟩
  · simp [langs, h0, c7]
  · intro i j _ hj
    rw [langsMax_eq]
    rcases entry_zero_or_mem A i j with h | ⟨e, he, hei, _⟩
    · rw [h]; exact le_trans (by simp [rabs]) (foldl_rmax_ge_init _ 0)
    · have := entry_of_mem A hwf j hj e he
      rw [hei] at this; rw [this]
      apply foldl_rmax_ge_mem
      exact List.mem_flatMap.mpr ⟨j, List.mem_range.mpr hj, List.mem_map.mpr ⟨e, he, rfl⟩⟩
  · rw [langsMax_eq]
    rcases foldl_rmax_attained ((List.range A.ncol).flatMap fun j => (A.col j).map fun e => rabs e.2) 0 with h | h
    · left; exact h
    · right
      obtain ⟨j, hj, hje⟩ := List.mem_flatMap.mp h
      obtain ⟨e, he, hee⟩ := List.mem_map.mp hje
      have hj' := List.mem_range.mp hj
      exact ⟨e.1, j, hwf.1 j hj' e he, hj', by rw [entry_of_mem A hwf j hj' e he]; exact hee.symm⟩
  · simp [langs, h0, c8]
  · simp [langs, h0, c9]

example : langs '1' { nrow := 2, ncol := 2, cols := #[#[(0, 1), (1, -3)], #[(1, 2)]] } = some 4 ∧
    langs 'I' { nrow := 2, ncol := 2, cols := #[#[(0, 1), (1, -3)], #[(1, 2)]] } = some 5 ∧
    langs 'M' { nrow := 2, ncol := 2, cols := #[#[(0, 1), (1, -3)], #[(1, 2)]] } = some 3 := by decide +kernel

/-! ## ?PivotGrowth -/

/-- `?PivotGrowth` is the minimum (capped by `rpg0 = 1/safmin`) of `max|A_·j| / max|U_·j|` (1 when the U column is
zero) over the first `ncols` columns, U taken from the NCP part AND the upper triangle of the supernode rectangle
(`ucolMaxAbs`), whatever order the supernodes are numbered in (the original loop needed `SupInOrder`: it walked supernode
numbers and broke at the first one reaching column `ncols`; repaired in /repo, see `growth_orig_counterexample`). -/
theorem growth_spec_partial (ncols : Nat) (A : NCMat) (permC : Array Int) (L : SCP) (U : NCP) (rpg0 : Rat) :
    pivotGrowth ncols A permC L U rpg0 = pivotGrowthSpec ncols A permC L U rpg0 ∧
    pivotGrowth ncols A permC L U rpg0 ≤ rpg0 ∧
    (∀ sn ∈ L.sn.toList, ∀ k, k < sn.e - sn.f → sn.f + k < ncols →
      pivotGrowth ncols A permC L U rpg0 ≤ growthRatio A (fun j => (invPerm A.ncol permC).getD j 0) U sn k) ∧
    (pivotGrowth ncols A permC L U rpg0 = rpg0 ∨
      ∃ sn ∈ L.sn.toList, ∃ k, k < sn.e - sn.f ∧ sn.f + k < ncols ∧
        pivotGrowth ncols A permC L U rpg0 = growthRatio A (fun j => (invPerm A.ncol permC).getD j 0) U sn k) := by
  have heq : pivotGrowth ncols A permC L U rpg0 = pivotGrowthSpec ncols A permC L U rpg0 := by
    unfold pivotGrowth pivotGrowthSpec; exact growthLoop_eq_spec _ _ _ _ _ _
  refine ⟨heq, ?_, ?_, ?_⟩
  all_goals rw [heq]; unfold pivotGrowthSpec; simp only; rw [foldl_cands_flat]
  · exact foldl_rmin_le_init _ _
  · intro sn hsn k hk hlt
    apply foldl_rmin_le_mem
    refine List.mem_flatMap.mpr ⟨sn, hsn, ?_⟩
    unfold growthCands
    exact List.mem_map.mpr ⟨k, List.mem_filter.mpr ⟨List.mem_range.mpr hk, by simpa using hlt⟩, rfl⟩
  · rcases foldl_rmin_attained (L.sn.toList.flatMap (growthCands ncols A (fun j => (invPerm A.ncol permC).getD j 0) U)) rpg0 with h | h
    · left; exact h
    · right
      obtain ⟨sn, hsn, hc⟩ := List.mem_flatMap.mp h
      unfold growthCands at hc
      obtain ⟨k, hk, hke⟩ := List.mem_map.mp hc
      have hk' := List.mem_filter.mp hk
      exact ⟨sn, hsn, k, List.mem_range.mp hk'.1, by simpa using hk'.2, hke.symm⟩

/-- two single-column supernodes numbered against the column order (as several threads produce them):
supernode 0 holds column 1, supernode 1 holds column 0 whose pivot grew (|u| = 4 from |a| = 1) -/
def growthCexL : SCP :=
  { n := 2, nnz := 2, nsuper := 1, colToSup := #[1, 0], supBeg := #[1, 0], supEnd := #[2, 1],
    rowBegA := #[1, 0], rowEndA := #[2, 1], nzBegA := #[1, 0], nzEndA := #[2, 1],
    sn := #[{ f := 1, e := 2, rowBeg := 0, rows := #[1], nzBeg := #[0], vals := #[#[1]] },
            { f := 0, e := 1, rowBeg := 1, rows := #[0], nzBeg := #[1], vals := #[#[4]] }] }
def growthCexU : NCP := { n := 2, nnz := 2, cols := #[{ beg := 0, rows := #[], vals := #[] }, { beg := 0, rows := #[], vals := #[] }] }
def growthCexA : NCMat := { nrow := 2, ncol := 2, cols := #[#[(0, 1)], #[(1, 1)]] }

/-- counter-example without the hypothesis: the loop stops after supernode 0 (it reaches column `ncols = 2`) and never
looks at column 0; it returns 1 although the minimum over the columns is 1/4 -/
theorem growth_spec_counterexample :
    pivotGrowthOrig 2 growthCexA #[0, 1] growthCexL growthCexU 1000 = 1 ∧
    pivotGrowth 2 growthCexA #[0, 1] growthCexL growthCexU 1000 = 1 / 4 ∧
    pivotGrowthSpec 2 growthCexA #[0, 1] growthCexL growthCexU 1000 = 1 / 4 ∧
    ¬ SupInOrder growthCexL.sn.toList := by
  refine ⟨by decide +kernel, by decide +kernel, by decide +kernel, ?_⟩
  simp [SupInOrder, growthCexL]

example : SupInOrder [{ f := 0, e := 1, rowBeg := 0, rows := #[0], nzBeg := #[0], vals := #[#[4]] },
    ({ f := 1, e := 2, rowBeg := 1, rows := #[1], nzBeg := #[1], vals := #[#[1]] } : Snode)] := by
  simp [SupInOrder]

end Slu
