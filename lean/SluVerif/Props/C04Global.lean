/-
C04 / C03 — system-level theorems about the scheduler/worker model, for EVERY configuration whose initial state passes the
executable check `initOk` (evaluated at run time on the state produced by the real `ParallelInit`), every number of workers and
every interleaving of the worker events (`loop`, `sched`, `finish`), of any length:

  * `global_invariant`        the invariant `SysInv` holds in every reachable state
  * `global_tasks_remain`     tasks_remain = number of panels not yet handed out
  * `global_queue_bounded`    0 ≤ head ≤ tail ≤ n, count = tail − head, the queue never holds a panel twice
  * `global_handouts_nodup`   no panel is handed out twice along any run (exactly-once, together with termination)
  * `global_owner_unique`     a BUSY panel is held by exactly one worker, and a worker holds a BUSY panel
  * `global_children_started` a panel that is runnable, running or finished has all its child panels handed out already
                              (the scheduler never lets a panel start before every child panel has at least started:
                               the pipelining precondition of C03)
  * `global_parent_unready`   the parent of a panel that has not been handed out is still UNREADY
-/
import SluVerif.Proofs.SchedInit

namespace Slu
open Slu.Gen
open Classical

def runEv (c : PanelCfg) (s : Sys) (evs : List Ev) : Sys := evs.foldl (step c) s

theorem sysInv_step (K : Cfg) (W : CfgWF K) (s : Sys) (inv : SysInv K s) (e : Ev) : SysInv K (step K.c s e) := by
  by_cases h : enabled K.c s e = true
  · cases e with
    | loop w => exact sysInv_loop K W s inv w h
    | sched w => exact sysInv_sched K W s inv w h
    | finish w => exact sysInv_finish K W s inv w h
  · rw [step_disabled K.c s e (by simpa using h)]; exact inv

theorem sysInv_run (K : Cfg) (W : CfgWF K) (s : Sys) (inv : SysInv K s) (evs : List Ev) : SysInv K (runEv K.c s evs) := by
  induction evs generalizing s with
  | nil => exact inv
  | cons e es ih => exact ih (step K.c s e) (sysInv_step K W s inv e)

/-- the invariant holds in every reachable state -/
theorem global_invariant (c : PanelCfg) (sh : Sh) (nw : Nat) (h : initOk c sh = true) (evs : List Ev) :
    SysInv (cfgOf c sh) (runEv c (sysOf sh nw) evs) :=
  sysInv_run (cfgOf c sh) (cfgWF_of_initOk c sh h) (sysOf sh nw) (sysInv_of_initOk c sh nw h) evs

/-- `tasks_remain` equals the number of panels that have not been handed out, in every reachable state -/
theorem global_tasks_remain (c : PanelCfg) (sh : Sh) (nw : Nat) (h : initOk c sh = true) (evs : List Ev) :
    (runEv c (sysOf sh nw) evs).sh.tasksRemain =
      (((panelsOf c.n sh).filter (fun p => decide (getN (runEv c (sysOf sh nw) evs).sh.state p > BUSY))).length : Int) := by
  have inv := global_invariant c sh nw h evs
  rw [inv.tasks]
  congr 1
  apply cnt_eq_filter
  intro q _
  simp only [decide_eq_true_eq]
  rfl

/-- the task queue never overflows and never holds a panel twice -/
theorem global_queue_bounded (c : PanelCfg) (sh : Sh) (nw : Nat) (h : initOk c sh = true) (evs : List Ev) :
    let s := runEv c (sysOf sh nw) evs
    s.sh.head ≤ s.sh.tail ∧ s.sh.tail ≤ c.n ∧ s.sh.count = ((s.sh.tail : Int) - (s.sh.head : Int)) ∧ s.sh.queue.size = c.n ∧
    (qlist s.sh).Nodup ∧ ∀ k, k < s.sh.tail → getN s.sh.queue k ∈ panelsOf c.n sh := by
  intro s
  have inv := global_invariant c sh nw h evs
  have W := cfgWF_of_initOk c sh h
  refine ⟨inv.qok.1, ?_, inv.qok.2, inv.qsz, inv.qnodup, inv.qpan⟩
  have h1 := nodup_subset_length (qlist s.sh) (panelsOf c.n sh) inv.qnodup (by
    intro x hx
    obtain ⟨k, hk, hka⟩ := (mem_qlist _ _).1 hx
    rw [← hka]; exact inv.qpan k hk)
  have h2 := nodup_lt_length (panelsOf c.n sh) c.n W.nodup W.lt
  rw [qlist_length] at h1
  omega

/-- a BUSY panel has exactly one owner -/
theorem global_owner_unique (c : PanelCfg) (sh : Sh) (nw : Nat) (h : initOk c sh = true) (evs : List Ev) :
    let s := runEv c (sysOf sh nw) evs
    (∀ p ∈ panelsOf c.n sh, getN s.sh.state p = BUSY → ∃ i b, (wk s i).phase = .working p b) ∧
    (∀ i i' p b b', (wk s i).phase = .working p b → (wk s i').phase = .working p b' → i = i') ∧
    (∀ i p b, (wk s i).phase = .working p b → getN s.sh.state p = BUSY ∧ p ∈ panelsOf c.n sh) := by
  intro s
  have inv := global_invariant c sh nw h evs
  refine ⟨inv.busy_owned, ?_, ?_⟩
  · intro i i' p b b' h1 h2
    exact inv.own_u i i' p (inv.own_w i p b h1).1 (inv.own_w i' p b' h2).1
  · intro i p b h1
    exact ⟨(inv.own_w i p b h1).2.1, (inv.own_w i p b h1).2.2⟩

/-- once a panel is runnable, running or done, all its child panels have been handed out -/
theorem global_children_started (c : PanelCfg) (sh : Sh) (nw : Nat) (h : initOk c sh = true) (evs : List Ev) :
    let s := runEv c (sysOf sh nw) evs
    ∀ d ∈ panelsOf c.n sh, getN s.sh.state d ≠ UNREADY → ∀ q ∈ panelsOf c.n sh, dadPanel c sh q = d → getN s.sh.state q ≤ BUSY := by
  intro s
  exact (global_invariant c sh nw h evs).closed

/-- the parent of a panel that has not been handed out is still UNREADY -/
theorem global_parent_unready (c : PanelCfg) (sh : Sh) (nw : Nat) (h : initOk c sh = true) (evs : List Ev) :
    let s := runEv c (sysOf sh nw) evs
    ∀ q ∈ panelsOf c.n sh, getN s.sh.state q > BUSY → dadPanel c sh q < c.n → getN s.sh.state (dadPanel c sh q) = UNREADY := by
  intro s q hq hgt hdn
  have inv := global_invariant c sh nw h evs
  have W := cfgWF_of_initOk c sh h
  by_contra hne
  have := inv.closed (dadPanel c sh q) (W.dad_pan q hq hdn) hne q hq rfl
  have h' : getN s.sh.state q ≤ BUSY := this
  omega

/-! ### exactly once -/

/-- the panel handed out by event `e` in state `s`, if any -/
def handout (c : PanelCfg) (s : Sys) : Ev → Option Nat
  | .sched w => if enabled c s (.sched w) then (schedule c s.sh (wk s w).cur 0).2.1 else none
  | _ => none

/-- the panels handed out along a run, in order -/
def handouts (c : PanelCfg) : Sys → List Ev → List Nat
  | _, [] => []
  | s, e :: es => (match handout c s e with | some j => [j] | none => []) ++ handouts c (step c s e) es

/-- a panel that has been handed out stays handed out -/
theorem taken_monotone (K : Cfg) (W : CfgWF K) (s : Sys) (inv : SysInv K s) (e : Ev) (p : Nat)
    (hp : stt s p ≤ BUSY) : stt (step K.c s e) p ≤ BUSY := by
  by_cases h : enabled K.c s e = true
  · cases e with
    | loop w =>
      obtain ⟨hsh, _, _, _⟩ := step_loop K.c s w h
      unfold stt; rw [hsh]; exact hp
    | finish w =>
      obtain ⟨p', b, hph, _, hsh, _, _⟩ := step_finish K.c s w h
      have hpn : p' < K.c.n := W.lt p' (inv.own_w w p' b hph).2.2
      unfold stt
      rw [hsh, finishPanel_state, getN_set _ _ _ _ (by rw [inv.ssz]; omega)]
      split
      · simp [DONE, BUSY]
      · exact hp
    | sched w =>
      obtain ⟨got, E⟩ := sched_effect K W s inv w h
      have hgot : ∀ j, got = some j → K.dad j < K.c.n → stt s (K.dad j) = UNREADY := by
        intro j hj hdn
        obtain ⟨hjn, hjs, _, _⟩ := E.some_take j hj
        -- j is a panel: it is handed out by a state satisfying the invariant
        have inv' := sysInv_sched K W s inv w h
        have hjp : j ∈ K.panels := by
          have hw := E.wk_w_some j hj
          exact (inv'.own_w w j _ hw).2.2
        by_contra hne
        have := inv.closed (K.dad j) (W.dad_pan j hjp hdn) hne j hjp rfl
        omega
      have S := sched_state K s _ w _ got E hgot
      rw [S.le_same p hp]; exact hp
  · rw [step_disabled K.c s e (by simpa using h)]; exact hp

theorem handout_untaken (K : Cfg) (W : CfgWF K) (s : Sys) (inv : SysInv K s) (e : Ev) (j : Nat)
    (hj : handout K.c s e = some j) : stt s j > BUSY ∧ stt (step K.c s e) j = BUSY := by
  cases e with
  | loop w => cases hj
  | finish w => cases hj
  | sched w =>
    have hj' : (if enabled K.c s (.sched w) then (schedule K.c s.sh (wk s w).cur 0).2.1 else none) = some j := hj
    clear hj; rename' hj' => hj
    by_cases h : enabled K.c s (.sched w) = true
    · rw [if_pos h] at hj
      obtain ⟨hph, hsh, _, _⟩ := step_sched K.c s w h
      have hnw : ¬ isWorking (wk s w) := by
        intro ⟨p, b, hpb⟩; rw [hph] at hpb; cases hpb
      have inv' := sysInv_sched K W s inv w h
      obtain ⟨got, E⟩ := sched_effect K W s inv w h
      -- `got` is what `schedule` returned
      have hw := E.wk_w_cur
      have : (wk (step K.c s (.sched w)) w).cur = some j := by
        obtain ⟨_, _, _, hwk⟩ := step_sched K.c s w h
        rw [hwk w, if_pos rfl, schedWorker_cur]; exact hj
      rw [this] at hw
      obtain ⟨_, hjs, _, hst⟩ := E.some_take j hw.symm
      exact ⟨hjs, by rw [hst j, if_pos rfl]⟩
    · rw [if_neg h] at hj; cases hj

/-- no panel is handed out twice, along any run from any state satisfying the invariant; and everything handed out was untaken -/
theorem handouts_nodup (K : Cfg) (W : CfgWF K) (evs : List Ev) :
    ∀ s, SysInv K s → (handouts K.c s evs).Nodup ∧ ∀ j ∈ handouts K.c s evs, stt s j > BUSY := by
  induction evs with
  | nil => intro s _; exact ⟨List.nodup_nil, fun j hj => by cases hj⟩
  | cons e es ih =>
    intro s inv
    obtain ⟨ih1, ih2⟩ := ih (step K.c s e) (sysInv_step K W s inv e)
    have hback : ∀ j, stt (step K.c s e) j > BUSY → stt s j > BUSY := by
      intro j hj
      by_contra hle
      have := taken_monotone K W s inv e j (by omega)
      omega
    unfold handouts
    cases hh : handout K.c s e with
    | none =>
      simp only [List.nil_append]
      exact ⟨ih1, fun j hj => hback j (ih2 j hj)⟩
    | some j0 =>
      simp only [List.singleton_append]
      obtain ⟨h1, h2⟩ := handout_untaken K W s inv e j0 hh
      refine ⟨List.nodup_cons.2 ⟨?_, ih1⟩, ?_⟩
      · intro hmem
        have := ih2 j0 hmem
        rw [h2] at this; simp at this
      · intro j hj
        rcases List.mem_cons.1 hj with e1 | e1
        · rw [e1]; exact h1
        · exact hback j (ih2 j e1)

/-- exactly-once (at most once; "at least once" is termination): no panel is handed out twice along any run -/
theorem global_handouts_nodup (c : PanelCfg) (sh : Sh) (nw : Nat) (h : initOk c sh = true) (evs : List Ev) :
    (handouts c (sysOf sh nw) evs).Nodup :=
  (handouts_nodup (cfgOf c sh) (cfgWF_of_initOk c sh h) evs (sysOf sh nw) (sysInv_of_initOk c sh nw h)).1

end Slu

namespace Slu
/-! ### the hypotheses are satisfiable: two concrete configurations pass `initOk`, and a run hands out panels -/
def exCfg2 : PanelCfg := { n := 7, etree := #[2, 2, 6, 5, 5, 6, 7], panelSize := 2, relax := 1 }
example : initOk exCfg (parallelInit exCfg) = true := by decide
example : initOk exCfg2 (parallelInit exCfg2) = true := by decide
example : handouts exCfg2 (sysOf (parallelInit exCfg2) 2)
    [.loop 0, .sched 0, .loop 1, .sched 1, .finish 0, .loop 0, .sched 0, .finish 1, .loop 1, .sched 1] = [0, 1, 3, 2] := by decide
end Slu
