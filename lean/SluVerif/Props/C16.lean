/-
C16 — diagonal pivoting at threshold 0 (symmetric mode).
Model-level, for every size and every matrix: in a column step with `u = 0` and no pivot reuse, if the
original diagonal row of that column is still unpivoted and its candidate value is nonzero, it IS the
pivot (`step_diag_pivot`); hence along a whole factorization in which this holds at every step
`perm_r[diagOf j] = j` for all j, i.e. the row permutation equals the column permutation
(`factor_diag_pivots`).  Correctness (C01/C02) is Props/LU.lean, which holds for every pivot policy outcome.
That diagonal dominance keeps the diagonal nonzero, and that the fill stays inside the symmetric
prediction, are checked per run (perm_r == perm_c, LU checker, slot monitor), not proved here.
-/
import SluVerif.Props.LU

namespace Slu

theorem pivIn_row (P : LUParams) (st : LUState) (u : Array Rat) (idx : Nat) (h : idx < (candRows P st).length) :
    (pivIn P st u).row idx = Int.ofNat ((candRows P st).getD idx 0) := by
  unfold PivIn.row pivIn
  simp only
  rw [getD_map_toArrayI _ _ _ h]

/-- one column step at threshold 0: a nonzero, still unpivoted diagonal is taken -/
theorem step_diag_pivot (P : LUParams) (st : LUState) (hu : P.u = 0) (hus : st.usepr = false)
    (d : Nat) (hdiag : P.diagOf st.k = Int.ofNat d) (hdc : d ∈ candRows P st) (hne : stepC P st d ≠ 0) :
    (stepSel P st).info = 0 ∧ stepRow P st = d := by
  obtain ⟨idx, hidx, hget⟩ := List.getElem_of_mem hdc
  have hgetD : (candRows P st).getD idx 0 = d := by simp [List.getD, hidx, hget]
  have hcand : (pivIn P st (stepU P st)).cand idx := ⟨by rw [pivIn_nsupc]; exact Nat.zero_le _, by rw [pivIn_rows_size]; exact hidx⟩
  have hrow : (pivIn P st (stepU P st)).row idx = (pivIn P st (stepU P st)).diagInd := by
    rw [pivIn_row _ _ _ _ hidx, hgetD]; exact hdiag.symm
  have huniq : ∀ i, (pivIn P st (stepU P st)).cand i → (pivIn P st (stepU P st)).row i = (pivIn P st (stepU P st)).diagInd → i = idx := by
    intro i hi hr
    have hil : i < (candRows P st).length := by have := hi.2; rw [pivIn_rows_size] at this; exact this
    rw [pivIn_row _ _ _ _ hil] at hr
    have hd' : (pivIn P st (stepU P st)).diagInd = Int.ofNat d := hdiag
    rw [hd'] at hr
    have e : (candRows P st).getD i 0 = d := Int.ofNat.inj hr
    -- nodup list: equal elements have equal positions
    have hnd := candRows_nodup P st
    have e1 : (candRows P st)[i]'hil = (candRows P st)[idx]'hidx := by
      have : (candRows P st).getD i 0 = (candRows P st)[i]'hil := by simp [List.getD, hil]
      rw [← this, e, hget]
    exact (List.Nodup.getElem_inj_iff hnd).1 e1
  have hmag : (pivIn P st (stepU P st)).mag idx ≠ 0 := by
    rw [pivIn_mag _ _ _ _ hidx, hgetD]
    intro h0; exact hne ((qabs_eq_zero _).1 h0)
  obtain ⟨h1, h2, _⟩ := pivot_diag_at_zero_threshold (pivIn P st (stepU P st)) (pivIn_magsNonneg _ _ _) hu hus idx hcand hrow huniq hmag
  refine ⟨h1, ?_⟩
  show (candRows P st).getD (stepSel P st).pivptr 0 = d
  unfold stepSel
  rw [h2, hgetD]

/-- after such a step the flag is still `usepr = NO` -/
theorem step_usepr_stays_off (P : LUParams) (st : LUState) (hus : st.usepr = false) : (luStep P st).usepr = false := by
  show (stepSel P st).usepr = false
  unfold stepSel pivotSelect pivotDecide pivIn
  simp only [hus, Bool.false_and, Bool.false_eq_true, if_false]
  split <;> rfl

/-- the condition "at every step the diagonal row is unpivoted with a nonzero candidate" along a run of `m` steps -/
def DiagAlive (P : LUParams) : Nat → LUState → Prop
  | 0, _ => True
  | m + 1, st => (∃ d, P.diagOf st.k = Int.ofNat d ∧ d ∈ candRows P st ∧ stepC P st d ≠ 0) ∧ DiagAlive P m (luStep P st)

/-- **lift**: if the diagonal stays alive during the whole factorization (threshold 0, no reuse), every column's
pivot row is its diagonal row: `pos (diagOf j) = j`, i.e. `perm_r[inv_perm_c[j]] = j` — the row and column
permutations coincide. -/
theorem run_diag_pivots (P : LUParams) (hu : P.u = 0) (m : Nat) (st : LUState) (hus : st.usepr = false)
    (inv : LUInv P st) (hm : st.k + m ≤ P.n) (alive : DiagAlive P m st)
    (hprev : ∀ j, j < st.k → ∃ d, P.diagOf j = Int.ofNat d ∧ posOf st d = some j) :
    ∀ j, j < st.k + m → ∃ d, P.diagOf j = Int.ofNat d ∧ posOf (luRun P m st) d = some j := by
  induction m generalizing st with
  | zero => intro j hj; exact hprev j (by omega)
  | succ m ih =>
    obtain ⟨⟨d, hd1, hd2, hd3⟩, alive'⟩ := alive
    have hk : st.k < P.n := by omega
    obtain ⟨_, hrow⟩ := step_diag_pivot P st hu hus d hd1 hd2 hd3
    have inv' := luInv_step P st inv hk
    have hclen : 0 < (candRows P st).length := by rw [inv.cands_len]; omega
    obtain ⟨_, hrmem⟩ := stepRow_spec P st hclen
    obtain ⟨hrn, _⟩ := (mem_candRows P st _).1 hrmem
    have hrsz : stepRow P st < st.pos.size := by rw [inv.pos_size]; exact hrn
    have hprev' : ∀ j, j < (luStep P st).k → ∃ d, P.diagOf j = Int.ofNat d ∧ posOf (luStep P st) d = some j := by
      intro j hj
      rw [luStep_k] at hj
      by_cases e : j = st.k
      · subst e
        refine ⟨d, hd1, ?_⟩
        rw [posOf_luStep _ _ _ hrsz, hrow, if_pos rfl]
      · obtain ⟨d', h1, h2⟩ := hprev j (by omega)
        refine ⟨d', h1, ?_⟩
        rw [posOf_luStep _ _ _ hrsz]
        have : d' ≠ stepRow P st := by
          intro heq
          have := (mem_candRows P st _).1 hrmem
          rw [← heq, h2] at this
          cases this.2
        rw [if_neg this]; exact h2
    have := ih (luStep P st) (step_usepr_stays_off P st hus) inv' (by rw [luStep_k]; omega) alive' hprev'
    intro j hj
    exact this j (by rw [luStep_k]; omega)

theorem factor_diag_pivots (P : LUParams) (hu : P.u = 0) (alive : DiagAlive P P.n (luInit P.n false)) :
    ∀ j, j < P.n → ∃ d, P.diagOf j = Int.ofNat d ∧ posOf (factor P false) d = some j := by
  have := run_diag_pivots P hu P.n (luInit P.n false) rfl (luInv_init P false) (by simp [luInit]) alive
    (by intro j hj; simp [luInit] at hj)
  intro j hj
  exact this j (by simpa [luInit] using hj)

/-! non-vacuity: a 2×2 diagonally dominant matrix with a larger off-diagonal entry below the diagonal in column 0
(partial pivoting would swap; threshold 0 keeps the diagonal) -/
def exDiag : LUParams := { n := 2, A := #[#[2, 1], #[3, 5]], u := 0, diagOf := fun j => j, oldInv := fun _ => 0 }
example : permROf 2 (factor exDiag false) = #[0, 1] := by decide +kernel
example : permROf 2 (factor { exDiag with u := 1 } false) = #[1, 0] := by decide +kernel

end Slu
