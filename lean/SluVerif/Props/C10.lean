/-
C10 — orderings are bijections; preprocessing yields A·Pc and its postordered etree.

Property theorems about the executable model `Model/Etree.lean` (a transcription of
SRC/sp_coletree.c, sp_colorder.c, at_plus_a of get_perm_c.c and the partition passes of
qrnzcnt.c / cholnzcnt.c).  Helper lemmas: Proofs/{EtreeBasic,Postorder,Forest,PostorderMain,Relabel,
Colorder,UnionFind,Blocks,Fill,EtreeRef,Liu,LiuInst,PartModel,Stable,Reorder,ReorderInst}.lean.  All statements are for every size and every input; nothing here is
a bounded enumeration.
-/
import SluVerif.Proofs.Colorder
import SluVerif.Proofs.UnionFind
import SluVerif.Proofs.Blocks
import SluVerif.Proofs.LiuInst
import SluVerif.Proofs.PartModel
import SluVerif.Proofs.Stable
import SluVerif.Proofs.ReorderInst
namespace Slu.Pre

/-! ## TreePostorder -/

/-- **postorder_perm** — for EVERY forest (any labelling, `parent[root] = n`) the non-recursive
`TreePostorder` returns an array of length `n+1` whose first `n` entries are a permutation of `0..n-1`
(accepted by the verified `checkPerm`), and `post[n] = n`. -/
theorem postorder_perm {n : Nat} {parent : Array Nat} (h : IsForest n parent) :
    (treePostorder n parent).size = n + 1 ∧ getN (treePostorder n parent) n = n ∧
    PermOn n (treePostorder n parent) ∧ IsPerm n (firstInts n (treePostorder n parent)) := by
  obtain ⟨_, hp, rank, hr⟩ := h
  exact ⟨treePostorder_size hp hr, post_root hp hr, post_permOn hp hr, isPerm_firstInts (post_permOn hp hr)⟩

example : IsForest 5 #[2, 2, 5, 4, 5] := isForest_of_increasing rfl (by decide)
example : IsForest 4 #[3, 0, 4, 2] :=   -- not topologically numbered: 1 → 0 → 3 → 2 → root
  ⟨rfl, by decide, ⟨fun v => #[1, 0, 3, 2, 4].getD v 0, by decide⟩⟩
example : IsPerm 4 (firstInts 4 (treePostorder 4 #[3, 0, 4, 2])) :=
  (postorder_perm (n := 4) ⟨rfl, by decide, ⟨fun v => #[1, 0, 3, 2, 4].getD v 0, by decide⟩⟩).2.2.2

/-- **postorder_fuel** ('fuel suffices', exact): with the fuel `2n+3` built into the model the walk of
`nr_etdfs` terminates, and it numbers the vertices exactly in the order of the recursive
depth-first postorder `po` over the child lists (lower-numbered children first). -/
theorem postorder_fuel {n : Nat} {parent : Array Nat} {rank : Nat → Nat}
    (hp : ∀ v, v < n → getN parent v ≤ n) (hr : ∀ v, v < n → rank v < rank (getN parent v)) :
    treePostorder n parent =
      numberAll (Array.replicate (n + 1) 0) 0 (po (kids (getN parent) n) (rank n) n) ∧
    (po (kids (getN parent) n) (rank n) n).Perm (List.range (n + 1)) :=
  ⟨treePostorder_eq hp hr, po_root_perm (fctx_of hp hr)⟩

example : treePostorder 5 #[2, 2, 5, 5, 3] = #[0, 1, 2, 4, 3, 5] := by decide

/-- **postorder_contiguous** — after relabelling by the postorder (`etree'[post[i]] = post[etree[i]]`,
the loop of sp_colorder) every parent is larger than its child and every subtree is a contiguous
index range `[v+1-s, v]` ending at its root. -/
theorem postorder_contiguous {n : Nat} {parent : Array Nat} (h : IsForest n parent) :
    Postordered n (relabelEtree n (treePostorder n parent) parent) := by
  obtain ⟨hs, hp, rank, hr⟩ := h
  exact postordered_relabel hs hp hr

example : Postordered 4 (relabelEtree 4 (treePostorder 4 #[3, 0, 4, 2]) #[3, 0, 4, 2]) :=
  postorder_contiguous ⟨rfl, by decide, ⟨fun v => #[1, 0, 3, 2, 4].getD v 0, by decide⟩⟩
example : relabelEtree 4 (treePostorder 4 #[3, 0, 4, 2]) #[3, 0, 4, 2] = #[1, 2, 3, 4] := by decide

/-- **postorder_stable** — a forest that is already postordered (interval-closed form, which `Postordered`
implies) is left unchanged: `post[v] = v` for every `v ≤ n`. -/
theorem postorder_stable {n : Nat} {parent : Array Nat} (h : PostorderedIC n parent) :
    ∀ v, v ≤ n → getN (treePostorder n parent) v = v := treePostorder_stable h

example : PostorderedIC 4 #[1, 2, 3, 4] := checkPostordered_sound (by decide)

/-- the executable oracle applied to the library's etree is sound (and complete) for the interval-closed
form of `Postordered` -/
theorem checkPostordered_iff {n : Nat} {par : Array Nat} :
    checkPostordered n par = true ↔ PostorderedIC n par :=
  ⟨checkPostordered_sound, checkPostordered_complete⟩

theorem postordered_check {n : Nat} {par : Array Nat} (h : Postordered n par) : checkPostordered n par = true :=
  checkPostordered_complete h.toIC

example : checkPostordered 4 #[1, 2, 3, 4] = true := by decide
example : checkPostordered 3 #[2, 3, 3] = false := by decide   -- parents larger, but subtree of 2 = {0,2}

/-! ## Liu's algorithm: shape -/

/-- **etree_increasing** — whatever the pattern (any `colbeg/colend/rowind`, even inconsistent ones),
`sp_symetree` and `sp_coletree` return an array with `v < parent[v] ≤ n`, hence a forest. -/
theorem etree_increasing (colbeg colend rowind : Array Nat) (nr n : Nat) :
    Increasing n (symEtree colbeg colend rowind n) ∧ Increasing n (colEtree colbeg colend rowind nr n) ∧
    IsForest n (symEtree colbeg colend rowind n) ∧ IsForest n (colEtree colbeg colend rowind nr n) := by
  have h1 := symEtree_increasing colbeg colend rowind n
  have h2 := colEtree_increasing colbeg colend rowind nr n
  exact ⟨h1, h2, isForest_of_increasing h1.1 h1.2, isForest_of_increasing h2.1 h2.2⟩

example : colEtree #[0, 2, 4, 5] #[2, 4, 5, 7] #[0, 2, 1, 3, 2, 0, 3] 4 4 = #[2, 3, 3, 4] := by decide

/-! ## sp_colorder -/

/-- **colorder_view** — for every pattern, both modes, and every bijection `perm_c`:
column `perm_c'[j]` of AC is column `j` of A (same extents into A's own `rowind/nzval`, which the model
never rewrites: they are inputs only); `perm_c' = post ∘ perm_c` for a bijection `post` with
`post[n] = n` (namely `TreePostorder` of the etree of the permuted matrix), so `perm_c'` is again a
bijection; and the reported etree is the relabelling of that etree and is postordered. -/
theorem colorder_view (m n : Nat) (colptr rowind pc : Array Nat) (symm : Bool) (et0 part0 : Array Nat)
    (hpc : PermOn n pc) :
    let r := colorder m n colptr rowind pc symm false et0 part0
    (∀ j, j < n → getN r.colbeg (getN r.permc j) = getN colptr j ∧
                  getN r.colend (getN r.permc j) = getN colptr (j + 1)) ∧
    PermOn n r.permc ∧ IsPerm n (firstInts n r.permc) ∧
    (∃ post, PermOn n post ∧ getN post n = n ∧ post = treePostorder n (colorderEt0 m n colptr rowind pc symm) ∧
       (∀ j, j < n → getN r.permc j = getN post (getN pc j)) ∧
       r.etree = relabelEtree n post (colorderEt0 m n colptr rowind pc symm)) ∧
    Postordered n r.etree := by
  intro r
  refine ⟨fun j hj => ⟨colorder_view_beg m colptr rowind symm et0 part0 hpc hj,
                        colorder_view_end m colptr rowind symm et0 part0 hpc hj⟩,
          colorder_permc_permOn m colptr rowind symm et0 part0 hpc,
          isPerm_firstInts (colorder_permc_permOn m colptr rowind symm et0 part0 hpc),
          ⟨colorderPost m n colptr rowind pc symm, colorderPost_permOn _ _ _ _ _ _, colorderPost_root _ _ _ _ _ _, rfl,
            fun j hj => ?_, rfl⟩,
          colorder_etree_postordered m n colptr rowind pc symm et0 part0⟩
  show getN (colorder m n colptr rowind pc symm false et0 part0).permc j = _
  rw [colorder_permc, getN_ofFn _ _ hj]

/-- `perm_c' = post ∘ perm_c` in the vocabulary of Model/Perm.lean (`compPerm`, C `int_t` arrays) -/
theorem colorder_permc_comp (m n : Nat) (colptr rowind pc : Array Nat) (symm : Bool) (et0 part0 : Array Nat)
    (hpc : PermOn n pc) :
    firstInts n (colorder m n colptr rowind pc symm false et0 part0).permc =
      compPerm (firstInts (n + 1) (treePostorder n (colorderEt0 m n colptr rowind pc symm))) (firstInts n pc) := by
  apply Array.ext
  · simp [firstInts, compPerm]
  · intro i h1 h2
    have hi : i < n := by simpa [firstInts] using h1
    have hpi := hpc.1 i hi
    simp only [firstInts, compPerm, Array.getElem_ofFn, Array.getElem_map, Int.toNat_natCast, geti]
    rw [colorder_permc, getN_ofFn _ _ hi]
    simp [Array.getD_eq_getD_getElem?, Nat.lt_succ_of_lt hpi]
    rfl

/-- with `refact = YES` only the view is rebuilt: `perm_c`, `etree`, `part_super_h` are returned as given -/
theorem colorder_refact_view (m n : Nat) (colptr rowind pc : Array Nat) (symm : Bool) (et0 part0 : Array Nat)
    (hpc : PermOn n pc) :
    let r := colorder m n colptr rowind pc symm true et0 part0
    (∀ j, j < n → getN r.colbeg (getN pc j) = getN colptr j ∧ getN r.colend (getN pc j) = getN colptr (j + 1)) ∧
    r.permc = pc ∧ r.etree = et0 ∧ r.part = part0 := by
  intro r
  exact ⟨fun j hj => ⟨viewBeg_get colptr hpc hj, viewEnd_get colptr hpc hj⟩, rfl, rfl, rfl⟩

example : PermOn 4 #[2, 0, 3, 1] := by
  constructor
  · decide
  · have h : ∀ i, i < 4 → ∀ j, j < 4 → getN #[2, 0, 3, 1] i = getN #[2, 0, 3, 1] j → i = j := by decide
    exact fun i j hi hj => h i hi j hj
example : (colorder 4 4 #[0, 2, 4, 5, 7] #[0, 2, 1, 3, 2, 0, 3] #[2, 0, 3, 1] false false #[] #[]).colbeg
    = #[2, 5, 0, 4] := by decide

/-! ## disjoint sets with path halving -/

/-- **uf_find_halving** — on a valid structure (elements `0..m-1` of a possibly longer array, pointers climbing
some rank) the library's path-halving `find` returns the root of `i`'s set (the self-loop reached by
following the pointers), terminates within the model's fuel `pp.size + 1`, leaves a valid structure of
the same size, and every element keeps its representative: the partition is unchanged. -/
theorem uf_find_halving {pp : Array Nat} {m : Nat} {rank : Nat → Nat} (hv : UFValid pp m rank) {i : Nat} (hi : i < m) :
    ∃ r, Rep pp m i r ∧ (ufFind i pp).1 = r ∧ getN pp r = r ∧
      UFValid (ufFind i pp).2 m rank ∧ (ufFind i pp).2.size = pp.size ∧
      ∀ j r', Rep (ufFind i pp).2 m j r' ↔ Rep pp m j r' := by
  obtain ⟨r, hr⟩ := hv.total i hi
  obtain ⟨h1, h2, h3, h4⟩ := ufFind_spec hv hr
  exact ⟨r, hr, h1, hr.is_root.2, h2, h3, h4⟩

example : UFValid #[1, 2, 3, 3, 4] 5 (fun i => i) := by
  refine ⟨by decide, ?_⟩
  intro i hi
  have h : ∀ i, i < 5 → getN #[1, 2, 3, 3, 4] i < 5 ∧ (getN #[1, 2, 3, 3, 4] i ≠ i → i < getN #[1, 2, 3, 3, 4] i) := by decide
  exact h i hi
example : ufFind 0 #[1, 2, 3, 3, 4] = (3, #[2, 2, 3, 3, 4]) := by decide

/-- `make_link` on two distinct roots merges exactly the two sets (and nothing else) and keeps the
structure valid -/
theorem uf_link {pp : Array Nat} {m : Nat} {rank : Nat → Nat} {c r0 : Nat} (hv : UFValid pp m rank)
    (hc : c < m) (hcr : getN pp c = c) (hr : r0 < m) (hrr : getN pp r0 = r0) (hne : c ≠ r0) :
    (∃ rank', UFValid (pp.setIfInBounds c r0) m rank') ∧
    ∀ i r, Rep (pp.setIfInBounds c r0) m i r ↔ ((Rep pp m i c ∧ r = r0) ∨ (¬ Rep pp m i c ∧ Rep pp m i r)) :=
  ⟨link_valid hv hc hcr hr hrr hne, link_rep hv hc hcr hr hrr hne⟩

/-! ## Liu's algorithm = reference elimination tree -/

/-- **symetree_eq_ref** — for EVERY input, `sp_symetree` returns the elimination tree of the graph given
by the strict upper triangle of the pattern: `parent j = min { i > j : L_ij ≠ 0 }` for the symbolic
Cholesky factor obtained by naive symbolic elimination (`etreeRef`), `n` when there is none. -/
theorem symetree_eq_ref (colbeg colend rowind : Array Nat) (n : Nat) :
    symEtree colbeg colend rowind n = etreeRef n (symAdj colbeg colend rowind) ∧
    symEtree colbeg colend rowind n = symEtreeRef colbeg colend rowind n := by
  have h := symEtree_eq_ref colbeg colend rowind n
  exact ⟨h, by rw [h, symEtreeRef_eq]⟩

/-- **coletree_eq_ref** — for every `nr × nc` pattern whose row indices are in range, `sp_coletree`
(Liu's algorithm on first-column stars) returns the elimination tree of AᵀA, i.e. of the graph in which
two columns are adjacent when they share a row. -/
theorem coletree_eq_ref (colbeg colend rowind : Array Nat) (nr nc : Nat)
    (hrows : ∀ c, c < nc → ∀ p, p ∈ colRange colbeg colend c → getN rowind p < nr) :
    colEtree colbeg colend rowind nr nc = etreeRef nc (ataAdj colbeg colend rowind nr) ∧
    colEtree colbeg colend rowind nr nc = colEtreeRef colbeg colend rowind nr nc := by
  have h := colEtree_eq_ref colbeg colend rowind nr nc hrows
  exact ⟨h, by rw [h, colEtreeRef_eq]⟩

example : ∀ c, c < 4 → ∀ p, p ∈ colRange #[0, 2, 4, 5] #[2, 4, 5, 7] c → getN #[0, 2, 1, 3, 2, 0, 3] p < 4 := by decide
example : etreeRef 4 (ataAdj #[0, 2, 4, 5] #[2, 4, 5, 7] #[0, 2, 1, 3, 2, 0, 3] 4) = #[2, 3, 3, 4] := by decide

/-- the reference really is "first fill neighbour above": characterisation of `etreeRef` -/
theorem etreeRef_spec (n : Nat) (adj : Nat → Nat → Bool) : IsEtree adj n (getN (etreeRef n adj)) :=
  etreeRef_isEtree n adj

/-- what `sp_colorder` feeds to TreePostorder (non-symmetric mode) is the column elimination tree of
`A·Pc` in the sense of the reference -/
theorem colorder_etree_ref (m n : Nat) (colptr rowind pc : Array Nat)
    (hrows : ∀ c, c < n → ∀ p, p ∈ colRange (viewBeg n colptr pc) (viewEnd n colptr pc) c → getN rowind p < m) :
    colorderEt0 m n colptr rowind pc false =
      etreeRef n (ataAdj (viewBeg n colptr pc) (viewEnd n colptr pc) rowind m) := by
  unfold colorderEt0
  simp only [Bool.false_eq_true, if_false]
  exact colEtree_eq_ref _ _ _ _ _ hrows

/-- **etree_reorder** — a renumbering of the vertices that numbers every vertex before its etree parent (any
topological order of the elimination tree, in particular a postorder) is an equivalent reordering: the
filled graph of the renumbered graph is the renumbered filled graph, and its elimination tree is the
renumbered elimination tree. -/
theorem etree_reorder {G G' : Nat → Nat → Bool} {n : Nat} {par q g : Nat → Nat} (R : Reorder G G' n par q g) :
    (∀ a b, a < n → b < n → fill G' n (q a) (q b) = fill G n a b) ∧
    IsEtree G' n (fun x => q (par (g x))) :=
  ⟨fun _ _ ha hb => R.fill_eq ha hb, R.isEtree⟩

/-- **colorder_final_etree** — non-symmetric mode, every pattern with row indices `< m`: the etree that
`sp_colorder` reports (after relabelling by the postorder) IS the column elimination tree of the FINAL
`A·Pc'` described by the returned view `colbeg/colend` — the reference etree (naive symbolic elimination)
of `(A·Pc')ᵀ(A·Pc')`. -/
theorem colorder_final_etree (m n : Nat) (colptr rowind pc et0 part0 : Array Nat)
    (hrows : ∀ c, c < n → ∀ p, p ∈ colRange (viewBeg n colptr pc) (viewEnd n colptr pc) c → getN rowind p < m) :
    (colorder m n colptr rowind pc false false et0 part0).etree =
      etreeRef n (ataAdj (colorder m n colptr rowind pc false false et0 part0).colbeg
                          (colorder m n colptr rowind pc false false et0 part0).colend rowind m) :=
  colorder_final_etree_ref m n colptr rowind pc et0 part0 hrows

example : ∀ c, c < 4 → ∀ p, p ∈ colRange (viewBeg 4 #[0, 2, 4, 5, 7] #[2, 0, 3, 1]) (viewEnd 4 #[0, 2, 4, 5, 7] #[2, 0, 3, 1]) c →
    getN #[0, 2, 1, 3, 2, 0, 3] p < 4 := by decide
example : (colorder 4 4 #[0, 2, 4, 5, 7] #[0, 2, 1, 3, 2, 0, 3] #[2, 0, 3, 1] false false #[] #[]).etree = #[1, 2, 3, 4] := by decide

/-! ## supernode partition -/

/-- **part_super_blocks** — the executable check applied to `part_super_h` holds exactly when the array
has length `n` and describes consecutive blocks `[k, k+part[k])` covering `0..n-1` (zeros inside);
in particular every column belongs to exactly one block whose leader carries the block size. -/
theorem part_super_blocks {n : Nat} {part : Array Nat} :
    checkPartSuper n part = true ↔ (part.size = n ∧ Blocks part n 0) := by
  unfold checkPartSuper
  simp only [Bool.and_eq_true, beq_iff_eq]
  constructor
  · rintro ⟨h1, h2⟩; exact ⟨h1, checkBlocksFrom_sound part n n 0 h2⟩
  · rintro ⟨h1, h2⟩; exact ⟨h1, checkBlocksFrom_complete part n n 0 (by omega) h2⟩

theorem part_super_cover {n : Nat} {part : Array Nat} (h : checkPartSuper n part = true) :
    ∀ j, j < n → ∃ b, b ≤ j ∧ 1 ≤ getN part b ∧ j < b + getN part b ∧ b + getN part b ≤ n ∧
      ∀ i, b < i → i ≤ j → getN part i = 0 := by
  intro j hj
  obtain ⟨b, _, h2, h3⟩ := (part_super_blocks.1 h).2.cover j (Nat.zero_le _) hj
  exact ⟨b, h2, h3⟩

/-- **part_super_model** — for every input (any perm_c, any pattern, both modes) the `part_super_h` computed by
the model of the first pass of `qrnzcnt` / of `cholnzcnt` inside `sp_colorder` passes the block check,
i.e. describes consecutive blocks covering `0..n-1`. -/
theorem part_super_model (m n : Nat) (colptr rowind pc : Array Nat) (symm : Bool) (et0 part0 : Array Nat) :
    checkPartSuper n (colorder m n colptr rowind pc symm false et0 part0).part = true ∧
    Blocks (colorder m n colptr rowind pc symm false et0 part0).part n 0 := by
  have h := colorder_part_blocks m n colptr rowind pc symm et0 part0
  exact ⟨h, (part_super_blocks.1 h).2⟩

example : (colorder 4 4 #[0, 2, 4, 5, 7] #[0, 2, 1, 3, 2, 0, 3] #[2, 0, 3, 1] false false #[] #[]).part
    = #[1, 1, 2, 0] := by decide

example : checkPartSuper 4 #[1, 1, 2, 0] = true := by decide
example : checkPartSuper 4 #[1, 2, 2, 0] = false := by decide

end Slu.Pre
