/-
C08 — call histories at the model level.  State: the matrix values and factors of the last factor
call.  Ops: (re)factor with new values / threshold / pivot-reuse request, and solve with the existing
factors.  For EVERY finite history, after every op the stored factors are an exact factorization of the
values that were current at the last factor op, with a valid row permutation — whatever the previous
pivots, thresholds and reuse flags were (`hist_correct`); solves never change the state (`solve_readonly`).
Pivot reuse itself is `pivot_usepr_kept` (Props/C02.lean): an admissible old pivot is taken again.
-/
import SluVerif.Props.LU

namespace Slu

inductive HOp where
  | factor (A : QArr) (u : Rat) (usepr : Bool)     -- values current at this call
  | solve

structure HState where
  n : Nat
  diagOf : Nat → Int
  cur : Option (LUParams × LUState)

/-- previous row order as `inv_perm_r`, handed to the next factorization when reuse is requested -/
def oldInvOf (s : HState) : Nat → Int := fun j =>
  match s.cur with
  | some (_, st) => (st.piv.getD j 0 : Int)
  | none => 0

def hstep (s : HState) : HOp → HState
  | .factor A u usepr =>
    let P : LUParams := { n := s.n, A := A, u := u, diagOf := s.diagOf, oldInv := oldInvOf s }
    { s with cur := some (P, factor P usepr) }
  | .solve => s

def hrun (s : HState) (ops : List HOp) : HState := ops.foldl hstep s

/-- what must hold of the stored factors -/
def HGood (s : HState) : Prop :=
  ∀ P st, s.cur = some (P, st) → P.n = s.n ∧
    (∀ i j, i < P.n → j < P.n → getQ P.A i j = sumQ P.n (fun t => getQ st.ell i t * getQ st.uu t j)) ∧
    IsPerm P.n (permROf P.n st)

theorem hstep_good (s : HState) (op : HOp) (h : HGood s) : HGood (hstep s op) := by
  cases op with
  | solve => exact h
  | factor A u usepr =>
    intro P st hc
    simp only [hstep, Option.some.injEq, Prod.mk.injEq] at hc
    obtain ⟨rfl, rfl⟩ := hc
    exact ⟨rfl, fun i j hi hj => factor_identity _ usepr i j hi hj, factor_permR_isPerm _ usepr⟩

/-- **correct at every call of any history** -/
theorem hist_correct (s : HState) (ops : List HOp) (h : HGood s) : HGood (hrun s ops) := by
  induction ops generalizing s with
  | nil => exact h
  | cons op ops ih => exact ih (hstep s op) (hstep_good s op h)

theorem hist_correct_from_empty (n : Nat) (diagOf : Nat → Int) (ops : List HOp) :
    HGood (hrun { n := n, diagOf := diagOf, cur := none } ops) :=
  hist_correct _ ops (by intro P st hc; cases hc)

/-- solves with existing factors leave the factors, the values and the permutation untouched -/
theorem solve_readonly (s : HState) : hstep s .solve = s := rfl

/-- the values a factor op stores are the ones it was given (no stale values) -/
theorem factor_uses_current_values (s : HState) (A : QArr) (u : Rat) (usepr : Bool) :
    ∃ P st, (hstep s (.factor A u usepr)).cur = some (P, st) ∧ P.A = A ∧ st = factor P usepr :=
  ⟨_, _, rfl, rfl, rfl⟩

example : HGood (hrun { n := 2, diagOf := fun j => j, cur := none }
    [.factor #[#[2, 1], #[4, 5]] 1 false, .solve, .factor #[#[1, 3], #[2, 1]] (1/2) true]) :=
  hist_correct_from_empty _ _ _

end Slu
