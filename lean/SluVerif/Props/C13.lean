/-
C13 — refinement returns truthful backward errors and dominating forward bounds: property theorems over
Model/Rfs.lean (`?gsrfs`) and Model/Lacon.lean.
-/
import SluVerif.Proofs.RfsBasic
import SluVerif.Props.C12

namespace Slu
open Finset

/-! ## the refinement loop -/

/-- at most `ITMAX = 5` corrections per right-hand side, whatever the solve does -/
theorem rfs_terminates (A : NCMat) (c : RfsCfg) (solve : Trans → RVec → RVec) (b x : RVec) (lstres : Rat) (count : Nat)
    (h : count ≤ rfsItmax) :
    count ≤ (refineLoop A c solve b x lstres count).count ∧ (refineLoop A c solve b x lstres count).count ≤ rfsItmax := by
  fun_induction refineLoop A c solve b x lstres count with
  | case1 x lstres count r berr hcond ih =>
    have := ih (by omega)
    omega
  | case2 x lstres count r berr hcond => exact ⟨le_refl _, h⟩

/-- On EVERY exit path (berr ≤ eps, not halved, or count = ITMAX) the returned `berr` is the guarded
componentwise backward error ω of the `x` that is returned, and the residual kept in `work` (from which the
forward bound is formed) is the residual of that same `x`: the residual is recomputed after each correction
and `x` is not touched after the last evaluation.  No assumption on `solve`. -/
theorem berr_of_returned_x (A : NCMat) (c : RfsCfg) (solve : Trans → RVec → RVec) (b x : RVec) (lstres : Rat) (count : Nat) :
    (refineLoop A c solve b x lstres count).berr = omega A c b (refineLoop A c solve b x lstres count).x ∧
    (refineLoop A c solve b x lstres count).r = residual c.notran A b (refineLoop A c solve b x lstres count).x := by
  fun_induction refineLoop A c solve b x lstres count with
  | case1 x lstres count r berr hcond ih => exact ih
  | case2 x lstres count r berr hcond => exact ⟨rfl, rfl⟩

/-- the same, for what `?gsrfs` hands back column by column -/
theorem gsrfs_berr_truthful (A : NCMat) (c : RfsCfg) (solve : Trans → RVec → RVec) (B X : List RVec)
    (hn : A.nrow ≠ 0) (hB : B.length ≠ 0) :
    (gsrfs A c solve B X).berr = (B.zip X).map (fun bx => omega A c bx.1 (rfsColumn A c solve bx.1 bx.2).x) ∧
    (gsrfs A c solve B X).cols = (B.zip X).map (fun bx => rfsColumn A c solve bx.1 bx.2) := by
  unfold gsrfs
  simp only [hn, hB, or_self, if_false, List.map_map, and_true]
  apply List.map_congr_left
  intro bx _
  simp only [Function.comp, rfsColumn]
  exact (berr_of_returned_x A c solve bx.1 bx.2 3 0).1

/-- a start vector that already solves the system exactly: zero corrections, berr = ω = 0 path exists -/
example : (refineLoop { nrow := 1, ncol := 1, cols := #[#[(0, 2)]] }
    { trans := .NOTRANS, rowequ := false, colequ := false, R := #[1], C := #[1], eps := 1 / 1024, safmin := 1 / 2 ^ 40 }
    (fun _ r => rmk 1 fun i => rget r i / 2) #[6] #[3] 3 0).count = 0 := by decide +kernel

/-- a perturbed start vector: exactly one correction, then berr = 0 -/
example : (refineLoop { nrow := 1, ncol := 1, cols := #[#[(0, 2)]] }
    { trans := .NOTRANS, rowequ := false, colequ := false, R := #[1], C := #[1], eps := 1 / 1024, safmin := 1 / 2 ^ 40 }
    (fun _ r => rmk 1 fun i => rget r i / 2) #[6] #[4] 3 0).count = 1 ∧
    (refineLoop { nrow := 1, ncol := 1, cols := #[#[(0, 2)]] }
    { trans := .NOTRANS, rowequ := false, colequ := false, R := #[1], C := #[1], eps := 1 / 1024, safmin := 1 / 2 ^ 40 }
    (fun _ r => rmk 1 fun i => rget r i / 2) #[6] #[4] 3 0).berr = 0 := by decide +kernel

/-! ## transpose sense -/

/-- Residual, `|op(A)||x|` and the correction solve refer to the same `op`: `op = A` for `NOTRANS`, `Aᵀ`
otherwise (the flag `notran`), the correction calls `solve trans`, the estimator's `kase = 1` request uses
the opposite sense `transt`; and if `solve trans` is an exact solve for the operator the residual uses, one
correction annihilates the residual (this fails as soon as the two senses differ). -/
theorem rfs_transpose_sense (A : NCMat) (c : RfsCfg) (solve : Trans → RVec → RVec) (b x : RVec)
    (hsq : A.ncol = A.nrow) (hrows : A.rowsOk)
    (hsolve : ∀ r i, i < A.nrow → opMul c.notran A (solve c.trans r) i = rget r i) :
    (c.notran = true ↔ c.trans = .NOTRANS) ∧
    (c.transt = if c.trans = .NOTRANS then .TRANS else .NOTRANS) ∧
    (∀ i, i < A.nrow →
      rget (residual c.notran A b (vadd A.nrow x (solve c.trans (residual c.notran A b x)))) i = 0) := by
  refine ⟨?_, ?_, ?_⟩
  · unfold RfsCfg.notran; cases c.trans <;> simp
  · unfold RfsCfg.transt RfsCfg.notran; cases c.trans <;> simp
  · intro i hi
    unfold residual
    rw [rget_rmk_lt _ hi, opMul_vadd c.notran A hsq hrows x _ i hi, hsolve _ i hi, rget_rmk_lt _ hi]
    ring

example : (RfsCfg.transt { trans := .CONJ, rowequ := false, colequ := false, R := #[], C := #[], eps := 0, safmin := 0 }) = .NOTRANS := by
  decide

/-! ## the forward bound -/

/-- the matrix whose 1-norm the estimator is asked for: `T i j = W_i · Bop j i · D_j`, i.e. `Tᵀ = D·Bop·diag(W)` -/
def ferrT (n : Nat) (c : RfsCfg) (Bop : Nat → Nat → Rat) (w : RVec) : Nat → Nat → Rat :=
  fun i j => rget w i * Bop j i * rget (dVec n c) j

theorem rget_vmul {n : Nat} (w x : RVec) {i : Nat} (h : i < n) : rget (vmul n w x) i = rget w i * rget x i := by
  unfold vmul; rw [rget_rmk_lt _ h]

/-- With exact solves (`solve trans = Bop·`, `solve transt = Bopᵀ·`, `Bop = op(A)⁻¹`) the dialogue's `kase = 1`
operator is `T·` and its `kase = 2` operator is `Tᵀ·` with `Tᵀ = D·op(A)⁻¹·diag(W)`; `D = C`, `R` or `I`
according to `(notran, colequ, rowequ)`. -/
theorem ferr_operator (n : Nat) (c : RfsCfg) (solve : Trans → RVec → RVec) (Bop : Nat → Nat → Rat) (w : RVec)
    (h1 : solve c.trans = matVec n Bop) (h2 : solve c.transt = matVecT n Bop) :
    ferrOp1 n c solve w = matVec n (ferrT n c Bop w) ∧ ferrOp2 n c solve w = matVecT n (ferrT n c Bop w) := by
  constructor
  · funext x
    unfold ferrOp1 matVec
    rw [h2]; unfold matVecT vmul
    apply rmk_congr; intro i hi
    rw [rget_rmk_lt _ hi, rsum_eq, rsum_eq, Finset.mul_sum]
    apply Finset.sum_congr rfl; intro j hj
    rw [rget_rmk_lt _ (mem_range.mp hj)]; unfold ferrT; ring
  · funext x
    unfold ferrOp2 matVecT
    rw [h1]; unfold matVec vmul
    apply rmk_congr; intro j hj
    rw [rget_rmk_lt _ hj, rsum_eq, rsum_eq, Finset.mul_sum]
    apply Finset.sum_congr rfl; intro i hi
    rw [rget_rmk_lt _ (mem_range.mp hi)]; unfold ferrT; ring

/-- hence (by `lacon_upper`) the returned `ferr` is at most `‖D·|op(A)⁻¹|·W‖∞ / ‖D·x‖∞` — the estimator never
exceeds the quantity that dominates the forward error in the standard model -/
theorem ferr_le_bound (A : NCMat) (hn : 1 ≤ A.nrow) (c : RfsCfg) (solve : Trans → RVec → RVec) (Bop : Nat → Nat → Rat) (b x0 : RVec)
    (h1 : solve c.trans = matVec A.nrow Bop) (h2 : solve c.transt = matVecT A.nrow Bop)
    (hx : 0 < xNormD A.nrow c (rfsColumn A c solve b x0).x) :
    (rfsColumn A c solve b x0).ferr
      ≤ normInf A.nrow (trD (ferrT A.nrow c Bop (rfsColumn A c solve b x0).w)) / xNormD A.nrow c (rfsColumn A c solve b x0).x := by
  have hop := ferr_operator A.nrow c solve Bop (rfsColumn A c solve b x0).w h1 h2
  have hne : xNormD A.nrow c (rfsColumn A c solve b x0).x ≠ 0 := ne_of_gt hx
  have hf : (rfsColumn A c solve b x0).ferr
      = (runLacon A.nrow (ferrOp1 A.nrow c solve (rfsColumn A c solve b x0).w) (ferrOp2 A.nrow c solve (rfsColumn A c solve b x0).w)).io.est
          / xNormD A.nrow c (rfsColumn A c solve b x0).x := by
    have hne' : xNormD A.nrow c (refineLoop A c solve b x0 3 0).x ≠ 0 := hne
    simp only [rfsColumn, hne', ne_eq, not_false_eq_true, if_true]
  rw [hf, hop.1, hop.2, normInf_trD]
  exact div_le_div_of_nonneg_right (lacon_upper A.nrow hn _ _) (le_of_lt hx)

/-! ## quick returns -/

/-- `n = 0` or `nrhs = 0`: every `ferr[j] = berr[j] = 0`, nothing else is done -/
theorem quick_return (A : NCMat) (c : RfsCfg) (solve : Trans → RVec → RVec) (B X : List RVec)
    (h : A.nrow = 0 ∨ B.length = 0) :
    (gsrfs A c solve B X).ferr = List.replicate B.length 0 ∧ (gsrfs A c solve B X).berr = List.replicate B.length 0 ∧
    (gsrfs A c solve B X).cols = [] ∧ (gsrfs A c solve B X).info = 0 := by
  unfold gsrfs
  simp only [h, if_true, and_true]
  constructor <;> exact List.map_const'

example : (gsrfs { nrow := 0, ncol := 0, cols := #[] } default (fun _ r => r) [#[], #[]] [#[], #[]]).berr = [0, 0] := by
  decide +kernel

end Slu
