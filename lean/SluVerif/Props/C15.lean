/- Property C15 — illegal arguments yield info = −i for the first offender (documented position) and the
   argument check precedes every effect.  Theorems about the GENERATED chains (Gen/ArgCheck.lean, re-derived from
   /repo/SRC on every run) against the hand-transcribed documented tables (Model/ArgDoc.lean).

   For every routine R (8 families x 4 precisions):
   * `R_first_offender`            ∀ a, RCheck a = docInfo a                    (families without deviation)
   * `R_first_offender_partial`    the same under the stated exclusion           (families that deviate), with
     `R_code_table` (what the code reports for EVERY record) and concrete counter-example lemmas;
   * `R_accepts_valid`             no documented requirement violated ⇒ RCheck a = 0;
   * `<family>_precedes_effects`   the list of caller-visible stores that precede the error return, as extracted by
                                   the translator, is what is stated here (empty, except p?gssvx);
   * `<family>_xerbla_names`       the name handed to xerbla_.
   All quantifiers range over ALL argument records (fields are unbounded integers); proofs are by unfolding the
   generated definition and linear arithmetic per test (`chain_step`), so a changed constant, a reordered or a
   dropped test in /repo/SRC changes the generated definition and the proof no longer compiles. -/
import SluVerif.Proofs.ArgCoded
namespace Slu.C15
open Slu.Arg Slu.Gen Slu.Doc Slu.ArgLemmas Slu

/-! ### generic facts about tables (what "first offender" means) -/

/-- a reported `-i` is a violated entry of the table and no entry listed before it is violated -/
theorem table_first_offender (t : List (Nat × Bool)) (i : Nat) (hi : 0 < i) (h : firstOffender t = -(i : Int)) :
    ∃ pre post, t = pre ++ (i, true) :: post ∧ ∀ p ∈ pre, p.2 = false :=
  firstOffender_first t i hi h
example : firstOffender [(1, false), (2, true), (3, true)] = -2 := by decide

/-- `0` is reported exactly when no entry is violated (positions are ≥ 1) -/
theorem table_zero_iff (t : List (Nat × Bool)) (hpos : ∀ p ∈ t, 0 < p.1) : firstOffender t = 0 ↔ allValid t = true :=
  ⟨allValid_of_firstOffender t hpos, firstOffender_of_allValid t⟩
example : firstOffender [(1, false), (7, false)] = 0 := by decide

/-- the documented tables list their positions in increasing order, so "first in the table" = "least position" -/
theorem tables_sorted (dt : Int) :
    (∀ a, (gssv.table dt a).map (·.1) = [1, 2, 3, 4, 5, 6, 7]) ∧
    (∀ a, (gssvx.table dt a).map (·.1) = [1, 2, 3, 4, 5, 6, 7, 8, 9, 10, 11, 12, 13, 14, 15, 16, 17]) ∧
    (∀ dc a, (gstrs.table dc dt a).map (·.1) = [1, 2, 3, 4, 5, 6, 7]) ∧
    (∀ a, (gsrfs.table dt a).map (·.1) = [1, 2, 3, 4, 5, 6, 7, 8, 9, 10, 11, 12, 13, 14]) ∧
    (∀ a, (gscon.table dt a).map (·.1) = [1, 2, 3, 4, 5]) ∧
    (∀ a, (gsequ.table dt a).map (·.1) = [1, 2, 3, 4, 5, 6]) ∧
    (∀ a, (trsv.table dt a).map (·.1) = [1, 2, 3, 4, 5, 6]) ∧
    (∀ a, (gemv.table dt a).map (·.1) = [1, 2, 3, 4, 5, 6, 7, 8]) :=
  ⟨fun _ => rfl, fun _ => rfl, fun _ _ => rfl, fun _ => rfl, fun _ => rfl, fun _ => rfl, fun _ => rfl, fun _ => rfl⟩

/-! ### p?gssv — deviation: the documented types of B (position 7) are never tested -/

theorem pdgssv_code_table (a : GssvArgs) : pdgssvCheck a = firstOffender (Coded.gssv SLU_D a) := by
  simp only [pdgssvCheck, pdgssvChain, Coded.gssv, gssv.violates_1, gssv.violates_2]
  table_norm; enum_unfold; chain_steps
theorem pdgssv_first_offender_partial (a : GssvArgs) (hB : a.B_Stype = SLU_DN ∧ a.B_Dtype = SLU_D ∧ a.B_Mtype = SLU_GE) :
    pdgssvCheck a = gssv.docInfo SLU_D a := by
  rw [pdgssv_code_table, Coded.gssv_eq_doc SLU_D a hB]
example : pdgssvCheck Witness.gssvBadA = gssv.docInfo SLU_D Witness.gssvBadA ∧ pdgssvCheck Witness.gssvBadA = -2 := by decide
theorem pdgssv_B_type_unchecked : gssv.docInfo SLU_D (Witness.gssvBadBtype SLU_D) = -7 ∧ pdgssvCheck (Witness.gssvBadBtype SLU_D) = 0 := by
  decide
theorem pdgssv_accepts_valid (a : GssvArgs) (h : gssv.valid SLU_D a = true) : pdgssvCheck a = 0 := by
  rw [pdgssv_first_offender_partial a (Coded.gssv_valid_types SLU_D a h)]
  exact firstOffender_of_allValid _ h
example : gssv.valid SLU_D (Witness.gssvOk SLU_D) = true ∧ pdgssvCheck (Witness.gssvOk SLU_D) = 0 := by decide

theorem psgssv_code_table (a : GssvArgs) : psgssvCheck a = firstOffender (Coded.gssv SLU_S a) := by
  simp only [psgssvCheck, psgssvChain, Coded.gssv, gssv.violates_1, gssv.violates_2]
  table_norm; enum_unfold; chain_steps
theorem psgssv_first_offender_partial (a : GssvArgs) (hB : a.B_Stype = SLU_DN ∧ a.B_Dtype = SLU_S ∧ a.B_Mtype = SLU_GE) :
    psgssvCheck a = gssv.docInfo SLU_S a := by
  rw [psgssv_code_table, Coded.gssv_eq_doc SLU_S a hB]
example : psgssvCheck Witness.gssvBadA = gssv.docInfo SLU_S Witness.gssvBadA ∧ psgssvCheck Witness.gssvBadA = -2 := by decide
theorem psgssv_B_type_unchecked : gssv.docInfo SLU_S (Witness.gssvBadBtype SLU_S) = -7 ∧ psgssvCheck (Witness.gssvBadBtype SLU_S) = 0 := by
  decide
theorem psgssv_accepts_valid (a : GssvArgs) (h : gssv.valid SLU_S a = true) : psgssvCheck a = 0 := by
  rw [psgssv_first_offender_partial a (Coded.gssv_valid_types SLU_S a h)]
  exact firstOffender_of_allValid _ h
example : gssv.valid SLU_S (Witness.gssvOk SLU_S) = true ∧ psgssvCheck (Witness.gssvOk SLU_S) = 0 := by decide

theorem pcgssv_code_table (a : GssvArgs) : pcgssvCheck a = firstOffender (Coded.gssv SLU_C a) := by
  simp only [pcgssvCheck, pcgssvChain, Coded.gssv, gssv.violates_1, gssv.violates_2]
  table_norm; enum_unfold; chain_steps
theorem pcgssv_first_offender_partial (a : GssvArgs) (hB : a.B_Stype = SLU_DN ∧ a.B_Dtype = SLU_C ∧ a.B_Mtype = SLU_GE) :
    pcgssvCheck a = gssv.docInfo SLU_C a := by
  rw [pcgssv_code_table, Coded.gssv_eq_doc SLU_C a hB]
example : pcgssvCheck Witness.gssvBadA = gssv.docInfo SLU_C Witness.gssvBadA ∧ pcgssvCheck Witness.gssvBadA = -2 := by decide
theorem pcgssv_B_type_unchecked : gssv.docInfo SLU_C (Witness.gssvBadBtype SLU_C) = -7 ∧ pcgssvCheck (Witness.gssvBadBtype SLU_C) = 0 := by
  decide
theorem pcgssv_accepts_valid (a : GssvArgs) (h : gssv.valid SLU_C a = true) : pcgssvCheck a = 0 := by
  rw [pcgssv_first_offender_partial a (Coded.gssv_valid_types SLU_C a h)]
  exact firstOffender_of_allValid _ h
example : gssv.valid SLU_C (Witness.gssvOk SLU_C) = true ∧ pcgssvCheck (Witness.gssvOk SLU_C) = 0 := by decide

theorem pzgssv_code_table (a : GssvArgs) : pzgssvCheck a = firstOffender (Coded.gssv SLU_Z a) := by
  simp only [pzgssvCheck, pzgssvChain, Coded.gssv, gssv.violates_1, gssv.violates_2]
  table_norm; enum_unfold; chain_steps
theorem pzgssv_first_offender_partial (a : GssvArgs) (hB : a.B_Stype = SLU_DN ∧ a.B_Dtype = SLU_Z ∧ a.B_Mtype = SLU_GE) :
    pzgssvCheck a = gssv.docInfo SLU_Z a := by
  rw [pzgssv_code_table, Coded.gssv_eq_doc SLU_Z a hB]
example : pzgssvCheck Witness.gssvBadA = gssv.docInfo SLU_Z Witness.gssvBadA ∧ pzgssvCheck Witness.gssvBadA = -2 := by decide
theorem pzgssv_B_type_unchecked : gssv.docInfo SLU_Z (Witness.gssvBadBtype SLU_Z) = -7 ∧ pzgssvCheck (Witness.gssvBadBtype SLU_Z) = 0 := by
  decide
theorem pzgssv_accepts_valid (a : GssvArgs) (h : gssv.valid SLU_Z a = true) : pzgssvCheck a = 0 := by
  rw [pzgssv_first_offender_partial a (Coded.gssv_valid_types SLU_Z a h)]
  exact firstOffender_of_allValid _ h
example : gssv.valid SLU_Z (Witness.gssvOk SLU_Z) = true ∧ pzgssvCheck (Witness.gssvOk SLU_Z) = 0 := by decide

/-! ### p?gssvx — no deviation (superlumt_options = argument 2; `C[j]` is scanned over A->nrow, which equals
    A->ncol whenever that test is reached) -/

theorem pdgssvx_rowequ_iff (a : GssvxArgs) : pdgssvx_rowequ a ↔
    (¬(a.superlumt_options_fact = DOFACT ∨ a.superlumt_options_fact = EQUILIBRATE) ∧ (a.equed = ROW ∨ a.equed = BOTH)) := by
  unfold pdgssvx_rowequ; exact ite_False_left _ _
theorem pdgssvx_colequ_iff (a : GssvxArgs) : pdgssvx_colequ a ↔
    (¬(a.superlumt_options_fact = DOFACT ∨ a.superlumt_options_fact = EQUILIBRATE) ∧ (a.equed = COL ∨ a.equed = BOTH)) := by
  unfold pdgssvx_colequ; exact ite_False_left _ _
theorem pdgssvx_info2_eq (a : GssvxArgs) (hb : 0 < a.bignum) : pdgssvx_info2 a =
    if pdgssvx_rowequ a ∧ someNonPos a.R a.A_nrow = true then -7
    else if pdgssvx_colequ a ∧ someNonPos a.C a.A_nrow = true then -8 else 0 := by
  simp only [pdgssvx_info2, pdgssvx_info1, loopMin_le _ _ _ hb]
  by_cases h1 : pdgssvx_rowequ a <;> by_cases h2 : someNonPos a.R a.A_nrow = true <;>
  by_cases h3 : pdgssvx_colequ a <;> by_cases h4 : someNonPos a.C a.A_nrow = true <;> simp [h1, h2, h3, h4]
/-- `bignum = 1/?lamch("Safe minimum")` is positive: the only fact about it that the chain uses -/
theorem pdgssvx_first_offender (a : GssvxArgs) (hb : 0 < a.bignum) : pdgssvxCheck a = gssvx.docInfo SLU_D a := by
  simp only [pdgssvxCheck, pdgssvxChain, pdgssvx_info2_eq a hb, gssvx_tail, pdgssvx_rowequ_iff, pdgssvx_colequ_iff,
      gssvx.docInfo, gssvx.table, gssvx.violates_1, gssvx.violates_2, gssvx.violates_3, gssvx.violates_6,
      gssvx.violates_7, gssvx.violates_8, gssvx.violates_11, gssvx.violates_12]
  table_norm; enum_unfold
  chain_step; chain_step; chain_step
  have hsq : a.A_nrow = a.A_ncol := by omega
  rw [← hsq]
  chain_step
  generalize someNonPos a.R a.A_nrow = r
  generalize someNonPos a.C a.A_nrow = c
  cases r <;> cases c <;> simp only [Bool.false_eq_true, and_false, and_true, ↓reduceIte] <;> chain_steps
example : pdgssvxCheck (Witness.gssvxBadR SLU_D) = -7 ∧ gssvx.docInfo SLU_D (Witness.gssvxBadR SLU_D) = -7 := by decide
theorem pdgssvx_accepts_valid (a : GssvxArgs) (hb : 0 < a.bignum) (h : gssvx.valid SLU_D a = true) : pdgssvxCheck a = 0 := by
  rw [pdgssvx_first_offender a hb]; exact firstOffender_of_allValid _ h
example : gssvx.valid SLU_D (Witness.gssvxOk SLU_D) = true ∧ pdgssvxCheck (Witness.gssvxOk SLU_D) = 0 := by decide

theorem psgssvx_rowequ_iff (a : GssvxArgs) : psgssvx_rowequ a ↔
    (¬(a.superlumt_options_fact = DOFACT ∨ a.superlumt_options_fact = EQUILIBRATE) ∧ (a.equed = ROW ∨ a.equed = BOTH)) := by
  unfold psgssvx_rowequ; exact ite_False_left _ _
theorem psgssvx_colequ_iff (a : GssvxArgs) : psgssvx_colequ a ↔
    (¬(a.superlumt_options_fact = DOFACT ∨ a.superlumt_options_fact = EQUILIBRATE) ∧ (a.equed = COL ∨ a.equed = BOTH)) := by
  unfold psgssvx_colequ; exact ite_False_left _ _
theorem psgssvx_info2_eq (a : GssvxArgs) (hb : 0 < a.bignum) : psgssvx_info2 a =
    if psgssvx_rowequ a ∧ someNonPos a.R a.A_nrow = true then -7
    else if psgssvx_colequ a ∧ someNonPos a.C a.A_nrow = true then -8 else 0 := by
  simp only [psgssvx_info2, psgssvx_info1, loopMin_le _ _ _ hb]
  by_cases h1 : psgssvx_rowequ a <;> by_cases h2 : someNonPos a.R a.A_nrow = true <;>
  by_cases h3 : psgssvx_colequ a <;> by_cases h4 : someNonPos a.C a.A_nrow = true <;> simp [h1, h2, h3, h4]
/-- `bignum = 1/?lamch("Safe minimum")` is positive: the only fact about it that the chain uses -/
theorem psgssvx_first_offender (a : GssvxArgs) (hb : 0 < a.bignum) : psgssvxCheck a = gssvx.docInfo SLU_S a := by
  simp only [psgssvxCheck, psgssvxChain, psgssvx_info2_eq a hb, gssvx_tail, psgssvx_rowequ_iff, psgssvx_colequ_iff,
      gssvx.docInfo, gssvx.table, gssvx.violates_1, gssvx.violates_2, gssvx.violates_3, gssvx.violates_6,
      gssvx.violates_7, gssvx.violates_8, gssvx.violates_11, gssvx.violates_12]
  table_norm; enum_unfold
  chain_step; chain_step; chain_step
  have hsq : a.A_nrow = a.A_ncol := by omega
  rw [← hsq]
  chain_step
  generalize someNonPos a.R a.A_nrow = r
  generalize someNonPos a.C a.A_nrow = c
  cases r <;> cases c <;> simp only [Bool.false_eq_true, and_false, and_true, ↓reduceIte] <;> chain_steps
example : psgssvxCheck (Witness.gssvxBadR SLU_S) = -7 ∧ gssvx.docInfo SLU_S (Witness.gssvxBadR SLU_S) = -7 := by decide
theorem psgssvx_accepts_valid (a : GssvxArgs) (hb : 0 < a.bignum) (h : gssvx.valid SLU_S a = true) : psgssvxCheck a = 0 := by
  rw [psgssvx_first_offender a hb]; exact firstOffender_of_allValid _ h
example : gssvx.valid SLU_S (Witness.gssvxOk SLU_S) = true ∧ psgssvxCheck (Witness.gssvxOk SLU_S) = 0 := by decide

theorem pcgssvx_rowequ_iff (a : GssvxArgs) : pcgssvx_rowequ a ↔
    (¬(a.superlumt_options_fact = DOFACT ∨ a.superlumt_options_fact = EQUILIBRATE) ∧ (a.equed = ROW ∨ a.equed = BOTH)) := by
  unfold pcgssvx_rowequ; exact ite_False_left _ _
theorem pcgssvx_colequ_iff (a : GssvxArgs) : pcgssvx_colequ a ↔
    (¬(a.superlumt_options_fact = DOFACT ∨ a.superlumt_options_fact = EQUILIBRATE) ∧ (a.equed = COL ∨ a.equed = BOTH)) := by
  unfold pcgssvx_colequ; exact ite_False_left _ _
theorem pcgssvx_info2_eq (a : GssvxArgs) (hb : 0 < a.bignum) : pcgssvx_info2 a =
    if pcgssvx_rowequ a ∧ someNonPos a.R a.A_nrow = true then -7
    else if pcgssvx_colequ a ∧ someNonPos a.C a.A_nrow = true then -8 else 0 := by
  simp only [pcgssvx_info2, pcgssvx_info1, loopMin_le _ _ _ hb]
  by_cases h1 : pcgssvx_rowequ a <;> by_cases h2 : someNonPos a.R a.A_nrow = true <;>
  by_cases h3 : pcgssvx_colequ a <;> by_cases h4 : someNonPos a.C a.A_nrow = true <;> simp [h1, h2, h3, h4]
/-- `bignum = 1/?lamch("Safe minimum")` is positive: the only fact about it that the chain uses -/
theorem pcgssvx_first_offender (a : GssvxArgs) (hb : 0 < a.bignum) : pcgssvxCheck a = gssvx.docInfo SLU_C a := by
  simp only [pcgssvxCheck, pcgssvxChain, pcgssvx_info2_eq a hb, gssvx_tail, pcgssvx_rowequ_iff, pcgssvx_colequ_iff,
      gssvx.docInfo, gssvx.table, gssvx.violates_1, gssvx.violates_2, gssvx.violates_3, gssvx.violates_6,
      gssvx.violates_7, gssvx.violates_8, gssvx.violates_11, gssvx.violates_12]
  table_norm; enum_unfold
  chain_step; chain_step; chain_step
  have hsq : a.A_nrow = a.A_ncol := by omega
  rw [← hsq]
  chain_step
  generalize someNonPos a.R a.A_nrow = r
  generalize someNonPos a.C a.A_nrow = c
  cases r <;> cases c <;> simp only [Bool.false_eq_true, and_false, and_true, ↓reduceIte] <;> chain_steps
example : pcgssvxCheck (Witness.gssvxBadR SLU_C) = -7 ∧ gssvx.docInfo SLU_C (Witness.gssvxBadR SLU_C) = -7 := by decide
theorem pcgssvx_accepts_valid (a : GssvxArgs) (hb : 0 < a.bignum) (h : gssvx.valid SLU_C a = true) : pcgssvxCheck a = 0 := by
  rw [pcgssvx_first_offender a hb]; exact firstOffender_of_allValid _ h
example : gssvx.valid SLU_C (Witness.gssvxOk SLU_C) = true ∧ pcgssvxCheck (Witness.gssvxOk SLU_C) = 0 := by decide

theorem pzgssvx_rowequ_iff (a : GssvxArgs) : pzgssvx_rowequ a ↔
    (¬(a.superlumt_options_fact = DOFACT ∨ a.superlumt_options_fact = EQUILIBRATE) ∧ (a.equed = ROW ∨ a.equed = BOTH)) := by
  unfold pzgssvx_rowequ; exact ite_False_left _ _
theorem pzgssvx_colequ_iff (a : GssvxArgs) : pzgssvx_colequ a ↔
    (¬(a.superlumt_options_fact = DOFACT ∨ a.superlumt_options_fact = EQUILIBRATE) ∧ (a.equed = COL ∨ a.equed = BOTH)) := by
  unfold pzgssvx_colequ; exact ite_False_left _ _
theorem pzgssvx_info2_eq (a : GssvxArgs) (hb : 0 < a.bignum) : pzgssvx_info2 a =
    if pzgssvx_rowequ a ∧ someNonPos a.R a.A_nrow = true then -7
    else if pzgssvx_colequ a ∧ someNonPos a.C a.A_nrow = true then -8 else 0 := by
  simp only [pzgssvx_info2, pzgssvx_info1, loopMin_le _ _ _ hb]
  by_cases h1 : pzgssvx_rowequ a <;> by_cases h2 : someNonPos a.R a.A_nrow = true <;>
  by_cases h3 : pzgssvx_colequ a <;> by_cases h4 : someNonPos a.C a.A_nrow = true <;> simp [h1, h2, h3, h4]
/-- `bignum = 1/?lamch("Safe minimum")` is positive: the only fact about it that the chain uses -/
theorem pzgssvx_first_offender (a : GssvxArgs) (hb : 0 < a.bignum) : pzgssvxCheck a = gssvx.docInfo SLU_Z a := by
  simp only [pzgssvxCheck, pzgssvxChain, pzgssvx_info2_eq a hb, gssvx_tail, pzgssvx_rowequ_iff, pzgssvx_colequ_iff,
      gssvx.docInfo, gssvx.table, gssvx.violates_1, gssvx.violates_2, gssvx.violates_3, gssvx.violates_6,
      gssvx.violates_7, gssvx.violates_8, gssvx.violates_11, gssvx.violates_12]
  table_norm; enum_unfold
  chain_step; chain_step; chain_step
  have hsq : a.A_nrow = a.A_ncol := by omega
  rw [← hsq]
  chain_step
  generalize someNonPos a.R a.A_nrow = r
  generalize someNonPos a.C a.A_nrow = c
  cases r <;> cases c <;> simp only [Bool.false_eq_true, and_false, and_true, ↓reduceIte] <;> chain_steps
example : pzgssvxCheck (Witness.gssvxBadR SLU_Z) = -7 ∧ gssvx.docInfo SLU_Z (Witness.gssvxBadR SLU_Z) = -7 := by decide
theorem pzgssvx_accepts_valid (a : GssvxArgs) (hb : 0 < a.bignum) (h : gssvx.valid SLU_Z a = true) : pzgssvxCheck a = 0 := by
  rw [pzgssvx_first_offender a hb]; exact firstOffender_of_allValid _ h
example : gssvx.valid SLU_Z (Witness.gssvxOk SLU_Z) = true ∧ pzgssvxCheck (Witness.gssvxOk SLU_Z) = 0 := by decide

/-! ### ?gstrs — deviations: a malformed L (argument 2) is reported as 3 and a malformed U (argument 3) as 4;
    the documented types of L, U, B are never tested; c/z accept CONJ, which their header does not list
    (s/d: documented and accepted since /repo 2acf694) -/

theorem dgstrs_code_table (a : GstrsArgs) : dgstrsCheck a = firstOffender (Coded.gstrs a) := by
  simp only [dgstrsCheck, dgstrsChain, Coded.gstrs, gstrs.shape_2, gstrs.shape_3, gstrs.shape_6]
  table_norm; enum_unfold; chain_steps
theorem dgstrs_first_offender_partial (a : GstrsArgs) (hx : Coded.gstrsExcl true SLU_D a) :
    dgstrsCheck a = gstrs.docInfo true SLU_D a := by
  rw [dgstrs_code_table, Coded.gstrs_eq_doc true SLU_D a hx]
example : Coded.gstrsExcl true SLU_D (Witness.gstrsBadLda SLU_D) ∧ dgstrsCheck (Witness.gstrsBadLda SLU_D) = -6 := by decide
theorem dgstrs_L_reported_as_3 : gstrs.docInfo true SLU_D (Witness.gstrsBadL SLU_D) = -2 ∧ dgstrsCheck (Witness.gstrsBadL SLU_D) = -3 := by decide
theorem dgstrs_U_reported_as_4 : gstrs.docInfo true SLU_D (Witness.gstrsBadU SLU_D) = -3 ∧ dgstrsCheck (Witness.gstrsBadU SLU_D) = -4 := by decide
theorem dgstrs_types_unchecked : gstrs.docInfo true SLU_D (Witness.gstrsBadLtype SLU_D) = -2 ∧ dgstrsCheck (Witness.gstrsBadLtype SLU_D) = 0 := by decide
theorem dgstrs_accepts_valid (a : GstrsArgs) (h : gstrs.valid true SLU_D a = true) : dgstrsCheck a = 0 := by
  rw [dgstrs_first_offender_partial a (Coded.gstrs_valid_excl true SLU_D a h)]
  exact firstOffender_of_allValid _ h
example : gstrs.valid true SLU_D (Witness.gstrsOk SLU_D) = true ∧ dgstrsCheck (Witness.gstrsOk SLU_D) = 0 := by decide

/-- real precision: CONJ is documented and accepted (no exclusion on `trans` is needed any more) -/
theorem dgstrs_conj_documented_and_accepted :
    gstrs.valid true SLU_D (Witness.gstrsConj SLU_D) = true ∧ dgstrsCheck (Witness.gstrsConj SLU_D) = 0 := by decide

theorem sgstrs_code_table (a : GstrsArgs) : sgstrsCheck a = firstOffender (Coded.gstrs a) := by
  simp only [sgstrsCheck, sgstrsChain, Coded.gstrs, gstrs.shape_2, gstrs.shape_3, gstrs.shape_6]
  table_norm; enum_unfold; chain_steps
theorem sgstrs_first_offender_partial (a : GstrsArgs) (hx : Coded.gstrsExcl true SLU_S a) :
    sgstrsCheck a = gstrs.docInfo true SLU_S a := by
  rw [sgstrs_code_table, Coded.gstrs_eq_doc true SLU_S a hx]
example : Coded.gstrsExcl true SLU_S (Witness.gstrsBadLda SLU_S) ∧ sgstrsCheck (Witness.gstrsBadLda SLU_S) = -6 := by decide
theorem sgstrs_L_reported_as_3 : gstrs.docInfo true SLU_S (Witness.gstrsBadL SLU_S) = -2 ∧ sgstrsCheck (Witness.gstrsBadL SLU_S) = -3 := by decide
theorem sgstrs_U_reported_as_4 : gstrs.docInfo true SLU_S (Witness.gstrsBadU SLU_S) = -3 ∧ sgstrsCheck (Witness.gstrsBadU SLU_S) = -4 := by decide
theorem sgstrs_types_unchecked : gstrs.docInfo true SLU_S (Witness.gstrsBadLtype SLU_S) = -2 ∧ sgstrsCheck (Witness.gstrsBadLtype SLU_S) = 0 := by decide
theorem sgstrs_accepts_valid (a : GstrsArgs) (h : gstrs.valid true SLU_S a = true) : sgstrsCheck a = 0 := by
  rw [sgstrs_first_offender_partial a (Coded.gstrs_valid_excl true SLU_S a h)]
  exact firstOffender_of_allValid _ h
example : gstrs.valid true SLU_S (Witness.gstrsOk SLU_S) = true ∧ sgstrsCheck (Witness.gstrsOk SLU_S) = 0 := by decide

/-- real precision: CONJ is documented and accepted (no exclusion on `trans` is needed any more) -/
theorem sgstrs_conj_documented_and_accepted :
    gstrs.valid true SLU_S (Witness.gstrsConj SLU_S) = true ∧ sgstrsCheck (Witness.gstrsConj SLU_S) = 0 := by decide

theorem cgstrs_code_table (a : GstrsArgs) : cgstrsCheck a = firstOffender (Coded.gstrs a) := by
  simp only [cgstrsCheck, cgstrsChain, Coded.gstrs, gstrs.shape_2, gstrs.shape_3, gstrs.shape_6]
  table_norm; enum_unfold; chain_steps
theorem cgstrs_first_offender_partial (a : GstrsArgs) (hx : Coded.gstrsExcl false SLU_C a) :
    cgstrsCheck a = gstrs.docInfo false SLU_C a := by
  rw [cgstrs_code_table, Coded.gstrs_eq_doc false SLU_C a hx]
example : Coded.gstrsExcl false SLU_C (Witness.gstrsBadLda SLU_C) ∧ cgstrsCheck (Witness.gstrsBadLda SLU_C) = -6 := by decide
theorem cgstrs_L_reported_as_3 : gstrs.docInfo false SLU_C (Witness.gstrsBadL SLU_C) = -2 ∧ cgstrsCheck (Witness.gstrsBadL SLU_C) = -3 := by decide
theorem cgstrs_U_reported_as_4 : gstrs.docInfo false SLU_C (Witness.gstrsBadU SLU_C) = -3 ∧ cgstrsCheck (Witness.gstrsBadU SLU_C) = -4 := by decide
theorem cgstrs_types_unchecked : gstrs.docInfo false SLU_C (Witness.gstrsBadLtype SLU_C) = -2 ∧ cgstrsCheck (Witness.gstrsBadLtype SLU_C) = 0 := by decide
theorem cgstrs_accepts_valid (a : GstrsArgs) (h : gstrs.valid false SLU_C a = true) : cgstrsCheck a = 0 := by
  rw [cgstrs_first_offender_partial a (Coded.gstrs_valid_excl false SLU_C a h)]
  exact firstOffender_of_allValid _ h
example : gstrs.valid false SLU_C (Witness.gstrsOk SLU_C) = true ∧ cgstrsCheck (Witness.gstrsOk SLU_C) = 0 := by decide

theorem cgstrs_conj_accepted : gstrs.docInfo false SLU_C (Witness.gstrsConj SLU_C) = -1 ∧ cgstrsCheck (Witness.gstrsConj SLU_C) = 0 := by decide

theorem zgstrs_code_table (a : GstrsArgs) : zgstrsCheck a = firstOffender (Coded.gstrs a) := by
  simp only [zgstrsCheck, zgstrsChain, Coded.gstrs, gstrs.shape_2, gstrs.shape_3, gstrs.shape_6]
  table_norm; enum_unfold; chain_steps
theorem zgstrs_first_offender_partial (a : GstrsArgs) (hx : Coded.gstrsExcl false SLU_Z a) :
    zgstrsCheck a = gstrs.docInfo false SLU_Z a := by
  rw [zgstrs_code_table, Coded.gstrs_eq_doc false SLU_Z a hx]
example : Coded.gstrsExcl false SLU_Z (Witness.gstrsBadLda SLU_Z) ∧ zgstrsCheck (Witness.gstrsBadLda SLU_Z) = -6 := by decide
theorem zgstrs_L_reported_as_3 : gstrs.docInfo false SLU_Z (Witness.gstrsBadL SLU_Z) = -2 ∧ zgstrsCheck (Witness.gstrsBadL SLU_Z) = -3 := by decide
theorem zgstrs_U_reported_as_4 : gstrs.docInfo false SLU_Z (Witness.gstrsBadU SLU_Z) = -3 ∧ zgstrsCheck (Witness.gstrsBadU SLU_Z) = -4 := by decide
theorem zgstrs_types_unchecked : gstrs.docInfo false SLU_Z (Witness.gstrsBadLtype SLU_Z) = -2 ∧ zgstrsCheck (Witness.gstrsBadLtype SLU_Z) = 0 := by decide
theorem zgstrs_accepts_valid (a : GstrsArgs) (h : gstrs.valid false SLU_Z a = true) : zgstrsCheck a = 0 := by
  rw [zgstrs_first_offender_partial a (Coded.gstrs_valid_excl false SLU_Z a h)]
  exact firstOffender_of_allValid _ h
example : gstrs.valid false SLU_Z (Witness.gstrsOk SLU_Z) = true ∧ zgstrsCheck (Witness.gstrsOk SLU_Z) = 0 := by decide

theorem zgstrs_conj_accepted : gstrs.docInfo false SLU_Z (Witness.gstrsConj SLU_Z) = -1 ∧ zgstrsCheck (Witness.gstrsConj SLU_Z) = 0 := by decide

/-! ### ?gsrfs — deviation: an illegal `equed` (argument 7) is never reported -/

theorem dgsrfs_first_offender_partial (a : GsrfsArgs) (h7 : gsrfs.violates_7 a = false) :
    dgsrfsCheck a = gsrfs.docInfo SLU_D a := by
  simp only [dgsrfsCheck, dgsrfsChain, gsrfs.docInfo, gsrfs.table, h7, gsrfs.violates_1, gsrfs.violates_2, gsrfs.violates_3,
    gsrfs.violates_4, gsrfs.violates_10, gsrfs.violates_11]
  table_norm; enum_unfold; chain_steps
theorem dgsrfs_code_table (a : GsrfsArgs) : dgsrfsCheck a = firstOffender (Coded.gsrfs SLU_D a) := by
  simp only [dgsrfsCheck, dgsrfsChain, Coded.gsrfs, gsrfs.violates_1, gsrfs.violates_2, gsrfs.violates_3,
    gsrfs.violates_4, gsrfs.violates_10, gsrfs.violates_11]
  table_norm; enum_unfold; chain_steps
example : gsrfs.violates_7 (Witness.gsrfsBadX SLU_D) = false ∧ dgsrfsCheck (Witness.gsrfsBadX SLU_D) = -11 := by decide
theorem dgsrfs_equed_unchecked : gsrfs.docInfo SLU_D (Witness.gsrfsBadEqued SLU_D) = -7 ∧ dgsrfsCheck (Witness.gsrfsBadEqued SLU_D) = 0 := by decide
theorem dgsrfs_accepts_valid (a : GsrfsArgs) (h : gsrfs.valid SLU_D a = true) : dgsrfsCheck a = 0 := by
  rw [dgsrfs_first_offender_partial a (Coded.gsrfs_valid_equed SLU_D a h)]
  exact firstOffender_of_allValid _ h
example : gsrfs.valid SLU_D (Witness.gsrfsOk SLU_D) = true ∧ dgsrfsCheck (Witness.gsrfsOk SLU_D) = 0 := by decide

theorem sgsrfs_first_offender_partial (a : GsrfsArgs) (h7 : gsrfs.violates_7 a = false) :
    sgsrfsCheck a = gsrfs.docInfo SLU_S a := by
  simp only [sgsrfsCheck, sgsrfsChain, gsrfs.docInfo, gsrfs.table, h7, gsrfs.violates_1, gsrfs.violates_2, gsrfs.violates_3,
    gsrfs.violates_4, gsrfs.violates_10, gsrfs.violates_11]
  table_norm; enum_unfold; chain_steps
theorem sgsrfs_code_table (a : GsrfsArgs) : sgsrfsCheck a = firstOffender (Coded.gsrfs SLU_S a) := by
  simp only [sgsrfsCheck, sgsrfsChain, Coded.gsrfs, gsrfs.violates_1, gsrfs.violates_2, gsrfs.violates_3,
    gsrfs.violates_4, gsrfs.violates_10, gsrfs.violates_11]
  table_norm; enum_unfold; chain_steps
example : gsrfs.violates_7 (Witness.gsrfsBadX SLU_S) = false ∧ sgsrfsCheck (Witness.gsrfsBadX SLU_S) = -11 := by decide
theorem sgsrfs_equed_unchecked : gsrfs.docInfo SLU_S (Witness.gsrfsBadEqued SLU_S) = -7 ∧ sgsrfsCheck (Witness.gsrfsBadEqued SLU_S) = 0 := by decide
theorem sgsrfs_accepts_valid (a : GsrfsArgs) (h : gsrfs.valid SLU_S a = true) : sgsrfsCheck a = 0 := by
  rw [sgsrfs_first_offender_partial a (Coded.gsrfs_valid_equed SLU_S a h)]
  exact firstOffender_of_allValid _ h
example : gsrfs.valid SLU_S (Witness.gsrfsOk SLU_S) = true ∧ sgsrfsCheck (Witness.gsrfsOk SLU_S) = 0 := by decide

theorem cgsrfs_first_offender_partial (a : GsrfsArgs) (h7 : gsrfs.violates_7 a = false) :
    cgsrfsCheck a = gsrfs.docInfo SLU_C a := by
  simp only [cgsrfsCheck, cgsrfsChain, gsrfs.docInfo, gsrfs.table, h7, gsrfs.violates_1, gsrfs.violates_2, gsrfs.violates_3,
    gsrfs.violates_4, gsrfs.violates_10, gsrfs.violates_11]
  table_norm; enum_unfold; chain_steps
theorem cgsrfs_code_table (a : GsrfsArgs) : cgsrfsCheck a = firstOffender (Coded.gsrfs SLU_C a) := by
  simp only [cgsrfsCheck, cgsrfsChain, Coded.gsrfs, gsrfs.violates_1, gsrfs.violates_2, gsrfs.violates_3,
    gsrfs.violates_4, gsrfs.violates_10, gsrfs.violates_11]
  table_norm; enum_unfold; chain_steps
example : gsrfs.violates_7 (Witness.gsrfsBadX SLU_C) = false ∧ cgsrfsCheck (Witness.gsrfsBadX SLU_C) = -11 := by decide
theorem cgsrfs_equed_unchecked : gsrfs.docInfo SLU_C (Witness.gsrfsBadEqued SLU_C) = -7 ∧ cgsrfsCheck (Witness.gsrfsBadEqued SLU_C) = 0 := by decide
theorem cgsrfs_accepts_valid (a : GsrfsArgs) (h : gsrfs.valid SLU_C a = true) : cgsrfsCheck a = 0 := by
  rw [cgsrfs_first_offender_partial a (Coded.gsrfs_valid_equed SLU_C a h)]
  exact firstOffender_of_allValid _ h
example : gsrfs.valid SLU_C (Witness.gsrfsOk SLU_C) = true ∧ cgsrfsCheck (Witness.gsrfsOk SLU_C) = 0 := by decide

theorem zgsrfs_first_offender_partial (a : GsrfsArgs) (h7 : gsrfs.violates_7 a = false) :
    zgsrfsCheck a = gsrfs.docInfo SLU_Z a := by
  simp only [zgsrfsCheck, zgsrfsChain, gsrfs.docInfo, gsrfs.table, h7, gsrfs.violates_1, gsrfs.violates_2, gsrfs.violates_3,
    gsrfs.violates_4, gsrfs.violates_10, gsrfs.violates_11]
  table_norm; enum_unfold; chain_steps
theorem zgsrfs_code_table (a : GsrfsArgs) : zgsrfsCheck a = firstOffender (Coded.gsrfs SLU_Z a) := by
  simp only [zgsrfsCheck, zgsrfsChain, Coded.gsrfs, gsrfs.violates_1, gsrfs.violates_2, gsrfs.violates_3,
    gsrfs.violates_4, gsrfs.violates_10, gsrfs.violates_11]
  table_norm; enum_unfold; chain_steps
example : gsrfs.violates_7 (Witness.gsrfsBadX SLU_Z) = false ∧ zgsrfsCheck (Witness.gsrfsBadX SLU_Z) = -11 := by decide
theorem zgsrfs_equed_unchecked : gsrfs.docInfo SLU_Z (Witness.gsrfsBadEqued SLU_Z) = -7 ∧ zgsrfsCheck (Witness.gsrfsBadEqued SLU_Z) = 0 := by decide
theorem zgsrfs_accepts_valid (a : GsrfsArgs) (h : gsrfs.valid SLU_Z a = true) : zgsrfsCheck a = 0 := by
  rw [zgsrfs_first_offender_partial a (Coded.gsrfs_valid_equed SLU_Z a h)]
  exact firstOffender_of_allValid _ h
example : gsrfs.valid SLU_Z (Witness.gsrfsOk SLU_Z) = true ∧ zgsrfsCheck (Witness.gsrfsOk SLU_Z) = 0 := by decide

/-! ### ?gscon, ?gsequ — no deviation -/

theorem dgscon_first_offender (a : GsconArgs) : dgsconCheck a = gscon.docInfo SLU_D a := by
  simp only [dgsconCheck, dgsconChain, gscon.docInfo, gscon.table, gscon.violates_1, gscon.violates_2, gscon.violates_3]
  table_norm; enum_unfold; chain_steps
example : dgsconCheck (Witness.gsconBadU SLU_D) = -3 := by decide
theorem dgscon_accepts_valid (a : GsconArgs) (h : gscon.valid SLU_D a = true) : dgsconCheck a = 0 := by
  rw [dgscon_first_offender]; exact firstOffender_of_allValid _ h
example : gscon.valid SLU_D (Witness.gsconOk SLU_D) = true ∧ dgsconCheck (Witness.gsconOk SLU_D) = 0 := by decide

theorem sgscon_first_offender (a : GsconArgs) : sgsconCheck a = gscon.docInfo SLU_S a := by
  simp only [sgsconCheck, sgsconChain, gscon.docInfo, gscon.table, gscon.violates_1, gscon.violates_2, gscon.violates_3]
  table_norm; enum_unfold; chain_steps
example : sgsconCheck (Witness.gsconBadU SLU_S) = -3 := by decide
theorem sgscon_accepts_valid (a : GsconArgs) (h : gscon.valid SLU_S a = true) : sgsconCheck a = 0 := by
  rw [sgscon_first_offender]; exact firstOffender_of_allValid _ h
example : gscon.valid SLU_S (Witness.gsconOk SLU_S) = true ∧ sgsconCheck (Witness.gsconOk SLU_S) = 0 := by decide

theorem cgscon_first_offender (a : GsconArgs) : cgsconCheck a = gscon.docInfo SLU_C a := by
  simp only [cgsconCheck, cgsconChain, gscon.docInfo, gscon.table, gscon.violates_1, gscon.violates_2, gscon.violates_3]
  table_norm; enum_unfold; chain_steps
example : cgsconCheck (Witness.gsconBadU SLU_C) = -3 := by decide
theorem cgscon_accepts_valid (a : GsconArgs) (h : gscon.valid SLU_C a = true) : cgsconCheck a = 0 := by
  rw [cgscon_first_offender]; exact firstOffender_of_allValid _ h
example : gscon.valid SLU_C (Witness.gsconOk SLU_C) = true ∧ cgsconCheck (Witness.gsconOk SLU_C) = 0 := by decide

theorem zgscon_first_offender (a : GsconArgs) : zgsconCheck a = gscon.docInfo SLU_Z a := by
  simp only [zgsconCheck, zgsconChain, gscon.docInfo, gscon.table, gscon.violates_1, gscon.violates_2, gscon.violates_3]
  table_norm; enum_unfold; chain_steps
example : zgsconCheck (Witness.gsconBadU SLU_Z) = -3 := by decide
theorem zgscon_accepts_valid (a : GsconArgs) (h : gscon.valid SLU_Z a = true) : zgsconCheck a = 0 := by
  rw [zgscon_first_offender]; exact firstOffender_of_allValid _ h
example : gscon.valid SLU_Z (Witness.gsconOk SLU_Z) = true ∧ zgsconCheck (Witness.gsconOk SLU_Z) = 0 := by decide

theorem dgsequ_first_offender (a : GsequArgs) : dgsequCheck a = gsequ.docInfo SLU_D a := by
  simp only [dgsequCheck, dgsequChain, gsequ.docInfo, gsequ.table, gsequ.violates_1]
  table_norm; enum_unfold; chain_steps
example : dgsequCheck (Witness.gsequBad SLU_D) = -1 := by decide
theorem dgsequ_accepts_valid (a : GsequArgs) (h : gsequ.valid SLU_D a = true) : dgsequCheck a = 0 := by
  rw [dgsequ_first_offender]; exact firstOffender_of_allValid _ h
example : gsequ.valid SLU_D (Witness.gsequOk SLU_D) = true ∧ dgsequCheck (Witness.gsequOk SLU_D) = 0 := by decide

theorem sgsequ_first_offender (a : GsequArgs) : sgsequCheck a = gsequ.docInfo SLU_S a := by
  simp only [sgsequCheck, sgsequChain, gsequ.docInfo, gsequ.table, gsequ.violates_1]
  table_norm; enum_unfold; chain_steps
example : sgsequCheck (Witness.gsequBad SLU_S) = -1 := by decide
theorem sgsequ_accepts_valid (a : GsequArgs) (h : gsequ.valid SLU_S a = true) : sgsequCheck a = 0 := by
  rw [sgsequ_first_offender]; exact firstOffender_of_allValid _ h
example : gsequ.valid SLU_S (Witness.gsequOk SLU_S) = true ∧ sgsequCheck (Witness.gsequOk SLU_S) = 0 := by decide

theorem cgsequ_first_offender (a : GsequArgs) : cgsequCheck a = gsequ.docInfo SLU_C a := by
  simp only [cgsequCheck, cgsequChain, gsequ.docInfo, gsequ.table, gsequ.violates_1]
  table_norm; enum_unfold; chain_steps
example : cgsequCheck (Witness.gsequBad SLU_C) = -1 := by decide
theorem cgsequ_accepts_valid (a : GsequArgs) (h : gsequ.valid SLU_C a = true) : cgsequCheck a = 0 := by
  rw [cgsequ_first_offender]; exact firstOffender_of_allValid _ h
example : gsequ.valid SLU_C (Witness.gsequOk SLU_C) = true ∧ cgsequCheck (Witness.gsequOk SLU_C) = 0 := by decide

theorem zgsequ_first_offender (a : GsequArgs) : zgsequCheck a = gsequ.docInfo SLU_Z a := by
  simp only [zgsequCheck, zgsequChain, gsequ.docInfo, gsequ.table, gsequ.violates_1]
  table_norm; enum_unfold; chain_steps
example : zgsequCheck (Witness.gsequBad SLU_Z) = -1 := by decide
theorem zgsequ_accepts_valid (a : GsequArgs) (h : gsequ.valid SLU_Z a = true) : zgsequCheck a = 0 := by
  rw [zgsequ_first_offender]; exact firstOffender_of_allValid _ h
example : gsequ.valid SLU_Z (Witness.gsequOk SLU_Z) = true ∧ zgsequCheck (Witness.gsequOk SLU_Z) = 0 := by decide

/-! ### sp_?trsv — deviations: c/z reject the documented trans = 'C' / 'c' with −2 (s/d accept it since /repo
    2acf694); the documented types of L and U are never tested (all four precisions) -/

theorem sp_dtrsv_code_table (a : TrsvArgs) : sp_dtrsvCheck a = firstOffender (Coded.trsv true a) := by
  simp only [sp_dtrsvCheck, sp_dtrsvChain, Coded.trsv, trsv.violates_1, trsv.violates_3, trsv.shape_4, trsv.shape_5, Bool.true_and]
  table_norm; enum_unfold; chain_steps
theorem sp_dtrsv_first_offender_partial (a : TrsvArgs) (hx : Coded.trsvExcl true SLU_D a) : sp_dtrsvCheck a = trsv.docInfo SLU_D a := by
  rw [sp_dtrsv_code_table, Coded.trsv_eq_doc true SLU_D a hx]
example : Coded.trsvExcl true SLU_D (Witness.trsvBadDiag SLU_D) ∧ sp_dtrsvCheck (Witness.trsvBadDiag SLU_D) = -3 := by decide
theorem sp_dtrsv_types_unchecked : trsv.docInfo SLU_D (Witness.trsvBadLtype SLU_D) = -4 ∧ sp_dtrsvCheck (Witness.trsvBadLtype SLU_D) = 0 := by decide

theorem sp_dtrsv_accepts_valid (a : TrsvArgs) (h : trsv.valid SLU_D a = true) : sp_dtrsvCheck a = 0 := by
  rw [sp_dtrsv_first_offender_partial a (Coded.trsv_valid_excl true SLU_D a (fun hc => by cases hc) h)]
  exact firstOffender_of_allValid _ h
example : trsv.valid SLU_D (Witness.trsvC SLU_D) = true ∧ sp_dtrsvCheck (Witness.trsvC SLU_D) = 0 := by decide

theorem sp_strsv_code_table (a : TrsvArgs) : sp_strsvCheck a = firstOffender (Coded.trsv true a) := by
  simp only [sp_strsvCheck, sp_strsvChain, Coded.trsv, trsv.violates_1, trsv.violates_3, trsv.shape_4, trsv.shape_5, Bool.true_and]
  table_norm; enum_unfold; chain_steps
theorem sp_strsv_first_offender_partial (a : TrsvArgs) (hx : Coded.trsvExcl true SLU_S a) : sp_strsvCheck a = trsv.docInfo SLU_S a := by
  rw [sp_strsv_code_table, Coded.trsv_eq_doc true SLU_S a hx]
example : Coded.trsvExcl true SLU_S (Witness.trsvBadDiag SLU_S) ∧ sp_strsvCheck (Witness.trsvBadDiag SLU_S) = -3 := by decide
theorem sp_strsv_types_unchecked : trsv.docInfo SLU_S (Witness.trsvBadLtype SLU_S) = -4 ∧ sp_strsvCheck (Witness.trsvBadLtype SLU_S) = 0 := by decide

theorem sp_strsv_accepts_valid (a : TrsvArgs) (h : trsv.valid SLU_S a = true) : sp_strsvCheck a = 0 := by
  rw [sp_strsv_first_offender_partial a (Coded.trsv_valid_excl true SLU_S a (fun hc => by cases hc) h)]
  exact firstOffender_of_allValid _ h
example : trsv.valid SLU_S (Witness.trsvC SLU_S) = true ∧ sp_strsvCheck (Witness.trsvC SLU_S) = 0 := by decide

theorem sp_ctrsv_code_table (a : TrsvArgs) : sp_ctrsvCheck a = firstOffender (Coded.trsv true a) := by
  simp only [sp_ctrsvCheck, sp_ctrsvChain, Coded.trsv, trsv.violates_1, trsv.violates_3, trsv.shape_4, trsv.shape_5, Bool.true_and]
  table_norm; enum_unfold; chain_steps
theorem sp_ctrsv_first_offender_partial (a : TrsvArgs) (hx : Coded.trsvExcl true SLU_C a) : sp_ctrsvCheck a = trsv.docInfo SLU_C a := by
  rw [sp_ctrsv_code_table, Coded.trsv_eq_doc true SLU_C a hx]
example : Coded.trsvExcl true SLU_C (Witness.trsvBadDiag SLU_C) ∧ sp_ctrsvCheck (Witness.trsvBadDiag SLU_C) = -3 := by decide
theorem sp_ctrsv_types_unchecked : trsv.docInfo SLU_C (Witness.trsvBadLtype SLU_C) = -4 ∧ sp_ctrsvCheck (Witness.trsvBadLtype SLU_C) = 0 := by decide

theorem sp_ctrsv_accepts_valid (a : TrsvArgs) (h : trsv.valid SLU_C a = true) : sp_ctrsvCheck a = 0 := by
  rw [sp_ctrsv_first_offender_partial a (Coded.trsv_valid_excl true SLU_C a (fun hc => by cases hc) h)]
  exact firstOffender_of_allValid _ h
example : trsv.valid SLU_C (Witness.trsvC SLU_C) = true ∧ sp_ctrsvCheck (Witness.trsvC SLU_C) = 0 := by decide


theorem sp_ztrsv_code_table (a : TrsvArgs) : sp_ztrsvCheck a = firstOffender (Coded.trsv true a) := by
  simp only [sp_ztrsvCheck, sp_ztrsvChain, Coded.trsv, trsv.violates_1, trsv.violates_3, trsv.shape_4, trsv.shape_5, Bool.true_and]
  table_norm; enum_unfold; chain_steps
theorem sp_ztrsv_first_offender_partial (a : TrsvArgs) (hx : Coded.trsvExcl true SLU_Z a) : sp_ztrsvCheck a = trsv.docInfo SLU_Z a := by
  rw [sp_ztrsv_code_table, Coded.trsv_eq_doc true SLU_Z a hx]
example : Coded.trsvExcl true SLU_Z (Witness.trsvBadDiag SLU_Z) ∧ sp_ztrsvCheck (Witness.trsvBadDiag SLU_Z) = -3 := by decide
theorem sp_ztrsv_types_unchecked : trsv.docInfo SLU_Z (Witness.trsvBadLtype SLU_Z) = -4 ∧ sp_ztrsvCheck (Witness.trsvBadLtype SLU_Z) = 0 := by decide

theorem sp_ztrsv_accepts_valid (a : TrsvArgs) (h : trsv.valid SLU_Z a = true) : sp_ztrsvCheck a = 0 := by
  rw [sp_ztrsv_first_offender_partial a (Coded.trsv_valid_excl true SLU_Z a (fun hc => by cases hc) h)]
  exact firstOffender_of_allValid _ h
example : trsv.valid SLU_Z (Witness.trsvC SLU_Z) = true ∧ sp_ztrsvCheck (Witness.trsvC SLU_Z) = 0 := by decide


/-! ### sp_?gemv — deviation: the documented types of A (position 3) are never tested.  No `info` argument:
    `Check` is −(position handed to xerbla_) -/

theorem sp_dgemv_code_table (a : GemvArgs) : sp_dgemvCheck a = firstOffender (Coded.gemv a) := by
  simp only [sp_dgemvCheck, sp_dgemvChain, Coded.gemv, gemv.violates_1, gemv.shape_3, gemv.violates_5, gemv.violates_8]
  table_norm; enum_unfold; chain_steps
theorem sp_dgemv_first_offender_partial (a : GemvArgs) (h3 : gemv.types_3 SLU_D a = false) : sp_dgemvCheck a = gemv.docInfo SLU_D a := by
  rw [sp_dgemv_code_table, Coded.gemv_eq_doc SLU_D a h3]
example : gemv.types_3 SLU_D (Witness.gemvBadIncy SLU_D) = false ∧ sp_dgemvCheck (Witness.gemvBadIncy SLU_D) = -8 := by decide
theorem sp_dgemv_A_type_unchecked : gemv.docInfo SLU_D (Witness.gemvBadAtype SLU_D) = -3 ∧ sp_dgemvCheck (Witness.gemvBadAtype SLU_D) = 0 := by decide
theorem sp_dgemv_accepts_valid (a : GemvArgs) (h : gemv.valid SLU_D a = true) : sp_dgemvCheck a = 0 := by
  rw [sp_dgemv_first_offender_partial a (Coded.gemv_valid_types SLU_D a h)]
  exact firstOffender_of_allValid _ h
example : gemv.valid SLU_D (Witness.gemvOk SLU_D) = true ∧ sp_dgemvCheck (Witness.gemvOk SLU_D) = 0 := by decide

theorem sp_sgemv_code_table (a : GemvArgs) : sp_sgemvCheck a = firstOffender (Coded.gemv a) := by
  simp only [sp_sgemvCheck, sp_sgemvChain, Coded.gemv, gemv.violates_1, gemv.shape_3, gemv.violates_5, gemv.violates_8]
  table_norm; enum_unfold; chain_steps
theorem sp_sgemv_first_offender_partial (a : GemvArgs) (h3 : gemv.types_3 SLU_S a = false) : sp_sgemvCheck a = gemv.docInfo SLU_S a := by
  rw [sp_sgemv_code_table, Coded.gemv_eq_doc SLU_S a h3]
example : gemv.types_3 SLU_S (Witness.gemvBadIncy SLU_S) = false ∧ sp_sgemvCheck (Witness.gemvBadIncy SLU_S) = -8 := by decide
theorem sp_sgemv_A_type_unchecked : gemv.docInfo SLU_S (Witness.gemvBadAtype SLU_S) = -3 ∧ sp_sgemvCheck (Witness.gemvBadAtype SLU_S) = 0 := by decide
theorem sp_sgemv_accepts_valid (a : GemvArgs) (h : gemv.valid SLU_S a = true) : sp_sgemvCheck a = 0 := by
  rw [sp_sgemv_first_offender_partial a (Coded.gemv_valid_types SLU_S a h)]
  exact firstOffender_of_allValid _ h
example : gemv.valid SLU_S (Witness.gemvOk SLU_S) = true ∧ sp_sgemvCheck (Witness.gemvOk SLU_S) = 0 := by decide

theorem sp_cgemv_code_table (a : GemvArgs) : sp_cgemvCheck a = firstOffender (Coded.gemv a) := by
  simp only [sp_cgemvCheck, sp_cgemvChain, Coded.gemv, gemv.violates_1, gemv.shape_3, gemv.violates_5, gemv.violates_8]
  table_norm; enum_unfold; chain_steps
theorem sp_cgemv_first_offender_partial (a : GemvArgs) (h3 : gemv.types_3 SLU_C a = false) : sp_cgemvCheck a = gemv.docInfo SLU_C a := by
  rw [sp_cgemv_code_table, Coded.gemv_eq_doc SLU_C a h3]
example : gemv.types_3 SLU_C (Witness.gemvBadIncy SLU_C) = false ∧ sp_cgemvCheck (Witness.gemvBadIncy SLU_C) = -8 := by decide
theorem sp_cgemv_A_type_unchecked : gemv.docInfo SLU_C (Witness.gemvBadAtype SLU_C) = -3 ∧ sp_cgemvCheck (Witness.gemvBadAtype SLU_C) = 0 := by decide
theorem sp_cgemv_accepts_valid (a : GemvArgs) (h : gemv.valid SLU_C a = true) : sp_cgemvCheck a = 0 := by
  rw [sp_cgemv_first_offender_partial a (Coded.gemv_valid_types SLU_C a h)]
  exact firstOffender_of_allValid _ h
example : gemv.valid SLU_C (Witness.gemvOk SLU_C) = true ∧ sp_cgemvCheck (Witness.gemvOk SLU_C) = 0 := by decide

theorem sp_zgemv_code_table (a : GemvArgs) : sp_zgemvCheck a = firstOffender (Coded.gemv a) := by
  simp only [sp_zgemvCheck, sp_zgemvChain, Coded.gemv, gemv.violates_1, gemv.shape_3, gemv.violates_5, gemv.violates_8]
  table_norm; enum_unfold; chain_steps
theorem sp_zgemv_first_offender_partial (a : GemvArgs) (h3 : gemv.types_3 SLU_Z a = false) : sp_zgemvCheck a = gemv.docInfo SLU_Z a := by
  rw [sp_zgemv_code_table, Coded.gemv_eq_doc SLU_Z a h3]
example : gemv.types_3 SLU_Z (Witness.gemvBadIncy SLU_Z) = false ∧ sp_zgemvCheck (Witness.gemvBadIncy SLU_Z) = -8 := by decide
theorem sp_zgemv_A_type_unchecked : gemv.docInfo SLU_Z (Witness.gemvBadAtype SLU_Z) = -3 ∧ sp_zgemvCheck (Witness.gemvBadAtype SLU_Z) = 0 := by decide
theorem sp_zgemv_accepts_valid (a : GemvArgs) (h : gemv.valid SLU_Z a = true) : sp_zgemvCheck a = 0 := by
  rw [sp_zgemv_first_offender_partial a (Coded.gemv_valid_types SLU_Z a h)]
  exact firstOffender_of_allValid _ h
example : gemv.valid SLU_Z (Witness.gemvOk SLU_Z) = true ∧ sp_zgemvCheck (Witness.gemvOk SLU_Z) = 0 := by decide

/-! ### the check precedes every effect
    `<routine>PreWrites` is extracted by the translator: every store through a pointer parameter (other than
    `*info`) that the routine executes before the error return.  The translator REJECTS any other kind of statement
    in that section (a call — e.g. an allocation — in front of the tests makes the generator fail), so these lists
    are the complete set of caller-visible effects of a rejected call.  p?gssvx stores the two permutation pointers
    into the caller's option structure and (for fact ≠ FACTORED) resets `*equed` before testing anything; none of
    A, B, X, L, U, perm_c[], perm_r[], R, C is written. -/

theorem gssv_precedes_effects : pdgssvPreWrites = [] ∧ psgssvPreWrites = [] ∧ pcgssvPreWrites = [] ∧ pzgssvPreWrites = [] := by decide
theorem gssvx_precedes_effects : pdgssvxPreWrites = ["superlumt_options->perm_c", "superlumt_options->perm_r", "*equed"] ∧ psgssvxPreWrites = ["superlumt_options->perm_c", "superlumt_options->perm_r", "*equed"] ∧ pcgssvxPreWrites = ["superlumt_options->perm_c", "superlumt_options->perm_r", "*equed"] ∧ pzgssvxPreWrites = ["superlumt_options->perm_c", "superlumt_options->perm_r", "*equed"] := by decide
theorem gstrs_precedes_effects : dgstrsPreWrites = [] ∧ sgstrsPreWrites = [] ∧ cgstrsPreWrites = [] ∧ zgstrsPreWrites = [] := by decide
theorem gsrfs_precedes_effects : dgsrfsPreWrites = [] ∧ sgsrfsPreWrites = [] ∧ cgsrfsPreWrites = [] ∧ zgsrfsPreWrites = [] := by decide
theorem gscon_precedes_effects : dgsconPreWrites = [] ∧ sgsconPreWrites = [] ∧ cgsconPreWrites = [] ∧ zgsconPreWrites = [] := by decide
theorem gsequ_precedes_effects : dgsequPreWrites = [] ∧ sgsequPreWrites = [] ∧ cgsequPreWrites = [] ∧ zgsequPreWrites = [] := by decide
theorem trsv_precedes_effects : sp_dtrsvPreWrites = [] ∧ sp_strsvPreWrites = [] ∧ sp_ctrsvPreWrites = [] ∧ sp_ztrsvPreWrites = [] := by decide
theorem gemv_precedes_effects : sp_dgemvPreWrites = [] ∧ sp_sgemvPreWrites = [] ∧ sp_cgemvPreWrites = [] ∧ sp_zgemvPreWrites = [] := by decide

theorem gssv_xerbla_names : pdgssvXerblaName = "pdgssv" ∧ psgssvXerblaName = "psgssv" ∧ pcgssvXerblaName = "pcgssv" ∧ pzgssvXerblaName = "pzgssv" := by decide
theorem gssvx_xerbla_names : pdgssvxXerblaName = "pdgssvx" ∧ psgssvxXerblaName = "psgssvx" ∧ pcgssvxXerblaName = "pcgssvx" ∧ pzgssvxXerblaName = "pzgssvx" := by decide
theorem gstrs_xerbla_names : dgstrsXerblaName = "dgstrs" ∧ sgstrsXerblaName = "sgstrs" ∧ cgstrsXerblaName = "cgstrs" ∧ zgstrsXerblaName = "zgstrs" := by decide
theorem gsrfs_xerbla_names : dgsrfsXerblaName = "dgsrfs" ∧ sgsrfsXerblaName = "sgsrfs" ∧ cgsrfsXerblaName = "cgsrfs" ∧ zgsrfsXerblaName = "zgsrfs" := by decide
theorem gscon_xerbla_names : dgsconXerblaName = "dgscon" ∧ sgsconXerblaName = "sgscon" ∧ cgsconXerblaName = "cgscon" ∧ zgsconXerblaName = "zgscon" := by decide
theorem gsequ_xerbla_names : dgsequXerblaName = "dgsequ" ∧ sgsequXerblaName = "sgsequ" ∧ cgsequXerblaName = "cgsequ" ∧ zgsequXerblaName = "zgsequ" := by decide
theorem trsv_xerbla_names : sp_dtrsvXerblaName = "sp_dtrsv" ∧ sp_strsvXerblaName = "sp_strsv" ∧ sp_ctrsvXerblaName = "sp_ctrsv" ∧ sp_ztrsvXerblaName = "sp_ztrsv" := by decide
theorem gemv_xerbla_names : sp_dgemvXerblaName = "sp_dgemv " ∧ sp_sgemvXerblaName = "sp_sgemv " ∧ sp_cgemvXerblaName = "sp_cgemv " ∧ sp_zgemvXerblaName = "sp_zgemv " := by decide

/-- p?gssvx scans `C` over `A->nrow` although C has dimension `A->ncol`: whenever the scan is reached the A test
    (position 3) has passed, hence the two bounds coincide -/
theorem gssvx_C_scan_bound_harmless (dt : Int) (a : GssvxArgs) (h3 : gssvx.violates_3 dt a = false) :
    someNonPos a.C a.A_nrow = someNonPos a.C a.A_ncol := by
  simp only [gssvx.violates_3, decide_eq_false_iff_not] at h3
  have : a.A_nrow = a.A_ncol := by omega
  rw [this]
example : someNonPos [1, 0] 1 ≠ someNonPos [1, 0] 2 := by decide

end Slu.C15
