/-
What the embedded complex judge says, entry by entry (for every n and every operand).
-/
import SluVerif.Props.Checkers
import SluVerif.Model.CheckC
import Mathlib.Tactic.Ring
import Mathlib.Tactic.Linarith

namespace Slu

theorem sumTo_zero (f : Nat → Int) : sumTo 0 f = 0 := by simp [sumTo]
theorem sumTo_succ (n : Nat) (f : Nat → Int) : sumTo (n + 1) f = sumTo n f + f n := by
  simp [sumTo, List.range_succ, List.map_append, List.sum_append]

theorem sumTo_congr (n : Nat) (f g : Nat → Int) (h : ∀ k, k < n → f k = g k) : sumTo n f = sumTo n g := by
  induction n with
  | zero => simp [sumTo_zero]
  | succ n ih =>
    rw [sumTo_succ, sumTo_succ, ih (fun k hk => h k (by omega)), h n (by omega)]

/-- a sum over `2n` terms splits into the two halves -/
theorem sumTo_two (n : Nat) (f : Nat → Int) : sumTo (2 * n) f = sumTo n f + sumTo n (fun k => f (n + k)) := by
  have key : ∀ m, sumTo (n + m) f = sumTo n f + sumTo m (fun k => f (n + k)) := by
    intro m
    induction m with
    | zero => simp [sumTo_zero]
    | succ m ih => rw [← Nat.add_assoc, sumTo_succ, ih, sumTo_succ]; ring
  have : 2 * n = n + n := by omega
  rw [this, key]

theorem sumTo_add (n : Nat) (f g : Nat → Int) : sumTo n (fun k => f k + g k) = sumTo n f + sumTo n g := by
  induction n with
  | zero => simp [sumTo_zero]
  | succ n ih => rw [sumTo_succ, sumTo_succ, sumTo_succ, ih]; ring

theorem sumTo_sub (n : Nat) (f g : Nat → Int) : sumTo n (fun k => f k - g k) = sumTo n f - sumTo n g := by
  induction n with
  | zero => simp [sumTo_zero]
  | succ n ih => rw [sumTo_succ, sumTo_succ, sumTo_succ, ih]; ring

theorem sumTo_neg (n : Nat) (f : Nat → Int) : sumTo n (fun k => -f k) = - sumTo n f := by
  induction n with
  | zero => simp [sumTo_zero]
  | succ n ih => rw [sumTo_succ, sumTo_succ, ih]; ring

theorem iabs_neg (x : Int) : iabs (-x) = iabs x := by simp [iabs]

/-- products of embedded matrices, upper-left and lower-left blocks (row index in the first / second half, column in the first) -/
theorem embed_mul_re (n : Nat) (Lr Li Ur Ui : Mat) (i j : Nat) (hi : i < n) (hj : j < n) :
    mulEntry (2 * n) (embedM n Lr Li) (embedM n Ur Ui) i j = mulEntry n Lr Ur i j - mulEntry n Li Ui i j := by
  unfold mulEntry
  rw [sumTo_two]
  have h1 : sumTo n (fun k => embedM n Lr Li i k * embedM n Ur Ui k j) = sumTo n (fun k => Lr i k * Ur k j) := by
    apply sumTo_congr; intro k hk; simp [embedM, hi, hj, hk]
  have h2 : sumTo n (fun k => embedM n Lr Li i (n + k) * embedM n Ur Ui (n + k) j) = sumTo n (fun k => -(Li i k * Ui k j)) := by
    apply sumTo_congr; intro k hk; simp [embedM, hi, hj]
  rw [h1, h2]
  have : sumTo n (fun k => -(Li i k * Ui k j)) = - sumTo n (fun k => Li i k * Ui k j) := sumTo_neg n _
  rw [this]; ring

theorem embed_mul_im (n : Nat) (Lr Li Ur Ui : Mat) (i j : Nat) (hi : i < n) (hj : j < n) :
    mulEntry (2 * n) (embedM n Lr Li) (embedM n Ur Ui) (n + i) j = mulEntry n Li Ur i j + mulEntry n Lr Ui i j := by
  unfold mulEntry
  rw [sumTo_two]
  have h1 : sumTo n (fun k => embedM n Lr Li (n + i) k * embedM n Ur Ui k j) = sumTo n (fun k => Li i k * Ur k j) := by
    apply sumTo_congr; intro k hk; simp [embedM, hj, hk]
  have h2 : sumTo n (fun k => embedM n Lr Li (n + i) (n + k) * embedM n Ur Ui (n + k) j) = sumTo n (fun k => Lr i k * Ui k j) := by
    apply sumTo_congr; intro k hk; simp [embedM, hj]
  rw [h1, h2]

theorem embed_abs_re (n : Nat) (Lr Li Ur Ui : Mat) (i j : Nat) (hi : i < n) (hj : j < n) :
    absMulEntry (2 * n) (embedM n Lr Li) (embedM n Ur Ui) i j = absMulEntry n Lr Ur i j + absMulEntry n Li Ui i j := by
  unfold absMulEntry
  rw [sumTo_two]
  have h1 : sumTo n (fun k => iabs (embedM n Lr Li i k) * iabs (embedM n Ur Ui k j)) = sumTo n (fun k => iabs (Lr i k) * iabs (Ur k j)) := by
    apply sumTo_congr; intro k hk; simp [embedM, hi, hj, hk]
  have h2 : sumTo n (fun k => iabs (embedM n Lr Li i (n + k)) * iabs (embedM n Ur Ui (n + k) j)) = sumTo n (fun k => iabs (Li i k) * iabs (Ui k j)) := by
    apply sumTo_congr; intro k hk; simp [embedM, hi, hj, iabs_neg]
  rw [h1, h2]

theorem embed_abs_im (n : Nat) (Lr Li Ur Ui : Mat) (i j : Nat) (hi : i < n) (hj : j < n) :
    absMulEntry (2 * n) (embedM n Lr Li) (embedM n Ur Ui) (n + i) j = absMulEntry n Li Ur i j + absMulEntry n Lr Ui i j := by
  unfold absMulEntry
  rw [sumTo_two]
  have h1 : sumTo n (fun k => iabs (embedM n Lr Li (n + i) k) * iabs (embedM n Ur Ui k j)) = sumTo n (fun k => iabs (Li i k) * iabs (Ur k j)) := by
    apply sumTo_congr; intro k hk; simp [embedM, hj, hk]
  have h2 : sumTo n (fun k => iabs (embedM n Lr Li (n + i) (n + k)) * iabs (embedM n Ur Ui (n + k) j)) = sumTo n (fun k => iabs (Lr i k) * iabs (Ui k j)) := by
    apply sumTo_congr; intro k hk; simp [embedM, hj]
  rw [h1, h2]

/-- **The embedded judge implies the componentwise complex statement**: for every entry, the real and the imaginary part of
`A − (L·U)` (permuted) are bounded by γ times the corresponding absolute-value products. -/
theorem cCheckLU_sound (n : Nat) (Are Aim Lre Lim Ure Uim : Mat) (pr pc : Nat → Nat) (num den : Int)
    (hpr : ∀ i, i < n → pr i < n) (hpc : ∀ j, j < n → pc j < n)
    (h : cCheckLU n Are Aim Lre Lim Ure Uim pr pc num den = true) :
    ∀ i, i < n → ∀ j, j < n →
      iabs (Are i j - (mulEntry n Lre Ure (pr i) (pc j) - mulEntry n Lim Uim (pr i) (pc j))) * den
        ≤ num * (absMulEntry n Lre Ure (pr i) (pc j) + absMulEntry n Lim Uim (pr i) (pc j)) ∧
      iabs (Aim i j - (mulEntry n Lim Ure (pr i) (pc j) + mulEntry n Lre Uim (pr i) (pc j))) * den
        ≤ num * (absMulEntry n Lim Ure (pr i) (pc j) + absMulEntry n Lre Uim (pr i) (pc j)) := by
  unfold cCheckLU at h
  have H := (checkLU_iff _ _ _ _ _ _ _ _).1 h
  intro i hi j hj
  constructor
  · have := H i (by omega) j (by omega)
    simp only [embedP, hi, hj, if_true] at this
    rw [embed_mul_re n _ _ _ _ _ _ (hpr i hi) (hpc j hj), embed_abs_re n _ _ _ _ _ _ (hpr i hi) (hpc j hj)] at this
    simpa [embedM, hi, hj] using this
  · have := H (n + i) (by omega) j (by omega)
    have e1 : ¬ (n + i < n) := by omega
    simp only [embedP, e1, hj, if_true, if_false, Nat.add_sub_cancel_left] at this
    rw [embed_mul_im n _ _ _ _ _ _ (hpr i hi) (hpc j hj), embed_abs_im n _ _ _ _ _ _ (hpr i hi) (hpc j hj)] at this
    simpa [embedM, e1, hj] using this

end Slu
