/-
C03 — the pipeline structure of the scheduler, for every configuration passing the executable initial-state checks, every
number of workers and every interleaving (model Model/Sched*.lean):

  * `global_handout_chain`            when a panel is handed out with `bcol = b`, every proper descendant panel that is not
                                      finished is BUSY and lies on the panel path from `b` to the panel: at most ONE chain of
                                      still-busy descendants, and it is the chain the thread is told to wait for
  * `global_finish_descendants_done`  a worker can complete its panel (its wait chain is released) only when every proper
                                      descendant panel is finished: what it waited for covers everything unfinished below it
  * `global_children_started`, `global_parent_unready`, `global_owner_unique` (Props/C04Global.lean)

What is NOT covered by theorems: that the numerical kernels read descendant columns only after having waited for them
(`panel_bmod`'s per-column spin) — at the granularity of this model a panel reads its descendants between hand-out and
completion; the per-column order is checked on real runs by the hook event log (vlib/evmon.py).
-/
import SluVerif.Proofs.SchedPipe
import SluVerif.Model.SchedInit3

namespace Slu
open Slu.Gen
open Classical

theorem pipeStatic_of_initOk3 (c : PanelCfg) (sh : Sh) (h : initOk3 c sh = true) : PipeStatic (cfgOf c sh) sh.typ := by
  unfold initOk3 at h
  simp only [Bool.and_eq_true, List.all_eq_true, List.mem_range, decide_eq_true_eq, Bool.or_eq_true, bne_iff_ne, ne_eq] at h
  obtain ⟨h1, h2⟩ := h
  refine ⟨⟨fun k hk => h1 k hk⟩, ?_⟩
  intro p hp ht q hq
  rcases h2 p hp with h' | h'
  · exact absurd ht h'
  · exact h' q hq

theorem pipeInv_init (c : PanelCfg) (sh : Sh) (nw : Nat) (h1 : initOk c sh = true) :
    PipeInv (cfgOf c sh) (colOf sh) sh.typ (sysOf sh nw) := by
  have W := cfgWF_of_initOk c sh h1
  unfold initOk at h1
  simp only [Bool.and_eq_true, decide_eq_true_eq, List.all_eq_true, List.mem_range, Bool.or_eq_true, Bool.not_eq_true',
    decide_eq_false_iff_not, List.contains_iff_mem, bne_iff_ne, ne_eq, beq_iff_eq, List.any_eq_true] at h1
  obtain ⟨⟨⟨⟨⟨⟨⟨⟨⟨⟨⟨⟨⟨a1, a2⟩, a3⟩, a4⟩, a5⟩, a6⟩, a7⟩, a8⟩, a9⟩, a10⟩, a11⟩, a12⟩, a13⟩, a14⟩ := h1
  have hunt : ∀ p ∈ panelsOf c.n sh, BUSY < getN sh.state p := fun p hp => (a10 p hp).1
  refine ⟨rfl, ?_, ?_, ?_, ?_⟩
  · intro p hp hb
    have := hunt p hp
    have hb' : getN sh.state p = BUSY := hb
    omega
  · intro p hp hd
    have := hunt p hp
    have hd' : getN sh.state p = DONE := hd
    simp only [BUSY, DONE] at *; omega
  · intro i p b hp; exact absurd hp (wk_sysOf_notworking sh nw i p b)
  · intro p hp _ hne q hq hqp
    exfalso
    obtain ⟨ch, c1, c2, _, _⟩ := desc_child (cfgOf c sh) hq hqp
    rcases a12 p hp with h' | h'
    · exact hne h'
    · exact h' ch c1 c2

theorem pipeInv_step (K : Cfg) (W : CfgWF K) (Q : ColCfg) (C : ColWF K Q) (T : Array Nat) (PS : PipeStatic K T)
    (s : Sys) (inv : SysInv K s) (pinv : ProgInv K Q s) (pv : PipeInv K Q T s) (e : Ev) : PipeInv K Q T (step K.c s e) := by
  by_cases h : enabled K.c s e = true
  · cases e with
    | loop w => exact pipeInv_loop K Q T s pv w h
    | sched w => exact (pipeInv_sched K W Q C T s inv pinv pv w h).1
    | finish w => exact pipeInv_finish K W Q C T PS s inv pinv pv w h
  · rw [step_disabled K.c s e (by simpa using h)]; exact pv

theorem pipeInv_run (K : Cfg) (W : CfgWF K) (Q : ColCfg) (C : ColWF K Q) (T : Array Nat) (PS : PipeStatic K T) (evs : List Ev) :
    ∀ s, SysInv K s → ProgInv K Q s → PipeInv K Q T s →
      SysInv K (runEv K.c s evs) ∧ ProgInv K Q (runEv K.c s evs) ∧ PipeInv K Q T (runEv K.c s evs) := by
  induction evs with
  | nil => intro s a b c; exact ⟨a, b, c⟩
  | cons e es ih =>
    intro s a b c
    exact ih (step K.c s e) (sysInv_step K W s a e) (progInv_step K W Q C s a b e) (pipeInv_step K W Q C T PS s a b c e)

/-- all three invariants hold in every reachable state -/
theorem global_all_invariants (c : PanelCfg) (sh : Sh) (nw : Nat) (h1 : initOk c sh = true) (h2 : initOk2 c sh = true)
    (h3 : initOk3 c sh = true) (evs : List Ev) :
    let s := runEv c (sysOf sh nw) evs
    SysInv (cfgOf c sh) s ∧ ProgInv (cfgOf c sh) (colOf sh) s ∧ PipeInv (cfgOf c sh) (colOf sh) sh.typ s := by
  intro s
  have W := cfgWF_of_initOk c sh h1
  obtain ⟨C, P0⟩ := init2 c sh nw h2
  exact pipeInv_run (cfgOf c sh) W (colOf sh) C sh.typ (pipeStatic_of_initOk3 c sh h3) evs (sysOf sh nw)
    (sysInv_of_initOk c sh nw h1) P0 (pipeInv_init c sh nw h1)

/-- **At most one chain of busy descendants, and it is the one the thread is sent to wait for.** -/
theorem global_handout_chain (c : PanelCfg) (sh : Sh) (nw : Nat) (h1 : initOk c sh = true) (h2 : initOk2 c sh = true)
    (h3 : initOk3 c sh = true) (evs : List Ev) (w j : Nat) :
    let s := runEv c (sysOf sh nw) evs
    enabled c s (.sched w) = true → (schedule c s.sh (wk s w).cur 0).2.1 = some j →
    ∀ q, Desc (cfgOf c sh) q j → q ≠ j → getN (step c s (.sched w)).sh.state q ≠ DONE →
      getN (step c s (.sched w)).sh.state q = BUSY ∧
      Desc (cfgOf c sh) (schedule c s.sh (wk s w).cur 0).2.2 q := by
  intro s he hj q hq hne hnd
  have W := cfgWF_of_initOk c sh h1
  obtain ⟨C, _⟩ := init2 c sh nw h2
  obtain ⟨a, b, pv⟩ := global_all_invariants c sh nw h1 h2 h3 evs
  obtain ⟨_, hh⟩ := pipeInv_sched (cfgOf c sh) W (colOf sh) C sh.typ s a b pv w he
  obtain ⟨o, ob⟩ := hh j hj q hq hne hnd
  exact ⟨ob, o.1⟩

/-- **A panel is completed only over finished descendants.** -/
theorem global_finish_descendants_done (c : PanelCfg) (sh : Sh) (nw : Nat) (h1 : initOk c sh = true) (h2 : initOk2 c sh = true)
    (h3 : initOk3 c sh = true) (evs : List Ev) (w p b : Nat) :
    let s := runEv c (sysOf sh nw) evs
    (wk s w).phase = .working p b → chainReleased c s.sh p b = true →
    ∀ q, Desc (cfgOf c sh) q p → q ≠ p → getN s.sh.state q = DONE := by
  intro s hph hrel
  have W := cfgWF_of_initOk c sh h1
  obtain ⟨C, _⟩ := init2 c sh nw h2
  obtain ⟨a, _, pv⟩ := global_all_invariants c sh nw h1 h2 h3 evs
  exact finish_needs_descendants_done (cfgOf c sh) W (colOf sh) C sh.typ (pipeStatic_of_initOk3 c sh h3) s a pv w p b hph hrel

/-! non-vacuity -/
example : initOk3 exCfg (parallelInit exCfg) = true := by decide
example : initOk3 exCfg2 (parallelInit exCfg2) = true := by decide

end Slu
