/-
C11 — equilibration: scale factors, application rule and reported flag agree.

Property theorems over Model/Equil.lean (exact rationals; `smlnum bignum small large thresh` are
parameters with `0 < smlnum ≤ bignum`).  Entry types: any `LawfulEntry` (instances: `Rat` with |x| for
the s/d routines, `Cx` with abs1 = |re|+|im| for the c/z routines).

  gsequ_cases            closed form of gsequ in its three outcomes (zero row / zero column / success)
  gsequ_zero_row         info = i+1 names the FIRST exactly-zero row, nothing but r/amax/info is written
  gsequ_zero_col         info = m+1+j names the FIRST exactly-zero column
  gsequ_info_zero_iff    info = 0 iff no row and no column is exactly zero
  gsequ_rows             r_i = 1/clip(rowmax_i) > 0, r_i·rowmax_i = 1 unless clipped, amax is the largest
                         magnitude, rowcnd as computed
  gsequ_rowcnd_partial   (forced hypothesis smlnum ≤ amax) rowcnd = (smallest r)/(largest r)
  gsequ_rowcnd_counterexample   without it the reported ratio is not a ratio of the factors (finding)
  gsequ_cols             the same for the columns of diag(R)·A, colcnd = (smallest c)/(largest c)
  gsequ_scaled_rows / gsequ_scaled_cols   the largest magnitude of every unclipped row of diag(R)·A and
                         column of diag(R)·A·diag(C) is exactly 1
  gsequ_empty, gsequ_badtype    quick return and argument check
  laqgs_table            the four-way decision
  laqgs_effect           A_out = diag(R)^a · A · diag(C)^b with (a,b) read off the flag; NOEQUIL ⇒ A unchanged
  laqgs_mag              magnitudes of the scaled entries
  gssvx_equil_frame      which of R / C multiplies B and X, for every (storage, trans, equed)
  gssvx_equil_outputs    the driver frame returns gsequ's R, C and laqgs's A and flag, B scaled by the rule;
                         flag NOEQUIL ⇒ A and B unchanged
  equil_solve_sound      the wiring is the mathematically right one: scaling back the solution of the
                         equilibrated system solves the original system
-/
import SluVerif.Proofs.EquilGsequ
import Mathlib.Algebra.BigOperators.Ring.Finset

set_option linter.unusedSectionVars false
set_option linter.unusedSimpArgs false

namespace Slu.Equil
open Entry

section gsequ
variable {E : Type} [Entry E] [Zero E] [LawfulEntry E]

/-- row `i` is exactly zero: every stored entry of the row is 0 (a row without stored entries is zero) -/
def RowZero (A : SpMat E) (i : Nat) : Prop := ∀ e ∈ A.stored, e.1 = i → e.2 = 0
/-- column `j` is exactly zero -/
def ColZero (A : SpMat E) (j : Nat) : Prop := ∀ e ∈ A.col j, e.2 = 0
/-- `i` is the first index below `n` with `p` -/
def IsFirst (p : Nat → Prop) (n i : Nat) : Prop := i < n ∧ p i ∧ ∀ k < i, ¬ p k

/-- all row indices in range, as a proposition -/
def SpMat.WF (A : SpMat E) : Prop := ∀ e ∈ A.stored, e.1 < A.nrow

theorem rowZero_iff (A : SpMat E) (i : Nat) : RowZero A i ↔ rowMax A i = 0 :=
  (rowMax_eq_zero_iff A i).symm

/-- the row scale factors gsequ returns when no row is zero: `1/clip(rowmax_i)` -/
def rowFactors (sml big : Rat) (A : SpMat E) : List Rat := (rowMaxPass A).map (clipInv sml big)

theorem rowFactors_get (sml big : Rat) (A : SpMat E) (i : Nat) (hi : i < A.nrow) :
    (rowFactors sml big A).getD i 0 = clipInv sml big (rowMax A i) := by
  unfold rowFactors
  rw [List.getD_eq_getElem?_getD, List.getElem?_map, rowMaxPass_get A i hi]; rfl

theorem gsequ_unfold (sml big : Rat) (A : SpMat E) (s : GsState) (hm : 0 < A.nrow) (hn : 0 < A.ncol) :
    gsequ true sml big A s =
      if (gsequRowPart sml big A s).2 then gsequColPart sml big A (gsequRowPart sml big A s).1
      else (gsequRowPart sml big A s).1 := by
  have h1 : (A.nrow == 0) = false := by simp; omega
  have h2 : (A.ncol == 0) = false := by simp; omega
  unfold gsequ
  simp [h1, h2]

/-- the column half in its two outcomes, for any incoming state -/
theorem gsequColPart_cases (sml big : Rat) (hbig : 0 < big) (A : SpMat E) (s2 : GsState) :
    (∃ j, IsFirst (fun j => colMaxS A s2.r j = 0) A.ncol j ∧
      gsequColPart sml big A s2 =
        { s2 with c := colMaxPass A s2.r, info := (A.nrow : Int) + (j : Int) + 1 }) ∨
    ((∀ j < A.ncol, colMaxS A s2.r j ≠ 0) ∧
      gsequColPart sml big A s2 =
        { s2 with c := (colMaxPass A s2.r).map (clipInv sml big),
                  colcnd := max (fmin big (colMaxPass A s2.r)) sml / min (fmax 0 (colMaxPass A s2.r)) big }) := by
  cases hz2 : firstZero (colMaxPass A s2.r) with
  | some j =>
    left
    exact ⟨j, (firstZero_cols_iff A _ j).mp hz2, gsequColPart_zero sml big hbig A s2 j hz2⟩
  | none =>
    right
    exact ⟨(firstZero_cols_none_iff A _).mp hz2, gsequColPart_ok sml big hbig A s2 hz2⟩

/-- **Closed form of gsequ.**  Exactly one of three things happens, in the order the code tests them:
a first zero row `i` (early return, only `r` := raw maxima, `amax`, `info = i+1` written);
else a first zero column `j` of `diag(R)·A` (`c` := raw scaled maxima, `info = m+j+1`, `colcnd` untouched);
else success. -/
theorem gsequ_cases (sml big : Rat) (hs : 0 < sml) (hb : sml ≤ big) (A : SpMat E) (s : GsState)
    (hm : 0 < A.nrow) (hn : 0 < A.ncol) :
    (∃ i, IsFirst (fun i => rowMax A i = 0) A.nrow i ∧
      gsequ true sml big A s =
        { s with r := rowMaxPass A, amax := fmax 0 (rowMaxPass A), info := (i : Int) + 1 }) ∨
    ((∀ i < A.nrow, rowMax A i ≠ 0) ∧
      ∃ j, IsFirst (fun j => colMaxS A (rowFactors sml big A) j = 0) A.ncol j ∧
      gsequ true sml big A s =
        { s with r := rowFactors sml big A, amax := fmax 0 (rowMaxPass A),
                 rowcnd := max (fmin big (rowMaxPass A)) sml / min (fmax 0 (rowMaxPass A)) big,
                 c := colMaxPass A (rowFactors sml big A),
                 info := (A.nrow : Int) + (j : Int) + 1 }) ∨
    ((∀ i < A.nrow, rowMax A i ≠ 0) ∧ (∀ j < A.ncol, colMaxS A (rowFactors sml big A) j ≠ 0) ∧
      gsequ true sml big A s =
        { s with r := rowFactors sml big A, amax := fmax 0 (rowMaxPass A),
                 rowcnd := max (fmin big (rowMaxPass A)) sml / min (fmax 0 (rowMaxPass A)) big,
                 c := (colMaxPass A (rowFactors sml big A)).map (clipInv sml big),
                 colcnd := max (fmin big (colMaxPass A (rowFactors sml big A))) sml /
                           min (fmax 0 (colMaxPass A (rowFactors sml big A))) big,
                 info := 0 }) := by
  have hbig : 0 < big := lt_of_lt_of_le hs hb
  rw [gsequ_unfold sml big A s hm hn]
  cases hz : firstZero (rowMaxPass A) with
  | some i =>
    left
    refine ⟨i, (firstZero_rows_iff A i).mp hz, ?_⟩
    rw [gsequRowPart_zero sml big hbig A s i hz]
    simp
  | none =>
    right
    have hrows := (firstZero_rows_none_iff A).mp hz
    rw [gsequRowPart_ok sml big hbig A s hz]
    simp only [if_true]
    rcases gsequColPart_cases sml big hbig A
        { s with r := rowFactors sml big A, amax := fmax 0 (rowMaxPass A), info := 0,
                 rowcnd := max (fmin big (rowMaxPass A)) sml / min (fmax 0 (rowMaxPass A)) big }
      with ⟨j, hj, heq⟩ | ⟨hcols, heq⟩
    · left
      exact ⟨hrows, j, hj, heq⟩
    · right
      exact ⟨hrows, hcols, heq⟩

/-- positivity of the returned row factors -/
theorem rowFactors_pos (sml big : Rat) (hs : 0 < sml) (hb : sml ≤ big) (A : SpMat E) :
    ∀ y ∈ rowFactors sml big A, 0 < y := by
  intro y hy
  obtain ⟨x, _, rfl⟩ := List.mem_map.mp hy
  exact clipInv_pos sml big x hs hb

/-- a column of `diag(R)·A` is zero exactly when the column of `A` is (R is positive). -/
theorem colMaxS_rowFactors_zero_iff (sml big : Rat) (hs : 0 < sml) (hb : sml ≤ big) (A : SpMat E)
    (hwf : A.WF) (j : Nat) : colMaxS A (rowFactors sml big A) j = 0 ↔ ColZero A j := by
  apply colMaxS_eq_zero_iff
  intro e he
  have hlt : e.1 < A.nrow := hwf e (A.col_mem_stored j e he)
  rw [rowFactors_get sml big A e.1 hlt]
  exact clipInv_pos sml big _ hs hb

/-- **gsequ_zero_row.**  `info = i+1` (with `i < m`) exactly when `i` is the FIRST exactly-zero row;
in that case only `r` (raw row maxima), `amax` and `info` are written. -/
theorem gsequ_zero_row (sml big : Rat) (hs : 0 < sml) (hb : sml ≤ big) (A : SpMat E) (s : GsState)
    (hm : 0 < A.nrow) (hn : 0 < A.ncol) (i : Nat) :
    (IsFirst (RowZero A) A.nrow i ↔ (i < A.nrow ∧ (gsequ true sml big A s).info = (i : Int) + 1)) ∧
    (IsFirst (RowZero A) A.nrow i →
      gsequ true sml big A s =
        { s with r := (List.range A.nrow).map (rowMax A), amax := fmax 0 (rowMaxPass A), info := (i : Int) + 1 }) := by
  have key : ∀ k, IsFirst (RowZero A) A.nrow k ↔ IsFirst (fun i => rowMax A i = 0) A.nrow k := by
    intro k
    unfold IsFirst
    simp only [rowZero_iff]
  have uniq : ∀ a b, IsFirst (fun i => rowMax A i = 0) A.nrow a → IsFirst (fun i => rowMax A i = 0) A.nrow b → a = b := by
    intro a b ⟨_, ha, ha'⟩ ⟨_, hb', hb''⟩
    rcases Nat.lt_trichotomy a b with h | h | h
    · exact absurd ha (hb'' a h)
    · exact h
    · exact absurd hb' (ha' b h)
  rcases gsequ_cases sml big hs hb A s hm hn with ⟨k, hk, heq⟩ | ⟨hrows, j, _, heq⟩ | ⟨hrows, _, heq⟩
  · constructor
    · constructor
      · intro h
        have := uniq i k ((key i).mp h) hk
        subst this
        exact ⟨hk.1, by rw [heq]⟩
      · intro ⟨_, h⟩
        rw [heq] at h
        have : (k : Int) = i := by simpa using h
        have : k = i := by exact_mod_cast this
        subst this
        exact (key k).mpr hk
    · intro h
      have := uniq i k ((key i).mp h) hk
      subst this
      rw [heq, rowMaxPass_eq_map]
  · constructor
    · constructor
      · intro h; exact absurd ((key i).mp h).2.1 (hrows i h.1)
      · intro ⟨hi, h⟩
        rw [heq] at h
        simp at h
        omega
    · intro h; exact absurd ((key i).mp h).2.1 (hrows i h.1)
  · constructor
    · constructor
      · intro h; exact absurd ((key i).mp h).2.1 (hrows i h.1)
      · intro ⟨hi, h⟩
        rw [heq] at h
        simp at h
        omega
    · intro h; exact absurd ((key i).mp h).2.1 (hrows i h.1)

/-- **gsequ_zero_col.**  When no row is zero, `info = m+1+j` exactly when `j` is the FIRST exactly-zero
column; then `colcnd` is not written and `c` holds the raw scaled column maxima. -/
theorem gsequ_zero_col (sml big : Rat) (hs : 0 < sml) (hb : sml ≤ big) (A : SpMat E) (s : GsState)
    (hm : 0 < A.nrow) (hn : 0 < A.ncol) (hwf : A.WF) (hrows : ∀ i < A.nrow, ¬ RowZero A i) (j : Nat) :
    (IsFirst (ColZero A) A.ncol j ↔
      (j < A.ncol ∧ (gsequ true sml big A s).info = (A.nrow : Int) + 1 + (j : Int))) ∧
    (IsFirst (ColZero A) A.ncol j →
      (gsequ true sml big A s).colcnd = s.colcnd ∧
      (gsequ true sml big A s).r = rowFactors sml big A ∧
      (gsequ true sml big A s).c = (List.range A.ncol).map (colMaxS A (rowFactors sml big A))) := by
  have key : ∀ k, IsFirst (ColZero A) A.ncol k ↔
      IsFirst (fun j => colMaxS A (rowFactors sml big A) j = 0) A.ncol k := by
    intro k
    unfold IsFirst
    simp only [colMaxS_rowFactors_zero_iff sml big hs hb A hwf]
  have uniq : ∀ a b, IsFirst (fun j => colMaxS A (rowFactors sml big A) j = 0) A.ncol a →
      IsFirst (fun j => colMaxS A (rowFactors sml big A) j = 0) A.ncol b → a = b := by
    intro a b ⟨_, ha, ha'⟩ ⟨_, hb', hb''⟩
    rcases Nat.lt_trichotomy a b with h | h | h
    · exact absurd ha (hb'' a h)
    · exact h
    · exact absurd hb' (ha' b h)
  rcases gsequ_cases sml big hs hb A s hm hn with ⟨k, hk, _⟩ | ⟨_, k, hk, heq⟩ | ⟨_, hcols, heq⟩
  · exact absurd ((rowZero_iff A k).mpr hk.2.1) (hrows k hk.1)
  · constructor
    · constructor
      · intro h
        have := uniq j k ((key j).mp h) hk
        subst this
        refine ⟨hk.1, ?_⟩
        rw [heq]; simp; omega
      · intro ⟨_, h⟩
        rw [heq] at h
        have : k = j := by simp at h; omega
        subst this
        exact (key k).mpr hk
    · intro h
      rw [heq]
      exact ⟨rfl, rfl, colMaxPass_eq_map A _⟩
  · constructor
    · constructor
      · intro h; exact absurd ((key j).mp h).2.1 (hcols j h.1)
      · intro ⟨_, h⟩
        rw [heq] at h
        simp at h
        omega
    · intro h; exact absurd ((key j).mp h).2.1 (hcols j h.1)

/-- **info = 0 iff nothing is exactly zero.** -/
theorem gsequ_info_zero_iff (sml big : Rat) (hs : 0 < sml) (hb : sml ≤ big) (A : SpMat E) (s : GsState)
    (hm : 0 < A.nrow) (hn : 0 < A.ncol) (hwf : A.WF) :
    (gsequ true sml big A s).info = 0 ↔
      (∀ i < A.nrow, ¬ RowZero A i) ∧ (∀ j < A.ncol, ¬ ColZero A j) := by
  rcases gsequ_cases sml big hs hb A s hm hn with ⟨k, hk, heq⟩ | ⟨hrows, k, hk, heq⟩ | ⟨hrows, hcols, heq⟩
  · constructor
    · intro h; rw [heq] at h; simp at h; omega
    · intro ⟨h, _⟩; exact absurd ((rowZero_iff A k).mpr hk.2.1) (h k hk.1)
  · constructor
    · intro h; rw [heq] at h; simp at h; omega
    · intro ⟨_, h⟩
      exact absurd ((colMaxS_rowFactors_zero_iff sml big hs hb A hwf k).mp hk.2.1) (h k hk.1)
  · constructor
    · intro _
      refine ⟨fun i hi h => hrows i hi ((rowZero_iff A i).mp h), fun j hj h => hcols j hj ?_⟩
      exact (colMaxS_rowFactors_zero_iff sml big hs hb A hwf j).mpr h
    · intro _; rw [heq]

/-- `amax` as gsequ computes it is the largest magnitude of the matrix. -/
theorem amax_spec (A : SpMat E) (hwf : A.WF) :
    (∀ e ∈ A.stored, mag e.2 ≤ fmax 0 (rowMaxPass A)) ∧
    (fmax 0 (rowMaxPass A) = 0 ∨ ∃ e ∈ A.stored, mag e.2 = fmax 0 (rowMaxPass A)) := by
  constructor
  · intro e he
    have h1 := rowMax_ge A e he
    have h2 : rowMax A e.1 ∈ rowMaxPass A := by
      rw [rowMaxPass_eq_map]; exact List.mem_map.mpr ⟨e.1, List.mem_range.mpr (hwf e he), rfl⟩
    exact le_trans h1 (fmax_ge_mem 0 _ _ h2)
  · rcases fmax_mem_or_init 0 (rowMaxPass A) with h | h
    · left; exact h
    · rw [rowMaxPass_eq_map] at h
      obtain ⟨i, _, hi⟩ := List.mem_map.mp h
      rcases rowMax_attained A i with h0 | ⟨e, he, _, hmag⟩
      · left; rw [rowMaxPass_eq_map, ← hi]; exact h0
      · right; exact ⟨e, he, by rw [hmag, rowMaxPass_eq_map, hi]⟩

/-- **gsequ_rows.**  If no row is exactly zero then, whatever happens in the column half:
every `r_i = 1/clip(rowmax_i)` is positive, `r_i · rowmax_i = 1` unless `rowmax_i` is clipped,
`amax` is the largest magnitude, `rowcnd = max(min(min_i rowmax_i, bignum), smlnum) / min(amax, bignum)`,
and `info` is 0 or names a column. -/
theorem gsequ_rows (sml big : Rat) (hs : 0 < sml) (hb : sml ≤ big) (A : SpMat E) (s : GsState)
    (hm : 0 < A.nrow) (hn : 0 < A.ncol) (hwf : A.WF) (hrows : ∀ i < A.nrow, ¬ RowZero A i) :
    let o := gsequ true sml big A s
    o.r = (List.range A.nrow).map (fun i => clipInv sml big (rowMax A i)) ∧
    (∀ y ∈ o.r, 0 < y) ∧
    (∀ i < A.nrow, sml ≤ rowMax A i → rowMax A i ≤ big → o.r.getD i 0 * rowMax A i = 1) ∧
    ((∀ e ∈ A.stored, mag e.2 ≤ o.amax) ∧ ∃ e ∈ A.stored, mag e.2 = o.amax) ∧
    o.rowcnd = max (fmin big ((List.range A.nrow).map (rowMax A))) sml / min o.amax big ∧
    (o.info = 0 ∨ (A.nrow : Int) < o.info) := by
  intro o
  have hr : o.r = rowFactors sml big A ∧ o.amax = fmax 0 (rowMaxPass A) ∧
      o.rowcnd = max (fmin big (rowMaxPass A)) sml / min (fmax 0 (rowMaxPass A)) big ∧
      (o.info = 0 ∨ (A.nrow : Int) < o.info) := by
    rcases gsequ_cases sml big hs hb A s hm hn with ⟨k, hk, _⟩ | ⟨_, k, _, heq⟩ | ⟨_, _, heq⟩
    · exact absurd ((rowZero_iff A k).mpr hk.2.1) (hrows k hk.1)
    · show (gsequ true sml big A s).r = _ ∧ (gsequ true sml big A s).amax = _ ∧
        (gsequ true sml big A s).rowcnd = _ ∧ ((gsequ true sml big A s).info = 0 ∨ (A.nrow : Int) < (gsequ true sml big A s).info)
      rw [heq]; refine ⟨rfl, rfl, rfl, Or.inr ?_⟩; show (A.nrow : Int) < (A.nrow : Int) + (k : Int) + 1; omega
    · show (gsequ true sml big A s).r = _ ∧ (gsequ true sml big A s).amax = _ ∧
        (gsequ true sml big A s).rowcnd = _ ∧ ((gsequ true sml big A s).info = 0 ∨ (A.nrow : Int) < (gsequ true sml big A s).info)
      rw [heq]; exact ⟨rfl, rfl, rfl, Or.inl rfl⟩
  obtain ⟨h1, h2, h3, h4⟩ := hr
  refine ⟨?_, ?_, ?_, ?_, ?_, h4⟩
  · rw [h1]; unfold rowFactors; rw [rowMaxPass_eq_map, List.map_map]; rfl
  · rw [h1]; exact rowFactors_pos sml big hs hb A
  · intro i hi hlo hhi
    rw [h1, rowFactors_get sml big A i hi]
    exact clipInv_mul_self sml big _ hs hlo hhi
  · rw [h2]
    obtain ⟨ha, hb'⟩ := amax_spec A hwf
    refine ⟨ha, ?_⟩
    rcases hb' with h0 | h0
    · exfalso
      have hmem : rowMax A 0 ∈ rowMaxPass A := by
        rw [rowMaxPass_eq_map]; exact List.mem_map.mpr ⟨0, List.mem_range.mpr hm, rfl⟩
      have hle := fmax_ge_mem 0 _ _ hmem
      rw [h0] at hle
      exact hrows 0 hm ((rowZero_iff A 0).mpr (le_antisymm hle (rowMax_nonneg A 0)))
    · exact h0
  · rw [h3, h2, rowMaxPass_eq_map]

/-- **gsequ_rowcnd_partial.**  Provided the largest magnitude is not below `smlnum`, the reported
`rowcnd` is the true ratio (smallest returned row factor) / (largest returned row factor). -/
theorem gsequ_rowcnd_partial (sml big : Rat) (hs : 0 < sml) (hb : sml ≤ big) (A : SpMat E) (s : GsState)
    (hm : 0 < A.nrow) (hn : 0 < A.ncol) (hrows : ∀ i < A.nrow, ¬ RowZero A i)
    (hamax : sml ≤ (gsequ true sml big A s).amax) :
    let o := gsequ true sml big A s
    ∃ ra ∈ o.r, ∃ rb ∈ o.r, (∀ y ∈ o.r, ra ≤ y ∧ y ≤ rb) ∧ o.rowcnd = ra / rb := by
  intro o
  have hne : rowMaxPass A ≠ [] := by
    intro h
    have := rowMaxPass_length A
    rw [h] at this; simp at this; omega
  have hr : o.r = rowFactors sml big A ∧ o.amax = fmax 0 (rowMaxPass A) ∧
      o.rowcnd = max (fmin big (rowMaxPass A)) sml / min (fmax 0 (rowMaxPass A)) big := by
    rcases gsequ_cases sml big hs hb A s hm hn with ⟨k, hk, _⟩ | ⟨_, k, _, heq⟩ | ⟨_, _, heq⟩
    · exact absurd ((rowZero_iff A k).mpr hk.2.1) (hrows k hk.1)
    · show (gsequ true sml big A s).r = _ ∧ (gsequ true sml big A s).amax = _ ∧
        (gsequ true sml big A s).rowcnd = _
      rw [heq]; exact ⟨rfl, rfl, rfl⟩
    · show (gsequ true sml big A s).r = _ ∧ (gsequ true sml big A s).amax = _ ∧
        (gsequ true sml big A s).rowcnd = _
      rw [heq]; exact ⟨rfl, rfl, rfl⟩
  obtain ⟨h1, h2, h3⟩ := hr
  have hamax' : sml ≤ fmax 0 (rowMaxPass A) := by rw [← h2]; exact hamax
  rw [h1, h3]
  exact ratio_is_min_over_max sml big hs hb (rowMaxPass A) hne hamax'

/-- **gsequ_cols.**  If neither a row nor a column is exactly zero then `info = 0`,
`c_j = 1/clip(colmax_j)` with `colmax_j` the largest magnitude of column `j` of `diag(R)·A`, every `c_j`
is positive, `c_j · colmax_j = 1` unless clipped, `colcnd` is the formula of the code, and — when the
largest scaled column maximum is not below `smlnum` — it is (smallest c)/(largest c). -/
theorem gsequ_cols (sml big : Rat) (hs : 0 < sml) (hb : sml ≤ big) (A : SpMat E) (s : GsState)
    (hm : 0 < A.nrow) (hn : 0 < A.ncol) (hwf : A.WF)
    (hrows : ∀ i < A.nrow, ¬ RowZero A i) (hcols : ∀ j < A.ncol, ¬ ColZero A j) :
    let o := gsequ true sml big A s
    o.info = 0 ∧
    o.c = (List.range A.ncol).map (fun j => clipInv sml big (colMaxS A o.r j)) ∧
    (∀ y ∈ o.c, 0 < y) ∧
    (∀ j < A.ncol, sml ≤ colMaxS A o.r j → colMaxS A o.r j ≤ big → o.c.getD j 0 * colMaxS A o.r j = 1) ∧
    o.colcnd = max (fmin big ((List.range A.ncol).map (colMaxS A o.r))) sml /
               min (fmax 0 ((List.range A.ncol).map (colMaxS A o.r))) big ∧
    (sml ≤ fmax 0 ((List.range A.ncol).map (colMaxS A o.r)) →
      ∃ ca ∈ o.c, ∃ cb ∈ o.c, (∀ y ∈ o.c, ca ≤ y ∧ y ≤ cb) ∧ o.colcnd = ca / cb) := by
  intro o
  have hinfo : o.info = 0 := (gsequ_info_zero_iff sml big hs hb A s hm hn hwf).mpr ⟨hrows, hcols⟩
  have hr : o.r = rowFactors sml big A ∧
      o.c = (colMaxPass A (rowFactors sml big A)).map (clipInv sml big) ∧
      o.colcnd = max (fmin big (colMaxPass A (rowFactors sml big A))) sml /
                 min (fmax 0 (colMaxPass A (rowFactors sml big A))) big := by
    rcases gsequ_cases sml big hs hb A s hm hn with ⟨k, hk, _⟩ | ⟨_, k, hk, _⟩ | ⟨_, _, heq⟩
    · exact absurd ((rowZero_iff A k).mpr hk.2.1) (hrows k hk.1)
    · exact absurd ((colMaxS_rowFactors_zero_iff sml big hs hb A hwf k).mp hk.2.1) (hcols k hk.1)
    · show (gsequ true sml big A s).r = _ ∧ (gsequ true sml big A s).c = _ ∧ (gsequ true sml big A s).colcnd = _
      rw [heq]; exact ⟨rfl, rfl, rfl⟩
  obtain ⟨h1, h2, h3⟩ := hr
  have hne : colMaxPass A (rowFactors sml big A) ≠ [] := by
    intro h
    have := colMaxPass_length A (rowFactors sml big A)
    rw [h] at this; simp at this; omega
  refine ⟨hinfo, ?_, ?_, ?_, ?_, ?_⟩
  · rw [h2, h1, colMaxPass_eq_map, List.map_map]; rfl
  · rw [h2]; intro y hy
    obtain ⟨x, _, rfl⟩ := List.mem_map.mp hy
    exact clipInv_pos sml big x hs hb
  · intro j hj hlo hhi
    rw [h2, List.getD_eq_getElem?_getD, List.getElem?_map, colMaxPass_getD A _ j hj]
    rw [h1] at hlo hhi ⊢
    exact clipInv_mul_self sml big _ hs hlo hhi
  · rw [h3, h1, colMaxPass_eq_map]
  · intro hmax
    rw [h1, ← colMaxPass_eq_map] at hmax
    rw [h2, h3]
    exact ratio_is_min_over_max sml big hs hb _ hne hmax

/-- **gsequ_scaled_rows.**  "The largest magnitude of every row of diag(R)·A is 1": for an unclipped
row every scaled magnitude `r_i·|a|` is at most 1 and one of them equals 1. -/
theorem gsequ_scaled_rows (sml big : Rat) (hs : 0 < sml) (hb : sml ≤ big) (A : SpMat E) (s : GsState)
    (hm : 0 < A.nrow) (hn : 0 < A.ncol) (hwf : A.WF) (hrows : ∀ i < A.nrow, ¬ RowZero A i)
    (i : Nat) (hi : i < A.nrow) (hlo : sml ≤ rowMax A i) (hhi : rowMax A i ≤ big) :
    let o := gsequ true sml big A s
    (∀ e ∈ A.stored, e.1 = i → mag (smul (o.r.getD i 0) e.2) ≤ 1) ∧
    (∃ e ∈ A.stored, e.1 = i ∧ mag (smul (o.r.getD i 0) e.2) = 1) := by
  intro o
  obtain ⟨_, hpos, hone, _, _, _⟩ := gsequ_rows sml big hs hb A s hm hn hwf hrows
  have h1 := hone i hi hlo hhi
  have hx : 0 < rowMax A i := lt_of_lt_of_le hs hlo
  have hri : 0 < o.r.getD i 0 := by
    by_contra hcon
    have : o.r.getD i 0 * rowMax A i ≤ 0 := mul_nonpos_of_nonpos_of_nonneg (not_lt.mp hcon) (le_of_lt hx)
    show False
    have h1' : (gsequ true sml big A s).r.getD i 0 * rowMax A i = 1 := h1
    linarith
  constructor
  · intro e he hei
    rw [LawfulEntry.mag_smul, abs_of_pos hri]
    have hle := rowMax_ge A e he
    rw [hei] at hle
    have h1' : (gsequ true sml big A s).r.getD i 0 * rowMax A i = 1 := h1
    calc o.r.getD i 0 * mag e.2 ≤ o.r.getD i 0 * rowMax A i := mul_le_mul_of_nonneg_left hle (le_of_lt hri)
      _ = 1 := h1'
  · rcases rowMax_attained A i with h0 | ⟨e, he, hei, hmag⟩
    · exact absurd h0 (ne_of_gt hx)
    · refine ⟨e, he, hei, ?_⟩
      rw [LawfulEntry.mag_smul, abs_of_pos hri, hmag]
      exact h1

/-- **gsequ_scaled_cols.**  For an unclipped column of `diag(R)·A`, every magnitude of column `j` of
`diag(R)·A·diag(C)` is at most 1 and one of them equals 1. -/
theorem gsequ_scaled_cols (sml big : Rat) (hs : 0 < sml) (hb : sml ≤ big) (A : SpMat E) (s : GsState)
    (hm : 0 < A.nrow) (hn : 0 < A.ncol) (hwf : A.WF)
    (hrows : ∀ i < A.nrow, ¬ RowZero A i) (hcols : ∀ j < A.ncol, ¬ ColZero A j)
    (j : Nat) (hj : j < A.ncol) :
    let o := gsequ true sml big A s
    sml ≤ colMaxS A o.r j → colMaxS A o.r j ≤ big →
    (∀ e ∈ A.col j, mag (smul (o.c.getD j 0 * o.r.getD e.1 0) e.2) ≤ 1) ∧
    (∃ e ∈ A.col j, mag (smul (o.c.getD j 0 * o.r.getD e.1 0) e.2) = 1) := by
  intro o hlo hhi
  obtain ⟨_, hrpos, _, _, _, _⟩ := gsequ_rows sml big hs hb A s hm hn hwf hrows
  obtain ⟨_, _, _, hone, _, _⟩ := gsequ_cols sml big hs hb A s hm hn hwf hrows hcols
  have h1 : o.c.getD j 0 * colMaxS A o.r j = 1 := hone j hj hlo hhi
  have hx : 0 < colMaxS A o.r j := lt_of_lt_of_le hs hlo
  have hcj : 0 < o.c.getD j 0 := by
    by_contra hcon
    have : o.c.getD j 0 * colMaxS A o.r j ≤ 0 := mul_nonpos_of_nonpos_of_nonneg (not_lt.mp hcon) (le_of_lt hx)
    linarith
  have hre : ∀ e ∈ A.col j, 0 ≤ o.r.getD e.1 0 := by
    intro e _
    rw [List.getD_eq_getElem?_getD]
    cases h : o.r[e.1]? with
    | none => simp
    | some y => simp; exact le_of_lt (hrpos y (List.mem_of_getElem? h))
  have hval : ∀ e ∈ A.col j, mag (smul (o.c.getD j 0 * o.r.getD e.1 0) e.2) =
      o.c.getD j 0 * (mag e.2 * o.r.getD e.1 0) := by
    intro e he
    rw [LawfulEntry.mag_smul, abs_of_nonneg (mul_nonneg (le_of_lt hcj) (hre e he))]; ring
  constructor
  · intro e he
    rw [hval e he]
    calc o.c.getD j 0 * (mag e.2 * o.r.getD e.1 0) ≤ o.c.getD j 0 * colMaxS A o.r j :=
          mul_le_mul_of_nonneg_left (colMaxS_ge A o.r j e he) (le_of_lt hcj)
      _ = 1 := h1
  · rcases colMaxS_attained A o.r j with h0 | ⟨e, he, hmag⟩
    · exact absurd h0 (ne_of_gt hx)
    · exact ⟨e, he, by rw [hval e he, hmag]; exact h1⟩

/-- quick return -/
theorem gsequ_empty (sml big : Rat) (A : SpMat E) (s : GsState) (h : A.nrow = 0 ∨ A.ncol = 0) :
    gsequ true sml big A s = { s with rowcnd := 1, colcnd := 1, amax := 0, info := 0 } := by
  unfold gsequ
  rcases h with h | h <;> simp [h]

/-- argument check: nothing but `info = -1` is written -/
theorem gsequ_badtype (sml big : Rat) (A : SpMat E) (s : GsState) :
    gsequ false sml big A s = { s with info := -1 } := by
  unfold gsequ; simp

end gsequ

/-! ### non-vacuity of the gsequ theorems and the forced-hypothesis counterexample -/

section examples

/-- `[[4,0],[1,2]]` in compressed-column form -/
def exA : SpMat Rat := ⟨2, [[(0, 4), (1, 1)], [(1, 2)]]⟩
/-- `[[4,0],[0,0]]` with a stored zero: row 1 and column 1 are exactly zero -/
def exZ : SpMat Rat := ⟨2, [[(0, 4)], [(1, 0)]]⟩
/-- `[[4,0],[1,0]]`: no zero row?  row 1 = (1,0) is not zero, column 1 is -/
def exC : SpMat Rat := ⟨2, [[(0, 4), (1, 1)], []]⟩
def exS : GsState := { r := [7, 7], c := [8, 8], rowcnd := -5, colcnd := -6, amax := -7, info := -9 }

theorem exA_wf : exA.WF := by
  intro e he; simp [SpMat.stored, exA] at he; rcases he with rfl | rfl | rfl <;> simp [exA]
theorem exA_rows : ∀ i < exA.nrow, ¬ RowZero exA i := by
  intro i hi h
  have hi' : i = 0 ∨ i = 1 := by have : i < 2 := hi; omega
  rcases hi' with rfl | rfl
  · have := h (0, 4) (by simp [SpMat.stored, exA]) rfl; norm_num at this
  · have := h (1, 2) (by simp [SpMat.stored, exA]) rfl; norm_num at this
theorem exA_cols : ∀ j < exA.ncol, ¬ ColZero exA j := by
  intro j hj h
  have hj' : j = 0 ∨ j = 1 := by have : j < 2 := hj; omega
  rcases hj' with rfl | rfl
  · have := h (0, 4) (by simp [SpMat.col, exA]); norm_num at this
  · have := h (1, 2) (by simp [SpMat.col, exA]); norm_num at this

-- gsequ_rows / gsequ_cols / gsequ_info_zero_iff are not vacuous: their hypotheses hold for exA …
example : (gsequ true (1/8) 8 exA exS).info = 0 :=
  (gsequ_cols (1/8) 8 (by norm_num) (by norm_num) exA exS (by decide) (by decide) exA_wf exA_rows exA_cols).1
-- … and the model really computes R = (1/4, 1/2), C = (1, 1), ratios 1/2 and 1, amax 4
example : gsequ true (1/8) 8 exA exS =
    { r := [1/4, 1/2], c := [1, 1], rowcnd := 1/2, colcnd := 1, amax := 4, info := 0 } := by decide +kernel
-- gsequ_zero_row: first zero row is 1 → info = 2, c / rowcnd / colcnd keep their incoming values
example : gsequ true (1/8) 8 exZ exS =
    { r := [4, 0], c := [8, 8], rowcnd := -5, colcnd := -6, amax := 4, info := 2 } := by decide +kernel
example : IsFirst (RowZero exZ) exZ.nrow 1 := by
  refine ⟨by decide, ?_, ?_⟩
  · intro e he h1; simp [SpMat.stored, exZ] at he; rcases he with rfl | rfl
    · simp at h1
    · rfl
  · intro k hk h
    have : k = 0 := by omega
    subst this
    have := h (0, 4) (by simp [SpMat.stored, exZ]) rfl; norm_num at this
-- gsequ_zero_col: column 1 of exC is empty → info = m+1+1 = 4, colcnd keeps its incoming value
example : gsequ true (1/8) 8 exC exS =
    { r := [1/4, 1], c := [1, 0], rowcnd := 1/4, colcnd := -6, amax := 4, info := 4 } := by decide +kernel
-- quick return and argument check
example : gsequ true (1/8) 8 (⟨0, [[], []]⟩ : SpMat Rat) exS = { exS with rowcnd := 1, colcnd := 1, amax := 0, info := 0 } :=
  gsequ_empty _ _ _ _ (Or.inl rfl)
-- complex instance: abs1(3 - 4i) = 7
example : (gsequ true (1/8) 8 (⟨1, [[(0, (⟨3, -4⟩ : Cx))]]⟩ : SpMat Cx) exS).r = [1/7] := by decide +kernel

/-- **Counterexample (finding `gsequ:rowcnd-above-one`).**  When every magnitude is below `smlnum`
(here smlnum = 1/2, bignum = 2, A = [1/8]) the hypothesis `smlnum ≤ amax` of `gsequ_rowcnd_partial`
fails and so does its conclusion: the only row factor is 2, so (smallest r)/(largest r) = 1, but the
routine reports `rowcnd = smlnum/amax = 4`. -/
theorem gsequ_rowcnd_counterexample :
    let A : SpMat Rat := ⟨1, [[(0, (1/8 : Rat))]]⟩
    let o := gsequ true (1/2) 2 A exS
    o.info = 0 ∧ o.r = [2] ∧ o.amax = 1/8 ∧ o.rowcnd = 4 ∧
    ¬ ∃ ra ∈ o.r, ∃ rb ∈ o.r, o.rowcnd = ra / rb := by
  refine ⟨by decide +kernel, by decide +kernel, by decide +kernel, by decide +kernel, ?_⟩
  have hr : (gsequ true (1/2) 2 (⟨1, [[(0, (1/8 : Rat))]]⟩ : SpMat Rat) exS).r = [2] := by decide +kernel
  have hc : (gsequ true (1/2) 2 (⟨1, [[(0, (1/8 : Rat))]]⟩ : SpMat Rat) exS).rowcnd = 4 := by decide +kernel
  rintro ⟨ra, hra, rb, hrb, h⟩
  rw [hr] at hra hrb
  rw [hc] at h
  simp at hra hrb
  subst hra; subst hrb
  norm_num at h

end examples

/-! ### ?laqgs -/

section laqgs
variable {E : Type} [Entry E] [Zero E] [LawfulEntry E]

/-- **laqgs_table.**  The returned flag as a function of the ratios and `amax`: row scaling iff
`rowcnd < thresh ∨ amax < small ∨ amax > large`, column scaling iff `colcnd < thresh`. -/
theorem laqgs_table (small large thresh : Rat) (A : SpMat E) (r c : List Rat) (rowcnd colcnd amax : Rat)
    (hm : 0 < A.nrow) (hn : 0 < A.ncol) :
    let f := (laqgs small large thresh A r c rowcnd colcnd amax).2
    (f = laqgsFlag small large thresh rowcnd colcnd amax) ∧
    (f.rowequ = true ↔ (rowcnd < thresh ∨ amax < small ∨ large < amax)) ∧
    (f.colequ = true ↔ colcnd < thresh) := by
  have h1 : (A.nrow == 0) = false := by simp; omega
  have h2 : (A.ncol == 0) = false := by simp; omega
  unfold laqgs laqgsFlag
  simp only [h1, h2, Bool.or_self, Bool.false_eq_true, if_false]
  rcases lt_or_ge rowcnd thresh with hr | hr <;> rcases lt_or_ge amax small with ha1 | ha1 <;>
    rcases lt_or_ge large amax with ha2 | ha2 <;> rcases lt_or_ge colcnd thresh with hc | hc <;>
    simp [hr, ha1, ha2, hc, not_le.mpr, not_lt.mpr, Equed.rowequ, Equed.colequ]

/-- quick return of laqgs on an empty matrix -/
theorem laqgs_empty (small large thresh : Rat) (A : SpMat E) (r c : List Rat) (rowcnd colcnd amax : Rat)
    (h : A.nrow = 0 ∨ A.ncol = 0) :
    laqgs small large thresh A r c rowcnd colcnd amax = (A, .noequil) := by
  unfold laqgs
  rcases h with h | h <;> simp [h]

theorem mapIdx_map_id {α : Type} (l : List (List α)) (f : Nat → α → α) (h : ∀ j a, f j a = a) :
    l.mapIdx (fun j col => col.map (f j)) = l := by
  apply List.ext_getElem?
  intro j
  rw [List.getElem?_mapIdx]
  cases l[j]? with
  | none => rfl
  | some col =>
    simp only [Option.map_some, Option.some.injEq]
    have : f j = id := funext (h j)
    rw [this, List.map_id]

/-- **laqgs_effect.**  `A_out = diag(R)^a · A · diag(C)^b` entry by entry (same pattern, same order),
where `a = 1` iff the returned flag is ROW or BOTH and `b = 1` iff it is COL or BOTH;
with flag NOEQUIL the matrix is returned unchanged. -/
theorem laqgs_effect (small large thresh : Rat) (A : SpMat E) (r c : List Rat) (rowcnd colcnd amax : Rat) :
    let out := laqgs small large thresh A r c rowcnd colcnd amax
    out.1.nrow = A.nrow ∧
    out.1.cols = A.cols.mapIdx (fun j col => col.map (fun e =>
      (e.1, smul ((if out.2.colequ then c.getD j 0 else 1) * (if out.2.rowequ then r.getD e.1 0 else 1)) e.2))) ∧
    (out.2 = .noequil → out.1 = A) := by
  have hid : A.cols = A.cols.mapIdx (fun j col => col.map (fun e => (e.1, smul ((1 : Rat) * 1) e.2))) := by
    symm
    apply mapIdx_map_id A.cols (fun _ e => (e.1, smul ((1 : Rat) * 1) e.2))
    intro j e
    rw [mul_one, LawfulEntry.smul_one]
  intro out
  have hout : out = laqgs small large thresh A r c rowcnd colcnd amax := rfl
  by_cases h0 : (A.nrow == 0 || A.ncol == 0) = true
  · have heq : out = (A, .noequil) := by rw [hout]; unfold laqgs; simp only [h0, if_true]
    rw [heq]
    exact ⟨rfl, hid, fun _ => rfl⟩
  · by_cases hr : (decide (rowcnd ≥ thresh) && decide (amax ≥ small) && decide (amax ≤ large)) = true
    · by_cases hc : colcnd ≥ thresh
      · have heq : out = (A, .noequil) := by
          rw [hout]; unfold laqgs; simp only [h0, hr, hc, Bool.false_eq_true, reduceIte]
        rw [heq]
        exact ⟨rfl, hid, fun _ => rfl⟩
      · have heq : out = (scaleBy A (fun j _ => c.getD j 0), .col) := by
          rw [hout]; unfold laqgs; simp only [h0, hr, hc, Bool.false_eq_true, reduceIte]
        rw [heq]
        refine ⟨rfl, ?_, fun h => by cases h⟩
        simp [scaleBy, Equed.colequ, Equed.rowequ]
    · by_cases hc : colcnd ≥ thresh
      · have heq : out = (scaleBy A (fun _ i => r.getD i 0), .row) := by
          rw [hout]; unfold laqgs; simp only [h0, hr, hc, Bool.false_eq_true, reduceIte]
        rw [heq]
        refine ⟨rfl, ?_, fun h => by cases h⟩
        simp [scaleBy, Equed.colequ, Equed.rowequ]
      · have heq : out = (scaleBy A (fun j i => c.getD j 0 * r.getD i 0), .both) := by
          rw [hout]; unfold laqgs; simp only [h0, hr, hc, Bool.false_eq_true, reduceIte]
        rw [heq]
        refine ⟨rfl, ?_, fun h => by cases h⟩
        simp [scaleBy, Equed.colequ, Equed.rowequ]

/-- magnitudes after scaling by positive factors: `|A_out| = R^a · |A| · C^b` (abs1 for complex) -/
theorem laqgs_mag (s : Rat) (hs : 0 ≤ s) (e : E) : mag (smul s e) = s * mag e := by
  rw [LawfulEntry.mag_smul, abs_of_nonneg hs]

end laqgs

section laqgs_examples
-- laqgs_table / laqgs_effect on a concrete matrix: rowcnd = 1/100 < 1/10 forces row scaling only
example : let l := laqgs (1/1024) 1024 (1/10) exA [1/4, 1/2] [1, 1] (1/100) 1 4
    (l.1.cols, l.2) = ([[(0, 1), (1, 1/2)], [(1, 1)]], .row) := by decide +kernel
-- amax above `large` forces row scaling although rowcnd is fine; colcnd < thresh adds column scaling
example : (laqgs (1/1024) 1024 (1/10) exA [1/4, 1/2] [3, 5] 1 (1/20) 2000).2 = .both := by decide +kernel
example : let l := laqgs (1/1024) 1024 (1/10) exA [1/4, 1/2] [3, 5] 1 (1/20) 4
    (l.1.cols, l.2) = ([[(0, 12), (1, 3)], [(1, 10)]], .col) := by decide +kernel
example : let l := laqgs (1/1024) 1024 (1/10) exA [1/4, 1/2] [3, 5] 1 (1/10) 4
    (l.1.cols, l.2) = (exA.cols, .noequil) := by decide +kernel
-- complex: both components are multiplied
example : (laqgs (1/1024) 1024 (1/10) (⟨1, [[(0, (⟨3, -4⟩ : Cx))]]⟩ : SpMat Cx) [2] [5] 0 0 1).1.cols
    = [[(0, ⟨30, -40⟩)]] := by decide +kernel
end laqgs_examples

/-! ### the expert driver's equilibration frame -/

section frame

/-- the B-argument documentation of p?gssvx (header comment of SRC/pdgssvx.c, "B (input/output)"):
NC: trans = N and equed ∈ {ROW,BOTH} → diag(R)·B;  trans ∈ {T,C} and equed ∈ {COL,BOTH} → diag(C)·B;
NR: trans = N and equed ∈ {COL,BOTH} → diag(C)·B;  trans ∈ {T,C} and equed ∈ {ROW,BOTH} → diag(R)·B. -/
def docB (nr : Bool) (trans : Nat) (eq : Equed) : Which :=
  match nr, trans == TRANS_NOTRANS with
  | false, true => if eq.rowequ then .byR else .none
  | false, false => if eq.colequ then .byC else .none
  | true, true => if eq.colequ then .byC else .none
  | true, false => if eq.rowequ then .byR else .none

/-- the solution of the original system from the solution of the scaled one (X-argument documentation,
read for the matrix that is actually factored): the other vector. -/
def docX (nr : Bool) (trans : Nat) (eq : Equed) : Which :=
  match nr, trans == TRANS_NOTRANS with
  | false, true => if eq.colequ then .byC else .none
  | false, false => if eq.rowequ then .byR else .none
  | true, true => if eq.rowequ then .byR else .none
  | true, false => if eq.colequ then .byC else .none

/-- **gssvx_equil_frame.**  The code's decision (`notran` after the NR flip, then the two nested tests)
is the documented rule, for both storage orientations, every `trans` and every flag. -/
theorem gssvx_equil_frame (nr : Bool) (trans : Nat) (eq : Equed) :
    bScale (notranEff nr trans) eq.rowequ eq.colequ = docB nr trans eq ∧
    xScale (notranEff nr trans) eq.rowequ eq.colequ = docX nr trans eq := by
  unfold bScale xScale notranEff docB docX
  cases nr <;> cases eq <;> cases h : (trans == TRANS_NOTRANS) <;> simp [Equed.rowequ, Equed.colequ]

/-- B and X are never scaled by the same vector, and nothing is scaled when the flag is NOEQUIL. -/
theorem gssvx_frame_noequil (notran : Bool) :
    bScale notran Equed.noequil.rowequ Equed.noequil.colequ = .none ∧
    xScale notran Equed.noequil.rowequ Equed.noequil.colequ = .none := by
  cases notran <;> simp [bScale, xScale, Equed.rowequ, Equed.colequ]

example : bScale (notranEff true 0) Equed.both.rowequ Equed.both.colequ = .byC := by decide
example : xScale (notranEff true 0) Equed.both.rowequ Equed.both.colequ = .byR := by decide
example : bScale (notranEff false 2) Equed.row.rowequ Equed.row.colequ = .none := by decide

variable {E : Type} [Entry E] [Zero E] [LawfulEntry E]

/-- **gssvx_equil_outputs.**  What the driver frame hands back, for `fact = EQUILIBRATE`:
R, C are gsequ's; if gsequ's info is 0 then A and the flag are laqgs's, otherwise A is untouched and
the flag is NOEQUIL; B is scaled by the vector the frame rule names; and flag NOEQUIL means A and B
are returned unchanged. -/
theorem gssvx_equil_outputs (P : Params) (nr : Bool) (trans : Nat) (eqIn : Equed) (AA : SpMat E)
    (B : List (List E)) (R C : List Rat) (rc0 cc0 am0 : Rat) :
    let g := gsequ true P.sml P.big AA { r := R, c := C, rowcnd := rc0, colcnd := cc0, amax := am0, info := 0 }
    let l := laqgs P.small P.large P.thresh AA g.r g.c g.rowcnd g.colcnd g.amax
    let f := gssvxEquil P nr trans FACT_EQUILIBRATE eqIn AA B R C rc0 cc0 am0
    f.R = g.r ∧ f.C = g.c ∧ f.info1 = g.info ∧
    (g.info = 0 → f.A = l.1 ∧ f.equed = l.2) ∧
    (g.info ≠ 0 → f.A = AA ∧ f.equed = .noequil) ∧
    f.B = scaleDense (bScale (notranEff nr trans) f.equed.rowequ f.equed.colequ) f.R f.C B ∧
    f.xw = xScale (notranEff nr trans) f.equed.rowequ f.equed.colequ ∧
    (f.equed = .noequil → f.A = AA ∧ f.B = B) := by
  intro g l f
  have hf : f = gssvxEquil P nr trans FACT_EQUILIBRATE eqIn AA B R C rc0 cc0 am0 := rfl
  by_cases hg : g.info = 0
  · have hg' : (g.info == 0) = true := by simpa using hg
    have e1 : f.A = l.1 := by rw [hf]; unfold gssvxEquil; simp [hg', g, l]
    have e2 : f.equed = l.2 := by rw [hf]; unfold gssvxEquil; simp [hg', g, l]
    have e3 : f.R = g.r := by rw [hf]; unfold gssvxEquil; simp [hg', g]
    have e4 : f.C = g.c := by rw [hf]; unfold gssvxEquil; simp [hg', g]
    have e5 : f.info1 = g.info := by rw [hf]; unfold gssvxEquil; simp [hg', g]
    have e6 : f.B = scaleDense (bScale (notranEff nr trans) l.2.rowequ l.2.colequ) g.r g.c B := by
      rw [hf]; unfold gssvxEquil; simp [hg', g, l]
    have e7 : f.xw = xScale (notranEff nr trans) l.2.rowequ l.2.colequ := by
      rw [hf]; unfold gssvxEquil; simp [hg', g, l]
    refine ⟨e3, e4, e5, fun _ => ⟨e1, e2⟩, fun h => absurd hg h, ?_, ?_, ?_⟩
    · rw [e6, e2, e3, e4]
    · rw [e7, e2]
    · intro h
      rw [e2] at h
      refine ⟨?_, ?_⟩
      · rw [e1]; exact (laqgs_effect P.small P.large P.thresh AA g.r g.c g.rowcnd g.colcnd g.amax).2.2 h
      · rw [e6, h]; cases notranEff nr trans <;> rfl
  · have hg' : (g.info == 0) = false := by simpa using hg
    have e1 : f.A = AA := by rw [hf]; unfold gssvxEquil; simp [hg', g]
    have e2 : f.equed = .noequil := by rw [hf]; unfold gssvxEquil; simp [hg', g]
    have e3 : f.R = g.r := by rw [hf]; unfold gssvxEquil; simp [hg', g]
    have e4 : f.C = g.c := by rw [hf]; unfold gssvxEquil; simp [hg', g]
    have e5 : f.info1 = g.info := by rw [hf]; unfold gssvxEquil; simp [hg', g]
    have e6 : f.B = scaleDense (bScale (notranEff nr trans) Equed.noequil.rowequ Equed.noequil.colequ) g.r g.c B := by
      rw [hf]; unfold gssvxEquil; simp [hg', g]
    have e7 : f.xw = xScale (notranEff nr trans) Equed.noequil.rowequ Equed.noequil.colequ := by
      rw [hf]; unfold gssvxEquil; simp [hg', g]
    refine ⟨e3, e4, e5, fun h => absurd h hg, fun _ => ⟨e1, e2⟩, ?_, ?_, ?_⟩
    · rw [e6, e2, e3, e4]
    · rw [e7, e2]
    · intro _
      refine ⟨e1, ?_⟩
      rw [e6]; cases notranEff nr trans <;> rfl

/-- the frame for `fact = FACTORED`: A, R, C and the flag are inputs and come back unchanged, B is
scaled by the vector the rule names for the incoming flag; for `fact = DOFACT` nothing is scaled. -/
theorem gssvx_factored_outputs (P : Params) (nr : Bool) (trans : Nat) (eqIn : Equed) (AA : SpMat E)
    (B : List (List E)) (R C : List Rat) (rc0 cc0 am0 : Rat) :
    (let f := gssvxEquil P nr trans FACT_FACTORED eqIn AA B R C rc0 cc0 am0
     f.A = AA ∧ f.R = R ∧ f.C = C ∧ f.equed = eqIn ∧
     f.B = scaleDense (bScale (notranEff nr trans) eqIn.rowequ eqIn.colequ) R C B ∧
     f.xw = xScale (notranEff nr trans) eqIn.rowequ eqIn.colequ) ∧
    (let f := gssvxEquil P nr trans FACT_DOFACT eqIn AA B R C rc0 cc0 am0
     f.A = AA ∧ f.R = R ∧ f.C = C ∧ f.equed = .noequil ∧ f.B = B ∧ f.xw = .none) := by
  constructor
  · unfold gssvxEquil
    simp
  · unfold gssvxEquil
    simp [Equed.rowequ, Equed.colequ]
    cases notranEff nr trans <;> simp [bScale, xScale, scaleDense]

end frame

/-! ### the wiring is the mathematically right one -/

section sound
open Finset

/-- numeric value of the factor a `Which` names -/
def fac (w : Which) (R C : Nat → Rat) (i : Nat) : Rat :=
  match w with
  | .none => 1
  | .byR => R i
  | .byC => C i

theorem sum_scale_cancel (n : Nat) (ρ b : Rat) (hρ : ρ ≠ 0) (f : Nat → Rat)
    (h : ∑ j ∈ range n, ρ * f j = ρ * b) : ∑ j ∈ range n, f j = b := by
  rw [← Finset.mul_sum] at h
  exact mul_left_cancel₀ hρ h

/-- **equil_solve_sound.**  Let `A` be the n×n matrix the routine factors (the compressed-column view:
the user's matrix for NC storage, its transpose for NR storage), `As = diag(R)^a · A · diag(C)^b` the
equilibrated matrix with `(a,b)` given by the flag, `notran` the flag after the NR flip.  If `y` solves
the equilibrated system with the right-hand side scaled as `bScale` says (`As·y = Bs`, resp. `Asᵀ·y = Bs`)
then `x`, obtained by scaling `y` as `xScale` says, solves the original system `A·x = B`, resp. `Aᵀ·x = B`. -/
theorem equil_solve_sound (n : Nat) (A : Nat → Nat → Rat) (R C : Nat → Rat)
    (hR : ∀ i, R i ≠ 0) (hC : ∀ j, C j ≠ 0) (eq : Equed) (notran : Bool) (B y : Nat → Rat) :
    let ra : Nat → Rat := fun i => if eq.rowequ then R i else 1
    let cb : Nat → Rat := fun j => if eq.colequ then C j else 1
    let As : Nat → Nat → Rat := fun i j => ra i * A i j * cb j
    let Bs : Nat → Rat := fun i => fac (bScale notran eq.rowequ eq.colequ) R C i * B i
    let x : Nat → Rat := fun i => fac (xScale notran eq.rowequ eq.colequ) R C i * y i
    (notran = true → (∀ i < n, ∑ j ∈ range n, As i j * y j = Bs i) →
        ∀ i < n, ∑ j ∈ range n, A i j * x j = B i) ∧
    (notran = false → (∀ j < n, ∑ i ∈ range n, As i j * y i = Bs j) →
        ∀ j < n, ∑ i ∈ range n, A i j * x i = B j) := by
  intro ra cb As Bs x
  constructor
  · intro hn h i hi
    subst hn
    have hi' := h i hi
    have hra : ra i ≠ 0 := by
      show (if eq.rowequ then R i else 1) ≠ 0
      split
      · exact hR i
      · exact one_ne_zero
    apply sum_scale_cancel n (ra i) (B i) hra
    have hb : Bs i = ra i * B i := by
      show fac (bScale true eq.rowequ eq.colequ) R C i * B i = (if eq.rowequ then R i else 1) * B i
      cases eq <;> simp [bScale, fac, Equed.rowequ, Equed.colequ]
    rw [← hb, ← hi']
    apply Finset.sum_congr rfl
    intro j _
    have hx : x j = cb j * y j := by
      show fac (xScale true eq.rowequ eq.colequ) R C j * y j = (if eq.colequ then C j else 1) * y j
      cases eq <;> simp [xScale, fac, Equed.rowequ, Equed.colequ]
    rw [hx]
    show ra i * (A i j * (cb j * y j)) = ra i * A i j * cb j * y j
    ring
  · intro hn h j hj
    subst hn
    have hj' := h j hj
    have hcb : cb j ≠ 0 := by
      show (if eq.colequ then C j else 1) ≠ 0
      split
      · exact hC j
      · exact one_ne_zero
    apply sum_scale_cancel n (cb j) (B j) hcb
    have hb : Bs j = cb j * B j := by
      show fac (bScale false eq.rowequ eq.colequ) R C j * B j = (if eq.colequ then C j else 1) * B j
      cases eq <;> simp [bScale, fac, Equed.rowequ, Equed.colequ]
    rw [← hb, ← hj']
    apply Finset.sum_congr rfl
    intro i _
    have hx : x i = ra i * y i := by
      show fac (xScale false eq.rowequ eq.colequ) R C i * y i = (if eq.rowequ then R i else 1) * y i
      cases eq <;> simp [xScale, fac, Equed.rowequ, Equed.colequ]
    rw [hx]
    show cb j * (A i j * (ra i * y i)) = ra i * A i j * cb j * y i
    ring

-- non-vacuity: 1×1 system 2·x = 6 with R = 1/2, C = 3, flag BOTH, no transpose: As = 3, Bs = 3, y = 1, x = 3
example : let A : Nat → Nat → Rat := fun _ _ => 2
    ∀ i < 1, ∑ j ∈ range 1, A i j * (fac (xScale true Equed.both.rowequ Equed.both.colequ) (fun _ => 1/2) (fun _ => 3) j * 1) = 6 := by
  intro A
  refine (equil_solve_sound 1 A (fun _ => 1/2) (fun _ => 3) (by intro; norm_num) (by intro; norm_num)
    .both true (fun _ => 6) (fun _ => 1)).1 rfl ?_
  intro i _
  simp [A, fac, bScale, Equed.rowequ, Equed.colequ]
  norm_num

end sound

section frame_examples
def exP : Params := ⟨1/8, 8, 1/2, 2, 1/10⟩
-- the whole frame on exA = [[4,0],[1,2]] with row scaling forced by a small `large`:
-- NR storage, trans = N  ⇒  effective transpose, B is not scaled by R (flag ROW), X is scaled by R
def exF1 : FrameOut Rat := gssvxEquil exP true 0 FACT_EQUILIBRATE .noequil exA [[1, 1]] [9, 9] [9, 9] 0 0 0
example : exF1.equed = .row ∧ exF1.R = [1/4, 1/2] ∧ exF1.C = [1, 1] ∧
    exF1.A.cols = [[(0, 1), (1, 1/2)], [(1, 1)]] ∧ exF1.B = [[1, 1]] ∧ exF1.xw = Which.byR := by decide +kernel
-- NC storage, trans = N, same matrix: B is scaled by R
def exF2 : FrameOut Rat := gssvxEquil exP false 0 FACT_EQUILIBRATE .noequil exA [[1, 1]] [9, 9] [9, 9] 0 0 0
example : (exF2.equed, exF2.B, exF2.xw) = (.row, [[1/4, 1/2]], Which.none) := by decide +kernel
-- zero row: gsequ reports it, nothing is scaled, the flag stays NOEQUIL
def exF3 : FrameOut Rat := gssvxEquil exP false 0 FACT_EQUILIBRATE .both exZ [[1, 1]] [9, 9] [9, 9] 0 0 0
example : (exF3.equed, exF3.info1, exF3.A.cols, exF3.B) = (.noequil, 2, exZ.cols, [[1, 1]]) := by decide +kernel
-- FACTORED with the user's flag COL and trans = T: B is scaled by C
def exF4 : FrameOut Rat := gssvxEquil exP false 1 FACT_FACTORED .col exA [[1, 1]] [2, 3] [5, 7] 0 0 0
example : (exF4.equed, exF4.B, exF4.xw) = (.col, [[5, 7]], Which.none) := by decide +kernel
end frame_examples

end Slu.Equil
