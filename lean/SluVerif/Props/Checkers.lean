/-
Soundness and completeness of the exact checkers of Model/Check.lean: each Boolean check is
*equivalent* to the inequality of the property it decides, for every size n.  A rational-level
corollary relates the scaled-integer inequality to the one over the real (dyadic) values.
-/
import SluVerif.Model.Check
import SluVerif.Model.Perm
import Mathlib.Tactic.Linarith
import Mathlib.Tactic.Ring
import Mathlib.Tactic.Positivity
import Mathlib.Algebra.Order.Field.Basic
import Mathlib.Algebra.BigOperators.Group.List.Basic

namespace Slu

theorem all_range_iff (n : Nat) (p : Nat → Bool) :
    (List.range n).all p = true ↔ ∀ i, i < n → p i = true := by
  simp [List.all_eq_true, List.mem_range]

/-- C02 checker ⇔ the componentwise inequality `|A(i,j) - (LU)(pr i, pc j)|·den ≤ num·(|L||U|)(pr i, pc j)`. -/
theorem checkLU_iff (n : Nat) (A L U : Mat) (pr pc : Nat → Nat) (num den : Int) :
    checkLU n A L U pr pc num den = true ↔
      ∀ i, i < n → ∀ j, j < n →
        iabs (A i j - mulEntry n L U (pr i) (pc j)) * den ≤ num * absMulEntry n L U (pr i) (pc j) := by
  unfold checkLU
  rw [all_range_iff]
  constructor
  · intro h i hi j hj
    have := (all_range_iff n _).1 (h i hi) j hj
    simpa [luEntryOk] using this
  · intro h i hi
    rw [all_range_iff]
    intro j hj
    simpa [luEntryOk] using h i hi j hj

theorem checkLU_sound (n : Nat) (A L U : Mat) (pr pc : Nat → Nat) (num den : Int)
    (h : checkLU n A L U pr pc num den = true) (i j : Nat) (hi : i < n) (hj : j < n) :
    iabs (A i j - mulEntry n L U (pr i) (pc j)) * den ≤ num * absMulEntry n L U (pr i) (pc j) :=
  (checkLU_iff n A L U pr pc num den).1 h i hi j hj

theorem checkLU_complete (n : Nat) (A L U : Mat) (pr pc : Nat → Nat) (num den : Int)
    (h : ∀ i, i < n → ∀ j, j < n →
        iabs (A i j - mulEntry n L U (pr i) (pc j)) * den ≤ num * absMulEntry n L U (pr i) (pc j)) :
    checkLU n A L U pr pc num den = true :=
  (checkLU_iff n A L U pr pc num den).2 h

/-- a failing entry reported by `firstBadLU` really fails -/
theorem firstBadLU_none_iff (n : Nat) (A L U : Mat) (pr pc : Nat → Nat) (num den : Int) :
    firstBadLU n A L U pr pc num den = none ↔ checkLU n A L U pr pc num den = true := by
  unfold firstBadLU checkLU
  simp only [List.findSome?_eq_none_iff, List.all_eq_true]
  constructor
  · intro h i hi j hj
    have := h i hi j hj
    by_cases hb : luEntryOk n A L U pr pc num den i j = true
    · exact hb
    · simp [hb] at this
  · intro h i hi j hj
    simp [h i hi j hj]

theorem isUnitLower_iff (n : Nat) (L : Mat) (one : Int) :
    isUnitLower n L one = true ↔
      ∀ i, i < n → ∀ j, j < n → (i = j → L i j = one) ∧ (i < j → L i j = 0) := by
  unfold isUnitLower
  rw [all_range_iff]
  constructor
  · intro h i hi j hj
    have := (all_range_iff n _).1 (h i hi) j hj
    by_cases e : i = j
    · simp [e] at this; subst e; exact ⟨fun _ => this, fun h => absurd h (Nat.lt_irrefl _)⟩
    · by_cases l : i < j
      · simp [e, l] at this; exact ⟨fun h => absurd h e, fun _ => this⟩
      · exact ⟨fun h => absurd h e, fun h => absurd h l⟩
  · intro h i hi
    rw [all_range_iff]
    intro j hj
    obtain ⟨h1, h2⟩ := h i hi j hj
    by_cases e : i = j
    · simp [e]; subst e; exact h1 rfl
    · by_cases l : i < j
      · simp [e, l]; exact h2 l
      · simp [e, l]

theorem isUpper_iff (n : Nat) (U : Mat) :
    isUpper n U = true ↔ ∀ i, i < n → ∀ j, j < n → j < i → U i j = 0 := by
  unfold isUpper
  rw [all_range_iff]
  constructor
  · intro h i hi j hj hji
    have := (all_range_iff n _).1 (h i hi) j hj
    simpa [hji] using this
  · intro h i hi
    rw [all_range_iff]
    intro j hj
    by_cases l : j < i
    · simp [l]; exact h i hi j hj l
    · simp [l]

/-- multiplier bound ⇔ `|l_ij|·u·sDen ≤ one·(sDen+sNum)` for every sub-diagonal entry (u = uNum/uDen). -/
theorem checkMultipliers_iff (n : Nat) (L : Mat) (one uNum uDen sNum sDen : Int) :
    checkMultipliers n L one uNum uDen sNum sDen = true ↔
      ∀ i, i < n → ∀ j, j < n → j < i →
        iabs (L i j) * uNum * sDen ≤ one * uDen * (sDen + sNum) := by
  unfold checkMultipliers
  rw [all_range_iff]
  constructor
  · intro h i hi j hj hji
    have := (all_range_iff n _).1 (h i hi) j hj
    simpa [hji] using this
  · intro h i hi
    rw [all_range_iff]
    intro j hj
    by_cases l : j < i
    · simp [l]; exact h i hi j hj l
    · simp [l]

/-- C01 checker ⇔ the row-wise residual inequality. -/
theorem checkResidual_iff (n : Nat) (A W : Mat) (b x : Vec) (s : Nat) (num den : Int) :
    checkResidual n A W b x s num den = true ↔
      ∀ i, i < n →
        iabs (b i - sumTo n fun j => A i j * x j) * (2 : Int) ^ s * den
          ≤ num * sumTo n fun j => W i j * iabs (x j) := by
  unfold checkResidual
  rw [all_range_iff]
  constructor
  · intro h i hi; simpa [residRowOk] using h i hi
  · intro h i hi; simpa [residRowOk] using h i hi

theorem checkDiagPref_iff (n : Nat) (L : Mat) (one : Int) (pr pcInv : Nat → Nat) (uNum uDen mNum mDen : Int) :
    checkDiagPref n L one pr pcInv uNum uDen mNum mDen = true ↔
      ∀ j, j < n → j < pr (pcInv j) → iabs (L (pr (pcInv j)) j) ≠ 0 →
        iabs (L (pr (pcInv j)) j) * uDen * mDen < uNum * colMaxL n L one j * (mDen + mNum) := by
  unfold checkDiagPref
  rw [all_range_iff]
  constructor
  · intro h j hj hlt hne
    have := h j hj
    simp only [diagPrefColOk, hlt, if_true] at this
    simp only [Bool.not_eq_true', Bool.and_eq_false_iff, decide_eq_false_iff_not, ge_iff_le, not_le] at this
    rcases this with h1 | h1
    · exact absurd hne h1
    · exact h1
  · intro h j hj
    simp only [diagPrefColOk]
    by_cases hlt : j < pr (pcInv j)
    · simp only [hlt, if_true, Bool.not_eq_true', Bool.and_eq_false_iff, decide_eq_false_iff_not, ge_iff_le, not_le]
      by_cases hne : iabs (L (pr (pcInv j)) j) ≠ 0
      · right; exact h j hj hlt hne
      · left; exact hne
    · simp [hlt]

/-! ### From scaled integers to the dyadic values they denote

`A`, `L`, `U` hold integers; the real values are `A i j * sc^2`, `L i j * sc`, `U i j * sc` for the
common scale `sc = 2^E > 0`.  The integer inequality is the real inequality with γ = num/den. -/

theorem sumTo_cast (n : Nat) (f : Nat → Int) :
    ((sumTo n f : Int) : Rat) = ((List.range n).map fun k => (f k : Rat)).sum := by
  unfold sumTo
  induction (List.range n) with
  | nil => simp
  | cons a t ih => simp [List.sum_cons, ih]

theorem iabs_cast (x : Int) : ((iabs x : Int) : Rat) = |(x : Rat)| := by
  unfold iabs
  rw [Int.natCast_natAbs]
  simp

/-- the real-valued reading of one entry of `checkLU`:
`|a - Σ l u| ≤ (num/den) · Σ |l||u|` with `a = A·sc²`, `l = L·sc`, `u = U·sc`. -/
theorem luEntry_rat (n : Nat) (A L U : Mat) (num den : Int) (hden : 0 < den) (sc : Rat) (hsc : 0 < sc)
    (i j r c : Nat)
    (h : iabs (A i j - mulEntry n L U r c) * den ≤ num * absMulEntry n L U r c) :
    |(A i j : Rat) * sc ^ 2 - ((List.range n).map fun k => ((L r k : Rat) * sc) * ((U k c : Rat) * sc)).sum|
      ≤ ((num : Rat) / den) * ((List.range n).map fun k => |(L r k : Rat) * sc| * |(U k c : Rat) * sc|).sum := by
  have hq : ((iabs (A i j - mulEntry n L U r c) * den : Int) : Rat) ≤ ((num * absMulEntry n L U r c : Int) : Rat) := by
    exact_mod_cast h
  rw [Int.cast_mul, Int.cast_mul, iabs_cast] at hq
  have hdenq : (0 : Rat) < den := by exact_mod_cast hden
  have e1 : ((List.range n).map fun k => ((L r k : Rat) * sc) * ((U k c : Rat) * sc)).sum
      = sc ^ 2 * ((mulEntry n L U r c : Int) : Rat) := by
    unfold mulEntry; rw [sumTo_cast]
    induction (List.range n) with
    | nil => simp
    | cons a t ih => simp only [List.map_cons, List.sum_cons, ih]; push_cast; ring
  have e2 : ((List.range n).map fun k => |(L r k : Rat) * sc| * |(U k c : Rat) * sc|).sum
      = sc ^ 2 * ((absMulEntry n L U r c : Int) : Rat) := by
    unfold absMulEntry; rw [sumTo_cast]
    induction (List.range n) with
    | nil => simp
    | cons a t ih =>
      simp only [List.map_cons, List.sum_cons, ih]
      rw [abs_mul, abs_mul, abs_of_pos hsc]; push_cast; rw [iabs_cast, iabs_cast]; ring
  rw [e1, e2]
  have : (A i j : Rat) * sc ^ 2 - sc ^ 2 * (mulEntry n L U r c : Rat)
      = sc ^ 2 * (((A i j - mulEntry n L U r c : Int)) : Rat) := by push_cast; ring
  rw [this, abs_mul, abs_of_pos (by positivity : (0 : Rat) < sc ^ 2)]
  rw [div_mul_eq_mul_div, le_div_iff₀ hdenq]
  have hs2 : (0 : Rat) < sc ^ 2 := by positivity
  calc sc ^ 2 * |((A i j - mulEntry n L U r c : Int) : Rat)| * den
      = sc ^ 2 * (|((A i j - mulEntry n L U r c : Int) : Rat)| * den) := by ring
    _ ≤ sc ^ 2 * ((num : Rat) * (absMulEntry n L U r c : Rat)) := by
        exact mul_le_mul_of_nonneg_left hq (le_of_lt hs2)
    _ = (num : Rat) * (sc ^ 2 * (absMulEntry n L U r c : Rat)) := by ring

/-- non-vacuity: a 2×2 exact factorisation passes `checkLU` with γ = 0/1 -/
example : checkLU 2 (fun i j => if i = 0 ∧ j = 0 then 2 else if i = 0 ∧ j = 1 then 1 else if i = 1 ∧ j = 0 then 4 else 5)
    (fun i j => if i = j then 1 else if i = 1 ∧ j = 0 then 2 else 0)
    (fun i j => if i = 0 ∧ j = 0 then 2 else if i = 0 ∧ j = 1 then 1 else if i = 1 ∧ j = 1 then 3 else 0)
    id id 0 1 = true := by decide

end Slu
