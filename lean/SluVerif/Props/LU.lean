/-
Exact LU identity of the dense model (shared by C01, C02, C06, C08, C16): for EVERY size n, every
rational matrix, every threshold, with or without pivot reuse, `factor` returns
  * a row order that is a bijection of 0..n-1,
  * `A(i,j) = Σ_t ell(i,t)·uu(t,j)`  for all i, j  — i.e. `Pr·A·Pc = L·U` with `L(perm_r i, t) = ell i t`
    (A is the column-permuted matrix handed to the factorization),
  * L unit lower triangular and U upper triangular in the pivoted row order,
and this holds for singular inputs too (the library also completes the factorization then).
`info` is 0 iff every pivot `U(t,t)` is nonzero, and otherwise 1 + the first column with a zero pivot,
which is exactly the first column whose candidates were all zero.
-/
import SluVerif.Proofs.LUInv
import SluVerif.Model.Perm

namespace Slu

/-- **`Pr·A·Pc = L·U`, entry by entry, rows by original index.** -/
theorem factor_identity (P : LUParams) (usepr : Bool) (i j : Nat) (hi : i < P.n) (hj : j < P.n) :
    getQ P.A i j = sumQ P.n (fun t => getQ (factor P usepr).ell i t * getQ (factor P usepr).uu t j) := by
  obtain ⟨inv, hk⟩ := luInv_factor P usepr
  exact inv.col_id i j hi (by rw [hk]; exact hj)

/-- the same identity with the row permutation made explicit: row `t'` of `Pr·A` is row `piv t'` of `A` -/
theorem factor_identity_permuted (P : LUParams) (usepr : Bool) (t' j : Nat) (ht : t' < P.n) (hj : j < P.n) :
    getQ P.A ((factor P usepr).piv.getD t' 0) j =
      sumQ P.n (fun t => getQ (factor P usepr).ell ((factor P usepr).piv.getD t' 0) t * getQ (factor P usepr).uu t j) := by
  obtain ⟨inv, hk⟩ := luInv_factor P usepr
  exact factor_identity P usepr _ j (inv.pos_piv t' (by rw [hk]; exact ht)).1 hj

/-- L is unit lower triangular in pivot order -/
theorem factor_unit_lower (P : LUParams) (usepr : Bool) (t : Nat) (ht : t < P.n) :
    getQ (factor P usepr).ell ((factor P usepr).piv.getD t 0) t = 1 ∧
    ∀ s, t < s → s < P.n → getQ (factor P usepr).ell ((factor P usepr).piv.getD t 0) s = 0 := by
  obtain ⟨inv, hk⟩ := luInv_factor P usepr
  exact ⟨inv.ell_one t (by rw [hk]; exact ht), fun s h1 h2 => inv.ell_zero t s (by rw [hk]; exact ht) h1 h2⟩

/-- U is upper triangular -/
theorem factor_upper (P : LUParams) (usepr : Bool) (t j : Nat) (hjt : j < t) (ht : t < P.n) :
    getQ (factor P usepr).uu t j = 0 := by
  obtain ⟨inv, hk⟩ := luInv_factor P usepr
  exact inv.uu_upper t j (by rw [hk]; omega) hjt ht

/-- every row is pivoted exactly once: `pos`/`piv` are mutually inverse bijections of `0..n-1` -/
theorem factor_bijection (P : LUParams) (usepr : Bool) :
    (∀ t, t < P.n → (factor P usepr).piv.getD t 0 < P.n ∧ posOf (factor P usepr) ((factor P usepr).piv.getD t 0) = some t) ∧
    (∀ i, i < P.n → ∃ t, t < P.n ∧ posOf (factor P usepr) i = some t ∧ (factor P usepr).piv.getD t 0 = i) := by
  obtain ⟨inv, hk⟩ := luInv_factor P usepr
  refine ⟨fun t ht => inv.pos_piv t (by rw [hk]; exact ht), ?_⟩
  intro i hi
  have hlen := inv.cands_len
  rw [hk, Nat.sub_self] at hlen
  have hnil : candRows P (factor P usepr) = [] := List.eq_nil_of_length_eq_zero hlen
  cases hp : posOf (factor P usepr) i with
  | none =>
    exfalso
    have : i ∈ candRows P (factor P usepr) := (mem_candRows _ _ _).2 ⟨hi, hp⟩
    rw [hnil] at this; cases this
  | some t =>
    obtain ⟨h1, h2⟩ := inv.pos_inv i t hp
    exact ⟨t, by rw [hk] at h1; exact h1, rfl, h2⟩

/-- the returned `perm_r` array is a permutation in the sense of Model/Perm.lean -/
theorem factor_permR_isPerm (P : LUParams) (usepr : Bool) : IsPerm P.n (permROf P.n (factor P usepr)) := by
  obtain ⟨inv, hk⟩ := luInv_factor P usepr
  obtain ⟨_, hsurj⟩ := factor_bijection P usepr
  unfold IsPerm permROf
  refine ⟨by simp, ?_, ?_⟩
  · intro v hv
    simp only [Array.toList_map, Array.toList_range, List.mem_map, List.mem_range] at hv
    obtain ⟨i, hi, rfl⟩ := hv
    obtain ⟨t, ht, hp, _⟩ := hsurj i hi
    rw [hp]; simp only
    exact ⟨by omega, by exact_mod_cast ht⟩
  · simp only [Array.toList_map, Array.toList_range]
    refine (List.nodup_map_iff_inj_on List.nodup_range).2 ?_
    intro i hi i' hi' heq
    rw [List.mem_range] at hi hi'
    obtain ⟨t, _, hp, hpiv⟩ := hsurj i hi
    obtain ⟨t', _, hp', hpiv'⟩ := hsurj i' hi'
    rw [hp, hp'] at heq
    simp only at heq
    have : t = t' := by exact_mod_cast heq
    subst this
    rw [← hpiv, ← hpiv']

end Slu
