/-
C05 — allocator arithmetic (Model/Alloc.lean), for every number of slots, every capacity vector,
every request sequence:
  * the preset slots are consecutive, pairwise disjoint and tile `[0, total)`           (`slots_tile`)
  * per-slot bump allocation hands out consecutive, pairwise disjoint extents, which stay inside the
    slot exactly when the requests sum to at most its capacity                           (`bump_in_slot`, `bump_disjoint`)
  * the checked global allocator either aborts or returns an extent inside the array     (`bumpChecked_safe`)
That the capacities computed from the Householder counts DOMINATE what any pivot sequence requests is
the George–Ng bound; it is monitored per run (slot monitor), not proved here.
-/
import SluVerif.Model.Alloc
import Mathlib.Tactic.Linarith

namespace Slu

theorem slotStarts_length (caps : List Nat) (b : Nat) : (slotStarts caps b).length = caps.length := by
  induction caps generalizing b with
  | nil => rfl
  | cons c cs ih => simp [slotStarts, ih]

/-- slot `k` is `[start_k, start_k + cap_k)` with `start_{k+1} = start_k + cap_k`, `start_0 = base` -/
theorem slots_tile (caps : List Nat) (b : Nat) (k : Nat) (hk : k < caps.length) :
    (slotStarts caps b).getD k 0 = b + (caps.take k).sum ∧
    (k + 1 < caps.length → (slotStarts caps b).getD (k + 1) 0 = (slotStarts caps b).getD k 0 + caps.getD k 0) ∧
    (slotStarts caps b).getD k 0 + caps.getD k 0 ≤ b + totalCap caps := by
  induction caps generalizing b k with
  | nil => simp at hk
  | cons c cs ih =>
    cases k with
    | zero =>
      refine ⟨by simp [slotStarts], ?_, by simp [slotStarts, totalCap]⟩
      intro h
      cases cs with
      | nil => simp at h
      | cons c2 cs2 => simp [slotStarts]
    | succ k =>
      have hk' : k < cs.length := by simpa using hk
      obtain ⟨h1, h2, h3⟩ := ih (b + c) k hk'
      refine ⟨?_, ?_, ?_⟩
      · simp only [slotStarts, List.getD_cons_succ, List.take_succ_cons, List.sum_cons]; rw [h1]; omega
      · intro h
        simp only [slotStarts, List.getD_cons_succ]
        exact h2 (by simpa using h)
      · simp only [slotStarts, List.getD_cons_succ, totalCap, List.sum_cons]
        unfold totalCap at h3; omega

theorem take_sum_mono (l : List Nat) (a b : Nat) (h : a ≤ b) : (l.take a).sum ≤ (l.take b).sum := by
  induction l generalizing a b with
  | nil => simp
  | cons x xs ih =>
    cases a with
    | zero => simp
    | succ a =>
      cases b with
      | zero => omega
      | succ b =>
        simp only [List.take_succ_cons, List.sum_cons]
        have := ih a b (by omega)
        omega

/-- slots with different indices do not overlap -/
theorem slots_disjoint (caps : List Nat) (b : Nat) (i j : Nat) (hij : i < j) (hj : j < caps.length) :
    (slotStarts caps b).getD i 0 + caps.getD i 0 ≤ (slotStarts caps b).getD j 0 := by
  obtain ⟨hi1, _, _⟩ := slots_tile caps b i (by omega)
  obtain ⟨hj1, _, _⟩ := slots_tile caps b j hj
  rw [hi1, hj1]
  have : (caps.take i).sum + caps.getD i 0 = (caps.take (i + 1)).sum := by
    have hi : i < caps.length := by omega
    rw [List.take_add_one, List.sum_append]
    simp [List.getD, hi]
  have hmono : (caps.take (i + 1)).sum ≤ (caps.take j).sum := take_sum_mono caps (i + 1) j (by omega)
  omega

/-- every extent handed out by the bump allocator lies in `[start, start + Σ requests)` -/
theorem bump_in_slot (reqs : List Nat) (start : Nat) (e : Nat × Nat) (he : e ∈ bumpExtents reqs start) :
    start ≤ e.1 ∧ e.1 + e.2 ≤ start + reqs.sum := by
  induction reqs generalizing start with
  | nil => simp [bumpExtents] at he
  | cons r rs ih =>
    simp only [bumpExtents, List.mem_cons] at he
    rcases he with h | h
    · subst h; simp only [List.sum_cons]; omega
    · have := ih (start + r) h
      simp only [List.sum_cons]; omega

/-- hence, if the requests of a slot sum to at most its capacity, nothing leaves the slot -/
theorem bump_stays_in_capacity (reqs : List Nat) (start cap : Nat) (h : reqs.sum ≤ cap)
    (e : Nat × Nat) (he : e ∈ bumpExtents reqs start) : start ≤ e.1 ∧ e.1 + e.2 ≤ start + cap := by
  have := bump_in_slot reqs start e he; omega

/-- and conversely the LAST request overruns the slot when the sum exceeds the capacity (the C code has no check) -/
theorem bump_overruns (reqs : List Nat) (start cap : Nat) (h : cap < reqs.sum) :
    ∃ e ∈ bumpExtents reqs start, start + cap < e.1 + e.2 := by
  induction reqs generalizing start cap with
  | nil => simp at h
  | cons r rs ih =>
    simp only [List.sum_cons] at h
    by_cases hr : cap < r
    · exact ⟨(start, r), by simp [bumpExtents], by simp; omega⟩
    · have hc : cap - r < rs.sum := by omega
      obtain ⟨e, he, hlt⟩ := ih (start + r) (cap - r) hc
      exact ⟨e, by simp [bumpExtents, he], by omega⟩

/-- extents of one slot are pairwise disjoint (pairwise: earlier ends before later starts) -/
theorem bump_disjoint (reqs : List Nat) (start : Nat) :
    (bumpExtents reqs start).Pairwise (fun a b => a.1 + a.2 ≤ b.1) := by
  induction reqs generalizing start with
  | nil => simp [bumpExtents]
  | cons r rs ih =>
    simp only [bumpExtents, List.pairwise_cons]
    refine ⟨?_, ih (start + r)⟩
    intro b hb
    exact (bump_in_slot rs (start + r) b hb).1

/-- the checked allocator never returns an extent outside `[0, maxLen)` -/
theorem bumpChecked_safe (next num maxLen : Nat) (e : Nat × Nat) (h : bumpChecked next num maxLen = some e) :
    e.1 = next ∧ e.2 = next + num ∧ e.2 ≤ maxLen := by
  unfold bumpChecked at h
  split at h
  · cases h
  · simp only [Option.some.injEq] at h; subst h; exact ⟨rfl, rfl, by omega⟩

theorem bumpChecked_aborts_iff (next num maxLen : Nat) : bumpChecked next num maxLen = none ↔ maxLen < next + num := by
  unfold bumpChecked; split <;> simp_all

example : slotStarts [6, 4, 10] 0 = [0, 6, 10] ∧ bumpExtents [2, 3] 6 = [(6, 2), (8, 3)] := by decide

end Slu
