/-
C06 — singular matrices are reported through `info`.
Model-level theorems (all sizes, all values): the factorization completes for singular input with a
valid row permutation (Props/LU.lean), `info` is 0 iff every pivot `U(t,t)` is nonzero and otherwise
1 + the FIRST column whose pivot is zero, a column's pivot is zero iff all its candidate values are
exactly zero, and combining per-thread minima gives the same `info` for every split of the columns.
The `nsupr = nsupc` read past the row list is `pivot_outOfRange_iff` (Props/C02.lean).
-/
import SluVerif.Props.LU

namespace Slu

structure InfoInv (P : LUParams) (st : LUState) : Prop where
  ok : st.info = 0 → ∀ j, j < st.k → getQ st.uu j j ≠ 0
  bad : ∀ m, st.info = m + 1 → m < st.k ∧ getQ st.uu m m = 0 ∧ ∀ j, j < m → getQ st.uu j j ≠ 0

theorem luStep_info (P : LUParams) (st : LUState) :
    (luStep P st).info = if st.info = 0 ∧ (stepSel P st).info ≠ 0 then st.k + 1 else st.info := rfl

theorem infoInv_step (P : LUParams) (st : LUState) (inv : LUInv P st) (ii : InfoInv P st) (hk : st.k < P.n) :
    InfoInv P (luStep P st) := by
  have hclen : 0 < (candRows P st).length := by rw [inv.cands_len]; omega
  obtain ⟨_, hrmem⟩ := stepRow_spec P st hclen
  have hdiag_old : ∀ j, j < st.k → getQ (luStep P st).uu j j = getQ st.uu j j := by
    intro j hj; rw [luStep_uu _ _ _ _ (by omega) (by omega), if_neg (by omega)]
  have hdiag_new : getQ (luStep P st).uu st.k st.k = stepC P st (stepRow P st) := by
    rw [luStep_uu _ _ _ _ hk hk, if_pos rfl, if_neg (by omega), if_pos rfl]
  constructor
  · intro h0 j hj
    rw [luStep_info] at h0
    rw [luStep_k] at hj
    by_cases hc : st.info = 0 ∧ (stepSel P st).info ≠ 0
    · rw [if_pos hc] at h0; omega
    · rw [if_neg hc] at h0
      by_cases e : j = st.k
      · subst e
        rw [hdiag_new]
        have : (stepSel P st).info = 0 := by
          by_contra hne; exact hc ⟨h0, hne⟩
        exact stepC_ne_zero P st hclen this
      · rw [hdiag_old j (by omega)]; exact ii.ok h0 j (by omega)
  · intro m hm
    rw [luStep_info] at hm
    rw [luStep_k]
    by_cases hc : st.info = 0 ∧ (stepSel P st).info ≠ 0
    · rw [if_pos hc] at hm
      have : m = st.k := by omega
      subst this
      refine ⟨by omega, ?_, ?_⟩
      · rw [hdiag_new]; exact stepC_all_zero P st hc.2 _ hrmem
      · intro j hj; rw [hdiag_old j hj]; exact ii.ok hc.1 j hj
    · rw [if_neg hc] at hm
      obtain ⟨b1, b2, b3⟩ := ii.bad m hm
      refine ⟨by omega, ?_, ?_⟩
      · rw [hdiag_old m b1]; exact b2
      · intro j hj; rw [hdiag_old j (by omega)]; exact b3 j hj

theorem infoInv_run (P : LUParams) (m : Nat) (st : LUState) (inv : LUInv P st) (ii : InfoInv P st)
    (hm : st.k + m ≤ P.n) : InfoInv P (luRun P m st) := by
  induction m generalizing st with
  | zero => exact ii
  | succ m ih =>
    exact ih (luStep P st) (luInv_step P st inv (by omega)) (infoInv_step P st inv ii (by omega))
      (by rw [luStep_k]; omega)

theorem infoInv_factor (P : LUParams) (usepr : Bool) : InfoInv P (factor P usepr) := by
  apply infoInv_run P P.n _ (luInv_init P usepr)
  · constructor
    · intro _ j hj; simp [luInit] at hj
    · intro m hm; simp [luInit] at hm
  · simp [luInit]

/-- **`info = 0` iff every pivot is nonzero.** -/
theorem info_zero_iff (P : LUParams) (usepr : Bool) :
    (factor P usepr).info = 0 ↔ ∀ j, j < P.n → getQ (factor P usepr).uu j j ≠ 0 := by
  have ii := infoInv_factor P usepr
  have hk := (luInv_factor P usepr).2
  constructor
  · intro h j hj; exact ii.ok h j (by rw [hk]; exact hj)
  · intro h
    by_contra hne
    obtain ⟨m, hm⟩ := Nat.exists_eq_succ_of_ne_zero hne
    obtain ⟨b1, b2, _⟩ := ii.bad m hm
    exact h m (by rw [hk] at b1; exact b1) b2

/-- **`info = m+1` names the FIRST column with an exactly zero pivot** (`U(i,i)` is exactly zero, as documented),
and the factorization has nevertheless been completed (Props/LU.lean holds unconditionally). -/
theorem info_first_zero_pivot (P : LUParams) (usepr : Bool) (m : Nat) (h : (factor P usepr).info = m + 1) :
    m < P.n ∧ getQ (factor P usepr).uu m m = 0 ∧ ∀ j, j < m → getQ (factor P usepr).uu j j ≠ 0 := by
  have ii := infoInv_factor P usepr
  have hk := (luInv_factor P usepr).2
  obtain ⟨b1, b2, b3⟩ := ii.bad m h
  exact ⟨by rw [hk] at b1; exact b1, b2, b3⟩

/-- `0 ≤ info ≤ n` for every input (singular or not) -/
theorem info_range (P : LUParams) (usepr : Bool) : (factor P usepr).info ≤ P.n := by
  by_cases h : (factor P usepr).info = 0
  · omega
  · obtain ⟨m, hm⟩ := Nat.exists_eq_succ_of_ne_zero h
    have := (info_first_zero_pivot P usepr m hm).1
    omega

/-- one column step reports singular exactly when every still-unpivoted row has candidate value 0 -/
theorem step_singular_iff (P : LUParams) (st : LUState) :
    (stepSel P st).info ≠ 0 ↔ ∀ i, i ∈ candRows P st → stepC P st i = 0 := by
  constructor
  · intro h i hi; exact stepC_all_zero P st h i hi
  · intro h
    rw [stepSel, pivot_singular_iff _ (pivIn_magsNonneg _ _ _)]
    intro idx hidx
    have hlt : idx < (candRows P st).length := by have := hidx.2; rw [pivIn_rows_size] at this; exact this
    rw [pivIn_mag _ _ _ _ hlt, qabs_eq_zero]
    exact h _ (getD_mem _ _ hlt)

/-! ### schedule-free combination of the per-thread results

Each worker keeps the smallest singular column (+1) among the columns it factored; `thread_finalize`
takes the minimum over workers (ignoring 0 = "none").  Whatever the partition of columns among
workers and whatever the completion order, the result is the global minimum. -/

/-- combine two per-worker results: 0 means "no singular column seen" -/
def cmb (a x : Nat) : Nat := if x = 0 then a else if a = 0 then x else min a x

/-- minimum of the nonzero entries (0 if none), the way pdgstrf_thread_finalize combines `info` -/
def combineInfo (xs : List Nat) : Nat := xs.foldl cmb 0

theorem cmb_zero_left (x : Nat) : cmb 0 x = x := by unfold cmb; split <;> simp_all
theorem cmb_zero_right (a : Nat) : cmb a 0 = a := by unfold cmb; simp
theorem cmb_comm (a b : Nat) : cmb a b = cmb b a := by
  unfold cmb; by_cases ha : a = 0 <;> by_cases hb : b = 0 <;> simp [ha, hb, Nat.min_comm]
theorem cmb_assoc (a b c : Nat) : cmb (cmb a b) c = cmb a (cmb b c) := by
  unfold cmb
  by_cases ha : a = 0 <;> by_cases hb : b = 0 <;> by_cases hc : c = 0 <;> simp [ha, hb, hc, Nat.min_assoc]

theorem foldl_cmb (ys : List Nat) (a : Nat) : ys.foldl cmb a = cmb a (ys.foldl cmb 0) := by
  induction ys generalizing a with
  | nil => simp [cmb_zero_right]
  | cons y ys ih =>
    simp only [List.foldl_cons]
    rw [ih (cmb a y), ih (cmb 0 y), cmb_zero_left, cmb_assoc]

/-- the combined `info` does not depend on the order in which workers report (any completion order) -/
theorem info_combine_order_free (xs ys : List Nat) (h : xs.Perm ys) : combineInfo xs = combineInfo ys := by
  unfold combineInfo
  generalize (0 : Nat) = a
  induction h generalizing a with
  | nil => rfl
  | cons x _ ih => simp only [List.foldl_cons]; exact ih _
  | swap x y l =>
    simp only [List.foldl_cons]
    congr 1
    rw [cmb_assoc, cmb_assoc, cmb_comm y x]
  | trans _ _ ih1 ih2 => exact (ih1 a).trans (ih2 a)

/-- combining per-worker minima equals the minimum over all columns, for every split of the columns -/
theorem info_combine_split (xs ys : List Nat) :
    combineInfo [combineInfo xs, combineInfo ys] = combineInfo (xs ++ ys) := by
  unfold combineInfo
  simp only [List.foldl_cons, List.foldl_nil, List.foldl_append]
  rw [cmb_zero_left, foldl_cmb ys (xs.foldl cmb 0)]

/-- the combined value is 0 iff no worker saw a singular column, else it is the smallest one seen -/
theorem combineInfo_spec (xs : List Nat) :
    (combineInfo xs = 0 ↔ ∀ x ∈ xs, x = 0) ∧
    (combineInfo xs ≠ 0 → combineInfo xs ∈ xs ∧ ∀ x ∈ xs, x ≠ 0 → combineInfo xs ≤ x) := by
  unfold combineInfo
  induction xs using List.reverseRecOn with
  | nil => simp
  | append_singleton xs x ih =>
    simp only [List.foldl_append, List.foldl_cons, List.foldl_nil, List.mem_append, List.mem_singleton]
    obtain ⟨ih1, ih2⟩ := ih
    generalize List.foldl cmb 0 xs = F at ih1 ih2 ⊢
    unfold cmb
    by_cases hx : x = 0
    · simp only [hx, if_true]
      refine ⟨?_, ?_⟩
      · rw [ih1]; constructor
        · intro h y hy; rcases hy with hy | hy
          · exact h y hy
          · exact hy
        · intro h y hy; exact h y (Or.inl hy)
      · intro hne
        obtain ⟨m1, m2⟩ := ih2 hne
        refine ⟨Or.inl m1, ?_⟩
        intro y hy hyne
        rcases hy with hy | hy
        · exact m2 y hy hyne
        · exact absurd hy hyne
    · simp only [hx, if_false]
      by_cases hf : F = 0
      · simp only [hf, if_true]
        refine ⟨?_, ?_⟩
        · constructor
          · intro h; exact absurd h hx
          · intro h; exact h x (Or.inr rfl)
        · intro _
          refine ⟨Or.inr (by trivial), ?_⟩
          intro y hy hyne
          rcases hy with hy | hy
          · exact absurd (ih1.1 hf y hy) hyne
          · rw [hy]
      · simp only [hf, if_false]
        obtain ⟨m1, m2⟩ := ih2 hf
        refine ⟨?_, ?_⟩
        · constructor
          · intro h; omega
          · intro h; exact absurd (h x (Or.inr rfl)) hx
        · intro _
          refine ⟨?_, ?_⟩
          · by_cases hle : F ≤ x
            · rw [Nat.min_eq_left hle]; exact Or.inl m1
            · rw [Nat.min_eq_right (by omega)]; exact Or.inr rfl
          · intro y hy hyne
            rcases hy with hy | hy
            · exact le_trans (Nat.min_le_left _ _) (m2 y hy hyne)
            · rw [hy]; exact Nat.min_le_right _ _

/-! ### non-vacuity -/

def exSing : LUParams :=
  { n := 3, A := #[#[1, 2, 3], #[2, 4, 6], #[1, 1, 1]], u := 1, diagOf := fun j => j, oldInv := fun _ => 0 }

example : (factor exSing false).info = 3 := by decide +kernel
example : combineInfo [0, 5, 0, 3, 7] = 3 := by decide

end Slu
