import SluVerif.Model.Alloc
/-!
C05, dynamic L-supernode storage scheme: the reservations made by `DynamicSetMap` never overlap, for any order in which the threads reach
their H-supernodes; an allocation stays inside its reservation exactly as long as the requests of that supernode sum to at most the count
the reservation was made with; one more word and it runs into whatever was reserved next (the C code has no check) — which is what the
unchanged library does under several threads (known finding F11, DESIGN §12.3).
-/
namespace Slu

/-- geometry of the reservations: distinct leaders, consecutive non-overlapping slots, all below `nextlu` -/
structure DInv (st : DState) : Prop where
  nodup : (st.slots.map (·.leader)).Nodup
  sorted : st.slots.Pairwise (fun a b => a.start + a.cap ≤ b.start)
  below : ∀ s ∈ st.slots, s.start + s.cap ≤ st.next

theorem dinv_init (n : Nat) : DInv { next := n, slots := [] } :=
  ⟨by simp, by simp, by simp⟩

theorem map_bumpUsed_leader (l n : Nat) (ss : List DSlot) : (ss.map (bumpUsed l n)).map (·.leader) = ss.map (·.leader) := by
  induction ss with
  | nil => rfl
  | cons a as ih => simp only [List.map_cons, ih]; congr 1; unfold bumpUsed; split <;> rfl

theorem bumpUsed_start (l n : Nat) (t : DSlot) : (bumpUsed l n t).start = t.start ∧ (bumpUsed l n t).cap = t.cap := by
  unfold bumpUsed; split <;> exact ⟨rfl, rfl⟩

/-- a reservation for a new leader keeps the geometry -/
theorem dinv_reserve (st : DState) (l c : Nat) (h : DInv st) (hnew : l ∉ st.slots.map (·.leader)) :
    DInv (dstep st (.reserve l c)).1 := by
  refine ⟨?_, ?_, ?_⟩
  · simp only [dstep, List.map_append, List.map_cons, List.map_nil]
    rw [List.nodup_append]
    refine ⟨h.nodup, by simp, ?_⟩
    intro a ha b hb; simp only [List.mem_singleton] at hb; subst hb
    intro hab; subst hab; exact hnew ha
  · simp only [dstep]
    rw [List.pairwise_append]
    refine ⟨h.sorted, by simp, ?_⟩
    intro a ha b hb; simp only [List.mem_singleton] at hb; subst hb
    exact h.below a ha
  · intro s hs
    simp only [dstep, List.mem_append, List.mem_singleton] at hs
    rcases hs with hs | hs
    · have := h.below s hs; show s.start + s.cap ≤ st.next + c; omega
    · subst hs; show st.next + c ≤ st.next + c; omega

/-- an allocation moves a cursor only: the geometry is untouched -/
theorem dstep_alloc_none (st : DState) (l n : Nat) (h : st.slots.find? (fun t => t.leader = l) = none) :
    dstep st (.alloc l n) = (st, none) := by simp only [dstep, h]

theorem dstep_alloc_some (st : DState) (l n : Nat) (s : DSlot) (h : st.slots.find? (fun t => t.leader = l) = some s) :
    dstep st (.alloc l n) = ({ st with slots := st.slots.map (bumpUsed l n) }, some (s.start + s.used, n)) := by simp only [dstep, h]

theorem dinv_alloc (st : DState) (l n : Nat) (h : DInv st) : DInv (dstep st (.alloc l n)).1 := by
  cases hf : st.slots.find? (fun t => t.leader = l) with
  | none => rw [dstep_alloc_none st l n hf]; exact h
  | some s =>
    rw [dstep_alloc_some st l n s hf]
    refine ⟨?_, ?_, ?_⟩
    · show ((st.slots.map (bumpUsed l n)).map (·.leader)).Nodup
      rw [map_bumpUsed_leader]; exact h.nodup
    · show (st.slots.map (bumpUsed l n)).Pairwise _
      rw [List.pairwise_map]
      exact h.sorted.imp (fun {a b} hab => by
        have ha := bumpUsed_start l n a; have hb := bumpUsed_start l n b
        rw [ha.1, ha.2, hb.1]; exact hab)
    · intro s' hs
      have hs' : s' ∈ st.slots.map (bumpUsed l n) := hs
      rw [List.mem_map] at hs'
      obtain ⟨t, ht, rfl⟩ := hs'
      have := h.below t ht; have hb := bumpUsed_start l n t
      show (bumpUsed l n t).start + (bumpUsed l n t).cap ≤ st.next
      rw [hb.1, hb.2]; exact this

/-- every reachable state, whatever the order of events, as long as no leader is reserved twice -/
def freshReserves : DState → List DEv → Prop
  | _, [] => True
  | st, e :: es => (match e with | .reserve l _ => l ∉ st.slots.map (·.leader) | .alloc _ _ => True) ∧ freshReserves (dstep st e).1 es

theorem dinv_run (st : DState) (evs : List DEv) (h : DInv st) (hf : freshReserves st evs) : DInv (dfinal st evs) := by
  induction evs generalizing st with
  | nil => exact h
  | cons e es ih =>
    obtain ⟨h1, h2⟩ := hf
    cases e with
    | reserve l c => exact ih _ (dinv_reserve st l c h h1) h2
    | alloc l n => exact ih _ (dinv_alloc st l n h) h2

/-- **reservations never overlap**: any two slots of a reachable state are disjoint -/
theorem reservations_disjoint (st : DState) (evs : List DEv) (h : DInv st) (hf : freshReserves st evs)
    (a b : DSlot) (ha : a ∈ (dfinal st evs).slots) (hb : b ∈ (dfinal st evs).slots) (hne : a.leader ≠ b.leader) :
    a.start + a.cap ≤ b.start ∨ b.start + b.cap ≤ a.start := by
  have hi := dinv_run st evs h hf
  have := hi.sorted
  rcases List.pairwise_iff_getElem.mp this with hp
  obtain ⟨i, hi', rfl⟩ := List.getElem_of_mem ha
  obtain ⟨j, hj', rfl⟩ := List.getElem_of_mem hb
  rcases Nat.lt_trichotomy i j with hlt | heq | hgt
  · exact Or.inl (hp i j hi' hj' hlt)
  · subst heq; exact absurd rfl hne
  · exact Or.inr (hp j i hj' hi' hgt)

theorem nodup_map_inj (ss : List DSlot) (h : (ss.map (·.leader)).Nodup) {a b : DSlot} (ha : a ∈ ss) (hb : b ∈ ss)
    (hab : a.leader = b.leader) : a = b := by
  induction ss with
  | nil => cases ha
  | cons c cs ih =>
    simp only [List.map_cons, List.nodup_cons, List.mem_map, not_exists, not_and] at h
    simp only [List.mem_cons] at ha hb
    rcases ha with rfl | ha <;> rcases hb with rfl | hb
    · rfl
    · exact absurd hab.symm (h.1 b hb)
    · exact absurd hab (h.1 a ha)
    · exact ih h.2 ha hb

/-- what an allocation returns: the cursor of the leader's slot -/
theorem alloc_extent (st : DState) (l n : Nat) (e : Nat × Nat) (he : (dstep st (.alloc l n)).2 = some e) :
    ∃ s ∈ st.slots, s.leader = l ∧ e = (s.start + s.used, n) := by
  cases hf : st.slots.find? (fun t => t.leader = l) with
  | none => rw [dstep_alloc_none st l n hf] at he; cases he
  | some s =>
    rw [dstep_alloc_some st l n s hf] at he
    simp only [Option.some.injEq] at he
    have hm := List.mem_of_find?_eq_some hf
    have hp := List.find?_some hf
    exact ⟨s, hm, by simpa using hp, he.symm⟩

/-- **inside the reservation iff within the count**: the extent lies in the leader's slot exactly when the requests so far, this one
included, do not exceed the count the slot was reserved with -/
theorem alloc_in_slot_iff (st : DState) (l n : Nat) (e : Nat × Nat) (he : (dstep st (.alloc l n)).2 = some e) :
    ∃ s ∈ st.slots, s.leader = l ∧ s.start ≤ e.1 ∧ (e.1 + e.2 ≤ s.start + s.cap ↔ s.used + n ≤ s.cap) := by
  obtain ⟨s, hs, hl, rfl⟩ := alloc_extent st l n e he
  exact ⟨s, hs, hl, by simp, by simp only; omega⟩

/-- **a short count runs into the neighbour**: if the slot reserved right after `s` starts where `s` ends (always the case for consecutive
reservations) and the request exceeds what is left of `s`, the extent handed out intersects that neighbour's slot -/
theorem alloc_overruns_neighbour (st : DState) (l n : Nat) (e : Nat × Nat) (he : (dstep st (.alloc l n)).2 = some e)
    (s t : DSlot) (hs : s ∈ st.slots) (hl : s.leader = l) (hnd : (st.slots.map (·.leader)).Nodup)
    (hadj : t.start = s.start + s.cap) (hcap : 0 < t.cap) (hfit : s.used ≤ s.cap) (hshort : s.cap < s.used + n) :
    e.1 < t.start + t.cap ∧ t.start < e.1 + e.2 := by
  obtain ⟨s', hs', hl', rfl⟩ := alloc_extent st l n e he
  have : s' = s := by
    have h1 : s'.leader = s.leader := by rw [hl', hl]
    exact nodup_map_inj st.slots hnd hs' hs h1
  subst this
  simp only; omega

/-- the situation of finding F11 in numbers: a column counted at 4 rows (one-column H-supernode) asks for 8; the supernode reserved next
loses its first four words -/
example :
    let st := dfinal { next := 25, slots := [] } [.reserve 8 4, .reserve 9 20]
    (dstep st (.alloc 8 8)).2 = some (25, 8) ∧ (st.slots.map (fun s => (s.leader, s.start, s.cap))) = [(8, 25, 4), (9, 29, 20)] := by
  decide

/-- and the premises of the safe direction are met by a concrete run -/
example :
    let evs := [DEv.reserve 8 8, .reserve 9 20, .alloc 8 8, .alloc 9 10, .alloc 9 10]
    drun { next := 25, slots := [] } evs = [none, none, some (25, 8), some (33, 10), some (43, 10)] := by
  decide

end Slu
