/-
C02 — pivot policy of `p?gstrf_pivotL` (Model/Pivot.lean), for every column shape, every threshold,
every candidate set: complete case table, threshold / multiplier bound, diagonal preference,
first-maximum tie rule, pivot reuse.  (The exact LU identity built on it is in Props/LU.lean;
the floating-point clause is decided per run by the verified checker, Props/Checkers.lean.)
-/
import SluVerif.Proofs.PivotLemmas

namespace Slu

/-- index `i` is a candidate position of the current column -/
def PivIn.cand (p : PivIn) (i : Nat) : Prop := p.nsupc ≤ i ∧ i < p.rows.size
def PivIn.mag (p : PivIn) (i : Nat) : Rat := p.mags.getD i 0
def PivIn.row (p : PivIn) (i : Nat) : Int := p.rows.getD i 0

/-- magnitudes are non-negative (true of `fabs` and of `|re|+|im|`) -/
def PivIn.MagsNonneg (p : PivIn) : Prop := ∀ i, 0 ≤ p.mag i

/-- what the scan loop establishes, in the vocabulary of `PivIn` -/
abbrev PivIn.Inv (p : PivIn) (s : Scan) : Prop :=
  ScanInv p.rows p.mags p.usepr p.pivrow0 p.diagInd p.nsupc (p.rows.size - p.nsupc) s

theorem scan_of (p : PivIn) :
    p.Inv (scan p.rows p.mags p.usepr p.pivrow0 p.diagInd p.nsupc p.rows.size) :=
  scan_inv _ _ _ _ _ _ _

theorem cand_range (p : PivIn) (i : Nat) : p.cand i ↔ (p.nsupc ≤ i ∧ i < p.nsupc + (p.rows.size - p.nsupc)) := by
  unfold PivIn.cand; constructor <;> intro ⟨a, b⟩ <;> exact ⟨a, by omega⟩

/-! ### statements about `pivotDecide p s` for any `s` satisfying the scan invariant -/

theorem decide_singular_iff (p : PivIn) (s : Scan) (inv : p.Inv s) (hm : p.MagsNonneg) :
    (pivotDecide p s).info ≠ 0 ↔ ∀ i, p.cand i → p.mag i = 0 := by
  unfold pivotDecide
  simp only
  by_cases h0 : s.pivmax = 0
  · rw [if_pos h0]
    simp only [ne_eq, Nat.add_eq_zero_iff, Nat.one_ne_zero, and_false, not_false_eq_true, true_iff]
    intro i hi
    have := inv.ub i ((cand_range p i).1 hi).1 ((cand_range p i).1 hi).2
    rw [h0] at this
    exact le_antisymm this (hm i)
  · rw [if_neg h0]
    have harg := inv.arg h0
    have hne : ¬ ∀ i, p.cand i → p.mag i = 0 := by
      intro hall
      have := hall _ ((cand_range p _).2 ⟨harg.1, harg.2.1⟩)
      unfold PivIn.mag at this
      rw [harg.2.2.1] at this
      exact h0 this
    split <;> simp [hne]

theorem decide_singular_shape (p : PivIn) (s : Scan) (inv : p.Inv s) (h : (pivotDecide p s).info ≠ 0) :
    (pivotDecide p s).info = p.jcol + 1 ∧ (pivotDecide p s).usepr = false ∧ (pivotDecide p s).swapped = false ∧
    (pivotDecide p s).pivptr = p.nsupc := by
  unfold pivotDecide at h ⊢
  simp only at h ⊢
  by_cases h0 : s.pivmax = 0
  · rw [if_pos h0]; exact ⟨rfl, rfl, rfl, inv.zero h0⟩
  · exfalso
    rw [if_neg h0] at h
    split at h <;> simp at h

theorem decide_outOfRange_iff (p : PivIn) (s : Scan) (inv : p.Inv s) :
    (pivotDecide p s).outOfRange = true ↔ p.rows.size ≤ p.nsupc := by
  unfold pivotDecide
  simp only
  by_cases h0 : s.pivmax = 0
  · rw [if_pos h0]; simp [inv.zero h0]
  · rw [if_neg h0]
    have harg := inv.arg h0
    constructor
    · intro h; split at h <;> simp at h
    · intro h; omega

theorem decide_threshold (p : PivIn) (s : Scan) (inv : p.Inv s) (hm : p.MagsNonneg) (hu0 : 0 ≤ p.u) (hu1 : p.u ≤ 1)
    (h : (pivotDecide p s).info = 0) :
    p.cand (pivotDecide p s).pivptr ∧ p.mag (pivotDecide p s).pivptr ≠ 0 ∧
    ∀ i, p.cand i → p.u * p.mag i ≤ p.mag (pivotDecide p s).pivptr := by
  unfold pivotDecide at h ⊢
  simp only at h ⊢
  by_cases h0 : s.pivmax = 0
  · rw [if_pos h0] at h; simp at h
  · rw [if_neg h0]
    have harg := inv.arg h0
    have hub : ∀ i, p.cand i → p.mag i ≤ s.pivmax := fun i hi => inv.ub i ((cand_range p i).1 hi).1 ((cand_range p i).1 hi).2
    have hthr : ∀ i, p.cand i → p.u * p.mag i ≤ p.u * s.pivmax := fun i hi => mul_le_mul_of_nonneg_left (hub i hi) hu0
    have hmaxc : p.cand s.pivptr := (cand_range p _).2 ⟨harg.1, harg.2.1⟩
    have hmax : ∀ i, p.cand i → p.u * p.mag i ≤ p.mag s.pivptr := by
      intro i hi
      show p.u * p.mag i ≤ p.mags.getD s.pivptr 0
      rw [harg.2.2.1]
      calc p.u * p.mag i ≤ 1 * s.pivmax := mul_le_mul hu1 (hub i hi) (hm i) (by norm_num)
        _ = s.pivmax := one_mul _
    have hmaxne : p.mag s.pivptr ≠ 0 := by
      show p.mags.getD s.pivptr 0 ≠ 0
      rw [harg.2.2.1]; exact h0
    split
    · next hold =>
      simp only [Bool.and_eq_true, decide_eq_true_eq] at hold
      obtain ⟨hus, hne, hge⟩ := hold
      rcases inv.old with ⟨o1, _⟩ | ⟨_, o2, o3, _⟩
      · have hc : p.cand p.nsupc := ⟨le_refl _, by have := harg.2.1; omega⟩
        rw [o1] at hne hge ⊢
        exact ⟨hc, hne, fun i hi => le_trans (hthr i hi) hge⟩
      · exact ⟨(cand_range p _).2 ⟨o2, o3⟩, hne, fun i hi => le_trans (hthr i hi) hge⟩
    · next hold =>
      split
      · next d hd =>
        split
        · next hdg =>
          simp only [Bool.and_eq_true, decide_eq_true_eq] at hdg
          obtain ⟨d1, d2, _, _⟩ := inv.diagSome d hd
          exact ⟨(cand_range p d).2 ⟨d1, d2⟩, hdg.1, fun i hi => le_trans (hthr i hi) hdg.2⟩
        · exact ⟨hmaxc, hmaxne, hmax⟩
      · exact ⟨hmaxc, hmaxne, hmax⟩

theorem decide_diag_preferred (p : PivIn) (s : Scan) (inv : p.Inv s)
    (h : (pivotDecide p s).info = 0) (hus : (pivotDecide p s).usepr = false)
    (d : Nat) (hd : p.cand d) (hrow : p.row d = p.diagInd)
    (huniq : ∀ i, p.cand i → p.row i = p.diagInd → i = d)
    (hne : p.mag d ≠ 0) (hge : ∀ i, p.cand i → p.u * p.mag i ≤ p.mag d) :
    (pivotDecide p s).pivptr = d ∧ (pivotDecide p s).pivrow = p.diagInd := by
  unfold pivotDecide at h hus ⊢
  simp only at h hus ⊢
  by_cases h0 : s.pivmax = 0
  · rw [if_pos h0] at h; simp at h
  · rw [if_neg h0] at hus ⊢
    have harg := inv.arg h0
    split
    · next hold => rw [if_pos hold] at hus; simp at hus
    · next hold =>
      have hdiag : s.diag = some d := by
        cases hdg : s.diag with
        | none =>
          exfalso
          exact inv.diagNone hdg d ((cand_range p d).1 hd).1 ((cand_range p d).1 hd).2 hrow
        | some d' =>
          obtain ⟨d1, d2, d3, _⟩ := inv.diagSome d' hdg
          rw [huniq d' ((cand_range p d').2 ⟨d1, d2⟩) d3]
      simp only [hdiag]
      have hthr : p.u * s.pivmax ≤ p.mags.getD d 0 := by
        have := hge _ ((cand_range p _).2 ⟨harg.1, harg.2.1⟩)
        unfold PivIn.mag at this
        rw [harg.2.2.1] at this
        exact this
      have hne' : p.mags.getD d 0 ≠ 0 := hne
      simp only [hne', hthr, ne_eq, not_false_eq_true, decide_true, Bool.and_self, if_true]
      exact ⟨trivial, hrow⟩

theorem decide_else_first_max (p : PivIn) (s : Scan) (inv : p.Inv s) (hu0 : 0 ≤ p.u)
    (h : (pivotDecide p s).info = 0) (hus : (pivotDecide p s).usepr = false)
    (hnodiag : ∀ d, p.cand d → p.row d = p.diagInd →
        p.mag d = 0 ∨ ∃ i, p.cand i ∧ p.mag d < p.u * p.mag i) :
    p.cand (pivotDecide p s).pivptr ∧
    (∀ i, p.cand i → p.mag i ≤ p.mag (pivotDecide p s).pivptr) ∧
    (∀ i, p.cand i → i < (pivotDecide p s).pivptr → p.mag i < p.mag (pivotDecide p s).pivptr) := by
  unfold pivotDecide at h hus ⊢
  simp only at h hus ⊢
  by_cases h0 : s.pivmax = 0
  · rw [if_pos h0] at h; simp at h
  · rw [if_neg h0] at hus ⊢
    have harg := inv.arg h0
    have hub : ∀ i, p.cand i → p.mag i ≤ s.pivmax := fun i hi => inv.ub i ((cand_range p i).1 hi).1 ((cand_range p i).1 hi).2
    have main : p.cand s.pivptr ∧ (∀ i, p.cand i → p.mag i ≤ p.mag s.pivptr) ∧
        (∀ i, p.cand i → i < s.pivptr → p.mag i < p.mag s.pivptr) := by
      refine ⟨(cand_range p _).2 ⟨harg.1, harg.2.1⟩, ?_, ?_⟩
      · intro i hi; show p.mag i ≤ p.mags.getD s.pivptr 0; rw [harg.2.2.1]; exact hub i hi
      · intro i hi hlt; show p.mags.getD i 0 < p.mags.getD s.pivptr 0; rw [harg.2.2.1]; exact harg.2.2.2 i hi.1 hlt
    split
    · next hold => rw [if_pos hold] at hus; simp at hus
    · next hold =>
      split
      · next d hd =>
        obtain ⟨d1, d2, d3, _⟩ := inv.diagSome d hd
        have hdc : p.cand d := (cand_range p d).2 ⟨d1, d2⟩
        split
        · next hdg =>
          exfalso
          simp only [Bool.and_eq_true, decide_eq_true_eq] at hdg
          rcases hnodiag d hdc d3 with hz | ⟨i, hi, hlt⟩
          · exact hdg.1 hz
          · have h1 : p.u * p.mag i ≤ p.u * s.pivmax := mul_le_mul_of_nonneg_left (hub i hi) hu0
            exact absurd (lt_of_lt_of_le hlt h1) (not_lt.2 hdg.2)
        · exact main
      · exact main

theorem decide_usepr_kept (p : PivIn) (s : Scan) (inv : p.Inv s) (hm : p.MagsNonneg)
    (hreq : p.usepr = true) (o : Nat) (ho : p.cand o) (hrow : p.row o = p.oldPivRow)
    (hne : p.mag o ≠ 0) (hge : ∀ i, p.cand i → p.u * p.mag i ≤ p.mag o)
    (huniq : ∀ i, p.cand i → p.row i = p.oldPivRow → i = o) :
    (pivotDecide p s).usepr = true ∧ (pivotDecide p s).pivrow = p.oldPivRow ∧ (pivotDecide p s).info = 0 ∧
    (pivotDecide p s).pivptr = o := by
  have hp0 : p.pivrow0 = p.oldPivRow := by unfold PivIn.pivrow0; simp [hreq]
  have hpm : s.pivmax ≠ 0 := by
    intro h0
    have h1 := inv.ub o ((cand_range p o).1 ho).1 ((cand_range p o).1 ho).2
    rw [h0] at h1
    exact hne (le_antisymm h1 (hm o))
  rcases inv.old with ⟨_, o2⟩ | ⟨_, q2, q3, q4⟩
  · exfalso
    exact o2 hreq o ((cand_range p o).1 ho).1 ((cand_range p o).1 ho).2 (by rw [hp0]; exact hrow)
  · have hqc : p.cand s.oldPtr := (cand_range p _).2 ⟨q2, q3⟩
    rw [hp0] at q4
    have hq : s.oldPtr = o := huniq _ hqc q4
    unfold pivotDecide
    simp only
    rw [if_neg hpm]
    have harg := inv.arg hpm
    have hthr : p.u * s.pivmax ≤ p.mags.getD s.oldPtr 0 := by
      rw [hq]
      have := hge _ ((cand_range p _).2 ⟨harg.1, harg.2.1⟩)
      unfold PivIn.mag at this
      rw [harg.2.2.1] at this
      exact this
    have hne' : p.mags.getD s.oldPtr 0 ≠ 0 := by rw [hq]; exact hne
    simp only [hreq, hne', hthr, ne_eq, not_false_eq_true, decide_true, ge_iff_le, Bool.and_self, if_true]
    exact ⟨trivial, trivial, trivial, hq⟩

/-! ### the same statements for `pivotSelect` (the scan result satisfies the invariant for every input) -/

/-- **Singular branch**: `info ≠ 0` exactly when every candidate is exactly zero. -/
theorem pivot_singular_iff (p : PivIn) (hm : p.MagsNonneg) :
    (pivotSelect p).info ≠ 0 ↔ ∀ i, p.cand i → p.mag i = 0 :=
  decide_singular_iff p _ (scan_of p) hm

/-- ... and then `info = jcol+1`, the shared `usepr` flag is cleared, nothing is interchanged or scaled,
and the pivot row is the one at the first candidate position. -/
theorem pivot_singular_shape (p : PivIn) (h : (pivotSelect p).info ≠ 0) :
    (pivotSelect p).info = p.jcol + 1 ∧ (pivotSelect p).usepr = false ∧ (pivotSelect p).swapped = false ∧
    (pivotSelect p).pivptr = p.nsupc :=
  decide_singular_shape p _ (scan_of p) h

/-- the C code reads `lsub_ptr[nsupc]` past the row list exactly when there is no candidate at all
(`nsupr ≤ nsupc`); with at least one candidate row every access is in range. -/
theorem pivot_outOfRange_iff (p : PivIn) : (pivotSelect p).outOfRange = true ↔ p.rows.size ≤ p.nsupc :=
  decide_outOfRange_iff p _ (scan_of p)

/-- **Threshold**: a non-singular column gets a pivot that is a candidate, nonzero, and at least
`u ·` every candidate (every `0 ≤ u ≤ 1`, whichever rule fired, including pivot reuse). -/
theorem pivot_threshold (p : PivIn) (hm : p.MagsNonneg) (hu0 : 0 ≤ p.u) (hu1 : p.u ≤ 1)
    (h : (pivotSelect p).info = 0) :
    p.cand (pivotSelect p).pivptr ∧ p.mag (pivotSelect p).pivptr ≠ 0 ∧
    ∀ i, p.cand i → p.u * p.mag i ≤ p.mag (pivotSelect p).pivptr :=
  decide_threshold p _ (scan_of p) hm hu0 hu1 h

/-- **Multiplier bound**: for `0 < u ≤ 1` every candidate divided by the pivot has magnitude `≤ 1/u`
(so `≤ 1` for the default `u = 1`). -/
theorem pivot_multiplier_bound (p : PivIn) (hm : p.MagsNonneg) (hu0 : 0 < p.u) (hu1 : p.u ≤ 1)
    (h : (pivotSelect p).info = 0) (i : Nat) (hi : p.cand i) :
    p.mag i / p.mag (pivotSelect p).pivptr ≤ 1 / p.u := by
  obtain ⟨_, hne, hb⟩ := pivot_threshold p hm (le_of_lt hu0) hu1 h
  have hpos : 0 < p.mag (pivotSelect p).pivptr := lt_of_le_of_ne (hm _) (Ne.symm hne)
  rw [div_le_div_iff₀ hpos hu0]
  have := hb i hi
  linarith

/-- **Diagonal preferred**: when the call ends with `usepr = NO` (not requested, or abandoned), the
column is non-singular, the diagonal row `diagInd` is among the candidates (row indices distinct), its
entry is nonzero and `≥ u ·` every candidate, then the diagonal is the pivot. -/
theorem pivot_diag_preferred (p : PivIn)
    (h : (pivotSelect p).info = 0) (hus : (pivotSelect p).usepr = false)
    (d : Nat) (hd : p.cand d) (hrow : p.row d = p.diagInd)
    (huniq : ∀ i, p.cand i → p.row i = p.diagInd → i = d)
    (hne : p.mag d ≠ 0) (hge : ∀ i, p.cand i → p.u * p.mag i ≤ p.mag d) :
    (pivotSelect p).pivptr = d ∧ (pivotSelect p).pivrow = p.diagInd :=
  decide_diag_preferred p _ (scan_of p) h hus d hd hrow huniq hne hge

/-- **Otherwise the first maximum** (the documented tie rule: strict `>` in the scan). -/
theorem pivot_else_first_max (p : PivIn) (hu0 : 0 ≤ p.u)
    (h : (pivotSelect p).info = 0) (hus : (pivotSelect p).usepr = false)
    (hnodiag : ∀ d, p.cand d → p.row d = p.diagInd →
        p.mag d = 0 ∨ ∃ i, p.cand i ∧ p.mag d < p.u * p.mag i) :
    p.cand (pivotSelect p).pivptr ∧
    (∀ i, p.cand i → p.mag i ≤ p.mag (pivotSelect p).pivptr) ∧
    (∀ i, p.cand i → i < (pivotSelect p).pivptr → p.mag i < p.mag (pivotSelect p).pivptr) :=
  decide_else_first_max p _ (scan_of p) hu0 h hus hnodiag

/-- **Pivot reuse**: if reuse is requested and the old pivot row is a candidate whose entry is nonzero
and passes the threshold, it is taken again and the flag stays set. -/
theorem pivot_usepr_kept (p : PivIn) (hm : p.MagsNonneg)
    (hreq : p.usepr = true) (o : Nat) (ho : p.cand o) (hrow : p.row o = p.oldPivRow)
    (hne : p.mag o ≠ 0) (hge : ∀ i, p.cand i → p.u * p.mag i ≤ p.mag o)
    (huniq : ∀ i, p.cand i → p.row i = p.oldPivRow → i = o) :
    (pivotSelect p).usepr = true ∧ (pivotSelect p).pivrow = p.oldPivRow ∧ (pivotSelect p).info = 0 ∧
    (pivotSelect p).pivptr = o :=
  decide_usepr_kept p _ (scan_of p) hm hreq o ho hrow hne hge huniq

/-- C16: at threshold 0 a nonzero diagonal candidate is always the pivot. -/
theorem pivot_diag_at_zero_threshold (p : PivIn) (hm : p.MagsNonneg) (hu : p.u = 0)
    (hus : p.usepr = false)
    (d : Nat) (hd : p.cand d) (hrow : p.row d = p.diagInd)
    (huniq : ∀ i, p.cand i → p.row i = p.diagInd → i = d) (hne : p.mag d ≠ 0) :
    (pivotSelect p).info = 0 ∧ (pivotSelect p).pivptr = d ∧ (pivotSelect p).pivrow = p.diagInd := by
  have hinfo : (pivotSelect p).info = 0 := by
    by_contra hc
    exact hne ((pivot_singular_iff p hm).1 hc d hd)
  have husout : (pivotSelect p).usepr = false := by
    unfold pivotSelect pivotDecide
    simp only [hus, Bool.false_and, Bool.false_eq_true, if_false]
    split <;> rfl
  have := pivot_diag_preferred p hinfo husout d hd hrow huniq hne (by intro i _; rw [hu, zero_mul]; exact hm d)
  exact ⟨hinfo, this.1, this.2⟩

/-! ### non-vacuity: concrete columns meeting the hypotheses -/

def exPiv : PivIn :=
  { jcol := 2, nsupc := 1, rows := #[0, 5, 2, 7], mags := #[9, 1, 3, 4], u := 1/2, usepr := false, oldPivRow := 0, diagInd := 2 }

example : (pivotSelect exPiv).info = 0 ∧ (pivotSelect exPiv).pivrow = 2 ∧ (pivotSelect exPiv).pivptr = 2 := by decide +kernel
example : (pivotSelect { exPiv with u := 1 }).pivrow = 7 := by decide +kernel  -- threshold 1: the maximum wins
example : (pivotSelect { exPiv with mags := #[9, 0, 0, 0] }).info = 3 := by decide +kernel  -- all candidates zero
example : (pivotSelect { exPiv with rows := #[0] , mags := #[9] }).outOfRange = true := by decide +kernel  -- no candidate row

end Slu

namespace Slu

/-- whichever rule fires, the chosen position is a candidate (given at least one candidate) -/
theorem decide_ptr_cand (p : PivIn) (s : Scan) (inv : p.Inv s) (hne : p.nsupc < p.rows.size) :
    p.cand (pivotDecide p s).pivptr := by
  unfold pivotDecide
  simp only
  by_cases h0 : s.pivmax = 0
  · rw [if_pos h0]; simp only; rw [inv.zero h0]; exact ⟨le_refl _, hne⟩
  · rw [if_neg h0]
    have harg := inv.arg h0
    split
    · rcases inv.old with ⟨o1, _⟩ | ⟨_, o2, o3, _⟩
      · simp only [o1]; exact ⟨le_refl _, hne⟩
      · exact (cand_range p _).2 ⟨o2, o3⟩
    · simp only
      split
      · next d hd =>
        split
        · obtain ⟨d1, d2, _, _⟩ := inv.diagSome d hd
          exact (cand_range p d).2 ⟨d1, d2⟩
        · exact (cand_range p _).2 ⟨harg.1, harg.2.1⟩
      · exact (cand_range p _).2 ⟨harg.1, harg.2.1⟩

/-- a reported success means a nonzero pivot, for every threshold value -/
theorem decide_pivot_nonzero (p : PivIn) (s : Scan) (inv : p.Inv s) (h : (pivotDecide p s).info = 0) :
    p.mag (pivotDecide p s).pivptr ≠ 0 := by
  unfold pivotDecide at h ⊢
  simp only at h ⊢
  by_cases h0 : s.pivmax = 0
  · rw [if_pos h0] at h; simp at h
  · rw [if_neg h0]
    have harg := inv.arg h0
    have hmaxne : p.mag s.pivptr ≠ 0 := by
      show p.mags.getD s.pivptr 0 ≠ 0
      rw [harg.2.2.1]; exact h0
    split
    · next hold =>
      simp only [Bool.and_eq_true, decide_eq_true_eq] at hold
      exact hold.2.1
    · simp only
      split
      · next d hd =>
        split
        · next hdg => simp only [Bool.and_eq_true, decide_eq_true_eq] at hdg; exact hdg.1
        · exact hmaxne
      · exact hmaxne

theorem pivot_ptr_cand (p : PivIn) (hne : p.nsupc < p.rows.size) : p.cand (pivotSelect p).pivptr :=
  decide_ptr_cand p _ (scan_of p) hne

theorem pivot_nonzero (p : PivIn) (h : (pivotSelect p).info = 0) : p.mag (pivotSelect p).pivptr ≠ 0 :=
  decide_pivot_nonzero p _ (scan_of p) h

end Slu
