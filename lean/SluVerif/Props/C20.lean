/-
C20 — file readers return exactly the matrix a well-formed file encodes.

Property theorems over the reader model `Model/Read.lean` (which mirrors SRC/?readhb.c, ?readrb.c,
?readmt.c) and the independent writer `Model/ReadWrite.lean`.

* `fmtInt_roundtrip`, `fmtInt_roundtrip_neg`   — `atoi` of a right-justified `Iw` field is the integer printed
* `parseIntFormat_spec`, `parseFloatFormat_spec` — `?ParseIntFormat` / `?ParseFloatFormat` on `(nIw)`,
  `([kP]n(E|D|F)w.d…)` yield `(perline, width)`
* `slice_spec`                                   — fixed-width slicing of a card into its fields
* `atof_printed_decimal`                         — `atof` after `D`→`E` of a printed decimal is that decimal
* `readItems_writeItems_spec`                    — `?ReadVector`/`?ReadValues` loop over cards of `perline` fields
* `readHB_writeHB`, `readRB_writeRB`, `readMT_writeMT` — reader ∘ writer = id (dimensions, nnz, colptr, rowind, values),
  for every descriptor triple, with and without the RHS header card, any card padding up to 98 columns
* `readHB_type_irrelevant` (= `symmetric_expansion_partial`): the result does not depend on MXTYPE; hence
  `symmetric_expansion_fails`: a 2×2 RSA file is returned as its stored triangle (finding `symmetric-not-expanded`)
* `readItems_perline_zero`, `parseIntFormat_no_count`, `parseFloatFormat_comma`: legal descriptors without an
  explicit repeat count make the card loop diverge (finding `descriptor-without-repeat-count`)
-/
import SluVerif.Proofs.ReadBody
import SluVerif.Proofs.ReadMT
namespace Slu.Read

/-! ## integer fields -/

/-- `atoi` of the `Iw` edit of `k` (right-justified, blank padded) is `k`; the field has width `w` when the
digits fit. -/
theorem fmtInt_roundtrip (w k : Nat) (hk : k < 2147483648) :
    atoiC (fmtInt w k) = some (k : Int) ∧ ((natDigits k).length ≤ w → (fmtInt w k).length = w) :=
  ⟨atoiC_fmtInt' w hk, fun h => fmtInt_length h⟩

example : atoiC (fmtInt 8 1234) = some 1234 := (fmtInt_roundtrip 8 1234 (by decide)).1
example : atoiC "    1234".toList = some 1234 := by decide

/-- the same with a sign. -/
theorem fmtInt_roundtrip_neg (w k : Nat) (hk : k ≤ 2147483648) :
    atoiC (fmtIntZ w (-(k : Int))) = some (-(k : Int)) := by
  by_cases h0 : k = 0
  · subst h0
    have : fmtIntZ w (-((0 : Nat) : Int)) = fmtInt w 0 := by simp [fmtIntZ, fmtInt]
    rw [this]; exact atoiC_fmtInt' w (by decide)
  · have hneg : (-(k : Int)) < 0 := by omega
    have habs : (-(k : Int)).natAbs = k := by omega
    have := atoiZ_neg_digits (p := w - ('-' :: natDigits k).length) (natDigits_allDig k) (rest := []) trivial
    simp only [List.append_nil] at this
    unfold fmtIntZ
    rw [if_pos hneg, habs, padLeft, atoiC, this, valOf_natDigits]
    have : inInt32 (-(k : Int)) = true := by simp [inInt32]; omega
    simp [this]

example : atoiC (fmtIntZ 6 (-(42 : Nat))) = some (-42) := fmtInt_roundtrip_neg 6 42 (by decide)
example : atoiC "   -42".toList = some (-42) := by decide

/-- the reader's `where[i] = atoi(field) - 1` on the 1-based field of a 0-based index. -/
theorem convIndex_roundtrip (w i : Nat) (hi : i + 1 < 2147483648) : convIndex (fmtInt w (i + 1)) = some (i : Int) :=
  convIndex_fmtInt w hi

example : convIndex (fmtInt 5 7) = some 6 := convIndex_roundtrip 5 6 (by decide)
example : convIndex "    7".toList = some 6 := by decide

/-! ## format descriptors -/

/-- `?ParseIntFormat` on a buffer that contains `(nIw)` (either case of `I`, any prefix without a parenthesis,
anything behind the closing parenthesis — blanks, the tail of the title line): `num = n`, `size = w`. -/
theorem parseIntFormat_spec (d : IntDesc) (tail : Str)
    (hpre : ∀ x ∈ d.pre, (x == '(') = false) (hI : isI d.letter = true)
    (hn : d.n < 2147483648) (hw : d.w < 2147483648) :
    parseIntFormat (d.text ++ tail) = some ((d.n : Int), (d.w : Int)) :=
  parseIntFormat_text d tail hpre hI hn hw

example : parseIntFormat "(16I5)          title tail (9I9)".toList = some (16, 5) := by decide
example : parseIntFormat (({ n := 13, letter := 'i', w := 6 } : IntDesc).text ++ []) = some (13, 6) :=
  parseIntFormat_spec _ _ (by decide) (by decide) (by decide) (by decide)

/-- `?ParseFloatFormat` on `([kP]nXw.d…)`, `X ∈ {E,e,D,d,F,f}`, optional scale factor `kP`/`kp`, anything from the
`.` (or `)`) on: `num = n`, `size = w`. -/
theorem parseFloatFormat_spec (d : RealDesc) (tail : Str) (h : d.WF) :
    parseFloatFormat (d.text ++ tail) = some ((d.n : Int), (d.w : Int)) :=
  parseFloatFormat_text d tail h

example : parseFloatFormat "(1P5E16.8)      x".toList = some (5, 16) := by decide
example : parseFloatFormat "(4D20.13)".toList = some (4, 20) := by decide
example : parseFloatFormat "(6f13.6)".toList = some (6, 13) := by decide
example : parseFloatFormat "(3e26.18E3)".toList = some (3, 26) := by decide
example : ({ scale := some (1, 'P'), n := 5, letter := 'E', w := 16 } : RealDesc).WF := by
  refine ⟨by decide, by decide, by decide, by decide, ⟨'.', ['8', ')'], rfl, by decide⟩, ?_⟩
  intro k p h; cases h; exact ⟨by decide, by decide⟩

/-- finding `descriptor-without-repeat-count`: a legal descriptor without a count gives `num = 0` … -/
theorem parseIntFormat_no_count : parseIntFormat "(I8)".toList = some (0, 8) := by decide
theorem parseFloatFormat_no_count : parseFloatFormat "(E12.4)".toList = some (0, 12) := by decide
/-- … so does a comma after the scale factor … -/
theorem parseFloatFormat_comma : parseFloatFormat "(1P,2E12.4)".toList = some (0, 12) := by decide
/-- … and with `perline = 0` the card loop never terminates (`none`), whatever the input. -/
theorem readItems_perline_zero {α : Type} (conv : Str → Option α) (w : Int) (need : Nat) (s : Str) (h : 0 < need) :
    readItems conv 0 w need s = none := by
  unfold readItems
  rw [if_neg (by omega)]; simp

/-! ## slicing -/

/-- `?ReadVector`/`?ReadValues` cut a buffered card that starts with `k` fields of width `w` (`k*w < 100`) into
exactly those fields, whatever follows (padding, newline). -/
theorem slice_spec (w : Nat) (fs : List Str) (tail : Str)
    (hw : ∀ f ∈ fs, f.length = w) (hb : fs.length * w < 100) :
    fieldsFrom w fs.length 0 (fs.flatten ++ tail) = some fs :=
  fieldsFrom_flatten w fs 0 tail hw (by omega)

example : fieldsFrom 4 3 0 "   1  22 333 pad\n".toList = some ["   1".toList, "  22".toList, " 333".toList] := by decide
/-- a store of the temporary NUL at `buf[100]` or beyond is outside the buffer. -/
example : fieldsFrom 50 2 0 (List.replicate 99 '1') = none := by decide

/-! ## printed decimals -/

/-- `atof` (after the `D`→`E` substitution) of a right-justified printed decimal
`[±] digits . digits [ (E|e|D|d) [±] digits ]` is exactly the decimal it denotes. -/
theorem atof_printed_decimal (w : Nat) (d : Dec) (h : d.WF) : convValue (padLeft w d.text) = some d.value :=
  convValue_text w d h

example : convValue "  -0.1250D+02".toList = some (-1250, -2) := by decide
example : convValue "   1.5e-3".toList = some (15, -4) := by decide
example : convValue "    .5".toList = some (5, -1) := by decide
example : ({ neg := true, plus := false, ip := ['0'], fp := "1250".toList,
             ex := some { letter := 'D', neg := false, plus := true, ds := "02".toList } } : Dec).WF := by
  refine ⟨by decide, by decide, by decide, ?_⟩
  intro e he; cases he; exact ⟨by decide, by decide, by decide⟩

/-! ## the card loop -/

/-- reading back `fs` written `perline` to a card (each card followed by `trail` and a newline). -/
theorem readItems_writeItems_spec {α : Type} (conv : Str → Option α) (g : Str → α) (perline w : Nat) (trail : Str)
    (fs : List Str) (rest : Str)
    (hp : 0 < perline) (hb : perline * w + trail.length ≤ 98) (htr : NoNL trail)
    (hw : ∀ f ∈ fs, f.length = w) (hnl : ∀ f ∈ fs, NoNL f) (hconv : ∀ f ∈ fs, conv f = some (g f)) :
    readItems conv (perline : Int) (w : Int) fs.length (writeItems perline trail fs.length fs ++ rest) =
      some (fs.map g, rest) :=
  readItems_writeItems conv g perline w trail fs rest hp hb htr hw hnl hconv

example : readItems convIndex 2 3 3 "  1  2\n  3\nrest".toList = some ([0, 1, 2], "rest".toList) := by decide

/-! ## Harwell-Boeing: reader ∘ writer = id -/

/-- admissibility of what the HB writer is told (`cplx`: complex precisions read two reals per entry). -/
structure HBFile.WF (f : HBFile) (cplx : Bool) : Prop where
  title : f.title.length = 72
  key : f.key.length = 8
  trail : NoNL f.trail
  totcrd : f.totcrd < 2147483648
  ptrcrd : f.ptrcrd < 2147483648
  indcrd : f.indcrd < 2147483648
  valcrd : f.valcrd < 2147483648
  rhscrd : f.rhscrd < 2147483648
  mxtype : f.mxtype.length = 3
  pad11 : f.pad11.length = 11
  nrow : f.nrow < 2147483648
  ncol : f.ncol < 2147483648
  nnz : f.nnz < 2147483648
  neltvl : f.neltvl < 2147483648
  ptrfmt : f.ptrfmt.WF
  indfmt : f.indfmt.WF
  valfmt : f.valfmt.WF
  valfmt_len : f.valfmt.text.length ≤ 20
  rhsfmt : f.rhsfmt.length = 20
  rhsline : NoNL f.rhsline
  ptr_n : 0 < f.ptrfmt.n
  ptr_line : f.ptrfmt.n * f.ptrfmt.w + f.trail.length ≤ 98
  ind_n : 0 < f.indfmt.n
  ind_line : f.indfmt.n * f.indfmt.w + f.trail.length ≤ 98
  val_n : 0 < f.valfmt.n
  val_line : f.valfmt.n * f.valfmt.w + f.trail.length ≤ 98
  colptr_len : f.colptr.length = f.ncol + 1
  rowind_len : f.rowind.length = f.nnz
  vals_len : f.vals.length = (if cplx then 2 else 1) * f.nnz
  colptr_fit : ∀ p ∈ f.colptr, p + 1 < 2147483648 ∧ (natDigits (p + 1)).length ≤ f.ptrfmt.w
  rowind_fit : ∀ i ∈ f.rowind, i + 1 < 2147483648 ∧ (natDigits (i + 1)).length ≤ f.indfmt.w
  vals_fit : ∀ v ∈ f.vals, v.WF ∧ v.text.length ≤ f.valfmt.w

/-- **`?readhb` returns exactly the matrix the file encodes**: for every admissible file description `f`
(any title/key/padding, any descriptor triple whose cards fit `fgets(buf,100)` — in particular every line width
≤ 80 —, any exponent letters and signs, with (`rhscrd > 0`) or without the RHS header card, real or complex), reading
what the independent writer wrote gives back the dimensions, the nonzero count, the 0-based column pointers and row
indices, and for every value field the exact decimal it prints (`none` for a pattern file, VALCRD = 0). -/
theorem readHB_writeHB (cplx : Bool) (f : HBFile) (h : f.WF cplx) :
    readHB cplx (writeHB f) =
      some { nrow := f.nrow, ncol := f.ncol, nnz := f.nnz,
             colptr := f.colptr.map (fun (p : Nat) => (p : Int)), rowind := f.rowind.map (fun (p : Nat) => (p : Int)),
             vals := if f.valcrd = 0 then none else some (f.vals.map Dec.value) } := by
  have i14 : ∀ {k : Nat}, k < 2147483648 → (fmtInt 14 k).length = 14 ∧ atoiC (fmtInt 14 k) = some (k : Int) :=
    fun hk => ⟨fmtInt14_length hk, atoiC_fmtInt' 14 hk⟩
  have hbody := readBody_written cplx f.nrow f.ncol f.nnz f.valcrd f.ptrfmt f.indfmt f.valfmt f.trail
    f.colptr f.rowind f.vals f.after h.trail h.ptr_n h.ptr_line h.ind_n h.ind_line h.val_n h.val_line
    h.colptr_len h.rowind_len h.vals_len h.colptr_fit h.rowind_fit h.vals_fit
  unfold writeHB readHB card
  simp only [List.append_assoc, List.cons_append, List.nil_append]
  rw [hbLine1_card _ _ _ _ h.title h.key h.trail]
  simp only
  rw [cardInts5 _ _ h.trail (i14 h.totcrd) (i14 h.ptrcrd) (i14 h.indcrd) (i14 h.valcrd) (i14 h.rhscrd)]
  simp only
  rw [line3_card _ _ h.trail h.mxtype h.pad11 (i14 h.nrow) (i14 h.ncol) (i14 h.nnz) (i14 h.neltvl)]
  simp only
  rw [hbLine4_card _ _ _ _ _ _ _ h.ptrfmt h.indfmt h.valfmt h.valfmt_len h.rhsfmt h.trail]
  simp only [List.getD_cons_succ, List.getD_cons_zero]
  by_cases hr : f.rhscrd = 0
  · have hr' : ¬ ((f.rhscrd : Int) ≠ 0) := by omega
    rw [if_neg hr', if_pos hr]
    exact hbody
  · have hr' : ((f.rhscrd : Int) ≠ 0) := by omega
    rw [if_pos hr', if_neg hr]
    simp only [List.append_assoc, List.cons_append, List.nil_append]
    rw [dumpLine_line _ _ h.rhsline]
    exact hbody


/-! ## Rutherford-Boeing -/

structure RBFile.WF (f : RBFile) (cplx : Bool) : Prop where
  title : f.title.length = 80
  title_nl : NoNL f.title
  trail : NoNL f.trail
  trail_len : f.trail.length ≤ 18
  totcrd : f.totcrd < 2147483648
  ptrcrd : f.ptrcrd < 2147483648
  indcrd : f.indcrd < 2147483648
  valcrd : f.valcrd < 2147483648
  mxtype : f.mxtype.length = 3
  pad11 : f.pad11.length = 11
  nrow : f.nrow < 2147483648
  ncol : f.ncol < 2147483648
  nnz : f.nnz < 2147483648
  neltvl : f.neltvl < 2147483648
  ptrfmt : f.ptrfmt.WF
  indfmt : f.indfmt.WF
  valfmt : f.valfmt.WF
  valfmt_len : f.valfmt.text.length ≤ 20
  ptr_n : 0 < f.ptrfmt.n
  ptr_line : f.ptrfmt.n * f.ptrfmt.w + f.trail.length ≤ 98
  ind_n : 0 < f.indfmt.n
  ind_line : f.indfmt.n * f.indfmt.w + f.trail.length ≤ 98
  val_n : 0 < f.valfmt.n
  val_line : f.valfmt.n * f.valfmt.w + f.trail.length ≤ 98
  colptr_len : f.colptr.length = f.ncol + 1
  rowind_len : f.rowind.length = f.nnz
  vals_len : f.vals.length = (if cplx then 2 else 1) * f.nnz
  colptr_fit : ∀ p ∈ f.colptr, p + 1 < 2147483648 ∧ (natDigits (p + 1)).length ≤ f.ptrfmt.w
  rowind_fit : ∀ i ∈ f.rowind, i + 1 < 2147483648 ∧ (natDigits (i + 1)).length ≤ f.indfmt.w
  vals_fit : ∀ v ∈ f.vals, v.WF ∧ v.text.length ≤ f.valfmt.w

/-- **`?readrb` returns exactly the matrix the file encodes** (header cards `(A72,A8)`, `(I14,3(1X,I13))`,
`(A3,11X,4(1X,I13))`, `(2A16,A20)`). -/
theorem readRB_writeRB (cplx : Bool) (f : RBFile) (h : f.WF cplx) :
    readRB cplx (writeRB f) =
      some { nrow := f.nrow, ncol := f.ncol, nnz := f.nnz,
             colptr := f.colptr.map (fun (p : Nat) => (p : Int)), rowind := f.rowind.map (fun (p : Nat) => (p : Int)),
             vals := if f.valcrd = 0 then none else some (f.vals.map Dec.value) } := by
  have i14 : ∀ {k : Nat}, k < 2147483648 → (fmtInt 14 k).length = 14 ∧ atoiC (fmtInt 14 k) = some (k : Int) :=
    fun hk => ⟨fmtInt14_length hk, atoiC_fmtInt' 14 hk⟩
  have ix : ∀ {k : Nat}, k < 2147483648 → (x13 k).length = 14 ∧ atoiC (x13 k) = some (k : Int) :=
    fun hk => ⟨x13_length hk, atoiC_x13 hk⟩
  have hbody := readBody_written cplx f.nrow f.ncol f.nnz f.valcrd f.ptrfmt f.indfmt f.valfmt f.trail
    f.colptr f.rowind f.vals f.after h.trail h.ptr_n h.ptr_line h.ind_n h.ind_line h.val_n h.val_line
    h.colptr_len h.rowind_len h.vals_len h.colptr_fit h.rowind_fit h.vals_fit
  unfold writeRB readRB card
  simp only [List.append_assoc, List.cons_append, List.nil_append]
  rw [fgets_card _ _ _ h.title_nl h.trail (by have := h.title; have := h.trail_len; omega)]
  simp only
  rw [cardInts4 _ _ h.trail (i14 h.totcrd) (ix h.ptrcrd) (ix h.indcrd) (ix h.valcrd)]
  simp only
  rw [line3_card _ _ h.trail h.mxtype h.pad11 (ix h.nrow) (ix h.ncol) (ix h.nnz) (ix h.neltvl)]
  simp only
  rw [rbLine4_card _ _ _ _ _ _ (by simp [h.title]; omega) h.ptrfmt h.indfmt h.valfmt h.valfmt_len h.trail]
  simp only [List.getD_cons_succ, List.getD_cons_zero]
  exact hbody


/-! ## symmetric files -/

/-- `(i,j)` is a stored entry of the column-compressed result. -/
def Mat.hasEntry (m : Mat) (i j : Int) : Bool :=
  (List.range m.rowind.length).any fun k =>
    decide (m.colptr.getD j.toNat 0 ≤ (k : Int)) && decide ((k : Int) < m.colptr.getD (j.toNat + 1) 0) &&
      (m.rowind.getD k (-1) == i)

/-- **MXTYPE is never looked at**: two admissible files that differ only in the type field are read identically
(this is the part of the symmetric clause that holds — `symmetric_expansion_partial`). -/
theorem readHB_type_irrelevant (cplx : Bool) (f : HBFile) (ty : Str) (h : f.WF cplx) (hty : ty.length = 3) :
    readHB cplx (writeHB { f with mxtype := ty }) = readHB cplx (writeHB f) := by
  have h' : ({ f with mxtype := ty } : HBFile).WF cplx := { h with mxtype := hty }
  rw [readHB_writeHB cplx _ h', readHB_writeHB cplx f h]

/-- `0.4000E+01` -/
def symV1 : Dec := { neg := false, plus := false, ip := ['0'], fp := "4000".toList,
                     ex := some { letter := 'E', neg := false, plus := true, ds := "01".toList } }
/-- `-0.1000D+01` -/
def symV2 : Dec := { neg := true, plus := false, ip := ['0'], fp := "1000".toList,
                     ex := some { letter := 'D', neg := false, plus := true, ds := "01".toList } }
/-- `.5` -/
def symV3 : Dec := { neg := false, plus := false, ip := [], fp := "5".toList, ex := none }

/-- the 2×2 symmetric matrix [[4,-1],[-1,.5]] stored as its lower triangle, type RSA. -/
def symWitness : HBFile := {
  title := "2x2 symmetric witness".toList ++ blanks 51, key := "KEY     ".toList, trail := [],
  totcrd := 3, ptrcrd := 1, indcrd := 1, valcrd := 1, rhscrd := 0, mxtype := "RSA".toList, pad11 := blanks 11,
  nrow := 2, ncol := 2, nnz := 3, neltvl := 0,
  ptrfmt := { n := 3, w := 4 }, indfmt := { n := 3, w := 4 }, valfmt := { n := 3, w := 12, rest := ".4)".toList },
  rhsfmt := blanks 20, rhsline := [], colptr := [0, 2, 3], rowind := [0, 1, 1],
  vals := [symV1, symV2, symV3],
  after := [] }

theorem natDigits_small {k : Nat} (h : k < 10) : natDigits k = [digitChar k] := by
  rw [natDigits]; simp [h]

theorem natDigits_12 : natDigits 12 = ['1', '2'] := by
  rw [natDigits]; simp only [show ¬ (12 < 10) by decide, if_false]
  rw [natDigits_small (by decide)]; rfl

theorem decWF_intro (d : Dec) (h1 : AllDig d.ip) (h2 : AllDig d.fp) (h3 : d.ip ++ d.fp ≠ [])
    (h4 : ∀ e, d.ex = some e → isExpLetter4 e.letter = true ∧ AllDig e.ds ∧ e.ds ≠ []) : d.WF :=
  ⟨h1, h2, h3, h4⟩

theorem symWitness_wf : symWitness.WF false := by
  have d3 : natDigits 3 = ['3'] := natDigits_small (by decide)
  have d4 : natDigits 4 = ['4'] := natDigits_small (by decide)
  have hi : ({ n := 3, w := 4 } : IntDesc).WF := by
    refine ⟨by decide, by decide, by decide, by decide, ?_⟩
    simp [IntDesc.text, d3, d4]
  have hv : ({ n := 3, w := 12, rest := ".4)".toList } : RealDesc).WF := by
    refine ⟨by decide, by decide, by decide, by decide, ⟨'.', ['4', ')'], rfl, by decide⟩, ?_⟩
    intro k p h; cases h
  have fit : ∀ p, p + 1 < 10 → p + 1 < 2147483648 ∧ (natDigits (p + 1)).length ≤ 4 := by
    intro p hp; exact ⟨by omega, by rw [natDigits_small hp]; simp⟩
  refine { title := by decide, key := by decide, trail := (by intro c hc; cases hc),
           totcrd := by decide, ptrcrd := by decide, indcrd := by decide, valcrd := by decide, rhscrd := by decide,
           mxtype := by decide, pad11 := by decide, nrow := by decide, ncol := by decide, nnz := by decide,
           neltvl := by decide, ptrfmt := hi, indfmt := hi, valfmt := hv, valfmt_len := ?_, rhsfmt := by decide,
           rhsline := (by intro c hc; cases hc), ptr_n := by decide, ptr_line := by decide, ind_n := by decide,
           ind_line := by decide, val_n := by decide, val_line := by decide, colptr_len := by decide,
           rowind_len := by decide, vals_len := by decide, colptr_fit := ?_, rowind_fit := ?_, vals_fit := ?_ }
  · show (RealDesc.text { n := 3, w := 12, rest := ".4)".toList }).length ≤ 20
    simp [RealDesc.text, d3, natDigits_12]
  · show ∀ p ∈ ([0, 2, 3] : List Nat), _
    intro p hp
    simp only [List.mem_cons, List.not_mem_nil, or_false] at hp
    rcases hp with rfl | rfl | rfl <;> exact fit _ (by decide)
  · show ∀ p ∈ ([0, 1, 1] : List Nat), _
    intro p hp
    simp only [List.mem_cons, List.not_mem_nil, or_false] at hp
    rcases hp with rfl | rfl | rfl <;> exact fit _ (by decide)
  · show ∀ v ∈ [symV1, symV2, symV3], v.WF ∧ v.text.length ≤ 12
    intro v hv
    simp only [List.mem_cons, List.not_mem_nil, or_false] at hv
    rcases hv with rfl | rfl | rfl
    · refine ⟨decWF_intro _ (by decide) (by decide) (by decide) ?_, by decide⟩
      intro e he; cases he; exact ⟨by decide, by decide, by decide⟩
    · refine ⟨decWF_intro _ (by decide) (by decide) (by decide) ?_, by decide⟩
      intro e he; cases he; exact ⟨by decide, by decide, by decide⟩
    · refine ⟨decWF_intro _ (by decide) (by decide) (by decide) ?_, by decide⟩
      intro e he; cases he

/-- what `?readhb` returns for the witness: the stored triangle, 3 entries. -/
theorem symWitness_read :
    readHB false (writeHB symWitness) =
      some { nrow := 2, ncol := 2, nnz := 3, colptr := [0, 2, 3], rowind := [0, 1, 1],
             vals := some [(4000, -3), (-1000, -3), (5, -1)] } := by
  rw [readHB_writeHB false symWitness symWitness_wf]; rfl

/-- The property's clause "symmetric files expanded", stated for the HB reader. -/
def SymmetricExpansion : Prop :=
  ∀ (f : HBFile), f.WF false → f.mxtype = "RSA".toList →
    ∀ m, readHB false (writeHB f) = some m → ∀ i j, m.hasEntry i j = true → m.hasEntry j i = true

/-- **FAILS on the unchanged code** (finding `symmetric-not-expanded`): the readers contain no expansion; the 2×2
witness is returned with entry (1,0) but without entry (0,1). -/
theorem symmetric_expansion_fails : ¬ SymmetricExpansion := by
  intro h
  have := h symWitness symWitness_wf rfl _ symWitness_read 1 0 (by decide)
  revert this; decide

/-! ## non-vacuity of the round-trip theorems -/

/-- the same file with a right-hand-side header card (RHSCRD = 1). -/
def symWitnessRhs : HBFile :=
  { symWitness with rhscrd := 1, rhsline := "F                          1             0".toList }

theorem symWitnessRhs_wf : symWitnessRhs.WF false :=
  { symWitness_wf with rhscrd := by decide, rhsline := by decide }

/-- with and without the RHS header card the same matrix is returned. -/
example : readHB false (writeHB symWitnessRhs) = readHB false (writeHB symWitness) :=
  (readHB_writeHB false symWitnessRhs symWitnessRhs_wf).trans (readHB_writeHB false symWitness symWitness_wf).symm

/-- a Rutherford-Boeing image of the same matrix. -/
def rbWitness : RBFile := {
  title := "2x2 witness, Rutherford-Boeing".toList ++ blanks 50, trail := [],
  totcrd := 3, ptrcrd := 1, indcrd := 1, valcrd := 1, mxtype := "rua".toList, pad11 := blanks 11,
  nrow := 2, ncol := 2, nnz := 3, neltvl := 0,
  ptrfmt := symWitness.ptrfmt, indfmt := symWitness.indfmt, valfmt := symWitness.valfmt,
  colptr := [0, 2, 3], rowind := [0, 1, 1], vals := [symV1, symV2, symV3], after := [] }

theorem rbWitness_wf : rbWitness.WF false :=
  { title := by decide, title_nl := by decide, trail := by decide, trail_len := by decide,
    totcrd := by decide, ptrcrd := by decide, indcrd := by decide, valcrd := by decide,
    mxtype := by decide, pad11 := by decide, nrow := by decide, ncol := by decide, nnz := by decide,
    neltvl := by decide, ptrfmt := symWitness_wf.ptrfmt, indfmt := symWitness_wf.indfmt, valfmt := symWitness_wf.valfmt,
    valfmt_len := symWitness_wf.valfmt_len, ptr_n := by decide, ptr_line := by decide, ind_n := by decide,
    ind_line := by decide, val_n := by decide, val_line := by decide, colptr_len := by decide,
    rowind_len := by decide, vals_len := by decide, colptr_fit := symWitness_wf.colptr_fit,
    rowind_fit := symWitness_wf.rowind_fit, vals_fit := symWitness_wf.vals_fit }

example : readRB false (writeRB rbWitness) =
    some { nrow := 2, ncol := 2, nnz := 3, colptr := [0, 2, 3], rowind := [0, 1, 1],
           vals := some [(4000, -3), (-1000, -3), (5, -1)] } := by
  rw [readRB_writeRB false rbWitness rbWitness_wf]; rfl


/-! ## the `?readmt` column-list text form -/

structure MTFile.WF (cplx : Bool) (f : MTFile) : Prop where
  title : NoNL f.title
  title_len : f.title.length < 80
  pre : WsAll f.pre
  nrow : f.nrow < 2147483648
  sep1 : WsAll f.sep1 ∧ f.sep1 ≠ []
  ncol : f.cols.length < 2147483648
  sep2 : WsAll f.sep2 ∧ f.sep2 ≠ []
  nnz : f.nnz < 2147483648
  post : WsAll f.post ∧ f.post ≠ []
  count : f.nnz = mtCount f.cols
  cols : ∀ c ∈ f.cols, c.WF cplx

/-- **`?readmt` returns exactly the matrix the file encodes**: title line, `nrow ncol nnz`, then per column its
count and `index value` pairs (`index re im` for complex), tokens separated by arbitrary white space, 1-based row
indices, values printed as decimals with `E`/`e` exponents. -/
theorem readMT_writeMT (cplx : Bool) (f : MTFile) (h : f.WF cplx) :
    readMT cplx (writeMT cplx f) =
      some { nrow := f.nrow, ncol := f.cols.length, nnz := f.nnz,
             colptr := mtColptr 0 f.cols, rowind := mtRows f.cols, vals := some (mtVals cplx f.cols) } := by
  have ht : mtTitle (f.title ++ '\n' :: (f.pre ++ (natDigits f.nrow ++ (f.sep1 ++ (natDigits f.cols.length ++ (f.sep2 ++
      (natDigits f.nnz ++ (f.post ++ ((f.cols.map (MTCol.text cplx)).flatten ++ f.after))))))))) =
      some (f.pre ++ (natDigits f.nrow ++ (f.sep1 ++ (natDigits f.cols.length ++ (f.sep2 ++
      (natDigits f.nnz ++ (f.post ++ ((f.cols.map (MTCol.text cplx)).flatten ++ f.after)))))))) := by
    unfold mtTitle
    rw [takeUntil_append (p := (· == '\n')) h.title (by decide)]
    have : ¬ (f.title.length ≥ 80) := by have := h.title_len; omega
    simp only [if_neg this]
    congr 1
    rw [List.drop_append]
    simp
  have h1 := scanInt_digits (rest := f.sep1 ++ (natDigits f.cols.length ++ (f.sep2 ++
      (natDigits f.nnz ++ (f.post ++ ((f.cols.map (MTCol.text cplx)).flatten ++ f.after))))))
      h.pre h.nrow (wsHead_append h.sep1.1 h.sep1.2).noDig
  have h2 := scanInt_digits (rest := f.sep2 ++
      (natDigits f.nnz ++ (f.post ++ ((f.cols.map (MTCol.text cplx)).flatten ++ f.after))))
      h.sep1.1 h.ncol (wsHead_append h.sep2.1 h.sep2.2).noDig
  have h3 := scanInt_digits (rest := f.post ++ ((f.cols.map (MTCol.text cplx)).flatten ++ f.after))
      h.sep2.1 h.nnz (wsHead_append h.post.1 h.post.2).noDig
  obtain ⟨ptr, hp1, hp2⟩ := mtCols_written cplx (f.nnz : Int) f.cols 0 f.after
    (f.post ++ ((f.cols.map (MTCol.text cplx)).flatten ++ f.after)) h.cols
    (by rw [h.count]; simp) (skipSpace_ws h.post.1 _)
  have hneg : ¬ ((f.cols.length : Int) < 0 ∨ (f.nnz : Int) < 0) := by omega
  unfold readMT writeMT
  simp only [ht, h1, h2, h3, Option.bind_some, bind]
  rw [if_neg hneg]
  simp only [Int.toNat_natCast]
  have : ((0 : Nat) : Int) = 0 := rfl
  rw [← this, hp1]
  simp only [Option.bind_some]
  rw [hp2]

/-- non-vacuity: the 2×2 matrix [[4, 0], [-0.15, .5]] in the text form. -/
def mtV1 : Dec := { neg := false, plus := false, ip := ['4'], fp := [], ex := none }
def mtV2 : Dec := { neg := true, plus := false, ip := ['1'], fp := ['5'],
                    ex := some { letter := 'e', neg := true, plus := false, ds := ['1'] } }
def mtV3 : Dec := { neg := false, plus := false, ip := [], fp := ['5'], ex := none }

def mtWitness : MTFile := { title := "2x2 witness".toList, nrow := 2, nnz := 3, cols := [
  { entries := [ { row := 0, re := mtV1 }, { row := 1, re := mtV2 } ] },
  { entries := [ { row := 1, re := mtV3 } ] } ] }

theorem decWFE_intro (d : Dec) (h1 : AllDig d.ip) (h2 : AllDig d.fp) (h3 : d.ip ++ d.fp ≠ [])
    (h4 : ∀ e, d.ex = some e → isExpLetter e.letter = true ∧ AllDig e.ds ∧ e.ds ≠ []) : d.WFE := by
  refine ⟨⟨h1, h2, h3, fun e he => ⟨?_, (h4 e he).2.1, (h4 e he).2.2⟩⟩, fun e he => (h4 e he).1⟩
  have := (h4 e he).1
  simp only [isExpLetter, Bool.or_eq_true, beq_iff_eq] at this
  rcases this with h | h <;> simp [isExpLetter4, h]

theorem mtV1_wfe : mtV1.WFE := decWFE_intro _ (by decide) (by decide) (by decide) (by intro e he; cases he)
theorem mtV2_wfe : mtV2.WFE := decWFE_intro _ (by decide) (by decide) (by decide)
  (by intro e he; cases he; exact ⟨by decide, by decide, by decide⟩)
theorem mtV3_wfe : mtV3.WFE := decWFE_intro _ (by decide) (by decide) (by decide) (by intro e he; cases he)

theorem mtEntryWF (row : Nat) (d : Dec) (hr : row + 1 < 2147483648) (hd : d.WFE) :
    ({ row := row, re := d } : MTEntry).WF false :=
  { pre := (by show WsAll []; decide), row := hr, mid := (by show WsAll [' '] ∧ [' '] ≠ []; decide), re := hd,
    mid2 := (by show WsAll [' '] ∧ [' '] ≠ []; decide), im := (by intro h; cases h),
    post := (by show WsAll ['\n'] ∧ ['\n'] ≠ []; decide) }

theorem mtWitness_wf : mtWitness.WF false := by
  refine { title := by decide, title_len := by decide, pre := by decide, nrow := by decide, sep1 := by decide,
           ncol := by decide, sep2 := by decide, nnz := by decide, post := by decide, count := by decide, cols := ?_ }
  show ∀ c ∈ [({ entries := [ { row := 0, re := mtV1 }, { row := 1, re := mtV2 } ] } : MTCol),
              { entries := [ { row := 1, re := mtV3 } ] }], c.WF false
  intro c hc
  simp only [List.mem_cons, List.not_mem_nil, or_false] at hc
  rcases hc with rfl | rfl
  · refine { pre := by decide, post := by decide, len := by decide, entries := ?_ }
    intro e he
    simp only [List.mem_cons, List.not_mem_nil, or_false] at he
    rcases he with rfl | rfl
    · exact mtEntryWF 0 mtV1 (by decide) mtV1_wfe
    · exact mtEntryWF 1 mtV2 (by decide) mtV2_wfe
  · refine { pre := by decide, post := by decide, len := by decide, entries := ?_ }
    intro e he
    simp only [List.mem_cons, List.not_mem_nil, or_false] at he
    subst he
    exact mtEntryWF 1 mtV3 (by decide) mtV3_wfe

example : readMT false (writeMT false mtWitness) =
    some { nrow := 2, ncol := 2, nnz := 3, colptr := [0, 2, 3], rowind := [0, 1, 1],
           vals := some [(4, 0), (-15, -2), (5, -1)] } := by
  rw [readMT_writeMT false mtWitness mtWitness_wf]; rfl

end Slu.Read
