import SluVerif.Props.Checkers
#print axioms Slu.checkLU_iff
#print axioms Slu.luEntry_rat
#print axioms Slu.checkResidual_iff
#print axioms Slu.checkDiagPref_iff
#print axioms Slu.checkPerm_iff
