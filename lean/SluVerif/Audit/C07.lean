import SluVerif.Props.C11
import SluVerif.Props.C01
#print axioms Slu.factor_identity
#print axioms Slu.factor_permR_isPerm
#print axioms Slu.Equil.gssvx_equil_frame
#print axioms Slu.Equil.gssvx_equil_outputs
#print axioms Slu.Equil.gssvx_factored_outputs
#print axioms Slu.Equil.equil_solve_sound
#print axioms Slu.solve_correct
