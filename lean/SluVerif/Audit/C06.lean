import SluVerif.Props.C06
#print axioms Slu.info_zero_iff
#print axioms Slu.info_first_zero_pivot
#print axioms Slu.info_range
#print axioms Slu.step_singular_iff
#print axioms Slu.info_combine_order_free
#print axioms Slu.info_combine_split
#print axioms Slu.combineInfo_spec
#print axioms Slu.factor_permR_isPerm
#print axioms Slu.factor_identity
#print axioms Slu.pivot_singular_iff
#print axioms Slu.pivot_singular_shape
#print axioms Slu.pivot_outOfRange_iff
