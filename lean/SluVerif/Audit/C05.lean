import SluVerif.Props.C05
import SluVerif.Props.C05Dyn
#print axioms Slu.slots_tile
#print axioms Slu.slots_disjoint
#print axioms Slu.bump_in_slot
#print axioms Slu.bump_stays_in_capacity
#print axioms Slu.bump_overruns
#print axioms Slu.bump_disjoint
#print axioms Slu.bumpChecked_safe
#print axioms Slu.bumpChecked_aborts_iff
#print axioms Slu.reservations_disjoint
#print axioms Slu.alloc_in_slot_iff
#print axioms Slu.alloc_overruns_neighbour
#print axioms Slu.dinv_run
