import SluVerif.Props.C05
#print axioms Slu.slots_tile
#print axioms Slu.slots_disjoint
#print axioms Slu.bump_in_slot
#print axioms Slu.bump_stays_in_capacity
#print axioms Slu.bump_overruns
#print axioms Slu.bump_disjoint
#print axioms Slu.bumpChecked_safe
#print axioms Slu.bumpChecked_aborts_iff
