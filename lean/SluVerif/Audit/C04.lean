import SluVerif.Props.C03Global
import SluVerif.Proofs.RelaxSnode
import SluVerif.Proofs.PanelWidth
import SluVerif.Proofs.InitCursor
#print axioms Slu.dequeue_spec
#print axioms Slu.pickPanel_spec
#print axioms Slu.takePanel_spec
#print axioms Slu.schedule_spec
#print axioms Slu.schedule_frame
#print axioms Slu.sysInv_loop
#print axioms Slu.sysInv_finish
#print axioms Slu.sysInv_sched
#print axioms Slu.sysInv_of_initOk
#print axioms Slu.global_invariant
#print axioms Slu.global_tasks_remain
#print axioms Slu.global_queue_bounded
#print axioms Slu.global_handouts_nodup
#print axioms Slu.global_owner_unique
#print axioms Slu.taken_monotone
#print axioms Slu.handout_untaken
#print axioms Slu.progInv_sched
#print axioms Slu.progInv_finish
#print axioms Slu.progress
#print axioms Slu.global_progress
#print axioms Slu.global_not_stuck
#print axioms Slu.phi_step
#print axioms Slu.global_gains_bounded
#print axioms Slu.relaxSnode_ok
#print axioms Slu.relaxSnode_disjoint
#print axioms Slu.relaxSnode_fcols_increasing
#print axioms Slu.relaxSnode_ok_of_check
#print axioms Slu.climb_stops
#print axioms Slu.nextLeaf_stops
#print axioms Slu.relaxSnode_fuel_irrelevant
#print axioms Slu.relaxSnode_top_maximal
#print axioms Slu.pw0_bounds
#print axioms Slu.panelWidth_bounds
#print axioms Slu.panelWidth_no_branch
#print axioms Slu.initStep_cursor
#print axioms Slu.initLoop_cursor
#print axioms Slu.parallelInit_loop_covers
#print axioms Slu.initLoop_frame
#print axioms Slu.parallelInit_queue_cursors
#print axioms Slu.parallelInit_sizes
#print axioms Slu.initLoop_fb
#print axioms Slu.initLoop_state
#print axioms Slu.cursors_increasing
