import SluVerif.Props.C04Global
#print axioms Slu.dequeue_spec
#print axioms Slu.pickPanel_spec
#print axioms Slu.takePanel_spec
#print axioms Slu.schedule_spec
#print axioms Slu.schedule_frame
#print axioms Slu.sysInv_loop
#print axioms Slu.sysInv_finish
#print axioms Slu.sysInv_sched
#print axioms Slu.sysInv_of_initOk
#print axioms Slu.global_invariant
#print axioms Slu.global_tasks_remain
#print axioms Slu.global_queue_bounded
#print axioms Slu.global_handouts_nodup
#print axioms Slu.global_owner_unique
#print axioms Slu.taken_monotone
#print axioms Slu.handout_untaken
