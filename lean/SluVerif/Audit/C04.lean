import SluVerif.Props.C04
#print axioms Slu.dequeue_spec
#print axioms Slu.pickPanel_spec
#print axioms Slu.takePanel_spec
#print axioms Slu.schedule_spec
