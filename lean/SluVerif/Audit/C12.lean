import SluVerif.Props.C12
#print axioms Slu.lacon_terminates
#print axioms Slu.lacon_upper
#print axioms Slu.lacon_upper_of_bound
#print axioms Slu.lacon_lower
#print axioms Slu.gscon_bounds
#print axioms Slu.gssvx_norm_choice
#print axioms Slu.info_n_plus_1
#print axioms Slu.langs_spec
#print axioms Slu.growth_spec_partial
#print axioms Slu.growth_spec_counterexample
