import SluVerif.Props.C16
#print axioms Slu.pivot_diag_at_zero_threshold
#print axioms Slu.step_diag_pivot
#print axioms Slu.factor_diag_pivots
#print axioms Slu.factor_identity
#print axioms Slu.factor_permR_isPerm
