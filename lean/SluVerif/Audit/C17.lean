import SluVerif.Props.C17
#print axioms Slu.replayL_nodup
#print axioms Slu.replayL_count
#print axioms Slu.replayL_live_iff
#print axioms Slu.checkBalanced_iff
#print axioms Slu.checkCall_iff
