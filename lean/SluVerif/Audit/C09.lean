import SluVerif.Props.C09
import SluVerif.Props.C09Fixup
import SluVerif.Props.LU
#print axioms Slu.wf_gives_unit_lower
#print axioms Slu.wf_gives_upper
#print axioms Slu.wf_dep_order
#print axioms Slu.wf_col_in_snode
#print axioms Slu.checkPerm_iff
#print axioms Slu.fixupL_spec
#print axioms Slu.fixupL_inplace_needs_storage_order
#print axioms Slu.factor_permR_isPerm
