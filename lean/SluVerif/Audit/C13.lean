import SluVerif.Props.C13
#print axioms Slu.rfs_terminates
#print axioms Slu.berr_of_returned_x
#print axioms Slu.gsrfs_berr_truthful
#print axioms Slu.rfs_transpose_sense
#print axioms Slu.ferr_operator
#print axioms Slu.ferr_le_bound
#print axioms Slu.quick_return
