import SluVerif.Props.C08
import SluVerif.Props.C18
#print axioms Slu.hist_correct_from_empty
#print axioms Slu.ustep_system
#print axioms Slu.fresh_call_independent
