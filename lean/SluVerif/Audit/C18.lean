import SluVerif.Props.C08
#print axioms Slu.hist_correct_from_empty
