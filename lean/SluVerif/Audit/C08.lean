import SluVerif.Props.C08
import SluVerif.Props.C02
#print axioms Slu.hist_correct
#print axioms Slu.hist_correct_from_empty
#print axioms Slu.solve_readonly
#print axioms Slu.pivot_usepr_kept
#print axioms Slu.factor_identity
