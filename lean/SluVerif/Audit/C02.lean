import SluVerif.Props.C02
import SluVerif.Props.CheckersC
import SluVerif.Props.LU
#print axioms Slu.factor_identity
#print axioms Slu.factor_identity_permuted
#print axioms Slu.factor_unit_lower
#print axioms Slu.factor_upper
#print axioms Slu.factor_bijection
#print axioms Slu.factor_permR_isPerm
#print axioms Slu.pivot_singular_iff
#print axioms Slu.pivot_singular_shape
#print axioms Slu.pivot_outOfRange_iff
#print axioms Slu.pivot_threshold
#print axioms Slu.pivot_multiplier_bound
#print axioms Slu.pivot_diag_preferred
#print axioms Slu.pivot_else_first_max
#print axioms Slu.pivot_usepr_kept
#print axioms Slu.checkLU_iff
#print axioms Slu.luEntry_rat
#print axioms Slu.checkMultipliers_iff
#print axioms Slu.checkDiagPref_iff
#print axioms Slu.isUnitLower_iff
#print axioms Slu.isUpper_iff
#print axioms Slu.cCheckLU_sound
