import SluVerif.Props.Checkers
import SluVerif.Props.C01
#print axioms Slu.checkResidual_iff
#print axioms Slu.factor_identity
#print axioms Slu.factor_permR_isPerm
#print axioms Slu.solve_correct
