import SluVerif.Props.Checkers
import SluVerif.Props.LU
#print axioms Slu.checkResidual_iff
#print axioms Slu.factor_identity
#print axioms Slu.factor_permR_isPerm
