import SluVerif.Props.CheckersC
import SluVerif.Props.C01
#print axioms Slu.checkResidual_iff
#print axioms Slu.factor_identity
#print axioms Slu.factor_permR_isPerm
#print axioms Slu.solve_correct
#print axioms Slu.cCheckLU_sound
