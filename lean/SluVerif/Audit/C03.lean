import SluVerif.Props.C04Global
#print axioms Slu.schedule_spec
#print axioms Slu.takePanel_spec
#print axioms Slu.global_invariant
#print axioms Slu.global_children_started
#print axioms Slu.global_parent_unready
#print axioms Slu.global_owner_unique
