import SluVerif.Props.C03Global
#print axioms Slu.schedule_spec
#print axioms Slu.takePanel_spec
#print axioms Slu.global_invariant
#print axioms Slu.global_children_started
#print axioms Slu.global_parent_unready
#print axioms Slu.global_owner_unique
#print axioms Slu.waitChain_desc
#print axioms Slu.desc_taken
#print axioms Slu.global_progress
#print axioms Slu.pipeInv_sched
#print axioms Slu.pipeInv_finish
#print axioms Slu.global_all_invariants
#print axioms Slu.global_handout_chain
#print axioms Slu.global_finish_descendants_done
