import SluVerif.Props.C04
#print axioms Slu.schedule_spec
#print axioms Slu.takePanel_spec
