import SluVerif.Props.C14
#print axioms Slu.mallocTail_spec
#print axioms Slu.mallocHead_spec
#print axioms Slu.alignUp_spec
#print axioms Slu.wstep_inv
#print axioms Slu.wrun_inv
#print axioms Slu.workers_blocks_safe
#print axioms Slu.orig_free_overlap
#print axioms Slu.orig_align_steals
#print axioms Slu.orig_align_overlap
