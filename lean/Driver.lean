import Driver.Tok
import Driver.LuCheck
import Driver.PivotEng
import Driver.FactorEng
import Driver.SchedEng
import Driver.FixupEng
import Driver.Main
