import Driver.Tok
import Driver.LuCheck
import Driver.Main
