#!/bin/bash
# seed_all.sh — apply every kept seeded change to /repo in turn, run the check of its property (quick tier, no Lean stage), revert.
# Prints one line per seed: CAUGHT / MISSED.  /repo is left clean.
cd "$(dirname "$0")"
for d in seeded/*/; do
  id=$(basename $d); prop=${id%%_*}
  git -C /repo apply --whitespace=nowarn $(pwd)/$d/patch.diff 2>/dev/null || { echo "$id PATCH-DOES-NOT-APPLY"; continue; }
  out=$(VERIF_SEED=${VERIF_SEED:-1} python3 check.py $prop --skip-lean 2>&1 | grep "^\[$prop\] tier")
  git -C /repo checkout -- .
  v=$(echo "$out" | sed 's/.*violations=\([0-9]*\).*/\1/')
  if [ "${v:-0}" -gt 0 ]; then echo "$id CAUGHT ($v)"; else echo "$id MISSED :: $out"; fi
done
git -C /repo status --short | grep -v "^??"
