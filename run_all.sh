#!/bin/bash
# run every registered check's quick (or $1) tier and print the summary lines
TIER=${1:-quick}
cd "$(dirname "$0")"
for p in $(python3 -c "import json; print(' '.join(c['property_id'] for c in json.load(open('MANIFEST.json'))['checks']))"); do
  python3 check.py $p --tier $TIER 2>&1 | grep "^VIOLATION\|^\[$p\] tier" 
done
