#!/usr/bin/env python3
"""check.py <PROPERTY> [--tier quick|thorough] [--replay FILE]

One entry point for every property (what MANIFEST.json registers).  Per run:
  1. regenerate lean/SluVerif/Gen/* from /repo, `lake build` (incremental), axiom audit of the
     property's theorems, forbidden-token grep            -> proof obligations
  2. rebuild libslu.a + harnesses from /repo's working tree, run the property's correspondence and
     oracle module (checks/<id>.py)                           -> correspondence + search
  3. write evidence/<id>.json, print VIOLATION / KNOWN-FINDING lines, exit 0/1.
"""
import sys, os, time, json, argparse, importlib, traceback
sys.path.insert(0, os.path.dirname(os.path.abspath(__file__)))
from vlib import common as C


class Ctx:
    def __init__(self, pid, tier, seed):
        self.pid, self.tier, self.seed = pid, tier, seed
        self.violations = []      # dicts: key, what, replay(obj), no_input(bool)
        self.coverage = {}
        self.assumptions = []
        self.notes = []
        self.obligations = []     # (theorem, axioms|None)
        self.lean_ok = True
        self.lean_log = ""

    def quick(self):
        return self.tier == "quick"

    def violation(self, key, what, replay, no_input=False):
        self.violations.append({"key": key, "what": what, "replay": replay, "no_input": no_input})

    def log(self, *a):
        print("[%s]" % self.pid, *a, flush=True)


def lean_stage(ctx, mod):
    """Proof obligations of this property: generated files, build, audit."""
    t0 = time.time()
    gens = getattr(mod, "GENERATORS", [])
    for g in gens:
        try:
            importlib.import_module("gen." + g).generate()
        except Exception as e:
            ctx.lean_ok = False; ctx.lean_log += "generator %s failed: %s\n" % (g, e)
    ok, log = C.lake_build()
    if not ok:
        ctx.lean_ok = False
        ctx.lean_log += log[-6000:]
    hits = C.grep_forbidden()
    if hits:
        ctx.lean_ok = False; ctx.lean_log += "forbidden tokens:\n" + "\n".join(hits) + "\n"
    names = C.theorem_names(ctx.pid)
    ax = C.audit_axioms(ctx.pid) if ok else {}
    disc = 0
    for nm in names:
        a = ax.get(nm)
        good = a is not None and set(a) <= C.ALLOWED_AXIOMS
        ctx.obligations.append({"theorem": nm, "axioms": a, "ok": good})
        if good:
            disc += 1
        else:
            ctx.lean_ok = False; ctx.lean_log += "theorem %s: not checked or unacceptable axioms %s\n" % (nm, a)
    if "__error__" in ax:
        ctx.lean_ok = False; ctx.lean_log += "audit error: %s\n" % ax["__error__"][0][-1500:]
    ctx.coverage["obligations"] = len(names)
    ctx.coverage["discharged"] = disc
    ctx.coverage["checker_cmd"] = "cd lean && lake build && lake env lean SluVerif/Audit/%s.lean  (#print axioms per theorem)" % ctx.pid
    ctx.coverage["theorems"] = ctx.obligations
    ctx.coverage["lean_wall_s"] = round(time.time() - t0, 1)
    return ctx.lean_ok


def main():
    ap = argparse.ArgumentParser()
    ap.add_argument("pid")
    ap.add_argument("--tier", default=os.environ.get("VERIF_TIER", "quick"), choices=["quick", "thorough"])
    ap.add_argument("--replay", default=None)
    ap.add_argument("--skip-lean", action="store_true", help="development only")
    a = ap.parse_args()
    pid = a.pid.upper()
    seed = C.seed_from_env(1)
    t0 = time.time()
    mod = importlib.import_module("checks." + pid.lower())
    ctx = Ctx(pid, a.tier, seed)
    ctx.coverage["trusted_base"] = [
        "Lean 4.33.0 kernel; axioms per theorem listed under coverage.theorems (allowed: propext, Classical.choice, Quot.sound)",
        "Mathlib v4.33.0 modules imported by proof files",
        "correspondence model<->code is sampled (this run's counts below), not proved",
        "harness C glue, Python canonicalisation (hex float -> dyadic integers), sludrv token I/O",
        "vendor BLAS / libm / pthread / OS allocator are outside every model",
    ] + list(getattr(mod, "TRUSTED", []))
    if a.replay:
        rc = mod.replay(ctx, json.load(open(a.replay)))
        sys.exit(rc)
    try:
        if not a.skip_lean:
            lean_stage(ctx, mod)
        mod.run(ctx)
        if not ctx.lean_ok:
            # a proof obligation no longer checks.  If the search above found a concrete failing input
            # it is already among the violations; otherwise report no-failing-input-found.
            if not [v for v in ctx.violations if not v["no_input"]]:
                ctx.violation("lean-obligation", "proof obligation / model build no longer checks",
                              {"kind": "obligation", "log": ctx.lean_log[-4000:], "theorems": ctx.obligations}, no_input=True)
    except Exception as e:
        traceback.print_exc()
        ctx.violation("check-crashed", "check machinery failed: %r" % (e,), {"kind": "machinery", "trace": traceback.format_exc()[-4000:]}, no_input=True)
    # known findings
    kf = [k for k in C.known_findings() if k.get("property") == pid and k.get("kind") == "finding"]
    new = []
    seen_kf = set()
    for v in ctx.violations:
        m = [k for k in kf if k.get("key") == v["key"]]
        if m:
            if v["key"] not in seen_kf:
                print("KNOWN-FINDING: property=%s %s" % (pid, m[0].get("note", v["what"])))
                seen_kf.add(v["key"])
        else:
            new.append(v)
    if not ctx.lean_ok and not [v for v in new if not v["no_input"]]:
        # a proof obligation / the model build no longer checks and the search found no NEW concrete failing input
        # (known findings do not count): report it, naming what no longer checks.
        if not [v for v in new if v["key"] == "lean-obligation"]:
            new.append({"key": "lean-obligation", "what": "proof obligation / model build no longer checks: " + ctx.lean_log[-300:].replace("\n", " | "),
                        "replay": {"kind": "obligation", "log": ctx.lean_log[-4000:], "theorems": ctx.obligations}, "no_input": True})
    # a broken proof/correspondence is reported with "no-failing-input-found" only when the search produced no concrete
    # failing input; when it did, the concrete input is the report and the broken obligation is recorded beside it.
    concrete = [v for v in new if not v["no_input"]]
    if concrete:
        for v in [v for v in new if v["no_input"] and v["key"] != "check-crashed"]:
            ctx.notes.append("also no longer checks: %s (%s)" % (v["key"], v["what"][:200]))
            concrete[0]["replay"] = {"failing_input": concrete[0]["replay"], "broken_obligation": {"key": v["key"], "what": v["what"], "detail": v["replay"]}} \
                if "failing_input" not in (concrete[0]["replay"] if isinstance(concrete[0]["replay"], dict) else {}) else concrete[0]["replay"]
        new = [v for v in new if not v["no_input"] or v["key"] == "check-crashed"]
    level = getattr(mod, "LEVEL", "other")
    cov = ctx.coverage
    from collections import Counter
    cov["violation_keys_all"] = dict(Counter(v["key"] for v in ctx.violations))
    cov.setdefault("explanation", getattr(mod, "EXPLANATION", ""))
    cov["known_findings_seen"] = sorted(seen_kf)
    cov["notes"] = ctx.notes
    C.write_evidence(pid, a.tier, seed, level, cov, time.time() - t0, len(new), ctx.assumptions + list(getattr(mod, "ASSUMPTIONS", [])))
    rc = 0
    reported = set()
    for v in new:
        if v["key"] in reported:
            continue
        reported.add(v["key"])
        path = C.write_replay(pid, {"property": pid, "key": v["key"], "what": v["what"], "seed": seed, "tier": a.tier, "replay": v["replay"]})
        print("VIOLATION property=%s replay=%s%s" % (pid, path, " no-failing-input-found" if v["no_input"] else ""))
        print("  " + v["what"][:300])
        rc = 1
    print("[%s] tier=%s seed=%d wall=%.1fs obligations=%s/%s violations=%d known=%d" % (
        pid, a.tier, seed, time.time() - t0, cov.get("discharged"), cov.get("obligations"), len(reported), len(seen_kf)))
    sys.exit(rc)


if __name__ == "__main__":
    main()
